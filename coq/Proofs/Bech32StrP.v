(* Proofs/Bech32StrP.v — lemmas about Model/Bech32.v (C11), part 2: the string level of bech32_decode /
   bech32_encode (CHARSET facts, rfind, case), acceptance characterisation, encode -> decode inverse,
   rejection of mixed case / wrong constant / bad length. *)
From PV Require Import Base.Bytes Base.Outcome Gen.GenCodecsC11 Model.Base58 Model.Bech32
  Proofs.Base58P Proofs.Bech32P.
From Coq Require Import ZifyBool ZifyNat ZifyN.
Local Open Scope Z_scope.

(* ---- CHARSET facts (decided by computation on the generated table) ---------------------------------- *)
Definition charset_digit_ok (i : nat) : bool :=
  match charset_at (Z.of_nat i) with
  | Some c => in_charset c && (charset_find c =? Z.of_nat i) && (lower_c c =? c)%N
              && (33 <=? c)%N && (c <=? 126)%N && negb (c =? 49)%N
  | None => false
  end.
Lemma charset_digits_ok : forallb charset_digit_ok (seq 0 32) = true.
Proof. vm_compute. reflexivity. Qed.

Definition charset_char_ok (c : N) : bool :=
  (0 <=? charset_find c) && (charset_find c <? 32)
  && match charset_at (charset_find c) with Some c' => (c' =? c)%N | None => false end.
Lemma charset_chars_ok : forallb charset_char_ok bech32_charset = true.
Proof. vm_compute. reflexivity. Qed.

Record charset_digit_facts (d : Z) (c : N) : Prop := {
  cd_at : charset_at d = Some c;
  cd_in : in_charset c = true;
  cd_find : charset_find c = d;
  cd_lower : lower_c c = c;
  cd_print : (33 <= c <= 126)%N;
  cd_not1 : c <> 49%N
}.

Lemma charset_digit d : 0 <= d < 32 -> exists c, charset_digit_facts d c.
Proof.
  intros Hd. pose proof (proj1 (forallb_forall _ _) charset_digits_ok (Z.to_nat d)) as K.
  specialize (K ltac:(apply in_seq; lia)). unfold charset_digit_ok in K.
  replace (Z.of_nat (Z.to_nat d)) with d in K by lia.
  destruct (charset_at d) as [c|] eqn:Ea; [|discriminate]. exists c.
  repeat (apply andb_true_iff in K; destruct K as [K ?]).
  split; [exact Ea|exact K|lia..].
Qed.

Lemma in_charset_In c : in_charset c = true <-> In c bech32_charset.
Proof.
  unfold in_charset. rewrite existsb_exists. split.
  - intros (x & Hx & E). apply N.eqb_eq in E. now subst.
  - intros H. exists c. split; [exact H|apply N.eqb_refl].
Qed.

Lemma charset_char c : in_charset c = true ->
  0 <= charset_find c < 32 /\ charset_at (charset_find c) = Some c.
Proof.
  intros H. apply in_charset_In in H.
  pose proof (proj1 (forallb_forall _ _) charset_chars_ok c H) as K. unfold charset_char_ok in K.
  repeat (apply andb_true_iff in K; destruct K as [K ?]).
  destruct (charset_at (charset_find c)) as [c'|]; [|discriminate].
  split; [lia|]. f_equal. lia.
Qed.

Lemma charset_char_facts c : in_charset c = true -> charset_digit_facts (charset_find c) c.
Proof.
  intros H. destruct (charset_char c H) as [Hr Ha]. destruct (charset_digit _ Hr) as (c' & F).
  assert (c' = c) by (pose proof (cd_at _ _ F); congruence). now subst.
Qed.

Lemma charset_find_inj a b : in_charset a = true -> in_charset b = true ->
  charset_find a = charset_find b -> a = b.
Proof.
  intros Ha Hb E. destruct (charset_char a Ha) as [_ A]. destruct (charset_char b Hb) as [_ B].
  rewrite E in A. congruence.
Qed.

(* ---- chars of a list of symbols ---------------------------------------------------------------------- *)
Lemma charset_map_ok l : syms5 l ->
  exists s, charset_map l = Ret s /\ length s = length l /\ forallb in_charset s = true
            /\ map charset_find s = l /\ map lower_c s = s
            /\ Forall (fun c => (33 <= c <= 126)%N) s /\ ~ In 49%N s.
Proof.
  induction 1 as [|d r Hd _ (s & E & Hl & Hin & Hf & Hlow & Hp & H1)].
  - exists []. repeat split; try constructor. intros [].
  - destruct (charset_digit d Hd) as (c & F). exists (c :: s).
    cbn [charset_map]. rewrite (cd_at _ _ F), E. split; [reflexivity|].
    split; [cbn; lia|]. split; [cbn [forallb]; now rewrite (cd_in _ _ F)|].
    split; [cbn [map]; now rewrite (cd_find _ _ F), Hf|].
    split; [cbn [map]; now rewrite (cd_lower _ _ F), Hlow|].
    split; [constructor; [exact (cd_print _ _ F)|exact Hp]|].
    intros [E1|E1]; [exact (cd_not1 _ _ F E1)|exact (H1 E1)].
Qed.

(* ---- pystr equality ----------------------------------------------------------------------------------- *)
Lemma pystr_eqb_eq a b : pystr_eqb a b = true <-> a = b.
Proof.
  revert b; induction a as [|x a IH]; intros [|y b]; cbn [pystr_eqb]; try (split; congruence).
  rewrite andb_true_iff, N.eqb_eq, IH. split.
  - intros [-> ->]; reflexivity.
  - intros H; injection H; auto.
Qed.
Lemma pystr_eqb_refl a : pystr_eqb a a = true.
Proof. now apply pystr_eqb_eq. Qed.
Lemma pystr_eqb_neq a b : a <> b -> pystr_eqb a b = false.
Proof. intros H. destruct (pystr_eqb a b) eqn:E; [|reflexivity]. apply pystr_eqb_eq in E. contradiction. Qed.

(* ---- rfind --------------------------------------------------------------------------------------------- *)
Lemma rfind_from_spec ch s : forall i best,
  (~ In ch s /\ rfind_from s ch i best = best) \/
  (exists pre tail, s = pre ++ ch :: tail /\ ~ In ch tail /\ rfind_from s ch i best = i + Z.of_nat (length pre)).
Proof.
  induction s as [|c r IH]; intros i best.
  - left. split; [intros []|reflexivity].
  - cbn [rfind_from]. destruct (IH (i + 1) (if (c =? ch)%N then i else best)) as [[Hn E]|(pre & tail & -> & Hn & E)].
    + destruct (c =? ch)%N eqn:Ec.
      * right. apply N.eqb_eq in Ec. subst c. exists [], r. split; [reflexivity|]. split; [exact Hn|].
        rewrite E. cbn. lia.
      * left. split; [|exact E]. intros [H|H]; [lia|contradiction].
    + right. exists (c :: pre), tail. split; [reflexivity|]. split; [exact Hn|].
      rewrite E. cbn [length]. lia.
Qed.

Lemma app_cons_unique {A} (x : A) p1 t1 p2 t2 :
  p1 ++ x :: t1 = p2 ++ x :: t2 -> ~ In x t1 -> ~ In x t2 -> p1 = p2 /\ t1 = t2.
Proof.
  revert p2. induction p1 as [|a p1 IH]; intros [|b p2] E H1 H2; cbn [app] in E.
  - injection E as E. now split.
  - injection E as <- E. exfalso. apply H1. rewrite E. apply in_or_app. right. now left.
  - injection E as -> E. exfalso. apply H2. rewrite <- E. apply in_or_app. right. now left.
  - injection E as <- E. destruct (IH p2 E H1 H2) as [-> ->]. now split.
Qed.

Lemma rfind_app ch pre tail : ~ In ch tail -> rfind (pre ++ ch :: tail) ch = Z.of_nat (length pre).
Proof.
  intros Hn. unfold rfind.
  destruct (rfind_from_spec ch (pre ++ ch :: tail) 0 (-1)) as [[H _]|(p & t & E & Ht & R)].
  - exfalso. apply H. apply in_or_app. right. now left.
  - destruct (app_cons_unique ch pre tail p t E Hn Ht) as [-> ->]. rewrite R. lia.
Qed.

Lemma rfind_inv ch s pos : rfind s ch = pos -> 0 <= pos ->
  exists pre tail, s = pre ++ ch :: tail /\ ~ In ch tail /\ pos = Z.of_nat (length pre).
Proof.
  unfold rfind. intros E Hp.
  destruct (rfind_from_spec ch s 0 (-1)) as [[_ R]|(p & t & Es & Ht & R)]; [lia|].
  exists p, t. split; [exact Es|]. split; [exact Ht|]. lia.
Qed.

(* ---- case ------------------------------------------------------------------------------------------------ *)
Definition printable (s : pystr) : Prop := Forall (fun c => (33 <= c <= 126)%N) s.
Definition is_upper (c : N) : bool := ((65 <=? c) && (c <=? 90))%N.
Definition is_lower (c : N) : bool := ((97 <=? c) && (c <=? 122))%N.
Definition no_upper (s : pystr) : Prop := Forall (fun c => is_upper c = false) s.

Lemma printable_check s : printable s -> existsb (fun x => (x <? 33)%N || (126 <? x)%N) s = false.
Proof.
  induction 1 as [|c r Hc _ IH]; [reflexivity|]. cbn [existsb]. rewrite IH.
  replace (c <? 33)%N with false by lia. replace (126 <? c)%N with false by lia. reflexivity.
Qed.

Lemma printable_check_inv s : existsb (fun x => (x <? 33)%N || (126 <? x)%N) s = false -> printable s.
Proof.
  induction s as [|c r IH]; intros H; [constructor|]. cbn [existsb] in H.
  apply orb_false_iff in H. destruct H as [H1 H2]. apply orb_false_iff in H1.
  constructor; [lia|now apply IH].
Qed.

Lemma no_upper_lower s : no_upper s -> map lower_c s = s.
Proof.
  induction 1 as [|c r Hc _ IH]; [reflexivity|]. cbn [map]. rewrite IH. f_equal.
  unfold lower_c. unfold is_upper in Hc. now rewrite Hc.
Qed.

Lemma lower_idem c : lower_c (lower_c c) = lower_c c.
Proof. unfold lower_c. destruct ((65 <=? c) && (c <=? 90))%N eqn:E; [|now rewrite E].
  replace ((65 <=? c + 32) && (c + 32 <=? 90))%N with false by lia. reflexivity. Qed.

Lemma lower_not1 c : lower_c c = 49%N <-> c = 49%N.
Proof. unfold lower_c. destruct ((65 <=? c) && (c <=? 90))%N eqn:E; lia. Qed.

Lemma lower_printable c : (33 <= c <= 126)%N -> (33 <= lower_c c <= 126)%N.
Proof. unfold lower_c. destruct ((65 <=? c) && (c <=? 90))%N eqn:E; lia. Qed.

(* ---- bech32_decode: construction ------------------------------------------------------------------------- *)
Lemma skipn_app_cons {A} (pre : list A) x tail : skipn (S (length pre)) (pre ++ x :: tail) = tail.
Proof. induction pre; cbn; auto. Qed.

Lemma decode_lower_form hrp tail max_length :
  printable hrp -> no_upper hrp -> (1 <= length hrp)%nat ->
  printable tail -> map lower_c tail = tail -> forallb in_charset tail = true -> ~ In 49%N tail ->
  (6 <= length tail)%nat -> Z.of_nat (length hrp + 1 + length tail) <= max_length ->
  bech32_decode_max (hrp ++ 49%N :: tail) max_length =
  match bech32_verify_checksum hrp (map charset_find tail) with
  | None => None
  | Some spec => Some (hrp, firstn (length tail - 6) (map charset_find tail), spec)
  end.
Proof.
  intros Hp Hu Hl Hpt Hlt Hin H1 H6 Hmax. unfold bech32_decode_max.
  set (s := hrp ++ 49%N :: tail).
  assert (Hps : printable s).
  { unfold s. apply Forall_app. split; [exact Hp|]. constructor; [lia|exact Hpt]. }
  assert (Hls : map lower_c s = s).
  { unfold s. rewrite map_app. cbn [map]. now rewrite (no_upper_lower hrp Hu), Hlt. }
  rewrite (printable_check s Hps), Hls, pystr_eqb_refl. cbn [negb andb orb].
  assert (Er : rfind s 49%N = Z.of_nat (length hrp)) by (unfold s; now apply rfind_app).
  rewrite !Er.
  assert (Els : length s = (length hrp + 1 + length tail)%nat).
  { unfold s. rewrite app_length. cbn [length]. lia. }
  rewrite Els.
  replace (Z.of_nat (length hrp) <? 1) with false by lia.
  replace (Z.of_nat (length hrp + 1 + length tail) <? Z.of_nat (length hrp) + 7) with false by lia.
  replace (max_length <? Z.of_nat (length hrp + 1 + length tail)) with false by lia.
  cbn [orb].
  replace (Z.to_nat (Z.of_nat (length hrp) + 1)) with (S (length hrp)) by lia.
  rewrite Nat2Z.id. unfold s. rewrite skipn_app_cons, Hin. cbn [negb].
  rewrite firstn_app_exact, map_length. reflexivity.
Qed.

(* ---- bech32_decode: inversion ------------------------------------------------------------------------------ *)
Record decoded_form (s : pystr) (max_length : Z) (h : pystr) (d : list Z) (spec : Z) (tail : pystr) : Prop := {
  df_print : printable s;
  df_case : map lower_c s = s \/ map upper_c s = s;
  df_split : map lower_c s = h ++ 49%N :: tail;
  df_hrp : (1 <= length h)%nat;
  df_tail6 : (6 <= length tail)%nat;
  df_len : Z.of_nat (length s) <= max_length;
  df_charset : forallb in_charset tail = true;
  df_no1 : ~ In 49%N tail;
  df_verify : bech32_verify_checksum h (map charset_find tail) = Some spec;
  df_data : d = firstn (length tail - 6) (map charset_find tail)
}.

Lemma bech32_decode_inv s max_length h d spec :
  bech32_decode_max s max_length = Some (h, d, spec) -> exists tail, decoded_form s max_length h d spec tail.
Proof.
  unfold bech32_decode_max.
  destruct (existsb _ s) eqn:Ebad; [discriminate|]. cbn [orb].
  destruct (negb (pystr_eqb (map lower_c s) s) && negb (pystr_eqb (map upper_c s) s)) eqn:Ecase; [discriminate|].
  set (ls := map lower_c s).
  destruct ((rfind ls 49%N <? 1) || (Z.of_nat (length ls) <? rfind ls 49%N + 7)
            || (max_length <? Z.of_nat (length ls))) eqn:Epos; [discriminate|].
  apply orb_false_iff in Epos. destruct Epos as [Epos E3]. apply orb_false_iff in Epos. destruct Epos as [E1 E2].
  destruct (rfind_inv 49%N ls (rfind ls 49%N) eq_refl ltac:(lia)) as (pre & tail & Els & Hno1 & Hpos).
  rewrite Hpos. replace (Z.to_nat (Z.of_nat (length pre) + 1)) with (S (length pre)) by lia.
  assert (Esk : skipn (S (length pre)) ls = tail) by (rewrite Els; apply skipn_app_cons).
  assert (Efi : firstn (Z.to_nat (Z.of_nat (length pre))) ls = pre)
    by (rewrite Nat2Z.id, Els; apply firstn_app_exact).
  rewrite !Esk, !Efi.
  destruct (forallb in_charset tail) eqn:Ecs; [|discriminate]. cbn [negb].
  destruct (bech32_verify_checksum pre (map charset_find tail)) as [sp|] eqn:Ev; [|discriminate].
  intros E. injection E as <- <- <-. exists tail.
  assert (Hlen : length ls = length s) by (unfold ls; apply map_length).
  assert (Hl2 : length ls = (length pre + 1 + length tail)%nat).
  { rewrite Els, app_length. cbn [length]. lia. }
  split; try assumption.
  - now apply printable_check_inv.
  - apply andb_false_iff in Ecase. destruct Ecase as [Ec|Ec]; apply negb_false_iff, pystr_eqb_eq in Ec; auto.
  - lia.
  - lia.
  - lia.
  - now rewrite map_length.
Qed.

(* ---- checksum: create then verify ---------------------------------------------------------------------------- *)
Lemma hrp_expand_range hrp : printable hrp -> syms5 (bech32_hrp_expand hrp).
Proof.
  intros Hp. unfold bech32_hrp_expand. apply Forall_app. split; [|apply Forall_app; split].
  - apply Forall_map. eapply Forall_impl; [|exact Hp]. intros c Hc. cbv beta in Hc |- *.
    rewrite Z.shiftr_div_pow2 by lia. change (2 ^ 5) with 32. split.
    + apply Z.div_pos; lia.
    + apply Z.div_lt_upper_bound; lia.
  - repeat constructor; lia.
  - apply Forall_map. apply Forall_forall. intros c _. cbv beta.
    change 31 with (Z.ones 5). rewrite Z.land_ones by lia. apply Z.mod_pos_bound. lia.
Qed.

Definition spec_const (spec : Z) : Z := if spec =? enc_bech32m then bech32m_const else 1.
Definition spec_norm (spec : Z) : Z := if spec =? enc_bech32m then enc_bech32m else enc_bech32.

Lemma create_checksum_six hrp data spec :
  bech32_create_checksum hrp data spec =
  six_digits (Z.lxor (bech32_polymod ((bech32_hrp_expand hrp ++ data) ++ [0; 0; 0; 0; 0; 0])) (spec_const spec)).
Proof. reflexivity. Qed.

Lemma spec_const_small spec : small (spec_const spec).
Proof. unfold spec_const, small. destruct (spec =? enc_bech32m); vm_compute; split; congruence. Qed.

Lemma init_small : small polymod_init.
Proof. vm_compute. split; congruence. Qed.

Lemma create_checksum_range hrp data spec : syms5 (bech32_create_checksum hrp data spec).
Proof. rewrite create_checksum_six. apply six_digits_range. Qed.

Lemma create_checksum_length hrp data spec : length (bech32_create_checksum hrp data spec) = 6%nat.
Proof. reflexivity. Qed.

Lemma created_polymod hrp data spec : printable hrp -> syms5 data ->
  bech32_polymod (bech32_hrp_expand hrp ++ data ++ bech32_create_checksum hrp data spec) = spec_const spec.
Proof.
  intros Hp Hd. rewrite create_checksum_six, app_assoc.
  set (vals := bech32_hrp_expand hrp ++ data).
  assert (Hs : small (pm_from polymod_init vals)).
  { apply pm_from_small; [|exact init_small].
    apply Forall_app. split; [now apply hrp_expand_range|exact Hd]. }
  rewrite (polymod_pm_from (vals ++ [0; 0; 0; 0; 0; 0])), (pm_from_app polymod_init vals [0; 0; 0; 0; 0; 0]).
  rewrite polymod_pm_from, pm_from_app.
  exact (checksum_closes (pm_from polymod_init vals) (spec_const spec) Hs (spec_const_small spec)).
Qed.

Lemma verify_created hrp data spec : printable hrp -> syms5 data ->
  bech32_verify_checksum hrp (data ++ bech32_create_checksum hrp data spec) = Some (spec_norm spec).
Proof.
  intros Hp Hd. unfold bech32_verify_checksum. rewrite (created_polymod hrp data spec Hp Hd).
  unfold spec_const, spec_norm. destruct (spec =? enc_bech32m); reflexivity.
Qed.

(* ---- bech32_encode then bech32_decode ------------------------------------------------------------------------ *)
Definition hrp_ok (hrp : pystr) : Prop := printable hrp /\ no_upper hrp /\ (1 <= length hrp)%nat.

Theorem bech32_encode_decode_low : forall hrp data spec max_length,
  hrp_ok hrp -> syms5 data -> Z.of_nat (length hrp + 1 + length data + 6) <= max_length ->
  exists s, bech32_encode hrp data spec = Ret s
            /\ length s = (length hrp + 1 + length data + 6)%nat
            /\ bech32_decode_max s max_length = Some (hrp, data, spec_norm spec).
Proof.
  intros hrp data spec mx (Hp & Hu & Hl) Hd Hmx. unfold bech32_encode.
  set (cs := bech32_create_checksum hrp data spec).
  assert (Hc : syms5 (data ++ cs)) by (apply Forall_app; split; [exact Hd|apply create_checksum_range]).
  destruct (charset_map_ok _ Hc) as (tail & E & Hlen & Hin & Hf & Hlow & Hpt & H1).
  rewrite E. exists (hrp ++ [49%N] ++ tail). split; [reflexivity|].
  rewrite app_length in Hlen. change (length cs) with 6%nat in Hlen.
  split; [rewrite !app_length; cbn [length]; lia|].
  cbn [app]. rewrite decode_lower_form; try assumption; try lia.
  rewrite Hf. unfold cs. rewrite (verify_created hrp data spec Hp Hd).
  rewrite Hlen. replace (length data + 6 - 6)%nat with (length data) by lia.
  now rewrite firstn_app_exact.
Qed.

(* ---- segwit addresses: encode then decode --------------------------------------------------------------------- *)
Record triple_ok (hrp : pystr) (ver : Z) (prog : list Z) : Prop := {
  tr_hrp : hrp_ok hrp;
  tr_ver : 0 <= ver <= 16;
  tr_bytes : bytes8 prog;
  tr_len : (2 <= length prog <= 40)%nat;
  tr_v0 : ver = 0 -> length prog = 20%nat \/ length prog = 32%nat;
  tr_total : Z.of_nat (length hrp) + 8 + (8 * Z.of_nat (length prog) + 4) / 5 <= 90
}.

Lemma decode_of_decoded hrp s data spec prog :
  bech32_decode s = Some (hrp, data, spec) ->
  convertbits (tl data) 5 8 false = Some prog ->
  (2 <= length prog <= 40)%nat -> 0 <= hd 0 data <= 16 ->
  (hd 0 data = 0 -> length prog = 20%nat \/ length prog = 32%nat) ->
  spec = (if hd 0 data =? 0 then enc_bech32 else enc_bech32m) ->
  decode hrp s = Some (hd 0 data, prog).
Proof.
  intros E1 E2 Hl Hv H0 Hs. unfold decode. rewrite E1, pystr_eqb_refl. cbn [negb]. rewrite E2.
  replace ((Z.of_nat (length prog) <? 2) || (40 <? Z.of_nat (length prog))) with false by lia.
  replace (16 <? hd 0 data) with false by lia.
  destruct (hd 0 data =? 0) eqn:Ev.
  - assert (Hd0 : hd 0 data = 0) by lia. destruct (H0 Hd0) as [L|L]; rewrite L, Hs; reflexivity.
  - rewrite Hs. reflexivity.
Qed.

Theorem segwit_encode_decode : forall hrp ver prog, triple_ok hrp ver prog ->
  exists s, encode hrp ver prog = Ret (Some s) /\ decode hrp s = Some (ver, prog)
            /\ Z.of_nat (length s) = Z.of_nat (length hrp) + 8 + (8 * Z.of_nat (length prog) + 4) / 5.
Proof.
  intros hrp ver prog [Hh Hv Hb Hl H0 Ht]. unfold encode.
  destruct (convertbits_roundtrip_8_5_8 prog Hb) as (conv & E1 & Hc & Hlc & E2).
  rewrite E1.
  assert (Hd : syms5 (ver :: conv)) by (constructor; [lia|exact Hc]).
  set (spec := if ver =? 0 then enc_bech32 else enc_bech32m).
  destruct (bech32_encode_decode_low hrp (ver :: conv) spec 90 Hh Hd) as (s & Es & Hls & Ed).
  { cbn [length]. lia. }
  rewrite Es.
  assert (Esp : spec_norm spec = spec) by (unfold spec; destruct (ver =? 0); reflexivity).
  rewrite Esp in Ed.
  assert (Edec : decode hrp s = Some (ver, prog)).
  { apply (decode_of_decoded hrp s (ver :: conv) spec prog Ed); cbn [hd tl]; try assumption. reflexivity. }
  exists s. rewrite Edec. split; [reflexivity|]. split; [reflexivity|].
  rewrite Hls. cbn [length]. lia.
Qed.

(* ---- rejections -------------------------------------------------------------------------------------------------- *)
Lemma map_fix_pointwise {A} (f : A -> A) s : map f s = s -> forall c, In c s -> f c = c.
Proof.
  induction s as [|x r IH]; intros E c Hc; [destruct Hc|].
  cbn [map] in E. injection E as E1 E2. destruct Hc as [<-|Hc]; [exact E1|now apply IH].
Qed.

(* a string holding both an upper-case and a lower-case letter is rejected *)
Theorem mixed_case_rejected : forall s max_length cu cl,
  In cu s -> is_upper cu = true -> In cl s -> is_lower cl = true -> bech32_decode_max s max_length = None.
Proof.
  intros s mx cu cl Hu1 Hu2 Hl1 Hl2. unfold bech32_decode_max.
  assert (E1 : pystr_eqb (map lower_c s) s = false).
  { apply pystr_eqb_neq. intros E. pose proof (map_fix_pointwise lower_c s E cu Hu1) as K.
    unfold lower_c, is_upper in *. rewrite Hu2 in K. lia. }
  assert (E2 : pystr_eqb (map upper_c s) s = false).
  { apply pystr_eqb_neq. intros E. pose proof (map_fix_pointwise upper_c s E cl Hl1) as K.
    unfold upper_c, is_lower in *. rewrite Hl2 in K. lia. }
  rewrite E1, E2. cbn [negb andb]. now rewrite orb_true_r.
Qed.

(* a string longer than max_length (90 by default) is rejected *)
Theorem too_long_rejected : forall s max_length, max_length < Z.of_nat (length s) ->
  bech32_decode_max s max_length = None.
Proof.
  intros s mx H. destruct (bech32_decode_max s mx) as [[[h d] sp]|] eqn:E; [|reflexivity].
  destruct (bech32_decode_inv s mx h d sp E) as (tail & F). pose proof (df_len _ _ _ _ _ _ F). lia.
Qed.

(* a character outside 33..126 is rejected *)
Theorem unprintable_rejected : forall s max_length c, In c s -> (c < 33 \/ 126 < c)%N ->
  bech32_decode_max s max_length = None.
Proof.
  intros s mx c Hc Hr. destruct (bech32_decode_max s mx) as [[[h d] sp]|] eqn:E; [|reflexivity].
  destruct (bech32_decode_inv s mx h d sp E) as (tail & F). pose proof (df_print _ _ _ _ _ _ F) as P.
  pose proof (proj1 (Forall_forall _ _) P c Hc). cbv beta in *. lia.
Qed.

Definition expected_spec (ver : Z) : Z := if ver =? 0 then enc_bech32 else enc_bech32m.

(* segwit decode accepts EXACTLY the strings that bech32_decode accepts with the caller's hrp, a version
   symbol <= 16, a strictly convertible program of 2..40 bytes (20 or 32 for version 0), and the checksum
   constant that belongs to the version *)
Theorem segwit_decode_accepts_iff : forall hrp s ver prog,
  decode hrp s = Some (ver, prog) <->
  exists data spec, bech32_decode s = Some (hrp, ver :: data, spec)
    /\ convertbits data 5 8 false = Some prog
    /\ (2 <= length prog <= 40)%nat /\ ver <= 16
    /\ (ver = 0 -> length prog = 20%nat \/ length prog = 32%nat)
    /\ spec = expected_spec ver.
Proof.
  intros hrp s ver prog. split.
  - unfold decode. destruct (bech32_decode s) as [[[h d] sp]|] eqn:E; [|discriminate].
    destruct (pystr_eqb h hrp) eqn:Eh; [|discriminate]. apply pystr_eqb_eq in Eh. subst h. cbn [negb].
    destruct (convertbits (tl d) 5 8 false) as [dec|] eqn:Ec; [|discriminate].
    destruct ((Z.of_nat (length dec) <? 2) || (40 <? Z.of_nat (length dec))) eqn:E1; [discriminate|].
    destruct (16 <? hd 0 d) eqn:E2; [discriminate|].
    destruct ((hd 0 d =? 0) && negb (Z.of_nat (length dec) =? 20) && negb (Z.of_nat (length dec) =? 32)) eqn:E3;
      [discriminate|].
    destruct (((hd 0 d =? 0) && negb (sp =? enc_bech32)) || (negb (hd 0 d =? 0) && negb (sp =? enc_bech32m))) eqn:E4;
      [discriminate|].
    intros K. injection K as <- <-.
    destruct d as [|v data].
    { exfalso. cbn [tl] in Ec. vm_compute in Ec. injection Ec as <-. cbn in E1. discriminate. }
    cbn [hd tl] in *. exists data, sp. split; [reflexivity|]. split; [exact Ec|].
    split; [lia|]. split; [lia|]. split.
    + intros ->. cbn in E3. lia.
    + unfold expected_spec. destruct (v =? 0); cbn [negb andb orb] in E4; lia.
  - intros (data & spec & E & Ec & Hl & Hv & H0 & Hs).
    assert (Hv0 : 0 <= ver).
    { destruct (bech32_decode_inv s 90 _ _ _ E) as (tail & F). pose proof (df_data _ _ _ _ _ _ F) as Dd.
      pose proof (df_charset _ _ _ _ _ _ F) as Dc.
      destruct tail as [|c tail]; [destruct (length (@nil N) - 6)%nat; discriminate|].
      cbn [map forallb] in *. apply andb_true_iff in Dc. destruct Dc as [Dc _].
      destruct (length (c :: tail) - 6)%nat; [discriminate|]. cbn [firstn] in Dd. injection Dd as -> _.
      pose proof (charset_char c Dc). lia. }
    apply (decode_of_decoded hrp s (ver :: data) spec prog E); cbn [hd tl]; try assumption; lia.
Qed.

(* named consequences ------------------------------------------------------------------------------------------- *)
Theorem wrong_constant_rejected : forall hrp s h ver data spec,
  bech32_decode s = Some (h, ver :: data, spec) -> spec <> expected_spec ver -> decode hrp s = None.
Proof.
  intros hrp s h ver data spec E Hs. destruct (decode hrp s) as [[v p]|] eqn:D; [|reflexivity].
  apply segwit_decode_accepts_iff in D. destruct D as (d' & sp' & E' & _ & _ & _ & _ & Hsp).
  rewrite E in E'. injection E' as -> -> -> ->. contradiction.
Qed.

Theorem bad_length_rejected : forall hrp s h ver data spec prog,
  bech32_decode s = Some (h, ver :: data, spec) -> convertbits data 5 8 false = Some prog ->
  ((length prog < 2)%nat \/ (40 < length prog)%nat
   \/ (ver = 0 /\ length prog <> 20%nat /\ length prog <> 32%nat)) ->
  decode hrp s = None.
Proof.
  intros hrp s h ver data spec prog E Ec Hl. destruct (decode hrp s) as [[v p]|] eqn:D; [|reflexivity].
  apply segwit_decode_accepts_iff in D. destruct D as (d' & sp' & E' & Ec' & Hl' & _ & H0 & _).
  rewrite E in E'. injection E' as -> -> -> ->. rewrite Ec in Ec'. injection Ec' as ->.
  destruct Hl as [Hl|[Hl|(-> & H1 & H2)]]; [lia|lia|]. destruct (H0 eq_refl); contradiction.
Qed.

Theorem bad_padding_rejected : forall hrp s h ver data spec,
  bech32_decode s = Some (h, ver :: data, spec) -> convertbits data 5 8 false = None -> decode hrp s = None.
Proof.
  intros hrp s h ver data spec E Ec. destruct (decode hrp s) as [[v p]|] eqn:D; [|reflexivity].
  apply segwit_decode_accepts_iff in D. destruct D as (d' & sp' & E' & Ec' & _).
  rewrite E in E'. injection E' as -> -> -> ->. congruence.
Qed.

Theorem version_above_16_rejected : forall hrp s h ver data spec,
  bech32_decode s = Some (h, ver :: data, spec) -> 16 < ver -> decode hrp s = None.
Proof.
  intros hrp s h ver data spec E Hv. destruct (decode hrp s) as [[v p]|] eqn:D; [|reflexivity].
  apply segwit_decode_accepts_iff in D. destruct D as (d' & sp' & E' & _ & _ & Hv' & _).
  rewrite E in E'. injection E' as -> -> -> ->. lia.
Qed.

Theorem other_hrp_rejected : forall hrp s h data spec,
  bech32_decode s = Some (h, data, spec) -> h <> hrp -> decode hrp s = None.
Proof.
  intros hrp s h data spec E Hh. unfold decode. rewrite E, (pystr_eqb_neq h hrp Hh). reflexivity.
Qed.

(* constructive form: the encoder's own payload under the constant that does NOT belong to the version is a
   well-formed Bech32(m) string that the segwit decoder refuses *)
Theorem segwit_other_constant_refused : forall hrp ver prog spec, triple_ok hrp ver prog ->
  spec_norm spec <> expected_spec ver ->
  exists conv s, convertbits prog 8 5 true = Some conv /\ bech32_encode hrp (ver :: conv) spec = Ret s
    /\ bech32_decode s = Some (hrp, ver :: conv, spec_norm spec) /\ decode hrp s = None.
Proof.
  intros hrp ver prog spec [Hh Hv Hb Hl H0 Ht] Hs.
  destruct (convertbits_roundtrip_8_5_8 prog Hb) as (conv & E1 & Hc & Hlc & E2).
  assert (Hd : syms5 (ver :: conv)) by (constructor; [lia|exact Hc]).
  destruct (bech32_encode_decode_low hrp (ver :: conv) spec 90 Hh Hd) as (s & Es & Hls & Ed).
  { cbn [length]. lia. }
  exists conv, s. repeat split; try assumption.
  eapply wrong_constant_rejected; eauto.
Qed.
