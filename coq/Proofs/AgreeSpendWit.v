(* Proofs/AgreeSpendWit.v — C03 spend-level agreement: script patterns (P2SH, witness programs), the witness v0 rules
   (P2WSH hash test, P2WPKH implicit script, item-size loop, implicit CLEANSTACK), future witness versions, the
   malleation tests and the final CLEANSTACK / WITNESS_UNEXPECTED tests, as one lemma `wit_part` about what both
   sides do after the last non-witness evaluation. *)
From Coq Require Import Lia ZifyBool ZifyNat ZifyN.
From PV Require Import Base.Bytes Base.Outcome Gen.GenOpcodes Gen.GenFlags.
From PV Require Import Model.ScriptNum Model.Push Model.CondStack Spec.VMTypes Model.VMpy Spec.VMcore Proofs.PushP.
From PV Require Import Proofs.AgreeBase Proofs.AgreeSigEnc Proofs.AgreeSig Proofs.AgreeInv Proofs.AgreeTop Proofs.AgreeSpendBase.
Local Open Scope N_scope.

(* ---- list ends ----------------------------------------------------------------------------------------------------- *)
Lemma rev_cons_inv {A} (l : list A) x t : rev l = x :: t -> l = rev t ++ [x].
Proof. intros H. rewrite <- (rev_involutive l), H. reflexivity. Qed.

Lemma last_removelast {A} (l : list A) x t : rev l = x :: t -> last_opt l = Some x /\ removelast l = rev t.
Proof.
  intros H. split; [unfold last_opt; now rewrite H|]. rewrite (rev_cons_inv _ _ _ H). apply removelast_last.
Qed.

(* ---- patterns ------------------------------------------------------------------------------------------------------ *)
Lemma p2sh_agree s : VMpy.is_pay_to_script_hash s = VMcore.is_pay_to_script_hash s.
Proof.
  unfold VMpy.is_pay_to_script_hash, VMcore.is_pay_to_script_hash, len.
  destruct (Nat.eqb_spec (length s) 23) as [E|E].
  2: { replace (N.of_nat (length s) =? 23) with false by lia. reflexivity. }
  replace (N.of_nat (length s) =? 23) with true by lia.
  do 23 (destruct s as [|? s]; [discriminate E|]). destruct s; [|discriminate E]. reflexivity.
Qed.

Lemma p2sh_first s : VMcore.is_pay_to_script_hash s = true -> exists t, s = xa9 :: t.
Proof.
  unfold VMcore.is_pay_to_script_hash. intros H. repeat (apply andb_true_iff in H; destruct H as [H ?]).
  destruct s as [|b t]; [discriminate|]. exists t. f_equal. apply b2n_inj. unfold at_ in *. cbn in *. lia.
Qed.

Lemma hash160_empty_fails o flags sv ctx t : exists e, eval_script_e o flags sv ctx (xa9 :: t) [] = CErr e.
Proof.
  unfold eval_script_e. destruct (MAX_SCRIPT_SIZE <? len (xa9 :: t)); [eauto|].
  cbn [length eval_loop get_op]. change (78 <? b2n xa9) with true. cbv iota.
  unfold VMcore.step. cbn. eauto.
Qed.

Lemma p2sh_not_witness t : is_witness_program (xa9 :: t) = None.
Proof.
  unfold is_witness_program. destruct (_ || _); [reflexivity|]. reflexivity.
Qed.

Lemma wp_agree s :
  witness_program_version s = match is_witness_program s with Some (v, _) => Some v | None => None end /\
  forall v p, is_witness_program s = Some (v, p) -> p = skipn 2 s /\ (4 <= length s <= 42)%nat.
Proof.
  unfold witness_program_version, is_witness_program, len, at_.
  destruct (Nat.ltb_spec (length s) 4) as [H4|H4].
  { replace (N.of_nat (length s) <? 4) with true by lia. cbn [orb]. split; [reflexivity|discriminate]. }
  destruct (Nat.ltb_spec 42 (length s)) as [H42|H42].
  { replace (42 <? N.of_nat (length s)) with true by lia. rewrite !orb_true_r.
    split; [reflexivity|discriminate]. }
  replace (N.of_nat (length s) <? 4) with false by lia. replace (42 <? N.of_nat (length s)) with false by lia.
  cbn [orb]. destruct s as [|a [|b t]]; try (cbn in H4; lia).
  change (N.to_nat 0) with 0%nat. change (N.to_nat 1) with 1%nat. cbn [nth].
  set (n := length (a :: b :: t)) in *.
  destruct (N.eqb_spec (b2n b + 2) (N.of_nat n)) as [El|El].
  - replace (N.to_nat (b2n b) + 2 =? n)%nat with true by lia. cbn [negb].
    destruct (N.eqb_spec (b2n a) 0) as [E0|E0]; cbn [negb andb].
    + split; [reflexivity|]. intros v p K; injection K as <- <-. split; [reflexivity|lia].
    + destruct (N.leb_spec 81 (b2n a)), (N.leb_spec (b2n a) 96), (N.ltb_spec (b2n a) 81), (N.ltb_spec 96 (b2n a));
        cbn [andb orb]; try lia; try (split; [reflexivity|discriminate]).
      split; [f_equal; lia|]. intros v p K; injection K as <- <-. split; [reflexivity|lia].
  - replace (N.to_nat (b2n b) + 2 =? n)%nat with false by lia. cbn [negb].
    destruct (negb (b2n a =? 0) && _); split; try reflexivity; discriminate.
Qed.

(* the minimal push of a witness program (4..42 bytes) or of a 20-byte key hash is the plain push *)
Lemma push_small d : (2 <= length d <= 75)%nat -> btc_compile_push_data d = Ret (push_encode d).
Proof.
  intros H. rewrite push_is_spec by (change (2 ^ 32) with 4294967296; lia).
  unfold spec_push, push_encode, len. destruct d as [|a [|b t]]; try (cbn in H; lia).
  set (d := a :: b :: t) in *. replace (N.of_nat (length d) <=? 75) with true by lia.
  replace (N.of_nat (length d) <? 76) with true by lia. reflexivity.
Qed.

Definition rel_u (py : vres unit) (core : cres unit) : Prop :=
  match py, core with
  | VOk _, COk _ => True
  | VFail, CErr _ => True
  | _, _ => False
  end.

Lemma eval_empty o f sv ctx st : VMpy.eval_script o f sv ctx [] st = VOk st.
Proof. unfold VMpy.eval_script, eval_state. cbn. now rewrite rev_involutive. Qed.

Lemma flag_lor_self f c : c <> 0 -> flag_set (N.lor f c) c = true.
Proof.
  intros H. unfold flag_set. rewrite N.land_lor_distr_l, N.land_diag.
  destruct (N.eqb_spec (N.lor (N.land f c) c) 0) as [E|E]; [|reflexivity].
  apply N.lor_eq_0_iff in E. tauto.
Qed.

Section Wit.
Variable o : oracles.
Variable flags : N.
Variable ctx : txctx.
Variable witness : list bytes.      (* top last *)
Variable ssig : bytes.
Hypothesis Hs2 : strict flags = true \/ lax_contract o SV_WITNESS_V0.

Notation wf := (N.lor flags VERIFY_CLEANSTACK).

(* a witness script run with its implicit CLEANSTACK *)
Lemma wit_run ws stack :
  rel_u (vbind (run_and_check o wf SV_WITNESS_V0 ctx ws stack) (fun s3 => clean_stack_check wf s3))
        (cbind (eval_script_e o flags SV_WITNESS_V0 ctx ws (rev stack))
               (fun r => match r with
                         | [a] => if cast_to_bool a then COk tt else CErr SE_EVAL_FALSE
                         | _ => CErr SE_EVAL_FALSE
                         end)).
Proof.
  assert (H : c03_hyps o wf SV_WITNESS_V0 ws stack).
  { constructor; try discriminate. rewrite strict_wit. exact Hs2. }
  pose proof (eval_pair o wf flags SV_WITNESS_V0 ctx ws stack (feq_wit flags) H) as P.
  unfold run_and_check. unfold eval_rel in P.
  destruct (VMpy.eval_script o wf SV_WITNESS_V0 ctx ws stack) as [r| |e|],
           (eval_script_e o flags SV_WITNESS_V0 ctx ws (rev stack)) as [r'|e'|]; try contradiction; cbn [vbind cbind]; [|exact I].
  subst r'. unfold last_opt. destruct (rev r) as [|a t] eqn:Er; [exact I|].
  rewrite bool_from_is_cast. destruct (cast_to_bool a).
  - cbn [vbind]. unfold clean_stack_check. rewrite flag_lor_self by discriminate. cbn [andb].
    assert (Hl : length r = S (length t)) by (rewrite <- (rev_length r), Er; reflexivity).
    destruct t as [|b t]; cbn [length] in Hl; rewrite Hl; cbn; exact I.
  - cbn [vbind]. destruct t; exact I.
Qed.

Lemma existsb_rev {A} (f : A -> bool) l : existsb f (rev l) = existsb f l.
Proof.
  induction l as [|x l IH]; [reflexivity|]. cbn [rev existsb]. rewrite existsb_app, IH. cbn [existsb].
  rewrite orb_false_r. apply orb_comm.
Qed.

Lemma wit_v0 prog :
  let vwp := verify_witness_program o flags ctx (rev witness) 0 prog in
  match check_witness_program_v0 o witness prog with
  | VOk (stack, ws) =>
    if existsb (fun s => MAX_BLOB_LENGTH <? N.of_nat (length s)) stack then exists e, vwp = CErr e
    else rel_u (vbind (run_and_check o wf SV_WITNESS_V0 ctx ws stack) (fun s3 => clean_stack_check wf s3)) vwp
  | VFail => exists e, vwp = CErr e
  | _ => False
  end.
Proof.
  cbv zeta. unfold check_witness_program_v0, verify_witness_program. change (0 =? 0) with true. cbv iota.
  unfold len.
  destruct (Nat.eqb_spec (length prog) 32) as [E32|N32].
  - replace (N.of_nat (length prog) =? 32) with true by lia.
    destruct (rev witness) as [|script st] eqn:Er.
    + unfold last_opt. rewrite Er. cbn. eauto.
    + destruct (last_removelast _ _ _ Er) as [-> ->].
      destruct (bytes_eqb (o_sha256 o script) prog); cbn [negb cbind fst snd]; [|eauto].
      rewrite <- (existsb_rev _ st). unfold MAX_SCRIPT_ELEMENT_SIZE, MAX_BLOB_LENGTH, len.
      destruct (existsb _ (rev st)); [eauto|]. rewrite <- (rev_involutive st) at 2. apply wit_run.
  - replace (N.of_nat (length prog) =? 32) with false by lia.
    destruct (Nat.eqb_spec (length prog) 20) as [E20|N20].
    + replace (N.of_nat (length prog) =? 20) with true by lia.
      destruct witness as [|a [|b [|c t]]]; cbn [length Nat.eqb negb rev app]; try (cbn; eauto; fail).
      * rewrite push_small by lia. cbn [lift vbind cbind fst snd].
        assert (Ep : push_encode prog = x14 :: prog).
        { unfold push_encode, len. rewrite E20. reflexivity. }
        rewrite Ep. change ([x76; xa9] ++ (x14 :: prog) ++ [x88; xac]) with ([x76; xa9; x14] ++ prog ++ [x88; xac]).
        change [b; a] with (rev [a; b]). rewrite existsb_rev.
        unfold MAX_SCRIPT_ELEMENT_SIZE, MAX_BLOB_LENGTH, len.
        destruct (existsb _ [a; b]); [eauto|]. apply wit_run.
      * destruct (rev t ++ [c]) as [|x [|y [|z u]]] eqn:Ex; cbn; eauto.
        apply (f_equal (@length bytes)) in Ex. rewrite !app_length in Ex. cbn in Ex. lia.
    + replace (N.of_nat (length prog) =? 20) with false by lia. cbn. eauto.
Qed.
End Wit.
