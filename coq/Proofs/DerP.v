(* Proofs/DerP.v — lemmas about Model/Der.v (C10). *)
From PV Require Import Base.Bytes Base.Outcome Model.Der Spec.DerStrictSpec Gen.GenCurveC10.
From Coq Require Import ZifyBool ZifyNat ZifyN.
Local Open Scope N_scope.

(* ---- one byte, by enumeration ------------------------------------------------------------ *)
Definition der_byte_facts (b : byte) : bool :=
  let n := b2n b in
  (if n <? 128 then (N.land n 128 =? 0) && (N.land n 127 =? n) && (N.lor 128 n =? 128 + n)
   else (N.land n 128 =? 128) && (N.land n 127 =? n - 128)).
Lemma der_byte_facts_all b : der_byte_facts b = true.
Proof. destruct b; vm_compute; reflexivity. Qed.

Lemma byte_small b : b2n b < 128 ->
  N.land (b2n b) 128 = 0 /\ N.land (b2n b) 127 = b2n b /\ N.lor 128 (b2n b) = 128 + b2n b.
Proof.
  intros Hlt. pose proof (der_byte_facts_all b) as H. unfold der_byte_facts in H.
  destruct (b2n b <? 128) eqn:E; [|lia].
  repeat (apply andb_true_iff in H; destruct H as [H ?]). repeat split; lia.
Qed.
Lemma byte_big b : 128 <= b2n b ->
  N.land (b2n b) 128 = 128 /\ N.land (b2n b) 127 = b2n b - 128.
Proof.
  intros Hge. pose proof (der_byte_facts_all b) as H. unfold der_byte_facts in H.
  destruct (b2n b <? 128) eqn:E; [lia|].
  repeat (apply andb_true_iff in H; destruct H as [H ?]). split; lia.
Qed.

(* the same facts on numbers below 256 *)
Lemma n_small n : n < 128 ->
  N.land (b2n (n2b n)) 128 = 0 /\ N.land (b2n (n2b n)) 127 = n.
Proof.
  intros H. assert (E : b2n (n2b n) = n) by (apply b2n_n2b; lia).
  destruct (byte_small (n2b n)) as (A & B & _); [lia|]. rewrite E in *. auto.
Qed.
Lemma lor128_small n : n < 128 -> N.lor 128 n = 128 + n.
Proof.
  intros H. assert (E : b2n (n2b n) = n) by (apply b2n_n2b; lia).
  destruct (byte_small (n2b n)) as (_ & _ & C); [lia|]. rewrite E in C. exact C.
Qed.
Lemma n_big n : n < 128 ->
  N.land (b2n (n2b (128 + n))) 128 = 128 /\ N.land (b2n (n2b (128 + n))) 127 = n.
Proof.
  intros H. assert (E : b2n (n2b (128 + n)) = 128 + n) by (apply b2n_n2b; lia).
  destruct (byte_big (n2b (128 + n))) as (A & B); [lia|]. rewrite E in *. split; lia.
Qed.

(* ---- powers of 256 ------------------------------------------------------------------------ *)
Lemma pow256_pos n : 0 < 256 ^ n.
Proof. apply N.neq_0_lt_0. apply N.pow_nonzero. lia. Qed.

Lemma pow256_mono a b : a <= b -> 256 ^ a <= 256 ^ b.
Proof. intros. apply N.pow_le_mono_r; lia. Qed.

Lemma pow256_as2 k : 256 ^ k = 2 ^ (8 * k).
Proof. rewrite N.pow_mul_r. reflexivity. Qed.

(* ---- nbytes ------------------------------------------------------------------------------- *)
Lemma nbytes_pos v : 0 < v -> (1 <= nbytes v)%nat.
Proof. destruct v; cbn [nbytes]; lia. Qed.

Lemma nbytes_bounds v : 0 < v ->
  256 ^ N.of_nat (nbytes v - 1) <= v < 256 ^ N.of_nat (nbytes v).
Proof.
  intros Hv. destruct v as [|q]; [lia|]. cbn [nbytes].
  set (v := N.pos q) in *. set (k := N.log2 v / 8).
  replace (S (N.to_nat k) - 1)%nat with (N.to_nat k) by lia.
  rewrite Nat2N.inj_succ, !N2Nat.id.
  destruct (N.log2_spec v Hv) as [Hlo Hhi].
  assert (Hk : 8 * k <= N.log2 v < 8 * (N.succ k)).
  { unfold k. pose proof (N.div_mod (N.log2 v) 8 ltac:(lia)).
    pose proof (N.mod_lt (N.log2 v) 8 ltac:(lia)). lia. }
  rewrite !pow256_as2. split.
  - eapply N.le_trans; [|exact Hlo]. apply N.pow_le_mono_r; lia.
  - eapply N.lt_le_trans; [exact Hhi|]. apply N.pow_le_mono_r; lia.
Qed.

Lemma nbytes_le v k : v < 256 ^ N.of_nat k -> (nbytes v <= k)%nat.
Proof.
  intros H. destruct (N.eq_dec v 0) as [->|Hnz]; [cbn; lia|].
  destruct (nbytes_bounds v ltac:(lia)) as [Hlo _].
  destruct (Nat.le_gt_cases (nbytes v) k) as [|Hgt]; [assumption|exfalso].
  assert (256 ^ N.of_nat k <= 256 ^ N.of_nat (nbytes v - 1)) by (apply pow256_mono; lia).
  lia.
Qed.

(* ---- big-endian encoding, one more digit in front ----------------------------------------- *)
Lemma le_encode_snoc k v : le_encode (S k) v = le_encode k v ++ [n2b (v / 256 ^ N.of_nat k)].
Proof.
  revert v; induction k as [|k IH]; intros v.
  - cbn [le_encode app]. change (N.of_nat 0) with 0. rewrite N.pow_0_r, N.div_1_r. reflexivity.
  - change (le_encode (S (S k)) v) with (n2b v :: le_encode (S k) (v / 256)).
    rewrite IH. cbn [le_encode app]. do 2 f_equal.
    pose proof (pow256_pos (N.of_nat k)).
    rewrite Nat2N.inj_succ, N.pow_succ_r', N.div_div by lia. reflexivity.
Qed.

Lemma be_encode_S k v : be_encode (S k) v = n2b (v / 256 ^ N.of_nat k) :: be_encode k v.
Proof. unfold be_encode. rewrite le_encode_snoc, rev_app_distr. reflexivity. Qed.

Lemma be_decode_cons0 s : be_decode (x00 :: s) = be_decode s.
Proof.
  unfold be_decode. cbn [rev]. rewrite le_decode_app. cbn [le_decode].
  change (b2n x00) with 0. lia.
Qed.

(* ---- hexbytes ----------------------------------------------------------------------------- *)
Lemma hexbytes_length v : length (hexbytes v) = if v =? 0 then 1%nat else nbytes v.
Proof.
  destruct v as [|q]; [reflexivity|]. cbn [hexbytes]. rewrite be_encode_length. reflexivity.
Qed.

Lemma hexbytes_decode v : be_decode (hexbytes v) = v.
Proof.
  destruct v as [|q]; [reflexivity|]. cbn [hexbytes].
  apply be_decode_encode. apply nbytes_bounds. lia.
Qed.

(* for v > 0 the first byte is the (non-zero) most significant digit *)
Lemma hexbytes_head v : 0 < v ->
  exists d tl, hexbytes v = n2b d :: tl /\ 1 <= d < 256 /\ d = v / 256 ^ N.of_nat (nbytes v - 1).
Proof.
  intros Hv. destruct (nbytes_bounds v Hv) as [Hlo Hhi]. pose proof (nbytes_pos v Hv) as Hp.
  destruct v as [|q]; [lia|]. cbn [hexbytes]. set (v := N.pos q) in *.
  destruct (nbytes v) as [|k] eqn:Ek; [lia|].
  replace (S k - 1)%nat with k in * by lia.
  rewrite be_encode_S. eexists; eexists; split; [reflexivity|].
  rewrite Nat2N.inj_succ, N.pow_succ_r' in Hhi.
  pose proof (pow256_pos (N.of_nat k)) as Hpos.
  split; [|reflexivity]. split.
  - apply N.div_le_lower_bound; lia.
  - apply N.div_lt_upper_bound; lia.
Qed.

Lemma hexbytes_nonempty v : exists b tl, hexbytes v = b :: tl.
Proof.
  destruct (N.eq_dec v 0) as [->|Hnz]; [cbn; eauto|].
  destruct (hexbytes_head v ltac:(lia)) as (d & tl & E & _). eauto.
Qed.

(* ---- the content octets of a DER integer as written by encode_integer --------------------- *)
Definition der_content (v : N) : bytes :=
  if head_n (hexbytes v) <=? 127 then hexbytes v else x00 :: hexbytes v.

Lemma der_content_decode v : be_decode (der_content v) = v.
Proof.
  unfold der_content. destruct (head_n (hexbytes v) <=? 127).
  - apply hexbytes_decode.
  - rewrite be_decode_cons0. apply hexbytes_decode.
Qed.

Lemma der_content_head v : exists b tl, der_content v = b :: tl /\ b2n b <= 127.
Proof.
  unfold der_content. destruct (head_n (hexbytes v) <=? 127) eqn:E.
  - destruct (hexbytes_nonempty v) as (b & tl & Eh). rewrite Eh in *. cbn [head_n] in E.
    exists b, tl. split; [reflexivity|lia].
  - exists x00, (hexbytes v). split; [reflexivity|]. change (b2n x00) with 0. lia.
Qed.

Lemma der_content_length v : (1 <= length (der_content v) <= S (length (hexbytes v)))%nat.
Proof.
  unfold der_content. destruct (hexbytes_nonempty v) as (b & tl & Eh).
  destruct (head_n (hexbytes v) <=? 127); rewrite Eh; cbn [length]; lia.
Qed.

(* content of at most k+? bytes when v < 2^(8k+7) *)
Lemma der_content_length_bound v k : v < 128 * 256 ^ N.of_nat k ->
  (length (der_content v) <= S k)%nat.
Proof.
  intros Hb. destruct (N.eq_dec v 0) as [->|Hnz]; [cbn; lia|].
  assert (Hv : 0 < v) by lia.
  pose proof (pow256_pos (N.of_nat k)) as Hpk.
  assert (Hn : (nbytes v <= S k)%nat).
  { apply nbytes_le. rewrite Nat2N.inj_succ, N.pow_succ_r'. lia. }
  unfold der_content. destruct (v =? 0) eqn:E0; [lia|].
  destruct (head_n (hexbytes v) <=? 127) eqn:E; [rewrite hexbytes_length, E0; exact Hn|].
  cbn [length]. rewrite hexbytes_length, E0.
  destruct (Nat.eq_dec (nbytes v) (S k)) as [Ek|]; [exfalso|lia].
  destruct (hexbytes_head v Hv) as (d & tl & Eh & Hd & Hdv).
  rewrite Eh in E. cbn [head_n] in E. rewrite b2n_n2b in E by lia.
  rewrite Ek in Hdv. replace (S k - 1)%nat with k in Hdv by lia.
  assert (d < 128) by (subst d; apply N.div_lt_upper_bound; lia). lia.
Qed.

(* ---- lengths ------------------------------------------------------------------------------ *)
Lemma read_length_encode_length t rest :
  (nbytes t < 128)%nat ->
  exists e, encode_length (Z.of_N t) = Ret e /\ read_length (e ++ rest) = Ret (t, length e).
Proof.
  intros Hn. unfold encode_length.
  destruct (Z.of_N t <? 0)%Z eqn:E0; [lia|].
  destruct (Z.of_N t <? 128)%Z eqn:E1.
  - eexists; split; [reflexivity|]. rewrite N2Z.id. cbn [app read_length length].
    destruct (n_small t ltac:(lia)) as [A B]. rewrite A, B. reflexivity.
  - rewrite N2Z.id. assert (Ht : 0 < t) by lia.
    rewrite hexbytes_length. destruct (t =? 0) eqn:Ez; [lia|].
    rewrite lor128_small by lia. unfold byte_of_len.
    destruct (128 + N.of_nat (nbytes t) <? 256) eqn:El; [|lia]. cbn [bind].
    eexists; split; [reflexivity|]. cbn [app read_length].
    destruct (n_big (N.of_nat (nbytes t)) ltac:(lia)) as [A B]. rewrite A, B. cbn [N.eqb].
    rewrite Nat2N.id, app_length, hexbytes_length, Ez.
    destruct (nbytes t + length rest <? nbytes t)%nat eqn:E3; [lia|].
    pose proof (nbytes_pos t Ht).
    destruct (nbytes t) as [|k] eqn:Ek; [lia|].
    unfold take. rewrite <- Ek.
    replace (nbytes t) with (length (hexbytes t)) at 1 by (rewrite hexbytes_length, Ez; reflexivity).
    rewrite firstn_app_exact, hexbytes_decode. cbn [length]. rewrite hexbytes_length, Ez. reflexivity.
Qed.


(* the octets encode_length writes are read back by read_length, whatever follows; at most 128 of them *)
Lemma encode_length_read t : (nbytes t < 128)%nat ->
  exists e, encode_length (Z.of_N t) = Ret e /\ (1 <= length e <= 128)%nat /\
    forall rest, read_length (e ++ rest) = Ret (t, length e).
Proof.
  intros Hn. destruct (read_length_encode_length t [] Hn) as (e & Ee & Hr0).
  exists e. split; [exact Ee|]. split.
  - unfold encode_length in Ee.
    destruct (Z.of_N t <? 0)%Z; [discriminate|]. destruct (Z.of_N t <? 128)%Z.
    + injection Ee as <-. cbn [length]. lia.
    + rewrite N2Z.id in Ee. unfold byte_of_len in Ee.
      destruct (N.lor 128 (N.of_nat (length (hexbytes t))) <? 256); [|discriminate].
      cbn [bind] in Ee. injection Ee as <-. cbn [length]. rewrite hexbytes_length.
      destruct (t =? 0); lia.
  - intros rest. destruct (read_length_encode_length t rest Hn) as (e' & Ee' & Hr).
    rewrite Ee in Ee'. injection Ee' as <-. exact Hr.
Qed.

Lemma encode_length_short n : (n < 128)%nat -> encode_length (Z.of_nat n) = Ret [n2b (N.of_nat n)].
Proof.
  intros H. unfold encode_length.
  destruct (Z.of_nat n <? 0)%Z eqn:E0; [lia|]. destruct (Z.of_nat n <? 128)%Z eqn:E1; [|lia].
  rewrite <- nat_N_Z, N2Z.id. reflexivity.
Qed.


(* ---- encode_integer ----------------------------------------------------------------------- *)
Lemma encode_integer_spec r : (0 <= r)%Z ->
  (nbytes (N.of_nat (length (der_content (Z.to_N r)))) < 128)%nat ->
  exists el, encode_length (Z.of_nat (length (der_content (Z.to_N r)))) = Ret el /\
    (1 <= length el <= 128)%nat /\
    (forall rest, read_length (el ++ rest) = Ret (N.of_nat (length (der_content (Z.to_N r))), length el)) /\
    encode_integer r = Ret (x02 :: el ++ der_content (Z.to_N r)).
Proof.
  intros Hr Hlen.
  destruct (encode_length_read _ Hlen) as (el & Eel & Hll & Hrd). rewrite nat_N_Z in Eel.
  exists el. repeat split; try assumption; try lia.
  unfold encode_integer, der_content in *.
  destruct (r <? 0)%Z eqn:E; [lia|].
  destruct (head_n (hexbytes (Z.to_N r)) <=? 127) eqn:Eh.
  - rewrite Eel. reflexivity.
  - cbn [length] in Eel. rewrite Nat2Z.inj_succ, <- Z.add_1_r in Eel. rewrite Eel. reflexivity.
Qed.

Lemma starts_with_same b s : starts_with b (b :: s) = true.
Proof. cbn [starts_with]. apply byte_eqb_refl. Qed.

(* ---- remove_integer inverts the integer layout -------------------------------------------- *)
Lemma remove_integer_layout (el c rest : bytes) (broken : bool) b0 tl :
  c = b0 :: tl -> b2n b0 <= 127 ->
  (forall X, read_length (el ++ X) = Ret (N.of_nat (length c), length el)) ->
  remove_integer (x02 :: el ++ c ++ rest) broken = Ret (Z.of_N (be_decode c), rest).
Proof.
  intros Ec Hb Hrd. unfold remove_integer. rewrite starts_with_same. cbn [negb drop skipn].
  rewrite Hrd. cbn [bind].
  cbn [length]. rewrite !app_length.
  destruct (N.of_nat (S (length el + (length c + length rest))) <? N.of_nat (1 + length el) + N.of_nat (length c)) eqn:E; [lia|].
  rewrite Nat2N.id. cbn [Nat.add drop skipn].
  assert (D1 : skipn (length el) (el ++ c ++ rest) = c ++ rest) by apply skipn_app_exact.
  rewrite D1.
  assert (D2 : skipn (length el + length c) (el ++ c ++ rest) = rest).
  { rewrite <- app_length, app_assoc. apply skipn_app_exact. }
  rewrite D2. unfold take. rewrite firstn_app_exact.
  rewrite Ec at 1.
  destruct (128 <=? b2n b0) eqn:E2; [lia|]. cbn [andb]. reflexivity.
Qed.

(* DER can express the length: fewer than 256^127 content bytes *)
Definition int_expressible (r : Z) : Prop :=
  (nbytes (N.of_nat (length (der_content (Z.to_N r)))) < 128)%nat.

Lemma remove_integer_encode r rest broken e :
  (0 <= r)%Z -> int_expressible r -> encode_integer r = Ret e ->
  remove_integer (e ++ rest) broken = Ret (r, rest).
Proof.
  intros Hr Hx He. destruct (encode_integer_spec r Hr Hx) as (el & _ & _ & Hrd & Ee).
  rewrite Ee in He. injection He as <-.
  destruct (der_content_head (Z.to_N r)) as (b0 & tl & Ec & Hb).
  cbn [app]. rewrite <- app_assoc.
  rewrite (remove_integer_layout el _ rest broken b0 tl Ec Hb Hrd).
  rewrite der_content_decode. f_equal. f_equal. lia.
Qed.

(* ---- slicing with unbounded ends ---------------------------------------------------------- *)
Lemma take_to_app (a t : bytes) : take_to (N.of_nat (length a)) (a ++ t) = a.
Proof.
  unfold take_to. rewrite app_length.
  destruct (N.of_nat (length a + length t) <=? N.of_nat (length a)) eqn:E.
  - assert (length t = 0%nat) by lia. destruct t; [apply app_nil_r|discriminate].
  - rewrite Nat2N.id. apply firstn_app_exact.
Qed.
Lemma drop_from_app (a t : bytes) : drop_from (N.of_nat (length a)) (a ++ t) = t.
Proof.
  unfold drop_from. rewrite app_length.
  destruct (N.of_nat (length a + length t) <=? N.of_nat (length a)) eqn:E.
  - assert (length t = 0%nat) by lia. destruct t; [reflexivity|discriminate].
  - rewrite Nat2N.id. apply skipn_app_exact.
Qed.

Lemma remove_sequence_layout e body trail t :
  t = N.of_nat (length body) ->
  read_length (e ++ body ++ trail) = Ret (t, length e) ->
  remove_sequence (x30 :: e ++ body ++ trail) = Ret (body, trail).
Proof.
  intros Ht Hr. unfold remove_sequence. rewrite starts_with_same. cbn [negb drop skipn].
  rewrite Hr. cbn [bind].
  assert (El : N.of_nat (1 + length e) + t = N.of_nat (length (x30 :: e ++ body))).
  { cbn [length]. rewrite app_length. lia. }
  rewrite El.
  replace (x30 :: e ++ body ++ trail) with ((x30 :: e ++ body) ++ trail)
    by (cbn [app]; rewrite <- app_assoc; reflexivity).
  rewrite take_to_app, drop_from_app. cbn [Nat.add drop skipn].
  change (skipn (length e) (e ++ body)) with (drop (length e) (e ++ body)).
  unfold drop. rewrite skipn_app_exact. reflexivity.
Qed.

(* ---- sigencode_der / sigdecode_der -------------------------------------------------------- *)
(* the hypothesis of the round trip: the whole signature body is shorter than 256^127 bytes, the
   largest length a DER long form (at most 127 length octets) can announce *)
Definition der_expressible (r s : Z) : Prop :=
  N.of_nat (nbytes (Z.to_N r)) + N.of_nat (nbytes (Z.to_N s)) + 264 <= 256 ^ 127.

Lemma der_content_len_le v : (length (der_content v) <= nbytes v + 1)%nat.
Proof.
  pose proof (der_content_length v) as H. rewrite hexbytes_length in H.
  destruct (v =? 0) eqn:E.
  - assert (v = 0) by lia. subst v. cbn. lia.
  - lia.
Qed.

Lemma nbytes_lt_128 t : t < 256 ^ 127 -> (nbytes t < 128)%nat.
Proof. intros H. assert (nbytes t <= 127)%nat; [|lia]. apply nbytes_le. exact H. Qed.

Lemma der_expressible_ints r s : der_expressible r s -> int_expressible r /\ int_expressible s.
Proof.
  unfold der_expressible, int_expressible. intros H.
  pose proof (der_content_len_le (Z.to_N r)). pose proof (der_content_len_le (Z.to_N s)).
  split; apply nbytes_lt_128; lia.
Qed.

(* the layout of a signature: 30 ‖ len ‖ int(r) ‖ int(s) *)
Lemma sigencode_layout r s :
  (0 <= r)%Z -> (0 <= s)%Z -> der_expressible r s ->
  exists er es el, encode_integer r = Ret er /\ encode_integer s = Ret es /\
    encode_length (Z.of_nat (length (er ++ es))) = Ret el /\
    sigencode_der r s = Ret (x30 :: el ++ er ++ es) /\
    forall rest, read_length (el ++ rest) = Ret (N.of_nat (length (er ++ es)), length el).
Proof.
  intros Hr Hs Hx. destruct (der_expressible_ints r s Hx) as [Hxr Hxs].
  destruct (encode_integer_spec r Hr Hxr) as (lr & _ & Hlr & _ & Er).
  destruct (encode_integer_spec s Hs Hxs) as (ls & _ & Hls & _ & Es).
  set (er := x02 :: lr ++ der_content (Z.to_N r)) in *.
  set (es := x02 :: ls ++ der_content (Z.to_N s)) in *.
  set (t := N.of_nat (length (er ++ es))).
  assert (Hn : (nbytes t < 128)%nat).
  { apply nbytes_lt_128. unfold t, er, es. rewrite app_length. cbn [length]. rewrite !app_length.
    pose proof (der_content_len_le (Z.to_N r)). pose proof (der_content_len_le (Z.to_N s)).
    unfold der_expressible in Hx. lia. }
  destruct (encode_length_read t Hn) as (el & Eel & _ & Hrd).
  exists er, es, el. repeat split; try assumption.
  unfold sigencode_der. rewrite Er, Es. cbn [bind]. unfold encode_sequence.
  cbn [fold_right concat]. rewrite app_nil_r.
  replace (N.of_nat (length er) + (N.of_nat (length es) + 0)) with t
    by (unfold t; rewrite app_length; lia).
  rewrite Eel. reflexivity.
Qed.

Lemma der_roundtrip r s broken :
  (0 <= r)%Z -> (0 <= s)%Z -> der_expressible r s ->
  exists sig, sigencode_der r s = Ret sig /\ sigdecode_der sig broken = Ret (r, s).
Proof.
  intros Hr Hs Hx. destruct (der_expressible_ints r s Hx) as [Hxr Hxs].
  destruct (sigencode_layout r s Hr Hs Hx) as (er & es & el & Er & Es & _ & Esig & Hrd).
  eexists; split; [exact Esig|]. unfold sigdecode_der.
  replace (x30 :: el ++ er ++ es) with (x30 :: el ++ (er ++ es) ++ []) by (rewrite app_nil_r; reflexivity).
  rewrite (remove_sequence_layout el (er ++ es) [] _ eq_refl (Hrd _)).
  cbn [bind nonempty andb].
  rewrite (remove_integer_encode r es broken er Hr Hxr Er). cbn [bind].
  rewrite <- (app_nil_r es).
  rewrite (remove_integer_encode s [] broken es Hs Hxs Es). cbn [bind nonempty andb]. reflexivity.
Qed.

Lemma der_trailing_after_encoding r s t :
  (0 <= r)%Z -> (0 <= s)%Z -> der_expressible r s -> t <> [] ->
  exists sig, sigencode_der r s = Ret sig /\ sigdecode_der (sig ++ t) false = Raise E_DER.
Proof.
  intros Hr Hs Hx Ht. destruct (sigencode_layout r s Hr Hs Hx) as (er & es & el & Er & Es & _ & Esig & Hrd).
  eexists; split; [exact Esig|]. unfold sigdecode_der.
  replace ((x30 :: el ++ er ++ es) ++ t) with (x30 :: el ++ (er ++ es) ++ t)
    by (cbn [app]; rewrite <- !app_assoc; reflexivity).
  rewrite (remove_sequence_layout el (er ++ es) t _ eq_refl (Hrd _)).
  cbn [bind]. destruct t; [congruence|reflexivity].
Qed.

(* every integer that fits in an addressable memory (fewer than 2^64 bytes) is expressible *)
Lemma der_expressible_addressable r s :
  (0 <= r)%Z -> (0 <= s)%Z -> (Z.log2 r < 2 ^ 67)%Z -> (Z.log2 s < 2 ^ 67)%Z -> der_expressible r s.
Proof.
  intros Hr Hs Lr Ls. unfold der_expressible.
  assert (B : forall v, (0 <= v)%Z -> (Z.log2 v < 2 ^ 67)%Z -> N.of_nat (nbytes (Z.to_N v)) <= 2 ^ 64).
  { intros v Hv Lv. destruct (Z.to_N v) as [|q] eqn:E; [cbn; lia|]. cbn [nbytes]. rewrite <- E.
    rewrite Nat2N.inj_succ, N2Nat.id.
    assert (N.log2 (Z.to_N v) = Z.to_N (Z.log2 v)) as ->.
    { clear. destruct v as [|[w|w|]|w]; reflexivity. }
    assert (Z.to_N (Z.log2 v) < 2 ^ 67) by (pose proof (Z.log2_nonneg v); lia).
    assert (Z.to_N (Z.log2 v) / 8 < 2 ^ 64) by (apply N.div_lt_upper_bound; lia). lia. }
  pose proof (B r Hr Lr). pose proof (B s Hs Ls).
  assert (2 ^ 64 + 2 ^ 64 + 264 <= 256 ^ 127) by (apply N.leb_le; vm_compute; reflexivity). lia.
Qed.

(* ---- strict decoding is prefix-free: NO accepted blob stays accepted with bytes appended ------ *)
Lemma read_length_app s t v : read_length s = Ret v -> read_length (s ++ t) = Ret v.
Proof.
  destruct s as [|s0 tl]; [discriminate|]. cbn [app read_length].
  destruct (N.land (b2n s0) 128 =? 0); [auto|].
  set (llen := N.to_nat (N.land (b2n s0) 127)).
  destruct (length tl <? llen)%nat eqn:E; [discriminate|].
  rewrite app_length. destruct (length tl + length t <? llen)%nat eqn:E2; [lia|].
  destruct llen as [|k] eqn:Ek; [auto|].
  intros H. rewrite <- H. unfold take. rewrite firstn_app.
  replace (S k - length tl)%nat with 0%nat by lia. cbn [firstn]. rewrite app_nil_r. reflexivity.
Qed.

Lemma read_length_ll s len ll : read_length s = Ret (len, ll) -> (1 <= ll <= length s)%nat.
Proof.
  destruct s as [|s0 tl]; [discriminate|]. cbn [read_length length].
  destruct (N.land (b2n s0) 128 =? 0); [intros H; injection H as <- <-; lia|].
  set (llen := N.to_nat (N.land (b2n s0) 127)).
  destruct (length tl <? llen)%nat eqn:E; [discriminate|].
  destruct llen as [|k] eqn:Ek; [discriminate|].
  intros H; injection H as <- <-. lia.
Qed.

Lemma starts_with_app b s t : starts_with b s = true -> starts_with b (s ++ t) = true.
Proof. destruct s; [discriminate|auto]. Qed.

Lemma drop1_app (s t : bytes) : s <> [] -> drop 1 (s ++ t) = drop 1 s ++ t.
Proof. destruct s; [congruence|reflexivity]. Qed.

Lemma remove_integer_app s t broken v rest :
  remove_integer s broken = Ret (v, rest) -> remove_integer (s ++ t) broken = Ret (v, rest ++ t).
Proof.
  unfold remove_integer. destruct (starts_with x02 s) eqn:Es; [|discriminate].
  rewrite (starts_with_app _ _ t Es). cbn [negb].
  assert (Hne : s <> []) by (destruct s; [discriminate|congruence]).
  rewrite (drop1_app s t Hne).
  destruct (read_length (drop 1 s)) as [[len llen]| |] eqn:Er; try discriminate.
  rewrite (read_length_app _ t _ Er). cbn [bind].
  destruct (N.of_nat (length s) <? N.of_nat (1 + llen) + len) eqn:E1; [discriminate|].
  rewrite app_length.
  destruct (N.of_nat (length s + length t) <? N.of_nat (1 + llen) + len) eqn:E2; [lia|].
  unfold take, drop. rewrite !skipn_app, !firstn_app.
  rewrite skipn_length.
  replace (N.to_nat len - (length s - (1 + llen)))%nat with 0%nat by lia.
  replace (1 + llen + N.to_nat len - length s)%nat with 0%nat by lia.
  cbn [firstn skipn]. rewrite app_nil_r.
  destruct (firstn (N.to_nat len) (skipn (1 + llen) s)) as [|b0 nb]; [discriminate|].
  destruct ((128 <=? b2n b0) && negb broken); intros H; injection H as <- <-; reflexivity.
Qed.

Lemma drop_from_nil e s : drop_from e s = [] -> N.of_nat (length s) <= e.
Proof.
  unfold drop_from. destruct (N.of_nat (length s) <=? e) eqn:E; [lia|].
  intros H. apply (f_equal (@length byte)) in H. unfold drop in H. rewrite skipn_length in H.
  cbn [length] in H. lia.
Qed.

Lemma der_strict_prefix_free blob t v :
  sigdecode_der blob false = Ret v -> t <> [] -> sigdecode_der (blob ++ t) false = Raise E_DER.
Proof.
  intros H Ht. unfold sigdecode_der in *.
  unfold remove_sequence in *.
  destruct (starts_with x30 blob) eqn:Es; [|discriminate].
  rewrite (starts_with_app _ _ t Es). cbn [negb] in *.
  assert (Hne : blob <> []) by (destruct blob; [discriminate|congruence]).
  rewrite (drop1_app blob t Hne).
  destruct (read_length (drop 1 blob)) as [[len ll]| |] eqn:Er; try discriminate.
  rewrite (read_length_app _ t _ Er). cbn [bind] in *.
  set (e := N.of_nat (1 + ll) + len) in *.
  destruct (drop_from e blob) as [|x xs] eqn:Ed; [|discriminate].
  cbn [nonempty andb negb] in H.
  apply drop_from_nil in Ed.
  pose proof (read_length_ll _ _ _ Er) as Hll.
  assert (Hdl : length (drop 1 blob) = (length blob - 1)%nat) by (unfold drop; apply skipn_length).
  assert (Htk : take_to e blob = blob) by (unfold take_to; destruct (N.of_nat (length blob) <=? e) eqn:E; [reflexivity|lia]).
  rewrite Htk in H.
  destruct (remove_integer (drop (1 + ll) blob) false) as [[r rest]| |] eqn:E1; try discriminate.
  cbn [bind] in H.
  destruct (remove_integer rest false) as [[s rem2]| |] eqn:E2; try discriminate.
  cbn [bind] in H. destruct rem2 as [|y ys]; [|discriminate].
  (* now the longer blob *)
  unfold drop_from, take_to. rewrite app_length.
  destruct (N.of_nat (length blob + length t) <=? e) eqn:E3.
  - cbn [nonempty andb].
    replace (drop (1 + ll) (blob ++ t)) with (drop (1 + ll) blob ++ t).
    2:{ unfold drop. rewrite skipn_app. replace (1 + ll - length blob)%nat with 0%nat by lia. reflexivity. }
    rewrite (remove_integer_app _ t _ _ _ E1). cbn [bind].
    rewrite (remove_integer_app _ t _ _ _ E2). cbn [bind app].
    destruct t; [congruence|reflexivity].
  - assert (Hn : nonempty (drop (N.to_nat e) (blob ++ t)) = true).
    { destruct (drop (N.to_nat e) (blob ++ t)) eqn:E4; [|reflexivity].
      apply (f_equal (@length byte)) in E4. unfold drop in E4. rewrite skipn_length, app_length in E4.
      cbn [length] in E4. lia. }
    rewrite Hn. reflexivity.
Qed.

(* ---- the encoder's output for 1 <= r, s < 2^256 has the BIP66 shape ---------------------------- *)
Lemma der_content_shape v : 0 < v ->
  exists b0 tl, der_content v = b0 :: tl /\ b2n b0 <= 127 /\
    (b2n b0 = 0 -> exists b1 tl', tl = b1 :: tl' /\ 128 <= b2n b1).
Proof.
  intros Hv. destruct (hexbytes_head v Hv) as (d & tl & Eh & Hd & _).
  unfold der_content. rewrite Eh. cbn [head_n]. rewrite b2n_n2b by lia.
  destruct (d <=? 127) eqn:E.
  - exists (n2b d), tl. rewrite b2n_n2b by lia. repeat split; lia.
  - exists x00, (n2b d :: tl). change (b2n x00) with 0. repeat split; [lia|].
    intros _. exists (n2b d), tl. rewrite b2n_n2b by lia. split; [reflexivity|lia].
Qed.

Lemma nth_skip4 (a b c d : byte) (cr rest : bytes) j :
  nth (4 + length cr + j) (a :: b :: c :: d :: cr ++ rest) x00 = nth j rest x00.
Proof. cbn [Nat.add nth]. rewrite app_nth2 by lia. f_equal. lia. Qed.

Lemma nth_in4 (a b c d : byte) (cr rest : bytes) j : (j < length cr)%nat ->
  nth (4 + j) (a :: b :: c :: d :: cr ++ rest) x00 = nth j cr x00.
Proof. intros H. cbn [Nat.add nth]. apply app_nth1. exact H. Qed.

Lemma bip66_layout (cr cs : bytes) (ht r0 s0 : byte) rt st :
  cr = r0 :: rt -> cs = s0 :: st ->
  b2n r0 <= 127 -> b2n s0 <= 127 ->
  (b2n r0 = 0 -> exists b1 tl', rt = b1 :: tl' /\ 128 <= b2n b1) ->
  (b2n s0 = 0 -> exists b1 tl', st = b1 :: tl' /\ 128 <= b2n b1) ->
  (length cr <= 33)%nat -> (length cs <= 33)%nat ->
  bip66_valid (x30 :: n2b (N.of_nat (length (x02 :: n2b (N.of_nat (length cr)) :: cr)
                                    + length (x02 :: n2b (N.of_nat (length cs)) :: cs)))
               :: x02 :: n2b (N.of_nat (length cr)) :: cr
               ++ (x02 :: n2b (N.of_nat (length cs)) :: cs ++ [ht])) = true.
Proof.
  intros Ecr Ecs Hr0 Hs0 Hr1 Hs1 Hlr Hls.
  set (Lr := length cr) in *. set (Ls := length cs) in *.
  assert (HLr : (1 <= Lr)%nat) by (unfold Lr; rewrite Ecr; cbn [length]; lia).
  assert (HLs : (1 <= Ls)%nat) by (unfold Ls; rewrite Ecs; cbn [length]; lia).
  set (T := N.of_nat (length (x02 :: n2b (N.of_nat Lr) :: cr) + length (x02 :: n2b (N.of_nat Ls) :: cs))).
  assert (HT : T = N.of_nat (4 + Lr + Ls)) by (unfold T; cbn [length]; fold Lr Ls; lia).
  set (rest := x02 :: n2b (N.of_nat Ls) :: cs ++ [ht]).
  set (sig := x30 :: n2b T :: x02 :: n2b (N.of_nat Lr) :: cr ++ rest).
  assert (Hsize : N.of_nat (length sig) = N.of_nat (7 + Lr + Ls)).
  { unfold sig, rest. cbn [length]. rewrite app_length. cbn [length]. rewrite app_length. cbn [length].
    fold Lr Ls. lia. }
  assert (A0 : at_ sig 0 = 48) by reflexivity.
  assert (A1 : at_ sig 1 = T) by (unfold at_, sig; cbn [N.to_nat Pos.to_nat Pos.iter_op nth]; apply b2n_n2b; lia).
  assert (A2 : at_ sig 2 = 2) by reflexivity.
  assert (A3 : at_ sig 3 = N.of_nat Lr) by (unfold at_, sig; cbn [N.to_nat Pos.to_nat Pos.iter_op Nat.add nth]; apply b2n_n2b; lia).
  assert (A4 : at_ sig 4 = b2n r0).
  { unfold at_, sig. change (N.to_nat 4) with (4 + 0)%nat. rewrite nth_in4 by lia. rewrite Ecr. reflexivity. }
  assert (A5 : (1 < Lr)%nat -> b2n r0 = 0 -> 128 <= at_ sig 5).
  { intros H1 H0. destruct (Hr1 H0) as (b1 & tl' & Ert & Hb1).
    unfold at_, sig. change (N.to_nat 5) with (4 + 1)%nat. rewrite nth_in4 by lia.
    rewrite Ecr, Ert. exact Hb1. }
  assert (B5 : at_ sig (5 + N.of_nat Lr) = N.of_nat Ls).
  { unfold at_, sig. replace (N.to_nat (5 + N.of_nat Lr)) with (4 + length cr + 1)%nat by (fold Lr; lia).
    rewrite nth_skip4. unfold rest. cbn [nth]. apply b2n_n2b. lia. }
  assert (B4 : at_ sig (N.of_nat Lr + 4) = 2).
  { unfold at_, sig. replace (N.to_nat (N.of_nat Lr + 4)) with (4 + length cr + 0)%nat by (fold Lr; lia).
    rewrite nth_skip4. reflexivity. }
  assert (B6 : at_ sig (N.of_nat Lr + 6) = b2n s0).
  { unfold at_, sig. replace (N.to_nat (N.of_nat Lr + 6)) with (4 + length cr + 2)%nat by (fold Lr; lia).
    rewrite nth_skip4. unfold rest. cbn [nth]. rewrite Ecs. reflexivity. }
  assert (B7 : (1 < Ls)%nat -> b2n s0 = 0 -> 128 <= at_ sig (N.of_nat Lr + 7)).
  { intros H1 H0. destruct (Hs1 H0) as (b1 & tl' & Est & Hb1).
    unfold at_, sig. replace (N.to_nat (N.of_nat Lr + 7)) with (4 + length cr + 3)%nat by (fold Lr; lia).
    rewrite nth_skip4. unfold rest. cbn [nth]. rewrite Ecs, Est. exact Hb1. }
  assert (Hr0' : N.land (b2n r0) 128 = 0) by (apply byte_small; lia).
  assert (Hs0' : N.land (b2n s0) 128 = 0) by (apply byte_small; lia).
  assert (C5 : (1 < Lr)%nat -> b2n r0 = 0 -> N.land (at_ sig 5) 128 = 128).
  { intros H1 H0. apply byte_big. apply A5; assumption. }
  assert (C7 : (1 < Ls)%nat -> b2n s0 = 0 -> N.land (at_ sig (N.of_nat Lr + 7)) 128 = 128).
  { intros H1 H0. apply byte_big. apply B7; assumption. }
  clearbody sig T. clear Hr1 Hs1 A5 B7 Ecr Ecs.
  unfold bip66_valid. rewrite Hsize, A0, A1, A2, A3, B5, A4, B4, B6, Hr0', Hs0'.
  repeat match goal with
  | |- (if ?c then _ else _) = true => let E := fresh "E" in destruct c eqn:E; try lia
  end.
Qed.

Lemma encode_integer_short r : (0 <= r)%Z -> (length (der_content (Z.to_N r)) < 128)%nat ->
  encode_integer r =
    Ret (x02 :: n2b (N.of_nat (length (der_content (Z.to_N r)))) :: der_content (Z.to_N r)).
Proof.
  intros Hr Hl.
  assert (Hx : (nbytes (N.of_nat (length (der_content (Z.to_N r)))) < 128)%nat).
  { assert (nbytes (N.of_nat (length (der_content (Z.to_N r)))) <= 1)%nat; [|lia].
    apply nbytes_le. change (256 ^ N.of_nat 1) with 256. lia. }
  destruct (encode_integer_spec r Hr Hx) as (el & Eel & _ & _ & Ee).
  rewrite encode_length_short in Eel by assumption. injection Eel as <-. exact Ee.
Qed.

Lemma small_expressible r s : (0 <= r < 2 ^ 256)%Z -> (0 <= s < 2 ^ 256)%Z -> der_expressible r s.
Proof.
  intros Hr Hs.
  assert (B : forall v, (0 <= v < 2 ^ 256)%Z -> (Z.log2 v < 2 ^ 67)%Z).
  { intros v Hv. destruct (Z.eq_dec v 0) as [->|]; [reflexivity|].
    assert (Z.log2 v < 256)%Z by (apply Z.log2_lt_pow2; lia). lia. }
  apply der_expressible_addressable; try lia; apply B; assumption.
Qed.

Lemma der_bip66 r s ht : (1 <= r < 2 ^ 256)%Z -> (1 <= s < 2 ^ 256)%Z ->
  exists sig, sigencode_der r s = Ret sig /\ bip66_valid (sig ++ [ht]) = true.
Proof.
  intros Hr Hs.
  assert (Hx : der_expressible r s) by (apply small_expressible; lia).
  destruct (sigencode_layout r s ltac:(lia) ltac:(lia) Hx) as (er & es & el & Er & Es & Eel & Esig & _).
  assert (Hlr : (length (der_content (Z.to_N r)) <= 33)%nat).
  { apply (der_content_length_bound _ 32).
    assert (Z.to_N r < Z.to_N (2 ^ 256)) by lia.
    change (Z.to_N (2 ^ 256)) with (256 ^ N.of_nat 32) in H.
    pose proof (pow256_pos (N.of_nat 32)). lia. }
  assert (Hls : (length (der_content (Z.to_N s)) <= 33)%nat).
  { apply (der_content_length_bound _ 32).
    assert (Z.to_N s < Z.to_N (2 ^ 256)) by lia.
    change (Z.to_N (2 ^ 256)) with (256 ^ N.of_nat 32) in H.
    pose proof (pow256_pos (N.of_nat 32)). lia. }
  rewrite encode_integer_short in Er by lia. rewrite encode_integer_short in Es by lia.
  injection Er as <-. injection Es as <-.
  destruct (der_content_shape (Z.to_N r) ltac:(lia)) as (r0 & rt & Ecr & Hr0 & Hr1).
  destruct (der_content_shape (Z.to_N s) ltac:(lia)) as (s0 & st & Ecs & Hs0 & Hs1).
  eexists; split; [exact Esig|].
  rewrite encode_length_short in Eel by (rewrite app_length; cbn [length]; lia).
  injection Eel as <-.
  pose proof (bip66_layout _ _ ht r0 s0 rt st Ecr Ecs Hr0 Hs0 Hr1 Hs1 Hlr Hls) as HB.
  rewrite app_length.
  cbn [app] in *. rewrite <- app_assoc. cbn [app]. exact HB.
Qed.

(* ---- statements as they appear in Props/C10.v ---------------------------------------------------- *)
Lemma der_roundtrip_addressable (r s : Z) (broken : bool) :
  (0 <= r)%Z -> (0 <= s)%Z -> (Z.log2 r < 2 ^ 67)%Z -> (Z.log2 s < 2 ^ 67)%Z ->
  exists sig, sigencode_der r s = Ret sig /\ sigdecode_der sig broken = Ret (r, s).
Proof. intros. apply der_roundtrip; try assumption. apply der_expressible_addressable; assumption. Qed.

Lemma der_of_lows (n r s : Z) (ht : byte) :
  (n < 2 ^ 256)%Z -> (1 <= r < n)%Z -> (1 <= s <= n / 2)%Z ->
  exists sig, sigencode_der r s = Ret sig /\ bip66_valid (sig ++ [ht]) = true /\
    sigdecode_der sig false = Ret (r, s) /\ (s <= n / 2)%Z.
Proof.
  intros Hn Hr Hs.
  assert (Hs2 : (s < 2 ^ 256)%Z).
  { assert (n / 2 <= n)%Z by (apply Z.div_le_upper_bound; lia). lia. }
  destruct (der_bip66 r s ht) as (sig & E1 & E2); [lia|lia|].
  destruct (der_roundtrip r s false) as (sig' & E1' & E3); [lia|lia|apply small_expressible; lia|].
  rewrite E1 in E1'. injection E1' as <-.
  exists sig. repeat split; try assumption; lia.
Qed.

Lemma der_long_form_example :
  (0 <= 2 ^ 2040 - 1)%Z /\ (0 <= 2 ^ 1015)%Z /\ (Z.log2 (2 ^ 2040 - 1) < 2 ^ 67)%Z /\ (Z.log2 (2 ^ 1015) < 2 ^ 67)%Z /\
  (exists sig, sigencode_der (2 ^ 2040 - 1) (2 ^ 1015) = Ret sig /\ (384 < length sig)%nat /\
     sigdecode_der sig false = Ret ((2 ^ 2040 - 1)%Z, (2 ^ 1015)%Z)).
Proof.
  split; [apply Z.leb_le; reflexivity|]. split; [apply Z.leb_le; reflexivity|].
  split; [apply Z.ltb_lt; vm_compute; reflexivity|]. split; [apply Z.ltb_lt; vm_compute; reflexivity|].
  eexists. split; [vm_compute; reflexivity|]. split; [apply Nat.ltb_lt; vm_compute; reflexivity|].
  vm_compute. reflexivity.
Qed.

Lemma der_lows_k1_example :
  match sigencode_der (k1_n - 1) (k1_n / 2) with
  | Ret sig => bip66_valid (sig ++ [x01]) = true /\ length sig = 71%nat
  | _ => False end.
Proof. vm_compute. split; reflexivity. Qed.
