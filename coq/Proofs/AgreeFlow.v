(* Proofs/AgreeFlow.v — C03 agreement, family (2): OP_IF OP_NOTIF OP_ELSE OP_ENDIF OP_VERIF OP_VERNOTIF OP_VERIFY
   OP_RETURN (incl. MINIMALIF), executed or inside an unexecuted branch. *)
From Coq Require Import Lia ZifyBool ZifyNat ZifyN.
From PV Require Import Base.Bytes Base.Outcome Gen.GenOpcodes Gen.GenFlags.
From PV Require Import Model.ScriptNum Model.Push Model.CondStack Spec.CondStackCore Proofs.CondStackP.
From PV Require Import Spec.VMTypes Model.VMpy Spec.VMcore Proofs.AgreeBase.
Local Open Scope N_scope.

Lemma minimalif_test v :
  negb (bytes_eqb v VM_FALSE || bytes_eqb v VM_TRUE) = (1 <? len v) || ((len v =? 1) && negb (at_ v 0 =? 1)).
Proof.
  destruct v as [|b [|b2 t]].
  - reflexivity.
  - destruct b; vm_compute; reflexivity.
  - unfold VM_FALSE, VM_TRUE. cbn [bytes_eqb]. rewrite andb_false_r. cbn [orb negb].
    replace (1 <? len (b :: b2 :: t)) with true by (unfold len; cbn [length]; lia). reflexivity.
Qed.

Section Flow.
Variable o : oracles.
Variable flags : N.
Variable sv : sigversion.
Variable ctx : txctx.
Variable script : bytes.
(* (H1) pycoin's VM obeys MINIMALIF by flag bit alone; Core only for witness v0 scripts *)
Hypothesis H1if : sv = SV_BASE -> flag_set flags VERIFY_MINIMALIF = false.

Notation abs := (abs script).
Notation hres := (hres script).
Notation hres_nf := (hres_nf script).
Notation handler := (handler o flags sv ctx script).
Notation exec_op := (exec_op o flags sv ctx).

Lemma flow_cond s vf op : cond_rel (st_cond s) vf ->
  hres s (cond_op s op)
       (match vf_step vf op with
        | Some vf' => COk (set_vf (abs s vf) (st_stack s) vf')
        | None => CErr SE_UNBALANCED_CONDITIONAL
        end).
Proof.
  intros R. pose proof (cond_step_sim _ _ op R) as H. unfold cond_op.
  destruct (c_step (st_cond s) op) as [c'|], (vf_step vf op) as [vf'|]; try contradiction; [|exact I].
  cbn [hres]. exists vf'. destruct s; cbn. repeat split; try exact H; lia.
Qed.

Lemma agree_if (notif : bool) s vf rest : cond_rel (st_cond s) vf ->
  hres s (handler (KIf notif) s) (exec_op (if notif then x64 else x63) rest (c_all_if_true (st_cond s)) (abs s vf)).
Proof.
  intros R.
  assert (E : exec_op (if notif then x64 else x63) rest (c_all_if_true (st_cond s)) (abs s vf)
              = op_if flags sv notif (c_all_if_true (st_cond s)) (abs s vf)) by (destruct notif; reflexivity).
  rewrite E. clear E. cbn [VMpy.handler]. unfold op_if.
  pose proof (cond_rel_all_true _ _ R) as Hall.
  destruct (c_all_if_true (st_cond s)) eqn:Ex.
  - destruct s as [pc stk alt cond opc bch]. cbn [st_stack st_cond abs e_stack] in *.
    destruct stk as [|v r]; [exact I|].
    unfold vm_pop. cbn [st_stack vbind]. unfold VMpy.flag.
    rewrite minimalif_test.
    assert (Hm : match sv with SV_WITNESS_V0 => flag_set flags VERIFY_MINIMALIF | SV_BASE => false end
                 = flag_set flags VERIFY_MINIMALIF).
    { destruct sv; [symmetry; apply H1if; reflexivity|reflexivity]. }
    rewrite Hm.
    destruct (flag_set flags VERIFY_MINIMALIF && _); [exact I|]. cbn [vbind].
    rewrite bool_from_is_cast.
    pose proof (flow_cond (VMpy.set_stack (mkst pc (v :: r) alt cond opc bch) r) vf
                  (CIf (if notif then negb (cast_to_bool v) else cast_to_bool v)) R) as K.
    cbn [vf_step] in K. rewrite Hall in K. exact K.
  - cbn [vbind].
    pose proof (flow_cond s vf (CIf (if notif then negb false else false)) R) as K.
    cbn [vf_step] in K. rewrite Hall in K. destruct s; exact K.
Qed.

Lemma agree_else s vf rest fx : cond_rel (st_cond s) vf ->
  hres s (handler KElse s) (exec_op x67 rest fx (abs s vf)).
Proof.
  intros R. pose proof (flow_cond s vf CElse R) as K. cbn [VMpy.handler].
  destruct vf; destruct s; exact K.
Qed.

Lemma agree_endif s vf rest fx : cond_rel (st_cond s) vf ->
  hres s (handler KEndif s) (exec_op x68 rest fx (abs s vf)).
Proof.
  intros R. pose proof (flow_cond s vf CEndif R) as K. cbn [VMpy.handler].
  destruct vf; destruct s; exact K.
Qed.

(* OP_VERIF / OP_VERNOTIF: fail even in an unexecuted branch on both sides *)
Lemma agree_verif s vf rest fx : hres s (handler (KBadOpcode true) s) (exec_op x65 rest fx (abs s vf)).
Proof. exact I. Qed.
Lemma agree_vernotif s vf rest fx : hres s (handler (KBadOpcode true) s) (exec_op x66 rest fx (abs s vf)).
Proof. exact I. Qed.

Lemma agree_verify s vf rest fx : hres_nf s vf (handler KVerify s) (exec_op x69 rest fx (abs s vf)).
Proof.
  cbn [VMpy.handler]. rewrite pop_verify_eq. destruct s as [pc stk alt cond opc bch].
  destruct stk as [|v r]; [exact I|]. cbn. destruct (cast_to_bool v); cbn; [|exact I].
  repeat split; reflexivity.
Qed.

Lemma agree_return s vf rest fx : hres_nf s vf (handler KRaise s) (exec_op x6a rest fx (abs s vf)).
Proof. exact I. Qed.

End Flow.
