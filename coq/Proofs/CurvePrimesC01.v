(* Proofs/CurvePrimesC01.v — the primes proved in Proofs/CurvePrimes.v ARE the regenerated constants of Gen/GenCurvesC01.v
   (premise M2 `prime n` of Props/C01.v, and M1, for the two production curves) *)
From Coq Require Import ZArith Znumtheory.
From PV Require Import Proofs.CurvePrimes Gen.GenCurvesC01.
Local Open Scope Z_scope.

Theorem prime_gen_secp256k1_p : prime gen_secp256k1_p.
Proof. exact prime_lit_k1_p. Qed.

Theorem prime_gen_secp256k1_n : prime gen_secp256k1_n.
Proof. exact prime_lit_k1_n. Qed.

Theorem prime_gen_secp256r1_p : prime gen_secp256r1_p.
Proof. exact prime_lit_r1_p. Qed.

Theorem prime_gen_secp256r1_n : prime gen_secp256r1_n.
Proof. exact prime_lit_r1_n. Qed.

Theorem production_moduli_prime :
  prime gen_secp256k1_p /\ prime gen_secp256k1_n /\ prime gen_secp256r1_p /\ prime gen_secp256r1_n.
Proof. exact (conj prime_gen_secp256k1_p (conj prime_gen_secp256k1_n (conj prime_gen_secp256r1_p prime_gen_secp256r1_n))). Qed.
