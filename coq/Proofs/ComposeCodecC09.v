(* Proofs/ComposeCodecC09.v — composition: the extended-key text round trip of C09 (Model/Bip32.v hwif / hparse / parse_hd,
   Proofs/Bip32P.v hwif_roundtrip_text) with the two Base58Check codecs instantiated by C11's model.

   C09 addresses a codec by an id (Gen/GenBip32Prefixes.v: 0 = double-SHA256 Base58Check, 1 = groestl Base58Check — the GRS
   rows) and holds texts as bytes.  The checksum hash stays abstract PER CODEC ID: `chk_hash : N -> bytes -> bytes`;
     b58enc c d := cc_b58check_encode (chk_hash c) d      b58dec c s := cc_b58check_decode (chk_hash c) s
   (Proofs/ComposeCodecB58.v).  The only fact used: every chk_hash c returns 32 bytes. *)
From Coq Require Import List ZArith NArith Bool Lia.
From Coq Require Import Strings.Byte.
From PV Require Import Base.Bytes Base.Outcome Gen.GenBip32Prefixes Model.Bip32 Spec.Bip32Spec Proofs.Bip32P
  Proofs.ComposeCodecB58.
Import ListNotations.
Local Open Scope Z_scope.

Definition c09_b58enc (chk_hash : N -> bytes -> bytes) (c : N) (d : bytes) : bytes := cc_b58check_encode (chk_hash c) d.
Definition c09_b58dec (chk_hash : N -> bytes -> bytes) (c : N) (s : bytes) : option bytes := cc_b58check_decode (chk_hash c) s.

Lemma c09_b58_roundtrip chk_hash : (forall c x, length (chk_hash c x) = 32%nat) ->
  forall c b, c09_b58dec chk_hash c (c09_b58enc chk_hash c b) = Some b.
Proof.
  intros HL c b. unfold c09_b58dec, c09_b58enc. apply cc_b58_decode_encode.
  intros x. rewrite HL. repeat constructor.
Qed.

(* what a parser accepts is the canonical text of its payload: any hash *)
Lemma c09_b58_canonical chk_hash c s d : c09_b58dec chk_hash c s = Some d -> c09_b58enc chk_hash c d = s.
Proof. apply cc_b58_encode_decode. Qed.

Section C09.
Variable pt : Type.
Variable pO : pt.
Variable smul : Z -> pt -> pt.
Variable pG : pt.
Variable order : Z.
Variable pt_eqb : pt -> pt -> bool.
Variable sec : pt -> bytes.
Variable unsec : bytes -> outcome pt.
Variable chk_hash : N -> bytes -> bytes.

Hypothesis order_range : 1 < order <= 2 ^ 256.
Hypothesis smul_zero : forall a, smul a pG = pO <-> a mod order = 0.
Hypothesis pt_eqb_spec : forall P Q, pt_eqb P Q = true <-> P = Q.
Hypothesis sec_len : forall P, P <> pO -> length (sec P) = 33%nat.
Hypothesis sec_head : forall P, P <> pO -> exists b r, sec P = b :: r /\ b <> x00.
Hypothesis unsec_sec : forall P, P <> pO -> unsec (sec P) = Ret P.
Hypothesis chk_hash_len : forall c x, length (chk_hash c x) = 32%nat.

(* (hwif_roundtrip_text is generalised over the group addition, HMAC, hash160 and loop fuel of its Section without using them:
   any values do) *)
Theorem compose_text_roundtrip : forall r (nd : node pt) (ap : bool),
  In r bip_prefix_table -> wf_node pt pO smul pG order nd -> ser_ok pt nd -> (ap = true -> nd_secret pt nd <> None) ->
  exists text, hwif pt sec (c09_b58enc chk_hash) (row_net r) nd ap = Ret text /\
    hparse pt pO smul pG order pt_eqb unsec (c09_b58dec chk_hash) (row_net r) ap text = Ret (Some (shown pt nd ap)) /\
    hparse pt pO smul pG order pt_eqb unsec (c09_b58dec chk_hash) (row_net r) (negb ap) text = Ret None /\
    parse_hd pt pO smul pG order pt_eqb unsec (c09_b58dec chk_hash) (row_net r) text = Ret (Some (shown pt nd ap)).
Proof.
  exact (fun r nd ap Hr => hwif_roundtrip_text pt (fun P _ => P) pO smul pG order pt_eqb sec unsec (fun _ m => m) (fun m => m)
           (c09_b58enc chk_hash) (c09_b58dec chk_hash) 1%nat
           order_range smul_zero pt_eqb_spec sec_len sec_head unsec_sec (Nat.lt_0_succ 0) (c09_b58_roundtrip chk_hash chk_hash_len)
           (row_net r) nd ap (table_nets_ok r Hr)
           (proj1 (N.eqb_eq _ _) (proj1 (negb_false_iff _) (table_codecs_match r Hr)))).
Qed.
End C09.
