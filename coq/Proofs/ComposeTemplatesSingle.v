(* Proofs/ComposeTemplatesSingle.v — composition C05 x C03, part 4: Core's EvalScript on the single-key templates
   <key> CHECKSIG and DUP HASH160 <h> EQUALVERIFY CHECKSIG, characterised by Templates.checksig.
   Stacks here are Core's internal ones (head = top).  `evfalse r`: the evaluation failed or left an empty (false)
   item on top — for a final script both mean "invalid". *)
From Coq Require Import Lia ZifyBool ZifyNat ZifyN.
From PV Require Import Base.Bytes Base.Outcome Gen.GenFlags Proofs.PushP Spec.Templates.
From PV Require Import Model.ScriptNum Spec.VMTypes Spec.VMcore.
From PV Require Import Proofs.SolveP Proofs.ComposeTemplatesEnc Proofs.ComposeTemplatesEval Proofs.ComposeTemplatesFad.
Local Open Scope N_scope.

Definition fin (r : cres est) : cres (list bytes) :=
  cbind r (fun s => match e_vf s with [] => COk (e_stack s) | _ => CErr SE_UNBALANCED_CONDITIONAL end).

Definition evfalse (r : cres (list bytes)) : Prop := (exists e, r = CErr e) \/ (exists t, r = COk ([] :: t)).

Lemma evfalse_err e : evfalse (CErr e).
Proof. left. eexists. reflexivity. Qed.
Lemma evfalse_fin_err e : evfalse (fin (CErr e)).
Proof. left. eexists. reflexivity. Qed.
Global Hint Resolve evfalse_err evfalse_fin_err : evf.

Lemma eval_script_fin o fw sv ctx script st :
  eval_script_e o fw sv ctx script st =
  if MAX_SCRIPT_SIZE <? VMcore.len script then CErr SE_SCRIPT_SIZE else fin (crun o fw sv ctx script (mk st 0 script)).
Proof. reflexivity. Qed.

Section Exec.
Variable o : oracles.
Variable fw : N.
Variable sv : sigversion.
Variable ctx : txctx.

Lemma crun_exec_ok op rest st opc bch st' bch' : (96 <? b2n op) = true -> is_disabled op = false -> opc + 1 <= 201 ->
  exec_op o fw sv ctx op rest true (mk st (opc + 1) bch) = COk (mk st' (opc + 1) bch') ->
  crun o fw sv ctx (op :: rest) (mk st opc bch) =
  if 1000 <? lenN st' then CErr SE_STACK_SIZE else crun o fw sv ctx rest (mk st' (opc + 1) bch').
Proof.
  intros H Hd Hopc He. rewrite crun_exec by assumption. rewrite He. cbn [cbind mk e_stack e_alt].
  replace (MAX_OPS_PER_SCRIPT <? opc + 1) with false by (unfold MAX_OPS_PER_SCRIPT; lia).
  unfold MAX_STACK_ITEMS, depth, lenN. cbn [length].
  replace (1000 <? N.of_nat (length st') + N.of_nat 0) with (1000 <? N.of_nat (length st')) by lia. reflexivity.
Qed.

Lemma crun_exec_err op rest st opc bch e : (96 <? b2n op) = true -> is_disabled op = false ->
  exec_op o fw sv ctx op rest true (mk st (opc + 1) bch) = CErr e ->
  exists e', crun o fw sv ctx (op :: rest) (mk st opc bch) = CErr e'.
Proof.
  intros H Hd He. rewrite crun_exec by assumption. rewrite He.
  destruct (MAX_OPS_PER_SCRIPT <? opc + 1); eexists; reflexivity.
Qed.

Lemma exec_dup rest a st opc bch :
  exec_op o fw sv ctx x76 rest true (mk (a :: st) opc bch) = COk (mk (a :: a :: st) opc bch).
Proof. reflexivity. Qed.
Lemma exec_dup_nil rest opc bch : exec_op o fw sv ctx x76 rest true (mk [] opc bch) = CErr ISO.
Proof. reflexivity. Qed.
Lemma exec_hash160 rest a st opc bch :
  exec_op o fw sv ctx xa9 rest true (mk (a :: st) opc bch) = COk (mk (o_hash160 o a :: st) opc bch).
Proof. reflexivity. Qed.
Lemma exec_hash160_nil rest opc bch : exec_op o fw sv ctx xa9 rest true (mk [] opc bch) = CErr ISO.
Proof. reflexivity. Qed.
Lemma exec_equalverify rest a b st opc bch :
  exec_op o fw sv ctx x88 rest true (mk (b :: a :: st) opc bch) =
  if bytes_eqb a b then COk (mk st opc bch) else CErr SE_EQUALVERIFY.
Proof. cbn [exec_op]. unfold on_stack. cbn [mk e_stack]. destruct (bytes_eqb a b); reflexivity. Qed.
Lemma exec_equal rest a b st opc bch :
  exec_op o fw sv ctx x87 rest true (mk (b :: a :: st) opc bch) = COk (mk (bool_vec (bytes_eqb a b) :: st) opc bch).
Proof. reflexivity. Qed.
Lemma exec_checksig rest s : exec_op o fw sv ctx xac rest true s = op_checksig o fw sv false s.
Proof. reflexivity. Qed.
End Exec.

Section Single.
Variable hash160 : bytes -> bytes.
Variable sha256 : bytes -> bytes.
Variable verifies : bytes -> bytes -> bytes -> bool.
Variable sighash : bool -> N -> bytes -> option bytes.
Variable fl : flags.
Variable fw : N.
Hypothesis Hfl : flags_rel fl fw.
Variable o : oracles.
Hypothesis Ho : oracles_inst hash160 sha256 verifies sighash o.
Variable ctx : txctx.

Notation CHECKSIG := (checksig verifies sighash fl).

Lemma op_checksig_spec sv key sig r opc bch :
  (sv = SV_BASE -> find_and_delete (push_encode sig) bch = bch) ->
  let res := op_checksig o fw sv false (mk (key :: sig :: r) opc bch) in
  if CHECKSIG (sv_wit sv) bch sig key then res = COk (mk ([x01] :: r) opc bch)
  else (res = COk (mk ([] :: r) opc bch) \/ exists e, res = CErr e).
Proof.
  intros Hin. cbv zeta. unfold op_checksig. cbn [mk e_stack e_bch].
  assert (Hcode : match sv with SV_BASE => find_and_delete (push_encode sig) bch | SV_WITNESS_V0 => bch end = bch)
    by (destruct sv; auto).
  rewrite Hcode. rewrite (oi_order _ _ _ _ o Ho).
  destruct (sig_enc_core fl fw Hfl sig) as [e1 H1]. destruct (pub_enc_core fl fw Hfl sv key) as [e2 H2].
  rewrite H1, H2. unfold checksig.
  destruct (sig_enc_ok fl sig); cbn [cbind andb]; [|right; eexists; reflexivity].
  destruct (pub_enc_ok fl (sv_wit sv) key); cbn [cbind andb]; [|right; eexists; reflexivity].
  rewrite (run_checksig_inst hash160 sha256 verifies sighash o _ _ _ _ Ho).
  destruct (sig_verifies verifies sighash (sv_wit sv) bch sig key); cbn [negb andb].
  - reflexivity.
  - destruct (flag_set fw VERIFY_NULLFAIL && negb (VMcore.len sig =? 0)); [right; eexists; reflexivity|left; reflexivity].
Qed.

(* ... CHECKSIG as the last opcode, the key on top *)
Lemma checksig_tail sv key st opc bch : opc + 1 <= 201 -> lenN st <= 1000 ->
  (forall sig r, st = sig :: r -> sv = SV_BASE -> find_and_delete (push_encode sig) bch = bch) ->
  let res := fin (crun o fw sv ctx [xac] (mk (key :: st) opc bch)) in
  match st with
  | sig :: r => if CHECKSIG (sv_wit sv) bch sig key then res = COk ([x01] :: r) else evfalse res
  | [] => evfalse res
  end.
Proof.
  intros Hopc Hst Hin. cbv zeta. rewrite crun_exec by reflexivity. rewrite exec_checksig.
  replace (MAX_OPS_PER_SCRIPT <? opc + 1) with false by (unfold MAX_OPS_PER_SCRIPT; lia).
  destruct st as [|sig r]; [apply evfalse_fin_err|].
  pose proof (op_checksig_spec sv key sig r (opc + 1) bch (Hin sig r eq_refl)) as Hs. cbv zeta in Hs.
  assert (Hd : (MAX_STACK_ITEMS <? depth (@nil byte :: r) + depth []) = false /\
               (MAX_STACK_ITEMS <? depth ([x01] :: r) + depth []) = false).
  { unfold MAX_STACK_ITEMS, depth. unfold lenN in Hst. cbn [length] in *. split; lia. }
  destruct Hd as [Hd0 Hd1].
  destruct (CHECKSIG (sv_wit sv) bch sig key).
  - rewrite Hs. cbn [cbind mk e_stack e_alt]. rewrite Hd1. reflexivity.
  - destruct Hs as [Hs|[e Hs]]; rewrite Hs; cbn [cbind mk e_stack e_alt]; [|apply evfalse_fin_err].
    rewrite Hd0. right. eexists. reflexivity.
Qed.

Lemma push_data_len_520 d : lenN d <= 520 -> lenN (push_data d) <= 523.
Proof. intros H. pose proof (push_data_length d ltac:(lia)). lia. Qed.

(* <key> CHECKSIG *)
Lemma eval_p2pk_core key st : lenN key <= 520 ->
  (forall sig r, st = sig :: r -> find_and_delete (push_encode sig) (p2pk_script key) = p2pk_script key) ->
  let res := eval_script_e o fw SV_BASE ctx (p2pk_script key) st in
  match st with
  | sig :: r => if (lenN st + 1 <=? 1000) && CHECKSIG false (p2pk_script key) sig key
                then res = COk ([x01] :: r) else evfalse res
  | [] => evfalse res
  end.
Proof.
  intros Hk Hin. cbv zeta. rewrite eval_script_fin.
  assert (Hsz : (MAX_SCRIPT_SIZE <? VMcore.len (p2pk_script key)) = false).
  { pose proof (push_data_len_520 key Hk) as H. unfold p2pk_script, MAX_SCRIPT_SIZE, VMcore.len, lenN in *.
    rewrite app_length. cbn [length]. lia. }
  rewrite Hsz. set (sc := p2pk_script key) in *.
  assert (Er : crun o fw SV_BASE ctx sc (mk st 0 sc) =
               if 1000 <? lenN st + 1 then CErr SE_STACK_SIZE else crun o fw SV_BASE ctx [xac] (mk (key :: st) 0 sc))
    by exact (crun_push_data o fw SV_BASE ctx key [xac] st 0 sc Hk).
  rewrite Er. clear Er.
  destruct (1000 <? lenN st + 1) eqn:E.
  { destruct st as [|sig r]; [apply evfalse_fin_err|]. replace (lenN (sig :: r) + 1 <=? 1000) with false by lia.
    apply evfalse_fin_err. }
  pose proof (checksig_tail SV_BASE key st 0 sc ltac:(lia) ltac:(lia)
                            (fun sig r E' _ => Hin sig r E')) as T. cbv zeta in T.
  destruct st as [|sig r]; [exact T|]. replace (lenN (sig :: r) + 1 <=? 1000) with true by lia. exact T.
Qed.

(* DUP HASH160 <h> EQUALVERIFY CHECKSIG, either signature version *)
Lemma run_p2pkh_core sv h st : lenN h <= 520 ->
  (forall pub sig r, st = pub :: sig :: r -> sv = SV_BASE ->
     find_and_delete (push_encode sig) (p2pkh_script h) = p2pkh_script h) ->
  let res := fin (crun o fw sv ctx (p2pkh_script h) (mk st 0 (p2pkh_script h))) in
  match st with
  | pub :: sig :: r =>
    if (lenN st + 2 <=? 1000) && bytes_eqb (hash160 pub) h && CHECKSIG (sv_wit sv) (p2pkh_script h) sig pub
    then res = COk ([x01] :: r) else evfalse res
  | _ => evfalse res
  end.
Proof.
  intros Hh Hin. cbv zeta. set (sc := p2pkh_script h).
  assert (Esc : sc = x76 :: xa9 :: push_data h ++ [x88; xac]) by reflexivity.
  destruct st as [|pub st1].
  { assert (He : exists e', crun o fw sv ctx sc (mk [] 0 sc) = CErr e')
      by exact (crun_exec_err o fw sv ctx x76 (xa9 :: push_data h ++ [x88; xac]) [] 0 sc ISO eq_refl eq_refl
                             (exec_dup_nil _ _ _ _ _ _ _)).
    destruct He as [e He]. rewrite He. apply evfalse_fin_err. }
  assert (Hgoal : evfalse (fin (crun o fw sv ctx sc (mk (pub :: st1) 0 sc))) ->
            (lenN (pub :: st1) + 2 <=? 1000) = false ->
            match st1 with
            | sig :: r => if (lenN (pub :: st1) + 2 <=? 1000) && bytes_eqb (hash160 pub) h && CHECKSIG (sv_wit sv) sc sig pub
                          then fin (crun o fw sv ctx sc (mk (pub :: st1) 0 sc)) = COk ([x01] :: r)
                          else evfalse (fin (crun o fw sv ctx sc (mk (pub :: st1) 0 sc)))
            | [] => evfalse (fin (crun o fw sv ctx sc (mk (pub :: st1) 0 sc)))
            end).
  { intros Hb Hf. destruct st1 as [|sig r]; [exact Hb|]. rewrite Hf. exact Hb. }
  assert (Er : crun o fw sv ctx sc (mk (pub :: st1) 0 sc) =
               if 1000 <? lenN (pub :: pub :: st1) then CErr SE_STACK_SIZE
               else crun o fw sv ctx (xa9 :: push_data h ++ [x88; xac]) (mk (pub :: pub :: st1) (0 + 1) sc))
    by exact (crun_exec_ok o fw sv ctx x76 _ (pub :: st1) 0 sc (pub :: pub :: st1) sc eq_refl eq_refl ltac:(lia)
               (exec_dup _ _ _ _ _ _ _ _ _)).
  destruct (1000 <? lenN (pub :: pub :: st1)) eqn:E1.
  { apply Hgoal; [rewrite Er; apply evfalse_fin_err|]. rewrite !lenN_cons in *. lia. }
  rewrite Er. clear Er Hgoal. rewrite !lenN_cons in *.
  rewrite (crun_exec_ok o fw sv ctx xa9 _ (pub :: pub :: st1) (0 + 1) sc (o_hash160 o pub :: pub :: st1) sc eq_refl eq_refl
             ltac:(lia) (exec_hash160 _ _ _ _ _ _ _ _ _)).
  rewrite !lenN_cons. rewrite E1. rewrite (oi_hash160 _ _ _ _ o Ho).
  rewrite crun_push_data by exact Hh. rewrite !lenN_cons.
  destruct (1000 <? 1 + (1 + lenN st1) + 1) eqn:E2.
  { destruct st1 as [|sig r]; [apply evfalse_fin_err|]. rewrite !lenN_cons in *.
    replace (1 + (1 + lenN r) + 2 <=? 1000) with false by lia. apply evfalse_fin_err. }
  destruct (bytes_eqb (hash160 pub) h) eqn:Eh.
  2:{ destruct (crun_exec_err o fw sv ctx x88 [xac] (h :: hash160 pub :: pub :: st1) (0 + 1 + 1) sc SE_EQUALVERIFY eq_refl eq_refl)
        as [e He].
      { rewrite exec_equalverify, Eh. reflexivity. }
      rewrite He. destruct st1 as [|sig r]; [apply evfalse_fin_err|]. rewrite andb_false_r. apply evfalse_fin_err. }
  rewrite (crun_exec_ok o fw sv ctx x88 [xac] (h :: hash160 pub :: pub :: st1) (0 + 1 + 1) sc (pub :: st1) sc eq_refl eq_refl
             ltac:(lia)) by (rewrite exec_equalverify, Eh; reflexivity).
  rewrite lenN_cons. replace (1000 <? 1 + lenN st1) with false by lia.
  pose proof (checksig_tail sv pub st1 (0 + 1 + 1 + 1) sc ltac:(lia) ltac:(lia)
                (fun sig r E' Esv => Hin pub sig r (f_equal (cons pub) E') Esv)) as T. cbv zeta in T.
  destruct st1 as [|sig r]; [exact T|]. rewrite !lenN_cons in *.
  replace (1 + (1 + lenN r) + 2 <=? 1000) with true by lia. cbn [andb]. exact T.
Qed.

Lemma p2pkh_script_size h : lenN h <= 520 -> (MAX_SCRIPT_SIZE <? VMcore.len (p2pkh_script h)) = false.
Proof.
  intros Hh. pose proof (push_data_len_520 h Hh) as H. unfold p2pkh_script, MAX_SCRIPT_SIZE, VMcore.len, lenN in *.
  rewrite !app_length. cbn [length]. lia.
Qed.

Lemma eval_p2pkh_core sv h st : lenN h <= 520 ->
  (forall pub sig r, st = pub :: sig :: r -> sv = SV_BASE ->
     find_and_delete (push_encode sig) (p2pkh_script h) = p2pkh_script h) ->
  let res := eval_script_e o fw sv ctx (p2pkh_script h) st in
  match st with
  | pub :: sig :: r =>
    if (lenN st + 2 <=? 1000) && bytes_eqb (hash160 pub) h && CHECKSIG (sv_wit sv) (p2pkh_script h) sig pub
    then res = COk ([x01] :: r) else evfalse res
  | _ => evfalse res
  end.
Proof.
  intros Hh Hin. cbv zeta. rewrite eval_script_fin, p2pkh_script_size by exact Hh. exact (run_p2pkh_core sv h st Hh Hin).
Qed.
End Single.
