(* Proofs/Rfc6979P.v — the model of pycoin's deterministic_generate_k equals RFC 6979 section 3.2
   (Spec/Rfc6979Spec.v) for every order, key, hash value and every function `hmac`; injectivity of
   the HMAC input in (key, reduced hash). *)
From Coq Require Import ZArith NArith List Lia Bool.
From Coq Require Import ZifyBool ZifyNat ZifyN.
From PV Require Import Base.Bytes Base.Outcome Model.Rfc6979 Spec.Rfc6979Spec.
Import ListNotations.
Local Open Scope Z_scope.

(* ---- octet strings and integers ---- *)
Lemma octets_to_int_app b x : octets_to_int (b ++ [x]) = octets_to_int b * 256 + b2z x.
Proof. unfold octets_to_int. rewrite fold_left_app. reflexivity. Qed.

Lemma octets_to_int_be b : octets_to_int b = from_bytes_be b.
Proof.
  unfold from_bytes_be, be_decode.
  induction b as [|x b IH] using rev_ind; [reflexivity|].
  rewrite octets_to_int_app, IH, rev_app_distr. cbn [rev app le_decode]. unfold b2z. lia.
Qed.

Lemma be_encode_S w v : be_encode (S w) v = be_encode w (v / 256)%N ++ [n2b v].
Proof. unfold be_encode. cbn [le_encode rev]. reflexivity. Qed.

Lemma int_to_octets_be w : forall v, 0 <= v -> int_to_octets w v = be_encode w (Z.to_N v).
Proof.
  induction w as [|w IH]; intros v Hv; [reflexivity|].
  cbn [int_to_octets]. rewrite be_encode_S, IH by (apply Z.div_pos; lia).
  f_equal.
  - f_equal. rewrite Z2N.inj_div by lia. reflexivity.
  - f_equal. unfold z2b. rewrite Z.mod_mod by lia.
    rewrite Z2N.inj_mod by lia. change (Z.to_N 256) with 256%N. apply n2b_mod.
Qed.

Lemma int_to_octets_length w v : length (int_to_octets w v) = w.
Proof. revert v; induction w as [|w IH]; intros v; cbn [int_to_octets]; [reflexivity|]. rewrite app_length, IH. cbn. lia. Qed.

Lemma pow256_N w : Z.of_N (256 ^ N.of_nat w) = 256 ^ Z.of_nat w.
Proof. rewrite N2Z.inj_pow. rewrite nat_N_Z. reflexivity. Qed.

Lemma octets_int_roundtrip w v : 0 <= v < 256 ^ Z.of_nat w -> octets_to_int (int_to_octets w v) = v.
Proof.
  intros H. rewrite octets_to_int_be, int_to_octets_be by lia. unfold from_bytes_be.
  rewrite be_decode_encode; [lia|]. pose proof (pow256_N w). lia.
Qed.

Lemma to_bytes_be_ok w v : 0 <= v < 256 ^ Z.of_nat w -> to_bytes_be w v = Ret (int_to_octets w v).
Proof.
  intros H. unfold to_bytes_be.
  destruct ((v <? 0) || (256 ^ Z.of_nat w <=? v)) eqn:E; [lia|].
  rewrite int_to_octets_be by lia. reflexivity.
Qed.

(* ---- bit lengths ---- *)
Lemma bit_length_pos n : 0 < n -> bit_length n = qlen_of n.
Proof. intros H. unfold bit_length, qlen_of. destruct (n =? 0) eqn:E; [lia|]. rewrite Z.abs_eq by lia. reflexivity. Qed.

Lemma qlen_bounds n : 0 < n -> 0 < qlen_of n /\ 2 ^ (qlen_of n - 1) <= n < 2 ^ qlen_of n.
Proof.
  intros H. unfold qlen_of. pose proof (Z.log2_nonneg n). pose proof (Z.log2_spec n H) as [H1 H2].
  replace (Z.log2 n + 1 - 1) with (Z.log2 n) by lia. rewrite <- Z.add_1_r in H2. lia.
Qed.

Lemma pow256_2 w : 0 <= w -> 256 ^ w = 2 ^ (8 * w).
Proof. intros H. change 256 with (2 ^ 8). rewrite <- Z.pow_mul_r by lia. reflexivity. Qed.

Section Proofs.
  Variable hmac : bytes -> bytes -> bytes.
  Variable hlen : nat.
  Variable n : Z.
  Hypothesis Hn : 0 < n.

  Let bln := qlen_of n.
  Let osz := Z.to_nat ((bln + 7) / 8).

  Lemma osz_spec : bln <= 8 * Z.of_nat osz < bln + 8.
  Proof.
    unfold osz. pose proof (qlen_bounds n Hn) as [Hq _]. fold bln in Hq.
    rewrite Z2Nat.id by (apply Z.div_pos; lia).
    pose proof (Z.div_mod (bln + 7) 8 ltac:(lia)). pose proof (Z.mod_pos_bound (bln + 7) 8 ltac:(lia)). lia.
  Qed.

  Lemma n_lt_pow_osz : n < 256 ^ Z.of_nat osz.
  Proof.
    rewrite pow256_2 by lia. pose proof (qlen_bounds n Hn) as [_ [_ H]]. fold bln in H.
    pose proof osz_spec. eapply Z.lt_le_trans; [exact H|]. apply Z.pow_le_mono_r; lia.
  Qed.

  (* loop 2: the byte-count test of the code is the bit-count test of the RFC *)
  Lemma gen_t_spec : forall fuel k v t,
    gen_t hmac fuel osz k v t =
    match spec_T hmac n fuel k v t with Some r => Ret r | None => OutOfFuel end.
  Proof.
    induction fuel as [|f IH]; intros k v t; cbn [gen_t spec_T]; [reflexivity|].
    assert (E : (length t <? osz)%nat = (8 * Z.of_nat (length t) <? qlen n)).
    { unfold qlen. fold bln. pose proof osz_spec. lia. }
    rewrite E. destruct (8 * Z.of_nat (length t) <? qlen n); [apply IH|reflexivity].
  Qed.

  Lemma spec_T_exit : forall fuel k v t v' t', spec_T hmac n fuel k v t = Some (v', t') ->
    qlen n <= 8 * Z.of_nat (length t').
  Proof.
    induction fuel as [|f IH]; intros k v t v' t' H; cbn [spec_T] in H; [discriminate|].
    destruct (8 * Z.of_nat (length t) <? qlen n) eqn:E.
    - eapply IH. exact H.
    - inversion H; subst. lia.
  Qed.

  Lemma bits2int_shift t : qlen n <= 8 * Z.of_nat (length t) ->
    Z.shiftr (from_bytes_be t) (Z.of_nat (length t) * 8 - bln) = bits2int n t.
  Proof.
    intros H. unfold bits2int. rewrite octets_to_int_be. unfold qlen in *. fold bln in H |- *.
    rewrite Z.shiftr_div_pow2 by lia.
    replace (Z.of_nat (length t) * 8 - bln) with (8 * Z.of_nat (length t) - bln) by lia.
    destruct (bln <? 8 * Z.of_nat (length t)) eqn:E; [reflexivity|].
    replace (8 * Z.of_nat (length t) - bln) with 0 by lia. apply Z.div_1_r.
  Qed.

  Lemma k_loop_spec : forall fuel k v,
    k_loop hmac fuel n bln osz k v =
    match spec_h hmac n fuel k v with Some r => Ret r | None => OutOfFuel end.
  Proof.
    induction fuel as [|f IH]; intros k v; cbn [k_loop spec_h]; [reflexivity|].
    rewrite gen_t_spec. unfold rolen, qlen. fold bln. fold osz.
    destruct (spec_T hmac n (S osz) k v []) as [[v' t']|] eqn:E; cbn [bind]; [|reflexivity].
    apply spec_T_exit in E. rewrite (bits2int_shift t' E).
    assert (Eb : (1 <=? bits2int n t') && (bits2int n t' <? n) = (1 <=? bits2int n t') && (bits2int n t' <=? n - 1)) by lia.
    rewrite Eb. destruct ((1 <=? bits2int n t') && (bits2int n t' <=? n - 1)); [reflexivity|apply IH].
  Qed.

  (* the hash value after `val >>= shift; if val >= n: val -= n` is bits2int(h1) mod n *)
  Definition reduced_hash (z : Z) : Z :=
    let shift := 8 * Z.of_nat hlen - bln in
    let v := if 0 <? shift then Z.shiftr z shift else z in
    if n <=? v then v - n else v.

  Lemma reduced_hash_spec z : 0 <= z < 256 ^ Z.of_nat hlen ->
    reduced_hash z = bits2int n (int_to_octets hlen z) mod n /\ 0 <= reduced_hash z < n.
  Proof.
    intros Hz. unfold reduced_hash, bits2int. rewrite int_to_octets_length, octets_int_roundtrip by assumption.
    unfold qlen. fold bln.
    pose proof (qlen_bounds n Hn) as [Hq [Hlo Hhi]]. fold bln in Hq, Hlo, Hhi.
    set (v := if 0 <? 8 * Z.of_nat hlen - bln then Z.shiftr z (8 * Z.of_nat hlen - bln) else z).
    assert (Hv : v = if bln <? 8 * Z.of_nat hlen then z / 2 ^ (8 * Z.of_nat hlen - bln) else z).
    { subst v. destruct (0 <? 8 * Z.of_nat hlen - bln) eqn:E1, (bln <? 8 * Z.of_nat hlen) eqn:E2; try lia.
      apply Z.shiftr_div_pow2. lia. }
    rewrite <- Hv.
    assert (Hvr : 0 <= v < 2 ^ bln).
    { rewrite Hv. rewrite pow256_2 in Hz by lia. destruct (bln <? 8 * Z.of_nat hlen) eqn:E.
      - split; [apply Z.div_pos; [lia|apply Z.pow_pos_nonneg; lia]|].
        apply Z.div_lt_upper_bound; [apply Z.pow_pos_nonneg; lia|].
        rewrite <- Z.pow_add_r by lia. replace (8 * Z.of_nat hlen - bln + bln) with (8 * Z.of_nat hlen) by lia. lia.
      - split; [lia|]. eapply Z.lt_le_trans; [apply Hz|]. apply Z.pow_le_mono_r; lia. }
    assert (H2 : 2 ^ bln = 2 * 2 ^ (bln - 1)).
    { rewrite <- Z.pow_succ_r by lia. f_equal. lia. }
    destruct (n <=? v) eqn:E.
    - split; [|lia]. apply (Z.mod_unique_pos _ _ 1); lia.
    - split; [|lia]. symmetry. apply Z.mod_small. lia.
  Qed.

  Theorem model_is_spec fuel d z : 0 <= d < n -> 0 <= z < 256 ^ Z.of_nat hlen ->
    deterministic_generate_k hmac hlen fuel n d z =
    match rfc6979_k hmac n fuel d (int_to_octets hlen z) with Some k => Ret k | None => OutOfFuel end.
  Proof.
    intros Hd Hz. unfold deterministic_generate_k, rfc6979_k.
    rewrite (bit_length_pos n Hn). fold bln. fold osz.
    pose proof n_lt_pow_osz as Hno.
    rewrite (to_bytes_be_ok osz d) by lia. cbn [bind].
    destruct (reduced_hash_spec z Hz) as [Hr Hrr]. unfold reduced_hash in Hr, Hrr. cbv zeta in Hr, Hrr.
    cbv zeta.
    rewrite (to_bytes_be_ok osz _) by lia. cbn [bind].
    rewrite k_loop_spec. rewrite int_to_octets_length.
    unfold bits2octets, int2octets, rolen, qlen. fold bln. fold osz. rewrite <- Hr. reflexivity.
  Qed.

  (* fuel of loop 2 suffices as soon as HMAC outputs have a fixed non-zero length *)
  Lemma spec_T_fuel (Hh : forall k m, length (hmac k m) = hlen) (Hl : (0 < hlen)%nat) :
    forall fuel k v t, (1 <= fuel)%nat -> (osz < fuel + length t)%nat -> spec_T hmac n fuel k v t <> None.
  Proof.
    induction fuel as [|f IH]; intros k v t H1 Hf; cbn [spec_T]; [lia|].
    destruct (8 * Z.of_nat (length t) <? qlen n) eqn:E; [|discriminate].
    assert (length t < osz)%nat by (unfold qlen in E; fold bln in E; pose proof osz_spec; lia).
    apply IH; [lia|]. rewrite app_length, Hh. lia.
  Qed.

  (* hence the model's inner loop never runs out of its S order_size fuel *)
  Lemma gen_t_fuel (Hh : forall k m, length (hmac k m) = hlen) (Hl : (0 < hlen)%nat) k v :
    gen_t hmac (S osz) osz k v [] <> OutOfFuel.
  Proof.
    rewrite gen_t_spec. pose proof (spec_T_fuel Hh Hl (S osz) k v [] ltac:(lia) ltac:(cbn; lia)) as H.
    destruct (spec_T hmac n (S osz) k v []); [discriminate|congruence].
  Qed.
End Proofs.

(* a returned nonce lies in [1, n-1], for any order, key, hash value and hmac *)
Lemma k_loop_range hmac : forall fuel n bln osz k v r, k_loop hmac fuel n bln osz k v = Ret r -> 1 <= r < n.
Proof.
  induction fuel as [|f IH]; intros n bln osz k v r H; cbn [k_loop] in H; [discriminate|].
  destruct (gen_t hmac (S osz) osz k v []) as [[v' t']| |]; cbn [bind] in H; try discriminate.
  destruct ((1 <=? _) && (_ <? n)) eqn:E in H.
  - inversion H; subst. lia.
  - eapply IH. exact H.
Qed.

Lemma gen_k_range hmac hlen fuel n d z k : deterministic_generate_k hmac hlen fuel n d z = Ret k -> 1 <= k < n.
Proof.
  unfold deterministic_generate_k. intros H.
  destruct (to_bytes_be _ d) as [priv| |]; cbn [bind] in H; try discriminate.
  destruct (to_bytes_be _ _) as [h1| |] in H; cbn [bind] in H; try discriminate.
  eapply k_loop_range. exact H.
Qed.

Lemma gen_k_never_raises hmac hlen fuel n d z e : 0 < n -> 0 <= d < n -> 0 <= z < 256 ^ Z.of_nat hlen ->
  deterministic_generate_k hmac hlen fuel n d z <> Raise e.
Proof.
  intros Hn Hd Hz. rewrite (model_is_spec hmac hlen n Hn fuel d z Hd Hz).
  destruct (rfc6979_k hmac n fuel d (int_to_octets hlen z)); discriminate.
Qed.

(* ---- injectivity of the HMAC input of steps d and f in (x, reduced hash) ---- *)
Lemma int_to_octets_inj w a b : 0 <= a < 256 ^ Z.of_nat w -> 0 <= b < 256 ^ Z.of_nat w ->
  int_to_octets w a = int_to_octets w b -> a = b.
Proof.
  intros Ha Hb H. apply (f_equal octets_to_int) in H. rewrite !octets_int_roundtrip in H by assumption. exact H.
Qed.

Lemma app_same_length_inj {A} : forall (a c b d : list A), length a = length c -> a ++ b = c ++ d -> a = c /\ b = d.
Proof.
  induction a as [|x a IH]; intros [|y c] b d Hl H; cbn in *; try discriminate; [auto|].
  inversion H; subst. destruct (IH c b d ltac:(lia) H2) as [-> ->]. auto.
Qed.

Lemma nonce_input_injective w d1 h1 d2 h2 :
  0 <= d1 < 256 ^ Z.of_nat w -> 0 <= h1 < 256 ^ Z.of_nat w ->
  0 <= d2 < 256 ^ Z.of_nat w -> 0 <= h2 < 256 ^ Z.of_nat w ->
  int_to_octets w d1 ++ int_to_octets w h1 = int_to_octets w d2 ++ int_to_octets w h2 ->
  d1 = d2 /\ h1 = h2.
Proof.
  intros Hd1 Hh1 Hd2 Hh2 H.
  apply app_same_length_inj in H; [|rewrite !int_to_octets_length; reflexivity].
  destruct H as [Ha Hb]. split; eapply int_to_octets_inj; eassumption.
Qed.
