(* Proofs/ChainP.v — lemmas about Model/Chain.v, part 1: dictionaries, sets, and the ChainFinder invariant
   preserved by meld_new_hashes / load_nodes for every pop order (priority list). *)
From Coq Require Import List NArith ZArith Bool Lia Arith.
From PV Require Import Base.Outcome Model.Chain Spec.ChainSpec.
Import ListNotations.
Local Open Scope N_scope.

(* ------------------------------------------------------------------ dict laws *)
Lemma dget_dset_eq {V} k (v : V) d : dget k (dset k v d) = Some v.
Proof.
  induction d as [|[k' v'] r IH]; cbn.
  - now rewrite N.eqb_refl.
  - destruct (N.eqb_spec k k'); cbn.
    + now rewrite N.eqb_refl.
    + destruct (N.eqb_spec k k'); [contradiction|exact IH].
Qed.
Lemma dget_dset_neq {V} k k' (v : V) d : k' <> k -> dget k' (dset k v d) = dget k' d.
Proof.
  intros Hn. induction d as [|[a va] r IH]; cbn.
  - destruct (N.eqb_spec k' k); [contradiction|reflexivity].
  - destruct (N.eqb_spec k a); cbn.
    + subst a. destruct (N.eqb_spec k' k); [contradiction|reflexivity].
    + destruct (N.eqb_spec k' a); [reflexivity|exact IH].
Qed.
Lemma dget_ddel_eq {V} k (d : dict V) : dget k (ddel k d) = None.
Proof.
  induction d as [|[a va] r IH]; cbn; [reflexivity|].
  destruct (N.eqb_spec k a); cbn; [exact IH|].
  destruct (N.eqb_spec k a); [contradiction|exact IH].
Qed.
Lemma dget_ddel_neq {V} k k' (d : dict V) : k' <> k -> dget k' (ddel k d) = dget k' d.
Proof.
  intros Hn. induction d as [|[a va] r IH]; cbn; [reflexivity|].
  destruct (N.eqb_spec k a); cbn.
  - subst a. destruct (N.eqb_spec k' k); [contradiction|exact IH].
  - destruct (N.eqb_spec k' a); [reflexivity|exact IH].
Qed.
Lemma dget_In {V} k (v : V) d : dget k d = Some v -> In (k, v) d.
Proof.
  induction d as [|[a va] r IH]; cbn; [discriminate|].
  destruct (N.eqb_spec k a); intros H.
  - inversion H; subst. now left.
  - right. auto.
Qed.
Lemma dget_key_In {V} k (v : V) d : dget k d = Some v -> In k (map fst d).
Proof. intros H. apply dget_In in H. now apply (in_map fst) in H. Qed.
Lemma In_dget {V} k (v : V) d : In (k, v) d -> exists v', dget k d = Some v'.
Proof.
  induction d as [|[a va] r IH]; cbn; [tauto|].
  intros [H|H]; destruct (N.eqb_spec k a); eauto.
  inversion H; subst; contradiction.
Qed.
Lemma dhas_true {V} k (d : dict V) : dhas k d = true <-> dget k d <> None.
Proof. unfold dhas. destruct (dget k d); split; intros; try congruence; auto. Qed.
Lemma dhas_false {V} k (d : dict V) : dhas k d = false <-> dget k d = None.
Proof. unfold dhas. destruct (dget k d); split; intros; try congruence; auto. Qed.

Lemma dget_None_keys {V} k (d : dict V) : dget k d = None <-> ~ In k (map fst d).
Proof.
  induction d as [|[a va] r IH]; cbn; [tauto|].
  destruct (N.eqb_spec k a); [split; [discriminate|intros H; exfalso; apply H; now left]|].
  rewrite IH. split; [intros H [E|E]; [congruence|contradiction]|tauto].
Qed.
Lemma ddel_keys {V} k (d : dict V) : NoDup (map fst d) -> NoDup (map fst (ddel k d)).
Proof.
  induction d as [|[a va] r IH]; cbn; [auto|]. intros H. inversion H; subst.
  destruct (N.eqb_spec k a); cbn; [auto|]. constructor; [|auto].
  intros Hin. apply H2. apply in_map_iff in Hin. destruct Hin as ((a' & v') & E & Hin). cbn in E. subst a'.
  unfold ddel in Hin. apply filter_In in Hin. destruct Hin as [Hin _]. apply in_map_iff. exists (a, v'). auto.
Qed.
Lemma dset_keys_eq {V} k (v : V) d :
  map fst (dset k v d) = if dhas k d then map fst d else map fst d ++ [k].
Proof.
  unfold dhas. induction d as [|[a va] r IH]; cbn; [reflexivity|].
  destruct (N.eqb_spec k a); cbn; [now subst|]. rewrite IH. destruct (dget k r); reflexivity.
Qed.
Lemma NoDup_snoc' {A} (x : A) s : NoDup s -> ~ In x s -> NoDup (s ++ [x]).
Proof.
  induction 1 as [|y r Hy Hr IH]; cbn; intros Hx.
  - constructor; [tauto|constructor].
  - constructor.
    + rewrite in_app_iff. cbn. intros [H|[H|[]]]; [contradiction|subst; tauto].
    + apply IH. tauto.
Qed.
Lemma dset_keys {V} k (v : V) d : NoDup (map fst d) -> NoDup (map fst (dset k v d)).
Proof.
  intros H. rewrite dset_keys_eq. destruct (dhas k d) eqn:E; [exact H|].
  apply NoDup_snoc'; [exact H|]. apply dget_None_keys. now apply dhas_false.
Qed.
Lemma In_dget_nodup {V} k (v : V) d : NoDup (map fst d) -> In (k, v) d -> dget k d = Some v.
Proof.
  induction d as [|[a va] r IH]; cbn; [tauto|]. intros H [E|Hin]; inversion H; subst.
  - inversion E; subst. now rewrite N.eqb_refl.
  - destruct (N.eqb_spec k a); [|auto]. subst a. exfalso. apply H2. apply in_map_iff. exists (k, v). auto.
Qed.

(* ------------------------------------------------------------------ set laws *)
Lemma mem_In x s : mem x s = true <-> In x s.
Proof.
  induction s as [|y r IH]; cbn; [split; [discriminate|tauto]|].
  destruct (N.eqb_spec x y).
  - split; auto.
  - rewrite IH. split; [auto|intros [H|H]; [congruence|auto]].
Qed.
Lemma mem_false x s : mem x s = false <-> ~ In x s.
Proof. rewrite <- mem_In. destruct (mem x s); split; congruence. Qed.
Lemma sdiscard_In x y s : In y (sdiscard x s) <-> In y s /\ y <> x.
Proof.
  unfold sdiscard. rewrite filter_In. destruct (N.eqb_spec x y); cbn; split; intros [A B]; split; auto; congruence.
Qed.
Lemma sdiscard_NoDup x s : NoDup s -> NoDup (sdiscard x s).
Proof. apply NoDup_filter. Qed.
Lemma sdiscard_length x s : (length (sdiscard x s) <= length s)%nat.
Proof.
  unfold sdiscard. induction s as [|y r IH]; cbn; [lia|]. destruct (negb (x =? y)); cbn; lia.
Qed.
Lemma sdiscard_length_lt x s : In x s -> (length (sdiscard x s) < length s)%nat.
Proof.
  induction s as [|y r IH]; cbn; [tauto|].
  intros [H|H].
  - subst. rewrite N.eqb_refl. cbn. pose proof (sdiscard_length x r). unfold sdiscard in H. lia.
  - destruct (N.eqb_spec x y); cbn.
    + pose proof (sdiscard_length x r). unfold sdiscard in H0. lia.
    + apply IH in H. unfold sdiscard in H. lia.
Qed.
Lemma sadd_In x y s : In y (sadd x s) <-> y = x \/ In y s.
Proof.
  unfold sadd. destruct (mem x s) eqn:E.
  - apply mem_In in E. split; [auto|intros [->|H]; auto].
  - rewrite in_app_iff. cbn. split; [intros [H|[H|[]]]; auto|intros [->|H]; auto].
Qed.
Lemma NoDup_snoc {A} (x : A) s : NoDup s -> ~ In x s -> NoDup (s ++ [x]).
Proof.
  induction 1 as [|y r Hy Hr IH]; cbn; intros Hx.
  - constructor; [tauto|constructor].
  - constructor.
    + rewrite in_app_iff. cbn. intros [H|[H|[]]]; [contradiction|subst; tauto].
    + apply IH. tauto.
Qed.
Lemma sadd_NoDup x s : NoDup s -> NoDup (sadd x s).
Proof.
  unfold sadd. destruct (mem x s) eqn:E; [auto|].
  apply mem_false in E. intros H. now apply NoDup_snoc.
Qed.
Lemma sunion_In y s t : In y (sunion s t) <-> In y s \/ In y t.
Proof.
  unfold sunion. revert s. induction t as [|x r IH]; cbn; intros s; [tauto|].
  rewrite IH, sadd_In. split; [intros [[->|H]|H]; auto|intros [H|[->|H]]; auto].
Qed.
Lemma sunion_NoDup s t : NoDup s -> NoDup (sunion s t).
Proof.
  unfold sunion. revert s. induction t as [|x r IH]; cbn; intros s H; [auto|].
  apply IH. now apply sadd_NoDup.
Qed.
Lemma pick_In prio s : s <> [] -> In (pick prio s) s.
Proof.
  intros Hs. induction prio as [|x r IH]; cbn.
  - destruct s; [congruence|now left].
  - destruct (mem x s) eqn:E; [now apply mem_In|exact IH].
Qed.

Lemma last_default {A} (l : list A) d d' : l <> [] -> last l d = last l d'.
Proof.
  induction l as [|x r IH]; [congruence|]. intros _. destruct r; [reflexivity|].
  cbn [last]. apply IH. discriminate.
Qed.
Lemma last_cons_ne {A} (x : A) l d : l <> [] -> last (x :: l) d = last l d.
Proof. destruct l; [congruence|reflexivity]. Qed.
Lemma last_app_ne {A} (l m : list A) d : m <> [] -> last (l ++ m) d = last m d.
Proof.
  intros Hm. induction l as [|x r IH]; [reflexivity|].
  cbn [app]. rewrite last_cons_ne; [exact IH|].
  intros E. apply app_eq_nil in E. tauto.
Qed.
Lemma last_In {A} (l : list A) d : l <> [] -> In (last l d) l.
Proof.
  induction l as [|x r IH]; [congruence|]. intros _. destruct r; [now left|].
  right. apply IH. discriminate.
Qed.

Lemma inset_dset d t s t' b :
  inset (dset t s d) t' b <-> (t' = t /\ In b s) \/ (t' <> t /\ inset d t' b).
Proof.
  unfold inset. destruct (N.eq_dec t' t) as [->|Hn].
  - rewrite dget_dset_eq. split.
    + intros (s' & E & Hb). inversion E; subst. now left.
    + intros [[_ H]|[H _]]; [eauto|congruence].
  - rewrite dget_dset_neq by exact Hn. split; [intros H; now right|intros [[H _]|[_ H]]; [congruence|exact H]].
Qed.
Lemma inset_ddel d t t' b : inset (ddel t d) t' b <-> t' <> t /\ inset d t' b.
Proof.
  unfold inset. destruct (N.eq_dec t' t) as [->|Hn].
  - rewrite dget_ddel_eq. split; [intros (s & E & _); discriminate|intros [H _]; congruence].
  - rewrite dget_ddel_neq by exact Hn. tauto.
Qed.

(* ------------------------------------------------------------------ parent chains and ranks *)
(* [steps p n a t]: t is reached from a by n parent links *)
Inductive steps (p : dict hash) : nat -> hash -> hash -> Prop :=
| st_0 : forall a, steps p 0 a a
| st_S : forall n a q t, dget a p = Some q -> steps p n q t -> steps p (S n) a t.
Definition anc (p : dict hash) (a t : hash) : Prop := exists n, steps p (S n) a t.
Definition ranked (rk : hash -> nat) (p : dict hash) : Prop :=
  forall h q, dget h p = Some q -> (rk q < rk h)%nat.

Lemma steps_snoc p n a t q : steps p n a t -> dget t p = Some q -> steps p (S n) a q.
Proof. induction 1; intros Hq; [econstructor; [eauto|constructor]|econstructor; eauto]. Qed.
Lemma steps_rank rk p n a t : ranked rk p -> steps p n a t -> (rk t + n <= rk a)%nat.
Proof. intros R. induction 1; [lia|]. apply R in H. lia. Qed.
Lemma anc_neq rk p a t : ranked rk p -> anc p a t -> a <> t.
Proof. intros R [n H] ->. eapply steps_rank in H; eauto. lia. Qed.
Lemma anc_step p a q t : dget a p = Some q -> anc p q t -> anc p a t.
Proof. intros H [n Hs]. exists (S n). econstructor; eauto. Qed.
Lemma anc_one p a q : dget a p = Some q -> anc p a q.
Proof. intros H. exists 0%nat. econstructor; [eauto|constructor]. Qed.
Lemma anc_trans p a b c : anc p a b -> anc p b c -> anc p a c.
Proof.
  intros [n H] Hb. revert Hb. remember (S n) as m eqn:E. revert n E.
  induction H; intros n0 E Hb; [discriminate|].
  inversion E; subst. destruct n0.
  - inversion H0; subst. eapply anc_step; eauto.
  - eapply anc_step; [eauto|]. eapply IHsteps; eauto.
Qed.

(* the first n nodes of a chain are distinct keys of p: a chain has at most |p| links *)
Lemma steps_keys rk p : ranked rk p -> forall n a t, steps p n a t ->
  exists l, length l = n /\ NoDup l /\ incl l (map fst p) /\ forall x, In x l -> (rk t < rk x <= rk a)%nat.
Proof.
  intros R. induction 1.
  - exists []. split; [reflexivity|]. split; [constructor|]. split; intros x [].
  - destruct IHsteps as (l & Hl & Hnd & Hin & Hrk).
    pose proof (R _ _ H) as Hr. pose proof (steps_rank _ _ _ _ _ R H0) as Hr2.
    exists (a :: l). split; [cbn; now rewrite Hl|]. split; [|split].
    + constructor; [|exact Hnd]. intros Hx. apply Hrk in Hx. lia.
    + intros x [<-|Hx]; [eapply dget_key_In; eauto|auto].
    + intros x [<-|Hx]; [lia|apply Hrk in Hx; lia].
Qed.
Lemma steps_bound rk p n a t : ranked rk p -> steps p n a t -> (n <= length p)%nat.
Proof.
  intros R H. destruct (steps_keys rk p R n a t H) as (l & Hl & Hnd & Hin & _).
  rewrite <- Hl, <- (map_length fst p). now apply NoDup_incl_length.
Qed.
