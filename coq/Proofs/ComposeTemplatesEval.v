(* Proofs/ComposeTemplatesEval.v — composition C05 x C03, part 2: running Core's interpreter (Spec/VMcore.v)
   symbolically on push sequences.
   * fuel independence of eval_loop, `crun` = eval_loop with the canonical fuel, its unfolding equations;
   * one instruction read by Templates.parse_one is the instruction Core's GetOp reads, and Core's `step` on it
     pushes the same item under the same conditions (520-byte limit, MINIMALDATA = Templates' `minimal` bit,
     1000-item limit): `parse_one_step`;
   * a whole push-only script: `crun_pushes`; a canonical push of the templates: `crun_push_data`;
   * an executed non-push opcode: `step_exec`;
   * IsPushOnly holds for every script parse_pushes reads. *)
From Coq Require Import Lia ZifyBool ZifyNat ZifyN.
From PV Require Import Base.Bytes Base.Outcome Gen.GenFlags Proofs.PushP Spec.Templates.
From PV Require Import Model.ScriptNum Spec.VMTypes Spec.VMcore.
From PV Require Import Proofs.SolveP Proofs.ComposeTemplatesEnc.
Local Open Scope N_scope.

(* states of the templates' evaluations: no alt stack, no open conditional *)
Definition mk (st : list bytes) (opc : N) (bch : bytes) : est :=
  {| e_stack := st; e_alt := []; e_vf := []; e_opc := opc; e_bch := bch |}.

Lemma low_not_disabled op : (b2n op <=? 96) = true -> is_disabled op = false.
Proof. destruct op; intros H; try reflexivity; vm_compute in H; discriminate. Qed.

(* ---- minimal-push rule: Templates' bit = CheckMinimalPush ------------------------------------------------- *)
Lemma cmp_direct d o : 1 <= o <= 75 -> lenN d = o -> check_minimal_push d o = negb (small_int_data d).
Proof.
  intros Ho Hl. unfold lenN in Hl. destruct d as [|b [|b2 r]].
  - cbn in Hl. lia.
  - cbn in Hl. assert (o = 1) as -> by lia. unfold check_minimal_push, small_int_data.
    pose proof (b2n_lt b) as Hb.
    destruct ((1 <=? b2n b) && (b2n b <=? 16)) eqn:E1; cbn [orb negb]; [lia|].
    destruct (b2n b =? 129); cbn [negb]; lia.
  - unfold check_minimal_push, small_int_data, VMcore.len. cbn [negb].
    replace (N.of_nat (length (b :: b2 :: r)) <=? 75) with true by lia. lia.
Qed.

Lemma cmp_var d o : (o = 76 /\ lenN d <= 255) \/ (o = 77 /\ lenN d <= 65535) \/ o = 78 ->
  check_minimal_push d o = if o =? 76 then 76 <=? lenN d else if o =? 77 then 256 <=? lenN d else 65536 <=? lenN d.
Proof.
  intros Ho.
  assert (Hif : (if o =? 76 then 76 <=? lenN d else if o =? 77 then 256 <=? lenN d else 65536 <=? lenN d) =
                ((o =? 76) && (76 <=? lenN d)) || ((o =? 77) && (256 <=? lenN d)) || ((o =? 78) && (65536 <=? lenN d))).
  { destruct Ho as [[-> _]|[[-> _]| ->]]; cbv iota beta delta [N.eqb Pos.eqb]; cbn [andb orb]; rewrite ?orb_false_r; reflexivity. }
  rewrite Hif. clear Hif. unfold lenN in *. destruct d as [|b [|b2 r]].
  - unfold check_minimal_push. change (N.of_nat (length [])) with 0. lia.
  - unfold check_minimal_push. change (N.of_nat (length [b])) with 1. pose proof (b2n_lt b) as Hb.
    destruct ((1 <=? b2n b) && (b2n b <=? 16)) eqn:E1; [lia|].
    destruct (b2n b =? 129); lia.
  - unfold check_minimal_push, VMcore.len. set (n := N.of_nat (length (b :: b2 :: r))) in *.
    assert (2 <= n) by (unfold n; cbn [length]; lia).
    destruct (n <=? 75) eqn:E; [lia|]. destruct (n <=? 255) eqn:E2; [lia|]. destruct (n <=? 65535) eqn:E3; lia.
Qed.

Section Run.
Variable o : oracles.
Variable fw : N.
Variable sv : sigversion.
Variable ctx : txctx.

Lemma eval_loop_fuel_indep : forall f1 f2 rest s, (length rest <= f1)%nat -> (length rest <= f2)%nat ->
  eval_loop o fw sv ctx f1 rest s = eval_loop o fw sv ctx f2 rest s.
Proof.
  induction f1 as [|f1 IH]; intros f2 rest s H1 H2.
  - destruct rest; [|cbn in H1; lia]. destruct f2; reflexivity.
  - destruct rest as [|b t]; [destruct f2; reflexivity|].
    destruct f2 as [|f2]; [cbn in H2; lia|]. cbn [eval_loop].
    destruct (get_op (b :: t)) as [[[op d] r]|] eqn:E; [|reflexivity].
    apply get_op_shrinks in E. destruct (VMcore.step o fw sv ctx op d r s); cbn [cbind]; try reflexivity.
    apply IH; cbn [length] in *; lia.
Qed.

Definition crun (rest : bytes) (s : est) : cres est := eval_loop o fw sv ctx (length rest) rest s.

Lemma crun_nil s : crun [] s = COk s.
Proof. reflexivity. Qed.

Lemma crun_step rest op d rest' s : get_op rest = Some (op, d, rest') ->
  crun rest s = cbind (VMcore.step o fw sv ctx op d rest' s) (fun s' => crun rest' s').
Proof.
  intros E. unfold crun. destruct rest as [|b t]; [discriminate|]. cbn [length eval_loop]. rewrite E.
  apply get_op_shrinks in E. destruct (VMcore.step o fw sv ctx op d rest' s); cbn [cbind]; try reflexivity.
  apply eval_loop_fuel_indep; cbn [length] in *; lia.
Qed.

Lemma eval_script_crun script st :
  eval_script_e o fw sv ctx script st =
  if MAX_SCRIPT_SIZE <? VMcore.len script then CErr SE_SCRIPT_SIZE else
  cbind (crun script (mk st 0 script))
        (fun s => match e_vf s with [] => COk (e_stack s) | _ => CErr SE_UNBALANCED_CONDITIONAL end).
Proof. reflexivity. Qed.

(* ---- pushes ------------------------------------------------------------------------------------------------ *)
Definition push_step_res (d : bytes) (mn : bool) (st : list bytes) (opc : N) (bch : bytes) : cres est :=
  if 520 <? lenN d then CErr SE_PUSH_SIZE
  else if flag_set fw VERIFY_MINIMALDATA && negb mn then CErr SE_MINIMALDATA
  else if 1000 <? lenN st + 1 then CErr SE_STACK_SIZE
  else COk (mk (d :: st) opc bch).

Lemma step_data op d rest st opc bch : (b2n op <=? 78) = true ->
  VMcore.step o fw sv ctx op d rest (mk st opc bch) = push_step_res d (check_minimal_push d (b2n op)) st opc bch.
Proof.
  intros H. unfold VMcore.step, push_step_res, mk. cbn [e_vf e_opc e_stack e_alt forallb].
  change (MAX_SCRIPT_ELEMENT_SIZE <? VMcore.len d) with (520 <? lenN d).
  destruct (520 <? lenN d); [reflexivity|].
  replace (96 <? b2n op) with false by lia. cbn [andb].
  rewrite low_not_disabled by lia. rewrite H. cbn [andb].
  destruct (flag_set fw VERIFY_MINIMALDATA && negb (check_minimal_push d (b2n op))); [reflexivity|].
  unfold set_opc, set_stack. cbn [e_vf e_opc e_stack e_alt e_bch cbind].
  unfold MAX_STACK_ITEMS, lenN, depth. cbn [length]. replace (1000 <? N.of_nat (S (length st)) + N.of_nat 0) with (1000 <? N.of_nat (length st) + 1) by lia.
  reflexivity.
Qed.

Definition small_op (op : byte) : bool := (b2n op =? 79) || ((81 <=? b2n op) && (b2n op <=? 96)).
Definition small_item (op : byte) : bytes := if b2n op =? 79 then [x81] else [n2b (b2n op - 80)].

Lemma step_small op rest st opc bch : small_op op = true ->
  VMcore.step o fw sv ctx op [] rest (mk st opc bch) =
  if MAX_STACK_ITEMS <? depth (small_item op :: st) + depth [] then CErr SE_STACK_SIZE
  else COk (mk (small_item op :: st) opc bch).
Proof. destruct op; intros H; try (vm_compute in H; discriminate); reflexivity. Qed.

Lemma step_small' op rest st opc bch : small_op op = true ->
  VMcore.step o fw sv ctx op [] rest (mk st opc bch) = push_step_res (small_item op) true st opc bch.
Proof.
  intros H. rewrite step_small by exact H. unfold push_step_res.
  assert (Hl : lenN (small_item op) = 1) by (unfold small_item; destruct (b2n op =? 79); reflexivity).
  rewrite Hl. change (520 <? 1) with false. cbv iota. rewrite andb_false_r.
  unfold MAX_STACK_ITEMS, depth, lenN. cbn [length].
  replace (1000 <? N.of_nat (S (length st)) + N.of_nat 0) with (1000 <? N.of_nat (length st) + 1) by lia. reflexivity.
Qed.

Lemma take_n_nat n s : take_n n s =
  if (length s <? N.to_nat n)%nat then None else Some (firstn (N.to_nat n) s, skipn (N.to_nat n) s).
Proof.
  unfold take_n, VMcore.len. destruct (N.of_nat (length s) <? n) eqn:E.
  - replace (length s <? N.to_nat n)%nat with true by lia. reflexivity.
  - replace (length s <? N.to_nat n)%nat with false by lia. reflexivity.
Qed.

Lemma firstn_lenN {A} n (l : list A) : (n <= length l)%nat -> lenN (firstn n l) = N.of_nat n.
Proof. intros H. unfold lenN. rewrite firstn_length. lia. Qed.

(* the instruction Templates.parse_one reads is the one GetOp reads, and `step` pushes the same item *)
Lemma parse_one_step s d r mn : parse_one s = Some (d, r, mn) ->
  exists op d', get_op s = Some (op, d', r) /\ (b2n op <=? 96) = true /\
    forall st opc bch, VMcore.step o fw sv ctx op d' r (mk st opc bch) = push_step_res d mn st opc bch.
Proof.
  destruct s as [|op t]; [discriminate|]. unfold parse_one. cbv zeta.
  pose proof (b2n_lt op) as Hop.
  destruct (b2n op =? 0) eqn:E0.
  { intros H; injection H as <- <- <-. exists op, []. split; [|split; [lia|]].
    - cbn [get_op]. replace (78 <? b2n op) with false by lia. replace (b2n op <? 76) with true by lia.
      replace (b2n op) with 0 by lia. rewrite take_n_nat. reflexivity.
    - intros. rewrite step_data by lia. replace (b2n op) with 0 by lia. reflexivity. }
  destruct (b2n op <=? 75) eqn:E75.
  { destruct (length t <? N.to_nat (b2n op))%nat eqn:El; [discriminate|].
    intros H; injection H as <- <- <-. exists op, (firstn (N.to_nat (b2n op)) t). split; [|split; [lia|]].
    - cbn [get_op]. replace (78 <? b2n op) with false by lia. replace (b2n op <? 76) with true by lia.
      rewrite take_n_nat, El. reflexivity.
    - intros. rewrite step_data by lia. f_equal. apply cmp_direct; [lia|]. rewrite firstn_lenN by lia. lia. }
  destruct (b2n op =? 76) eqn:E76.
  { destruct t as [|l r']; [discriminate|].
    destruct (length r' <? N.to_nat (b2n l))%nat eqn:El; [discriminate|].
    intros H; injection H as <- <- <-. exists op, (firstn (N.to_nat (b2n l)) r'). split; [|split; [lia|]].
    - cbn [get_op]. replace (78 <? b2n op) with false by lia. replace (b2n op <? 76) with false by lia.
      rewrite E76. cbn [length Nat.ltb Nat.leb firstn skipn le_decode].
      replace (b2n l + 256 * 0) with (b2n l) by lia. rewrite take_n_nat, El. reflexivity.
    - intros. rewrite step_data by lia. f_equal. pose proof (b2n_lt l) as Hlb.
      assert (Hl : lenN (firstn (N.to_nat (b2n l)) r') = b2n l) by (rewrite firstn_lenN by lia; lia).
      replace (b2n op) with 76 by lia. rewrite cmp_var by (left; split; [reflexivity|lia]).
      cbn [N.eqb Pos.eqb]. now rewrite Hl. }
  destruct (b2n op =? 77) eqn:E77.
  { destruct (length t <? 2)%nat eqn:El2; [discriminate|].
    destruct (N.of_nat (length (skipn 2 t)) <? le_decode (firstn 2 t)) eqn:El; [discriminate|].
    intros H; injection H as <- <- <-. exists op, (firstn (N.to_nat (le_decode (firstn 2 t))) (skipn 2 t)).
    split; [|split; [lia|]].
    - cbn [get_op]. replace (78 <? b2n op) with false by lia. replace (b2n op <? 76) with false by lia.
      rewrite E76, E77, El2. unfold take_n, VMcore.len. rewrite El. reflexivity.
    - intros. rewrite step_data by lia. f_equal.
      pose proof (le_decode_bound (firstn 2 t)) as Hb. rewrite firstn_length in Hb.
      replace (Nat.min 2 (length t)) with 2%nat in Hb by lia. change (256 ^ N.of_nat 2) with 65536 in Hb.
      assert (Hl : lenN (firstn (N.to_nat (le_decode (firstn 2 t))) (skipn 2 t)) = le_decode (firstn 2 t))
        by (rewrite firstn_lenN by lia; lia).
      replace (b2n op) with 77 by lia. rewrite cmp_var by (right; left; split; [reflexivity|lia]).
      cbn [N.eqb Pos.eqb]. now rewrite Hl. }
  destruct (b2n op =? 78) eqn:E78.
  { destruct (length t <? 4)%nat eqn:El2; [discriminate|].
    destruct (N.of_nat (length (skipn 4 t)) <? le_decode (firstn 4 t)) eqn:El; [discriminate|].
    intros H; injection H as <- <- <-. exists op, (firstn (N.to_nat (le_decode (firstn 4 t))) (skipn 4 t)).
    split; [|split; [lia|]].
    - cbn [get_op]. replace (78 <? b2n op) with false by lia. replace (b2n op <? 76) with false by lia.
      rewrite E76, E77, El2. unfold take_n, VMcore.len. rewrite El. reflexivity.
    - intros. rewrite step_data by lia. f_equal.
      assert (Hl : lenN (firstn (N.to_nat (le_decode (firstn 4 t))) (skipn 4 t)) = le_decode (firstn 4 t))
        by (rewrite firstn_lenN by lia; lia).
      replace (b2n op) with 78 by lia. rewrite cmp_var by (right; right; reflexivity).
      cbn [N.eqb Pos.eqb]. now rewrite Hl. }
  destruct (b2n op =? 79) eqn:E79.
  { intros H; injection H as <- <- <-. exists op, []. split; [|split; [lia|]].
    - cbn [get_op]. replace (78 <? b2n op) with true by lia. reflexivity.
    - intros. rewrite step_small' by (unfold small_op; lia). unfold small_item. now rewrite E79. }
  destruct ((81 <=? b2n op) && (b2n op <=? 96)) eqn:E81; [|discriminate].
  intros H; injection H as <- <- <-. exists op, []. split; [|split; [lia|]].
  - cbn [get_op]. replace (78 <? b2n op) with true by lia. reflexivity.
  - intros. rewrite step_small' by (unfold small_op; lia). unfold small_item. now rewrite E79.
Qed.

(* a whole push-only script *)
Definition pushes_ok (items : list bytes) (mn : bool) (k0 : N) : bool :=
  all_le_520 items && negb (flag_set fw VERIFY_MINIMALDATA && negb mn) && (k0 + lenN items <=? 1000).

Lemma crun_pushes fuel : forall ss items mn st opc bch, parse_pushes_f fuel ss = Some (items, mn) ->
  lenN st <= 1000 ->
  exists e, crun ss (mk st opc bch) =
            if pushes_ok items mn (lenN st) then COk (mk (rev items ++ st) opc bch) else CErr e.
Proof.
  induction fuel as [|f IH]; intros ss items mn st opc bch H Hst.
  - destruct ss; [|discriminate]. injection H as <- <-. exists SE_UNKNOWN_ERROR.
    unfold pushes_ok. cbn [all_le_520 forallb negb andb]. rewrite andb_false_r. cbn [negb andb].
    change (lenN []) with 0. replace (lenN st + 0 <=? 1000) with true by lia. reflexivity.
  - destruct ss as [|b t].
    { injection H as <- <-. exists SE_UNKNOWN_ERROR.
      unfold pushes_ok. cbn [all_le_520 forallb negb andb]. rewrite andb_false_r. cbn [negb andb].
      change (lenN []) with 0. replace (lenN st + 0 <=? 1000) with true by lia. reflexivity. }
    cbn [parse_pushes_f] in H.
    destruct (parse_one (b :: t)) as [[[d r] m1]|] eqn:E1; [|discriminate].
    destruct (parse_pushes_f f r) as [[ds ms]|] eqn:E2; [|discriminate]. injection H as <- <-.
    destruct (parse_one_step _ _ _ _ E1) as (op & d' & G & _ & Hs).
    rewrite (crun_step _ _ _ _ _ G), Hs. unfold push_step_res, pushes_ok.
    cbn [all_le_520 forallb]. fold (all_le_520 ds). rewrite lenN_cons.
    destruct (520 <? lenN d) eqn:Ed.
    { exists SE_PUSH_SIZE. replace (lenN d <=? 520) with false by lia. reflexivity. }
    replace (lenN d <=? 520) with true by lia. cbn [andb].
    destruct (flag_set fw VERIFY_MINIMALDATA) eqn:Emd; cbn [andb].
    + destruct m1; cbn [negb andb].
      * destruct (1000 <? lenN st + 1) eqn:Es.
        { exists SE_STACK_SIZE. replace (lenN st + (1 + lenN ds) <=? 1000) with false by lia.
          rewrite andb_false_r. reflexivity. }
        cbn [cbind]. destruct (IH r ds ms (d :: st) opc bch E2) as [e He]; [rewrite lenN_cons; lia|].
        exists e. rewrite He. unfold pushes_ok. rewrite Emd, lenN_cons. cbn [andb rev]. rewrite <- app_assoc. cbn [app].
        replace (1 + lenN st + lenN ds) with (lenN st + (1 + lenN ds)) by lia. reflexivity.
      * exists SE_MINIMALDATA. rewrite andb_false_r. reflexivity.
    + destruct (1000 <? lenN st + 1) eqn:Es.
      { exists SE_STACK_SIZE. replace (lenN st + (1 + lenN ds) <=? 1000) with false by lia.
        rewrite andb_false_r. reflexivity. }
      cbn [cbind]. destruct (IH r ds ms (d :: st) opc bch E2) as [e He]; [rewrite lenN_cons; lia|].
      exists e. rewrite He. unfold pushes_ok. rewrite Emd, lenN_cons. cbn [andb rev negb]. rewrite <- app_assoc. cbn [app].
      replace (1 + lenN st + lenN ds) with (lenN st + (1 + lenN ds)) by lia. reflexivity.
Qed.

(* a canonical push of a template script *)
Lemma crun_push_data d rest st opc bch : lenN d <= 520 ->
  crun (push_data d ++ rest) (mk st opc bch) =
  if 1000 <? lenN st + 1 then CErr SE_STACK_SIZE else crun rest (mk (d :: st) opc bch).
Proof.
  intros Hd. assert (E1 : parse_one (push_data d ++ rest) = Some (d, rest, true)) by (apply parse_one_push; lia).
  destruct (parse_one_step _ _ _ _ E1) as (op & d' & G & _ & Hs).
  rewrite (crun_step _ _ _ _ _ G), Hs. unfold push_step_res.
  replace (520 <? lenN d) with false by lia. rewrite andb_false_r.
  destruct (1000 <? lenN st + 1); reflexivity.
Qed.

(* an executed opcode above OP_16 *)
Lemma get_op_high b rest : (78 <? b2n b) = true -> get_op (b :: rest) = Some (b, [], rest).
Proof. intros H. cbn [get_op]. now rewrite H. Qed.

Lemma step_exec op rest st opc bch : (96 <? b2n op) = true -> is_disabled op = false ->
  VMcore.step o fw sv ctx op [] rest (mk st opc bch) =
  if MAX_OPS_PER_SCRIPT <? opc + 1 then CErr SE_OP_COUNT else
  cbind (exec_op o fw sv ctx op rest true (mk st (opc + 1) bch))
        (fun s' => if MAX_STACK_ITEMS <? depth (e_stack s') + depth (e_alt s') then CErr SE_STACK_SIZE else COk s').
Proof.
  intros H Hd. unfold VMcore.step, mk. cbn [e_vf e_opc e_stack e_alt forallb].
  change (MAX_SCRIPT_ELEMENT_SIZE <? VMcore.len []) with false. cbv iota.
  rewrite H, Hd. cbn [andb]. destruct (MAX_OPS_PER_SCRIPT <? opc + 1); [reflexivity|].
  replace (b2n op <=? 78) with false by lia. cbn [orb]. reflexivity.
Qed.

Lemma crun_exec op rest st opc bch : (96 <? b2n op) = true -> is_disabled op = false ->
  crun (op :: rest) (mk st opc bch) =
  if MAX_OPS_PER_SCRIPT <? opc + 1 then CErr SE_OP_COUNT else
  cbind (exec_op o fw sv ctx op rest true (mk st (opc + 1) bch))
        (fun s' => if MAX_STACK_ITEMS <? depth (e_stack s') + depth (e_alt s') then CErr SE_STACK_SIZE
                   else crun rest s').
Proof.
  intros H Hd. rewrite (crun_step _ op [] rest) by (apply get_op_high; lia).
  rewrite step_exec by assumption. destruct (MAX_OPS_PER_SCRIPT <? opc + 1); [reflexivity|].
  destruct (exec_op o fw sv ctx op rest true (mk st (opc + 1) bch)); cbn [cbind]; try reflexivity.
  destruct (MAX_STACK_ITEMS <? _); reflexivity.
Qed.
End Run.

(* ---- IsPushOnly ---------------------------------------------------------------------------------------------- *)
Lemma is_push_only_fuel : forall f1 f2 s, (length s <= f1)%nat -> (length s <= f2)%nat ->
  is_push_only_f f1 s = is_push_only_f f2 s.
Proof.
  induction f1 as [|f1 IH]; intros f2 s H1 H2.
  - destruct s; [|cbn in H1; lia]. destruct f2; reflexivity.
  - destruct s as [|b t]; [destruct f2; reflexivity|].
    destruct f2 as [|f2]; [cbn in H2; lia|]. cbn [is_push_only_f].
    destruct (get_op (b :: t)) as [[[op d] r]|] eqn:E; [|reflexivity].
    apply get_op_shrinks in E. destruct (96 <? b2n op); [reflexivity|]. apply IH; cbn [length] in *; lia.
Qed.

Lemma parse_pushes_push_only fuel : forall ss items mn, parse_pushes_f fuel ss = Some (items, mn) ->
  is_push_only ss = true.
Proof.
  induction fuel as [|f IH]; intros ss items mn H.
  - destruct ss; [reflexivity|discriminate].
  - destruct ss as [|b t]; [reflexivity|]. cbn [parse_pushes_f] in H.
    destruct (parse_one (b :: t)) as [[[d r] m1]|] eqn:E1; [|discriminate].
    destruct (parse_pushes_f f r) as [[ds ms]|] eqn:E2; [|discriminate].
    destruct (parse_one_step (core_oracles (fun x => x) (fun x => x) (fun _ _ _ => false) (fun _ _ _ => None)
                                           (fun x => x) (fun x => x) (fun x => x)) 0 SV_BASE
                             {| tc_version := 0; tc_lock_time := 0; tc_sequence := 0 |} _ _ _ _ E1)
      as (op & d' & G & Hop & _).
    unfold is_push_only. cbn [length is_push_only_f]. rewrite G. replace (96 <? b2n op) with false by lia.
    pose proof (get_op_shrinks _ _ _ _ G) as Hs. cbn [length] in Hs.
    rewrite (is_push_only_fuel (length t) (length r)) by lia. exact (IH r ds ms E2).
Qed.
