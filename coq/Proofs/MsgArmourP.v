(* Proofs/MsgArmourP.v — the armoured form parses back: parse_signed_message (armour net msg addr sig) = (msg, addr, sig)
   for LF messages, CRLF messages inside the LF template, and a wholly CRLF-converted armoured text. *)
From PV Require Import Base.Bytes Base.Outcome Gen.GenMsgMagic Model.MsgArmour.
Local Open Scope N_scope.

(* ---- generic list facts ------------------------------------------------------------------------------ *)
Definition nochar (c : N) (s : ustr) : bool := forallb (fun x => negb (x =? c)) s.

Lemma nochar_app c a b : nochar c (a ++ b) = nochar c a && nochar c b.
Proof. apply forallb_app. Qed.

Lemma nochar_cons c x s : nochar c (x :: s) = negb (x =? c) && nochar c s.
Proof. reflexivity. Qed.

Lemma ueqb_eq a b : ueqb a b = true <-> a = b.
Proof.
  revert b; induction a as [|x a IH]; intros [|y b]; cbn [ueqb]; try (split; congruence).
  rewrite andb_true_iff, N.eqb_eq, IH. split; [intros [-> ->]; reflexivity | intros H; injection H; auto].
Qed.

Lemma is_prefix_app_refl pat rest : is_prefix pat (pat ++ rest) = true.
Proof. induction pat as [|p pat IH]; cbn [is_prefix app]; [reflexivity|]. now rewrite N.eqb_refl, IH. Qed.

(* a pattern that has no c cannot reach across a c *)
Lemma is_prefix_before_char c pat : forall a b, nochar c pat = true ->
  is_prefix pat (a ++ c :: b) = true -> is_prefix pat a = true.
Proof.
  induction pat as [|p pat IH]; intros a b Hn H; [reflexivity|].
  rewrite nochar_cons in Hn. apply andb_true_iff in Hn. destruct Hn as [Hp Hn].
  destruct a as [|x a]; cbn [app is_prefix] in *.
  - apply andb_true_iff in H. destruct H as [H _]. rewrite H in Hp. discriminate.
  - apply andb_true_iff in H. destruct H as [H1 H2]. rewrite H1. cbn [andb]. eapply IH; eauto.
Qed.

Lemma contains_cons pat x s : contains pat (x :: s) = is_prefix pat (x :: s) || contains pat s.
Proof. reflexivity. Qed.

Lemma contains_nochar c pat s : nochar c s = true -> contains (c :: pat) s = false.
Proof.
  induction s as [|x s IH]; intros H; [reflexivity|].
  rewrite nochar_cons in H. apply andb_true_iff in H. destruct H as [Hx Hs].
  rewrite contains_cons, (IH Hs). cbn [is_prefix]. rewrite N.eqb_sym. apply negb_true_iff in Hx. now rewrite Hx.
Qed.

Lemma contains_app_r pat a b : contains pat b = true -> contains pat (a ++ b) = true.
Proof.
  intros H. induction a as [|x a IH]; [exact H|]. cbn [app]. rewrite contains_cons, IH. apply orb_true_r.
Qed.

Lemma is_prefix_app_l pat a b : is_prefix pat a = true -> is_prefix pat (a ++ b) = true.
Proof.
  revert a; induction pat as [|p pat IH]; intros a H; [reflexivity|].
  destruct a as [|x a]; cbn [is_prefix app] in *; [discriminate|].
  apply andb_true_iff in H. destruct H as [H1 H2]. now rewrite H1, IH.
Qed.

Lemma contains_app_l pat a b : contains pat a = true -> contains pat (a ++ b) = true.
Proof.
  induction a as [|x a IH]; intros H.
  - cbn [contains] in H. rewrite orb_false_r in H. destruct pat; [|discriminate]. destruct b; reflexivity.
  - rewrite contains_cons in H. cbn [app]. rewrite contains_cons. apply orb_true_iff in H. destruct H as [H|H].
    + change (x :: a ++ b) with ((x :: a) ++ b). now rewrite is_prefix_app_l.
    + rewrite IH by exact H. apply orb_true_r.
Qed.

(* ---- index of the first c: used to show that s.split(pat, 1) finds the intended occurrence ------------ *)
Fixpoint idx (c : N) (s : ustr) : nat :=
  match s with [] => O | x :: r => if x =? c then O else S (idx c r) end.

Lemma idx_nochar_app c a b : nochar c a = true -> idx c (a ++ b) = (length a + idx c b)%nat.
Proof.
  induction a as [|x a IH]; intros H; [reflexivity|].
  rewrite nochar_cons in H. apply andb_true_iff in H. destruct H as [Hx Ha].
  apply negb_true_iff in Hx. cbn [app idx length]. rewrite Hx, IH by exact Ha. reflexivity.
Qed.

Lemma idx_prefix c pat : forall s, nochar c pat = false -> is_prefix pat s = true -> idx c s = idx c pat.
Proof.
  induction pat as [|p pat IH]; intros s Hn H; [discriminate|].
  destruct s as [|x s]; cbn [is_prefix] in H; [discriminate|].
  apply andb_true_iff in H. destruct H as [H1 H2]. apply N.eqb_eq in H1. subst x.
  cbn [idx]. destruct (p =? c) eqn:E; [reflexivity|].
  f_equal. apply IH; [|exact H2]. rewrite nochar_cons, E in Hn. exact Hn.
Qed.

Lemma split_first_eq pat s : split_first pat s =
  if is_prefix pat s then Some ([], skipn (length pat) s)
  else match s with
       | [] => None
       | c :: r => match split_first pat r with Some (b, a) => Some (c :: b, a) | None => None end
       end.
Proof. destruct s; reflexivity. Qed.

Lemma split_first_app c pat : forall pre rest, nochar c pat = false -> nochar c pre = true ->
  split_first pat (pre ++ pat ++ rest) = Some (pre, rest).
Proof.
  intros pre rest Hp. induction pre as [|x pre IH]; intros Hpre.
  - cbn [app]. rewrite split_first_eq, is_prefix_app_refl. now rewrite skipn_app_exact.
  - rewrite nochar_cons in Hpre. apply andb_true_iff in Hpre. destruct Hpre as [Hx Hpre'].
    assert (F : is_prefix pat ((x :: pre) ++ pat ++ rest) = false).
    { destruct (is_prefix pat ((x :: pre) ++ pat ++ rest)) eqn:E; [exfalso|reflexivity].
      pose proof (idx_prefix c pat _ Hp E) as I1.
      rewrite idx_nochar_app in I1 by (rewrite nochar_cons, Hx, Hpre'; reflexivity).
      rewrite (idx_prefix c pat (pat ++ rest) Hp (is_prefix_app_refl _ _)) in I1. cbn [length] in I1. lia. }
    rewrite split_first_eq, F. cbn [app]. rewrite (IH Hpre'). reflexivity.
Qed.

Lemma split_first_none c s : nochar c s = true -> split_first [c] s = None.
Proof.
  induction s as [|x s IH]; intros H; [reflexivity|].
  rewrite nochar_cons in H. apply andb_true_iff in H. destruct H as [Hx Hs].
  rewrite split_first_eq. cbn [is_prefix]. rewrite N.eqb_sym. apply negb_true_iff in Hx. rewrite Hx. cbn [andb].
  now rewrite (IH Hs).
Qed.

(* ---- newline conversions -------------------------------------------------------------------------------- *)
Lemma replace_crlf_nochar a b : nochar 13 a = true -> replace_crlf (a ++ b) = a ++ replace_crlf b.
Proof.
  induction a as [|x a IH]; intros H; [reflexivity|].
  rewrite nochar_cons in H. apply andb_true_iff in H. destruct H as [Hx Ha].
  apply negb_true_iff in Hx. apply N.eqb_neq in Hx.
  cbn [app]. assert (E : replace_crlf (x :: a ++ b) = x :: replace_crlf (a ++ b)).
  { cbn [replace_crlf]. destruct x as [|px]; [reflexivity|].
    do 4 (destruct px as [px|px|]; try reflexivity). all: try (destruct (a ++ b) as [|y r]; reflexivity).
    all: try congruence. }
  rewrite E, IH by exact Ha. reflexivity.
Qed.

Lemma replace_crlf_id a : nochar 13 a = true -> replace_crlf a = a.
Proof. intros H. rewrite <- (app_nil_r a) at 1. rewrite replace_crlf_nochar by exact H. cbn. apply app_nil_r. Qed.

Lemma replace_crlf_lfcrlf m b : nochar 13 m = true -> replace_crlf (replace_lf_crlf m ++ b) = m ++ replace_crlf b.
Proof.
  induction m as [|x m IH]; intros H; [reflexivity|].
  rewrite nochar_cons in H. apply andb_true_iff in H. destruct H as [Hx Hm].
  unfold replace_lf_crlf in *. cbn [flat_map]. destruct (x =? 10) eqn:E.
  - apply N.eqb_eq in E. subst x. cbn [app replace_crlf]. now rewrite IH.
  - change ([x] ++ flat_map (fun c : N => if c =? 10 then [13; 10] else [c]) m) with
      (x :: flat_map (fun c : N => if c =? 10 then [13; 10] else [c]) m).
    cbn [app].
    change (x :: flat_map (fun c : N => if c =? 10 then [13; 10] else [c]) m ++ b) with
      ([x] ++ (flat_map (fun c : N => if c =? 10 then [13; 10] else [c]) m ++ b)).
    rewrite replace_crlf_nochar by (cbn; rewrite Hx; reflexivity). now rewrite IH.
Qed.

Lemma lfcrlf_nolf m : nochar 10 m = true -> replace_lf_crlf m = m.
Proof.
  induction m as [|x m IH]; intros H; [reflexivity|].
  rewrite nochar_cons in H. apply andb_true_iff in H. destruct H as [Hx Hm].
  apply negb_true_iff in Hx. unfold replace_lf_crlf in *. cbn [flat_map]. rewrite Hx, IH by exact Hm. reflexivity.
Qed.

Lemma lfcrlf_has_crlf m : nochar 10 m = false -> contains [13; 10] (replace_lf_crlf m) = true.
Proof.
  induction m as [|x m IH]; intros H; [discriminate|].
  rewrite nochar_cons in H. unfold replace_lf_crlf in *. cbn [flat_map]. destruct (x =? 10) eqn:E.
  - reflexivity.
  - cbn [negb andb] in H. apply contains_app_r. now apply IH.
Qed.

(* ---- split("\n") and strip() ------------------------------------------------------------------------------ *)
Lemma split_nl_aux_nochar a : forall t cur, nochar 10 a = true -> split_nl_aux (a ++ t) cur = split_nl_aux t (rev a ++ cur).
Proof.
  induction a as [|x a IH]; intros t cur H; [reflexivity|].
  rewrite nochar_cons in H. apply andb_true_iff in H. destruct H as [Hx Ha]. apply negb_true_iff in Hx.
  cbn [app split_nl_aux rev]. rewrite Hx, IH by exact Ha. now rewrite <- app_assoc.
Qed.

Lemma split_nl_line a t : nochar 10 a = true -> split_nl_aux (a ++ 10 :: t) [] = a :: split_nl_aux t [].
Proof.
  intros H. rewrite split_nl_aux_nochar by exact H. cbn [split_nl_aux]. change (10 =? 10) with true. cbv iota.
  now rewrite app_nil_r, rev_involutive.
Qed.

Lemma split_nl_last a : nochar 10 a = true -> split_nl_aux a [] = [a].
Proof.
  intros H. rewrite <- (app_nil_r a) at 1. rewrite split_nl_aux_nochar by exact H. cbn [split_nl_aux].
  now rewrite app_nil_r, rev_involutive.
Qed.

Lemma strip_id x s y : is_space x = false -> is_space y = false -> rev (x :: s) = y :: rev (removelast (x :: s)) ->
  strip (x :: s) = x :: s.
Proof.
  intros Hx Hy E. unfold strip. cbn [lstrip_u]. rewrite Hx, E. cbn [lstrip_u]. rewrite Hy, <- E. apply rev_involutive.
Qed.

Definition token_char (c : N) : bool := negb (is_space c) && negb (c =? 58) && negb (c =? 45).
Definition is_token (s : ustr) : bool := negb (ueqb s []) && forallb token_char s.

Lemma token_nochar c s : token_char c = false -> forallb token_char s = true -> nochar c s = true.
Proof.
  intros Hc H. unfold nochar. rewrite forallb_forall in *. intros x Hx. specialize (H x Hx).
  apply negb_true_iff. apply N.eqb_neq. intros ->. congruence.
Qed.

Lemma strip_token s : forallb token_char s = true -> strip s = s.
Proof.
  intros H. assert (F : forall l, forallb token_char l = true -> lstrip_u l = l).
  { intros [|x l] Hl; [reflexivity|]. cbn [forallb] in Hl. apply andb_true_iff in Hl. destruct Hl as [Hx _].
    unfold token_char in Hx. repeat rewrite andb_true_iff in Hx. destruct Hx as [[Hx _] _].
    apply negb_true_iff in Hx. cbn [lstrip_u]. now rewrite Hx. }
  unfold strip. rewrite (F s H). rewrite F.
  - apply rev_involutive.
  - rewrite forallb_forall in *. intros x Hx. apply H. now apply in_rev.
Qed.

(* ---- the template, piece by piece ------------------------------------------------------------------------ *)
Definition L1 : ustr := [45;45;45;45;45;66;69;71;73;78;32].                                     (* "-----BEGIN " *)
Definition SM : ustr := U lit_signed_message.                                                  (* "SIGNED MESSAGE-----\n" *)
Definition L3 : ustr := [10;45;45;45;45;45;66;69;71;73;78;32;83;73;71;78;65;84;85;82;69;45;45;45;45;45;10]. (* "\n-----BEGIN SIGNATURE-----\n" *)
Definition L5' : ustr := [45;45;45;45;45;69;78;68;32].                                           (* "-----END " *)
Definition L6 : ustr := [32;83;73;71;78;69;68;32;77;69;83;83;65;71;69;45;45;45;45;45].         (* " SIGNED MESSAGE-----" *)

Definition end_line (net : ustr) : ustr := L5' ++ net ++ L6.
Definition hdr_of (net addr sig : ustr) : ustr := addr ++ 10 :: sig ++ 10 :: end_line net.

Lemma armour_shape net msg addr sig :
  armour net msg addr sig = (L1 ++ net ++ [32]) ++ SM ++ (msg ++ L3 ++ hdr_of net addr sig).
Proof.
  unfold armour, armour_pieces, hdr_of, end_line. cbn [flat_map]. rewrite app_nil_r.
  repeat rewrite <- app_assoc. reflexivity.
Qed.

Lemma SM_has_nl : nochar 10 SM = false.
Proof. vm_compute. reflexivity. Qed.

(* ---- the marker ---------------------------------------------------------------------------------------------- *)
Lemma re_prefix_shape : re_prefix = 10 :: tl re_prefix /\ nochar 10 (tl re_prefix) = true.
Proof. vm_compute. auto. Qed.

Lemma match_marker_L3 rest : match_marker (L3 ++ rest) = Some rest.
Proof. reflexivity. Qed.

Lemma match_marker_not_nl x s : (x =? 10) = false -> match_marker (x :: s) = None.
Proof.
  intros H. unfold match_marker. destruct re_prefix_shape as [-> _]. cbn [is_prefix].
  rewrite N.eqb_sym, H. reflexivity.
Qed.

Lemma match_marker_nl_other x s : (x =? 45) = false -> match_marker (10 :: x :: s) = None.
Proof.
  intros H. unfold match_marker. change re_prefix with (10 :: 45 :: tl (tl re_prefix)). cbn [is_prefix].
  rewrite (N.eqb_sym 45 x), H. reflexivity.
Qed.

Lemma match_marker_end s : match_marker (10 :: L5' ++ s) = None.
Proof. reflexivity. Qed.

Lemma find_marker_eq s : find_marker s =
  match match_marker s with
  | Some rest => Some ([], rest)
  | None => match s with
            | [] => None
            | c :: r => match find_marker r with Some (b, a) => Some (c :: b, a) | None => None end
            end
  end.
Proof. destruct s; reflexivity. Qed.

(* a match cannot begin inside a text that does not contain "\n-----BEGIN ", even when a newline follows it *)
Lemma match_marker_inside x m t : contains re_prefix (x :: m) = false -> match_marker ((x :: m) ++ 10 :: t) = None.
Proof.
  intros H. rewrite contains_cons in H. apply orb_false_iff in H. destruct H as [H _].
  unfold match_marker.
  destruct (is_prefix re_prefix ((x :: m) ++ 10 :: t)) eqn:E; [exfalso|reflexivity].
  destruct re_prefix_shape as [S N]. rewrite S in E, H. cbn [app is_prefix] in E, H.
  apply andb_true_iff in E. destruct E as [E1 E2]. rewrite E1 in H. cbn [andb] in H.
  rewrite (is_prefix_before_char 10 _ m t N E2) in H. discriminate.
Qed.

Lemma find_marker_msg m t : contains re_prefix m = false -> find_marker (m ++ L3 ++ t) = Some (m, t).
Proof.
  induction m as [|x m IH]; intros H.
  - cbn [app]. rewrite find_marker_eq, match_marker_L3. reflexivity.
  - rewrite find_marker_eq. change (L3 ++ t) with (10 :: tl L3 ++ t).
    rewrite (match_marker_inside x m _ H). cbn [app].
    rewrite contains_cons in H. apply orb_false_iff in H. destruct H as [_ H].
    change (10 :: tl L3 ++ t) with (L3 ++ t). now rewrite (IH H).
Qed.

Lemma find_marker_skip a t : nochar 10 a = true -> find_marker t = None -> find_marker (a ++ t) = None.
Proof.
  induction a as [|x a IH]; intros H Ht; [exact Ht|].
  rewrite nochar_cons in H. apply andb_true_iff in H. destruct H as [Hx Ha]. apply negb_true_iff in Hx.
  cbn [app]. rewrite find_marker_eq, (match_marker_not_nl _ _ Hx), (IH Ha Ht). reflexivity.
Qed.

Lemma find_marker_hdr net addr sig :
  nochar 10 net = true -> forallb token_char addr = true -> is_token sig = true ->
  find_marker (hdr_of net addr sig) = None.
Proof.
  intros Hnet Haddr Hsig. unfold is_token in Hsig. apply andb_true_iff in Hsig. destruct Hsig as [Hne Hsig].
  assert (T10 : token_char 10 = false) by (vm_compute; reflexivity).
  unfold hdr_of. apply find_marker_skip; [now apply token_nochar|].
  destruct sig as [|s0 sig]; [discriminate|].
  assert (Hs0 : (s0 =? 45) = false).
  { cbn [forallb] in Hsig. apply andb_true_iff in Hsig. destruct Hsig as [H0 _]. unfold token_char in H0.
    repeat rewrite andb_true_iff in H0. destruct H0 as [_ H0]. now apply negb_true_iff in H0. }
  rewrite find_marker_eq. cbn [app]. rewrite (match_marker_nl_other _ _ Hs0).
  change (s0 :: sig ++ 10 :: end_line net) with ((s0 :: sig) ++ 10 :: end_line net).
  rewrite find_marker_skip; [reflexivity|now apply token_nochar|].
  rewrite find_marker_eq. unfold end_line. rewrite match_marker_end.
  assert (E : find_marker (L5' ++ net ++ L6) = None).
  { rewrite <- (app_nil_r (L5' ++ net ++ L6)). apply find_marker_skip; [|reflexivity].
    rewrite !nochar_app, Hnet. reflexivity. }
  now rewrite E.
Qed.

Lemma resplit_body net m addr sig :
  contains re_prefix m = false -> nochar 10 net = true -> forallb token_char addr = true -> is_token sig = true ->
  let body := m ++ L3 ++ hdr_of net addr sig in
  resplit (length body) body = [m; hdr_of net addr sig].
Proof.
  intros Hm Hnet Haddr Hsig body.
  assert (L : exists f, length body = S f).
  { unfold body. rewrite !app_length. cbn [length L3]. exists (length m + (26 + length (hdr_of net addr sig)))%nat. lia. }
  destruct L as [f ->]. cbn [resplit]. unfold body. rewrite (find_marker_msg _ _ Hm).
  destruct f as [|f]; cbn [resplit]; [reflexivity|]. now rewrite find_marker_hdr.
Qed.

(* ---- parse_sections on the LF form, and on any text that normalises to it -------------------------------------- *)
Definition lf_ok (net m addr sig : ustr) : bool :=
  nochar 10 net && nochar 13 net && nochar 13 m && negb (contains re_prefix m) && is_token addr && is_token sig
  && negb (ueqb addr sig).

Lemma token_forall s : is_token s = true -> forallb token_char s = true /\ s <> [].
Proof.
  unfold is_token. intros H. apply andb_true_iff in H. destruct H as [H1 H2]. split; [exact H2|].
  intros ->. discriminate.
Qed.

Lemma armour_no_cr net m addr sig : lf_ok net m addr sig = true -> nochar 13 (armour net m addr sig) = true.
Proof.
  unfold lf_ok. repeat rewrite andb_true_iff. intros [[[[[[H1 H2] H3] H4] H5] H6] H7].
  destruct (token_forall _ H5) as [Ta _]. destruct (token_forall _ H6) as [Ts _].
  assert (T13 : token_char 13 = false) by (vm_compute; reflexivity).
  rewrite armour_shape. unfold hdr_of, end_line. repeat (rewrite nochar_app || rewrite nochar_cons).
  rewrite H2, H3, (token_nochar 13 addr T13 Ta), (token_nochar 13 sig T13 Ts). reflexivity.
Qed.

Lemma sections_core net m addr sig (dos : bool) :
  lf_ok net m addr sig = true ->
  match split_first SM (armour net m addr sig) with
  | None => Raise E_ENCODING
  | Some (_, body) =>
    let parts := resplit (length body) body in
    if (length parts <? 2)%nat then Raise E_ENCODING
    else Ret (if dos then replace_lf_crlf (concat (removelast parts)) else concat (removelast parts), last parts [])
  end = Ret (if dos then replace_lf_crlf m else m, hdr_of net addr sig).
Proof.
  intros Hok. pose proof Hok as Hok'. unfold lf_ok in Hok'. repeat rewrite andb_true_iff in Hok'.
  destruct Hok' as [[[[[[H1 H2] H3] H4] H5] H6] H7]. apply negb_true_iff in H4.
  destruct (token_forall _ H5) as [Ta _].
  rewrite armour_shape.
  rewrite (split_first_app 10 SM _ _ SM_has_nl).
  2:{ rewrite !nochar_app, H1. reflexivity. }
  cbv zeta. rewrite (resplit_body net m addr sig H4 H1 Ta H6).
  cbn [length Nat.ltb Nat.leb removelast last concat]. now rewrite app_nil_r.
Qed.

Lemma parse_sections_lf net m addr sig : lf_ok net m addr sig = true ->
  parse_sections (armour net m addr sig) = Ret (m, hdr_of net addr sig).
Proof.
  intros Hok. unfold parse_sections.
  rewrite (contains_nochar 13 [10] _ (armour_no_cr _ _ _ _ Hok)).
  exact (sections_core net m addr sig false Hok).
Qed.

(* a text whose "\r\n" -> "\n" normal form is the LF armour *)
Lemma parse_sections_dos net m addr sig X : lf_ok net m addr sig = true ->
  contains [13; 10] X = true -> replace_crlf X = armour net m addr sig ->
  parse_sections X = Ret (replace_lf_crlf m, hdr_of net addr sig).
Proof.
  intros Hok Hc Hr. unfold parse_sections. rewrite Hc, Hr.
  exact (sections_core net m addr sig true Hok).
Qed.

(* ---- the header block ---------------------------------------------------------------------------------------------- *)
Lemma end_line_facts net : nochar 10 net = true ->
  nochar 10 (end_line net) = true /\ strip (end_line net) = end_line net /\ contains (U lit_end) (end_line net) = true
  /\ end_line net <> [].
Proof.
  intros H. unfold end_line. split; [|split; [|split]].
  - rewrite !nochar_app, H. reflexivity.
  - change (L5' ++ net ++ L6) with (45 :: (tl L5' ++ net ++ L6)).
    apply (strip_id 45 _ 45); try (vm_compute; reflexivity).
    change (45 :: tl L5' ++ net ++ L6) with (L5' ++ net ++ (removelast L6 ++ [45])).
    rewrite !app_assoc. rewrite removelast_last, rev_app_distr. reflexivity.
  - reflexivity.
  - discriminate.
Qed.

Lemma hdr_lines net addr sig : nochar 10 net = true -> is_token addr = true -> is_token sig = true ->
  filter (fun l => negb (ueqb l [])) (map strip (split_nl (hdr_of net addr sig))) = [addr; sig; end_line net].
Proof.
  intros Hnet Ha Hs. destruct (token_forall _ Ha) as [Ta Na]. destruct (token_forall _ Hs) as [Ts Ns].
  assert (T10 : token_char 10 = false) by (vm_compute; reflexivity).
  destruct (end_line_facts net Hnet) as (E1 & E2 & _ & E4).
  unfold split_nl, hdr_of.
  rewrite (split_nl_line addr _ (token_nochar 10 addr T10 Ta)).
  rewrite (split_nl_line sig _ (token_nochar 10 sig T10 Ts)).
  rewrite (split_nl_last _ E1). cbn [map]. rewrite (strip_token _ Ta), (strip_token _ Ts), E2.
  cbn [filter].
  assert (F : forall l, l <> [] -> negb (ueqb l []) = true).
  { intros l Hl. apply negb_true_iff. destruct (ueqb l []) eqn:E; [apply ueqb_eq in E; contradiction|reflexivity]. }
  now rewrite (F _ Na), (F _ Ns), (F _ E4).
Qed.

Lemma find_addr_first addr rest : is_token addr = true -> find_addr (addr :: rest) = Some addr.
Proof.
  intros Ha. destruct (token_forall _ Ha) as [Ta Na]. destruct addr as [|a0 addr]; [contradiction|].
  assert (H0 : token_char a0 = true) by (cbn [forallb] in Ta; now apply andb_true_iff in Ta).
  unfold token_char in H0. repeat rewrite andb_true_iff in H0. destruct H0 as [[_ _] H45].
  apply negb_true_iff in H45.
  cbn [find_addr]. change (U lit_end) with (45 :: tl (U lit_end)). cbn [is_prefix]. rewrite (N.eqb_sym 45 a0), H45.
  cbn [andb].
  assert (T58 : token_char 58 = false) by (vm_compute; reflexivity).
  now rewrite (split_first_none 58 _ (token_nochar 58 _ T58 Ta)).
Qed.

Lemma parse_signed_from_sections X net m' addr sig :
  nochar 10 net = true -> is_token addr = true -> is_token sig = true -> ueqb addr sig = false ->
  parse_sections X = Ret (m', hdr_of net addr sig) ->
  parse_signed_message X = Ret (m', addr, sig).
Proof.
  intros Hnet Ha Hs Hne Hp. unfold parse_signed_message. rewrite Hp.
  rewrite (hdr_lines net addr sig Hnet Ha Hs). cbn [rev app].
  destruct (end_line_facts net Hnet) as (_ & _ & E3 & _). rewrite E3. cbn [negb].
  rewrite (find_addr_first addr _ Ha).
  destruct (token_forall _ Ha) as [_ Na].
  destruct (ueqb addr []) eqn:E; [apply ueqb_eq in E; contradiction|]. rewrite Hne. reflexivity.
Qed.

(* ---- the three round trips ---------------------------------------------------------------------------------------------- *)
Lemma lf_ok_parts net m addr sig : lf_ok net m addr sig = true ->
  nochar 10 net = true /\ is_token addr = true /\ is_token sig = true /\ ueqb addr sig = false /\ nochar 13 m = true.
Proof.
  unfold lf_ok. repeat rewrite andb_true_iff. intros [[[[[[H1 H2] H3] H4] H5] H6] H7].
  apply negb_true_iff in H7. auto.
Qed.

Theorem armour_roundtrip_lf net m addr sig : lf_ok net m addr sig = true ->
  parse_signed_message (armour net m addr sig) = Ret (m, addr, sig).
Proof.
  intros Hok. destruct (lf_ok_parts _ _ _ _ Hok) as (H1 & H2 & H3 & H4 & _).
  apply (parse_signed_from_sections _ net m addr sig H1 H2 H3 H4). now apply parse_sections_lf.
Qed.

(* the message uses CRLF line ends, the template LF *)
Theorem armour_roundtrip_crlf_message net m addr sig : lf_ok net m addr sig = true ->
  parse_signed_message (armour net (replace_lf_crlf m) addr sig) = Ret (replace_lf_crlf m, addr, sig).
Proof.
  intros Hok. destruct (lf_ok_parts _ _ _ _ Hok) as (H1 & H2 & H3 & H4 & H5).
  destruct (nochar 10 m) eqn:Enl.
  - rewrite (lfcrlf_nolf m Enl). now apply armour_roundtrip_lf.
  - apply (parse_signed_from_sections _ net _ addr sig H1 H2 H3 H4).
    apply parse_sections_dos; [exact Hok| |].
    + rewrite armour_shape. apply contains_app_r, contains_app_r, contains_app_l. now apply lfcrlf_has_crlf.
    + pose proof (armour_no_cr _ _ _ _ Hok) as Hcr. rewrite armour_shape in Hcr |- *.
      set (A := L1 ++ net ++ [32]) in *. set (T := L3 ++ hdr_of net addr sig) in *.
      rewrite !nochar_app in Hcr. repeat rewrite andb_true_iff in Hcr.
      destruct Hcr as [Hc1 [Hc2 [Hc3 Hc4]]].
      rewrite (replace_crlf_nochar _ _ Hc1), (replace_crlf_nochar _ _ Hc2), (replace_crlf_lfcrlf _ _ H5).
      rewrite (replace_crlf_id _ Hc4). rewrite armour_shape. reflexivity.
Qed.

(* the whole armoured text was converted to CRLF *)
Theorem armour_roundtrip_crlf_all net m addr sig : lf_ok net m addr sig = true ->
  parse_signed_message (replace_lf_crlf (armour net m addr sig)) = Ret (replace_lf_crlf m, addr, sig).
Proof.
  intros Hok. destruct (lf_ok_parts _ _ _ _ Hok) as (H1 & H2 & H3 & H4 & H5).
  apply (parse_signed_from_sections _ net _ addr sig H1 H2 H3 H4).
  apply parse_sections_dos; [exact Hok| |].
  - apply lfcrlf_has_crlf. rewrite armour_shape, !nochar_app, SM_has_nl. now rewrite andb_false_r.
  - pose proof (armour_no_cr _ _ _ _ Hok) as Hcr.
    rewrite <- (app_nil_r (replace_lf_crlf _)). rewrite (replace_crlf_lfcrlf _ [] Hcr). apply app_nil_r.
Qed.

(* non-vacuity: a concrete network name, message, address and signature text satisfy lf_ok *)
Example lf_ok_example :
  lf_ok (U [x42;x49;x54;x43;x4f;x49;x4e]) (U [x68;x69;x0a;x2d;x2d;x2d;x2d;x2d;x45;x4e;x44;x0a;x79;x6f;x75])
        (U [x31;x42;x6f;x61;x74]) (U [x49;x4d;x46;x56;x2b;x2f;x3d]) = true.
Proof. vm_compute. reflexivity. Qed.

(* ---- the signature texts the signer produces are tokens (so `is_token sig` holds for them) --------------------------- *)
From PV Require Import Model.Base64 Proofs.Base64P.

Lemma b64_chr_token : forallb (fun v => token_char (b2n (b64_chr v))) (map N.of_nat (seq 0 64)) = true
  /\ token_char (b2n x3d) = true.
Proof. vm_compute. auto. Qed.

Lemma b64_chr_token_at v : v < 64 -> token_char (b2n (b64_chr v)) = true.
Proof.
  intros H. destruct b64_chr_token as [T _]. rewrite forallb_forall in T. apply T.
  apply in_map_iff. exists (N.to_nat v). split; [lia|]. apply in_seq. lia.
Qed.

Lemma b64_encode_tokens bs : forallb token_char (map b2n (b64_encode bs)) = true.
Proof.
  destruct b64_chr_token as [_ P].
  induction bs as [|a|a b|a b c r IH] using triple_ind; cbn [b64_encode map forallb].
  - reflexivity.
  - pose proof (b2n_lt a). rewrite !b64_chr_token_at, P by (try apply N.div_lt_upper_bound; try apply N.mod_upper_bound; lia).
    reflexivity.
  - pose proof (b2n_lt a). pose proof (b2n_lt b).
    assert (b2n a / 4 < 64) by (apply N.div_lt_upper_bound; lia).
    assert (b2n a mod 4 < 4) by (apply N.mod_upper_bound; lia).
    assert (b2n b / 16 < 16) by (apply N.div_lt_upper_bound; lia).
    assert (b2n b mod 16 < 16) by (apply N.mod_upper_bound; lia).
    rewrite !b64_chr_token_at, P by lia. reflexivity.
  - pose proof (b2n_lt a). pose proof (b2n_lt b). pose proof (b2n_lt c).
    assert (b2n a / 4 < 64) by (apply N.div_lt_upper_bound; lia).
    assert (b2n a mod 4 < 4) by (apply N.mod_upper_bound; lia).
    assert (b2n b / 16 < 16) by (apply N.div_lt_upper_bound; lia).
    assert (b2n b mod 16 < 16) by (apply N.mod_upper_bound; lia).
    assert (b2n c / 64 < 4) by (apply N.div_lt_upper_bound; lia).
    assert (b2n c mod 64 < 64) by (apply N.mod_upper_bound; lia).
    rewrite !b64_chr_token_at by lia. exact IH.
Qed.

Lemma b64_encode_is_token bs : bs <> [] -> is_token (map b2n (b64_encode bs)) = true.
Proof.
  intros H. unfold is_token. rewrite b64_encode_tokens, andb_true_r.
  destruct bs as [|a [|b [|c r]]]; [contradiction| | |]; reflexivity.
Qed.
