(* Proofs/CurveAddP.v — Curve.add is chord-and-tangent addition: closure, agreement with Spec/Weierstrass.v on
   possibly unreduced operands, commutativity, identity, inverse.  Premises: M1 (p prime) and p <> 2.
   The field Z_p is (Z, eqm p) with the model's own inverse_mod as inverse, registered for `field`. *)
From Coq Require Import ZArith Lia Znumtheory Field Ring Setoid Morphisms Bool.
From PV Require Import Base.Outcome Model.Curve Spec.Weierstrass Proofs.CurveInvP.
Local Open Scope Z_scope.

Section Fp.
Variable p : Z.
Hypothesis Hp : prime p.

Definition finv (x : Z) : Z := match inverse_mod x p with Ret i => i | _ => 0 end.
Notation "a == b" := (eqm p a b) (at level 70).

Lemma p_gt_1 : 1 < p. Proof. destruct Hp; lia. Qed.

Lemma eqm0_iff x : x == 0 <-> x mod p = 0.
Proof. unfold eqm. now rewrite Zmod_0_l. Qed.

Lemma eqm_mod_eq x y : x == y -> x mod p = y mod p.
Proof. auto. Qed.

Lemma coprime_of_nz x : ~ x == 0 -> Z.gcd x p = 1.
Proof.
  intros Hx. apply Zgcd_1_rel_prime. apply rel_prime_sym. apply prime_rel_prime; auto.
  intros D. apply Hx. apply eqm0_iff. apply Z.mod_divide in D; [auto|]. pose p_gt_1; lia.
Qed.

Lemma inverse_mod_finv x : ~ x == 0 -> inverse_mod x p = Ret (finv x) /\ 0 < finv x < p.
Proof.
  intros Hx. unfold finv.
  destruct (inverse_mod_correct x p p_gt_1 (coprime_of_nz x Hx)) as (i & -> & Hi & _). auto.
Qed.

Lemma finv_l x : ~ x == 0 -> finv x * x == 1.
Proof.
  intros Hx. unfold finv.
  destruct (inverse_mod_correct x p p_gt_1 (coprime_of_nz x Hx)) as (i & -> & _ & Hi).
  unfold eqm. rewrite Z.mul_comm, Hi. symmetry. apply Z.mod_small. pose p_gt_1; lia.
Qed.

Lemma Zp_ring : ring_theory 0 1 Z.add Z.mul Z.sub Z.opp (eqm p).
Proof. constructor; intros; unfold eqm; f_equal; ring. Qed.

Lemma Zp_field : field_theory 0 1 Z.add Z.mul Z.sub Z.opp (fun x y => x * finv y) finv (eqm p).
Proof.
  constructor.
  - exact Zp_ring.
  - unfold eqm. rewrite Zmod_0_l, Z.mod_small; pose p_gt_1; lia.
  - intros; reflexivity.
  - exact finv_l.
Qed.

Lemma Zp_ext : ring_eq_ext Z.add Z.mul Z.opp (eqm p).
Proof. constructor; [apply Zplus_eqm | apply Zmult_eqm | apply Zopp_eqm]. Qed.

Lemma Zp_setoid : Setoid_Theory Z (eqm p).
Proof. apply eqm_setoid. Qed.

Local Instance eqm_p_equiv : Equivalence (eqm p) := eqm_setoid p.
Local Instance add_p_proper : Proper (eqm p ==> eqm p ==> eqm p) Z.add := Zplus_eqm p.
Local Instance mul_p_proper : Proper (eqm p ==> eqm p ==> eqm p) Z.mul := Zmult_eqm p.
Local Instance sub_p_proper : Proper (eqm p ==> eqm p ==> eqm p) Z.sub := Zminus_eqm p.
Local Instance opp_p_proper : Proper (eqm p ==> eqm p) Z.opp := Zopp_eqm p.

Lemma gcd_eqm x y : x == y -> Z.gcd x p = Z.gcd y p.
Proof.
  intros E. pose proof p_gt_1.
  rewrite <- (Z.gcd_comm p x), <- (Z.gcd_comm p y), <- (Z.gcd_mod x p), <- (Z.gcd_mod y p) by lia.
  now rewrite E.
Qed.

Lemma finv_eq x y : x == y -> finv x = finv y.
Proof.
  intros E. unfold finv. pose proof p_gt_1 as Hp1.
  pose proof (gcd_eqm x y E) as Hg.
  destruct (Z.eq_dec (Z.gcd x p) 1) as [G|G].
  - destruct (inverse_mod_correct x p Hp1 G) as (i & -> & Hi & Hxi).
    destruct (inverse_mod_correct y p Hp1 ltac:(congruence)) as (j & -> & Hj & Hyj).
    apply (inverse_unique x p); try lia.
    + rewrite Hxi. symmetry. apply Z.mod_small. lia.
    + rewrite <- Zmult_mod_idemp_l, E, Zmult_mod_idemp_l, Hyj. symmetry. apply Z.mod_small. lia.
  - rewrite (inverse_mod_not_coprime x p Hp1 G), (inverse_mod_not_coprime y p Hp1 ltac:(congruence)). reflexivity.
Qed.

Local Instance finv_proper : Proper (eqm p ==> eqm p) finv.
Proof. intros x y E. rewrite (finv_eq x y E). reflexivity. Qed.

Add Field ZpF : Zp_field (setoid Zp_setoid Zp_ext).

Lemma mod_eqm_p x : x mod p == x.
Proof. apply Zmod_eqm. Qed.

(* integral domain: Euclid's lemma *)
Lemma eqm_mul_zero x y : x * y == 0 -> x == 0 \/ y == 0.
Proof.
  intros H. apply eqm0_iff in H. pose proof p_gt_1.
  apply Z.mod_divide in H; [|lia].
  destruct (prime_mult p Hp _ _ H) as [D|D]; [left|right]; apply eqm0_iff; apply Z.mod_divide; auto; lia.
Qed.

Lemma eqm_sub_zero x y : x - y == 0 <-> x == y.
Proof.
  split; intros H.
  - assert (E : x = (x - y) + y) by lia. rewrite E, H. reflexivity.
  - rewrite H. ring.
Qed.

(* ------------------------------------------------------------------------------------------------
   algebra of the two formulas, for arbitrary coefficients a b *)
Definition cubic (a b x : Z) : Z := x * x * x + a * x + b.

Lemma chord_on_curve a b x0 y0 x1 y1 :
  ~ x1 - x0 == 0 -> y0 * y0 == cubic a b x0 -> y1 * y1 == cubic a b x1 ->
  let l := (y1 - y0) * finv (x1 - x0) in
  let x3 := l * l - x0 - x1 in
  let y3 := l * (x0 - x3) - y0 in
  y3 * y3 == cubic a b x3.
Proof.
  intros Hd C0 C1 l x3 y3. unfold cubic in *.
  set (A := ((y1 * y1 - y0 * y0) - (x1 * x1 * x1 - x0 * x0 * x0)) * finv (x1 - x0)).
  assert (Ea : a == A).
  { assert (E1 : a == (a * (x1 - x0)) * finv (x1 - x0)) by (field; auto).
    assert (E2 : a * (x1 - x0) == (y1 * y1 - y0 * y0) - (x1 * x1 * x1 - x0 * x0 * x0)).
    { rewrite C0, C1. ring. }
    rewrite E2 in E1. exact E1. }
  assert (Eb : b == y0 * y0 - x0 * x0 * x0 - A * x0).
  { rewrite C0, Ea. ring. }
  rewrite Eb, Ea. subst y3 x3 l A. field. auto.
Qed.

Lemma tangent_on_curve a b x0 y0 :
  ~ 2 * y0 == 0 -> y0 * y0 == cubic a b x0 ->
  let l := (3 * x0 * x0 + a) * finv (2 * y0) in
  let x3 := l * l - x0 - x0 in
  let y3 := l * (x0 - x3) - y0 in
  y3 * y3 == cubic a b x3.
Proof.
  intros Hd C0 l x3 y3. unfold cubic in *.
  assert (Eb : b == y0 * y0 - x0 * x0 * x0 - a * x0).
  { rewrite C0. ring. }
  rewrite Eb. subst y3 x3 l.
  change 2 with (1 + 1) in *. change 3 with (1 + 1 + 1).
  field. split; intros E; apply Hd; rewrite E; ring.
Qed.

(* ------------------------------------------------------------------------------------------------
   the model on the curve c = (p, a, b, n) *)
Hypothesis Hp2 : p <> 2.
Variables a b n : Z.
Let c : curve := {| cp := p; ca := a; cb := b; cn := n |}.

Lemma two_nz : ~ 2 == 0.
Proof. intros E. pose proof p_gt_1. unfold eqm in E. rewrite Zmod_0_l, Z.mod_small in E; lia. Qed.

Lemma oc_iff x y : on_curve c (Some (x, y)) <-> y * y == cubic a b x.
Proof.
  cbn [on_curve c cp ca cb]. unfold cubic. rewrite <- eqm0_iff. apply eqm_sub_zero.
Qed.

Lemma contains_iff P : contains_point c P = true <-> on_curve c P.
Proof.
  destruct P as [[x y]|]; cbn [contains_point on_curve]; [|tauto]. apply Z.eqb_eq.
Qed.

Lemma mk_point_on x y : on_curve c (Some (x, y)) -> mk_point c x y = Ret (Some (x, y)).
Proof. intros H. unfold mk_point. apply contains_iff in H. now rewrite H. Qed.

Lemma mk_point_off x y : ~ on_curve c (Some (x, y)) -> mk_point c x y = Raise E_NOPOINT.
Proof.
  intros H. unfold mk_point. destruct (contains_point c (Some (x, y))) eqn:E; [|reflexivity].
  apply contains_iff in E. contradiction.
Qed.

Definition slope_chord (x0 y0 x1 y1 : Z) : Z := ((y1 - y0) * finv (x1 - x0)) mod p.
Definition slope_tan (x0 y0 : Z) : Z := ((3 * x0 * x0 + a) * finv (2 * y0)) mod p.
Definition third (x0 y0 x1 l : Z) : Z * Z :=
  let x3 := (l * l - x0 - x1) mod p in (x3, (l * (x0 - x3) - y0) mod p).

Lemma third_reduced x0 y0 x1 l : reduced c (Some (third x0 y0 x1 l)).
Proof. pose proof p_gt_1. cbn. split; apply Z.mod_pos_bound; lia. Qed.

Lemma third_chord_on x0 y0 x1 y1 :
  on_curve c (Some (x0, y0)) -> on_curve c (Some (x1, y1)) -> ~ x0 - x1 == 0 ->
  on_curve c (Some (third x0 y0 x1 (slope_chord x0 y0 x1 y1))).
Proof.
  intros H0 H1 Hd. apply oc_iff in H0, H1. unfold third. apply oc_iff.
  assert (Hd' : ~ x1 - x0 == 0).
  { intros E. apply Hd. apply eqm_sub_zero. symmetry. now apply eqm_sub_zero. }
  pose proof (chord_on_curve a b x0 y0 x1 y1 Hd' H0 H1) as K. cbv zeta in K.
  unfold slope_chord, cubic in *. rewrite_strat (topdown mod_eqm_p). exact K.
Qed.

Lemma third_tan_on x0 y0 x1 :
  on_curve c (Some (x0, y0)) -> x0 - x1 == 0 -> ~ 2 * y0 == 0 ->
  on_curve c (Some (third x0 y0 x1 (slope_tan x0 y0))).
Proof.
  intros H0 Hx Hd. apply oc_iff in H0. unfold third. apply oc_iff.
  apply (proj1 (eqm_sub_zero _ _)) in Hx.
  pose proof (tangent_on_curve a b x0 y0 Hd H0) as K. cbv zeta in K.
  unfold slope_tan, cubic in *. rewrite_strat (topdown mod_eqm_p). rewrite <- Hx. exact K.
Qed.

Lemma add_chord x0 y0 x1 y1 :
  on_curve c (Some (x0, y0)) -> on_curve c (Some (x1, y1)) -> ~ x0 - x1 == 0 ->
  add c (Some (x0, y0)) (Some (x1, y1)) = Ret (Some (third x0 y0 x1 (slope_chord x0 y0 x1 y1))).
Proof.
  intros H0 H1 Hd. pose proof (third_chord_on _ _ _ _ H0 H1 Hd) as Hon.
  unfold add. cbn [cp c].
  destruct (Z.eqb_spec ((x0 - x1) mod p) 0) as [E|_]; [apply eqm0_iff in E; contradiction|].
  assert (Hd' : ~ x1 - x0 == 0).
  { intros E. apply Hd. apply eqm_sub_zero. symmetry. now apply eqm_sub_zero. }
  destruct (inverse_mod_finv _ Hd') as [-> _]. cbn [bind].
  unfold add_finish. cbn [cp c]. unfold third, slope_chord in Hon. now rewrite (mk_point_on _ _ Hon).
Qed.

Lemma add_tan x0 y0 x1 y1 :
  on_curve c (Some (x0, y0)) -> x0 - x1 == 0 -> ~ y0 + y1 == 0 -> ~ 2 * y0 == 0 ->
  add c (Some (x0, y0)) (Some (x1, y1)) = Ret (Some (third x0 y0 x1 (slope_tan x0 y0))).
Proof.
  intros H0 Hx Hy Hd. pose proof (third_tan_on _ _ _ H0 Hx Hd) as Hon.
  unfold add. cbn [cp c].
  destruct (Z.eqb_spec ((x0 - x1) mod p) 0) as [_|E]; [|apply eqm0_iff in Hx; contradiction].
  destruct (Z.eqb_spec ((y0 + y1) mod p) 0) as [E|_]; [apply eqm0_iff in E; contradiction|].
  destruct (inverse_mod_finv _ Hd) as [-> _]. cbn [bind].
  unfold add_finish. cbn [cp ca c]. unfold third, slope_tan in Hon. now rewrite (mk_point_on _ _ Hon).
Qed.

Lemma add_opp x0 y0 x1 y1 :
  x0 - x1 == 0 -> y0 + y1 == 0 -> add c (Some (x0, y0)) (Some (x1, y1)) = Ret None.
Proof.
  intros Hx Hy. unfold add. cbn [cp c]. apply eqm0_iff in Hx, Hy. now rewrite Hx, Hy.
Qed.

(* same x, both on the curve, not opposite: the ordinates agree (mod p) and 2*y0 is invertible *)
Lemma same_x_cases x0 y0 x1 y1 :
  on_curve c (Some (x0, y0)) -> on_curve c (Some (x1, y1)) -> x0 - x1 == 0 -> ~ y0 + y1 == 0 ->
  y0 == y1 /\ ~ 2 * y0 == 0.
Proof.
  intros H0 H1 Hx Hy. apply oc_iff in H0, H1. apply (proj1 (eqm_sub_zero _ _)) in Hx.
  assert (E : (y0 - y1) * (y0 + y1) == 0).
  { assert (E' : (y0 - y1) * (y0 + y1) == y0 * y0 - y1 * y1) by ring.
    rewrite E', H0, H1. unfold cubic. rewrite Hx. apply eqm_sub_zero. reflexivity. }
  destruct (eqm_mul_zero _ _ E) as [D|D]; [|contradiction].
  apply (proj1 (eqm_sub_zero _ _)) in D. split; [exact D|].
  intros E2. apply Hy. rewrite <- D. assert (E3 : y0 + y0 == 2 * y0) by (change 2 with (1 + 1); ring). now rewrite E3.
Qed.

(* closure, with the shape of the result *)
Lemma add_closed P Q : on_curve c P -> on_curve c Q ->
  exists R, add c P Q = Ret R /\ on_curve c R /\ (P <> None -> Q <> None -> reduced c R).
Proof.
  intros HP HQ.
  destruct P as [[x0 y0]|]; [|exists Q; cbn; repeat split; auto; congruence].
  destruct Q as [[x1 y1]|]; [|exists (Some (x0, y0)); cbn; repeat split; auto; congruence].
  destruct (Z.eq_dec ((x0 - x1) mod p) 0) as [Ex|Ex].
  - apply eqm0_iff in Ex.
    destruct (Z.eq_dec ((y0 + y1) mod p) 0) as [Ey|Ey].
    + apply eqm0_iff in Ey. exists None. rewrite add_opp by auto. cbn. auto.
    + rewrite <- eqm0_iff in Ey. destruct (same_x_cases _ _ _ _ HP HQ Ex Ey) as [_ Hd].
      eexists. rewrite add_tan by auto. split; [reflexivity|].
      split; [apply third_tan_on; auto | intros; apply third_reduced].
  - rewrite <- eqm0_iff in Ex.
    eexists. rewrite add_chord by auto. split; [reflexivity|].
    split; [apply third_chord_on; auto | intros; apply third_reduced].
Qed.

(* ------------------------------------------------------------------------------------------------
   agreement with the specification *)
Lemma red_some x y : red c (Some (x, y)) = Some (x mod p, y mod p).
Proof. reflexivity. Qed.

Lemma third_red x0 y0 x1 l : red c (Some (third x0 y0 x1 l)) = Some (third x0 y0 x1 l).
Proof. unfold third. cbn [red cp c]. now rewrite !Zmod_mod. Qed.

Lemma third_eqm x0 y0 x1 l x0' y0' x1' l' :
  x0 == x0' -> y0 == y0' -> x1 == x1' -> l == l' -> third x0 y0 x1 l = third x0' y0' x1' l'.
Proof.
  intros E0 E1 E2 E3. unfold third.
  assert (Ex : (l * l - x0 - x1) mod p = (l' * l' - x0' - x1') mod p).
  { apply eqm_mod_eq. now rewrite E0, E2, E3. }
  rewrite Ex. f_equal. apply eqm_mod_eq. now rewrite E0, E1, E3.
Qed.

Lemma slope_chord_eqm x0 y0 x1 y1 x0' y0' x1' y1' :
  x0 == x0' -> y0 == y0' -> x1 == x1' -> y1 == y1' -> slope_chord x0 y0 x1 y1 = slope_chord x0' y0' x1' y1'.
Proof.
  intros E0 E1 E2 E3. unfold slope_chord. apply eqm_mod_eq.
  assert (E : finv (x1 - x0) = finv (x1' - x0')) by (apply finv_eq; now rewrite E0, E2).
  rewrite E. now rewrite E1, E3.
Qed.

Lemma slope_tan_eqm x0 y0 x0' y0' : x0 == x0' -> y0 == y0' -> slope_tan x0 y0 = slope_tan x0' y0'.
Proof.
  intros E0 E1. unfold slope_tan. apply eqm_mod_eq.
  assert (E : finv (2 * y0) = finv (2 * y0')) by (apply finv_eq; now rewrite E1).
  rewrite E. now rewrite E0.
Qed.

Lemma slope_chord_eq x0 y0 x1 y1 : ~ x1 - x0 == 0 ->
  slope_chord x0 y0 x1 y1 * (x1 - x0) == y1 - y0.
Proof. intros Hd. unfold slope_chord. rewrite mod_eqm_p. field. auto. Qed.

Lemma slope_tan_eq x0 y0 : ~ 2 * y0 == 0 -> slope_tan x0 y0 * (2 * y0) == 3 * x0 * x0 + a.
Proof.
  intros Hd. unfold slope_tan. rewrite mod_eqm_p.
  assert (E : (3 * x0 * x0 + a) * finv (2 * y0) * (2 * y0) == (3 * x0 * x0 + a) * (finv (2 * y0) * (2 * y0))) by ring.
  rewrite E, (finv_l _ Hd). ring.
Qed.

Lemma on_curve_red P : on_curve c P <-> on_curve c (red c P).
Proof.
  destruct P as [[x y]|]; [|tauto]. rewrite red_some, !oc_iff. unfold cubic.
  now rewrite !mod_eqm_p.
Qed.

Lemma nz_sym x y : ~ x - y == 0 -> ~ y - x == 0.
Proof. intros H E. apply H. apply eqm_sub_zero. symmetry. now apply eqm_sub_zero. Qed.

Theorem add_is_spec P Q : on_curve c P -> on_curve c Q ->
  exists R, add c P Q = Ret R /\ on_curve c R /\ (P <> None -> Q <> None -> reduced c R) /\
            spec_add c (red c P) (red c Q) (red c R).
Proof.
  intros HP HQ.
  destruct P as [[x0 y0]|];
    [|exists Q; split; [reflexivity|]; split; [exact HQ|]; split; [intros H; congruence|]; apply SA_inf_l].
  destruct Q as [[x1 y1]|];
    [|exists (Some (x0, y0)); split; [reflexivity|]; split; [exact HP|]; split; [intros _ H; congruence|]; apply SA_inf_r].
  pose proof p_gt_1 as Hp1.
  destruct (Z.eq_dec ((x0 - x1) mod p) 0) as [Ex|Ex].
  - apply eqm0_iff in Ex. pose proof (proj1 (eqm_sub_zero _ _) Ex) as Exx.
    destruct (Z.eq_dec ((y0 + y1) mod p) 0) as [Ey|Ey].
    + apply eqm0_iff in Ey. exists None. rewrite add_opp by auto. cbn [on_curve reduced]. repeat split; auto.
      rewrite !red_some. rewrite (eqm_mod_eq _ _ Exx). apply SA_opp. cbn [cp c].
      rewrite <- Zplus_mod. now apply eqm0_iff.
    + rewrite <- eqm0_iff in Ey. destruct (same_x_cases _ _ _ _ HP HQ Ex Ey) as [Eyy Hd].
      eexists. rewrite add_tan by auto. split; [reflexivity|].
      split; [apply third_tan_on; auto|]. split; [intros; apply third_reduced|].
      rewrite third_red, !red_some. rewrite <- (eqm_mod_eq _ _ Exx), <- (eqm_mod_eq _ _ Eyy).
      rewrite (third_eqm x0 y0 x1 (slope_tan x0 y0) (x0 mod p) (y0 mod p) (x0 mod p) (slope_tan x0 y0))
        by (try reflexivity; try (symmetry; apply mod_eqm_p); rewrite mod_eqm_p; now symmetry).
      unfold third. apply SA_tangent; cbn [cp ca c].
      * intros E. apply Hd. apply eqm0_iff. rewrite <- Zplus_mod in E.
        assert (E2 : 2 * y0 == y0 + y0) by (change 2 with (1 + 1); ring). rewrite E2. now apply eqm0_iff.
      * apply eqm_mod_eq. rewrite !mod_eqm_p. apply slope_tan_eq; auto.
  - rewrite <- eqm0_iff in Ex.
    eexists. rewrite add_chord by auto. split; [reflexivity|].
    split; [apply third_chord_on; auto|]. split; [intros; apply third_reduced|].
    rewrite third_red, !red_some.
    rewrite (third_eqm x0 y0 x1 (slope_chord x0 y0 x1 y1) (x0 mod p) (y0 mod p) (x1 mod p) (slope_chord x0 y0 x1 y1))
      by (try reflexivity; symmetry; apply mod_eqm_p).
    unfold third. apply SA_chord; cbn [cp c].
    + intros E. apply Ex. apply eqm_sub_zero. exact E.
    + apply eqm_mod_eq. rewrite !mod_eqm_p. apply slope_chord_eq. now apply nz_sym.
Qed.

(* ------------------------------------------------------------------------------------------------
   the group operation on elements: padd, pneg *)
Definition padd (P Q : pt) : pt := match add c P Q with Ret R => red c R | _ => None end.
Definition pneg (P : pt) : pt :=
  match P with None => None | Some (x, y) => Some (x mod p, (p - y) mod p) end.

Definition pt_eqm (P Q : pt) : Prop :=
  match P, Q with
  | None, None => True
  | Some (x, y), Some (x', y') => x == x' /\ y == y'
  | _, _ => False
  end.

Lemma pt_eqm_red P : pt_eqm P (red c P).
Proof. destruct P as [[x y]|]; cbn; [|auto]. split; symmetry; apply mod_eqm_p. Qed.

Lemma pt_eqm_on P Q : pt_eqm P Q -> on_curve c P -> on_curve c Q.
Proof.
  destruct P as [[x y]|], Q as [[x' y']|]; cbn [pt_eqm]; try tauto.
  intros [E1 E2]. rewrite !oc_iff. unfold cubic. now rewrite E1, E2.
Qed.

Lemma red_eqm P Q : pt_eqm P Q -> red c P = red c Q.
Proof.
  destruct P as [[x y]|], Q as [[x' y']|]; cbn [pt_eqm]; try tauto.
  intros [E1 E2]. rewrite !red_some. now rewrite (eqm_mod_eq _ _ E1), (eqm_mod_eq _ _ E2).
Qed.

Lemma red_valid P : on_curve c P -> valid c (red c P).
Proof.
  intros H. split; [apply (proj1 (on_curve_red P)); exact H|].
  destruct P as [[x y]|]; cbn; auto. pose proof p_gt_1. split; apply Z.mod_pos_bound; lia.
Qed.

Lemma red_id P : reduced c P -> red c P = P.
Proof.
  destruct P as [[x y]|]; cbn; auto. intros [H1 H2]. now rewrite !Z.mod_small.
Qed.

Lemma padd_valid P Q : on_curve c P -> on_curve c Q -> valid c (padd P Q).
Proof.
  intros HP HQ. unfold padd. destruct (add_closed P Q HP HQ) as (R & -> & HR & _). now apply red_valid.
Qed.

Lemma add_padd P Q : on_curve c P -> on_curve c Q ->
  exists R, add c P Q = Ret R /\ on_curve c R /\ red c R = padd P Q.
Proof.
  intros HP HQ. unfold padd. destruct (add_closed P Q HP HQ) as (R & -> & HR & _). eauto.
Qed.

Lemma padd_eqm P Q P' Q' : on_curve c P -> on_curve c Q -> pt_eqm P P' -> pt_eqm Q Q' ->
  padd P Q = padd P' Q'.
Proof.
  intros HP HQ EP EQ.
  pose proof (pt_eqm_on _ _ EP HP) as HP'. pose proof (pt_eqm_on _ _ EQ HQ) as HQ'.
  unfold padd.
  destruct P as [[x0 y0]|], P' as [[x0' y0']|]; cbn [pt_eqm] in EP; try tauto;
    destruct Q as [[x1 y1]|], Q' as [[x1' y1']|]; cbn [pt_eqm] in EQ; try tauto.
  - destruct EP as [E0 E1], EQ as [E2 E3].
    destruct (Z.eq_dec ((x0 - x1) mod p) 0) as [Ex|Ex].
    + apply eqm0_iff in Ex. assert (Ex' : x0' - x1' == 0) by (now rewrite <- E0, <- E2).
      destruct (Z.eq_dec ((y0 + y1) mod p) 0) as [Ey|Ey].
      * apply eqm0_iff in Ey. assert (Ey' : y0' + y1' == 0) by (now rewrite <- E1, <- E3).
        now rewrite !add_opp.
      * rewrite <- eqm0_iff in Ey. assert (Ey' : ~ y0' + y1' == 0) by (now rewrite <- E1, <- E3).
        destruct (same_x_cases _ _ _ _ HP HQ Ex Ey) as [_ Hd].
        destruct (same_x_cases _ _ _ _ HP' HQ' Ex' Ey') as [_ Hd'].
        rewrite !add_tan by auto. f_equal. f_equal.
        apply third_eqm; auto. rewrite (slope_tan_eqm _ _ _ _ E0 E1). reflexivity.
    + rewrite <- eqm0_iff in Ex. assert (Ex' : ~ x0' - x1' == 0) by (now rewrite <- E0, <- E2).
      rewrite !add_chord by auto. f_equal. f_equal.
      apply third_eqm; auto. rewrite (slope_chord_eqm _ _ _ _ _ _ _ _ E0 E1 E2 E3). reflexivity.
  - cbn [add]. apply red_eqm. cbn. auto.
  - cbn [add]. apply red_eqm. cbn. auto.
Qed.

Lemma padd_red_l P Q : on_curve c P -> on_curve c Q -> padd (red c P) Q = padd P Q.
Proof.
  intros HP HQ. symmetry. apply padd_eqm; auto; [apply pt_eqm_red | destruct Q as [[? ?]|]; cbn; auto; split; reflexivity].
Qed.

Lemma padd_red_r P Q : on_curve c P -> on_curve c Q -> padd P (red c Q) = padd P Q.
Proof.
  intros HP HQ. symmetry. apply padd_eqm; auto; [destruct P as [[? ?]|]; cbn; auto; split; reflexivity | apply pt_eqm_red].
Qed.

Lemma padd_None_l Q : padd None Q = red c Q.
Proof. reflexivity. Qed.

Lemma padd_None_r P : padd P None = red c P.
Proof. destruct P as [[? ?]|]; reflexivity. Qed.

Lemma padd_comm P Q : on_curve c P -> on_curve c Q -> padd P Q = padd Q P.
Proof.
  intros HP HQ. unfold padd.
  destruct P as [[x0 y0]|], Q as [[x1 y1]|]; try reflexivity.
  destruct (Z.eq_dec ((x0 - x1) mod p) 0) as [Ex|Ex].
  - apply eqm0_iff in Ex. pose proof (proj1 (eqm_sub_zero _ _) Ex) as Exx.
    assert (Ex' : x1 - x0 == 0) by (apply eqm_sub_zero; now symmetry).
    destruct (Z.eq_dec ((y0 + y1) mod p) 0) as [Ey|Ey].
    + apply eqm0_iff in Ey. assert (Ey' : y1 + y0 == 0) by (now rewrite Z.add_comm).
      now rewrite !add_opp.
    + rewrite <- eqm0_iff in Ey. assert (Ey' : ~ y1 + y0 == 0) by (now rewrite Z.add_comm).
      destruct (same_x_cases _ _ _ _ HP HQ Ex Ey) as [Eyy Hd].
      destruct (same_x_cases _ _ _ _ HQ HP Ex' Ey') as [_ Hd'].
      rewrite !add_tan by auto. f_equal. f_equal.
      apply third_eqm; auto; [now symmetry|]. rewrite (slope_tan_eqm _ _ _ _ Exx Eyy). reflexivity.
  - rewrite <- eqm0_iff in Ex. pose proof (nz_sym _ _ Ex) as Ex'.
    rewrite !add_chord by auto. f_equal. f_equal.
    assert (El : slope_chord x0 y0 x1 y1 = slope_chord x1 y1 x0 y0).
    { unfold slope_chord. apply eqm_mod_eq. field. auto. }
    rewrite <- El. set (l := slope_chord x0 y0 x1 y1).
    unfold third.
    assert (E3 : (l * l - x0 - x1) mod p = (l * l - x1 - x0) mod p) by (apply eqm_mod_eq; ring).
    rewrite <- E3. f_equal. apply eqm_mod_eq.
    pose proof (slope_chord_eq x0 y0 x1 y1 Ex') as K. fold l in K.
    apply eqm_sub_zero.
    assert (E4 : l * (x0 - (l * l - x0 - x1) mod p) - y0 - (l * (x1 - (l * l - x0 - x1) mod p) - y1)
                 == (y1 - y0) - l * (x1 - x0)) by ring.
    rewrite E4, K. ring.
Qed.

Lemma pneg_valid P : on_curve c P -> valid c (pneg P).
Proof.
  intros H. destruct P as [[x y]|]; cbn [pneg]; [|split; cbn; auto].
  pose proof p_gt_1. split.
  - apply oc_iff in H. apply oc_iff. unfold cubic in *. rewrite !mod_eqm_p.
    assert (E : (p - y) * (p - y) == y * y).
    { assert (E1 : (p - y) * (p - y) == y * y + p * (p - 2 * y)) by (change 2 with (1 + 1); ring).
      rewrite E1. unfold eqm. rewrite (Z.mul_comm p), Z_mod_plus_full. reflexivity. }
    now rewrite E.
  - cbn. split; apply Z.mod_pos_bound; lia.
Qed.

Lemma neg_model P : on_curve c P -> exists R, neg c P = Ret R /\ on_curve c R /\ red c R = pneg P.
Proof.
  intros H. destruct P as [[x y]|]; cbn [neg]; [|exists None; auto].
  cbn [cp c].
  assert (Hon : on_curve c (Some (x, p - y))).
  { apply (proj2 (on_curve_red _)). rewrite red_some. apply (pneg_valid (Some (x, y)) H). }
  rewrite (mk_point_on _ _ Hon). eexists. split; [reflexivity|]. split; [exact Hon|reflexivity].
Qed.

Lemma pneg_is_spec_neg P : pneg P = spec_neg c (red c P).
Proof.
  destruct P as [[x y]|]; [|reflexivity]. cbn [pneg red spec_neg cp c]. f_equal. f_equal.
  apply eqm_mod_eq. rewrite mod_eqm_p.
  unfold eqm. replace (p - y) with (- y + 1 * p) by lia. apply Z_mod_plus_full.
Qed.

Lemma padd_pneg P : on_curve c P -> padd P (pneg P) = None.
Proof.
  intros H. destruct P as [[x y]|]; [|reflexivity].
  unfold padd. cbn [pneg]. rewrite add_opp; [reflexivity| |].
  - apply eqm_sub_zero. symmetry. apply mod_eqm_p.
  - rewrite mod_eqm_p. unfold eqm. replace (y + (p - y)) with (0 + 1 * p) by lia. apply Z_mod_plus_full.
Qed.

Lemma pneg_red P : pneg (red c P) = pneg P.
Proof.
  destruct P as [[x y]|]; [|reflexivity]. cbn [red pneg cp c]. rewrite Zmod_mod. f_equal. f_equal.
  apply eqm_mod_eq. now rewrite mod_eqm_p.
Qed.

End Fp.

(* ================================================================================================
   uniform interface for an arbitrary curve record (used by CurveMulP.v, CurveGenP.v, Props/C02.v) *)
Definition gadd (c : curve) : pt -> pt -> pt := padd (cp c) (ca c) (cb c) (cn c).
Definition gneg (c : curve) : pt -> pt := pneg (cp c).

Lemma red_id_c c P : reduced c P -> red c P = P.
Proof. destruct c as [p a b n]. apply red_id. Qed.

Lemma red_red_c c P : red c (red c P) = red c P.
Proof. destruct P as [[x y]|]; cbn; [|reflexivity]. now rewrite !Zmod_mod. Qed.

Lemma gneg_red c P : gneg c (red c P) = gneg c P.
Proof. destruct c as [p a b n]. apply pneg_red. Qed.

Lemma gadd_None_l c Q : gadd c None Q = red c Q.
Proof. reflexivity. Qed.

Lemma gadd_None_r c P : gadd c P None = red c P.
Proof. destruct c as [p a b n]. apply padd_None_r. Qed.

Section Uniform.
Variable c : curve.
Hypothesis Hp : prime (cp c).
Hypothesis Hp2 : cp c <> 2.

Ltac open_c := destruct c as [p a b n]; cbn [cp ca cb cn] in *; unfold gadd, gneg; cbn [cp ca cb cn].

Lemma on_curve_red_c P : on_curve c P <-> on_curve c (red c P).
Proof using All. open_c. now apply on_curve_red. Qed.

Lemma red_valid_c P : on_curve c P -> valid c (red c P).
Proof using All. open_c. now apply red_valid. Qed.

Lemma contains_iff_c P : contains_point c P = true <-> on_curve c P.
Proof using All. open_c. apply contains_iff. Qed.

Lemma mk_point_on_c x y : on_curve c (Some (x, y)) -> mk_point c x y = Ret (Some (x, y)).
Proof using All. open_c. apply mk_point_on. Qed.

Lemma mk_point_off_c x y : ~ on_curve c (Some (x, y)) -> mk_point c x y = Raise E_NOPOINT.
Proof using All. open_c. apply mk_point_off. Qed.

Lemma gadd_valid P Q : on_curve c P -> on_curve c Q -> valid c (gadd c P Q).
Proof using All. open_c. now apply padd_valid. Qed.

Lemma add_gadd P Q : on_curve c P -> on_curve c Q ->
  exists R, add c P Q = Ret R /\ on_curve c R /\ (P <> None -> Q <> None -> reduced c R) /\ red c R = gadd c P Q.
Proof using All.
  open_c. intros HP HQ. unfold padd.
  destruct (add_closed p Hp Hp2 a b n P Q HP HQ) as (R & -> & HR & Hred). eauto.
Qed.

Lemma gadd_red_l P Q : on_curve c P -> on_curve c Q -> gadd c (red c P) Q = gadd c P Q.
Proof using All. open_c. now apply padd_red_l. Qed.

Lemma gadd_red_r P Q : on_curve c P -> on_curve c Q -> gadd c P (red c Q) = gadd c P Q.
Proof using All. open_c. now apply padd_red_r. Qed.

Lemma gadd_comm P Q : on_curve c P -> on_curve c Q -> gadd c P Q = gadd c Q P.
Proof using All. open_c. now apply padd_comm. Qed.

Lemma gneg_valid P : on_curve c P -> valid c (gneg c P).
Proof using All. open_c. now apply pneg_valid. Qed.

Lemma neg_gneg P : on_curve c P -> exists R, neg c P = Ret R /\ on_curve c R /\ red c R = gneg c P.
Proof using All. open_c. now apply neg_model. Qed.

Lemma gadd_gneg P : on_curve c P -> gadd c P (gneg c P) = None.
Proof using All. open_c. now apply padd_pneg. Qed.

Lemma gneg_is_spec_neg P : gneg c P = spec_neg c (red c P).
Proof using All. open_c. now apply pneg_is_spec_neg. Qed.

Theorem add_is_spec_c P Q : on_curve c P -> on_curve c Q ->
  exists R, add c P Q = Ret R /\ on_curve c R /\ (P <> None -> Q <> None -> reduced c R) /\
            spec_add c (red c P) (red c Q) (red c R).
Proof using All. open_c. now apply add_is_spec. Qed.

End Uniform.
