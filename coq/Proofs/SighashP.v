(* Proofs/SighashP.v — lemmas relating Model/Sighash.v (pycoin) to Spec/SighashCore.v (Core / BIP143). *)
From PV Require Import Base.Bytes Base.Outcome Base.Varint Gen.GenOpcodes Gen.GenSighashC04
  Model.Push Proofs.PushP Model.Sighash Spec.SighashCore.
From Coq Require Import ZifyBool ZifyNat ZifyN.
Local Open Scope N_scope.

(* ---- the model's transaction as Core's -------------------------------------------------------- *)
Definition to_core_in (i : txin) : CTxIn :=
  mkCTxIn (mkOutPoint (ti_hash i) (ti_index i)) (ti_script i) (ti_seq i).
Definition to_core_out (o : txout) : CTxOut := mkCTxOut (to_value o) (to_script o).
Definition to_core (t : tx) : CTransaction :=
  mkCTx (tx_version t) (map to_core_in (tx_ins t)) (map to_core_out (tx_outs t)) (tx_lock t).

(* ---- exclusion predicates (one per known finding) --------------------------------------------- *)
(* (1) a one-byte "signature" whose minimal push is OP_1..OP_16 / OP_1NEGATE: pycoin deletes that opcode,
       Core deletes the direct push 01 xx *)
Definition sig_pattern_excluded (sig : bytes) : bool :=
  match sig with
  | [b] => ((1 <=? b2n b) && (b2n b <=? 16)) || (b2n b =? 129)
  | _ => false
  end.

(* (2) the script has an undecodable instruction and pycoin's walk, which goes on behind it, removes
       something there.  `undecodable_tail` = the script from its first undecodable instruction on. *)
Fixpoint undecodable_tail_fuel (fuel : nat) (s : bytes) : bytes :=
  match fuel with
  | O => s
  | S f => match core_get_op s with
           | GOk _ len => undecodable_tail_fuel f (skipn len s)
           | GFail _ => s
           end
  end.
Definition undecodable_tail (s : bytes) : bytes := undecodable_tail_fuel (length s) s.
Definition rewalk_excluded (sub script : bytes) : bool :=
  let tail := undecodable_tail script in
  match delete_subscript tail sub with
  | Ret w => negb (bytes_eqb w tail)
  | _ => true
  end.

(* ================================================================================================
   Part 0 — the regenerated constants are the consensus ones (a changed literal in /repo breaks here) *)
Lemma g_none : gen_sighash_none = SIGHASH_NONE. Proof. reflexivity. Qed.
Lemma g_single : gen_sighash_single = SIGHASH_SINGLE. Proof. reflexivity. Qed.
Lemma g_forkid : gen_sighash_forkid = SIGHASH_FORKID. Proof. reflexivity. Qed.
Lemma g_acp : gen_sighash_anyonecanpay = SIGHASH_ANYONECANPAY. Proof. reflexivity. Qed.
Lemma g_forkid_btg : N.shiftl gen_forkid_btg gen_forkid_shift = N.shiftl FORKID_BTG 8. Proof. reflexivity. Qed.
Lemma g_legacy_masks : gen_legacy_mask_none = 31 /\ gen_legacy_mask_single = 31. Proof. split; reflexivity. Qed.
Lemma g_single_value : N.shiftl gen_single_value_base gen_single_value_shift = 2 ^ 248. Proof. vm_compute. reflexivity. Qed.
Lemma g_blank : gen_blank_amount = 2 ^ 64 - 1. Proof. vm_compute. reflexivity. Qed.
Lemma g_sw_masks : gen_sw_seq_mask_single = 31 /\ gen_sw_seq_mask_none = 31 /\ gen_sw_out_mask_single = 31 /\ gen_sw_out_mask_none = 31.
Proof. repeat split; reflexivity. Qed.
Lemma g_grs_masks : gen_grs_seq_mask_single = 31 /\ gen_grs_seq_mask_none = 31 /\ gen_grs_out_mask_single = 31 /\ gen_grs_out_mask_none = 31.
Proof. repeat split; reflexivity. Qed.
Lemma g_codesep : gen_codeseparator = [n2b OP_CODESEPARATOR]. Proof. vm_compute. reflexivity. Qed.
Lemma g_zero32 : gen_zero32 = zero32. Proof. vm_compute. reflexivity. Qed.

(* ================================================================================================
   Part 1 — pycoin's instruction decoder (C12 model, generated tables) vs Core's GetScriptOp *)
Definition op_class_ok (b : byte) : bool :=
  let o := b2n b in
  match const_by_opcode const_table o, sized_by_opcode sized_table o, var_by_opcode variable_table o with
  | Some _, _, _ => (o =? 0) || (78 <? o)
  | None, Some sz, _ => (sz =? o) && (1 <=? o) && (o <=? 75)
  | None, None, Some (w, _) =>
    ((o =? 76) && (w =? 1)%nat) || ((o =? 77) && (w =? 2)%nat) || ((o =? 78) && (w =? 4)%nat)
  | None, None, None => 78 <? o
  end.
Lemma op_class_all b : op_class_ok b = true.
Proof. destruct b; vm_compute; reflexivity. Qed.

(* new_pc and is_ok that pycoin reports, read off Core's result: on failure pycoin's new_pc is one more
   than the number of bytes Core's iterator had consumed *)
Definition bridge_res (s : bytes) : nat * bool :=
  match core_get_op s with GOk _ len => (len, true) | GFail adv => (S adv, false) end.

Lemma slice_len1 {A} (x : A) (r : list A) n : length (slice 1 (1 + n) (x :: r)) = Nat.min n (length r).
Proof. rewrite slice_length. cbn [length]. f_equal; lia. Qed.

Lemma slice_1_firstn {A} (x : A) (r : list A) n : slice 1 (1 + n) (x :: r) = firstn n r.
Proof. unfold slice. replace (1 + n - 1)%nat with n by lia. reflexivity. Qed.

Lemma getop_bridge b r : exists d,
  btc_get_opcode (b :: r) 0 false
  = Ret (b2n b, d, fst (bridge_res (b :: r)), snd (bridge_res (b :: r))).
Proof.
  pose proof (op_class_all b) as K. unfold op_class_ok in K.
  unfold btc_get_opcode, get_opcode, bridge_res, core_get_op.
  unfold OP_PUSHDATA4, OP_PUSHDATA1, OP_PUSHDATA2.
  cbn [nth_error]. set (o := b2n b) in *.
  destruct (const_by_opcode const_table o) as [d|] eqn:EC.
  { exists (Some d). destruct (o =? 0) eqn:E0.
    - assert (o = 0) by lia. rewrite H.
      replace (0 <=? 78) with true by reflexivity. replace (0 <? 76) with true by reflexivity.
      rewrite (proj2 (Nat.ltb_ge (length r) 0)) by lia. rewrite Nat.sub_0_r.
      replace (N.of_nat (length r) <? 0) with false by lia. reflexivity.
    - replace (o <=? 78) with false by lia. reflexivity. }
  destruct (sized_by_opcode sized_table o) as [sz|] eqn:ES.
  { assert (sz = o /\ 1 <= o <= 75) as [-> Ho] by lia.
    replace (o <=? 78) with true by lia. replace (o <? 76) with true by lia.
    rewrite (proj2 (Nat.ltb_ge (length r) 0)) by lia. rewrite Nat.sub_0_r.
    change (0 + 1)%nat with 1%nat. rewrite slice_len1.
    destruct (N.of_nat (length r) <? o) eqn:EL.
    - replace (Nat.min (N.to_nat o) (length r) <? N.to_nat o)%nat with true by lia.
      eexists. reflexivity.
    - replace (Nat.min (N.to_nat o) (length r) <? N.to_nat o)%nat with false by lia.
      cbn [andb]. eexists. reflexivity. }
  destruct (var_by_opcode variable_table o) as [[w ms]|] eqn:EV.
  { assert (Hw : (o = 76 /\ w = 1%nat) \/ (o = 77 /\ w = 2%nat) \/ (o = 78 /\ w = 4%nat)) by lia.
    assert (Hww : (if o <? 76 then 0%nat else if o =? 76 then 1%nat else if o =? 77 then 2%nat else 4%nat) = w).
    { destruct Hw as [[-> ->]|[[-> ->]|[-> ->]]]; reflexivity. }
    rewrite Hww.
    replace (o <=? 78) with true by lia. replace (o <? 76) with false by lia.
    change (0 + 1)%nat with 1%nat. rewrite slice_len1, slice_1_firstn.
    destruct (length r <? w)%nat eqn:EL.
    - replace (Nat.min w (length r) <? w)%nat with true by lia. eexists. cbn [fst snd]. repeat f_equal; lia.
    - replace (Nat.min w (length r) <? w)%nat with false by lia.
      cbn [length]. replace (S (length r) - (1 + w))%nat with (length r - w)%nat by lia.
      destruct (N.of_nat (length r - w) <? le_decode (firstn w r)) eqn:ED.
      + eexists. cbn [fst snd]. repeat f_equal; lia.
      + rewrite slice_length. cbn [length].
        match goal with |- context [(?a <? ?b)%nat] => replace (a <? b)%nat with false by lia end.
        cbn [andb]. eexists. cbn [fst snd]. repeat f_equal; lia. }
  exists None. replace (o <=? 78) with false by lia. reflexivity.
Qed.

(* ================================================================================================
   Part 2 — decoding at pc = decoding the suffix at 0 *)
Definition shift_res (k : nat) (r : outcome (N * option bytes * nat * bool)) :=
  match r with
  | Ret (o, d, npc, ok) => Ret (o, d, (k + npc)%nat, ok)
  | Raise e => Raise e
  | OutOfFuel => OutOfFuel
  end.

Lemma skipn_add {A} (a b : nat) (l : list A) : skipn (a + b) l = skipn b (skipn a l).
Proof.
  revert l; induction a as [|a IH]; intros l; [reflexivity|].
  destruct l as [|x l]; cbn [Nat.add skipn]; [now destruct b | apply IH].
Qed.

Lemma nth_error_skipn0 {A} (l : list A) pc : nth_error l pc = nth_error (skipn pc l) 0.
Proof.
  revert l; induction pc as [|pc IH]; intros [|x l]; try reflexivity.
  cbn [skipn nth_error]. apply IH.
Qed.

Lemma slice_shift {A} (l : list A) pc a n :
  slice (pc + a) (pc + a + n) l = slice (0 + a) (0 + a + n) (skipn pc l).
Proof.
  unfold slice. rewrite skipn_add. cbn [Nat.add]. f_equal. lia.
Qed.

Ltac npc_eq := cbn [shift_res];
  match goal with |- Ret (_, _, ?c, _) = Ret (_, _, ?c', _) => replace c with c' by lia; reflexivity end.

Lemma get_opcode_shift script pc m :
  btc_get_opcode script pc m = shift_res pc (btc_get_opcode (skipn pc script) 0 m).
Proof.
  unfold btc_get_opcode, get_opcode.
  set (s' := skipn pc script).
  assert (F1 : nth_error script pc = nth_error s' 0) by apply nth_error_skipn0.
  assert (F2 : forall a n, slice (pc + a) (pc + a + n) script = slice (0 + a) (0 + a + n) s')
    by (intros; apply slice_shift).
  assert (F2' : forall a b n, slice (pc + a + b) (pc + a + b + n) script = slice (0 + a + b) (0 + a + b + n) s').
  { intros. pose proof (F2 (a + b)%nat n) as Q. rewrite !Nat.add_assoc in Q. exact Q. }
  assert (F3 : forall a b, (length script - (pc + a + b) = length s' - (0 + a + b))%nat).
  { intros. unfold s'. rewrite skipn_length. lia. }
  rewrite F1. destruct (nth_error s' 0) as [ob|]; [|reflexivity].
  destruct (const_by_opcode const_table (b2n ob)) as [d|]; [npc_eq|].
  destruct (sized_by_opcode sized_table (b2n ob)) as [size|].
  { rewrite F2.
    destruct (length (slice (0 + 1) (0 + 1 + N.to_nat size) s') <? N.to_nat size)%nat;
      [npc_eq|].
    destruct (m && is_const_value const_table (slice (0 + 1) (0 + 1 + N.to_nat size) s')); [reflexivity|].
    npc_eq. }
  destruct (var_by_opcode variable_table (b2n ob)) as [[w ms]|]; [|npc_eq].
  rewrite F2.
  destruct (length (slice (0 + 1) (0 + 1 + w) s') <? w)%nat; [npc_eq|].
  rewrite F3.
  set (size := le_decode (slice (0 + 1) (0 + 1 + w) s')).
  destruct (N.of_nat (length s' - (0 + 1 + w)) <? size); [npc_eq|].
  rewrite F2'.
  destruct (length (slice (0 + 1 + w) (0 + 1 + w + N.to_nat size) s') <? N.to_nat size)%nat;
    [npc_eq|].
  destruct (m && (is_sized_value sized_table size || (size <=? ms))); [reflexivity|].
  npc_eq.
Qed.

(* ================================================================================================
   Part 3 — the pc walk of delete_subscript as a function of the unread suffix *)
Lemma core_get_op_ok s o len : core_get_op s = GOk o len ->
  (1 <= len <= length s)%nat /\ exists b r, s = b :: r /\ o = b2n b.
Proof.
  unfold core_get_op. destruct s as [|b r]; [discriminate|].
  unfold OP_PUSHDATA4, OP_PUSHDATA1, OP_PUSHDATA2. cbn [length].
  destruct (b2n b <=? 78).
  - set (w := if b2n b <? 76 then 0%nat else if b2n b =? 76 then 1%nat else if b2n b =? 77 then 2%nat else 4%nat).
    destruct (length r <? w)%nat eqn:E1; [discriminate|].
    set (nSize := if b2n b <? 76 then b2n b else le_decode (firstn w r)).
    destruct (N.of_nat (length r - w) <? nSize) eqn:E2; [discriminate|].
    intros H; injection H as <- <-. split; [lia|]. eauto.
  - intros H; injection H as <- <-. split; [lia|]. eauto.
Qed.

Lemma bridge_npc_pos s : (1 <= fst (bridge_res s))%nat.
Proof.
  unfold bridge_res. destruct (core_get_op s) as [o len|adv] eqn:E; cbn [fst]; [|lia].
  apply core_get_op_ok in E. lia.
Qed.

Fixpoint dws (fuel : nat) (s sub : bytes) : bytes :=
  match fuel with
  | O => []
  | S f =>
    match s with
    | [] => []
    | _ => let npc := fst (bridge_res s) in
           let sec := firstn npc s in
           (if bytes_eqb sec sub then [] else sec) ++ dws f (skipn npc s) sub
    end
  end.

Lemma dws_nil fuel sub : dws fuel [] sub = [].
Proof. destruct fuel; reflexivity. Qed.

Lemma walk_suffix sub fuel : forall script pc, (length script - pc <= fuel)%nat ->
  delete_walk fuel script sub pc = Ret (dws fuel (skipn pc script) sub).
Proof.
  induction fuel as [|f IH]; intros script pc Hf.
  - cbn [delete_walk]. replace (length script <=? pc)%nat with true by lia. reflexivity.
  - cbn [delete_walk]. destruct (length script <=? pc)%nat eqn:E.
    + rewrite skipn_all2 by lia. reflexivity.
    + rewrite get_opcode_shift.
      destruct (skipn pc script) as [|b r] eqn:ES.
      { exfalso. assert (length (skipn pc script) = 0%nat) by (rewrite ES; reflexivity).
        rewrite skipn_length in H. lia. }
      destruct (getop_bridge b r) as [d Hd]. rewrite Hd. cbn [shift_res].
      set (npc := fst (bridge_res (b :: r))).
      assert (Hpos : (1 <= npc)%nat) by apply bridge_npc_pos.
      rewrite IH by lia. cbn [bind].
      rewrite skipn_add, ES.
      assert (Hsec : slice pc (pc + npc) script = firstn npc (b :: r)).
      { unfold slice. rewrite ES. f_equal. lia. }
      rewrite Hsec. cbn [dws]. fold npc.
      destruct (bytes_eqb (firstn npc (b :: r)) sub); reflexivity.
Qed.

Lemma delete_subscript_dws script sub :
  delete_subscript script sub = Ret (dws (length script) script sub).
Proof. unfold delete_subscript. rewrite walk_suffix by lia. reflexivity. Qed.

(* ================================================================================================
   Part 4 — FindAndDelete *)
Lemma is_prefix_app p x : is_prefix p (p ++ x) = true.
Proof. induction p as [|a p IH]; cbn [is_prefix app]; [reflexivity|]. now rewrite byte_eqb_refl, IH. Qed.

Lemma is_prefix_inv p s : is_prefix p s = true -> s = p ++ skipn (length p) s.
Proof.
  revert s; induction p as [|a p IH]; intros s H; [reflexivity|].
  destruct s as [|b s]; cbn [is_prefix] in H; [discriminate|].
  apply andb_true_iff in H. destruct H as [H1 H2]. apply byte_eqb_eq in H1. subst b.
  cbn [length skipn app]. f_equal. now apply IH.
Qed.

(* a complete instruction decodes the same whatever follows it *)
Definition complete_instruction (p : bytes) : Prop := exists o, core_get_op p = GOk o (length p).

Lemma core_get_op_prefix p x o : core_get_op p = GOk o (length p) -> core_get_op (p ++ x) = GOk o (length p).
Proof.
  unfold core_get_op. destruct p as [|b r]; [discriminate|]. cbn [app length].
  unfold OP_PUSHDATA4, OP_PUSHDATA1, OP_PUSHDATA2.
  destruct (b2n b <=? 78); [|auto].
  set (w := if b2n b <? 76 then 0%nat else if b2n b =? 76 then 1%nat else if b2n b =? 77 then 2%nat else 4%nat).
  destruct (length r <? w)%nat eqn:E1; [discriminate|].
  assert (Hf : firstn w (r ++ x) = firstn w r).
  { rewrite firstn_app. replace (w - length r)%nat with 0%nat by lia. cbn [firstn]. apply app_nil_r. }
  rewrite Hf.
  set (nSize := if b2n b <? 76 then b2n b else le_decode (firstn w r)).
  destruct (N.of_nat (length r - w) <? nSize) eqn:E2; [discriminate|].
  intros H; injection H as <- HL.
  rewrite app_length.
  replace (length r + length x <? w)%nat with false by lia.
  replace (N.of_nat (length r + length x - w) <? nSize) with false by lia.
  f_equal. lia.
Qed.

Lemma complete_nonempty p : complete_instruction p -> p <> [].
Proof. intros [o H] ->. discriminate. Qed.

Lemma dws_cons f b r sub : dws (S f) (b :: r) sub =
  (if bytes_eqb (firstn (fst (bridge_res (b :: r))) (b :: r)) sub then [] else firstn (fst (bridge_res (b :: r))) (b :: r))
  ++ dws f (skipn (fst (bridge_res (b :: r))) (b :: r)) sub.
Proof. reflexivity. Qed.

Lemma dws_fuel sub : forall f1 f2 s, (length s <= f1)%nat -> (length s <= f2)%nat -> dws f1 s sub = dws f2 s sub.
Proof.
  induction f1 as [|f1 IH]; intros f2 s H1 H2.
  - destruct s; [|cbn in H1; lia]. now rewrite !dws_nil.
  - destruct s as [|b r]; [now rewrite !dws_nil|].
    destruct f2 as [|f2]; [cbn in H2; lia|].
    cbn [dws]. f_equal. pose proof (bridge_npc_pos (b :: r)).
    apply IH; rewrite skipn_length; cbn [length] in *; lia.
Qed.

Lemma undecodable_tail_length fuel : forall s, (length (undecodable_tail_fuel fuel s) <= length s)%nat.
Proof.
  induction fuel as [|f IH]; intros s; cbn [undecodable_tail_fuel]; [lia|].
  destruct (core_get_op s) as [o len|adv]; [|lia].
  etransitivity; [apply IH|]. rewrite skipn_length. lia.
Qed.

Lemma fad_general pat : complete_instruction pat -> forall fuel s, (length s <= fuel)%nat ->
  exists G, fad_fuel fuel pat s = G ++ undecodable_tail_fuel fuel s
         /\ dws fuel s pat = G ++ dws fuel (undecodable_tail_fuel fuel s) pat.
Proof.
  intros [po Hpat] fuel. induction fuel as [|f IH]; intros s Hlen.
  - destruct s; [|cbn in Hlen; lia]. exists []. split; reflexivity.
  - cbn [fad_fuel undecodable_tail_fuel].
    destruct (is_prefix pat s) eqn:EP.
    + (* an occurrence of the pattern: it is the next instruction *)
      pose proof (is_prefix_inv _ _ EP) as Hs.
      assert (Hop : core_get_op s = GOk po (length pat)).
      { rewrite Hs. now apply core_get_op_prefix. }
      rewrite Hop.
      assert (Hne : s <> []). { intros ->. destruct pat; [discriminate|]. discriminate. }
      assert (Hpl : (1 <= length pat)%nat). { apply core_get_op_ok in Hpat. lia. }
      destruct (IH (skipn (length pat) s)) as [G [HG1 HG2]]; [rewrite skipn_length; destruct s; [congruence|cbn [length] in *; lia]|].
      exists G. split; [exact HG1|].
      destruct s as [|b r]; [congruence|]. rewrite dws_cons.
      unfold bridge_res. rewrite Hop. cbn [fst].
      assert (Hsec : firstn (length pat) (b :: r) = pat).
      { rewrite Hs at 1. apply firstn_app_exact. }
      rewrite Hsec, bytes_eqb_refl. cbn [app]. rewrite HG2. f_equal.
      apply dws_fuel.
      * etransitivity; [apply undecodable_tail_length|]. rewrite skipn_length. cbn [length] in *. lia.
      * etransitivity; [apply undecodable_tail_length|]. rewrite skipn_length. cbn [length] in *. lia.
    + destruct (core_get_op s) as [o len|adv] eqn:Hop.
      * pose proof (core_get_op_ok _ _ _ Hop) as [Hl [b [r [Hs _]]]].
        destruct (IH (skipn len s)) as [G [HG1 HG2]]; [rewrite skipn_length; lia|].
        exists (firstn len s ++ G). split; [now rewrite HG1, app_assoc|].
        subst s. rewrite dws_cons. unfold bridge_res. rewrite Hop. cbn [fst].
        destruct (bytes_eqb (firstn len (b :: r)) pat) eqn:EQ.
        { exfalso. apply bytes_eqb_eq in EQ.
          rewrite <- (firstn_skipn len (b :: r)), EQ, is_prefix_app in EP. discriminate. }
        rewrite <- app_assoc. f_equal. rewrite HG2. f_equal.
        apply dws_fuel.
        -- etransitivity; [apply undecodable_tail_length|]. rewrite skipn_length. cbn [length] in *. lia.
        -- etransitivity; [apply undecodable_tail_length|]. rewrite skipn_length. cbn [length] in *. lia.
      * exists []. split; reflexivity.
Qed.

(* the exact relation, for every script and every pattern that is one complete instruction *)
Lemma find_and_delete_general pat s : complete_instruction pat ->
  exists G w, core_find_and_delete pat s = G ++ undecodable_tail s
           /\ delete_subscript (undecodable_tail s) pat = Ret w
           /\ delete_subscript s pat = Ret (G ++ w).
Proof.
  intros Hc. destruct (fad_general pat Hc (length s) s (le_n _)) as [G [H1 H2]].
  exists G, (dws (length (undecodable_tail s)) (undecodable_tail s) pat).
  unfold core_find_and_delete, undecodable_tail in *.
  destruct pat as [|p0 pr]; [exfalso; now apply (complete_nonempty [] Hc)|].
  split; [exact H1|]. split; [apply delete_subscript_dws|].
  rewrite delete_subscript_dws, H2. f_equal. f_equal.
  apply dws_fuel; [apply undecodable_tail_length | lia].
Qed.

Lemma find_and_delete_iff pat s : complete_instruction pat ->
  (delete_subscript s pat = Ret (core_find_and_delete pat s) <-> rewalk_excluded pat s = false).
Proof.
  intros Hc. destruct (find_and_delete_general pat s Hc) as [G [w [H1 [H2 H3]]]].
  unfold rewalk_excluded. rewrite H2, H3, H1. split.
  - intros H. injection H as H. apply app_inv_head in H. subst w. now rewrite bytes_eqb_refl.
  - intros H. destruct (bytes_eqb w (undecodable_tail s)) eqn:E; [|discriminate].
    apply bytes_eqb_eq in E. now subst w.
Qed.

(* decodable scripts have no tail *)
Lemma decodable_tail_nil fuel : forall s, decodable_fuel fuel s = true -> undecodable_tail_fuel fuel s = [].
Proof.
  induction fuel as [|f IH]; intros s H.
  - destruct s; [reflexivity|discriminate].
  - cbn [undecodable_tail_fuel]. destruct s as [|b r]; [reflexivity|].
    cbn [decodable_fuel] in H. destruct (core_get_op (b :: r)) as [o len|adv]; [|discriminate].
    now apply IH.
Qed.

Lemma find_and_delete_decodable pat s : complete_instruction pat -> core_decodable s = true ->
  delete_subscript s pat = Ret (core_find_and_delete pat s).
Proof.
  intros Hc Hd. apply find_and_delete_iff; [exact Hc|].
  unfold rewalk_excluded, undecodable_tail. rewrite (decodable_tail_nil _ _ Hd).
  reflexivity.
Qed.

(* ================================================================================================
   Part 5 — the pattern removed for a signature: pycoin's minimal push vs Core's CScript() << sig *)
Lemma n2b_small_consts : n2b 0 = x00 /\ n2b 1 = x01 /\ n2b OP_PUSHDATA1 = x4c /\ n2b OP_PUSHDATA2 = x4d /\ n2b OP_PUSHDATA4 = x4e.
Proof. repeat split; reflexivity. Qed.

Lemma spec_push_core_push d : N.of_nat (length d) < 2 ^ 32 -> sig_pattern_excluded d = false ->
  spec_push d = core_push d.
Proof.
  intros Hlen Hex. unfold core_push. destruct n2b_small_consts as (E0 & E1 & E76 & E77 & E78).
  destruct d as [|b [|b2 r]].
  - reflexivity.
  - cbn [sig_pattern_excluded] in Hex. unfold spec_push.
    change (N.of_nat (length [b])) with 1. change (1 <? OP_PUSHDATA1) with true. cbv iota. rewrite E1.
    apply orb_false_iff in Hex. destruct Hex as [H1 H2]. rewrite H1, H2. reflexivity.
  - unfold spec_push. set (d := b :: b2 :: r) in *. set (n := N.of_nat (length d)) in *.
    unfold OP_PUSHDATA1 at 1. rewrite E76, E77, E78.
    destruct (n <=? 75) eqn:A.
    + replace (n <? 76) with true by lia. reflexivity.
    + replace (n <? 76) with false by lia. reflexivity.
Qed.

Lemma firstn_app_le {A} (a b : list A) n : n = length a -> firstn n (a ++ b) = a.
Proof. intros ->. apply firstn_app_exact. Qed.

Lemma core_push_complete d : N.of_nat (length d) < 2 ^ 32 -> complete_instruction (core_push d).
Proof.
  intros Hlen. change (2 ^ 32) with 4294967296 in Hlen.
  unfold core_push, complete_instruction, OP_PUSHDATA1, OP_PUSHDATA2, OP_PUSHDATA4.
  set (n := N.of_nat (length d)) in *.
  assert (Hvar : forall o w, (o = 76 /\ w = 1%nat) \/ (o = 77 /\ w = 2%nat) \/ (o = 78 /\ w = 4%nat) ->
            n < 256 ^ N.of_nat w ->
            core_get_op (n2b o :: le_encode w n ++ d) = GOk o (length (n2b o :: le_encode w n ++ d))).
  { intros o w Ho Hn. unfold core_get_op, OP_PUSHDATA1, OP_PUSHDATA2, OP_PUSHDATA4.
    assert (Hob : b2n (n2b o) = o) by (apply b2n_n2b; lia). rewrite Hob.
    replace (o <=? 78) with true by lia. replace (o <? 76) with false by lia.
    assert (Hw : (if o =? 76 then 1%nat else if o =? 77 then 2%nat else 4%nat) = w).
    { destruct Ho as [[-> ->]|[[-> ->]|[-> ->]]]; reflexivity. }
    rewrite Hw. rewrite app_length, le_encode_length.
    replace (w + length d <? w)%nat with false by lia.
    rewrite (firstn_app_le (le_encode w n) d w) by (now rewrite le_encode_length).
    rewrite le_decode_encode by exact Hn.
    replace (N.of_nat (w + length d - w) <? n) with false by (unfold n; lia).
    cbn [length]. rewrite app_length, le_encode_length. f_equal. unfold n. lia. }
  destruct (n <? 76) eqn:A.
  - exists n. unfold core_get_op, OP_PUSHDATA1, OP_PUSHDATA2, OP_PUSHDATA4.
    rewrite b2n_n2b by lia. replace (n <=? 78) with true by lia. rewrite A.
    rewrite (proj2 (Nat.ltb_ge (length d) 0)) by lia. rewrite Nat.sub_0_r.
    replace (N.of_nat (length d) <? n) with false by (unfold n; lia).
    cbn [length]. f_equal. unfold n. lia.
  - destruct (n <=? 255) eqn:B; [|destruct (n <=? 65535) eqn:C].
    + exists 76. apply Hvar; [auto|]. change (256 ^ N.of_nat 1) with 256. lia.
    + exists 77. apply Hvar; [auto|]. change (256 ^ N.of_nat 2) with 65536. lia.
    + exists 78. apply Hvar; [auto|]. change (256 ^ N.of_nat 4) with 4294967296. lia.
Qed.

Lemma spec_push_complete d : N.of_nat (length d) < 2 ^ 32 -> complete_instruction (spec_push d).
Proof.
  intros Hlen. destruct (sig_pattern_excluded d) eqn:E.
  - destruct d as [|b [|b2 r]]; try discriminate. cbn [sig_pattern_excluded] in E.
    unfold spec_push. pose proof (b2n_lt b) as Hb.
    destruct ((1 <=? b2n b) && (b2n b <=? 16)) eqn:A.
    + exists (80 + b2n b). unfold core_get_op, OP_PUSHDATA4. rewrite b2n_n2b by lia.
      replace (80 + b2n b <=? 78) with false by lia. reflexivity.
    + cbn [orb] in E. rewrite E. exists 79. reflexivity.
  - rewrite spec_push_core_push by assumption. now apply core_push_complete.
Qed.

Lemma codesep_complete : complete_instruction [n2b OP_CODESEPARATOR].
Proof. exists OP_CODESEPARATOR. reflexivity. Qed.

(* _delete_signature *)
Lemma delete_signature_general script sig : N.of_nat (length sig) < 2 ^ 32 ->
  exists G w, core_find_and_delete (spec_push sig) script = G ++ undecodable_tail script
           /\ delete_subscript (undecodable_tail script) (spec_push sig) = Ret w
           /\ delete_signature script sig = Ret (G ++ w).
Proof.
  intros Hlen. unfold delete_signature. rewrite push_is_spec by exact Hlen. cbn [bind].
  apply find_and_delete_general. now apply spec_push_complete.
Qed.

Lemma delete_signature_iff script sig : N.of_nat (length sig) < 2 ^ 32 -> sig_pattern_excluded sig = false ->
  (delete_signature script sig = Ret (core_find_and_delete (core_push sig) script)
   <-> rewalk_excluded (core_push sig) script = false).
Proof.
  intros Hlen Hex. unfold delete_signature. rewrite push_is_spec by exact Hlen. cbn [bind].
  rewrite spec_push_core_push by assumption.
  apply find_and_delete_iff. now apply core_push_complete.
Qed.

Lemma delete_signature_decodable script sig : N.of_nat (length sig) < 2 ^ 32 ->
  sig_pattern_excluded sig = false -> core_decodable script = true ->
  delete_signature script sig = Ret (core_find_and_delete (core_push sig) script).
Proof.
  intros Hlen Hex Hd. unfold delete_signature. rewrite push_is_spec by exact Hlen. cbn [bind].
  rewrite spec_push_core_push by assumption.
  apply find_and_delete_decodable; [now apply core_push_complete | exact Hd].
Qed.

(* the patterns differ only for a one-byte blob: hash-type byte alone, empty DER part — never a valid signature *)
Lemma pattern_differs_only_when_sig_unparseable sig :
  sig_pattern_excluded sig = true -> length sig = 1%nat /\ removelast sig = [].
Proof. destruct sig as [|b [|b2 r]]; try discriminate. intros _. split; reflexivity. Qed.

(* ================================================================================================
   Part 6 — serialization: the outcome-valued streamers succeed on in-range fields and write Core's bytes *)
Definition txin_wf (i : txin) : Prop :=
  length (ti_hash i) = 32%nat /\ ti_index i < 2 ^ 32 /\ ti_seq i < 2 ^ 32.
Definition txout_wf (o : txout) : Prop :=
  to_value o < 2 ^ 64 /\ N.of_nat (length (to_script o)) < 2 ^ 64.
Definition tx_wf (t : tx) : Prop :=
  tx_version t < 2 ^ 32 /\ tx_lock t < 2 ^ 32 /\ Forall txin_wf (tx_ins t) /\ Forall txout_wf (tx_outs t)
  /\ N.of_nat (length (tx_ins t)) < 2 ^ 64 /\ N.of_nat (length (tx_outs t)) < 2 ^ 64.

Lemma write_le4 v : v < 2 ^ 32 -> write_le 4 v = Ret (le32 v).
Proof.
  intros H. unfold write_le. change (256 ^ N.of_nat 4) with 4294967296. change (2 ^ 32) with 4294967296 in H.
  replace (v <? 4294967296) with true by lia. reflexivity.
Qed.
Lemma write_le8 v : v < 2 ^ 64 -> write_le 8 v = Ret (le64 v).
Proof.
  intros H. unfold write_le. change (256 ^ N.of_nat 8) with 18446744073709551616.
  change (2 ^ 64) with 18446744073709551616 in H.
  replace (v <? 18446744073709551616) with true by lia. reflexivity.
Qed.

Lemma stream_varint_compact v : v < 2 ^ 64 -> stream_varint v = Ret (compact_size v).
Proof.
  intros H. unfold stream_varint, compact_size. rewrite (proj2 (N.ltb_lt _ _) H).
  destruct (v <? 253); [reflexivity|]. destruct (v <=? 65535); [reflexivity|].
  destruct (v <=? 4294967295); reflexivity.
Qed.

Lemma stream_varstr_ser s : N.of_nat (length s) < 2 ^ 64 -> stream_varstr s = Ret (ser_script s).
Proof. intros H. unfold stream_varstr, ser_script. now rewrite stream_varint_compact. Qed.

Lemma stream_all_pure {A} (f : A -> outcome bytes) (g : A -> bytes) l :
  Forall (fun x => f x = Ret (g x)) l -> stream_all f l = Ret (flat_map g l).
Proof.
  induction 1 as [|x l Hx Hl IH]; [reflexivity|]. cbn [stream_all flat_map]. now rewrite Hx, IH.
Qed.

Lemma stream_txout_ser o : txout_wf o -> stream_txout o = Ret (ser_txout (to_core_out o)).
Proof.
  intros [Hv Hs]. unfold stream_txout, ser_txout, to_core_out. cbn [out_nValue out_scriptPubKey].
  now rewrite write_le8, stream_varstr_ser.
Qed.

Definition ser_txin_pure (i : txin) : bytes :=
  ti_hash i ++ le32 (ti_index i) ++ ser_script (ti_script i) ++ le32 (ti_seq i).
Lemma stream_txin_ser i : txin_wf i -> N.of_nat (length (ti_script i)) < 2 ^ 64 ->
  stream_txin i = Ret (ser_txin_pure i).
Proof.
  intros (Hh & Hi & Hq) Hs. unfold stream_txin, ser_txin_pure.
  rewrite write_le4, stream_varstr_ser, write_le4 by assumption. cbn [bind].
  rewrite firstn_all2 by lia. reflexivity.
Qed.

(* ---- list plumbing ------------------------------------------------------------------------------ *)
Lemma enumerate_map {A B} (g : nat * A -> B) (l : list A) k :
  enumerate_from k (map g (enumerate_from k l)) = map (fun p => (fst p, g p)) (enumerate_from k l).
Proof.
  revert k; induction l as [|x l IH]; intros k; [reflexivity|].
  cbn [enumerate_from map fst]. f_equal. apply IH.
Qed.

Lemma flat_map_enumerate_seq {A} (F : nat * A -> bytes) (H : nat -> bytes) (l : list A) k :
  (forall j x, nth_error l j = Some x -> F ((k + j)%nat, x) = H (k + j)%nat) ->
  flat_map F (enumerate_from k l) = flat_map H (seq k (length l)).
Proof.
  revert k; induction l as [|x l IH]; intros k Hyp; [reflexivity|].
  cbn [enumerate_from flat_map length seq]. f_equal.
  - specialize (Hyp 0%nat x eq_refl). now rewrite Nat.add_0_r in Hyp.
  - apply IH. intros j y Hj. specialize (Hyp (S j) y Hj). now rewrite Nat.add_succ_r in Hyp.
Qed.

Lemma flat_map_ext_in' {A B} (f g : A -> list B) l :
  (forall a, In a l -> f a = g a) -> flat_map f l = flat_map g l.
Proof.
  induction l as [|x l IH]; intros H; [reflexivity|]. cbn [flat_map].
  rewrite (H x) by now left. f_equal. apply IH. intros a Ha. apply H. now right.
Qed.

Lemma flat_map_seq_nth {A} (f : A -> bytes) (l : list A) d :
  flat_map (fun i => f (nth i l d)) (seq 0 (length l)) = flat_map f l.
Proof.
  assert (G : forall k, flat_map (fun i => f (nth (i - k) l d)) (seq k (length l)) = flat_map f l).
  { induction l as [|x l IH]; intros k; [reflexivity|].
    cbn [length seq flat_map]. rewrite Nat.sub_diag. cbn [nth]. f_equal.
    rewrite <- (IH (S k)). apply flat_map_ext_in'. intros i Hi. apply in_seq in Hi.
    replace (i - k)%nat with (S (i - S k)) by lia. reflexivity. }
  rewrite <- (G 0%nat). apply flat_map_ext. intros i. now rewrite Nat.sub_0_r.
Qed.

Lemma nth_map_some {A B} (f : A -> B) l j x d : nth_error l j = Some x -> nth j (map f l) d = f x.
Proof.
  intros H. apply nth_error_nth. rewrite nth_error_map, H. reflexivity.
Qed.

Lemma flat_map_repeat {A} (f : A -> bytes) x n (g : nat -> bytes) k :
  (forall i, (k <= i < k + n)%nat -> g i = f x) ->
  flat_map f (repeat x n) = flat_map g (seq k n).
Proof.
  revert k; induction n as [|n IH]; intros k Hyp; [reflexivity|].
  cbn [repeat seq flat_map]. rewrite (Hyp k) by lia. f_equal. apply IH. intros i Hi. apply Hyp. lia.
Qed.

(* ---- SerializeScriptCode on a decodable script = length-prefixed FindAndDelete(OP_CODESEPARATOR) ---- *)
Lemma is_prefix_codesep s : is_prefix [n2b OP_CODESEPARATOR] s = true <-> exists r, s = xab :: r.
Proof.
  change (n2b OP_CODESEPARATOR) with xab. destruct s as [|b r]; cbn [is_prefix].
  - split; [discriminate|intros [r H]; discriminate].
  - rewrite andb_true_r, byte_eqb_eq. split; [intros <-; eauto|intros [r' H]; now injection H].
Qed.

Lemma segments_fad fuel : forall s, (length s <= fuel)%nat -> decodable_fuel fuel s = true ->
  write_segments fuel s = fad_fuel fuel [n2b OP_CODESEPARATOR] s
  /\ (length (write_segments fuel s) + count_codeseps fuel s = length s)%nat.
Proof.
  induction fuel as [|f IH]; intros s Hlen Hd.
  - destruct s; [split; reflexivity|cbn in Hlen; lia].
  - destruct s as [|b r].
    + cbn [write_segments count_codeseps fad_fuel]. cbn. split; reflexivity.
    + cbn [decodable_fuel] in Hd. cbn [write_segments count_codeseps fad_fuel].
      destruct (core_get_op (b :: r)) as [o len|adv] eqn:Hop; [|discriminate].
      pose proof (core_get_op_ok _ _ _ Hop) as [Hl [b' [r' [Hs Ho]]]]. injection Hs as <- <-.
      destruct (IH (skipn len (b :: r))) as [I1 I2]; [rewrite skipn_length; cbn [length] in *; lia|exact Hd|].
      destruct (is_prefix [n2b OP_CODESEPARATOR] (b :: r)) eqn:EP.
      * apply is_prefix_codesep in EP. destruct EP as [r0 E]. injection E as -> ->.
        change (b2n xab) with 171 in Ho. subst o.
        assert (len = 1%nat).
        { unfold core_get_op in Hop. change (b2n xab <=? OP_PUSHDATA4) with false in Hop.
          cbv iota in Hop. now injection Hop. }
        subst len. change (171 =? OP_CODESEPARATOR) with true. cbv iota.
        change (length [n2b OP_CODESEPARATOR]) with 1%nat. split; [exact I1|].
        cbn [skipn length] in *. lia.
      * assert (Hne : (o =? OP_CODESEPARATOR) = false).
        { apply N.eqb_neq. intros E. subst o. unfold OP_CODESEPARATOR in E.
          assert (b = xab) by (apply b2n_inj; rewrite E; reflexivity). subst b.
          assert (is_prefix [n2b OP_CODESEPARATOR] (xab :: r) = true) by (apply is_prefix_codesep; eauto).
          congruence. }
        rewrite Hne. split; [now rewrite I1|].
        rewrite app_length, firstn_length. rewrite skipn_length in I2. cbn [length] in *. lia.
Qed.

Lemma ser_script_code_decodable s : core_decodable s = true ->
  ser_script_code s = ser_script (core_find_and_delete [n2b OP_CODESEPARATOR] s).
Proof.
  intros Hd. destruct (segments_fad (length s) s (le_n _) Hd) as [H1 H2].
  unfold ser_script_code, ser_script, core_find_and_delete. rewrite <- H1.
  do 2 f_equal. lia.
Qed.

Lemma dws_length sub fuel : forall s, (length (dws fuel s sub) <= length s)%nat.
Proof.
  induction fuel as [|f IH]; intros s; [cbn; lia|].
  destruct s as [|b r]; [cbn; lia|]. rewrite dws_cons, app_length.
  specialize (IH (skipn (fst (bridge_res (b :: r))) (b :: r))). rewrite skipn_length in IH.
  assert (length (if bytes_eqb (firstn (fst (bridge_res (b :: r))) (b :: r)) sub then []
                  else firstn (fst (bridge_res (b :: r))) (b :: r)) <= Nat.min (fst (bridge_res (b :: r))) (length (b :: r)))%nat.
  { destruct (bytes_eqb _ _); [cbn; lia|]. rewrite firstn_length. lia. }
  lia.
Qed.
