(* Proofs/SighashP.v — lemmas relating Model/Sighash.v (pycoin) to Spec/SighashCore.v (Core / BIP143). *)
From PV Require Import Base.Bytes Base.Outcome Base.Varint Gen.GenOpcodes Gen.GenSighashC04
  Model.Push Proofs.PushP Model.Sighash Spec.SighashCore Model.SighashBridge.
From Coq Require Import ZifyBool ZifyNat ZifyN.
Local Open Scope N_scope.

(* ================================================================================================
   Part 0 — the regenerated constants are the consensus ones (a changed literal in /repo breaks here) *)
Lemma g_none : gen_sighash_none = SIGHASH_NONE. Proof. reflexivity. Qed.
Lemma g_single : gen_sighash_single = SIGHASH_SINGLE. Proof. reflexivity. Qed.
Lemma g_forkid : gen_sighash_forkid = SIGHASH_FORKID. Proof. reflexivity. Qed.
Lemma g_acp : gen_sighash_anyonecanpay = SIGHASH_ANYONECANPAY. Proof. reflexivity. Qed.
Lemma g_forkid_btg : N.shiftl gen_forkid_btg gen_forkid_shift = N.shiftl FORKID_BTG 8. Proof. reflexivity. Qed.
Lemma g_legacy_masks : gen_legacy_mask_none = 31 /\ gen_legacy_mask_single = 31. Proof. split; reflexivity. Qed.
Lemma g_single_value : N.shiftl gen_single_value_base gen_single_value_shift = 2 ^ 248. Proof. vm_compute. reflexivity. Qed.
Lemma g_blank : gen_blank_amount = 2 ^ 64 - 1. Proof. vm_compute. reflexivity. Qed.
Lemma g_sw_masks : gen_sw_seq_mask_single = 31 /\ gen_sw_seq_mask_none = 31 /\ gen_sw_out_mask_single = 31 /\ gen_sw_out_mask_none = 31.
Proof. repeat split; reflexivity. Qed.
Lemma g_grs_masks : gen_grs_seq_mask_single = 31 /\ gen_grs_seq_mask_none = 31 /\ gen_grs_out_mask_single = 31 /\ gen_grs_out_mask_none = 31.
Proof. repeat split; reflexivity. Qed.
Lemma g_codesep : gen_codeseparator = [n2b OP_CODESEPARATOR]. Proof. vm_compute. reflexivity. Qed.
Lemma g_zero32 : gen_zero32 = zero32. Proof. vm_compute. reflexivity. Qed.

(* ================================================================================================
   Part 1 — pycoin's instruction decoder (C12 model, generated tables) vs Core's GetScriptOp *)
Definition op_class_ok (b : byte) : bool :=
  let o := b2n b in
  match const_by_opcode const_table o, sized_by_opcode sized_table o, var_by_opcode variable_table o with
  | Some _, _, _ => (o =? 0) || (78 <? o)
  | None, Some sz, _ => (sz =? o) && (1 <=? o) && (o <=? 75)
  | None, None, Some (w, _) =>
    ((o =? 76) && (w =? 1)%nat) || ((o =? 77) && (w =? 2)%nat) || ((o =? 78) && (w =? 4)%nat)
  | None, None, None => 78 <? o
  end.
Lemma op_class_all b : op_class_ok b = true.
Proof. destruct b; vm_compute; reflexivity. Qed.

(* new_pc and is_ok that pycoin reports, read off Core's result: on failure pycoin's new_pc is one more
   than the number of bytes Core's iterator had consumed *)
Definition bridge_res (s : bytes) : nat * bool :=
  match core_get_op s with GOk _ len => (len, true) | GFail adv => (S adv, false) end.

Lemma slice_len1 {A} (x : A) (r : list A) n : length (slice 1 (1 + n) (x :: r)) = Nat.min n (length r).
Proof. rewrite slice_length. cbn [length]. f_equal; lia. Qed.

Lemma slice_1_firstn {A} (x : A) (r : list A) n : slice 1 (1 + n) (x :: r) = firstn n r.
Proof. unfold slice. replace (1 + n - 1)%nat with n by lia. reflexivity. Qed.

Lemma getop_bridge b r : exists d,
  btc_get_opcode (b :: r) 0 false
  = Ret (b2n b, d, fst (bridge_res (b :: r)), snd (bridge_res (b :: r))).
Proof.
  pose proof (op_class_all b) as K. unfold op_class_ok in K.
  unfold btc_get_opcode, get_opcode, bridge_res, core_get_op.
  unfold OP_PUSHDATA4, OP_PUSHDATA1, OP_PUSHDATA2.
  cbn [nth_error]. set (o := b2n b) in *.
  destruct (const_by_opcode const_table o) as [d|] eqn:EC.
  { exists (Some d). destruct (o =? 0) eqn:E0.
    - assert (o = 0) by lia. rewrite H.
      replace (0 <=? 78) with true by reflexivity. replace (0 <? 76) with true by reflexivity.
      rewrite (proj2 (Nat.ltb_ge (length r) 0)) by lia. rewrite Nat.sub_0_r.
      replace (N.of_nat (length r) <? 0) with false by lia. reflexivity.
    - replace (o <=? 78) with false by lia. reflexivity. }
  destruct (sized_by_opcode sized_table o) as [sz|] eqn:ES.
  { assert (sz = o /\ 1 <= o <= 75) as [-> Ho] by lia.
    replace (o <=? 78) with true by lia. replace (o <? 76) with true by lia.
    rewrite (proj2 (Nat.ltb_ge (length r) 0)) by lia. rewrite Nat.sub_0_r.
    change (0 + 1)%nat with 1%nat. rewrite slice_len1.
    destruct (N.of_nat (length r) <? o) eqn:EL.
    - replace (Nat.min (N.to_nat o) (length r) <? N.to_nat o)%nat with true by lia.
      eexists. reflexivity.
    - replace (Nat.min (N.to_nat o) (length r) <? N.to_nat o)%nat with false by lia.
      cbn [andb]. eexists. reflexivity. }
  destruct (var_by_opcode variable_table o) as [[w ms]|] eqn:EV.
  { assert (Hw : (o = 76 /\ w = 1%nat) \/ (o = 77 /\ w = 2%nat) \/ (o = 78 /\ w = 4%nat)) by lia.
    assert (Hww : (if o <? 76 then 0%nat else if o =? 76 then 1%nat else if o =? 77 then 2%nat else 4%nat) = w).
    { destruct Hw as [[-> ->]|[[-> ->]|[-> ->]]]; reflexivity. }
    rewrite Hww.
    replace (o <=? 78) with true by lia. replace (o <? 76) with false by lia.
    change (0 + 1)%nat with 1%nat. rewrite slice_len1, slice_1_firstn.
    destruct (length r <? w)%nat eqn:EL.
    - replace (Nat.min w (length r) <? w)%nat with true by lia. eexists. cbn [fst snd]. repeat f_equal; lia.
    - replace (Nat.min w (length r) <? w)%nat with false by lia.
      cbn [length]. replace (S (length r) - (1 + w))%nat with (length r - w)%nat by lia.
      destruct (N.of_nat (length r - w) <? le_decode (firstn w r)) eqn:ED.
      + eexists. cbn [fst snd]. repeat f_equal; lia.
      + rewrite slice_length. cbn [length].
        match goal with |- context [(?a <? ?b)%nat] => replace (a <? b)%nat with false by lia end.
        cbn [andb]. eexists. cbn [fst snd]. repeat f_equal; lia. }
  exists None. replace (o <=? 78) with false by lia. reflexivity.
Qed.

(* ================================================================================================
   Part 2 — decoding at pc = decoding the suffix at 0 *)
Definition shift_res (k : nat) (r : outcome (N * option bytes * nat * bool)) :=
  match r with
  | Ret (o, d, npc, ok) => Ret (o, d, (k + npc)%nat, ok)
  | Raise e => Raise e
  | OutOfFuel => OutOfFuel
  end.

Lemma skipn_add {A} (a b : nat) (l : list A) : skipn (a + b) l = skipn b (skipn a l).
Proof.
  revert l; induction a as [|a IH]; intros l; [reflexivity|].
  destruct l as [|x l]; cbn [Nat.add skipn]; [now destruct b | apply IH].
Qed.

Lemma nth_error_skipn0 {A} (l : list A) pc : nth_error l pc = nth_error (skipn pc l) 0.
Proof.
  revert l; induction pc as [|pc IH]; intros [|x l]; try reflexivity.
  cbn [skipn nth_error]. apply IH.
Qed.

Lemma slice_shift {A} (l : list A) pc a n :
  slice (pc + a) (pc + a + n) l = slice (0 + a) (0 + a + n) (skipn pc l).
Proof.
  unfold slice. rewrite skipn_add. cbn [Nat.add]. f_equal. lia.
Qed.

Ltac npc_eq := cbn [shift_res];
  match goal with |- Ret (_, _, ?c, _) = Ret (_, _, ?c', _) => replace c with c' by lia; reflexivity end.

Lemma get_opcode_shift script pc m :
  btc_get_opcode script pc m = shift_res pc (btc_get_opcode (skipn pc script) 0 m).
Proof.
  unfold btc_get_opcode, get_opcode.
  set (s' := skipn pc script).
  assert (F1 : nth_error script pc = nth_error s' 0) by apply nth_error_skipn0.
  assert (F2 : forall a n, slice (pc + a) (pc + a + n) script = slice (0 + a) (0 + a + n) s')
    by (intros; apply slice_shift).
  assert (F2' : forall a b n, slice (pc + a + b) (pc + a + b + n) script = slice (0 + a + b) (0 + a + b + n) s').
  { intros. pose proof (F2 (a + b)%nat n) as Q. rewrite !Nat.add_assoc in Q. exact Q. }
  assert (F3 : forall a b, (length script - (pc + a + b) = length s' - (0 + a + b))%nat).
  { intros. unfold s'. rewrite skipn_length. lia. }
  rewrite F1. destruct (nth_error s' 0) as [ob|]; [|reflexivity].
  destruct (const_by_opcode const_table (b2n ob)) as [d|]; [npc_eq|].
  destruct (sized_by_opcode sized_table (b2n ob)) as [size|].
  { rewrite F2.
    destruct (length (slice (0 + 1) (0 + 1 + N.to_nat size) s') <? N.to_nat size)%nat;
      [npc_eq|].
    destruct (m && is_const_value const_table (slice (0 + 1) (0 + 1 + N.to_nat size) s')); [reflexivity|].
    npc_eq. }
  destruct (var_by_opcode variable_table (b2n ob)) as [[w ms]|]; [|npc_eq].
  rewrite F2.
  destruct (length (slice (0 + 1) (0 + 1 + w) s') <? w)%nat; [npc_eq|].
  rewrite F3.
  set (size := le_decode (slice (0 + 1) (0 + 1 + w) s')).
  destruct (N.of_nat (length s' - (0 + 1 + w)) <? size); [npc_eq|].
  rewrite F2'.
  destruct (length (slice (0 + 1 + w) (0 + 1 + w + N.to_nat size) s') <? N.to_nat size)%nat;
    [npc_eq|].
  destruct (m && (is_sized_value sized_table size || (size <=? ms))); [reflexivity|].
  npc_eq.
Qed.

(* ================================================================================================
   Part 3 — the pc walk of delete_subscript as a function of the unread suffix *)
Lemma core_get_op_ok s o len : core_get_op s = GOk o len ->
  (1 <= len <= length s)%nat /\ exists b r, s = b :: r /\ o = b2n b.
Proof.
  unfold core_get_op. destruct s as [|b r]; [discriminate|].
  unfold OP_PUSHDATA4, OP_PUSHDATA1, OP_PUSHDATA2. cbn [length].
  destruct (b2n b <=? 78).
  - set (w := if b2n b <? 76 then 0%nat else if b2n b =? 76 then 1%nat else if b2n b =? 77 then 2%nat else 4%nat).
    destruct (length r <? w)%nat eqn:E1; [discriminate|].
    set (nSize := if b2n b <? 76 then b2n b else le_decode (firstn w r)).
    destruct (N.of_nat (length r - w) <? nSize) eqn:E2; [discriminate|].
    intros H; injection H as <- <-. split; [lia|]. eauto.
  - intros H; injection H as <- <-. split; [lia|]. eauto.
Qed.

Lemma bridge_npc_pos s : (1 <= fst (bridge_res s))%nat.
Proof.
  unfold bridge_res. destruct (core_get_op s) as [o len|adv] eqn:E; cbn [fst]; [|lia].
  apply core_get_op_ok in E. lia.
Qed.

Fixpoint dws (fuel : nat) (s sub : bytes) : bytes :=
  match fuel with
  | O => []
  | S f =>
    match s with
    | [] => []
    | _ => if snd (bridge_res s) then
             let npc := fst (bridge_res s) in
             let sec := firstn npc s in
             (if bytes_eqb sec sub then [] else sec) ++ dws f (skipn npc s) sub
           else s
    end
  end.

Lemma dws_nil fuel sub : dws fuel [] sub = [].
Proof. destruct fuel; reflexivity. Qed.

Lemma dws_cons f b r sub : dws (S f) (b :: r) sub =
  if snd (bridge_res (b :: r)) then
    (if bytes_eqb (firstn (fst (bridge_res (b :: r))) (b :: r)) sub then [] else firstn (fst (bridge_res (b :: r))) (b :: r))
    ++ dws f (skipn (fst (bridge_res (b :: r))) (b :: r)) sub
  else b :: r.
Proof. reflexivity. Qed.

Lemma walk_suffix sub fuel : forall script pc, (length script - pc <= fuel)%nat ->
  delete_walk fuel script sub pc = Ret (dws fuel (skipn pc script) sub).
Proof.
  induction fuel as [|f IH]; intros script pc Hf.
  - cbn [delete_walk]. replace (length script <=? pc)%nat with true by lia. reflexivity.
  - cbn [delete_walk]. destruct (length script <=? pc)%nat eqn:E.
    + rewrite skipn_all2 by lia. reflexivity.
    + rewrite get_opcode_shift.
      destruct (skipn pc script) as [|b r] eqn:ES.
      { exfalso. assert (length (skipn pc script) = 0%nat) by (rewrite ES; reflexivity).
        rewrite skipn_length in H. lia. }
      destruct (getop_bridge b r) as [d Hd]. rewrite Hd. cbn [shift_res].
      rewrite dws_cons.
      destruct (snd (bridge_res (b :: r))); [|reflexivity].
      set (npc := fst (bridge_res (b :: r))).
      assert (Hpos : (1 <= npc)%nat) by apply bridge_npc_pos.
      rewrite IH by lia. cbn [bind].
      rewrite skipn_add, ES.
      assert (Hsec : slice pc (pc + npc) script = firstn npc (b :: r)).
      { unfold slice. rewrite ES. f_equal. lia. }
      rewrite Hsec.
      destruct (bytes_eqb (firstn npc (b :: r)) sub); reflexivity.
Qed.

Lemma delete_subscript_dws script sub :
  delete_subscript script sub = Ret (dws (length script) script sub).
Proof. unfold delete_subscript. rewrite walk_suffix by lia. reflexivity. Qed.

(* ================================================================================================
   Part 4 — FindAndDelete *)
Lemma is_prefix_app p x : is_prefix p (p ++ x) = true.
Proof. induction p as [|a p IH]; cbn [is_prefix app]; [reflexivity|]. now rewrite byte_eqb_refl, IH. Qed.

Lemma is_prefix_inv p s : is_prefix p s = true -> s = p ++ skipn (length p) s.
Proof.
  revert s; induction p as [|a p IH]; intros s H; [reflexivity|].
  destruct s as [|b s]; cbn [is_prefix] in H; [discriminate|].
  apply andb_true_iff in H. destruct H as [H1 H2]. apply byte_eqb_eq in H1. subst b.
  cbn [length skipn app]. f_equal. now apply IH.
Qed.

(* a complete instruction decodes the same whatever follows it *)
Definition complete_instruction (p : bytes) : Prop := exists o, core_get_op p = GOk o (length p).

Lemma core_get_op_prefix p x o : core_get_op p = GOk o (length p) -> core_get_op (p ++ x) = GOk o (length p).
Proof.
  unfold core_get_op. destruct p as [|b r]; [discriminate|]. cbn [app length].
  unfold OP_PUSHDATA4, OP_PUSHDATA1, OP_PUSHDATA2.
  destruct (b2n b <=? 78); [|auto].
  set (w := if b2n b <? 76 then 0%nat else if b2n b =? 76 then 1%nat else if b2n b =? 77 then 2%nat else 4%nat).
  destruct (length r <? w)%nat eqn:E1; [discriminate|].
  assert (Hf : firstn w (r ++ x) = firstn w r).
  { rewrite firstn_app. replace (w - length r)%nat with 0%nat by lia. cbn [firstn]. apply app_nil_r. }
  rewrite Hf.
  set (nSize := if b2n b <? 76 then b2n b else le_decode (firstn w r)).
  destruct (N.of_nat (length r - w) <? nSize) eqn:E2; [discriminate|].
  intros H; injection H as <- HL.
  rewrite app_length.
  replace (length r + length x <? w)%nat with false by lia.
  replace (N.of_nat (length r + length x - w) <? nSize) with false by lia.
  f_equal. lia.
Qed.

Lemma complete_nonempty p : complete_instruction p -> p <> [].
Proof. intros [o H] ->. discriminate. Qed.

(* pycoin's walk IS Core's FindAndDelete: for every script, every pattern that is one complete instruction *)
Lemma dws_is_fad pat : complete_instruction pat -> forall fuel s, (length s <= fuel)%nat ->
  dws fuel s pat = fad_fuel fuel pat s.
Proof.
  intros [po Hpat] fuel. induction fuel as [|f IH]; intros s Hlen.
  - destruct s; [reflexivity|cbn in Hlen; lia].
  - cbn [fad_fuel]. destruct s as [|b r].
    + destruct pat as [|p0 pr]; [discriminate|]. reflexivity.
    + rewrite dws_cons. unfold bridge_res.
      destruct (is_prefix pat (b :: r)) eqn:EP.
      * (* an occurrence of the pattern: it is the next instruction *)
        pose proof (is_prefix_inv _ _ EP) as Hs.
        assert (Hop : core_get_op (b :: r) = GOk po (length pat)) by (rewrite Hs; now apply core_get_op_prefix).
        rewrite Hop. cbn [fst snd].
        assert (Hsec : firstn (length pat) (b :: r) = pat) by (rewrite Hs at 1; apply firstn_app_exact).
        rewrite Hsec, bytes_eqb_refl. cbn [app].
        apply core_get_op_ok in Hop. apply IH. rewrite skipn_length. cbn [length] in *. lia.
      * destruct (core_get_op (b :: r)) as [o len|adv] eqn:Hop; cbn [fst snd]; [|reflexivity].
        pose proof (core_get_op_ok _ _ _ Hop) as [Hl _].
        destruct (bytes_eqb (firstn len (b :: r)) pat) eqn:EQ.
        { exfalso. apply bytes_eqb_eq in EQ.
          rewrite <- (firstn_skipn len (b :: r)), EQ, is_prefix_app in EP. discriminate. }
        f_equal. apply IH. rewrite skipn_length. cbn [length] in *. lia.
Qed.

Lemma find_and_delete_eq pat s : complete_instruction pat ->
  delete_subscript s pat = Ret (core_find_and_delete pat s).
Proof.
  intros Hc. rewrite delete_subscript_dws, (dws_is_fad pat Hc _ _ (le_n _)).
  unfold core_find_and_delete. destruct pat; [exfalso; now apply (complete_nonempty [] Hc)|reflexivity].
Qed.

(* ================================================================================================
   Part 5 — the pattern removed for a signature: pycoin's plain push IS Core's CScript() << sig *)
Lemma plain_push_core_push d : N.of_nat (length d) < 2 ^ 32 -> plain_push d = Ret (core_push d).
Proof.
  intros Hlen. change (2 ^ 32) with 4294967296 in Hlen. unfold plain_push, core_push.
  unfold OP_PUSHDATA1, OP_PUSHDATA2, OP_PUSHDATA4.
  set (n := N.of_nat (length d)) in *.
  destruct (n <? 76); [reflexivity|]. destruct (n <=? 255); [reflexivity|].
  destruct (n <=? 65535); [reflexivity|]. replace (n <? 4294967296) with true by lia. reflexivity.
Qed.

Lemma firstn_app_le {A} (a b : list A) n : n = length a -> firstn n (a ++ b) = a.
Proof. intros ->. apply firstn_app_exact. Qed.

Lemma core_push_complete d : N.of_nat (length d) < 2 ^ 32 -> complete_instruction (core_push d).
Proof.
  intros Hlen. change (2 ^ 32) with 4294967296 in Hlen.
  unfold core_push, complete_instruction, OP_PUSHDATA1, OP_PUSHDATA2, OP_PUSHDATA4.
  set (n := N.of_nat (length d)) in *.
  assert (Hvar : forall o w, (o = 76 /\ w = 1%nat) \/ (o = 77 /\ w = 2%nat) \/ (o = 78 /\ w = 4%nat) ->
            n < 256 ^ N.of_nat w ->
            core_get_op (n2b o :: le_encode w n ++ d) = GOk o (length (n2b o :: le_encode w n ++ d))).
  { intros o w Ho Hn. unfold core_get_op, OP_PUSHDATA1, OP_PUSHDATA2, OP_PUSHDATA4.
    assert (Hob : b2n (n2b o) = o) by (apply b2n_n2b; lia). rewrite Hob.
    replace (o <=? 78) with true by lia. replace (o <? 76) with false by lia.
    assert (Hw : (if o =? 76 then 1%nat else if o =? 77 then 2%nat else 4%nat) = w).
    { destruct Ho as [[-> ->]|[[-> ->]|[-> ->]]]; reflexivity. }
    rewrite Hw. rewrite app_length, le_encode_length.
    replace (w + length d <? w)%nat with false by lia.
    rewrite (firstn_app_le (le_encode w n) d w) by (now rewrite le_encode_length).
    rewrite le_decode_encode by exact Hn.
    replace (N.of_nat (w + length d - w) <? n) with false by (unfold n; lia).
    cbn [length]. rewrite app_length, le_encode_length. f_equal. unfold n. lia. }
  destruct (n <? 76) eqn:A.
  - exists n. unfold core_get_op, OP_PUSHDATA1, OP_PUSHDATA2, OP_PUSHDATA4.
    rewrite b2n_n2b by lia. replace (n <=? 78) with true by lia. rewrite A.
    rewrite (proj2 (Nat.ltb_ge (length d) 0)) by lia. rewrite Nat.sub_0_r.
    replace (N.of_nat (length d) <? n) with false by (unfold n; lia).
    cbn [length]. f_equal. unfold n. lia.
  - destruct (n <=? 255) eqn:B; [|destruct (n <=? 65535) eqn:C].
    + exists 76. apply Hvar; [auto|]. change (256 ^ N.of_nat 1) with 256. lia.
    + exists 77. apply Hvar; [auto|]. change (256 ^ N.of_nat 2) with 65536. lia.
    + exists 78. apply Hvar; [auto|]. change (256 ^ N.of_nat 4) with 4294967296. lia.
Qed.

Lemma codesep_complete : complete_instruction [n2b OP_CODESEPARATOR].
Proof. exists OP_CODESEPARATOR. reflexivity. Qed.

(* _delete_signature *)
Lemma delete_signature_eq script sig : N.of_nat (length sig) < 2 ^ 32 ->
  delete_signature script sig = Ret (core_find_and_delete (core_push sig) script).
Proof.
  intros Hlen. unfold delete_signature. rewrite plain_push_core_push by exact Hlen. cbn [bind].
  apply find_and_delete_eq. now apply core_push_complete.
Qed.

(* a blob of 2^32 bytes or more: size.to_bytes(4, "little") raises OverflowError *)
Lemma delete_signature_overflow script sig : 2 ^ 32 <= N.of_nat (length sig) ->
  delete_signature script sig = Raise E_OVERFLOW.
Proof.
  intros H. change (2 ^ 32) with 4294967296 in H. unfold delete_signature, plain_push.
  set (n := N.of_nat (length sig)) in *.
  replace (n <? 76) with false by lia. replace (n <=? 255) with false by lia.
  replace (n <=? 65535) with false by lia. replace (n <? 4294967296) with false by lia. reflexivity.
Qed.

(* ================================================================================================
   Part 6 — serialization: the outcome-valued streamers succeed on in-range fields and write Core's bytes *)
Definition txin_wf (i : txin) : Prop :=
  length (ti_hash i) = 32%nat /\ ti_index i < 2 ^ 32 /\ ti_seq i < 2 ^ 32.
Definition txout_wf (o : txout) : Prop :=
  to_value o < 2 ^ 64 /\ N.of_nat (length (to_script o)) < 2 ^ 64.
Definition tx_wf (t : tx) : Prop :=
  tx_version t < 2 ^ 32 /\ tx_lock t < 2 ^ 32 /\ Forall txin_wf (tx_ins t) /\ Forall txout_wf (tx_outs t)
  /\ N.of_nat (length (tx_ins t)) < 2 ^ 64 /\ N.of_nat (length (tx_outs t)) < 2 ^ 64.

Lemma write_le4 v : v < 2 ^ 32 -> write_le 4 v = Ret (le32 v).
Proof.
  intros H. unfold write_le. change (256 ^ N.of_nat 4) with 4294967296. change (2 ^ 32) with 4294967296 in H.
  replace (v <? 4294967296) with true by lia. reflexivity.
Qed.
Lemma write_le8 v : v < 2 ^ 64 -> write_le 8 v = Ret (le64 v).
Proof.
  intros H. unfold write_le. change (256 ^ N.of_nat 8) with 18446744073709551616.
  change (2 ^ 64) with 18446744073709551616 in H.
  replace (v <? 18446744073709551616) with true by lia. reflexivity.
Qed.

Lemma stream_varint_compact v : v < 2 ^ 64 -> stream_varint v = Ret (compact_size v).
Proof.
  intros H. unfold stream_varint, compact_size. rewrite (proj2 (N.ltb_lt _ _) H).
  destruct (v <? 253); [reflexivity|]. destruct (v <=? 65535); [reflexivity|].
  destruct (v <=? 4294967295); reflexivity.
Qed.

Lemma stream_varstr_ser s : N.of_nat (length s) < 2 ^ 64 -> stream_varstr s = Ret (ser_script s).
Proof. intros H. unfold stream_varstr, ser_script. now rewrite stream_varint_compact. Qed.

Lemma stream_all_pure {A} (f : A -> outcome bytes) (g : A -> bytes) l :
  Forall (fun x => f x = Ret (g x)) l -> stream_all f l = Ret (flat_map g l).
Proof.
  induction 1 as [|x l Hx Hl IH]; [reflexivity|]. cbn [stream_all flat_map]. now rewrite Hx, IH.
Qed.

Lemma stream_txout_ser o : txout_wf o -> stream_txout o = Ret (ser_txout (to_core_out o)).
Proof.
  intros [Hv Hs]. unfold stream_txout, ser_txout, to_core_out. cbn [out_nValue out_scriptPubKey].
  now rewrite write_le8, stream_varstr_ser.
Qed.

Definition ser_txin_pure (i : txin) : bytes :=
  ti_hash i ++ le32 (ti_index i) ++ ser_script (ti_script i) ++ le32 (ti_seq i).
Lemma stream_txin_ser i : txin_wf i -> N.of_nat (length (ti_script i)) < 2 ^ 64 ->
  stream_txin i = Ret (ser_txin_pure i).
Proof.
  intros (Hh & Hi & Hq) Hs. unfold stream_txin, ser_txin_pure.
  rewrite write_le4, stream_varstr_ser, write_le4 by assumption. cbn [bind].
  rewrite firstn_all2 by lia. reflexivity.
Qed.

(* ---- list plumbing ------------------------------------------------------------------------------ *)
Lemma enumerate_map {A B} (g : nat * A -> B) (l : list A) k :
  enumerate_from k (map g (enumerate_from k l)) = map (fun p => (fst p, g p)) (enumerate_from k l).
Proof.
  revert k; induction l as [|x l IH]; intros k; [reflexivity|].
  cbn [enumerate_from map fst]. f_equal. apply IH.
Qed.

Lemma flat_map_enumerate_seq {A} (F : nat * A -> bytes) (H : nat -> bytes) (l : list A) k :
  (forall j x, nth_error l j = Some x -> F ((k + j)%nat, x) = H (k + j)%nat) ->
  flat_map F (enumerate_from k l) = flat_map H (seq k (length l)).
Proof.
  revert k; induction l as [|x l IH]; intros k Hyp; [reflexivity|].
  cbn [enumerate_from flat_map length seq]. f_equal.
  - specialize (Hyp 0%nat x eq_refl). now rewrite Nat.add_0_r in Hyp.
  - apply IH. intros j y Hj. specialize (Hyp (S j) y Hj). now rewrite Nat.add_succ_r in Hyp.
Qed.

Lemma flat_map_ext_in' {A B} (f g : A -> list B) l :
  (forall a, In a l -> f a = g a) -> flat_map f l = flat_map g l.
Proof.
  induction l as [|x l IH]; intros H; [reflexivity|]. cbn [flat_map].
  rewrite (H x) by now left. f_equal. apply IH. intros a Ha. apply H. now right.
Qed.

Lemma flat_map_seq_nth {A} (f : A -> bytes) (l : list A) d :
  flat_map (fun i => f (nth i l d)) (seq 0 (length l)) = flat_map f l.
Proof.
  assert (G : forall k, flat_map (fun i => f (nth (i - k) l d)) (seq k (length l)) = flat_map f l).
  { induction l as [|x l IH]; intros k; [reflexivity|].
    cbn [length seq flat_map]. rewrite Nat.sub_diag. cbn [nth]. f_equal.
    rewrite <- (IH (S k)). apply flat_map_ext_in'. intros i Hi. apply in_seq in Hi.
    replace (i - k)%nat with (S (i - S k)) by lia. reflexivity. }
  rewrite <- (G 0%nat). apply flat_map_ext. intros i. now rewrite Nat.sub_0_r.
Qed.

Lemma flat_map_map {A B C} (f : B -> list C) (g : A -> B) l :
  flat_map f (map g l) = flat_map (fun x => f (g x)) l.
Proof. induction l as [|x l IH]; [reflexivity|]. cbn [map flat_map]. now rewrite IH. Qed.

Lemma nth_map_some {A B} (f : A -> B) l j x d : nth_error l j = Some x -> nth j (map f l) d = f x.
Proof.
  intros H. apply nth_error_nth. rewrite nth_error_map, H. reflexivity.
Qed.

Lemma flat_map_repeat {A} (f : A -> bytes) x n (g : nat -> bytes) k :
  (forall i, (k <= i < k + n)%nat -> g i = f x) ->
  flat_map f (repeat x n) = flat_map g (seq k n).
Proof.
  revert k; induction n as [|n IH]; intros k Hyp; [reflexivity|].
  cbn [repeat seq flat_map]. rewrite (Hyp k) by lia. f_equal. apply IH. intros i Hi. apply Hyp. lia.
Qed.

(* ---- SerializeScriptCode on a decodable script = length-prefixed FindAndDelete(OP_CODESEPARATOR) ---- *)
Lemma is_prefix_codesep s : is_prefix [n2b OP_CODESEPARATOR] s = true <-> exists r, s = xab :: r.
Proof.
  change (n2b OP_CODESEPARATOR) with xab. destruct s as [|b r]; cbn [is_prefix].
  - split; [discriminate|intros [r H]; discriminate].
  - rewrite andb_true_r, byte_eqb_eq. split; [intros <-; eauto|intros [r' H]; now injection H].
Qed.

Lemma segments_fad fuel : forall s, (length s <= fuel)%nat -> decodable_fuel fuel s = true ->
  write_segments fuel s = fad_fuel fuel [n2b OP_CODESEPARATOR] s
  /\ (length (write_segments fuel s) + count_codeseps fuel s = length s)%nat.
Proof.
  induction fuel as [|f IH]; intros s Hlen Hd.
  - destruct s; [split; reflexivity|cbn in Hlen; lia].
  - destruct s as [|b r].
    + cbn [write_segments count_codeseps fad_fuel]. cbn. split; reflexivity.
    + cbn [decodable_fuel] in Hd. cbn [write_segments count_codeseps fad_fuel].
      destruct (core_get_op (b :: r)) as [o len|adv] eqn:Hop; [|discriminate].
      pose proof (core_get_op_ok _ _ _ Hop) as [Hl [b' [r' [Hs Ho]]]]. injection Hs as <- <-.
      destruct (IH (skipn len (b :: r))) as [I1 I2]; [rewrite skipn_length; cbn [length] in *; lia|exact Hd|].
      destruct (is_prefix [n2b OP_CODESEPARATOR] (b :: r)) eqn:EP.
      * apply is_prefix_codesep in EP. destruct EP as [r0 E]. injection E as -> ->.
        change (b2n xab) with 171 in Ho. subst o.
        assert (len = 1%nat).
        { unfold core_get_op in Hop. change (b2n xab <=? OP_PUSHDATA4) with false in Hop.
          cbv iota in Hop. now injection Hop. }
        subst len. change (171 =? OP_CODESEPARATOR) with true. cbv iota.
        change (length [n2b OP_CODESEPARATOR]) with 1%nat. split; [exact I1|].
        cbn [skipn length] in *. lia.
      * assert (Hne : (o =? OP_CODESEPARATOR) = false).
        { apply N.eqb_neq. intros E. subst o. unfold OP_CODESEPARATOR in E.
          assert (b = xab) by (apply b2n_inj; rewrite E; reflexivity). subst b.
          assert (is_prefix [n2b OP_CODESEPARATOR] (xab :: r) = true) by (apply is_prefix_codesep; eauto).
          congruence. }
        rewrite Hne. split; [now rewrite I1|].
        rewrite app_length, firstn_length. rewrite skipn_length in I2. cbn [length] in *. lia.
Qed.

Lemma ser_script_code_decodable s : core_decodable s = true ->
  ser_script_code s = ser_script (core_find_and_delete [n2b OP_CODESEPARATOR] s).
Proof.
  intros Hd. destruct (segments_fad (length s) s (le_n _) Hd) as [H1 H2].
  unfold ser_script_code, ser_script, core_find_and_delete. rewrite <- H1.
  do 2 f_equal. lia.
Qed.

Lemma dws_length sub fuel : forall s, (length (dws fuel s sub) <= length s)%nat.
Proof.
  induction fuel as [|f IH]; intros s; [cbn; lia|].
  destruct s as [|b r]; [cbn; lia|]. rewrite dws_cons.
  destruct (snd (bridge_res (b :: r))); [|lia]. rewrite app_length.
  specialize (IH (skipn (fst (bridge_res (b :: r))) (b :: r))). rewrite skipn_length in IH.
  assert (length (if bytes_eqb (firstn (fst (bridge_res (b :: r))) (b :: r)) sub then []
                  else firstn (fst (bridge_res (b :: r))) (b :: r)) <= Nat.min (fst (bridge_res (b :: r))) (length (b :: r)))%nat.
  { destruct (bytes_eqb _ _); [cbn; lia|]. rewrite firstn_length. lia. }
  lia.
Qed.

(* ================================================================================================
   Part 7 — the legacy digest preimage *)
Definition pin (blank : bool) (script' : bytes) (idx : nat) (p : nat * txin) : txin :=
  let (i, ti) := p in
  mk_txin (ti_hash ti) (ti_index ti) (if (i =? idx)%nat then script' else [])
          (if blank && negb (i =? idx)%nat then 0 else ti_seq ti).

Lemma enumerate_from_length {A} (l : list A) k : length (enumerate_from k l) = length l.
Proof. revert k; induction l; intros; cbn [enumerate_from length]; auto. Qed.

Lemma ins0_eq ins script' idx :
  map (fun p : nat * txin => let (i, ti) := p in tx_in_for_idx i ti script' idx) (enumerate_from 0 ins)
  = map (pin false script' idx) (enumerate_from 0 ins).
Proof.
  apply map_ext. intros [i ti]. unfold tx_in_for_idx, pin. cbn [andb].
  destruct (i =? idx)%nat; reflexivity.
Qed.

Lemma zero_other_eq ins script' idx :
  zero_other_sequences idx (map (pin false script' idx) (enumerate_from 0 ins))
  = map (pin true script' idx) (enumerate_from 0 ins).
Proof.
  unfold zero_other_sequences. rewrite enumerate_map, map_map.
  apply map_ext. intros [i ti]. cbn [fst pin andb].
  destruct (i =? idx)%nat; reflexivity.
Qed.

Lemma enumerate_nth_error {A} (l : list A) k j x :
  nth_error l j = Some x -> nth_error (enumerate_from k l) j = Some ((k + j)%nat, x).
Proof.
  revert k j; induction l as [|y l IH]; intros k [|j] H; try discriminate.
  - injection H as ->. cbn. now rewrite Nat.add_0_r.
  - cbn [enumerate_from nth_error] in *. rewrite (IH (S k) j H). f_equal. f_equal. lia.
Qed.

Section LegacyProof.
Variables (t : tx) (script : bytes) (idx : nat) (ht : N).
Hypothesis Hwf : tx_wf t.
Hypothesis Hidx : (idx < length (tx_ins t))%nat.
Hypothesis Hscr : N.of_nat (length script) < 2 ^ 64.
Let script' := core_find_and_delete [n2b OP_CODESEPARATOR] script.

Lemma script'_len : N.of_nat (length script') < 2 ^ 64.
Proof.
  pose proof (find_and_delete_eq _ script codesep_complete) as E.
  rewrite delete_subscript_dws in E.
  assert (E2 : script' = dws (length script) script [n2b OP_CODESEPARATOR]) by (unfold script'; congruence).
  rewrite E2.
  pose proof (dws_length [n2b OP_CODESEPARATOR] (length script) script). lia.
Qed.

Lemma pin_wf blank j x : nth_error (tx_ins t) j = Some x ->
  stream_txin (pin blank script' idx (j, x)) = Ret (ser_txin_pure (pin blank script' idx (j, x))).
Proof.
  intros Hj. destruct Hwf as (_ & _ & Hins & _).
  pose proof (proj1 (Forall_forall _ _) Hins x (nth_error_In _ _ Hj)) as (Hh & Hi & Hq).
  apply stream_txin_ser.
  - unfold pin, txin_wf. cbn [ti_hash ti_index ti_seq]. repeat split; auto.
    destruct (blank && negb (j =? idx)%nat); [cbn; lia|exact Hq].
  - unfold pin. cbn [ti_script]. destruct (j =? idx)%nat; [apply script'_len|cbn; lia].
Qed.

(* all inputs, no ANYONECANPAY *)
Lemma inputs_all (blank : bool) : f_anyonecanpay ht = false -> blank = (f_single ht || f_none ht) ->
  stream_all stream_txin (map (pin blank script' idx) (enumerate_from 0 (tx_ins t)))
  = Ret (flat_map (ser_input (ser_script script') (to_core t) idx ht) (seq 0 (length (tx_ins t)))).
Proof.
  intros Hacp Hb.
  rewrite (stream_all_pure stream_txin ser_txin_pure).
  2:{ apply Forall_forall. intros y Hy. apply in_map_iff in Hy. destruct Hy as [[j x] [<- Hin]].
      apply In_nth_error in Hin. destruct Hin as [n Hn].
      assert (Hlt : (n < length (enumerate_from 0 (tx_ins t)))%nat) by (apply nth_error_Some; congruence).
      rewrite enumerate_from_length in Hlt.
      destruct (nth_error (tx_ins t) n) as [x'|] eqn:En; [|apply nth_error_None in En; lia].
      rewrite (enumerate_nth_error _ 0 n x' En) in Hn. injection Hn as <- <-. now apply pin_wf. }
  f_equal. rewrite flat_map_map.
  apply flat_map_enumerate_seq. intros j x Hj. cbn [Nat.add].
  unfold ser_input. rewrite Hacp. unfold to_core. cbn [ctx_vin].
  rewrite (nth_map_some to_core_in _ j x) by exact Hj.
  unfold ser_txin_pure, pin, to_core_in, ser_outpoint.
  cbn [ti_hash ti_index ti_script ti_seq in_prevout op_hash op_n in_nSequence].
  rewrite <- app_assoc. f_equal. f_equal.
  rewrite <- Hb. destruct (j =? idx)%nat eqn:E; cbn [negb andb].
  - rewrite andb_false_r. reflexivity.
  - rewrite andb_true_r. destruct blank; reflexivity.
Qed.

(* ANYONECANPAY: only input idx *)
Lemma inputs_acp (blank : bool) x : f_anyonecanpay ht = true -> nth_error (tx_ins t) idx = Some x ->
  nth_error (map (pin blank script' idx) (enumerate_from 0 (tx_ins t))) idx = Some (pin blank script' idx (idx, x))
  /\ stream_all stream_txin [pin blank script' idx (idx, x)]
     = Ret (flat_map (ser_input (ser_script script') (to_core t) idx ht) (seq 0 1)).
Proof.
  intros Hacp Hx. split.
  - rewrite nth_error_map, (enumerate_nth_error _ 0 idx x Hx). reflexivity.
  - cbn [stream_all seq flat_map]. rewrite (pin_wf blank idx x Hx). cbn [bind]. rewrite !app_nil_r.
    f_equal. unfold ser_input. rewrite Hacp. unfold to_core. cbn [ctx_vin].
    rewrite (nth_map_some to_core_in _ idx x) by exact Hx.
    unfold ser_txin_pure, pin, to_core_in, ser_outpoint.
    cbn [ti_hash ti_index ti_script ti_seq in_prevout op_hash op_n in_nSequence].
    rewrite Nat.eqb_refl. cbn [negb andb]. rewrite andb_false_r.
    rewrite <- app_assoc. reflexivity.
Qed.

Lemma outs_wf_forall : Forall (fun o => stream_txout o = Ret (ser_txout (to_core_out o))) (tx_outs t).
Proof.
  destruct Hwf as (_ & _ & _ & Ho & _). eapply Forall_impl; [|exact Ho]. intros o. apply stream_txout_ser.
Qed.

Lemma outputs_all : f_single ht = false -> f_none ht = false ->
  stream_all stream_txout (tx_outs t)
  = Ret (flat_map (ser_output (to_core t) idx ht) (seq 0 (length (tx_outs t)))).
Proof.
  intros Hs Hn. rewrite (stream_all_pure _ _ _ outs_wf_forall). f_equal.
  unfold ser_output. rewrite Hs. cbn [andb]. unfold to_core. cbn [ctx_vout].
  rewrite <- (map_length to_core_out) at 1.
  rewrite (flat_map_seq_nth ser_txout (map to_core_out (tx_outs t)) null_txout).
  now rewrite flat_map_map.
Qed.

Lemma blank_is_null : to_core_out (mk_txout gen_blank_amount []) = null_txout.
Proof. unfold to_core_out, null_txout. cbn [to_value to_script]. now rewrite g_blank. Qed.

Lemma outputs_single o : f_single ht = true -> nth_error (tx_outs t) idx = Some o ->
  stream_all stream_txout (repeat (mk_txout gen_blank_amount []) idx ++ [o])
  = Ret (flat_map (ser_output (to_core t) idx ht) (seq 0 (idx + 1))).
Proof.
  intros Hs Ho.
  assert (Hblank : stream_txout (mk_txout gen_blank_amount []) = Ret (ser_txout null_txout)).
  { rewrite <- blank_is_null. apply stream_txout_ser. unfold txout_wf. cbn [to_value to_script length].
    rewrite g_blank. split; [vm_compute; reflexivity|cbn; lia]. }
  rewrite (stream_all_pure stream_txout (fun o => ser_txout (to_core_out o))).
  2:{ apply Forall_app. split.
      - apply Forall_forall. intros y Hy. apply repeat_spec in Hy. subst y. now rewrite blank_is_null.
      - constructor; [|constructor]. destruct Hwf as (_ & _ & _ & Hos & _).
        apply stream_txout_ser. exact (proj1 (Forall_forall _ _) Hos o (nth_error_In _ _ Ho)). }
  f_equal. rewrite seq_app, !flat_map_app. cbn [Nat.add seq flat_map]. rewrite !app_nil_r. f_equal.
  - apply flat_map_repeat. intros i Hi. unfold ser_output. rewrite Hs.
    replace (i =? idx)%nat with false by lia. cbn [andb negb]. now rewrite blank_is_null.
  - unfold ser_output. rewrite Hs, Nat.eqb_refl. cbn [negb andb]. unfold to_core. cbn [ctx_vout].
    now rewrite (nth_map_some to_core_out _ idx o) by exact Ho.
Qed.
End LegacyProof.

Definition presig_of_core (c : core_sighash) : presig :=
  match c with CoreOne => PConst (2 ^ 248) | CorePreimage p => PPreimage p end.

Lemma finish_eq t script idx ht (blank : bool) outs' nOut x :
  tx_wf t -> (idx < length (tx_ins t))%nat -> ht < 2 ^ 32 -> N.of_nat (length script) < 2 ^ 64 ->
  blank = (f_single ht || f_none ht) ->
  stream_all stream_txout outs' = Ret (flat_map (ser_output (to_core t) idx ht) (seq 0 nOut)) ->
  length outs' = nOut -> N.of_nat nOut < 2 ^ 64 ->
  nOut = (if f_none ht then 0%nat else if f_single ht then (idx + 1)%nat else length (ctx_vout (to_core t))) ->
  nth_error (tx_ins t) idx = Some x ->
  let L := map (pin blank (core_find_and_delete [n2b OP_CODESEPARATOR] script) idx) (enumerate_from 0 (tx_ins t)) in
  bind (if N.land ht SIGHASH_ANYONECANPAY =? 0 then Ret L
        else match nth_error L idx with Some x0 => Ret [x0] | None => Raise E_INDEX end)
       (fun txs_in => bind (tx_hash_preimage (tx_version t) txs_in outs' (tx_lock t) ht)
                           (fun p => Ret (PPreimage p)))
  = Ret (PPreimage (ser_for_signature (ser_script (core_find_and_delete [n2b OP_CODESEPARATOR] script)) (to_core t) idx ht
                    ++ le32 ht)).
Proof.
  intros Hwf Hidx Hht Hscr Hb Houts Hlen HnOut HnOutEq Hx L.
  pose proof Hwf as (Hv & Hl & _ & _ & Hni & _).
  unfold ser_for_signature. rewrite <- HnOutEq.
  assert (Ev : ctx_nVersion (to_core t) = tx_version t) by reflexivity.
  assert (El : ctx_nLockTime (to_core t) = tx_lock t) by reflexivity.
  assert (Elen : length (ctx_vin (to_core t)) = length (tx_ins t)) by (unfold to_core; cbn [ctx_vin]; apply map_length).
  rewrite Ev, El, Elen.
  destruct (N.land ht SIGHASH_ANYONECANPAY =? 0) eqn:EA.
  - assert (Hacp : f_anyonecanpay ht = false) by (unfold f_anyonecanpay; now rewrite EA).
    rewrite Hacp. cbn [bind]. unfold tx_hash_preimage.
    rewrite write_le4 by exact Hv. cbn [bind].
    unfold L. rewrite map_length, enumerate_from_length.
    rewrite stream_varint_compact by exact Hni. cbn [bind].
    rewrite (inputs_all t script idx ht Hwf Hidx Hscr blank Hacp Hb). cbn [bind].
    rewrite Hlen, stream_varint_compact by exact HnOut. cbn [bind].
    rewrite Houts. cbn [bind].
    rewrite write_le4 by exact Hl. rewrite write_le4 by exact Hht. cbn [bind].
    repeat rewrite <- app_assoc. reflexivity.
  - assert (Hacp : f_anyonecanpay ht = true) by (unfold f_anyonecanpay; now rewrite EA).
    rewrite Hacp.
    destruct (inputs_acp t script idx ht Hwf Hidx Hscr blank x Hacp Hx) as [Hn Hs].
    unfold L. rewrite Hn. cbn [bind]. unfold tx_hash_preimage.
    rewrite write_le4 by exact Hv. cbn [bind length].
    rewrite stream_varint_compact by (vm_compute; reflexivity). cbn [bind].
    rewrite Hs. cbn [bind].
    rewrite Hlen, stream_varint_compact by exact HnOut. cbn [bind].
    rewrite Houts. cbn [bind].
    rewrite write_le4 by exact Hl. rewrite write_le4 by exact Hht. cbn [bind].
    repeat rewrite <- app_assoc. reflexivity.
Qed.

Lemma land31_cases ht : f_none ht = true -> f_single ht = false.
Proof. unfold f_none, f_single, SIGHASH_NONE, SIGHASH_SINGLE. lia. Qed.

Lemma legacy_presig_eq t script idx ht :
  tx_wf t -> (idx < length (tx_ins t))%nat -> ht < 2 ^ 32 -> N.of_nat (length script) < 2 ^ 64 ->
  legacy_presig t script idx ht = Ret (presig_of_core (core_signature_hash_old script (to_core t) idx ht)).
Proof.
  intros Hwf Hidx Hht Hscr.
  pose proof Hwf as (_ & _ & _ & _ & _ & Hno).
  unfold legacy_presig.
  rewrite g_codesep, (find_and_delete_eq _ script codesep_complete). cbn [bind].
  rewrite ins0_eq.
  destruct g_legacy_masks as [-> ->]. rewrite g_none, g_single, g_acp, g_single_value.
  unfold core_signature_hash_old, signature_hash_with.
  assert (Elen : length (ctx_vin (to_core t)) = length (tx_ins t)) by (unfold to_core; cbn [ctx_vin]; apply map_length).
  assert (Eout : length (ctx_vout (to_core t)) = length (tx_outs t)) by (unfold to_core; cbn [ctx_vout]; apply map_length).
  rewrite Elen, Eout.
  replace (length (tx_ins t) <=? idx)%nat with false by lia.
  destruct (nth_error (tx_ins t) idx) as [x|] eqn:Ex; [|apply nth_error_None in Ex; lia].
  cbv zeta.
  destruct (N.land ht 31 =? SIGHASH_NONE) eqn:EN.
  - assert (Hn : f_none ht = true) by exact EN.
    pose proof (land31_cases ht Hn) as Hs. rewrite Hs. cbn [andb presig_of_core].
    rewrite zero_other_eq.
    apply (finish_eq t script idx ht true [] 0%nat x); auto.
    + now rewrite Hs, Hn.
    + vm_compute; reflexivity.
    + now rewrite Hn.
  - assert (Hn : f_none ht = false) by exact EN.
    destruct (N.land ht 31 =? SIGHASH_SINGLE) eqn:ES.
    + assert (Hs : f_single ht = true) by exact ES. rewrite Hs. cbn [andb].
      destruct (nth_error (tx_outs t) idx) as [o|] eqn:Eo.
      * assert (idx < length (tx_outs t))%nat by (apply nth_error_Some; congruence).
        replace (length (tx_outs t) <=? idx)%nat with false by lia. cbn [presig_of_core].
        rewrite zero_other_eq.
        apply (finish_eq t script idx ht true _ (idx + 1)%nat x); auto.
        -- now rewrite Hs.
        -- eapply outputs_single; eassumption.
        -- rewrite app_length, repeat_length. reflexivity.
        -- lia.
        -- now rewrite Hn, Hs.
      * apply nth_error_None in Eo. replace (length (tx_outs t) <=? idx)%nat with true by lia.
        reflexivity.
    + assert (Hs : f_single ht = false) by exact ES. rewrite Hs. cbn [andb presig_of_core].
      apply (finish_eq t script idx ht false _ (length (tx_outs t)) x); auto.
      * now rewrite Hs, Hn.
      * now apply outputs_all.
      * now rewrite Hn, Hs.
Qed.

(* ================================================================================================
   Part 8 — the SIGHASH_SINGLE constant *)
Lemma single_bug_presig t script idx ht :
  N.land ht 31 = SIGHASH_SINGLE -> (length (tx_outs t) <= idx)%nat ->
  legacy_presig t script idx ht = Ret (PConst (2 ^ 248)).
Proof.
  intros Hs Hi. unfold legacy_presig. rewrite delete_subscript_dws. cbn [bind].
  destruct g_legacy_masks as [-> ->]. rewrite g_none, g_single, g_single_value, Hs.
  change (SIGHASH_SINGLE =? SIGHASH_NONE) with false. rewrite N.eqb_refl. cbv zeta iota.
  replace (nth_error (tx_outs t) idx) with (@None txout) by (symmetry; now apply nth_error_None).
  reflexivity.
Qed.

Lemma one_is_2_248 : be_decode uint256_one = 2 ^ 248 /\ be_encode 32 (2 ^ 248) = uint256_one.
Proof. split; vm_compute; reflexivity. Qed.

(* ================================================================================================
   Part 9 — BIP143 *)
Lemma slice_one {A} (l : list A) i x : nth_error l i = Some x -> slice i (i + 1) l = [x].
Proof.
  unfold slice. replace (i + 1 - i)%nat with 1%nat by lia.
  revert l; induction i as [|i IH]; intros [|y l] H; try discriminate.
  - injection H as ->. reflexivity.
  - cbn [skipn]. now apply IH.
Qed.

Section Bip143Proof.
Variable H : bytes -> bytes.
Variables (t : tx) (script : bytes) (idx : nat) (ht : N) (u : txout).
Hypothesis Hwf : tx_wf t.
Hypothesis Hidx : (idx < length (tx_ins t))%nat.
Hypothesis Hht : ht < 2 ^ 32.
Hypothesis Hscr : N.of_nat (length script) < 2 ^ 64.
Hypothesis Hun : nth_error (tx_unspents t) idx = Some (Some u).
Hypothesis Hamount : to_value u < 2 ^ 64.

Lemma hash_prevouts_eq : hash_prevouts H t ht = Ret (hashPrevouts H (to_core t) ht).
Proof.
  unfold hash_prevouts, hashPrevouts. rewrite g_acp, g_zero32. fold (f_anyonecanpay ht).
  destruct (f_anyonecanpay ht); [reflexivity|]. cbn [negb].
  rewrite (stream_all_pure _ (fun i => ti_hash i ++ le32 (ti_index i))).
  - cbn [bind]. unfold to_core. cbn [ctx_vin]. now rewrite flat_map_map.
  - destruct Hwf as (_ & _ & Hins & _). eapply Forall_impl; [|exact Hins].
    intros i (_ & Hi & _). now rewrite write_le4.
Qed.

Lemma hash_sequence_eq : hash_sequence H 31 31 t ht = Ret (hashSequence H (to_core t) ht).
Proof.
  unfold hash_sequence, hashSequence. rewrite g_acp, g_zero32, g_single, g_none.
  fold (f_anyonecanpay ht) (f_single ht) (f_none ht).
  destruct (f_anyonecanpay ht), (f_single ht), (f_none ht); try reflexivity. cbn [negb orb andb].
  rewrite (stream_all_pure _ (fun i => le32 (ti_seq i))).
  - cbn [bind]. unfold to_core. cbn [ctx_vin]. now rewrite flat_map_map.
  - destruct Hwf as (_ & _ & Hins & _). eapply Forall_impl; [|exact Hins].
    intros i (_ & _ & Hq). now rewrite write_le4.
Qed.

Lemma hash_outputs_eq : hash_outputs H 31 31 t ht idx = Ret (hashOutputs H (to_core t) idx ht).
Proof.
  unfold hash_outputs, hashOutputs. rewrite g_zero32, g_single, g_none.
  fold (f_single ht) (f_none ht).
  assert (Eout : length (ctx_vout (to_core t)) = length (tx_outs t)) by (unfold to_core; cbn [ctx_vout]; apply map_length).
  rewrite Eout.
  destruct (f_single ht) eqn:Hs.
  - cbn [negb andb]. destruct (length (tx_outs t) <=? idx)%nat eqn:E.
    + replace (idx <? length (tx_outs t))%nat with false by lia. reflexivity.
    + replace (idx <? length (tx_outs t))%nat with true by lia.
      destruct (nth_error (tx_outs t) idx) as [o|] eqn:Eo; [|apply nth_error_None in Eo; lia].
      rewrite (slice_one _ _ _ Eo). cbn [stream_all].
      destruct Hwf as (_ & _ & _ & Hos & _).
      rewrite stream_txout_ser by exact (proj1 (Forall_forall _ _) Hos o (nth_error_In _ _ Eo)).
      cbn [bind]. rewrite app_nil_r. unfold to_core. cbn [ctx_vout].
      now rewrite (nth_map_some to_core_out _ idx o) by exact Eo.
  - cbn [negb andb]. destruct (f_none ht); [reflexivity|]. cbn [negb].
    rewrite (stream_all_pure _ _ _ (outs_wf_forall t Hwf)). cbn [bind].
    unfold to_core. cbn [ctx_vout]. now rewrite flat_map_map.
Qed.

Lemma segwit_preimage_eq :
  segwit_signature_preimage H 31 31 31 31 t script idx ht
  = Ret (bip143_preimage H script (to_core t) idx (to_value u) ht).
Proof.
  pose proof Hwf as (Hv & Hl & Hins & _).
  destruct (nth_error (tx_ins t) idx) as [x|] eqn:Ex; [|apply nth_error_None in Ex; lia].
  pose proof (proj1 (Forall_forall _ _) Hins x (nth_error_In _ _ Ex)) as (_ & Hxi & Hxq).
  unfold segwit_signature_preimage, bip143_preimage.
  rewrite write_le4 by exact Hv. cbn [bind].
  rewrite hash_prevouts_eq. cbn [bind]. rewrite hash_sequence_eq. cbn [bind].
  rewrite Ex. cbn [bind]. rewrite write_le4 by exact Hxi. cbn [bind].
  rewrite Hun. cbn [bind]. rewrite stream_varstr_ser by exact Hscr. cbn [bind].
  rewrite write_le8 by exact Hamount. cbn [bind]. rewrite write_le4 by exact Hxq. cbn [bind].
  rewrite hash_outputs_eq. cbn [bind]. rewrite write_le4 by exact Hl. rewrite write_le4 by exact Hht. cbn [bind].
  assert (En : nth idx (ctx_vin (to_core t)) null_txin = to_core_in x).
  { unfold to_core. cbn [ctx_vin]. now apply nth_map_some. }
  rewrite En.
  unfold to_core_in, ser_outpoint. cbn [in_prevout op_hash op_n in_nSequence ctx_nVersion ctx_nLockTime to_core].
  repeat rewrite <- app_assoc. reflexivity.
Qed.
End Bip143Proof.

(* ================================================================================================
   Part 10 — the five transaction classes *)
Definition core_digest (H : bytes -> bytes) (c : core_sighash) : bytes :=
  match c with CoreOne => uint256_one | CorePreimage p => H p end.

Lemma land_pow2 x k : N.land x (2 ^ k) = if N.testbit x k then 2 ^ k else 0.
Proof.
  apply N.bits_inj; intro n. rewrite N.land_spec, N.pow2_bits_eqb.
  destruct (N.testbit x k) eqn:E.
  - rewrite N.pow2_bits_eqb. destruct (N.eqb_spec k n) as [<-|]; [now rewrite E|now rewrite andb_false_r].
  - rewrite N.bits_0. destruct (N.eqb_spec k n) as [<-|]; [now rewrite E|now rewrite andb_false_r].
Qed.

Lemma forkid_missing_spec ht : forkid_missing ht = (N.land ht SIGHASH_FORKID =? 0).
Proof.
  unfold forkid_missing. rewrite g_forkid. unfold SIGHASH_FORKID. change 64 with (2 ^ 6).
  rewrite land_pow2. destruct (N.testbit ht 6); reflexivity.
Qed.

Lemma lor_lt_2_32 a b : a < 2 ^ 32 -> b < 2 ^ 32 -> N.lor a b < 2 ^ 32.
Proof.
  intros Ha Hb. destruct (N.eq_dec (N.lor a b) 0) as [->|Hne]; [reflexivity|].
  apply N.log2_lt_pow2; [lia|]. rewrite N.log2_lor. apply N.max_lub_lt.
  - destruct (N.eq_dec a 0) as [->|]; [reflexivity|]. apply N.log2_lt_pow2; lia.
  - destruct (N.eq_dec b 0) as [->|]; [reflexivity|]. apply N.log2_lt_pow2; lia.
Qed.

Section CoinsProof.
Variables sha dsha : bytes -> bytes.
Variables (t : tx) (script : bytes) (idx : nat) (ht : N).
Hypothesis Hwf : tx_wf t.
Hypothesis Hidx : (idx < length (tx_ins t))%nat.
Hypothesis Hht : ht < 2 ^ 32.
Hypothesis Hscr : N.of_nat (length script) < 2 ^ 64.

Lemma legacy_digest_btc c : c = BTC \/ c = LTC ->
  signature_hash sha dsha c t script idx ht
  = Ret (be_decode (core_digest dsha (core_signature_hash_old script (to_core t) idx ht))).
Proof.
  intros Hc. assert (E : signature_hash sha dsha c t script idx ht = signature_hash sha dsha BTC t script idx ht)
    by (destruct Hc as [-> | ->]; reflexivity).
  rewrite E. unfold signature_hash. rewrite legacy_presig_eq by assumption. cbn [bind].
  destruct (core_signature_hash_old script (to_core t) idx ht); cbn [presig_of_core core_digest].
  - now rewrite (proj1 one_is_2_248).
  - reflexivity.
Qed.

Lemma legacy_digest_grs :
  signature_hash sha dsha GRS t script idx ht
  = Ret (be_decode (core_digest sha (core_signature_hash_old script (to_core t) idx ht))).
Proof.
  unfold signature_hash. rewrite legacy_presig_eq by assumption. cbn [bind].
  destruct (core_signature_hash_old script (to_core t) idx ht); cbn [presig_of_core core_digest].
  - now rewrite (proj1 one_is_2_248).
  - reflexivity.
Qed.

Variable u : txout.
Hypothesis Hun : nth_error (tx_unspents t) idx = Some (Some u).
Hypothesis Hamount : to_value u < 2 ^ 64.

Lemma btc_preimage_eq h : h < 2 ^ 32 ->
  btc_segwit_preimage dsha t script idx h = Ret (bip143_preimage dsha script (to_core t) idx (to_value u) h).
Proof.
  intros Hh. unfold btc_segwit_preimage. destruct g_sw_masks as (E1 & E2 & E3 & E4). rewrite E1, E2, E3, E4.
  now apply segwit_preimage_eq.
Qed.

Lemma grs_preimage_eq :
  grs_segwit_preimage sha t script idx ht = Ret (bip143_preimage sha script (to_core t) idx (to_value u) ht).
Proof.
  unfold grs_segwit_preimage. destruct g_grs_masks as (E1 & E2 & E3 & E4). rewrite E1, E2, E3, E4.
  now apply segwit_preimage_eq.
Qed.

Lemma segwit_digest_btc c : c = BTC \/ c = LTC \/ c = BCH ->
  signature_for_hash_type_segwit sha dsha c t script idx ht
  = Ret (be_decode (dsha (bip143_preimage dsha script (to_core t) idx (to_value u) ht))).
Proof.
  intros Hc.
  assert (E : signature_for_hash_type_segwit sha dsha c t script idx ht
              = signature_for_hash_type_segwit sha dsha BTC t script idx ht)
    by (destruct Hc as [-> | [-> | ->]]; reflexivity).
  rewrite E. unfold signature_for_hash_type_segwit. now rewrite btc_preimage_eq.
Qed.

Lemma segwit_digest_grs :
  signature_for_hash_type_segwit sha dsha GRS t script idx ht
  = Ret (be_decode (sha (bip143_preimage sha script (to_core t) idx (to_value u) ht))).
Proof. unfold signature_for_hash_type_segwit. now rewrite grs_preimage_eq. Qed.

Definition forkid_result (p : option bytes) : outcome N :=
  match p with None => Raise E_SCRIPT | Some p => Ret (be_decode (dsha p)) end.

Lemma forkid_bch :
  signature_hash sha dsha BCH t script idx ht
  = forkid_result (forkid_preimage dsha FORKID_BCH script (to_core t) idx (to_value u) ht).
Proof.
  unfold signature_hash, forkid_preimage. rewrite forkid_missing_spec.
  destruct (N.land ht SIGHASH_FORKID =? 0); [reflexivity|].
  rewrite (segwit_digest_btc BCH) by auto. cbn [forkid_result].
  change (N.shiftl FORKID_BCH 8) with 0. now rewrite N.lor_0_r.
Qed.

Lemma forkid_btg_segwit :
  signature_for_hash_type_segwit sha dsha BTG t script idx ht
  = forkid_result (forkid_preimage dsha FORKID_BTG script (to_core t) idx (to_value u) ht).
Proof.
  unfold signature_for_hash_type_segwit, forkid_preimage. rewrite forkid_missing_spec.
  destruct (N.land ht SIGHASH_FORKID =? 0); [reflexivity|].
  rewrite g_forkid_btg. rewrite btc_preimage_eq; [reflexivity|].
  apply lor_lt_2_32; [exact Hht|vm_compute; reflexivity].
Qed.

Lemma forkid_btg_legacy :
  signature_hash sha dsha BTG t script idx ht
  = forkid_result (forkid_preimage dsha FORKID_BTG script (to_core t) idx (to_value u) ht).
Proof.
  unfold signature_hash. rewrite forkid_missing_spec.
  destruct (N.land ht SIGHASH_FORKID =? 0) eqn:E.
  - unfold forkid_preimage. now rewrite E.
  - apply forkid_btg_segwit.
Qed.
End CoinsProof.

(* refusals need no hypothesis at all *)
Lemma forkid_refusals sha dsha t script idx ht : N.land ht SIGHASH_FORKID = 0 ->
  signature_hash sha dsha BCH t script idx ht = Raise E_SCRIPT
  /\ signature_hash sha dsha BTG t script idx ht = Raise E_SCRIPT
  /\ signature_for_hash_type_segwit sha dsha BTG t script idx ht = Raise E_SCRIPT.
Proof.
  intros H. unfold signature_hash, signature_for_hash_type_segwit. rewrite forkid_missing_spec, H.
  repeat split; reflexivity.
Qed.

(* ================================================================================================
   Part 11 — several signatures (CHECKMULTISIG); FindAndDelete keeps a script decodable *)
Lemma instr_complete s o len : core_get_op s = GOk o len -> core_get_op (firstn len s) = GOk o len.
Proof.
  unfold core_get_op. destruct s as [|b r]; [discriminate|].
  unfold OP_PUSHDATA4, OP_PUSHDATA1, OP_PUSHDATA2.
  destruct (b2n b <=? 78) eqn:E78.
  - set (w := if b2n b <? 76 then 0%nat else if b2n b =? 76 then 1%nat else if b2n b =? 77 then 2%nat else 4%nat).
    destruct (length r <? w)%nat eqn:E1; [discriminate|].
    set (nSize := if b2n b <? 76 then b2n b else le_decode (firstn w r)).
    destruct (N.of_nat (length r - w) <? nSize) eqn:E2; [discriminate|].
    intros Hr; injection Hr as <- <-.
    change (1 + w + N.to_nat nSize)%nat with (S (w + N.to_nat nSize)). cbn [firstn].
    rewrite E78. fold w. rewrite firstn_length.
    replace (Nat.min (w + N.to_nat nSize) (length r) <? w)%nat with false by lia.
    rewrite firstn_firstn. replace (Nat.min w (w + N.to_nat nSize)) with w by lia. fold nSize.
    replace (N.of_nat (Nat.min (w + N.to_nat nSize) (length r) - w) <? nSize) with false by lia.
    reflexivity.
  - intros Hr; injection Hr as <- <-. cbn [firstn]. now rewrite E78.
Qed.

Lemma decodable_fuel_irrel : forall f1 f2 s, (length s <= f1)%nat -> (length s <= f2)%nat ->
  decodable_fuel f1 s = decodable_fuel f2 s.
Proof.
  induction f1 as [|f1 IH]; intros f2 s H1 H2.
  - destruct s; [|cbn in H1; lia]. destruct f2; reflexivity.
  - destruct s as [|b r]; [destruct f2; reflexivity|].
    destruct f2 as [|f2]; [cbn in H2; lia|]. cbn [decodable_fuel].
    destruct (core_get_op (b :: r)) as [o len|] eqn:E; [|reflexivity].
    apply core_get_op_ok in E. apply IH; rewrite skipn_length; cbn [length] in *; lia.
Qed.

Lemma decodable_step s o len : core_get_op s = GOk o len -> core_decodable s = core_decodable (skipn len s).
Proof.
  intros Hop. pose proof (core_get_op_ok _ _ _ Hop) as [Hl [b [r [-> _]]]].
  unfold core_decodable. cbn [length decodable_fuel]. rewrite Hop.
  apply decodable_fuel_irrel. all: rewrite ?skipn_length; cbn [length] in *. all: lia.
Qed.

Lemma decodable_cons_instr s o len X : core_get_op s = GOk o len -> core_decodable X = true ->
  core_decodable (firstn len s ++ X) = true.
Proof.
  intros Hop HX. pose proof (core_get_op_ok _ _ _ Hop) as [Hl _].
  pose proof (instr_complete _ _ _ Hop) as Hc.
  assert (Hlen : length (firstn len s) = len) by (rewrite firstn_length; lia).
  rewrite <- Hlen in Hc at 2.
  pose proof (core_get_op_prefix _ X _ Hc) as Hp. rewrite Hlen in Hp.
  rewrite (decodable_step _ _ _ Hp). rewrite <- Hlen at 1. now rewrite skipn_app_exact.
Qed.

Lemma fad_preserves_decodable pat : complete_instruction pat -> forall fuel s, (length s <= fuel)%nat ->
  decodable_fuel fuel s = true -> core_decodable (fad_fuel fuel pat s) = true.
Proof.
  intros [po Hpat] fuel. induction fuel as [|f IH]; intros s Hlen Hd.
  - destruct s; [reflexivity|cbn in Hlen; lia].
  - cbn [fad_fuel]. destruct s as [|b r].
    + destruct pat as [|p0 pr]; [discriminate|]. reflexivity.
    + cbn [decodable_fuel] in Hd. destruct (is_prefix pat (b :: r)) eqn:EP.
      * pose proof (is_prefix_inv _ _ EP) as Hs.
        assert (Hop : core_get_op (b :: r) = GOk po (length pat)) by (rewrite Hs; now apply core_get_op_prefix).
        rewrite Hop in Hd. apply core_get_op_ok in Hop.
        apply IH; [rewrite skipn_length; cbn [length] in *; lia|exact Hd].
      * destruct (core_get_op (b :: r)) as [o len|] eqn:Hop; [|discriminate].
        pose proof (core_get_op_ok _ _ _ Hop) as [Hl _].
        eapply decodable_cons_instr; [exact Hop|].
        apply IH; [rewrite skipn_length; cbn [length] in *; lia|exact Hd].
Qed.

Lemma find_and_delete_keeps_decodable pat s : complete_instruction pat -> core_decodable s = true ->
  core_decodable (core_find_and_delete pat s) = true.
Proof.
  intros Hc Hd. unfold core_find_and_delete. destruct pat; [exact Hd|].
  now apply fad_preserves_decodable.
Qed.

Lemma delete_signatures_eq sigs : forall script,
  Forall (fun sg => N.of_nat (length sg) < 2 ^ 32) sigs ->
  delete_signatures script sigs = Ret (core_script_code_base script sigs).
Proof.
  induction sigs as [|sg sigs IH]; intros script Hall; [reflexivity|].
  inversion Hall as [|? ? Hl Hrest]; subst.
  cbn [delete_signatures]. unfold core_script_code_base. cbn [fold_left].
  rewrite delete_signature_eq by assumption. cbn [bind].
  now apply IH.
Qed.

(* ================================================================================================
   Part 12 — Core's two formulations of the legacy script-code serialization *)
Lemma core_formulations_agree script tx nIn ht : core_decodable script = true ->
  core_signature_hash_legacy script tx nIn ht = core_signature_hash_old script tx nIn ht.
Proof.
  intros Hd. unfold core_signature_hash_legacy, core_signature_hash_old.
  now rewrite ser_script_code_decodable.
Qed.

(* CHECKSIG  <push of 5 bytes, only 1 present: 00>  CODESEPARATOR *)
Definition witness_script : bytes := [xac; x05; x00; xab].
Definition witness_tx : tx :=
  mk_tx 1 [mk_txin (repeatb x11 32) 0 [] 4294967295] [mk_txout 1 [x51]] 0 [Some (mk_txout 2 [x51])].

Lemma witness_tx_wf : tx_wf witness_tx.
Proof.
  unfold tx_wf, witness_tx. cbn [tx_version tx_lock tx_ins tx_outs].
  refine (conj _ (conj _ (conj _ (conj _ (conj _ _))))).
  - reflexivity.
  - reflexivity.
  - constructor; [|constructor]. unfold txin_wf. cbn [ti_hash ti_index ti_seq].
    refine (conj _ (conj _ _)); reflexivity.
  - constructor; [|constructor]. unfold txout_wf. cbn [to_value to_script].
    split; reflexivity.
  - reflexivity.
  - reflexivity.
Qed.

(* on a script with an undecodable instruction the two formulations of Core differ from each other *)
Lemma core_formulations_differ_on_undecodable :
  core_decodable witness_script = false
  /\ core_signature_hash_legacy witness_script (to_core witness_tx) 0 1
     <> core_signature_hash_old witness_script (to_core witness_tx) 0 1.
Proof. split; [reflexivity|]. vm_compute. discriminate. Qed.

(* non-vacuity: a decodable script with two separators and an embedded signature push *)
Definition example_script : bytes := [xab; x02; x30; x01; xac; xab; x51].
Lemma example_decodable : core_decodable example_script = true.
Proof. vm_compute. reflexivity. Qed.

(* ================================================================================================
   Part 13 — the statements in the exact form Props/C04.v quotes *)
Lemma delete_subscript_total script sub : exists r, delete_subscript script sub = Ret r.
Proof. eexists. apply delete_subscript_dws. Qed.

Lemma find_and_delete_q pat script : complete_instruction pat ->
  delete_subscript script pat = Ret (core_find_and_delete pat script).
Proof. intros. now apply find_and_delete_eq. Qed.

Lemma signature_pattern_q sig : N.of_nat (length sig) < 2 ^ 32 ->
  plain_push sig = Ret (core_push sig) /\ complete_instruction (core_push sig).
Proof. intros H. split; [now apply plain_push_core_push | now apply core_push_complete]. Qed.

Lemma legacy_streaming_q t script idx ht :
  tx_wf t -> (idx < length (tx_ins t))%nat -> ht < 2 ^ 32 -> N.of_nat (length script) < 2 ^ 64 ->
  core_decodable script = true ->
  legacy_presig t script idx ht = Ret (presig_of_core (core_signature_hash_legacy script (to_core t) idx ht)).
Proof. intros. rewrite core_formulations_agree by assumption. now apply legacy_presig_eq. Qed.

Lemma legacy_digest_btc_ltc (sha256 dsha256 : bytes -> bytes) t script idx ht c :
  tx_wf t -> (idx < length (tx_ins t))%nat -> ht < 2 ^ 32 -> N.of_nat (length script) < 2 ^ 64 ->
  c = BTC \/ c = LTC ->
  signature_hash sha256 dsha256 c t script idx ht
  = Ret (be_decode (core_digest dsha256 (core_signature_hash_old script (to_core t) idx ht))).
Proof. intros. now apply legacy_digest_btc. Qed.

Lemma bip143_preimage_btc (sha256 dsha256 : bytes -> bytes) t script idx ht u :
  tx_wf t -> (idx < length (tx_ins t))%nat -> N.of_nat (length script) < 2 ^ 64 ->
  nth_error (tx_unspents t) idx = Some (Some u) -> to_value u < 2 ^ 64 -> ht < 2 ^ 32 ->
  btc_segwit_preimage dsha256 t script idx ht
  = Ret (bip143_preimage dsha256 script (to_core t) idx (to_value u) ht).
Proof. intros. now apply (btc_preimage_eq dsha256 t script idx). Qed.

Lemma bip143_digest_btc_ltc_bch (sha256 dsha256 : bytes -> bytes) t script idx ht u c :
  tx_wf t -> (idx < length (tx_ins t))%nat -> ht < 2 ^ 32 -> N.of_nat (length script) < 2 ^ 64 ->
  nth_error (tx_unspents t) idx = Some (Some u) -> to_value u < 2 ^ 64 ->
  c = BTC \/ c = LTC \/ c = BCH ->
  signature_for_hash_type_segwit sha256 dsha256 c t script idx ht
  = Ret (be_decode (dsha256 (bip143_preimage dsha256 script (to_core t) idx (to_value u) ht))).
Proof. intros. now apply segwit_digest_btc. Qed.

Lemma forkid_bch_q (sha256 dsha256 : bytes -> bytes) t script idx ht u :
  tx_wf t -> (idx < length (tx_ins t))%nat -> ht < 2 ^ 32 -> N.of_nat (length script) < 2 ^ 64 ->
  nth_error (tx_unspents t) idx = Some (Some u) -> to_value u < 2 ^ 64 ->
  signature_hash sha256 dsha256 BCH t script idx ht
  = forkid_result dsha256 (forkid_preimage dsha256 FORKID_BCH script (to_core t) idx (to_value u) ht).
Proof. intros. now apply forkid_bch. Qed.

Lemma forkid_btg_both (sha256 dsha256 : bytes -> bytes) t script idx ht u :
  tx_wf t -> (idx < length (tx_ins t))%nat -> ht < 2 ^ 32 -> N.of_nat (length script) < 2 ^ 64 ->
  nth_error (tx_unspents t) idx = Some (Some u) -> to_value u < 2 ^ 64 ->
  let spec := forkid_result dsha256 (forkid_preimage dsha256 FORKID_BTG script (to_core t) idx (to_value u) ht) in
  signature_hash sha256 dsha256 BTG t script idx ht = spec
  /\ signature_for_hash_type_segwit sha256 dsha256 BTG t script idx ht = spec.
Proof. intros. split; [now apply forkid_btg_legacy | now apply forkid_btg_segwit]. Qed.

Lemma grs_single_sha (sha256 dsha256 : bytes -> bytes) t script idx ht u :
  tx_wf t -> (idx < length (tx_ins t))%nat -> ht < 2 ^ 32 -> N.of_nat (length script) < 2 ^ 64 ->
  nth_error (tx_unspents t) idx = Some (Some u) -> to_value u < 2 ^ 64 ->
  signature_hash sha256 dsha256 GRS t script idx ht
  = Ret (be_decode (core_digest sha256 (core_signature_hash_old script (to_core t) idx ht)))
  /\ signature_for_hash_type_segwit sha256 dsha256 GRS t script idx ht
     = Ret (be_decode (sha256 (bip143_preimage sha256 script (to_core t) idx (to_value u) ht))).
Proof. intros. split; [now apply legacy_digest_grs | now apply segwit_digest_grs]. Qed.
