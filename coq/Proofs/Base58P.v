(* Proofs/Base58P.v — lemmas about Model/Base58.v (C11): radix conversion with leading-zero bookkeeping,
   Base58 both round trips, Base58Check round trip and bad-checksum rejection. *)
From PV Require Import Base.Bytes Base.Outcome Gen.GenCodecsC11 Model.Base58.
From Coq Require Import ZifyBool ZifyNat ZifyN.
Local Open Scope Z_scope.

(* ---- digits ------------------------------------------------------------------------------------- *)
(* number of leading zero digits, and the digits after them *)
Fixpoint lz (ds : list Z) : Z :=
  match ds with
  | d :: r => if d =? 0 then 1 + lz r else 0
  | [] => 0
  end.
Fixpoint strip (ds : list Z) : list Z :=
  match ds with
  | d :: r => if d =? 0 then strip r else ds
  | [] => []
  end.

Lemma lz_nonneg ds : 0 <= lz ds.
Proof. induction ds as [|d r IH]; cbn [lz]; [lia|]. destruct (d =? 0); lia. Qed.

Lemma lz_strip ds : ds = repeat 0 (Z.to_nat (lz ds)) ++ strip ds.
Proof.
  induction ds as [|d r IH]; cbn [lz strip]; [reflexivity|].
  destruct (d =? 0) eqn:E.
  - pose proof (lz_nonneg r). replace (Z.to_nat (1 + lz r)) with (S (Z.to_nat (lz r))) by lia.
    cbn [repeat app]. f_equal; [lia|exact IH].
  - reflexivity.
Qed.

Lemma lz_repeat k ds : lz (repeat 0 k ++ ds) = Z.of_nat k + lz ds.
Proof.
  induction k as [|k IH]; [cbn [repeat app]; lia|].
  cbn [repeat app lz]. change (0 =? 0) with true. cbv iota. rewrite IH. lia.
Qed.

Section Digits.
Variable b : Z.
Hypothesis Hb : 2 <= b.

Definition valfrom (v : Z) (ds : list Z) : Z := fold_left (fun a d => a * b + d) ds v.
Definition in_range (ds : list Z) : Prop := Forall (fun d => 0 <= d < b) ds.

Lemma valfrom_app v a c : valfrom v (a ++ c) = valfrom (valfrom v a) c.
Proof. unfold valfrom. apply fold_left_app. Qed.

Lemma valfrom_cons v d r : valfrom v (d :: r) = valfrom (v * b + d) r.
Proof. reflexivity. Qed.

Lemma valfrom_nonneg ds : in_range ds -> forall v, 0 <= v -> 0 <= valfrom v ds.
Proof.
  induction 1 as [|d r Hd _ IH]; intros v Hv; [exact Hv|].
  rewrite valfrom_cons. apply IH. nia.
Qed.

Lemma valfrom_pos ds : in_range ds -> forall v, 0 < v -> 0 < valfrom v ds.
Proof.
  induction 1 as [|d r Hd _ IH]; intros v Hv; [exact Hv|].
  rewrite valfrom_cons. apply IH. nia.
Qed.

Lemma valfrom_repeat0 k ds : valfrom 0 (repeat 0 k ++ ds) = valfrom 0 ds.
Proof.
  induction k as [|k IH]; cbn [repeat app]; [reflexivity|].
  rewrite valfrom_cons. replace (0 * b + 0) with 0 by lia. exact IH.
Qed.

Lemma in_range_repeat0 k : in_range (repeat 0 k).
Proof. induction k; cbn; constructor; [lia|assumption]. Qed.

Lemma strip_range ds : in_range ds -> in_range (strip ds).
Proof.
  induction 1 as [|d r Hd Hr IH]; cbn [strip]; [constructor|].
  destruct (d =? 0); [exact IH|]. now constructor.
Qed.

Lemma strip_val0 ds : in_range ds -> valfrom 0 ds = 0 -> strip ds = [].
Proof.
  induction 1 as [|d r Hd Hr IH]; cbn [strip]; [reflexivity|].
  rewrite valfrom_cons. intros E. destruct (d =? 0) eqn:E0.
  - apply IH. replace (0 * b + d) with 0 in E by lia. exact E.
  - exfalso. pose proof (valfrom_pos r Hr (0 * b + d)). lia.
Qed.

Lemma strip_snoc ds d : valfrom 0 (ds ++ [d]) <> 0 -> strip (ds ++ [d]) = strip ds ++ [d].
Proof.
  induction ds as [|x r IH]; intros H.
  - cbn [app strip] in *. unfold valfrom in H. cbn [fold_left] in H.
    destruct (d =? 0) eqn:E; [lia|reflexivity].
  - cbn [app strip] in *. destruct (x =? 0) eqn:E; [|reflexivity].
    apply IH. rewrite valfrom_cons in H. replace (0 * b + x) with 0 in H by lia. exact H.
Qed.

(* ---- to_long ------------------------------------------------------------------------------------ *)
Variable lookup : byte -> option Z.

Definition digits_of (s : bytes) (ds : list Z) : Prop := Forall2 (fun c d => lookup c = Some d) s ds.

Lemma to_long_loop_pos s ds : digits_of s ds -> in_range ds -> forall v p, 0 < v ->
  to_long_loop b lookup s v p = Ret (valfrom v ds, p).
Proof.
  induction 1 as [|c d s ds Hc _ IH]; intros Hr v p Hv; [reflexivity|].
  inversion Hr as [|? ? Hd Hr']; subst.
  cbn [to_long_loop]. rewrite Hc. rewrite valfrom_cons.
  assert (0 < v * b + d) by nia.
  replace (v * b + d =? 0) with false by lia. now apply IH.
Qed.

Lemma to_long_loop_zero s ds : digits_of s ds -> in_range ds -> forall p,
  to_long_loop b lookup s 0 p = Ret (valfrom 0 ds, p + lz ds).
Proof.
  induction 1 as [|c d s ds Hc Hs IH]; intros Hr p; [cbn; f_equal; f_equal; lia|].
  inversion Hr as [|? ? Hd Hr']; subst.
  cbn [to_long_loop lz]. rewrite Hc. rewrite valfrom_cons. replace (0 * b + d) with d by lia.
  destruct (d =? 0) eqn:E.
  - replace d with 0 by lia. rewrite IH by assumption. f_equal. f_equal. lia.
  - rewrite (to_long_loop_pos s ds Hs Hr') by lia. f_equal. f_equal. lia.
Qed.

Lemma to_long_spec s ds : digits_of s ds -> in_range ds ->
  to_long b lookup s = Ret (valfrom 0 ds, lz ds).
Proof. intros. unfold to_long. now rewrite (to_long_loop_zero s ds). Qed.

(* the first character without a digit value raises EncodingError *)
Lemma to_long_loop_bad s1 c s2 ds : digits_of s1 ds -> lookup c = None -> forall v p,
  to_long_loop b lookup (s1 ++ c :: s2) v p = Raise E_ENCODING.
Proof.
  induction 1 as [|c1 d s ds Hc _ IH]; intros Hn v p; cbn [app to_long_loop].
  - now rewrite Hn.
  - rewrite Hc. now apply IH.
Qed.

(* ---- from_long ---------------------------------------------------------------------------------- *)
Variable charset : Z -> option byte.
Variable csf : Z -> byte.
Hypothesis Hcs : forall r, 0 <= r < b -> charset r = Some (csf r).

Lemma from_long_loop_exists fuel : forall v acc, 0 <= v < b ^ Z.of_nat fuel ->
  exists ds, from_long_loop fuel v b charset acc = Ret (map csf ds ++ acc)
             /\ valfrom 0 ds = v /\ in_range ds /\ lz ds = 0.
Proof.
  induction fuel as [|f IH]; intros v acc Hv.
  - change (Z.of_nat 0) with 0 in Hv. rewrite Z.pow_0_r in Hv. assert (v = 0) by lia. subst.
    exists []. cbn. repeat split; constructor.
  - destruct (Z.eq_dec v 0) as [->|Hnz].
    + exists []. cbn. repeat split; constructor.
    + cbn [from_long_loop]. replace (v >? 0) with true by lia.
      assert (Hm : 0 <= v mod b < b) by (apply Z.mod_pos_bound; lia).
      rewrite (Hcs _ Hm).
      rewrite Nat2Z.inj_succ, Z.pow_succ_r in Hv by lia.
      assert (Hq : 0 <= v / b < b ^ Z.of_nat f).
      { split; [apply Z.div_pos; lia|]. apply Z.div_lt_upper_bound; lia. }
      destruct (IH (v / b) (csf (v mod b) :: acc) Hq) as (ds & E & Hval & Hr & Hlz).
      exists (ds ++ [v mod b]). rewrite E. repeat split.
      * rewrite map_app, <- app_assoc. reflexivity.
      * rewrite valfrom_app, Hval. cbn. pose proof (Z.div_mod v b). lia.
      * apply Forall_app. split; [exact Hr|]. constructor; [exact Hm|constructor].
      * destruct ds as [|x r].
        -- cbn in Hval. cbn [app lz]. assert (v mod b <> 0).
           { pose proof (Z.div_mod v b). lia. }
           replace (v mod b =? 0) with false by lia. reflexivity.
        -- cbn [app lz] in *. destruct (x =? 0); [|reflexivity]. pose proof (lz_nonneg r). lia.
Qed.

Lemma from_long_loop_digits ds : in_range ds -> forall fuel acc, valfrom 0 ds < b ^ Z.of_nat fuel ->
  from_long_loop fuel (valfrom 0 ds) b charset acc = Ret (map csf (strip ds) ++ acc).
Proof.
  induction ds as [|d p IH] using rev_ind; intros Hr fuel acc Hf.
  - destruct fuel; reflexivity.
  - apply Forall_app in Hr. destruct Hr as [Hp Hd]. inversion Hd as [|? ? Hd' _]; subst.
    pose proof (valfrom_nonneg p Hp 0 ltac:(lia)) as Hpv.
    destruct (Z.eq_dec (valfrom 0 (p ++ [d])) 0) as [E0|Hnz].
    + rewrite strip_val0; [|apply Forall_app; split; assumption|exact E0].
      rewrite E0. destruct fuel; reflexivity.
    + rewrite strip_snoc by exact Hnz.
      rewrite valfrom_app in *. cbn [valfrom fold_left] in *.
      fold (valfrom 0 p) in *. set (q := valfrom 0 p) in *.
      destruct fuel as [|f].
      { change (Z.of_nat 0) with 0 in Hf. rewrite Z.pow_0_r in Hf. lia. }
      cbn [from_long_loop]. replace (q * b + d >? 0) with true by nia.
      assert (Em : (q * b + d) mod b = d).
      { symmetry. apply (Z.mod_unique_pos _ _ q); lia. }
      assert (Eq : (q * b + d) / b = q).
      { symmetry. apply (Z.div_unique_pos _ _ q d); lia. }
      rewrite Em, Eq, (Hcs _ Hd').
      rewrite Nat2Z.inj_succ, Z.pow_succ_r in Hf by lia.
      rewrite IH; [|exact Hp|nia].
      rewrite map_app, <- app_assoc. reflexivity.
Qed.
End Digits.

Lemma fuel_enough b v : 2 <= b -> 0 <= v -> v < b ^ Z.of_nat (S (Z.to_nat (Z.log2 v))).
Proof.
  intros Hb Hv. destruct (Z.eq_dec v 0) as [->|Hnz].
  - apply Z.pow_pos_nonneg; lia.
  - pose proof (Z.log2_spec v ltac:(lia)) as [_ H]. pose proof (Z.log2_nonneg v).
    replace (Z.of_nat (S (Z.to_nat (Z.log2 v)))) with (Z.succ (Z.log2 v)) by lia.
    eapply Z.lt_le_trans; [exact H|]. apply Z.pow_le_mono_l. lia.
Qed.

(* ---- a digit codec: base, char -> digit, digit -> char ---------------------------------------------- *)
Record codec_ok (b : Z) (lookup : byte -> option Z) (charset : Z -> option byte) : Prop := {
  co_base : 2 <= b;
  co_ch_lk : forall r, 0 <= r < b -> exists c, charset r = Some c /\ lookup c = Some r;
  co_lk_ch : forall c r, lookup c = Some r -> 0 <= r < b /\ charset r = Some c
}.

Definition conv (b1 : Z) (lk1 : byte -> option Z) (b2 : Z) (cs2 : Z -> option byte) (s : bytes) : outcome bytes :=
  match to_long b1 lk1 s with
  | Ret (v, p) => from_long v p b2 cs2
  | Raise e => Raise e
  | OutOfFuel => OutOfFuel
  end.

Definition csf_of (charset : Z -> option byte) (r : Z) : byte :=
  match charset r with Some c => c | None => x00 end.

Lemma csf_of_ok b lk cs : codec_ok b lk cs -> forall r, 0 <= r < b -> cs r = Some (csf_of cs r).
Proof. intros H r Hr. destruct (co_ch_lk _ _ _ H r Hr) as (c & E & _). unfold csf_of. now rewrite E. Qed.

Lemma codec_digits b lk cs : codec_ok b lk cs -> forall s, Forall (fun c => lk c <> None) s ->
  exists ds, digits_of lk s ds /\ in_range b ds /\ s = map (csf_of cs) ds.
Proof.
  intros H. induction 1 as [|c s Hc _ (ds & Hd & Hr & E)].
  - exists []. repeat split; constructor.
  - destruct (lk c) as [d|] eqn:El; [|congruence].
    destruct (co_lk_ch _ _ _ H c d El) as [Hd1 Hd2].
    exists (d :: ds). repeat split.
    + now constructor.
    + now constructor.
    + cbn [map]. unfold csf_of at 1. rewrite Hd2. now f_equal.
Qed.

Lemma codec_digits_of_map b lk cs : codec_ok b lk cs -> forall ds, in_range b ds ->
  digits_of lk (map (csf_of cs) ds) ds.
Proof.
  intros H. induction 1 as [|d ds Hd _ IH]; cbn [map]; constructor; [|exact IH].
  destruct (co_ch_lk _ _ _ H d Hd) as (c & E1 & E2). unfold csf_of. now rewrite E1.
Qed.

Lemma map_repeat {A B} (f : A -> B) x n : map f (repeat x n) = repeat (f x) n.
Proof. induction n; cbn; congruence. Qed.

Theorem conv_roundtrip b1 lk1 cs1 b2 lk2 cs2 :
  codec_ok b1 lk1 cs1 -> codec_ok b2 lk2 cs2 ->
  forall s, Forall (fun c => lk1 c <> None) s ->
  exists t, conv b1 lk1 b2 cs2 s = Ret t /\ Forall (fun c => lk2 c <> None) t /\ conv b2 lk2 b1 cs1 t = Ret s.
Proof.
  intros H1 H2 s Hs.
  pose proof (co_base _ _ _ H1) as Hb1. pose proof (co_base _ _ _ H2) as Hb2.
  destruct (codec_digits _ _ _ H1 s Hs) as (ds1 & Hd1 & Hr1 & Es).
  pose proof (valfrom_nonneg b1 Hb1 ds1 Hr1 0 ltac:(lia)) as Hv.
  set (v := valfrom b1 0 ds1) in *. set (k := lz ds1).
  pose proof (lz_nonneg ds1) as Hk. fold k in Hk.
  unfold conv at 1. rewrite (to_long_spec b1 Hb1 lk1 s ds1 Hd1 Hr1). fold v k.
  unfold from_long.
  destruct (from_long_loop_exists b2 Hb2 cs2 (csf_of cs2) (csf_of_ok _ _ _ H2) _ v []
              (conj Hv (fuel_enough b2 v Hb2 Hv))) as (ds2 & E2 & Hval2 & Hr2 & Hlz2).
  rewrite E2, app_nil_r.
  rewrite (csf_of_ok _ _ _ H2 0 ltac:(lia)).
  set (t := repeat (csf_of cs2 0) (Z.to_nat k) ++ map (csf_of cs2) ds2).
  exists t.
  assert (Et : t = map (csf_of cs2) (repeat 0 (Z.to_nat k) ++ ds2)).
  { unfold t. now rewrite map_app, map_repeat. }
  assert (Hr2' : in_range b2 (repeat 0 (Z.to_nat k) ++ ds2)).
  { apply Forall_app. split; [apply in_range_repeat0; lia|exact Hr2]. }
  pose proof (codec_digits_of_map _ _ _ H2 _ Hr2') as Hd2. rewrite <- Et in Hd2.
  split; [reflexivity|]. split.
  - clear -Hd2. induction Hd2 as [|c d s ds Hc _ IH]; constructor; [congruence|exact IH].
  - unfold conv. rewrite (to_long_spec b2 Hb2 lk2 t _ Hd2 Hr2').
    rewrite valfrom_repeat0, lz_repeat, Hval2, Hlz2.
    replace (Z.of_nat (Z.to_nat k) + 0) with k by lia.
    unfold from_long. unfold v.
    rewrite (from_long_loop_digits b1 Hb1 cs1 (csf_of cs1) (csf_of_ok _ _ _ H1) ds1 Hr1)
      by (apply fuel_enough; [exact Hb1|exact Hv]).
    rewrite app_nil_r, (csf_of_ok _ _ _ H1 0 ltac:(lia)).
    f_equal. rewrite Es. rewrite (lz_strip ds1) at 2. fold k.
    now rewrite map_app, map_repeat.
Qed.

(* a character without a digit value makes the conversion raise EncodingError *)
Lemma conv_bad b1 lk1 b2 cs2 s : ~ Forall (fun c => lk1 c <> None) s ->
  conv b1 lk1 b2 cs2 s = Raise E_ENCODING.
Proof.
  intros H. unfold conv, to_long.
  assert (G : forall v p, to_long_loop b1 lk1 s v p = Raise E_ENCODING).
  { induction s as [|c s IH]; [exfalso; apply H; constructor|].
    intros v p. cbn [to_long_loop]. destruct (lk1 c) as [d|] eqn:E; [|reflexivity].
    apply IH. intros HF. apply H. constructor; [congruence|exact HF]. }
  now rewrite G.
Qed.

(* ---- the two codecs -------------------------------------------------------------------------------- *)
Lemma codec256 : codec_ok 256 byte_id z_to_byte.
Proof.
  split; [lia| |].
  - intros r Hr. exists (z2b r). unfold z_to_byte, byte_id.
    replace ((0 <=? r) && (r <? 256)) with true by lia. split; [reflexivity|].
    now rewrite b2z_z2b.
  - intros c r H. unfold byte_id in H. injection H as <-. pose proof (b2z_range c).
    split; [lia|]. unfold z_to_byte. replace ((0 <=? b2z c) && (b2z c <? 256)) with true by lia.
    now rewrite z2b_b2z.
Qed.

(* table facts about the GENERATED alphabet, decided by computation *)
Definition all_bytes : bytes := map (fun n => n2b (N.of_nat n)) (seq 0 256).
Lemma all_bytes_in c : In c all_bytes.
Proof.
  unfold all_bytes. apply in_map_iff. exists (N.to_nat (b2n c)). split.
  - rewrite N2Nat.id. apply n2b_b2n.
  - apply in_seq. pose proof (b2n_lt c). lia.
Qed.

Definition alpha_digit_ok (i : nat) : bool :=
  match alphabet_at b58_alphabet (Z.of_nat i) with
  | Some c => (match base58_lookup b58_alphabet c with Some j => j =? Z.of_nat i | None => false end)
              && (b2n c <? 128)%N
  | None => false
  end.
Definition alpha_byte_ok (c : byte) : bool :=
  match base58_lookup b58_alphabet c with
  | Some j => (0 <=? j) && (j <? base58_base b58_alphabet)
              && match alphabet_at b58_alphabet j with Some c' => byte_eqb c' c | None => false end
  | None => true
  end.

Lemma alpha_base : base58_base b58_alphabet = 58.
Proof. vm_compute. reflexivity. Qed.
Lemma alpha_digits_ok : forallb alpha_digit_ok (seq 0 58) = true.
Proof. vm_compute. reflexivity. Qed.
Lemma alpha_bytes_ok : forallb alpha_byte_ok all_bytes = true.
Proof. vm_compute. reflexivity. Qed.

Lemma alpha_digit_fact r : 0 <= r < 58 ->
  exists c, alphabet_at b58_alphabet r = Some c /\ base58_lookup b58_alphabet c = Some r /\ (b2n c < 128)%N.
Proof.
  intros Hr. pose proof (proj1 (forallb_forall _ _) alpha_digits_ok (Z.to_nat r)) as K.
  specialize (K ltac:(apply in_seq; lia)). unfold alpha_digit_ok in K.
  replace (Z.of_nat (Z.to_nat r)) with r in K by lia.
  destruct (alphabet_at b58_alphabet r) as [c|]; [|discriminate].
  exists c. apply andb_true_iff in K. destruct K as [K1 K2].
  destruct (base58_lookup b58_alphabet c) as [j|]; [|discriminate].
  repeat split; [f_equal; lia|lia].
Qed.

Lemma codec58 : codec_ok (base58_base b58_alphabet) (base58_lookup b58_alphabet) (alphabet_at b58_alphabet).
Proof.
  rewrite alpha_base. split; [lia| |].
  - intros r Hr. destruct (alpha_digit_fact r Hr) as (c & E1 & E2 & _). eauto.
  - intros c r H. pose proof (proj1 (forallb_forall _ _) alpha_bytes_ok c (all_bytes_in c)) as K.
    unfold alpha_byte_ok in K. rewrite H, alpha_base in K.
    apply andb_true_iff in K. destruct K as [K1 K2].
    destruct (alphabet_at b58_alphabet r) as [c'|]; [|discriminate].
    apply byte_eqb_eq in K2. subst. split; [lia|reflexivity].
Qed.

(* every character the encoder emits is ASCII *)
Lemma lookup_ascii c : base58_lookup b58_alphabet c <> None -> (b2n c < 128)%N.
Proof.
  intros H. destruct (base58_lookup b58_alphabet c) as [r|] eqn:E; [|congruence].
  destruct (co_lk_ch _ _ _ codec58 c r E) as [Hr Hc]. rewrite alpha_base in Hr.
  destruct (alpha_digit_fact r Hr) as (c' & E1 & _ & Ha). congruence.
Qed.

(* ---- ASCII strings ---------------------------------------------------------------------------------- *)
Definition str_of (b : bytes) : pystr := map b2n b.

Lemma ascii_decode_ok b : Forall (fun c => (b2n c < 128)%N) b -> ascii_decode b = Ret (str_of b).
Proof.
  induction 1 as [|c r Hc _ IH]; [reflexivity|].
  cbn [ascii_decode str_of map]. replace (b2n c <? 128)%N with true by lia. now rewrite IH.
Qed.

Lemma utf8_encode_ascii b : Forall (fun c => (b2n c < 128)%N) b -> utf8_encode (str_of b) = Ret b.
Proof.
  induction 1 as [|c r Hc _ IH]; [reflexivity|].
  cbn [utf8_encode str_of map]. unfold utf8_char. replace (b2n c <? 128)%N with true by lia.
  fold (str_of r). rewrite IH, n2b_b2n. reflexivity.
Qed.

(* ---- Base58 ------------------------------------------------------------------------------------------ *)
Local Notation A := b58_alphabet.

Lemma b2a_as_conv s : b2a_base58 A s =
  match conv 256 byte_id (base58_base A) (alphabet_at A) s with
  | Ret b => ascii_decode b | Raise e => Raise e | OutOfFuel => OutOfFuel end.
Proof. unfold b2a_base58, conv. destruct (to_long 256 byte_id s) as [[v p]| |]; reflexivity. Qed.

Lemma a2b_as_conv t : a2b_base58 A t =
  match utf8_encode t with
  | Ret b => conv (base58_base A) (base58_lookup A) 256 z_to_byte b
  | Raise E_VALUE => Raise E_ENCODING
  | Raise e => Raise e | OutOfFuel => OutOfFuel end.
Proof.
  unfold a2b_base58, conv. destruct (utf8_encode t) as [b|e|]; try reflexivity. destruct e; reflexivity.
Qed.

Lemma all_bytes_digits s : Forall (fun c => byte_id c <> None) s.
Proof. induction s; constructor; [discriminate|assumption]. Qed.

(* a2b_base58 (b2a_base58 s) = s for EVERY byte string *)
Theorem b58_decode_encode : forall s : bytes,
  exists t, btc_b2a_base58 s = Ret t /\ btc_a2b_base58 t = Ret s.
Proof.
  intros s. unfold btc_b2a_base58, btc_a2b_base58.
  destruct (conv_roundtrip _ _ _ _ _ _ codec256 codec58 s (all_bytes_digits s)) as (t & E1 & Ht & E2).
  assert (Ha : Forall (fun c => (b2n c < 128)%N) t).
  { eapply Forall_impl; [|exact Ht]. intros c. apply lookup_ascii. }
  exists (str_of t). rewrite b2a_as_conv, E1, a2b_as_conv, (utf8_encode_ascii t Ha). split.
  - now apply ascii_decode_ok.
  - exact E2.
Qed.

(* the strings over the alphabet *)
Definition b58_char (c : N) : Prop := exists x, In x A /\ c = b2n x.
Definition b58_charb (c : N) : bool := existsb (fun x => (b2n x =? c)%N) A.

Lemma b58_charb_iff c : b58_charb c = true <-> b58_char c.
Proof.
  unfold b58_charb, b58_char. rewrite existsb_exists. split; intros (x & H1 & H2); exists x; split; auto; lia.
Qed.

Lemma in_alphabet_lookup x : In x A <-> base58_lookup A x <> None.
Proof.
  pose proof (all_bytes_in x) as Hin. revert x Hin.
  assert (G : forallb (fun x => Bool.eqb (existsb (byte_eqb x) A)
               (match base58_lookup A x with Some _ => true | None => false end)) all_bytes = true)
    by (vm_compute; reflexivity).
  intros x Hin. pose proof (proj1 (forallb_forall _ _) G x Hin) as K. apply Bool.eqb_prop in K.
  split.
  - intros H. destruct (base58_lookup A x); [discriminate|]. exfalso.
    assert (existsb (byte_eqb x) A = true) by (apply existsb_exists; exists x; split; [exact H|apply byte_eqb_refl]).
    congruence.
  - intros H. destruct (base58_lookup A x); [|congruence].
    apply existsb_exists in K. destruct K as (y & Hy & E). apply byte_eqb_eq in E. now subst.
Qed.

(* b2a_base58 (a2b_base58 t) = t for EVERY string over the alphabet *)
Theorem b58_encode_decode : forall t : pystr, Forall b58_char t ->
  exists s, btc_a2b_base58 t = Ret s /\ btc_b2a_base58 s = Ret t.
Proof.
  intros t Ht. unfold btc_b2a_base58, btc_a2b_base58.
  assert (exists tb, t = str_of tb /\ Forall (fun c => base58_lookup A c <> None) tb) as (tb & -> & Htb).
  { induction Ht as [|c r (x & Hx & ->) _ (tb & -> & IH)].
    - exists []. split; [reflexivity|constructor].
    - exists (x :: tb). split; [reflexivity|]. constructor; [now apply in_alphabet_lookup|exact IH]. }
  assert (Ha : Forall (fun c => (b2n c < 128)%N) tb).
  { eapply Forall_impl; [|exact Htb]. intros c. apply lookup_ascii. }
  destruct (conv_roundtrip _ _ _ _ _ _ codec58 codec256 tb Htb) as (s & E1 & _ & E2).
  exists s. rewrite a2b_as_conv, (utf8_encode_ascii tb Ha), E1, b2a_as_conv, E2.
  split; [reflexivity|]. now apply ascii_decode_ok.
Qed.

(* ---- rejection of strings outside the alphabet ------------------------------------------------------- *)
(* str.encode("utf8") either succeeds or raises UnicodeEncodeError (lone surrogate) *)
Lemma utf8_encode_cases t : (exists b, utf8_encode t = Ret b) \/ utf8_encode t = Raise E_VALUE.
Proof.
  induction t as [|c r IH]; [left; now exists []|].
  cbn [utf8_encode].
  assert (Hc : (exists bc, utf8_char c = Ret bc) \/ utf8_char c = Raise E_VALUE).
  { unfold utf8_char. destruct (c <? 128)%N; [eauto|]. destruct (c <? 2048)%N; [eauto|].
    destruct ((55296 <=? c) && (c <=? 57343))%N; [now right|]. destruct (c <? 65536)%N; [eauto|].
    destruct (c <? 1114112)%N; [eauto|now right]. }
  destruct Hc as [(bc & ->) | ->]; [|now right].
  destruct IH as [(br & ->) | ->]; [left; eauto|now right].
Qed.

Lemma utf8_char_b58 c bc : utf8_char c = Ret bc ->
  Forall (fun x => base58_lookup A x <> None) bc -> b58_char c.
Proof.
  unfold utf8_char. intros E HF.
  assert (Hhi : forall n r, (128 <= n < 256)%N -> ~ Forall (fun x => base58_lookup A x <> None) (n2b n :: r)).
  { intros n r Hn HF'. inversion HF' as [|? ? H1 _]; subst. apply lookup_ascii in H1.
    rewrite b2n_n2b in H1 by lia. lia. }
  destruct (c <? 128)%N eqn:E1.
  - injection E as <-. inversion HF as [|? ? H1 _]; subst.
    exists (n2b c). split; [now apply in_alphabet_lookup|]. rewrite b2n_n2b by lia. reflexivity.
  - destruct (c <? 2048)%N eqn:E2.
    { injection E as <-. exfalso. refine (Hhi (192 + c / 64)%N _ _ HF).
      assert (c / 64 < 32)%N by (apply N.div_lt_upper_bound; lia). lia. }
    destruct ((55296 <=? c) && (c <=? 57343))%N; [discriminate|].
    destruct (c <? 65536)%N eqn:E3.
    { injection E as <-. exfalso. refine (Hhi (224 + c / 4096)%N _ _ HF).
      assert (c / 4096 < 16)%N by (apply N.div_lt_upper_bound; lia). lia. }
    destruct (c <? 1114112)%N eqn:E4; [|discriminate].
    injection E as <-. exfalso. refine (Hhi (240 + c / 262144)%N _ _ HF).
    assert (c / 262144 < 5)%N by (apply N.div_lt_upper_bound; lia). lia.
Qed.

Lemma utf8_encode_b58 t : forall b, utf8_encode t = Ret b ->
  Forall (fun x => base58_lookup A x <> None) b -> Forall b58_char t.
Proof.
  induction t as [|c r IH]; intros b E HF; [constructor|].
  cbn [utf8_encode] in E. destruct (utf8_char c) as [bc| |] eqn:Ec; try discriminate.
  destruct (utf8_encode r) as [br| |] eqn:Er; try discriminate. injection E as <-.
  apply Forall_app in HF. destruct HF as [HF1 HF2].
  constructor; [eapply utf8_char_b58; eauto|eapply IH; eauto].
Qed.

(* EVERY str that has a character outside the alphabet (non-ASCII text and lone surrogates included)
   raises EncodingError *)
Theorem b58_rejects_non_alphabet : forall t : pystr, ~ Forall b58_char t ->
  btc_a2b_base58 t = Raise E_ENCODING.
Proof.
  intros t Hn. unfold btc_a2b_base58. rewrite a2b_as_conv.
  destruct (utf8_encode_cases t) as [(b & E)|E]; rewrite E; [|reflexivity].
  apply conv_bad. intros HF. apply Hn. eapply utf8_encode_b58; eauto.
Qed.

(* the decoder never raises anything but EncodingError and never runs out of fuel *)
Theorem b58_decode_total : forall t : pystr,
  (exists s, btc_a2b_base58 t = Ret s) \/ btc_a2b_base58 t = Raise E_ENCODING.
Proof.
  intros t. destruct (Forall_dec b58_char
    (fun c => ltac:(destruct (b58_charb c) eqn:E; [left; now apply b58_charb_iff|
                    right; intros H; apply b58_charb_iff in H; congruence])) t) as [H|H].
  - left. destruct (b58_encode_decode t H) as (s & E & _). eauto.
  - right. now apply b58_rejects_non_alphabet.
Qed.

(* ---- Base58Check -------------------------------------------------------------------------------------- *)
Section Hashed.
Variable H : bytes -> bytes.

Lemma but_last4_app d c : length c = 4%nat -> but_last4 (d ++ c) = d.
Proof.
  intros Hc. unfold but_last4. rewrite app_length, Hc.
  replace (length d + 4 - 4)%nat with (length d) by lia. apply firstn_app_exact.
Qed.
Lemma last4_app d c : length c = 4%nat -> last4 (d ++ c) = c.
Proof.
  intros Hc. unfold last4. rewrite app_length, Hc.
  replace (length d + 4 - 4)%nat with (length d) by lia. apply skipn_app_exact.
Qed.

Theorem b58check_roundtrip : (forall x, (4 <= length (H x))%nat) -> forall d : bytes,
  exists t, btc_b2a_hashed_base58 H d = Ret t /\ btc_a2b_hashed_base58 H t = Ret d
            /\ btc_is_hashed_base58_valid H t = Ret true /\ btc_parse_b58_double_sha256 H t = Some d.
Proof.
  intros HH d. unfold btc_b2a_hashed_base58, btc_a2b_hashed_base58, btc_is_hashed_base58_valid,
    btc_parse_b58_double_sha256, b2a_hashed_base58, is_hashed_base58_valid, parse_b58_double_sha256,
    parse_b58, a2b_hashed_base58.
  destruct (b58_decode_encode (d ++ firstn 4 (H d))) as (t & E1 & E2).
  unfold btc_b2a_base58, btc_a2b_base58 in *.
  assert (Hl : length (firstn 4 (H d)) = 4%nat) by (rewrite firstn_length; specialize (HH d); lia).
  exists t. rewrite E1, E2, (but_last4_app d _ Hl), (last4_app d _ Hl), bytes_eqb_refl.
  repeat split; try reflexivity.
  destruct (d ++ firstn 4 (H d)) as [|c r] eqn:E.
  - apply (f_equal (@length _)) in E. rewrite app_length, Hl in E. cbn in E. lia.
  - rewrite <- E, (but_last4_app d _ Hl), (last4_app d _ Hl), bytes_eqb_refl. reflexivity.
Qed.

(* whatever the hash function: a decoded string whose last four bytes are not the first four bytes of the
   hash of the rest is rejected by all three entry points *)
Theorem b58check_rejects_bad_checksum : forall (t : pystr) (data : bytes),
  btc_a2b_base58 t = Ret data -> firstn 4 (H (but_last4 data)) <> last4 data ->
  btc_a2b_hashed_base58 H t = Raise E_ENCODING /\ btc_is_hashed_base58_valid H t = Ret false
  /\ btc_parse_b58_double_sha256 H t = None.
Proof.
  intros t data E Hne. unfold btc_a2b_hashed_base58, btc_is_hashed_base58_valid,
    btc_parse_b58_double_sha256, is_hashed_base58_valid, parse_b58_double_sha256, parse_b58, a2b_hashed_base58.
  unfold btc_a2b_base58 in E. rewrite E.
  destruct (bytes_eqb (firstn 4 (H (but_last4 data))) (last4 data)) eqn:Eb.
  - apply bytes_eqb_eq in Eb. contradiction.
  - repeat split; try reflexivity. destruct data; [reflexivity|]. now rewrite Eb.
Qed.

(* non-vacuity / constructive form: every payload followed by four bytes that are not its checksum
   encodes to a string that is rejected *)
Corollary b58check_wrong_checksum_rejected : forall (d c : bytes), length c = 4%nat -> c <> firstn 4 (H d) ->
  exists t, btc_b2a_base58 (d ++ c) = Ret t /\ btc_a2b_hashed_base58 H t = Raise E_ENCODING
            /\ btc_is_hashed_base58_valid H t = Ret false.
Proof.
  intros d c Hc Hne. destruct (b58_decode_encode (d ++ c)) as (t & E1 & E2).
  exists t. split; [exact E1|].
  destruct (b58check_rejects_bad_checksum t (d ++ c) E2) as (R1 & R2 & _).
  - rewrite (but_last4_app d c Hc), (last4_app d c Hc). congruence.
  - now split.
Qed.

(* acceptance is exactly "decodes, and the last four bytes are the checksum of the rest" *)
Theorem b58check_accepts_iff : forall (t : pystr) (body : bytes),
  btc_a2b_hashed_base58 H t = Ret body <->
  exists data, btc_a2b_base58 t = Ret data /\ body = but_last4 data /\ firstn 4 (H body) = last4 data.
Proof.
  intros t body. unfold btc_a2b_hashed_base58, a2b_hashed_base58, btc_a2b_base58. split.
  - destruct (a2b_base58 A t) as [data| |]; try discriminate.
    destruct (bytes_eqb _ _) eqn:Eb; [|discriminate]. intros E. injection E as <-.
    apply bytes_eqb_eq in Eb. eauto.
  - intros (data & -> & -> & E). rewrite E, bytes_eqb_refl. reflexivity.
Qed.
End Hashed.
