(* Proofs/ComposeTemplatesNonPush.v — composition C05 x C03, part 8: scriptSigs Templates.parse_pushes refuses.
   Templates answers `false` for them; for a P2SH scriptPubKey that is Core's answer too: such a scriptSig is either
   not push-only in Core's sense (IsPushOnly: an opcode above OP_16 or an undecodable instruction) or contains
   OP_RESERVED (0x50: push-only for IsPushOnly, BAD_OPCODE when executed) or fails while being evaluated. *)
From Coq Require Import Lia ZifyBool ZifyNat ZifyN.
From PV Require Import Base.Bytes Base.Outcome Gen.GenFlags Proofs.PushP Spec.Templates.
From PV Require Import Model.ScriptNum Spec.VMTypes Spec.VMcore.
From PV Require Import Proofs.SolveP Proofs.ComposeTemplatesEnc Proofs.ComposeTemplatesEval Proofs.ComposeTemplatesFad
                       Proofs.ComposeTemplatesSingle Proofs.ComposeTemplatesMulti Proofs.ComposeTemplatesVerify
                       Proofs.ComposeTemplatesWrap.
Local Open Scope N_scope.

Lemma parse_one_none s : parse_one s = None -> s <> [] ->
  get_op s = None \/ exists op r, get_op s = Some (op, [], r) /\ (b2n op = 80 \/ 96 < b2n op).
Proof.
  destruct s as [|op t]; [contradiction|]. intros H _. revert H. unfold parse_one. cbv zeta.
  pose proof (b2n_lt op) as Hop.
  destruct (b2n op =? 0) eqn:E0; [discriminate|].
  destruct (b2n op <=? 75) eqn:E75.
  { destruct (length t <? N.to_nat (b2n op))%nat eqn:El; [|discriminate]. intros _. left.
    cbn [get_op]. replace (78 <? b2n op) with false by lia. replace (b2n op <? 76) with true by lia.
    rewrite take_n_nat, El. reflexivity. }
  destruct (b2n op =? 76) eqn:E76.
  { intros H. left. cbn [get_op]. replace (78 <? b2n op) with false by lia. replace (b2n op <? 76) with false by lia.
    rewrite E76. destruct t as [|l r']; [reflexivity|].
    destruct (length r' <? N.to_nat (b2n l))%nat eqn:El; [|discriminate].
    cbn [length Nat.ltb Nat.leb firstn skipn le_decode]. replace (b2n l + 256 * 0) with (b2n l) by lia.
    rewrite take_n_nat, El. reflexivity. }
  destruct (b2n op =? 77) eqn:E77.
  { intros H. left. cbn [get_op]. replace (78 <? b2n op) with false by lia. replace (b2n op <? 76) with false by lia.
    rewrite E76, E77. destruct (length t <? 2)%nat eqn:El2; [reflexivity|].
    destruct (N.of_nat (length (skipn 2 t)) <? le_decode (firstn 2 t)) eqn:El; [|discriminate].
    unfold take_n, VMcore.len. rewrite El. reflexivity. }
  destruct (b2n op =? 78) eqn:E78.
  { intros H. left. cbn [get_op]. replace (78 <? b2n op) with false by lia. replace (b2n op <? 76) with false by lia.
    rewrite E76, E77. destruct (length t <? 4)%nat eqn:El2; [reflexivity|].
    destruct (N.of_nat (length (skipn 4 t)) <? le_decode (firstn 4 t)) eqn:El; [|discriminate].
    unfold take_n, VMcore.len. rewrite El. reflexivity. }
  destruct (b2n op =? 79) eqn:E79; [discriminate|].
  destruct ((81 <=? b2n op) && (b2n op <=? 96)) eqn:E81; [discriminate|].
  intros _. right. exists op, t. split; [|lia]. cbn [get_op]. replace (78 <? b2n op) with true by lia. reflexivity.
Qed.

Lemma step_reserved o fw sv ctx op rest st opc bch : b2n op = 80 ->
  VMcore.step o fw sv ctx op [] rest (mk st opc bch) = CErr SE_BAD_OPCODE.
Proof. intros H. assert (op = x50) as -> by (apply b2n_inj; exact H). reflexivity. Qed.

Lemma is_push_only_step s op d r : get_op s = Some (op, d, r) ->
  is_push_only s = if 96 <? b2n op then false else is_push_only r.
Proof.
  intros G. unfold is_push_only. destruct s as [|b t]; [discriminate|]. cbn [length is_push_only_f]. rewrite G.
  destruct (96 <? b2n op); [reflexivity|]. apply get_op_shrinks in G. cbn [length] in G.
  apply is_push_only_fuel; lia.
Qed.

Section NonPush.
Variable o : oracles.
Variable fw : N.
Variable ctx : txctx.

Lemma parse_none_core fuel : forall ss st opc bch, parse_pushes_f fuel ss = None -> (length ss <= fuel)%nat ->
  is_push_only ss = false \/ exists e, crun o fw SV_BASE ctx ss (mk st opc bch) = CErr e.
Proof.
  induction fuel as [|f IH]; intros ss st opc bch H Hl.
  - destruct ss; [discriminate|cbn in Hl; lia].
  - destruct ss as [|b t]; [discriminate|]. cbn [parse_pushes_f] in H.
    destruct (parse_one (b :: t)) as [[[d r] m1]|] eqn:E1.
    + destruct (parse_pushes_f f r) as [[ds ms]|] eqn:E2; [discriminate|].
      destruct (parse_one_step o fw SV_BASE ctx _ _ _ _ E1) as (op & d' & G & Hop & Hs).
      pose proof (get_op_shrinks _ _ _ _ G) as Hsh. cbn [length] in Hsh, Hl.
      rewrite (is_push_only_step _ _ _ _ G). replace (96 <? b2n op) with false by lia.
      rewrite (crun_step o fw SV_BASE ctx _ _ _ _ _ G), Hs. unfold push_step_res.
      destruct (520 <? lenN d); [right; eexists; reflexivity|].
      destruct (_ && _); [right; eexists; reflexivity|].
      destruct (1000 <? lenN st + 1); [right; eexists; reflexivity|]. cbn [cbind].
      exact (IH r (d :: st) opc bch E2 ltac:(lia)).
    + destruct (parse_one_none _ E1 ltac:(discriminate)) as [G|(op & r & G & Hop)].
      * left. unfold is_push_only. cbn [length is_push_only_f]. now rewrite G.
      * destruct Hop as [Hop|Hop].
        -- right. rewrite (crun_step o fw SV_BASE ctx _ _ _ _ _ G), (step_reserved _ _ _ _ _ _ _ _ _ Hop). eexists. reflexivity.
        -- left. rewrite (is_push_only_step _ _ _ _ G). replace (96 <? b2n op) with true by lia. reflexivity.
Qed.

Lemma parse_none_eval ss : parse_pushes ss = None ->
  is_push_only ss = false \/ exists e, eval_script_e o fw SV_BASE ctx ss [] = CErr e.
Proof.
  intros H. rewrite eval_script_fin. destruct (MAX_SCRIPT_SIZE <? VMcore.len ss); [right; eexists; reflexivity|].
  destruct (parse_none_core (length ss) ss [] 0 ss H (le_n _)) as [Hp|[e He]]; [left; exact Hp|].
  right. rewrite He. eexists. reflexivity.
Qed.

(* VerifyScript: a P2SH spend whose scriptSig Templates cannot parse is invalid *)
Lemma verify_p2sh_nonpush fl ss H wit : flags_rel fl fw -> length H = 20%nat -> parse_pushes ss = None ->
  exists e, VerifyScriptE o {| sp_script_sig := ss; sp_script_pubkey := p2sh_script H; sp_witness := wit;
                               sp_flags := fw; sp_ctx := ctx |} = CErr e.
Proof.
  intros Hfl HH Hp. unfold VerifyScriptE. cbn [sp_flags sp_ctx sp_script_sig sp_script_pubkey sp_witness].
  destruct (_ && _); [eexists; reflexivity|].
  destruct (parse_none_eval ss Hp) as [Hpo|[e He]]; [|rewrite He; eexists; reflexivity].
  destruct (nf_cases _ (nf_eval_script_e o fw SV_BASE ctx ss [])) as [[sc ->]|[e ->]]; [|eexists; reflexivity].
  cbn [cbind].
  destruct (nf_cases _ (nf_eval_script_e o fw SV_BASE ctx (p2sh_script H) sc)) as [[st ->]|[e ->]]; [|eexists; reflexivity].
  cbn [cbind].
  destruct (nf_cases _ (nf_top_true st)) as [[[] ->]|[e ->]]; [|eexists; reflexivity].
  cbn [cbind]. rewrite (p2sh_not_wp H), (p2sh_is_p2sh H HH), (fr_p2sh _ _ Hfl). destruct (flag_set fw VERIFY_WITNESS); cbn [cbind andb];
    rewrite Hpo; eexists; reflexivity.
Qed.
End NonPush.
