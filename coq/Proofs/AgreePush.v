(* Proofs/AgreePush.v — C03 agreement, family (1): one whole instruction (eval_instruction against the body of
   EvalScript's loop) for every opcode <= OP_16: direct pushes, OP_PUSHDATA1/2/4 (truncated, MINIMALDATA rule,
   push-size limit), OP_0, OP_1NEGATE, OP_1..OP_16 and OP_RESERVED, executed or not; the stack-size test. *)
From Coq Require Import Lia ZifyBool ZifyNat ZifyN.
From PV Require Import Base.Bytes Base.Outcome Gen.GenOpcodes Gen.GenFlags.
From PV Require Import Model.ScriptNum Model.Push Model.CondStack Spec.CondStackCore Proofs.CondStackP.
From PV Require Import Spec.VMTypes Model.VMpy Spec.VMcore Proofs.AgreeBase.
Local Open Scope N_scope.

Lemma not_disabled_small ob : (b2n ob <=? 125) = true -> is_disabled ob = false.
Proof. destruct ob; vm_compute; intros H; try reflexivity; discriminate H. Qed.

Lemma hk_push ob : (b2n ob <=? 96) = true -> (b2n ob =? 80) = false ->
  hk (b2n ob) = KNoOp \/ hk (b2n ob) = KLambda0.
Proof.
  destruct ob; vm_compute; intros H1 H2; try discriminate H1; try discriminate H2;
    try (left; reflexivity); right; reflexivity.
Qed.

Lemma const_exec o flags sv ctx ob :
  ((b2n ob =? 79) || ((81 <=? b2n ob) && (b2n ob <=? 96))) = true ->
  const_of (b2n ob) = Some (num_vec (Z.of_N (b2n ob) - 80)) /\
  forall rest fx c, exec_op o flags sv ctx ob rest fx c = COk (set_stack c (num_vec (Z.of_N (b2n ob) - 80) :: e_stack c)).
Proof.
  destruct ob; intros H; try (vm_compute in H; discriminate H); split; try (vm_compute; reflexivity); intros; reflexivity.
Qed.

Section Push.
Variable o : oracles.
Variable flags : N.
Variable sv : sigversion.
Variable ctx : txctx.
Variable script : bytes.

Notation abs := (abs script).
Notation sim := (sim script).
Notation pystep := (VMpy.step o flags sv ctx script).
Notation corestep := (VMcore.step o flags sv ctx).

(* results of one whole instruction; rest' is Core's pc afterwards *)
Definition sres (r1 : vres vmstate) (r2 : cres est) (rest' : bytes) : Prop :=
  match r1, r2 with
  | VOk s', COk c' => sim s' c' /\ rest' = skipn (st_pc s') script
  | VFail, CErr _ => True
  | _, _ => False
  end.

(* the tests both sides make after the opcode ran *)
Lemma finish_agree s2 vf rest' :
  cond_rel (st_cond s2) vf -> (0 <= st_opc s2 <= Z.of_N MAX_OP_COUNT)%Z -> rest' = skipn (st_pc s2) script ->
  sres (if (Z.of_N MAX_OP_COUNT <? st_opc s2)%Z then VFail
        else if negb (check_stack_size s2) then VFail else VOk s2)
       (if MAX_STACK_ITEMS <? depth (e_stack (abs s2 vf)) + depth (e_alt (abs s2 vf))
        then CErr SE_STACK_SIZE else COk (abs s2 vf)) rest'.
Proof.
  intros R Ho Hr. replace (Z.of_N MAX_OP_COUNT <? st_opc s2)%Z with false by lia.
  unfold check_stack_size, depth, MAX_STACK_ITEMS, MAX_STACK_SIZE. cbn [abs e_stack e_alt].
  destruct (N.ltb_spec 1000 (N.of_nat (length (st_stack s2)) + N.of_nat (length (st_alt s2)))) as [H|H].
  - replace (N.of_nat (length (st_stack s2) + length (st_alt s2)) <=? 1000) with false by lia. exact I.
  - replace (N.of_nat (length (st_stack s2) + length (st_alt s2)) <=? 1000) with true by lia.
    cbn [negb sres]. split; [|exact Hr]. exists vf. auto.
Qed.

Lemma step_agree_push s vf ob r :
  cond_rel (st_cond s) vf -> (0 <= st_opc s <= Z.of_N MAX_OP_COUNT)%Z ->
  skipn (st_pc s) script = ob :: r -> b2n ob <= 78 ->
  match get_op (ob :: r) with
  | None => pystep s = VFail
  | Some (op, data, rest') => sres (pystep s) (corestep op data rest' (abs s vf)) rest'
  end.
Proof.
  intros R Ho Hs Hn.
  pose proof (cond_rel_all_true _ _ R) as Hall.
  pose proof (decode_agree script (VMpy.flag flags VERIFY_MINIMALDATA && c_all_if_true (st_cond s)) _ _ _ Hs) as D.
  cbv zeta in D.
  destruct (get_op (ob :: r)) as [[[op data] rest']|].
  2: { destruct D as (_ & pc' & E). unfold VMpy.step. rewrite E. reflexivity. }
  destruct D as (-> & D). replace (b2n ob <=? 78) with true in D by lia.
  unfold VMpy.step, VMcore.step. cbn [abs e_vf e_opc].
  change (forallb (fun b : bool => b) vf) with (vf_all_true vf). rewrite Hall.
  replace (96 <? b2n ob) with false by lia. cbn [andb].
  rewrite not_disabled_small by lia.
  replace (b2n ob <=? 78) with true by lia. rewrite andb_true_r.
  replace ((99 <=? b2n ob) && (b2n ob <=? 104)) with false by lia. rewrite orb_false_r.
  unfold VMpy.flag in *. unfold MAX_SCRIPT_ELEMENT_SIZE, MAX_BLOB_LENGTH, len.
  destruct (flag_set flags VERIFY_MINIMALDATA && c_all_if_true (st_cond s) && negb (check_minimal_push data (b2n ob))) eqn:Em.
  { rewrite D. cbn [lift vbind].
    destruct (520 <? N.of_nat (length data)); [exact I|].
    destruct (c_all_if_true (st_cond s)); [|rewrite andb_false_r in Em; discriminate].
    rewrite andb_true_r in Em. rewrite Em. exact I. }
  destruct D as (pc' & E & Hr'). rewrite E. cbn [lift vbind negb].
  destruct (520 <? N.of_nat (length data)); [exact I|].
  destruct (hk_push ob ltac:(lia) ltac:(lia)) as [Hk|Hk]; rewrite Hk; cbn [hk_outside VMpy.handler orb].
  all: destruct (c_all_if_true (st_cond s)) eqn:Ex; cbn [vbind orb andb].
  all: try (rewrite andb_true_r in Em; rewrite Em).
  all: cbn [cbind].
  all: destruct s as [pc stk alt cond opc bch]; cbn [st_pc st_stack st_alt st_cond st_opc st_bch] in *;
       apply (finish_agree (mkst pc' _ alt cond opc bch) vf rest'); assumption.
Qed.

(* OP_1NEGATE, OP_1 .. OP_16: pycoin pushes the constant of its table, Core the script number opcode - 80 *)
Lemma step_agree_const s vf ob r :
  cond_rel (st_cond s) vf -> (0 <= st_opc s <= Z.of_N MAX_OP_COUNT)%Z ->
  skipn (st_pc s) script = ob :: r -> ((b2n ob =? 79) || ((81 <=? b2n ob) && (b2n ob <=? 96))) = true ->
  match get_op (ob :: r) with
  | None => pystep s = VFail
  | Some (op, data, rest') => sres (pystep s) (corestep op data rest' (abs s vf)) rest'
  end.
Proof.
  intros R Ho Hs Hn.
  pose proof (cond_rel_all_true _ _ R) as Hall.
  pose proof (decode_agree script (VMpy.flag flags VERIFY_MINIMALDATA && c_all_if_true (st_cond s)) _ _ _ Hs) as D.
  cbv zeta in D.
  destruct (get_op (ob :: r)) as [[[op data] rest']|].
  2: { lia. }
  destruct D as (-> & D). replace (b2n ob <=? 78) with false in D by lia.
  destruct D as (-> & -> & E & Hr').
  destruct (const_exec o flags sv ctx ob Hn) as (Hc & Hx). rewrite Hc in E.
  unfold VMpy.step, VMcore.step. rewrite E. cbn [lift vbind negb abs e_vf e_opc].
  change (forallb (fun b : bool => b) vf) with (vf_all_true vf). rewrite Hall.
  replace (96 <? b2n ob) with false by lia. cbn [andb].
  rewrite not_disabled_small by lia.
  replace (b2n ob <=? 78) with false by lia. rewrite andb_false_r.
  replace ((99 <=? b2n ob) && (b2n ob <=? 104)) with false by lia. rewrite orb_false_r.
  rewrite Hx.
  assert (Hlen : (MAX_BLOB_LENGTH <? N.of_nat (length (num_vec (Z.of_N (b2n ob) - 80)))) = false).
  { clear E Hx. unfold const_of in Hc.
    destruct (b2n ob =? 0); [injection Hc as <-; reflexivity|].
    destruct (b2n ob =? 79); [injection Hc as <-; reflexivity|].
    destruct ((81 <=? b2n ob) && (b2n ob <=? 96)); [injection Hc as <-; reflexivity|discriminate]. }
  change (len []) with 0. change (MAX_SCRIPT_ELEMENT_SIZE <? 0) with false. cbv iota.
  rewrite Hlen.
  destruct (hk_push ob ltac:(lia) ltac:(lia)) as [Hk|Hk]; rewrite Hk; cbn [hk_outside VMpy.handler orb].
  all: destruct (c_all_if_true (st_cond s)) eqn:Ex; cbn [vbind orb andb cbind].
  all: destruct s as [pc stk alt cond opc bch]; cbn [st_pc st_stack st_alt st_cond st_opc st_bch] in *;
       apply (finish_agree (mkst (S pc) _ alt cond opc bch) vf r); assumption.
Qed.

(* OP_RESERVED: fails when executed; in an unexecuted branch pycoin counts it and un-counts it, Core does not count it *)
Lemma step_agree_reserved s vf r :
  cond_rel (st_cond s) vf -> (0 <= st_opc s <= Z.of_N MAX_OP_COUNT)%Z ->
  skipn (st_pc s) script = x50 :: r ->
  match get_op (x50 :: r) with
  | None => pystep s = VFail
  | Some (op, data, rest') => sres (pystep s) (corestep op data rest' (abs s vf)) rest'
  end.
Proof.
  intros R Ho Hs.
  pose proof (cond_rel_all_true _ _ R) as Hall.
  pose proof (decode_agree script (VMpy.flag flags VERIFY_MINIMALDATA && c_all_if_true (st_cond s)) _ _ _ Hs) as D.
  cbv zeta in D. cbn [get_op] in *. change (78 <? b2n x50) with true in *. cbv iota in *.
  change (b2n x50 <=? 78) with false in D. cbv iota in D.
  destruct D as (_ & _ & _ & E & Hr').
  change (const_of (b2n x50)) with (@None bytes) in E.
  unfold VMpy.step, VMcore.step. rewrite E. cbn [lift vbind negb abs e_vf e_opc].
  change (forallb (fun b : bool => b) vf) with (vf_all_true vf). rewrite Hall.
  change (hk (b2n x50)) with KReserved. cbn [hk_outside VMpy.handler orb]. rewrite orb_true_r.
  change (96 <? b2n x50) with false. change (is_disabled x50) with false.
  change (b2n x50 <=? 78) with false. change ((99 <=? b2n x50) && (b2n x50 <=? 104)) with false.
  change (len []) with 0. change (MAX_SCRIPT_ELEMENT_SIZE <? 0) with false.
  cbv iota. cbn [andb orb]. rewrite andb_false_r, orb_false_r.
  destruct s as [pc stk alt cond opc bch]; cbn [st_pc st_stack st_alt st_cond st_opc st_bch] in *.
  destruct (c_all_if_true cond) eqn:Ex; cbn [vbind cbind]; [exact I|].
  unfold VMpy.set_opc. cbn [st_pc st_stack st_alt st_cond st_opc st_bch].
  replace (opc + 1 - 1)%Z with opc by lia.
  apply (finish_agree (mkst (S pc) stk alt cond opc bch) vf r); assumption.
Qed.

End Push.
