(* Proofs/ComposeEcInv.v — composition C01 x C02, part 5: the two transcriptions of Curve.inverse_mod (Model/Ecdsa.v
   by C01, Model/Curve.v by C02: different fuel, `/` and `mod` versus `div_eucl`, a guard for m = 0) are the same function
   for every modulus m > 1 and every argument: same value, same AssertionError.  So the `inverse` of the ECDSA model is
   C02's too. *)
From Coq Require Import ZArith Lia Bool.
From PV Require Import Base.Outcome.
From PV Require Model.Ecdsa Model.Curve Proofs.EcdsaP Proofs.CurveInvP.
Local Open Scope Z_scope.

Lemma inv_loops_agree : forall (f1 f2 : nat) (c d uc ud : Z) (r1 r2 : Z * Z),
  Ecdsa.inv_loop f1 c d uc ud = Ret r1 -> Curve.euclid f2 c d uc ud = Some r2 -> r1 = r2.
Proof.
  induction f1 as [|f1 IH]; intros f2 c d uc ud r1 r2 H1 H2; cbn [Ecdsa.inv_loop] in H1; [discriminate|].
  destruct f2 as [|f2]; cbn [Curve.euclid] in H2; [discriminate|].
  destruct (c =? 0); [congruence|].
  unfold Z.div, Z.modulo in H1. destruct (Z.div_eucl d c) as [q r].
  exact (IH f2 _ _ _ _ r1 r2 H1 H2).
Qed.

Theorem inverse_mod_agree (a m : Z) : 1 < m -> Ecdsa.inverse_mod a m = Curve.inverse_mod a m.
Proof.
  intros Hm.
  assert (T1 : Ecdsa.inverse_mod a m <> OutOfFuel).
  { destruct (Z.eq_dec (Z.gcd a m) 1) as [G1|G1].
    - destruct (EcdsaP.inverse_mod_coprime a m ltac:(lia) G1) as (u & E & _). congruence.
    - rewrite (EcdsaP.inverse_mod_not_coprime a m ltac:(lia) G1). discriminate. }
  assert (T2 : Curve.inverse_mod a m <> OutOfFuel).
  { destruct (Z.eq_dec (Z.gcd a m) 1) as [G1|G1].
    - destruct (CurveInvP.inverse_mod_correct a m Hm G1) as (u & E & _). congruence.
    - rewrite (CurveInvP.inverse_mod_not_coprime a m Hm G1). discriminate. }
  unfold Ecdsa.inverse_mod, Curve.inverse_mod in *.
  destruct (Z.eqb_spec m 0); [lia|].
  set (a' := if (a <? 0) || (m <=? a) then a mod m else a) in *.
  destruct (Ecdsa.inv_loop (Ecdsa.inv_fuel m) a' m 1 0) as [[d1 u1]|e|] eqn:E1; cbn [bind] in *;
    destruct (Curve.euclid (Curve.inv_fuel m) a' m 1 0) as [[d2 u2]|] eqn:E2; try congruence.
  - pose proof (inv_loops_agree _ _ _ _ _ _ _ _ E1 E2) as E. inversion E. subst. reflexivity.
  - (* inv_loop never raises *)
    exfalso. clear -E1.
    assert (NR : forall f c d uc ud e0, Ecdsa.inv_loop f c d uc ud <> Raise e0).
    { induction f as [|f IH]; intros c d uc ud e0; cbn [Ecdsa.inv_loop]; [discriminate|].
      destruct (c =? 0); [discriminate|]. apply IH. }
    exact (NR _ _ _ _ _ _ E1).
Qed.
