(* Proofs/ParseTextHistP.v — C18: what a parser returns does not depend on the history of the parseable_str object. *)
From Coq Require Import List NArith ZArith String Bool Lia.
From Coq Require Import Strings.Byte.
From PV Require Import Base.Bytes Base.Outcome Gen.GenParsePrefixes Model.ParseText Model.ParseTextHist.
Import ListNotations.
Local Open Scope Z_scope.

Section HistP.
Variable int10 int16 : text -> option Z.
Variable compile : text -> option bytes.
Variable hmac512 : bytes -> bytes.
Variable stretch : bytes -> Z.
Variable mulG : Z -> Z * Z.
Variable modsqrt : Z -> Z.

Notation run' := (run int10 int16 compile hmac512 stretch mulG modsqrt).

(* locality: an entry point sees the decoders only through their (exception-swallowed) value AT THE TEXT s *)
Lemma run_local b1 b1' b2 b2' e net s :
  ps_cache b1 s = ps_cache b1' s -> ps_cache b2 s = ps_cache b2' s ->
  run' b1 b2 e net s = run' b1' b2' e net s.
Proof.
  intros H1 H2.
  destruct e; unfold run, hd_prv, hd_pub, hd_any, p2pkh, p2sh, p2pkh_segwit, p2sh_segwit, p2tr, wif,
    parse_any, payable, secret, address, address_body, hierarchical_key, private_key, disabled_or, hd_any, hd_prv, hd_pub,
    p2pkh, p2sh, p2pkh_segwit, p2sh_segwit, p2tr, wif, via_b58, via_bech32, b58c, bech32c;
    cbn [first_of]; rewrite ?H1, ?H2; reflexivity.
Qed.

Variable dec : N -> text -> outcome (option bytes).
Variable key_of : netcfg -> N.
Variable bech32 : text -> outcome (option (text * Z * bytes * bool)).

Lemma b58_via_consistent st s k : consistent dec bech32 st s ->
  ps_cache (b58_via dec st k) s = ps_cache (dec k) s.
Proof.
  intros [C _]. unfold b58_via. destruct (st_b58 st k) as [v|] eqn:E; [|reflexivity].
  rewrite (C k v E). reflexivity.
Qed.

Lemma bech32_via_consistent st s : consistent dec bech32 st s ->
  ps_cache (bech32_via bech32 st) s = ps_cache bech32 s.
Proof.
  intros [_ C]. unfold bech32_via. destruct (st_bech32 st) as [v|] eqn:E; [|reflexivity].
  rewrite (C v eq_refl). reflexivity.
Qed.

Lemma empty_consistent s : consistent dec bech32 empty_store s.
Proof. split; cbn; intros; discriminate. Qed.

Lemma fill_consistent st k s : consistent dec bech32 st s -> consistent dec bech32 (fill dec bech32 st k s) s.
Proof.
  intros C. split; cbn.
  - intros k' v. destruct (N.eqb_spec k' k) as [->|_].
    + intros [= <-]. apply b58_via_consistent, C.
    + apply C.
  - intros v [= <-]. apply bech32_via_consistent, C.
Qed.

(* one call on an object with any consistent cache = the call on a fresh plain str *)
Lemma step_independent st e net s : consistent dec bech32 st s ->
  fst (step int10 int16 compile hmac512 stretch mulG modsqrt dec key_of bech32 st (e, net) s)
  = run' (dec (key_of net)) bech32 e net s.
Proof.
  intros C. cbn [step fst]. apply run_local. apply b58_via_consistent, C. apply bech32_via_consistent, C.
Qed.

(* any history, over any networks and entry points in any order *)
Lemma history_independent calls : forall st s, consistent dec bech32 st s ->
  history int10 int16 compile hmac512 stretch mulG modsqrt dec key_of bech32 st calls s
  = fresh int10 int16 compile hmac512 stretch mulG modsqrt dec key_of bech32 calls s.
Proof.
  induction calls as [|[e net] r IH]; intros st s C. reflexivity.
  cbn [history fresh map step]. f_equal.
  - apply run_local. apply b58_via_consistent, C. apply bech32_via_consistent, C.
  - apply IH. apply fill_consistent, C.
Qed.

Lemma history_from_new_object calls s :
  history int10 int16 compile hmac512 stretch mulG modsqrt dec key_of bech32 empty_store calls s
  = fresh int10 int16 compile hmac512 stretch mulG modsqrt dec key_of bech32 calls s.
Proof. apply history_independent, empty_consistent. Qed.

End HistP.
