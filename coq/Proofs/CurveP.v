(* Proofs/CurveP.v — assembly of the C02 statements (proved in CurveInvP / CurveAddP / CurveGroupP / CurveMulP /
   CurveSqrtP / CurveToy) in the form quoted by Props/C02.v. *)
From Coq Require Import ZArith Lia Znumtheory Bool List.
From PV Require Import Base.Outcome Model.Curve Spec.Weierstrass Gen.GenCurves
  Proofs.CurveInvP Proofs.CurveAddP Proofs.CurveGroupP Proofs.CurveMulP Proofs.CurveSqrtP Proofs.CurveToy.
Import ListNotations.
Local Open Scope Z_scope.

(* the group operation on elements, read off the model: add, then reduce the coordinates *)
Lemma gadd_unfold c P Q : gadd c P Q = match add c P Q with Ret R => red c R | _ => None end.
Proof. destruct c; reflexivity. Qed.

Lemma gneg_unfold c P : gneg c P = match P with None => None | Some (x, y) => Some (x mod cp c, (cp c - y) mod cp c) end.
Proof. destruct c; reflexivity. Qed.

(* k * P : P added to itself |k| times with the curve's own addition, negated for k < 0 *)
Definition kP (c : curve) (k : Z) (P : pt) : pt := smul None (gadd c) (gneg c) k P.

(* M1, M3, M4 and the order premise as named propositions *)
Definition M1 (c : curve) : Prop := prime (cp c).
Definition M3 (c : curve) : Prop := forall t, t mod cp c <> 0 -> (t ^ (cp c - 1)) mod cp c = 1.
Definition M4 (c : curve) : Prop :=
  forall P Q R, valid c P -> valid c Q -> valid c R -> gadd c (gadd c P Q) R = gadd c P (gadd c Q R).
Definition order_kills (c : curve) (P : pt) : Prop := kP c (cn c) P = None.

Definition same_element (c : curve) (r1 r2 : outcome pt) : Prop :=
  exists R1 R2, r1 = Ret R1 /\ r2 = Ret R2 /\ red c R1 = red c R2.

Theorem add_comm_model c : M1 c -> cp c <> 2 -> forall P Q, on_curve c P -> on_curve c Q ->
  same_element c (add c P Q) (add c Q P).
Proof.
  intros Hp Hp2 P Q HP HQ.
  destruct (add_gadd c Hp Hp2 P Q HP HQ) as (R1 & E1 & _ & _ & Er1).
  destruct (add_gadd c Hp Hp2 Q P HQ HP) as (R2 & E2 & _ & _ & Er2).
  exists R1, R2. repeat split; auto. rewrite Er1, Er2. now apply gadd_comm.
Qed.

Theorem add_identity_model c P : add c None P = Ret P /\ add c P None = Ret P.
Proof. split; [reflexivity | destruct P as [[? ?]|]; reflexivity]. Qed.

Theorem add_inverse_model c : M1 c -> cp c <> 2 -> forall P, on_curve c P ->
  exists N, neg c P = Ret N /\ on_curve c N /\ red c N = spec_neg c (red c P) /\
            same_element c (add c P N) (Ret None).
Proof.
  intros Hp Hp2 P HP.
  destruct (neg_gneg c Hp Hp2 P HP) as (N & EN & HN & Er).
  exists N. repeat split; auto.
  - rewrite Er. now apply gneg_is_spec_neg.
  - destruct (add_gadd c Hp Hp2 P N HP HN) as (R & E & _ & _ & ErR).
    exists R, None. repeat split; auto. rewrite ErR.
    rewrite <- (gadd_red_r c Hp Hp2 P N HP HN), Er. now apply gadd_gneg.
Qed.

Theorem add_assoc_model c : M1 c -> cp c <> 2 -> M4 c -> forall P Q R, on_curve c P -> on_curve c Q -> on_curve c R ->
  same_element c (bind (add c P Q) (fun S => add c S R)) (bind (add c Q R) (fun S => add c P S)).
Proof.
  intros Hp Hp2 H4 P Q R HP HQ HR.
  destruct (add_g c Hp Hp2 P Q HP HQ) as (S1 & -> & HS1 & E1 & _). cbn [bind].
  destruct (add_g c Hp Hp2 Q R HQ HR) as (S2 & -> & HS2 & E2 & _). cbn [bind].
  destruct (add_g c Hp Hp2 S1 R HS1 HR) as (T1 & -> & HT1 & F1 & _).
  destruct (add_g c Hp Hp2 P S2 HP HS2) as (T2 & -> & HT2 & F2 & _).
  exists T1, T2. repeat split; auto.
  rewrite F1, F2, E1, E2. apply H4; now apply red_valid_c.
Qed.

(* ---- the constructor establishes the table-width hypothesis of raw_mul ---- *)
Lemma bit_length_bound n : 0 < n -> n < 2 ^ Z.of_nat (bit_length n).
Proof.
  intros Hn. unfold bit_length. destruct (Z.eqb_spec n 0); [lia|].
  rewrite Z.abs_eq by lia. pose proof (Z.log2_nonneg n).
  rewrite Nat2Z.inj_succ, Z2Nat.id by lia.
  destruct (Z.log2_spec n Hn) as [_ H2]. exact H2.
Qed.

Local Opaque Nat.max.
Lemma mk_gen_facts p a b Gx Gy n ent g : mk_gen p a b Gx Gy n ent = Ret g -> 0 < n ->
  gc g = {| cp := p; ca := a; cb := b; cn := n |} /\ gG g = Some (Gx, Gy) /\
  contains_point (gc g) (gG g) = true /\ p mod 4 = 3 /\ n <= 2 ^ Z.of_nat (g_bits g) /\ g_blind g = ent mod n.
Proof.
  unfold mk_gen. intros H Hn.
  unfold mk_point in H.
  destruct (contains_point _ (Some (Gx, Gy))) eqn:Hc; cbn [bind] in H; [|discriminate].
  destruct (doublings _ _ _); cbn [bind] in H; try discriminate.
  destruct (Z.eqb_spec (p mod 4) 3) as [E4|]; cbn [negb] in H; [|discriminate].
  destruct (Z.eqb_spec n 0); [lia|].
  destruct (raw_mul _ _); cbn [bind] in H; try discriminate.
  injection H as Hg. subst g. cbn [gc gG g_bits g_blind]. repeat split; auto.
  pose proof (bit_length_bound n Hn) as Hb.
  apply Z.lt_le_incl. eapply Z.lt_le_trans; [exact Hb|].
  apply Z.pow_le_mono_r; [lia|]. apply inj_le. apply Nat.le_max_r.
Qed.

(* ---- fixed-base multiplication: exact form for a reduced generator ---- *)
Theorem fixed_base_exact c : M1 c -> cp c <> 2 -> M4 c -> forall g, gc g = c -> valid c (gG g) ->
  0 < cn c <= 2 ^ Z.of_nat (g_bits g) -> order_kills c (gG g) ->
  forall e, gmul g e = Ret (kP c e (gG g)) /\ raw_mul g e = Ret (kP c e (gG g)).
Proof.
  intros Hp Hp2 H4 g Hgc [HG HGr] Hb Hord0 e.
  assert (Hred : red c (gG g) = gG g) by now apply red_id_c.
  assert (Hord : kP c (cn c) (red c (gG g)) = None) by (rewrite Hred; exact Hord0).
  destruct (gmul_correct c Hp Hp2 H4 (gG g) HG g Hgc eq_refl Hb Hord e) as (R1 & E1 & H1 & Er1 & Rr1).
  destruct (raw_mul_correct c Hp Hp2 H4 (gG g) HG g Hgc eq_refl Hb Hord e) as (R2 & E2 & H2 & Er2 & Rr2).
  assert (X1 : R1 = kP c e (gG g)).
  { rewrite <- (red_id_c c R1 (Rr1 HGr)). rewrite Er1, Hred. reflexivity. }
  assert (X2 : R2 = kP c e (gG g)).
  { rewrite <- (red_id_c c R2 (Rr2 HGr)). rewrite Er2, Hred. reflexivity. }
  rewrite E1, E2, X1, X2. auto.
Qed.

(* on elements, for a generator given with unreduced coordinates *)
Theorem fixed_base_correct c : M1 c -> cp c <> 2 -> M4 c -> forall g, gc g = c -> on_curve c (gG g) ->
  0 < cn c <= 2 ^ Z.of_nat (g_bits g) -> order_kills c (red c (gG g)) ->
  forall e, (exists R, gmul g e = Ret R /\ on_curve c R /\ red c R = kP c e (red c (gG g))) /\
            (exists R, raw_mul g e = Ret R /\ on_curve c R /\ red c R = kP c e (red c (gG g))).
Proof.
  intros Hp Hp2 H4 g Hgc HG Hb Hord e. split.
  - destruct (gmul_correct c Hp Hp2 H4 (gG g) HG g Hgc eq_refl Hb Hord e) as (R1 & E1 & H1 & Er1 & _). eauto.
  - destruct (raw_mul_correct c Hp Hp2 H4 (gG g) HG g Hgc eq_refl Hb Hord e) as (R1 & E1 & H1 & Er1 & _). eauto.
Qed.

(* the hypothesis n <= 2^bit_count cannot be dropped: with a 3-entry table on the order-31 curve y^2 = x^3 + 7 over F_43
   the scalar 9 is read as 9 mod 8 = 1 *)
Example raw_mul_needs_table_width :
  let c := {| cp := 43; ca := 0; cb := 7; cn := 31 |} in
  let g := {| gc := c; gG := Some (2, 12); g_bits := 3; g_blind := 0 |} in
  raw_mul g 9 = Ret (Some (2, 12)) /\ multiply c (Some (2, 12)) 9 = Ret (Some (20, 40)).
Proof. vm_compute. auto. Qed.

(* ---- points_for_x on a curve of odd order: no point has y = 0, so the statement is unconditional in x ---- *)
Theorem points_for_x_odd_order c : M1 c -> cp c mod 4 = 3 -> M3 c -> M4 c -> Z.odd (cn c) = true ->
  (forall P, valid c P -> order_kills c P) ->
  forall (g : gen) (x : Z), gc g = c ->
  match points_for_x g x with
  | Ret (P0, P1) =>
      exists y0 y1, P0 = Some (x, y0) /\ P1 = Some (x, y1) /\ Z.even y0 = true /\ Z.odd y1 = true /\
        0 < y0 < cp c /\ 0 < y1 < cp c /\ y0 + y1 = cp c /\
        forall y, 0 <= y < cp c -> (on_curve c (Some (x, y)) <-> y = y0 \/ y = y1)
  | Raise _ => forall y, ~ on_curve c (Some (x, y))
  | OutOfFuel => False
  end.
Proof.
  intros Hp Hm4 H3 H4 Hodd Hord g x Hgc.
  assert (Hp2 : cp c <> 2) by (intros E; rewrite E in Hm4; discriminate).
  assert (Hno2 : ~ on_curve c (Some (x, 0))).
  { intros Hon.
    pose proof (red_valid_c c Hp Hp2 _ Hon) as HV. cbn [red] in HV. rewrite Zmod_0_l in HV.
    pose proof (odd_order_neg_reduced c Hp Hp2 H4 _ (cn c) HV Hodd (Hord _ HV)) as K.
    destruct HV as [HVon HVr].
    destruct (neg_gneg c Hp Hp2 _ HVon) as (N & EN & _ & _).
    specialize (K N EN). cbn [neg] in EN. unfold mk_point in EN.
    destruct (contains_point c _); inversion EN. subst N. cbn in K. lia. }
  destruct c as [p a b n] eqn:Ec. cbn [cp ca cb cn] in *.
  apply (points_for_x_spec p Hp Hm4 H3 a b n g Hgc x Hno2).
Qed.

(* ---- instantiation on toy curves: no premise left ---- *)
Section Toy.
Variable c : curve.
Hypothesis Hok : toy_ok c = true.
Let F := toy_ok_sound c Hok.

Theorem toy_assoc P Q R : valid c P -> valid c Q -> valid c R -> gadd c (gadd c P Q) R = gadd c P (gadd c Q R).
Proof. apply (tf_assoc c F). Qed.

Let Hp := tf_prime c F.
Let Hp2 := tf_not2 c F.
Let H4 := tf_assoc c F.

Theorem toy_multiply P e : on_curve c P -> multiply c P e = Ret (kP c e (red c P)).
Proof.
  intros HP.
  apply (multiply_exact c Hp Hp2 H4 P e HP (tf_npos c F) (tf_nodd c F)).
  apply (tf_order c F). now apply (red_valid_c c Hp Hp2).
Qed.

(* fixed-base multiplication, blinded or not, for ANY blinding factor and any table at least as wide as the order *)
Theorem toy_gmul g e : gc g = c -> valid c (gG g) -> cn c <= 2 ^ Z.of_nat (g_bits g) ->
  gmul g e = Ret (kP c e (gG g)) /\ raw_mul g e = Ret (kP c e (gG g)).
Proof.
  intros Hgc HV Hb.
  apply (fixed_base_exact c Hp Hp2 H4 g Hgc HV (conj (tf_npos c F) Hb)).
  apply (tf_order c F). exact HV.
Qed.

Theorem toy_points_for_x g x : gc g = c ->
  match points_for_x g x with
  | Ret (P0, P1) =>
      exists y0 y1, P0 = Some (x, y0) /\ P1 = Some (x, y1) /\ Z.even y0 = true /\ Z.odd y1 = true /\
        0 < y0 < cp c /\ 0 < y1 < cp c /\ y0 + y1 = cp c /\
        forall y, 0 <= y < cp c -> (on_curve c (Some (x, y)) <-> y = y0 \/ y = y1)
  | Raise _ => forall y, ~ on_curve c (Some (x, y))
  | OutOfFuel => False
  end.
Proof.
  intros Hgc.
  apply (points_for_x_odd_order c Hp (tf_mod4 c F) (tf_fermat c F) H4 (tf_nodd c F) (tf_order c F) g x Hgc).
Qed.

End Toy.

(* ---- the toy curves shipped as Examples (all of prime order, p = 3 mod 4) ---- *)
Definition toy_curves : list curve :=
  [ {| cp := 7; ca := 0; cb := 3; cn := 13 |};        (* j = 0, like secp256k1 / bls12-381 *)
    {| cp := 11; ca := 8; cb := 1; cn := 17 |};       (* a = -3, like secp256r1 *)
    {| cp := 23; ca := 20; cb := 8; cn := 31 |};      (* a = -3 *)
    {| cp := 43; ca := 0; cb := 7; cn := 31 |} ].     (* y^2 = x^3 + 7 : a miniature secp256k1 *)

Lemma toy_curves_ok : forallb toy_ok toy_curves = true.
Proof. vm_compute. reflexivity. Qed.

Lemma toy_curves_ok_each c : In c toy_curves -> toy_ok c = true.
Proof. intros H. exact (proj1 (forallb_forall toy_ok toy_curves) toy_curves_ok c H). Qed.

(* ---- the shipped generators: every premise that is decidable by computation is decided here, on the table
        regenerated from /repo (a changed constant breaks shipped_ok).  M1, M4, n*G = O are hypotheses of the two theorems
        below; Proofs/ShippedOrder.v PROVES M1 (and M2, M3) for the three rows and derives n*G = O from M4 (certificates
        re-checked by the kernel), leaving M4 as the only premise (shipped_fixed_base_M4only, shipped_multiply_M4only); M4 itself
        is proved in Proofs/EcAssoc.v, and Proofs/ShippedUncond.v states the results with no premise at all ---- *)
Definition shipped_curve (t : Z * Z * Z * Z * Z * Z * nat) : curve :=
  let '(p, a, b, _, _, n, _) := t in {| cp := p; ca := a; cb := b; cn := n |}.
Definition shipped_G (t : Z * Z * Z * Z * Z * Z * nat) : pt :=
  let '(_, _, _, Gx, Gy, _, _) := t in Some (Gx, Gy).
Definition shipped_bits (t : Z * Z * Z * Z * Z * Z * nat) : nat := let '(_, _, _, _, _, _, bits) := t in bits.
Definition shipped_gen (t : Z * Z * Z * Z * Z * Z * nat) (blind : Z) : gen :=
  {| gc := shipped_curve t; gG := shipped_G t; g_bits := shipped_bits t; g_blind := blind |}.

Definition shipped_checkb (t : Z * Z * Z * Z * Z * Z * nat) : bool :=
  let c := shipped_curve t in
  let '(p, _, _, Gx, Gy, n, bits) := t in
  contains_point c (Some (Gx, Gy)) && (p mod 4 =? 3) && negb (p =? 2) && (0 <? n) && Z.odd n &&
  (n <=? 2 ^ Z.of_nat bits) && (0 <=? Gx) && (Gx <? p) && (0 <=? Gy) && (Gy <? p) &&
  Nat.eqb bits (Nat.max 256 (bit_length n)).

Lemma shipped_ok : forallb shipped_checkb shipped_curves = true.
Proof. vm_compute. reflexivity. Qed.

Theorem shipped_fixed_base t : In t shipped_curves ->
  let c := shipped_curve t in
  M1 c -> M4 c -> order_kills c (shipped_G t) ->
  forall blind e, gmul (shipped_gen t blind) e = Ret (kP c e (shipped_G t)) /\
                  raw_mul (shipped_gen t blind) e = Ret (kP c e (shipped_G t)).
Proof.
  intros Hin c Hp H4 Hord blind e.
  pose proof (proj1 (forallb_forall shipped_checkb shipped_curves) shipped_ok t Hin) as K.
  destruct t as [[[[[[p a] b] Gx] Gy] n] bits]. unfold shipped_checkb in K. cbn [shipped_curve] in *.
  repeat (apply andb_prop in K; let K' := fresh "K" in destruct K as [K K']).
  apply negb_true_iff in K8. apply Z.eqb_neq in K8. apply Z.ltb_lt in K7, K3, K1. apply Z.leb_le in K5, K4, K2.
  subst c. cbn [shipped_curve shipped_G] in *.
  apply (fixed_base_exact {| cp := p; ca := a; cb := b; cn := n |} Hp K8 H4 (shipped_gen (p, a, b, Gx, Gy, n, bits) blind)).
  - reflexivity.
  - split.
    + apply (contains_iff_c _ Hp K8). exact K.
    + cbn. lia.
  - cbn. lia.
  - exact Hord.
Qed.

Theorem shipped_multiply t : In t shipped_curves ->
  let c := shipped_curve t in
  M1 c -> M4 c -> forall P, on_curve c P -> order_kills c (red c P) ->
  forall e, multiply c P e = Ret (kP c e (red c P)).
Proof.
  intros Hin c Hp H4 P HP Hord e.
  pose proof (proj1 (forallb_forall shipped_checkb shipped_curves) shipped_ok t Hin) as K.
  destruct t as [[[[[[p a] b] Gx] Gy] n] bits]. unfold shipped_checkb in K. cbn [shipped_curve] in *.
  repeat (apply andb_prop in K; let K' := fresh "K" in destruct K as [K K']).
  apply negb_true_iff in K8. apply Z.eqb_neq in K8. apply Z.ltb_lt in K7.
  subst c.
  apply (multiply_exact {| cp := p; ca := a; cb := b; cn := n |} Hp K8 H4 P e HP K7 K6 Hord).
Qed.
