(* Proofs/ComposeCommitEcdsa.v — composition C06 x C01, part (B), group theory only.
   Over the abstract group of Spec/EcdsaSpec.v (group_laws, prime n, G <> O; NO discrete logarithm of the key):
   exactly when does ONE signature (r, s) verify under ONE key Q for TWO hash values z, z' ?
   With V(z) = (z/s) G + (r/s) Q the verification point (w = 1/s any inverse of s modulo n):
     same_residue_same_validity : z = z' (mod n)  ->  (valid z <-> valid z')          [unconditional]
     vpoint_inj                 : V(z) = V(z')    ->  z = z' (mod n)                  [uses G <> O, n prime]
     double_valid_iff           : valid z /\ valid z' /\ z <> z' (mod n)  <->  ranges, and V(z), V(z') are two
                                  DISTINCT finite points whose abscissae have the same residue r modulo n
     opposite_points_key        : V(z') = -V(z)  ->  2r Q = -(z + z') G, i.e. (n <> 2) Q = d G with
                                  z + z' + 2 r d = 0 (mod n): the second residue is determined by the key
     second_residue_valid       : conversely, for Q = d G and z' = -z - 2 r d (mod n): valid z <-> valid z'
                                  (so the exceptional residue class EXISTS for every valid signature)
     same_abscissa_opposite     : with lift_laws (at most two points per abscissa) and n <> 2: two distinct points
                                  with the SAME abscissa are opposite
   Only Spec/EcdsaSpec.v is imported. *)
From Coq Require Import ZArith List Znumtheory Lia.
From PV Require Import Spec.EcdsaSpec.
Local Open Scope Z_scope.

Section DoubleValid.
  Variable pt : Type.
  Variable add : pt -> pt -> pt.
  Variable neg : pt -> pt.
  Variable O : pt.
  Variable smul : Z -> pt -> pt.
  Variable G : pt.
  Variable n : Z.
  Variable coords : pt -> option (Z * Z).

  Hypothesis laws : group_laws pt add neg O smul n coords.
  Hypothesis n_prime : prime n.

  Local Notation valid := (ecdsa_valid pt add smul G n coords).
  Local Notation inv := (inv_mod_n n).

  (* the verification point *)
  Definition vpoint (Q : pt) (r w z : Z) : pt := add (smul (z * w) G) (smul (r * w) Q).

  Lemma n_gt_1 : 1 < n.
  Proof. now destruct n_prime. Qed.
  Lemma n_pos : 0 < n.
  Proof. pose proof n_gt_1. lia. Qed.
  Lemma n_neq_0 : n <> 0.
  Proof. pose proof n_gt_1. lia. Qed.

  (* ---- abelian group ------------------------------------------------------------------------------------------- *)
  Lemma add_O_r P : add P O = P.
  Proof. rewrite (gl_comm _ _ _ _ _ _ _ laws). apply (gl_O_l _ _ _ _ _ _ _ laws). Qed.
  Lemma add_neg_l P : add (neg P) P = O.
  Proof. rewrite (gl_comm _ _ _ _ _ _ _ laws). apply (gl_neg_r _ _ _ _ _ _ _ laws). Qed.
  Lemma add_cancel_l P Q R : add P Q = add P R -> Q = R.
  Proof.
    intros H. assert (E : add (neg P) (add P Q) = add (neg P) (add P R)) by now rewrite H.
    rewrite !(gl_assoc _ _ _ _ _ _ _ laws), add_neg_l, !(gl_O_l _ _ _ _ _ _ _ laws) in E. exact E.
  Qed.
  Lemma add_cancel_r P Q R : add Q P = add R P -> Q = R.
  Proof. rewrite !(gl_comm _ _ _ _ _ _ _ laws _ P). apply add_cancel_l. Qed.
  Lemma neg_unique P Q : add P Q = O -> Q = neg P.
  Proof. intros H. apply (add_cancel_l P). now rewrite H, (gl_neg_r _ _ _ _ _ _ _ laws). Qed.

  (* ---- the Z-action ---------------------------------------------------------------------------------------------- *)
  Lemma smul_0 P : smul 0 P = O.
  Proof.
    apply (add_cancel_l (smul 0 P)). rewrite <- (gl_smul_add _ _ _ _ _ _ _ laws), add_O_r. reflexivity.
  Qed.
  Lemma smul_O k : smul k O = O.
  Proof.
    rewrite <- (gl_order _ _ _ _ _ _ _ laws O) at 1.
    rewrite <- (gl_smul_mul _ _ _ _ _ _ _ laws), Z.mul_comm, (gl_smul_mul _ _ _ _ _ _ _ laws).
    apply (gl_order _ _ _ _ _ _ _ laws).
  Qed.
  Lemma smul_multiple q P : smul (n * q) P = O.
  Proof. rewrite (gl_smul_mul _ _ _ _ _ _ _ laws). apply (gl_order _ _ _ _ _ _ _ laws). Qed.
  Lemma smul_mod a P : smul (a mod n) P = smul a P.
  Proof.
    rewrite (Z.div_mod a n n_neq_0) at 2.
    now rewrite (gl_smul_add _ _ _ _ _ _ _ laws), smul_multiple, (gl_O_l _ _ _ _ _ _ _ laws).
  Qed.
  Lemma smul_congr a b P : a mod n = b mod n -> smul a P = smul b P.
  Proof. intros H. now rewrite <- (smul_mod a), <- (smul_mod b), H. Qed.
  Lemma smul_opp a P : smul (- a) P = neg (smul a P).
  Proof.
    apply neg_unique. rewrite <- (gl_smul_add _ _ _ _ _ _ _ laws). replace (a + - a) with 0 by lia. apply smul_0.
  Qed.

  (* an element killed by a scalar that n does not divide is the neutral element (n prime) *)
  Lemma killed_is_O a P : smul a P = O -> a mod n <> 0 -> P = O.
  Proof.
    intros H Ha. pose proof n_pos as Hn.
    assert (R : rel_prime (a mod n) n).
    { destruct n_prime as [_ Hp]. apply Hp. pose proof (Z.mod_pos_bound a n Hn). lia. }
    destruct (rel_prime_bezout _ _ R) as [u v E].
    rewrite <- (gl_smul_1 _ _ _ _ _ _ _ laws P), <- E, (gl_smul_add _ _ _ _ _ _ _ laws).
    rewrite (gl_smul_mul _ _ _ _ _ _ _ laws u), smul_mod, H, smul_O.
    rewrite (gl_smul_mul _ _ _ _ _ _ _ laws v), (gl_order _ _ _ _ _ _ _ laws), smul_O.
    apply add_O_r.
  Qed.

  (* ---- modular arithmetic ---------------------------------------------------------------------------------------- *)
  Lemma mod_eq_of_sub a b : (a - b) mod n = 0 -> a mod n = b mod n.
  Proof.
    intros H. apply Z.mod_divide in H; [|exact n_neq_0]. destruct H as [q Hq].
    replace a with (b + q * n) by lia. apply Z_mod_plus_full.
  Qed.
  Lemma sub_mod_of_eq a b : a mod n = b mod n -> (a - b) mod n = 0.
  Proof. intros H. rewrite Zminus_mod, H, Z.sub_diag. apply Zmod_0_l. Qed.

  Lemma inv_cancel s w a : inv s w -> (a * w) mod n = 0 -> a mod n = 0.
  Proof.
    unfold inv_mod_n. intros Hw H.
    assert (E : (a * (s * w)) mod n = a mod n).
    { rewrite Zmult_mod, Hw, Z.mul_1_r. apply Zmod_mod. }
    rewrite <- E. replace (a * (s * w)) with ((a * w) * s) by ring.
    rewrite Zmult_mod, H, Z.mul_0_l. apply Zmod_0_l.
  Qed.

  Lemma inv_unique s w w' : inv s w -> inv s w' -> w mod n = w' mod n.
  Proof.
    unfold inv_mod_n. intros Hw Hw'.
    assert (E1 : (w * (s * w')) mod n = w mod n) by (rewrite Zmult_mod, Hw', Z.mul_1_r; apply Zmod_mod).
    assert (E2 : (w * (s * w')) mod n = w' mod n).
    { replace (w * (s * w')) with ((s * w) * w') by ring. rewrite Zmult_mod, Hw, Z.mul_1_l. apply Zmod_mod. }
    congruence.
  Qed.

  (* ---- the verification point depends on residues only ------------------------------------------------------------- *)
  Lemma vpoint_congr Q r w w' z z' : w mod n = w' mod n -> z mod n = z' mod n ->
    vpoint Q r w z = vpoint Q r w' z'.
  Proof.
    intros Hw Hz. unfold vpoint. f_equal; apply smul_congr.
    - now rewrite Zmult_mod, Hz, Hw, <- Zmult_mod.
    - now rewrite Zmult_mod, Hw, <- Zmult_mod.
  Qed.

  (* validity through ONE chosen inverse w of s *)
  Lemma valid_with Q z r s w : inv s w ->
    (valid Q z r s <-> 1 <= r < n /\ 1 <= s < n /\
                       exists x y, coords (vpoint Q r w z) = Some (x, y) /\ x mod n = r).
  Proof.
    intros Hw. split.
    - intros (Hr & Hs & w0 & x & y & Hw0 & Hc & Hx). repeat split; try lia. exists x, y. split; [|exact Hx].
      rewrite (vpoint_congr Q r w w0 z z (inv_unique s w w0 Hw Hw0) eq_refl). exact Hc.
    - intros (Hr & Hs & x & y & Hc & Hx). repeat split; try lia. exists w, x, y. auto.
  Qed.

  (* (1) congruent hash values are indistinguishable to ECDSA *)
  Theorem same_residue_same_validity : forall (Q : pt) (z z' r s : Z),
    z mod n = z' mod n -> (valid Q z r s <-> valid Q z' r s).
  Proof.
    assert (D : forall Q z z' r s, z mod n = z' mod n -> valid Q z r s -> valid Q z' r s).
    { intros Q z z' r s Hz (Hr & Hs & w & x & y & Hw & Hc & Hx). repeat split; try lia.
      exists w, x, y. repeat split; auto. fold (vpoint Q r w z').
      now rewrite <- (vpoint_congr Q r w w z z' eq_refl Hz). }
    intros Q z z' r s Hz. split; apply D; auto.
  Qed.

  Section Generator.
  Hypothesis G_nonzero : G <> O.

  (* G has order exactly n *)
  Lemma G_order a : smul a G = O -> a mod n = 0.
  Proof.
    intros H. destruct (Z.eq_dec (a mod n) 0) as [E|E]; [exact E|].
    exfalso. exact (G_nonzero (killed_is_O a G H E)).
  Qed.

  (* (2) the verification point determines the residue of the hash value *)
  Theorem vpoint_inj : forall (Q : pt) (r s w z z' : Z), inv s w ->
    vpoint Q r w z = vpoint Q r w z' -> z mod n = z' mod n.
  Proof.
    intros Q r s w z z' Hw H. unfold vpoint in H. apply add_cancel_r in H.
    apply mod_eq_of_sub. apply (inv_cancel s w _ Hw). apply G_order.
    apply (add_cancel_r (smul (z' * w) G)).
    rewrite <- (gl_smul_add _ _ _ _ _ _ _ laws), (gl_O_l _ _ _ _ _ _ _ laws).
    replace ((z - z') * w + z' * w) with (z * w) by ring. exact H.
  Qed.

  Theorem vpoint_eq_iff : forall (Q : pt) (r s w z z' : Z), inv s w ->
    (vpoint Q r w z = vpoint Q r w z' <-> z mod n = z' mod n).
  Proof.
    intros. split; [now apply (vpoint_inj Q r s)|]. intros Hz. now apply vpoint_congr.
  Qed.

  (* (3) THE CHARACTERISATION: one signature is valid for two hash values in different residue classes exactly when
     the two verification points are distinct finite points whose abscissae both reduce to r *)
  Theorem double_valid_iff : forall (Q : pt) (z z' r s : Z),
    (valid Q z r s /\ valid Q z' r s /\ z mod n <> z' mod n)
    <-> (1 <= r < n /\ 1 <= s < n /\
         exists w x y x' y', inv s w /\
           coords (vpoint Q r w z) = Some (x, y) /\ coords (vpoint Q r w z') = Some (x', y') /\
           vpoint Q r w z <> vpoint Q r w z' /\ x mod n = r /\ x' mod n = r).
  Proof.
    intros Q z z' r s. split.
    - intros (V & V' & Hne).
      destruct V as (Hr & Hs & w & x & y & Hw & Hc & Hx).
      apply (valid_with Q z' r s w Hw) in V'. destruct V' as (_ & _ & x' & y' & Hc' & Hx').
      repeat split; try lia. exists w, x, y, x', y'. repeat split; auto.
      intros E. apply Hne. exact (vpoint_inj Q r s w z z' Hw E).
    - intros (Hr & Hs & w & x & y & x' & y' & Hw & Hc & Hc' & Hne & Hx & Hx'). split; [|split].
      + apply (valid_with Q z r s w Hw). repeat split; try lia. eauto.
      + apply (valid_with Q z' r s w Hw). repeat split; try lia. eauto.
      + intros E. apply Hne. now apply vpoint_congr.
  Qed.

  (* the form used by the composition: from two validities, the dichotomy *)
  Corollary double_valid_cases : forall (Q : pt) (z z' r s : Z),
    valid Q z r s -> valid Q z' r s ->
    z mod n = z' mod n
    \/ (z mod n <> z' mod n /\
        exists w x y x' y', inv s w /\
          coords (vpoint Q r w z) = Some (x, y) /\ coords (vpoint Q r w z') = Some (x', y') /\
          vpoint Q r w z <> vpoint Q r w z' /\ x mod n = r /\ x' mod n = r).
  Proof.
    intros Q z z' r s V V'. destruct (Z.eq_dec (z mod n) (z' mod n)) as [E|E]; [now left|right].
    split; [exact E|]. now apply (proj1 (double_valid_iff Q z z' r s)).
  Qed.
  End Generator.

  (* ---- (4) when the two points are opposite: a linear relation between the key and G ---------------------------------- *)
  Theorem opposite_points_key : forall (Q : pt) (r s w z z' : Z), inv s w ->
    vpoint Q r w z' = neg (vpoint Q r w z) ->
    smul (2 * r) Q = smul (- (z + z')) G.
  Proof.
    intros Q r s w z z' Hw H.
    assert (E : add (smul ((z + z') * w) G) (smul (2 * r * w) Q) = O).
    { rewrite <- (gl_neg_r _ _ _ _ _ _ _ laws (vpoint Q r w z)), <- H. unfold vpoint.
      replace ((z + z') * w) with (z * w + z' * w) by ring. replace (2 * r * w) with (r * w + r * w) by ring.
      rewrite !(gl_smul_add _ _ _ _ _ _ _ laws).
      set (A := smul (z * w) G). set (A' := smul (z' * w) G). set (B := smul (r * w) Q).
      rewrite !(gl_assoc _ _ _ _ _ _ _ laws). f_equal.
      rewrite <- !(gl_assoc _ _ _ _ _ _ _ laws). f_equal. apply (gl_comm _ _ _ _ _ _ _ laws). }
    apply neg_unique in E. rewrite <- smul_opp in E.
    assert (E' : smul s (smul (2 * r * w) Q) = smul s (smul (- ((z + z') * w)) G)) by now rewrite E.
    rewrite <- !(gl_smul_mul _ _ _ _ _ _ _ laws) in E'.
    rewrite <- (smul_congr (s * (2 * r * w)) (2 * r) Q), <- (smul_congr (s * - ((z + z') * w)) (- (z + z')) G); [exact E'| |].
    - replace (s * - ((z + z') * w)) with (- (z + z') * (s * w)) by ring.
      unfold inv_mod_n in Hw. rewrite Zmult_mod, Hw, Z.mul_1_r. apply Zmod_mod.
    - replace (s * (2 * r * w)) with (2 * r * (s * w)) by ring.
      unfold inv_mod_n in Hw. rewrite Zmult_mod, Hw, Z.mul_1_r. apply Zmod_mod.
  Qed.

  (* ... which, n being an odd prime and 1 <= r < n, exhibits the discrete logarithm d of the key and fixes the
     residue of z': z + z' + 2 r d = 0 (mod n) *)
  Corollary opposite_points_dlog : forall (Q : pt) (r s w z z' : Z), n <> 2 -> 1 <= r < n -> inv s w ->
    vpoint Q r w z' = neg (vpoint Q r w z) ->
    exists d, Q = smul d G /\ (z + z' + 2 * r * d) mod n = 0.
  Proof.
    intros Q r s w z z' Hn2 Hr Hw H. pose proof (opposite_points_key Q r s w z z' Hw H) as K.
    pose proof n_gt_1 as Hn.
    assert (R : rel_prime (2 * r) n).
    { apply rel_prime_sym, rel_prime_mult; apply rel_prime_sym.
      - destruct n_prime as [_ Hp]. apply Hp. lia.
      - destruct n_prime as [_ Hp]. apply Hp. lia. }
    destruct (rel_prime_bezout _ _ R) as [u v E].
    exists (u * - (z + z')). split.
    - rewrite (gl_smul_mul _ _ _ _ _ _ _ laws), <- K, <- (gl_smul_mul _ _ _ _ _ _ _ laws).
      rewrite <- (gl_smul_1 _ _ _ _ _ _ _ laws Q) at 1. apply smul_congr.
      rewrite <- E. rewrite Z_mod_plus_full. reflexivity.
    - replace (z + z' + 2 * r * (u * - (z + z'))) with ((z + z') * (1 - u * (2 * r))) by ring.
      rewrite <- E. replace (u * (2 * r) + v * n - u * (2 * r)) with (v * n) by ring.
      replace ((z + z') * (v * n)) with ((z + z') * v * n) by ring. apply Z_mod_mult.
  Qed.

  (* (5) conversely the exceptional residue class is real: for a key Q = d G and z' = -z - 2 r d (mod n) the two
     verification points are opposite, so the same signature is valid for both *)
  Theorem second_residue_opposite : forall (d r w z z' : Z),
    (z + z' + 2 * r * d) mod n = 0 ->
    vpoint (smul d G) r w z' = neg (vpoint (smul d G) r w z).
  Proof.
    intros d r w z z' H. apply neg_unique. unfold vpoint.
    rewrite <- !(gl_smul_mul _ _ _ _ _ _ _ laws), <- !(gl_smul_add _ _ _ _ _ _ _ laws).
    rewrite <- (smul_0 G). apply smul_congr.
    replace (z * w + r * w * d + (z' * w + r * w * d)) with ((z + z' + 2 * r * d) * w) by ring.
    rewrite Zmult_mod, H, Z.mul_0_l. reflexivity.
  Qed.

  Theorem second_residue_valid : forall (d z z' r s : Z),
    (z + z' + 2 * r * d) mod n = 0 ->
    (valid (smul d G) z r s <-> valid (smul d G) z' r s).
  Proof.
    assert (D : forall d z z' r s, (z + z' + 2 * r * d) mod n = 0 ->
                valid (smul d G) z r s -> valid (smul d G) z' r s).
    { intros d z z' r s H (Hr & Hs & w & x & y & Hw & Hc & Hx). repeat split; try lia.
      fold (vpoint (smul d G) r w z) in Hc.
      destruct (gl_coords_neg _ _ _ _ _ _ _ laws _ _ _ Hc) as [y' Hc'].
      exists w, x, y'. repeat split; auto. fold (vpoint (smul d G) r w z').
      now rewrite (second_residue_opposite d r w z z' H). }
    intros d z z' r s H. split; apply D; auto.
    replace (z' + z + 2 * r * d) with (z + z' + 2 * r * d) by ring. exact H.
  Qed.

  (* ---- (6) with at most two points per abscissa: same abscissa and distinct => opposite ------------------------------ *)
  Section Lift.
  Variable lift_x : Z -> option (pt * pt).
  Variable x_canon : Z -> Prop.
  Hypothesis lifts : lift_laws pt coords lift_x x_canon.
  Hypothesis n_odd : n <> 2.

  Theorem same_abscissa_opposite : forall (P P' : pt) (x y y' : Z),
    coords P = Some (x, y) -> coords P' = Some (x, y') -> P <> P' -> P' = neg P.
  Proof.
    intros P P' x y y' Hc Hc' Hne.
    destruct (gl_coords_neg _ _ _ _ _ _ _ laws _ _ _ Hc) as [yn Hn].
    destruct (ll_complete _ _ _ _ lifts _ _ _ Hc) as (P0 & P1 & HL & HP).
    destruct (ll_complete _ _ _ _ lifts _ _ _ Hc') as (P0' & P1' & HL' & HP').
    destruct (ll_complete _ _ _ _ lifts _ _ _ Hn) as (P0n & P1n & HLn & HPn).
    rewrite HL in HL', HLn. injection HL' as <- <-. injection HLn as <- <-.
    assert (NP : neg P <> P).
    { intros E. assert (K : smul 2 P = O).
      { replace 2 with (1 + 1) by lia. rewrite (gl_smul_add _ _ _ _ _ _ _ laws), (gl_smul_1 _ _ _ _ _ _ _ laws).
        rewrite <- E at 2. apply (gl_neg_r _ _ _ _ _ _ _ laws). }
      assert (PO : P = O).
      { apply (killed_is_O 2 P K). pose proof n_gt_1. rewrite Z.mod_small by lia. lia. }
      rewrite PO, (gl_coords_O _ _ _ _ _ _ _ laws) in Hc. discriminate. }
    destruct (Z.odd y), (Z.odd y'), (Z.odd yn); congruence.
  Qed.

  (* (7) the distinct-points case of double_valid_iff, split completely: either the two abscissae are DIFFERENT
     integers with the same residue modulo n (so both r + i n and r + j n, i <> j, are abscissae of curve points:
     impossible unless r + n is below the field prime), or the points are opposite and the key's discrete logarithm d
     ties the two hash values: z + z' + 2 r d = 0 (mod n) *)
  Theorem distinct_points_refined : forall (Q : pt) (r s w z z' x y x' y' : Z),
    1 <= r < n -> inv s w ->
    coords (vpoint Q r w z) = Some (x, y) -> coords (vpoint Q r w z') = Some (x', y') ->
    vpoint Q r w z <> vpoint Q r w z' -> x mod n = r -> x' mod n = r ->
    (x <> x' /\ x mod n = x' mod n)
    \/ (x = x' /\ vpoint Q r w z' = neg (vpoint Q r w z)
        /\ exists d, Q = smul d G /\ (z + z' + 2 * r * d) mod n = 0).
  Proof.
    intros Q r s w z z' x y x' y' Hr Hw Hc Hc' Hne Hx Hx'.
    destruct (Z.eq_dec x x') as [E|E]; [right|left; split; [exact E|congruence]].
    subst x'. pose proof (same_abscissa_opposite _ _ _ _ _ Hc Hc' Hne) as Hopp.
    split; [reflexivity|]. split; [exact Hopp|].
    exact (opposite_points_dlog Q r s w z z' n_odd Hr Hw Hopp).
  Qed.
  End Lift.
End DoubleValid.
