(* Proofs/OrderCert.v — a kernel-checkable certificate for "e * G = R" in the group of a curve, R = O in particular
   (the premise n*G = O of Props/C02.v, C01compose.v, C17compose.v).

   `kP` (Spec.smul) is unary repeated addition: not computable for a 256-bit scalar.  Running the model's own
   Curve.multiply inside the kernel works (vm_compute, 51 s for secp256k1) but spends nearly all of that in the ~430
   extended-Euclid inversions (Z.div_eucl of the standard library is quadratic in the bit size whatever the quotient).
   Here the inverses are HINTS: `gadd_h c P Q i` is Curve.add with the inverse of the slope's denominator supplied and
   only CHECKED ((d * i) mod p = 1, one multiplication); `inverse_mod_hint` shows the model's inverse_mod returns
   exactly that i, so gadd_h is `gadd` (the model's add, reduced).  `da` is left-to-right double-and-add over gadd_h
   consuming one hint per addition; under M1 (p prime), p <> 2 and M4 (associativity) its result is e * G
   (`da_sound`).  The hints are untrusted data (Proofs/CurveOrders.v). *)
From Coq Require Import ZArith Lia Znumtheory Bool List.
From PV Require Import Base.Outcome Model.Curve Spec.Weierstrass
  Proofs.CurveInvP Proofs.CurveAddP Proofs.CurveGroupP Proofs.CurveMulP.
Import ListNotations.
Local Open Scope Z_scope.

(* the model's inverse_mod returns THE inverse in [0, m): any checked candidate is its result *)
Lemma inverse_mod_hint a m i : 1 < m -> 0 <= i < m -> (a * i) mod m = 1 -> inverse_mod a m = Ret i.
Proof.
  intros Hm Hi H.
  assert (G1 : Z.gcd a m = 1).
  { apply Zgcd_1_rel_prime. apply bezout_rel_prime.
    apply (Bezout_intro a m 1 i (- ((a * i) / m))).
    pose proof (Z.div_mod (a * i) m ltac:(lia)) as D. rewrite H in D. lia. }
  destruct (inverse_mod_correct a m Hm G1) as (j & -> & Hj & Haj).
  f_equal. apply (inverse_unique a m j i); try lia.
  - rewrite Haj. symmetry. apply Z.mod_small. lia.
  - rewrite H. symmetry. apply Z.mod_small. lia.
Qed.

Lemma gadd_is_add c P Q : gadd c P Q = match add c P Q with Ret R => red c R | _ => None end.
Proof. destruct c; reflexivity. Qed.

Definition hint_ok (p d i : Z) : bool := (0 <=? i) && (i <? p) && ((d * i) mod p =? 1).

(* Curve.add with the inverse supplied; the (reduced) sum, or None when the hint is not the inverse *)
Definition gadd_h (c : curve) (P Q : pt) (i : Z) : option pt :=
  match P, Q with
  | None, _ => Some (red c Q)
  | Some _, None => Some (red c P)
  | Some (x0, y0), Some (x1, y1) =>
    let p := cp c in
    if (x0 - x1) mod p =? 0 then
      if (y0 + y1) mod p =? 0 then Some None
      else if hint_ok p (2 * y0) i then
             match add_finish c x0 y0 x1 (((3 * x0 * x0 + ca c) * i) mod p) with
             | Ret R => Some (red c R) | _ => None end
           else None
    else if hint_ok p (x1 - x0) i then
           match add_finish c x0 y0 x1 (((y1 - y0) * i) mod p) with
           | Ret R => Some (red c R) | _ => None end
         else None
  end.

Lemma hint_ok_spec p d i : 1 < p -> hint_ok p d i = true -> inverse_mod d p = Ret i.
Proof.
  intros Hp H. unfold hint_ok in H.
  apply andb_prop in H. destruct H as [H H3]. apply andb_prop in H. destruct H as [H1 H2].
  apply Z.leb_le in H1. apply Z.ltb_lt in H2. apply Z.eqb_eq in H3.
  apply inverse_mod_hint; auto.
Qed.

Lemma gadd_h_sound c P Q i R : 1 < cp c -> gadd_h c P Q i = Some R -> gadd c P Q = R.
Proof.
  intros Hp H. rewrite gadd_is_add.
  destruct P as [[x0 y0]|]; [destruct Q as [[x1 y1]|]|]; cbn [gadd_h add] in *.
  - cbv zeta in H.
    destruct ((x0 - x1) mod cp c =? 0).
    + destruct ((y0 + y1) mod cp c =? 0).
      * inversion H. reflexivity.
      * destruct (hint_ok (cp c) (2 * y0) i) eqn:Hh; [|discriminate].
        rewrite (hint_ok_spec _ _ _ Hp Hh). cbn [bind].
        destruct (add_finish c x0 y0 x1 _); inversion H. reflexivity.
    + destruct (hint_ok (cp c) (x1 - x0) i) eqn:Hh; [|discriminate].
      rewrite (hint_ok_spec _ _ _ Hp Hh). cbn [bind].
      destruct (add_finish c x0 y0 x1 _); inversion H. reflexivity.
  - inversion H. reflexivity.
  - inversion H. reflexivity.
Qed.

(* left-to-right double-and-add: e * G, consuming the hints in the order the additions are performed
   (one per doubling, one more per set bit; the value is irrelevant where the addition needs no inverse) *)
Fixpoint da (c : curve) (e : positive) (G : pt) (hs : list Z) : option (pt * list Z) :=
  match e with
  | xH => Some (G, hs)
  | xO e' =>
    match da c e' G hs with
    | Some (T, h :: hs') =>
      match gadd_h c T T h with Some D => Some (D, hs') | None => None end
    | _ => None
    end
  | xI e' =>
    match da c e' G hs with
    | Some (T, h1 :: h2 :: hs') =>
      match gadd_h c T T h1 with
      | Some D => match gadd_h c D G h2 with Some S1 => Some (S1, hs') | None => None end
      | None => None
      end
    | _ => None
    end
  end.

Section Sound.
Variable c : curve.
Hypothesis Hp : prime (cp c).
Hypothesis Hp2 : cp c <> 2.
Hypothesis Hassoc : forall P Q R, valid c P -> valid c Q -> valid c R -> gadd c (gadd c P Q) R = gadd c P (gadd c Q R).
Variable G : pt.
Hypothesis HG : valid c G.

Notation sm := (smul None (gadd c) (gneg c)).

Lemma da_sound : forall (e : positive) (hs rest : list Z) (R : pt),
  da c e G hs = Some (R, rest) -> R = sm (Zpos e) G.
Proof.
  assert (Hp1 : 1 < cp c) by (pose proof (prime_ge_2 _ Hp); lia).
  induction e as [e IH|e IH|]; intros hs rest R H; cbn [da] in H.
  - destruct (da c e G hs) as [[T [|h1 [|h2 hs']]]|] eqn:E; try discriminate.
    destruct (gadd_h c T T h1) as [D|] eqn:E1; [|discriminate].
    destruct (gadd_h c D G h2) as [S1|] eqn:E2; [|discriminate].
    inversion H. subst S1 rest.
    apply gadd_h_sound in E1, E2; auto.
    rewrite (IH _ _ _ E) in E1.
    rewrite (sm_double c Hp Hp2 Hassoc) in E1 by exact HG.
    rewrite <- E2, <- E1. rewrite <- (sm_succ c Hp Hp2 Hassoc) by exact HG.
    f_equal.
  - destruct (da c e G hs) as [[T [|h hs']]|] eqn:E; try discriminate.
    destruct (gadd_h c T T h) as [D|] eqn:E1; [|discriminate].
    inversion H. subst D rest.
    apply gadd_h_sound in E1; auto.
    rewrite (IH _ _ _ E) in E1.
    rewrite (sm_double c Hp Hp2 Hassoc) in E1 by exact HG.
    rewrite <- E1. f_equal.
  - inversion H. subst. symmetry. apply (sm_1 c). exact HG.
Qed.

(* the certificate of "n * G = O": a boolean, decided by vm_compute *)
Definition order_certb (n : Z) (hs : list Z) : bool :=
  match n with
  | Zpos e => match da c e G hs with Some (None, _) => true | _ => false end
  | _ => false
  end.

Theorem order_cert_sound n hs : order_certb n hs = true -> sm n G = None.
Proof.
  unfold order_certb. destruct n as [|e|e]; try discriminate.
  destruct (da c e G hs) as [[[R|] rest]|] eqn:E; try discriminate.
  intros _. symmetry. exact (da_sound e hs rest None E).
Qed.

End Sound.

(* validity of a literal point, as a boolean *)
Definition validb (c : curve) (P : pt) : bool :=
  contains_point c P &&
  match P with None => true | Some (x, y) => (0 <=? x) && (x <? cp c) && (0 <=? y) && (y <? cp c) end.

Lemma validb_sound c : prime (cp c) -> cp c <> 2 -> forall P, validb c P = true -> valid c P.
Proof.
  intros Hp Hp2 P H. unfold validb in H. apply andb_prop in H. destruct H as [H1 H2]. split.
  - apply (contains_iff_c c Hp Hp2). exact H1.
  - destruct P as [[x y]|]; cbn [reduced]; [|exact I].
    rewrite !andb_true_iff, !Z.leb_le, !Z.ltb_lt in H2. lia.
Qed.
