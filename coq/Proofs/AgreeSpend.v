(* Proofs/AgreeSpend.v — C03 spend-level agreement: BitcoinSolutionChecker.check_solution (Model/VMpy.v) against
   VerifyScript (Spec/VMcore.v) for every spend. *)
From Coq Require Import Lia ZifyBool ZifyNat ZifyN.
From PV Require Import Base.Bytes Base.Outcome Gen.GenOpcodes Gen.GenFlags.
From PV Require Import Model.ScriptNum Model.Push Model.CondStack Spec.VMTypes Model.VMpy Spec.VMcore Proofs.PushP.
From PV Require Import Proofs.AgreeBase Proofs.AgreeSigEnc Proofs.AgreeSig Proofs.AgreeInv Proofs.AgreeTop.
From PV Require Import Proofs.AgreeSpendBase Proofs.AgreeSpendPush Proofs.AgreeSpendWit.
Local Open Scope N_scope.

Section Spend.
Variable o : oracles.
Variable flags : N.
Variable ctx : txctx.
Variable witness : list bytes.      (* top last *)
Variable ssig : bytes.
Hypothesis Hs2 : strict flags = true \/ lax_contract o SV_WITNESS_V0.

(* what check_solution does after the last non-witness tuple *)
Definition W_py (cp : bytes) (is_p2sh : bool) (lf : N) (last_stack : stack) : vres unit :=
  vbind (witness_program_tuple o flags ssig witness cp is_p2sh)
        (fun wt => match wt with
                   | None => clean_stack_check lf last_stack
                   | Some (wscript, wstack, wflags, wsv) =>
                     vbind (run_and_check o wflags wsv ctx wscript wstack) (fun stack3 => clean_stack_check wflags stack3)
                   end).

(* the witness step of VerifyScript and its final tests; stack: head = top *)
Definition W_core (mal : bool) (e : script_err) (cp : bytes) (stack : list bytes) : cres unit :=
  cbind (match (if flag_set flags VERIFY_WITNESS then is_witness_program cp else None)
               return cres (list bytes * bool) with
         | Some (ver, prog) =>
           if mal then CErr e else
           cbind (verify_witness_program o flags ctx (rev witness) ver prog) (fun _ => COk (resize1 stack, true))
         | None => COk (stack, false)
         end)
        (fun r =>
           if flag_set flags VERIFY_CLEANSTACK && negb (length (fst r) =? 1)%nat then CErr SE_CLEANSTACK else
           if flag_set flags VERIFY_WITNESS && negb (snd r) && negb (length (rev witness) =? 0)%nat
           then CErr SE_WITNESS_UNEXPECTED else COk tt).

Lemma wit_part (cp : bytes) (is_p2sh : bool) (lf : N) (last_stack : list bytes) (mal : bool) (e : script_err) :
  last_stack <> [] -> flag_set lf VERIFY_CLEANSTACK = flag_set flags VERIFY_CLEANSTACK ->
  (forall (v : N) (p : bytes), is_witness_program cp = Some (v, p) ->
     mal = if is_p2sh then negb (bytes_eqb ssig (push_encode cp)) else negb (len ssig =? 0)) ->
  rel_u (W_py cp is_p2sh lf last_stack) (W_core mal e cp (rev last_stack)).
Proof.
  intros Hne Hcs Hmal. unfold W_py, W_core, witness_program_tuple.
  assert (Hclean : forall b : bool, rel_u (clean_stack_check lf last_stack)
            (if flag_set flags VERIFY_CLEANSTACK && negb (length (rev last_stack) =? 1)%nat then CErr SE_CLEANSTACK
             else if b then CErr SE_WITNESS_UNEXPECTED else COk tt) \/ b = true).
  { intros b. destruct b; [right; reflexivity|left]. unfold clean_stack_check. rewrite Hcs, rev_length.
    destruct (flag_set flags VERIFY_CLEANSTACK && _); exact I. }
  destruct (flag_set flags VERIFY_WITNESS) eqn:EW; cbn [negb].
  2: { cbn [vbind cbind fst snd andb]. destruct (Hclean false) as [H|H]; [exact H|discriminate]. }
  destruct (wp_agree cp) as [Hv Hp]. rewrite Hv.
  destruct (is_witness_program cp) as [[v p]|].
  2: { cbn [cbind fst snd andb negb]. rewrite (rev_length witness).
       destruct witness as [|w0 wt]; cbn [length Nat.ltb Nat.leb Nat.eqb negb vbind].
       - destruct (Hclean false) as [H|H]; [exact H|discriminate].
       - destruct (flag_set flags VERIFY_CLEANSTACK && _); exact I. }
  destruct (Hp v p eq_refl) as [-> Hlen]. rewrite (Hmal v _ eq_refl).
  assert (Em : (if is_p2sh
                then vbind (lift (btc_compile_push_data cp)) (fun push => VOk (negb (bytes_eqb ssig push)))
                else VOk (0 <? length ssig)%nat)
               = VOk (if is_p2sh then negb (bytes_eqb ssig (push_encode cp)) else negb (len ssig =? 0))).
  { destruct is_p2sh; [rewrite push_small by lia; reflexivity|]. f_equal. unfold len.
    destruct (Nat.ltb_spec 0 (length ssig)), (N.eqb_spec (N.of_nat (length ssig)) 0); cbn; lia. }
  rewrite Em. cbn [vbind].
  destruct (if is_p2sh then negb (bytes_eqb ssig (push_encode cp)) else negb (len ssig =? 0)); [exact I|].
  assert (Hres : forall r : cres unit,
            cbind (cbind r (fun _ => COk (resize1 (rev last_stack), true)))
              (fun r0 => if flag_set flags VERIFY_CLEANSTACK && negb (length (fst r0) =? 1)%nat then CErr SE_CLEANSTACK
                         else if true && negb (snd r0) && negb (length (rev witness) =? 0)%nat
                              then CErr SE_WITNESS_UNEXPECTED else COk tt)
            = cbind r (fun _ => COk tt)).
  { intros [u|e0|]; cbn [cbind fst snd negb andb]; try reflexivity.
    destruct (rev last_stack) as [|a t] eqn:Er.
    - exfalso. apply Hne. apply (f_equal (@length bytes)) in Er. rewrite rev_length in Er. destruct last_stack; [reflexivity|discriminate].
    - cbn. now rewrite andb_false_r. }
  rewrite Hres. clear Hres.
  destruct (N.eqb_spec v 0) as [->|Nv].
  - pose proof (wit_v0 o flags ctx witness Hs2 (skipn 2 cp)) as K. cbv zeta in K.
    destruct (check_witness_program_v0 o witness (skipn 2 cp)) as [[stack ws]| |e0|]; try contradiction; cbn [vbind].
    + destruct (existsb _ stack).
      * destruct K as [e0 ->]. exact I.
      * cbn [vbind]. destruct (verify_witness_program o flags ctx (rev witness) 0 (skipn 2 cp)) as [[]|e0|];
          cbn [cbind]; exact K.
    + destruct K as [e0 ->]. exact I.
  - unfold verify_witness_program. replace (v =? 0) with false by lia.
    destruct (flag_set flags VERIFY_DISCOURAGE_UPGRADABLE_WITNESS_PROGRAM); [exact I|].
    cbn [vbind cbind]. unfold run_and_check. rewrite eval_empty. cbn [vbind].
    change (last_opt [VM_TRUE]) with (Some VM_TRUE). cbv beta iota.
    change (bool_from_script_bytes VM_TRUE) with true. cbv beta iota. cbn [vbind].
    unfold clean_stack_check. cbn [length Nat.eqb negb]. rewrite andb_false_r. exact I.
Qed.

End Spend.

(* ---- the whole spend ------------------------------------------------------------------------------------------------ *)
Record spend_hyps (o : oracles) (sp : spend) : Prop := {
  (* (H2) for both signature versions *)
  sh_strict : strict (sp_flags sp) = true \/ (lax_contract o SV_BASE /\ lax_contract o SV_WITNESS_V0);
  (* hash oracles return strings shorter than 2^32 bytes *)
  sh_hash : hash_ok o
}.

Lemma Forall_of_rev {A} (P : A -> Prop) l : Forall P (rev l) -> Forall P l.
Proof. intros H. rewrite <- (rev_involutive l). apply Forall_rev. exact H. Qed.

Theorem spend_agree o sp : spend_hyps o sp -> rel_u (check_solution o sp) (VerifyScriptE o sp).
Proof.
  intros [Hs Hh]. destruct sp as [ssig spk wit flags ctx]. cbn [sp_flags] in Hs.
  unfold check_solution, VerifyScriptE.
  cbn [sp_script_sig sp_script_pubkey sp_witness sp_flags sp_ctx]. cbv zeta.
  change (N.lor VERIFY_MINIMALIF VERIFY_WITNESS_PUBKEYTYPE) with base_mask.
  set (f1 := N.ldiff flags base_mask).
  assert (Hs1 : strict flags = true \/ lax_contract o SV_BASE) by tauto.
  assert (Hs2 : strict flags = true \/ lax_contract o SV_WITNESS_V0) by tauto.
  assert (Hb1 : forall script st, Forall item_ok st -> N.of_nat (length st) < 2 ^ 32 -> c03_hyps o f1 SV_BASE script st).
  { intros script st A B. constructor; intros; auto; try (apply flag_ldiff_clear; reflexivity).
    unfold f1. rewrite strict_base1. exact Hs1. }
  assert (Hb2 : forall script st, Forall item_ok st -> N.of_nat (length st) < 2 ^ 32 ->
                c03_hyps o (N.ldiff f1 VERIFY_P2SH) SV_BASE script st).
  { intros script st A B. constructor; intros; auto.
    - rewrite flag_ldiff by reflexivity. apply flag_ldiff_clear. reflexivity.
    - rewrite flag_ldiff by reflexivity. apply flag_ldiff_clear. reflexivity.
    - unfold f1. rewrite strict_base2. exact Hs1. }
  (* scriptSig *)
  pose proof (eval_pair o f1 flags SV_BASE ctx ssig [] (feq_base1 flags)
                (Hb1 ssig [] (Forall_nil _) ltac:(cbn; lia))) as E1.
  change (rev []) with (@nil bytes) in E1. unfold eval_rel in E1.
  pose proof (po_cases ssig) as PO.
  destruct (VMpy.eval_script o f1 SV_BASE ctx ssig []) as [r| |e|] eqn:Epy,
           (eval_script_e o flags SV_BASE ctx ssig []) as [rc|ec|] eqn:Ec; try contradiction.
  2: { (* scriptSig fails on both sides *)
       assert (Hc : check_script_push_only ssig = VOk tt \/ check_script_push_only ssig = VFail) by tauto.
       destruct (flag_set flags VERIFY_SIGPUSHONLY); cbn [vbind].
       - destruct Hc as [-> | ->]; cbn [vbind]; destruct (negb (is_push_only ssig)); exact I.
       - exact I. }
  subst rc.
  assert (Hpo : (check_script_push_only ssig = VOk tt /\ is_push_only ssig = true) \/
                (check_script_push_only ssig = VFail /\ is_push_only ssig = false)).
  { destruct PO as [H|[H|[_ H]]]; [left; exact H|right; exact H|].
    destruct (H o flags SV_BASE ctx []) as [e He]. congruence. }
  assert (Hpre : forall (K : vres unit) (C : cres unit), rel_u K C ->
            rel_u (vbind (if flag_set flags VERIFY_SIGPUSHONLY then check_script_push_only ssig else VOk tt) (fun _ => K))
                  (if flag_set flags VERIFY_SIGPUSHONLY && negb (is_push_only ssig) then CErr SE_SIG_PUSHONLY else C)).
  { intros K C HK. destruct (flag_set flags VERIFY_SIGPUSHONLY); cbn [andb vbind]; [|exact HK].
    destruct Hpo as [[-> ->]|[-> ->]]; cbn [vbind negb]; [exact HK|exact I]. }
  apply Hpre. clear Hpre. cbn [vbind cbind].
  (* scriptPubKey *)
  destruct (eval_items o flags SV_BASE ctx ssig [] (rev r) Hh (Forall_nil _) ltac:(cbn; lia) Ec) as [Hir Hlr].
  apply Forall_of_rev in Hir. rewrite rev_length in Hlr.
  pose proof (eval_pair o f1 flags SV_BASE ctx spk r (feq_base1 flags) (Hb1 spk r Hir Hlr)) as E2.
  unfold eval_rel in E2. unfold run_and_check at 1.
  destruct (VMpy.eval_script o f1 SV_BASE ctx spk r) as [st1| |e|] eqn:Epy2,
           (eval_script_e o flags SV_BASE ctx spk (rev r)) as [st1c|ec|] eqn:Ec2; try contradiction; cbn [vbind cbind];
    [|exact I].
  subst st1c. unfold last_opt at 1, top_true at 1.
  destruct (rev st1) as [|top1 rest1] eqn:Er1; [exact I|].
  rewrite bool_from_is_cast. destruct (cast_to_bool top1); cbn [vbind cbind]; [|exact I].
  assert (Hne1 : st1 <> []) by (intros ->; discriminate).
  replace (flag_set f1 VERIFY_P2SH) with (flag_set flags VERIFY_P2SH) by (symmetry; apply flag_ldiff; reflexivity).
  rewrite p2sh_agree.
  destruct (flag_set flags VERIFY_P2SH && is_pay_to_script_hash spk) eqn:Ep2; cbv iota.
  - (* pay to script hash *)
    apply andb_true_iff in Ep2. destruct Ep2 as [_ Ep2]. destruct (p2sh_first _ Ep2) as [t ->].
    rewrite p2sh_not_witness.
    assert (Ew : (if flag_set flags VERIFY_WITNESS then @None (N * bytes) else None) = None)
      by (destruct (flag_set flags VERIFY_WITNESS); reflexivity).
    rewrite Ew. cbn [cbind fst snd].
    destruct Hpo as [[-> ->]|[-> ->]]; cbn [vbind negb]; [|exact I].
    destruct (rev r) as [|redeem st] eqn:Err.
    { exfalso. destruct (hash160_empty_fails o flags SV_BASE ctx t) as [e He]. congruence. }
    destruct (last_removelast _ _ _ Err) as [-> ->].
    assert (Hist : Forall item_ok (rev st) /\ N.of_nat (length (rev st)) < 2 ^ 32).
    { pose proof (Forall_rev Hir) as K. rewrite Err in K. inversion K; subst. split; [apply Forall_rev; assumption|].
      rewrite rev_length. apply (f_equal (@length bytes)) in Err. rewrite rev_length in Err. cbn [length] in Err.
      change (2 ^ 32) with 4294967296 in *. lia. }
    destruct Hist as [His Hls].
    pose proof (eval_pair o (N.ldiff f1 VERIFY_P2SH) flags SV_BASE ctx redeem (rev st) (feq_base2 flags)
                  (Hb2 redeem (rev st) His Hls)) as E3.
    rewrite rev_involutive in E3. unfold eval_rel in E3. unfold run_and_check at 1.
    destruct (VMpy.eval_script o (N.ldiff f1 VERIFY_P2SH) SV_BASE ctx redeem (rev st)) as [st2| |e|] eqn:Epy3,
             (eval_script_e o flags SV_BASE ctx redeem st) as [st2c|ec|] eqn:Ec3; try contradiction; cbn [vbind cbind];
      [|exact I].
    subst st2c. unfold last_opt at 1, top_true at 1.
    destruct (rev st2) as [|top2 rest2] eqn:Er2; [exact I|].
    rewrite bool_from_is_cast. destruct (cast_to_bool top2); cbn [vbind cbind]; [|exact I].
    assert (Hne2 : st2 <> []) by (intros ->; discriminate).
    rewrite <- Er2.
    refine (wit_part o flags ctx wit ssig Hs2 redeem true (N.ldiff f1 VERIFY_P2SH) st2
              (negb (bytes_eqb ssig (push_encode redeem))) SE_WITNESS_MALLEATED_P2SH Hne2 _ (fun _ _ _ => eq_refl)).
    rewrite flag_ldiff by reflexivity. apply flag_ldiff. reflexivity.
  - (* no P2SH step *)
    cbn [vbind]. rewrite <- Er1.
    assert (Eq : forall (X : cres (list bytes * bool)) (F : list bytes * bool -> cres unit),
              cbind X (fun r1 => cbind (COk (fst r1, snd r1)) F) = cbind X F).
    { intros [[a b]|e|] F; reflexivity. }
    rewrite Eq.
    refine (wit_part o flags ctx wit ssig Hs2 spk false f1 st1
              (negb (len ssig =? 0)) SE_WITNESS_MALLEATED Hne1 _ (fun _ _ _ => eq_refl)).
    apply flag_ldiff. reflexivity.
Qed.

(* the statement on the public entry points: both accept or both reject cleanly (pycoin never crashes) *)
Corollary spend_agree_res o sp : spend_hyps o sp ->
  res_agree (fun _ _ => true) (check_solution o sp) (VerifyScript o sp) = true.
Proof.
  intros H. pose proof (spend_agree o sp H) as R. unfold VerifyScript.
  destruct (check_solution o sp), (VerifyScriptE o sp); cbn in *; try contradiction; reflexivity.
Qed.

(* the hypotheses are satisfiable *)
Lemma spend_hyps_example :
  spend_hyps ex_oracles {| sp_script_sig := [x51]; sp_script_pubkey := [x51]; sp_witness := [];
                           sp_flags := N.lor VERIFY_P2SH VERIFY_DERSIG; sp_ctx := {| tc_version := 1; tc_lock_time := 0; tc_sequence := 0 |} |}.
Proof. constructor; [left; reflexivity|]. intros x. repeat split; reflexivity. Qed.
