(* Proofs/ComposeTemplates.v — composition C05 x C03: Templates.eval_input against Core's VerifyScript, kind by kind.
   For every covered kind the result has the form
       exists e, VerifyScriptE o (spend_of pz ss wit) = if eval_input ... pz ss wit then COk tt else CErr e
   i.e. soundness AND completeness of the template evaluator with respect to Spec/VMcore.v on the stated domain
   (`compose_dom`): push-only scriptSig for the legacy kinds, well-formed puzzle sizes, FindAndDelete inert on the
   signature items, non-zero witness programs, and (completeness only) no second preimage of the committed script. *)
From Coq Require Import Lia ZifyBool ZifyNat ZifyN.
From PV Require Import Base.Bytes Base.Outcome Gen.GenFlags Proofs.PushP Spec.Templates.
From PV Require Import Model.ScriptNum Spec.VMTypes Spec.VMcore.
From PV Require Import Proofs.SolveP Proofs.ComposeTemplatesEnc Proofs.ComposeTemplatesEval Proofs.ComposeTemplatesFad
                       Proofs.ComposeTemplatesSingle Proofs.ComposeTemplatesMulti Proofs.ComposeTemplatesVerify
                       Proofs.ComposeTemplatesWrap Proofs.ComposeTemplatesNonPush.
Local Open Scope N_scope.

Definition lastn {A} (n : nat) (l : list A) : list A := skipn (length l - n) l.

Lemma lastn_rev_cons {A} (l : list A) x r : rev l = x :: r -> lastn 1 l = [x].
Proof.
  intros H. apply (f_equal (@rev A)) in H. rewrite rev_involutive in H. subst l. cbn [rev]. unfold lastn.
  rewrite app_length. cbn [length]. replace (length (rev r) + 1 - 1)%nat with (length (rev r)) by lia.
  now rewrite SolveP.skipn_app_exact.
Qed.

Lemma inert_firstn_rev code m (l : list bytes) : sigs_inert code (lastn m l) -> sigs_inert code (firstn m (rev l)).
Proof. intros H s Hs. apply H. unfold lastn. rewrite firstn_rev in Hs. now apply in_rev in Hs. Qed.

Section Compose.
Variable hash160 : bytes -> bytes.
Variable sha256 : bytes -> bytes.
Variable verifies : bytes -> bytes -> bytes -> bool.
Variable sighash : bool -> N -> bytes -> option bytes.
Variable fl : flags.
Variable fw : N.
Hypothesis Hfl : flags_rel fl fw.
Variable o : oracles.
Hypothesis Ho : oracles_inst hash160 sha256 verifies sighash o.
Variable ctx : txctx.

Definition spend_of (pz : puzzle) (ss : bytes) (wit : list bytes) : spend :=
  {| sp_script_sig := ss; sp_script_pubkey := script_pubkey hash160 sha256 pz; sp_witness := wit;
     sp_flags := fw; sp_ctx := ctx |}.

Notation EVAL := (eval_input hash160 sha256 verifies sighash fl).

Lemma eval_input_head pz ss wit items mn : parse_pushes ss = Some (items, mn) ->
  sig_conds fl ss items mn = false -> EVAL pz ss wit = false.
Proof.
  intros Hp Hc. unfold eval_input. rewrite Hp. unfold sig_conds in Hc.
  destruct (10000 <? lenN ss); [reflexivity|]. cbn [negb andb] in Hc.
  destruct (_ || _); [reflexivity|discriminate].
Qed.

Lemma eval_input_body pz ss wit items mn : parse_pushes ss = Some (items, mn) ->
  sig_conds fl ss items mn = true ->
  EVAL pz ss wit =
    let clean := f_std fl in
    match pz_kind pz with
    | K_P2PK =>
      is_nil wit && eval_p2pk verifies sighash fl clean (p2pk_script (hd [] (pz_keys pz))) (hd [] (pz_keys pz)) items
    | K_P2PKH =>
      is_nil wit && eval_p2pkh hash160 verifies sighash fl false clean (p2pkh_script (pz_hash pz)) (pz_hash pz) items
    | K_MS =>
      is_nil wit && eval_multisig verifies sighash fl false clean (ms_script (pz_m pz) (pz_keys pz)) (pz_m pz) (pz_keys pz) items
    | K_P2SH_MS =>
      let ms := ms_script (pz_m pz) (pz_keys pz) in
      is_nil wit &&
      match split_last items with
      | Some (st, redeem) => bytes_eqb redeem ms && eval_multisig verifies sighash fl false clean ms (pz_m pz) (pz_keys pz) st
      | None => false
      end
    | K_P2WPKH | K_P2WSH_MS | K_P2SH_P2WPKH | K_P2SH_P2WSH_MS =>
      bytes_eqb ss (expected_wit_script_sig sha256 pz) && eval_witness_part hash160 verifies sighash fl pz wit
    end.
Proof.
  intros Hp Hc. unfold eval_input. rewrite Hp. unfold sig_conds in Hc.
  destruct (10000 <? lenN ss); [discriminate|]. cbn [negb andb] in Hc.
  destruct (_ || _); [discriminate|]. reflexivity.
Qed.

(* ---- P2PK ---------------------------------------------------------------------------------------------------- *)
Theorem p2pk_agree pz ss wit items mn :
  pz_kind pz = K_P2PK -> lenN (hd [] (pz_keys pz)) <= 520 ->
  parse_pushes ss = Some (items, mn) ->
  sigs_inert (p2pk_script (hd [] (pz_keys pz))) (lastn 1 items) ->
  exists e, VerifyScriptE o (spend_of pz ss wit) = if EVAL pz ss wit then COk tt else CErr e.
Proof.
  intros Hk Hlen Hp Hin. set (key := hd [] (pz_keys pz)) in *.
  unfold spend_of, script_pubkey. rewrite Hk. fold key.
  destruct (verify_legacy fl fw Hfl o ctx ss (p2pk_script key) wit items mn Hp (p2pk_not_wp key) (p2pk_not_p2sh key))
    as (A & B & C).
  destruct (sig_conds fl ss items mn) eqn:Ec.
  2:{ rewrite (eval_input_head pz ss wit items mn Hp Ec). exact (A eq_refl). }
  rewrite (eval_input_body pz ss wit items mn Hp Ec). cbv zeta. rewrite Hk. fold key.
  pose proof (eval_p2pk_core hash160 sha256 verifies sighash fl fw Hfl o Ho ctx key (rev items) Hlen) as T. cbv zeta in T.
  unfold eval_p2pk. rewrite split_last_rev.
  destruct (rev items) as [|sig r] eqn:Er.
  { rewrite andb_false_r. apply (B eq_refl). apply T. intros; discriminate. }
  assert (Hl : lenN (sig :: r) = lenN items) by (rewrite <- Er; apply lenN_rev).
  rewrite Hl in T.
  assert (T' := T (fun sig' r' E' => Hin sig' ltac:(rewrite (lastn_rev_cons items sig r Er); injection E' as <- _; left; reflexivity))).
  clear T.
  destruct ((lenN items + 1 <=? 1000) && checksig verifies sighash fl false (p2pk_script key) sig key) eqn:Eb.
  - destruct (C eq_refl r T') as [e He]. exists e. rewrite He. rewrite is_nil_rev.
    destruct (f_std fl), (is_nil r), (is_nil wit); reflexivity.
  - rewrite andb_false_r. apply (B eq_refl). exact T'.
Qed.

(* ---- P2PKH --------------------------------------------------------------------------------------------------- *)
Theorem p2pkh_agree pz ss wit items mn :
  pz_kind pz = K_P2PKH -> lenN (pz_hash pz) <= 520 ->
  parse_pushes ss = Some (items, mn) ->
  sigs_inert (p2pkh_script (pz_hash pz)) (lastn 1 (removelast items)) ->
  exists e, VerifyScriptE o (spend_of pz ss wit) = if EVAL pz ss wit then COk tt else CErr e.
Proof.
  intros Hk Hlen Hp Hin. set (h := pz_hash pz) in *.
  unfold spend_of, script_pubkey. rewrite Hk. fold h.
  destruct (verify_legacy fl fw Hfl o ctx ss (p2pkh_script h) wit items mn Hp (p2pkh_not_wp h) (p2pkh_not_p2sh h))
    as (A & B & C).
  destruct (sig_conds fl ss items mn) eqn:Ec.
  2:{ rewrite (eval_input_head pz ss wit items mn Hp Ec). exact (A eq_refl). }
  rewrite (eval_input_body pz ss wit items mn Hp Ec). cbv zeta. rewrite Hk. fold h.
  pose proof (eval_p2pkh_core hash160 sha256 verifies sighash fl fw Hfl o Ho ctx SV_BASE h (rev items) Hlen) as T.
  cbv zeta in T. cbn [sv_wit] in T.
  unfold eval_p2pkh. rewrite split_last_rev.
  destruct (rev items) as [|pub st1] eqn:Er.
  { rewrite andb_false_r. apply (B eq_refl). apply T. intros; discriminate. }
  rewrite split_last_rev, rev_involutive.
  destruct st1 as [|sig r].
  { rewrite andb_false_r. apply (B eq_refl). apply T. intros; discriminate. }
  assert (Hl : lenN (pub :: sig :: r) = lenN items) by (rewrite <- Er; apply lenN_rev).
  rewrite Hl in T.
  assert (Hlast : lastn 1 (removelast items) = [sig]).
  { apply (f_equal (@rev _)) in Er. rewrite rev_involutive in Er. subst items. cbn [rev].
    rewrite removelast_last. apply (lastn_rev_cons _ sig r). rewrite rev_app_distr, rev_involutive. reflexivity. }
  assert (T' := T (fun pub' sig' r' E' _ => Hin sig' ltac:(rewrite Hlast; injection E' as _ <- _; left; reflexivity))).
  clear T.
  destruct ((lenN items + 2 <=? 1000) && bytes_eqb (hash160 pub) h && checksig verifies sighash fl false (p2pkh_script h) sig pub) eqn:Eb.
  - destruct (C eq_refl r T') as [e He]. exists e. rewrite He. rewrite is_nil_rev.
    destruct (f_std fl), (is_nil r), (is_nil wit); reflexivity.
  - rewrite andb_false_r. apply (B eq_refl). exact T'.
Qed.

(* ---- bare multisig --------------------------------------------------------------------------------------------- *)
Definition ms_wf (pz : puzzle) : Prop :=
  (1 <= pz_m pz <= length (pz_keys pz))%nat /\ (length (pz_keys pz) <= 20)%nat /\
  Forall (fun k => lenN k <= 520) (pz_keys pz).

Theorem ms_agree pz ss wit items mn :
  pz_kind pz = K_MS -> ms_wf pz -> lenN (ms_script (pz_m pz) (pz_keys pz)) <= 10000 ->
  parse_pushes ss = Some (items, mn) ->
  sigs_inert (ms_script (pz_m pz) (pz_keys pz)) (lastn (pz_m pz) items) ->
  exists e, VerifyScriptE o (spend_of pz ss wit) = if EVAL pz ss wit then COk tt else CErr e.
Proof.
  intros Hk (Hm & Hn & Hkeys) Hsz Hp Hin. set (m := pz_m pz) in *. set (keys := pz_keys pz) in *.
  set (ms := ms_script m keys) in *.
  unfold spend_of, script_pubkey. rewrite Hk. fold m keys ms.
  destruct (verify_legacy fl fw Hfl o ctx ss ms wit items mn Hp (ms_not_wp m keys Hm Hn) (ms_not_p2sh m keys))
    as (A & B & C).
  destruct (sig_conds fl ss items mn) eqn:Ec.
  2:{ rewrite (eval_input_head pz ss wit items mn Hp Ec). exact (A eq_refl). }
  rewrite (eval_input_body pz ss wit items mn Hp Ec). cbv zeta. rewrite Hk. fold m keys ms.
  rewrite (ms_bridge verifies sighash fl false (f_std fl) ms m keys items Hm Hn).
  pose proof (eval_ms_core hash160 sha256 verifies sighash fl fw Hfl o Ho ctx SV_BASE m keys (rev items) Hm Hn Hkeys Hsz
                (fun _ => inert_firstn_rev ms m items Hin)) as T. cbv zeta in T. cbn [sv_wit] in T. fold ms in T.
  destruct ((m + 1 <=? length (rev items))%nat && (lenN (rev items) + N.of_nat (length keys) + 2 <=? 1000)) eqn:Ecd; cbn [andb].
  2:{ rewrite andb_false_r. apply (B eq_refl). exact T. }
  destruct (skipn m (rev items)) as [|dummy r] eqn:Esk.
  { apply (f_equal (@length _)) in Esk. rewrite skipn_length in Esk. cbn [length] in Esk. lia. }
  destruct ((if f_std fl then is_nil dummy else true) && cms verifies sighash fl false ms (rev keys) (firstn m (rev items))) eqn:Eb;
    cbn [andb].
  - destruct (C eq_refl r T) as [e He]. exists e. rewrite He.
    destruct (f_std fl), (is_nil r), (is_nil wit); reflexivity.
  - rewrite andb_false_r. apply (B eq_refl). exact T.
Qed.

(* ---- P2SH multisig --------------------------------------------------------------------------------------------- *)
Theorem p2sh_ms_agree pz ss wit items mn :
  pz_kind pz = K_P2SH_MS -> ms_wf pz ->
  length (hash160 (ms_script (pz_m pz) (pz_keys pz))) = 20%nat ->
  parse_pushes ss = Some (items, mn) ->
  sigs_inert (ms_script (pz_m pz) (pz_keys pz)) (lastn (pz_m pz) (removelast items)) ->
  (forall redeem str, rev items = redeem :: str ->
     hash160 redeem = hash160 (ms_script (pz_m pz) (pz_keys pz)) -> redeem = ms_script (pz_m pz) (pz_keys pz)) ->
  exists e, VerifyScriptE o (spend_of pz ss wit) = if EVAL pz ss wit then COk tt else CErr e.
Proof.
  intros Hk (Hm & Hn & Hkeys) HH Hp Hin Hcoll. set (m := pz_m pz) in *. set (keys := pz_keys pz) in *.
  set (ms := ms_script m keys) in *.
  unfold spend_of, script_pubkey. rewrite Hk. fold m keys ms.
  destruct (verify_p2sh_plain hash160 sha256 verifies sighash fl fw Hfl o Ho ctx ss (hash160 ms) wit items mn HH Hp) as (A & B).
  destruct (sig_conds fl ss items mn) eqn:Ec.
  2:{ rewrite (eval_input_head pz ss wit items mn Hp Ec). exact (A eq_refl). }
  rewrite (eval_input_body pz ss wit items mn Hp Ec). cbv zeta. rewrite Hk. fold m keys ms.
  specialize (B eq_refl). rewrite split_last_rev.
  destruct (rev items) as [|redeem str] eqn:Er; [rewrite andb_false_r; exact B|].
  destruct B as (B1 & B2).
  destruct (bytes_eqb redeem ms) eqn:Erd.
  2:{ cbn [andb]. rewrite andb_false_r. apply B1.
      destruct (bytes_eqb (hash160 redeem) (hash160 ms)) eqn:Eh; [|apply andb_false_r].
      apply bytes_eqb_eq in Eh. rewrite (Hcoll redeem str eq_refl Eh), bytes_eqb_refl in Erd. discriminate. }
  apply bytes_eqb_eq in Erd. subst redeem. cbn [andb].
  assert (Hl : lenN items = lenN str + 1).
  { rewrite <- (lenN_rev items), Er, lenN_cons. lia. }
  rewrite (ms_bridge verifies sighash fl false (f_std fl) ms m keys (rev str) Hm Hn). rewrite rev_involutive.
  destruct (lenN items + 1 <=? 1000) eqn:Esz.
  2:{ replace (lenN str + N.of_nat (length keys) + 2 <=? 1000) with false by (fold keys in Hm; lia).
      rewrite !andb_false_r. apply B1. reflexivity. }
  rewrite bytes_eqb_refl in B2. destruct (B2 eq_refl (ms_not_wp m keys Hm Hn)) as (Ba & Bb). clear B1 B2. cbv zeta in Ba, Bb.
  assert (Hms : lenN ms <= 10000).
  { unfold sig_conds in Ec. destruct (all_le_520 items) eqn:Ea; [|rewrite orb_true_r, andb_false_r in Ec; discriminate].
    unfold all_le_520 in Ea. rewrite forallb_forall in Ea.
    assert (In ms items) by (apply in_rev; rewrite Er; left; reflexivity). specialize (Ea ms H). lia. }
  assert (Hin' : sigs_inert ms (firstn m str)).
  { assert (Hrl : removelast items = rev str).
    { apply (f_equal (@rev _)) in Er. rewrite rev_involutive in Er. rewrite Er. cbn [rev]. apply removelast_last. }
    rewrite Hrl in Hin. apply inert_firstn_rev in Hin. now rewrite rev_involutive in Hin. }
  pose proof (eval_ms_core hash160 sha256 verifies sighash fl fw Hfl o Ho ctx SV_BASE m keys str Hm Hn Hkeys Hms
                (fun _ => Hin')) as T. cbv zeta in T. cbn [sv_wit] in T. fold ms in T.
  destruct ((m + 1 <=? length str)%nat && (lenN str + N.of_nat (length keys) + 2 <=? 1000)) eqn:Ecd; cbn [andb].
  2:{ rewrite andb_false_r. apply Ba. exact T. }
  destruct (skipn m str) as [|dummy r] eqn:Esk.
  { apply (f_equal (@length _)) in Esk. rewrite skipn_length in Esk. cbn [length] in Esk. lia. }
  destruct ((if f_std fl then is_nil dummy else true) && cms verifies sighash fl false ms (rev keys) (firstn m str)) eqn:Eb;
    cbn [andb].
  - destruct (Bb r T) as [e He]. exists e. rewrite He.
    destruct (f_std fl), (is_nil r), (is_nil wit); reflexivity.
  - rewrite andb_false_r. apply Ba. exact T.
Qed.

(* ---- witness kinds: the scriptSig is fixed ------------------------------------------------------------------------ *)
Definition is_wit_kind (kd : kind) : bool :=
  match kd with K_P2WPKH | K_P2WSH_MS | K_P2SH_P2WPKH | K_P2SH_P2WSH_MS => true | _ => false end.

Lemma eval_input_wit_bad pz ss wit : is_wit_kind (pz_kind pz) = true ->
  bytes_eqb ss (expected_wit_script_sig sha256 pz) = false -> EVAL pz ss wit = false.
Proof.
  intros Hk Hb. unfold eval_input. destruct (10000 <? lenN ss); [reflexivity|].
  destruct (parse_pushes ss) as [[items mn]|]; [|reflexivity]. destruct (_ || _); [reflexivity|].
  destruct (pz_kind pz); try discriminate; rewrite Hb; reflexivity.
Qed.

Lemma eval_input_wit_ok pz wit items : is_wit_kind (pz_kind pz) = true ->
  parse_pushes (expected_wit_script_sig sha256 pz) = Some (items, true) ->
  sig_conds fl (expected_wit_script_sig sha256 pz) items true = true ->
  EVAL pz (expected_wit_script_sig sha256 pz) wit = eval_witness_part hash160 verifies sighash fl pz wit.
Proof.
  intros Hk Hp Hc. rewrite (eval_input_body pz _ wit items true Hp Hc). cbv zeta.
  destruct (pz_kind pz); try discriminate; rewrite bytes_eqb_refl; reflexivity.
Qed.

Lemma sig_conds_nil : sig_conds fl [] [] true = true.
Proof. unfold sig_conds. cbn. now rewrite andb_false_r. Qed.

Lemma sig_conds_one x : lenN x <= 520 -> sig_conds fl (push_data x) [x] true = true.
Proof.
  intros H. unfold sig_conds. pose proof (push_data_length x ltac:(lia)) as K.
  replace (10000 <? lenN (push_data x)) with false by lia. cbn [negb andb all_le_520 forallb]. rewrite andb_false_r.
  replace (lenN x <=? 520) with true by lia. reflexivity.
Qed.

Lemma parse_pushes_one x : lenN x <= 520 -> parse_pushes (push_data x) = Some ([x], true).
Proof.
  intros H. rewrite <- (app_nil_r (push_data x)). apply (parse_pushes_pushes [x]). repeat constructor. lia.
Qed.

Theorem p2wpkh_agree pz ss wit :
  pz_kind pz = K_P2WPKH -> length (pz_hash pz) = 20%nat -> cast_to_bool (pz_hash pz) = true ->
  exists e, VerifyScriptE o (spend_of pz ss wit) = if EVAL pz ss wit then COk tt else CErr e.
Proof.
  intros Hk Hl Hc. set (h := pz_hash pz) in *.
  assert (Hl' : 2 <= lenN h <= 40) by (unfold lenN; lia).
  unfold spend_of, script_pubkey. rewrite Hk. fold h.
  destruct ss as [|b ss'].
  - rewrite (verify_native fl fw Hfl o ctx h wit Hl' Hc).
    assert (Ex : expected_wit_script_sig sha256 pz = []) by (unfold expected_wit_script_sig; now rewrite Hk).
    pose proof (eval_input_wit_ok pz wit [] ltac:(now rewrite Hk)) as E. rewrite Ex in E.
    rewrite (E eq_refl sig_conds_nil). unfold eval_witness_part. rewrite Hk. fold h.
    exact (vwp_p2wpkh hash160 sha256 verifies sighash fl fw Hfl o Ho ctx h wit Hl).
  - rewrite (eval_input_wit_bad pz (b :: ss') wit ltac:(now rewrite Hk)
               ltac:(unfold expected_wit_script_sig; rewrite Hk; reflexivity)).
    apply (verify_native_malleated fl fw Hfl o ctx h (b :: ss') wit Hl'). discriminate.
Qed.

Theorem p2wsh_ms_agree pz ss wit :
  pz_kind pz = K_P2WSH_MS -> ms_wf pz ->
  length (sha256 (ms_script (pz_m pz) (pz_keys pz))) = 32%nat ->
  cast_to_bool (sha256 (ms_script (pz_m pz) (pz_keys pz))) = true ->
  (forall ws st, rev wit = ws :: st -> sha256 ws = sha256 (ms_script (pz_m pz) (pz_keys pz)) ->
                 ws = ms_script (pz_m pz) (pz_keys pz)) ->
  exists e, VerifyScriptE o (spend_of pz ss wit) = if EVAL pz ss wit then COk tt else CErr e.
Proof.
  intros Hk (Hm & Hn & Hkeys) Hl Hc Hcoll. set (m := pz_m pz) in *. set (keys := pz_keys pz) in *.
  set (ms := ms_script m keys) in *.
  assert (Hl' : 2 <= lenN (sha256 ms) <= 40) by (unfold lenN; lia).
  unfold spend_of, script_pubkey. rewrite Hk. fold m keys ms.
  destruct ss as [|b ss'].
  - rewrite (verify_native fl fw Hfl o ctx (sha256 ms) wit Hl' Hc).
    assert (Ex : expected_wit_script_sig sha256 pz = []) by (unfold expected_wit_script_sig; now rewrite Hk).
    pose proof (eval_input_wit_ok pz wit [] ltac:(now rewrite Hk)) as E. rewrite Ex in E.
    rewrite (E eq_refl sig_conds_nil). unfold eval_witness_part. rewrite Hk. fold m keys ms.
    exact (vwp_p2wsh hash160 sha256 verifies sighash fl fw Hfl o Ho ctx m keys wit Hm Hn Hkeys Hl Hcoll).
  - rewrite (eval_input_wit_bad pz (b :: ss') wit ltac:(now rewrite Hk)
               ltac:(unfold expected_wit_script_sig; rewrite Hk; reflexivity)).
    apply (verify_native_malleated fl fw Hfl o ctx (sha256 ms) (b :: ss') wit Hl'). discriminate.
Qed.

Theorem p2sh_p2wpkh_agree pz ss wit :
  pz_kind pz = K_P2SH_P2WPKH -> length (pz_hash pz) = 20%nat -> cast_to_bool (pz_hash pz) = true ->
  length (hash160 (wit0_script (pz_hash pz))) = 20%nat ->
  (ss <> push_data (wit0_script (pz_hash pz)) ->
   forall x, hash160 x = hash160 (wit0_script (pz_hash pz)) -> x = wit0_script (pz_hash pz)) ->
  exists e, VerifyScriptE o (spend_of pz ss wit) = if EVAL pz ss wit then COk tt else CErr e.
Proof.
  intros Hk Hl Hc HH Hcoll. set (h := pz_hash pz) in *.
  assert (Hl' : 2 <= lenN h <= 40) by (unfold lenN; lia).
  assert (Hrl : lenN (wit0_script h) <= 520) by (rewrite (wit0_len h Hl'); lia).
  unfold spend_of, script_pubkey. rewrite Hk. fold h.
  assert (Ex : expected_wit_script_sig sha256 pz = push_data (wit0_script h)) by (unfold expected_wit_script_sig; now rewrite Hk).
  destruct (bytes_eqb ss (push_data (wit0_script h))) eqn:Es.
  - apply bytes_eqb_eq in Es. subst ss.
    rewrite (verify_p2sh_wit hash160 sha256 verifies sighash fl fw Hfl o Ho ctx h wit Hl' Hc HH).
    pose proof (eval_input_wit_ok pz wit [wit0_script h] ltac:(now rewrite Hk)) as E. rewrite Ex in E.
    rewrite (E (parse_pushes_one _ Hrl) (sig_conds_one _ Hrl)). unfold eval_witness_part. rewrite Hk. fold h.
    exact (vwp_p2wpkh hash160 sha256 verifies sighash fl fw Hfl o Ho ctx h wit Hl).
  - rewrite (eval_input_wit_bad pz ss wit ltac:(now rewrite Hk) ltac:(now rewrite Ex)).
    assert (Hne : ss <> push_data (wit0_script h)) by (intros ->; rewrite bytes_eqb_refl in Es; discriminate).
    exact (verify_p2sh_wit_malleated hash160 sha256 verifies sighash fl fw Hfl o Ho ctx h ss wit Hl' HH Hne (Hcoll Hne)).
Qed.

Theorem p2sh_p2wsh_ms_agree pz ss wit :
  pz_kind pz = K_P2SH_P2WSH_MS -> ms_wf pz ->
  length (sha256 (ms_script (pz_m pz) (pz_keys pz))) = 32%nat ->
  cast_to_bool (sha256 (ms_script (pz_m pz) (pz_keys pz))) = true ->
  length (hash160 (wit0_script (sha256 (ms_script (pz_m pz) (pz_keys pz))))) = 20%nat ->
  (forall ws st, rev wit = ws :: st -> sha256 ws = sha256 (ms_script (pz_m pz) (pz_keys pz)) ->
                 ws = ms_script (pz_m pz) (pz_keys pz)) ->
  (ss <> push_data (wit0_script (sha256 (ms_script (pz_m pz) (pz_keys pz)))) ->
   forall x, hash160 x = hash160 (wit0_script (sha256 (ms_script (pz_m pz) (pz_keys pz)))) ->
             x = wit0_script (sha256 (ms_script (pz_m pz) (pz_keys pz)))) ->
  exists e, VerifyScriptE o (spend_of pz ss wit) = if EVAL pz ss wit then COk tt else CErr e.
Proof.
  intros Hk (Hm & Hn & Hkeys) Hl Hc HH Hcollw Hcoll. set (m := pz_m pz) in *. set (keys := pz_keys pz) in *.
  set (ms := ms_script m keys) in *. set (prog := sha256 ms) in *.
  assert (Hl' : 2 <= lenN prog <= 40) by (unfold lenN; lia).
  assert (Hrl : lenN (wit0_script prog) <= 520) by (rewrite (wit0_len prog Hl'); lia).
  unfold spend_of, script_pubkey. rewrite Hk. fold m keys ms prog.
  assert (Ex : expected_wit_script_sig sha256 pz = push_data (wit0_script prog)) by (unfold expected_wit_script_sig; now rewrite Hk).
  destruct (bytes_eqb ss (push_data (wit0_script prog))) eqn:Es.
  - apply bytes_eqb_eq in Es. subst ss.
    rewrite (verify_p2sh_wit hash160 sha256 verifies sighash fl fw Hfl o Ho ctx prog wit Hl' Hc HH).
    pose proof (eval_input_wit_ok pz wit [wit0_script prog] ltac:(now rewrite Hk)) as E. rewrite Ex in E.
    rewrite (E (parse_pushes_one _ Hrl) (sig_conds_one _ Hrl)). unfold eval_witness_part. rewrite Hk. fold m keys ms.
    exact (vwp_p2wsh hash160 sha256 verifies sighash fl fw Hfl o Ho ctx m keys wit Hm Hn Hkeys Hl Hcollw).
  - rewrite (eval_input_wit_bad pz ss wit ltac:(now rewrite Hk) ltac:(now rewrite Ex)).
    assert (Hne : ss <> push_data (wit0_script prog)) by (intros ->; rewrite bytes_eqb_refl in Es; discriminate).
    exact (verify_p2sh_wit_malleated hash160 sha256 verifies sighash fl fw Hfl o Ho ctx prog ss wit Hl' HH Hne (Hcoll Hne)).
Qed.

(* ================================================================================================================ *)
(* the domain, and the two directions for all eight kinds                                                           *)
Hypothesis Hh160 : forall x, length (hash160 x) = 20%nat.
Hypothesis Hsha : forall x, length (sha256 x) = 32%nat.

Definition ms_of (pz : puzzle) : bytes := ms_script (pz_m pz) (pz_keys pz).

(* sizes Core enforces and Templates does not look at; non-zero witness programs (Core applies CastToBool to the
   program left on the stack by `0 <program>`) *)
Definition puzzle_wf (pz : puzzle) : Prop :=
  match pz_kind pz with
  | K_P2PK => lenN (hd [] (pz_keys pz)) <= 520
  | K_P2PKH => lenN (pz_hash pz) <= 520
  | K_MS => ms_wf pz /\ lenN (ms_of pz) <= 10000
  | K_P2SH_MS => ms_wf pz
  | K_P2WSH_MS | K_P2SH_P2WSH_MS => ms_wf pz /\ cast_to_bool (sha256 (ms_of pz)) = true
  | K_P2WPKH | K_P2SH_P2WPKH => length (pz_hash pz) = 20%nat /\ cast_to_bool (pz_hash pz) = true
  end.

(* the script code of the BASE-version signature checks and the scriptSig items they read as signatures *)
Definition code_of (pz : puzzle) : bytes :=
  match pz_kind pz with
  | K_P2PK => p2pk_script (hd [] (pz_keys pz))
  | K_P2PKH => p2pkh_script (pz_hash pz)
  | K_MS | K_P2SH_MS => ms_of pz
  | _ => []
  end.
Definition sig_items (pz : puzzle) (items : list bytes) : list bytes :=
  match pz_kind pz with
  | K_P2PK => lastn 1 items
  | K_P2PKH => lastn 1 (removelast items)
  | K_MS => lastn (pz_m pz) items
  | K_P2SH_MS => lastn (pz_m pz) (removelast items)
  | _ => []
  end.
(* FindAndDelete removes nothing: Templates hashes the whole script code (see Proofs/ComposeTemplatesFad.v) *)
Definition fad_inert (pz : puzzle) (ss : bytes) : Prop :=
  forall items mn, parse_pushes ss = Some (items, mn) -> sigs_inert (code_of pz) (sig_items pz items).

(* completeness only: push-only scriptSig for the kinds where Core does not demand it (for P2SH it does, and a
   scriptSig parse_pushes refuses is invalid for Core as well: Proofs/ComposeTemplatesNonPush.v) ... *)
Definition in_dom (pz : puzzle) (ss : bytes) : Prop :=
  match pz_kind pz with
  | K_P2PK | K_P2PKH | K_MS => in_domain ss = true
  | _ => True
  end.
(* ... and no second preimage of the committed redeem / witness script *)
Definition no_collision (pz : puzzle) : Prop :=
  match pz_kind pz with
  | K_P2SH_MS => forall x, hash160 x = hash160 (ms_of pz) -> x = ms_of pz
  | K_P2WSH_MS => forall x, sha256 x = sha256 (ms_of pz) -> x = ms_of pz
  | K_P2SH_P2WSH_MS => (forall x, sha256 x = sha256 (ms_of pz) -> x = ms_of pz) /\
                       (forall x, hash160 x = hash160 (wit0_script (sha256 (ms_of pz))) -> x = wit0_script (sha256 (ms_of pz)))
  | K_P2SH_P2WPKH => forall x, hash160 x = hash160 (wit0_script (pz_hash pz)) -> x = wit0_script (pz_hash pz)
  | _ => True
  end.

Lemma eval_true_parse pz ss wit : EVAL pz ss wit = true -> exists items mn, parse_pushes ss = Some (items, mn).
Proof.
  unfold eval_input. destruct (10000 <? lenN ss); [discriminate|].
  destruct (parse_pushes ss) as [[items mn]|]; [eauto|discriminate].
Qed.

Lemma eval_true_conds pz ss wit items mn : parse_pushes ss = Some (items, mn) -> EVAL pz ss wit = true ->
  sig_conds fl ss items mn = true.
Proof.
  intros Hp He. destruct (sig_conds fl ss items mn) eqn:E; [reflexivity|].
  rewrite (eval_input_head pz ss wit items mn Hp E) in He. discriminate.
Qed.

(* the central statement: under the local hypotheses `loc`, Core's verdict IS the template evaluator's *)
Definition agree (pz : puzzle) (ss : bytes) (wit : list bytes) : Prop :=
  exists e, VerifyScriptE o (spend_of pz ss wit) = if EVAL pz ss wit then COk tt else CErr e.

Lemma agree_sound pz ss wit : agree pz ss wit -> EVAL pz ss wit = true -> VerifyScript o (spend_of pz ss wit) = VOk tt.
Proof. intros [e H] He. unfold VerifyScript. rewrite H, He. reflexivity. Qed.
Lemma agree_complete pz ss wit : agree pz ss wit -> VerifyScript o (spend_of pz ss wit) = VOk tt -> EVAL pz ss wit = true.
Proof. intros [e H] Hv. unfold VerifyScript in Hv. rewrite H in Hv. destruct (EVAL pz ss wit); [reflexivity|discriminate]. Qed.

Lemma wit_part_true_ws pz wit : pz_kind pz = K_P2WSH_MS \/ pz_kind pz = K_P2SH_P2WSH_MS ->
  eval_witness_part hash160 verifies sighash fl pz wit = true ->
  forall ws st, rev wit = ws :: st -> ws = ms_of pz.
Proof.
  intros Hk He ws st Er. unfold eval_witness_part in He. rewrite split_last_rev, Er in He.
  destruct Hk as [Hk|Hk]; rewrite Hk in He; destruct (bytes_eqb ws (ms_script (pz_m pz) (pz_keys pz))) eqn:E;
    try discriminate; now apply bytes_eqb_eq in E.
Qed.

Lemma eval_true_wit pz ss wit : is_wit_kind (pz_kind pz) = true -> EVAL pz ss wit = true ->
  ss = expected_wit_script_sig sha256 pz /\ eval_witness_part hash160 verifies sighash fl pz wit = true.
Proof.
  intros Hk He. destruct (bytes_eqb ss (expected_wit_script_sig sha256 pz)) eqn:Es.
  - apply bytes_eqb_eq in Es. split; [exact Es|].
    destruct (eval_true_parse pz ss wit He) as (items & mn & Hp).
    rewrite (eval_input_body pz ss wit items mn Hp (eval_true_conds pz ss wit items mn Hp He)) in He. cbv zeta in He.
    destruct (pz_kind pz); try discriminate; apply andb_true_iff in He; apply He.
  - rewrite (eval_input_wit_bad pz ss wit Hk Es) in He. discriminate.
Qed.

(* soundness: no collision-freeness, no push-only hypothesis *)
Theorem templates_sound pz ss wit : puzzle_wf pz -> fad_inert pz ss ->
  EVAL pz ss wit = true -> VerifyScript o (spend_of pz ss wit) = VOk tt.
Proof.
  intros Hwf Hin He. apply agree_sound; [|exact He]. unfold puzzle_wf in Hwf. unfold fad_inert, code_of, sig_items in Hin.
  destruct (pz_kind pz) eqn:Hk.
  - destruct (eval_true_parse pz ss wit He) as (items & mn & Hp).
    exact (p2pk_agree pz ss wit items mn Hk Hwf Hp (Hin items mn Hp)).
  - destruct (eval_true_parse pz ss wit He) as (items & mn & Hp).
    exact (p2pkh_agree pz ss wit items mn Hk Hwf Hp (Hin items mn Hp)).
  - destruct (eval_true_parse pz ss wit He) as (items & mn & Hp). destruct Hwf as [Hwf Hsz].
    exact (ms_agree pz ss wit items mn Hk Hwf Hsz Hp (Hin items mn Hp)).
  - destruct (eval_true_parse pz ss wit He) as (items & mn & Hp).
    apply (p2sh_ms_agree pz ss wit items mn Hk Hwf (Hh160 _) Hp (Hin items mn Hp)).
    intros redeem str Er _.
    rewrite (eval_input_body pz ss wit items mn Hp (eval_true_conds pz ss wit items mn Hp He)) in He. cbv zeta in He.
    rewrite Hk, split_last_rev, Er in He. apply andb_true_iff in He. destruct He as [_ He].
    apply andb_true_iff in He. destruct He as [He _]. now apply bytes_eqb_eq in He.
  - destruct Hwf as [Hwf Hc]. apply (p2wsh_ms_agree pz ss wit Hk Hwf (Hsha _) Hc).
    intros ws st Er _. destruct (eval_true_wit pz ss wit ltac:(now rewrite Hk) He) as [_ Hw].
    exact (wit_part_true_ws pz wit (or_introl Hk) Hw ws st Er).
  - destruct Hwf as [Hwf Hc]. apply (p2sh_p2wsh_ms_agree pz ss wit Hk Hwf (Hsha _) Hc (Hh160 _)).
    + intros ws st Er _. destruct (eval_true_wit pz ss wit ltac:(now rewrite Hk) He) as [_ Hw].
      exact (wit_part_true_ws pz wit (or_intror Hk) Hw ws st Er).
    + intros Hne. exfalso. apply Hne. destruct (eval_true_wit pz ss wit ltac:(now rewrite Hk) He) as [Es _].
      rewrite Es. unfold expected_wit_script_sig. now rewrite Hk.
  - destruct Hwf as [Hl Hc]. exact (p2wpkh_agree pz ss wit Hk Hl Hc).
  - destruct Hwf as [Hl Hc]. apply (p2sh_p2wpkh_agree pz ss wit Hk Hl Hc (Hh160 _)).
    intros Hne. exfalso. apply Hne. destruct (eval_true_wit pz ss wit ltac:(now rewrite Hk) He) as [Es _].
    rewrite Es. unfold expected_wit_script_sig. now rewrite Hk.
Qed.

(* both directions on the evaluator's domain *)
Theorem templates_agree pz ss wit : puzzle_wf pz -> fad_inert pz ss -> in_dom pz ss -> no_collision pz ->
  agree pz ss wit.
Proof.
  intros Hwf Hin Hd Hnc. unfold puzzle_wf in Hwf. unfold fad_inert, code_of, sig_items in Hin.
  unfold in_dom, in_domain in Hd. unfold no_collision in Hnc.
  destruct (pz_kind pz) eqn:Hk.
  - destruct (parse_pushes ss) as [[items mn]|] eqn:Hp; [|discriminate].
    exact (p2pk_agree pz ss wit items mn Hk Hwf Hp (Hin items mn eq_refl)).
  - destruct (parse_pushes ss) as [[items mn]|] eqn:Hp; [|discriminate].
    exact (p2pkh_agree pz ss wit items mn Hk Hwf Hp (Hin items mn eq_refl)).
  - destruct (parse_pushes ss) as [[items mn]|] eqn:Hp; [|discriminate]. destruct Hwf as [Hwf Hsz].
    exact (ms_agree pz ss wit items mn Hk Hwf Hsz Hp (Hin items mn eq_refl)).
  - destruct (parse_pushes ss) as [[items mn]|] eqn:Hp.
    + exact (p2sh_ms_agree pz ss wit items mn Hk Hwf (Hh160 _) Hp (Hin items mn eq_refl) (fun redeem _ _ => Hnc redeem)).
    + destruct (verify_p2sh_nonpush o fw ctx fl ss (hash160 (ms_of pz)) wit Hfl (Hh160 _) Hp) as [e He].
      exists e. unfold spend_of, script_pubkey. rewrite Hk. fold (ms_of pz). rewrite He.
      unfold eval_input. rewrite Hp. destruct (10000 <? lenN ss); reflexivity.
  - destruct Hwf as [Hwf Hc]. exact (p2wsh_ms_agree pz ss wit Hk Hwf (Hsha _) Hc (fun ws _ _ => Hnc ws)).
  - destruct Hwf as [Hwf Hc]. destruct Hnc as [Hn1 Hn2].
    exact (p2sh_p2wsh_ms_agree pz ss wit Hk Hwf (Hsha _) Hc (Hh160 _) (fun ws _ _ => Hn1 ws) (fun _ => Hn2)).
  - destruct Hwf as [Hl Hc]. exact (p2wpkh_agree pz ss wit Hk Hl Hc).
  - destruct Hwf as [Hl Hc]. exact (p2sh_p2wpkh_agree pz ss wit Hk Hl Hc (Hh160 _) (fun _ => Hnc)).
Qed.

Theorem templates_complete pz ss wit : puzzle_wf pz -> fad_inert pz ss -> in_dom pz ss -> no_collision pz ->
  VerifyScript o (spend_of pz ss wit) = VOk tt -> EVAL pz ss wit = true.
Proof. intros Hwf Hin Hd Hnc. apply agree_complete. now apply templates_agree. Qed.
End Compose.
