(* Proofs/TxWireP.v — lemmas about Model/TxWire.v (C07): frame-form round trips, model = wire-format spec,
   canonical streams, ids, spendable forms, unspents extension, Litecoin parser, fuel sufficiency. *)
From PV Require Import Base.Bytes Base.Outcome Base.Varint Gen.GenTxConsts Model.TxWire Spec.TxWireSpec.
From Coq Require Import ZifyBool ZifyNat ZifyN.
From Coq Require Import Ascii.
From Coq Require String.
Local Open Scope outcome_scope.

(* ---- tables: what the proofs need from Gen/GenTxConsts.v, stated once ----------------------------- *)
Record tx_table_facts : Prop := {
  tf_hash : codec_of streamer_table "#"%char = Some (KRAW 32);
  tf_L : codec_of streamer_table "L"%char = Some (KLE 4);
  tf_Q : codec_of streamer_table "Q"%char = Some (KLE 8);
  tf_I : codec_of streamer_table "I"%char = Some KVARINT;
  tf_S : codec_of streamer_table "S"%char = Some KVARSTR;
  tf_b : codec_of streamer_table "b"%char = Some KBOOL;
  tf_txin_s : txin_stream_fmt = ["#"; "L"; "S"; "L"]%char;
  tf_txin_p : txin_parse_fmt = ["#"; "L"; "S"; "L"]%char;
  tf_txout_s : txout_stream_fmt = ["Q"; "S"]%char;
  tf_txout_p : txout_parse_fmt = ["Q"; "S"]%char;
  tf_sp_s : spendable_stream_fmt = ["#"; "L"; "I"; "b"; "I"]%char;
  tf_sp_p : spendable_parse_fmt = ["Q"; "S"; "#"; "L"; "I"; "b"; "I"]%char;
  tf_word : tx_word_fmt = ["L"]%char;
  tf_count : tx_count_fmt = ["I"]%char;
  tf_marker : tx_marker_flag = [x00; x01];
}.
Lemma table_facts : tx_table_facts.
Proof. split; vm_compute; reflexivity. Qed.

(* the shared compact-size model reproduces the live encoder on the probe vectors dumped from /repo *)
Lemma varint_probes_ok :
  forallb (fun '(v, e) => match stream_varint v with Ret p => bytes_eqb p e | _ => false end
                          && match parse_varint (e ++ [x5a]) with Ret (v', r) => (v' =? v)%N && bytes_eqb r [x5a] | _ => false end)
          varint_probes = true.
Proof. vm_compute. reflexivity. Qed.

(* ---- spec integers = model integers ----------------------------------------------------------------- *)
Local Open Scope Z_scope.
Lemma le_bytes_from z : 0 <= z -> forall w k,
  map (byte_at z) (seq k w) = le_encode w (Z.to_N (z / 256 ^ Z.of_nat k)).
Proof.
  intros Hz w. induction w as [|w IH]; intros k; cbn [seq map le_encode]; [reflexivity|].
  f_equal.
  - unfold byte_at. assert (0 <= z / 256 ^ Z.of_nat k) by (apply Z.div_pos; lia).
    rewrite Z2N.inj_mod by lia. change (Z.to_N 256) with 256%N. apply n2b_mod.
  - rewrite IH. f_equal. rewrite Nat2Z.inj_succ, Z.pow_succ_r by lia.
    assert (0 < 256 ^ Z.of_nat k) by (apply Z.pow_pos_nonneg; lia).
    rewrite (Z.mul_comm 256), <- Z.div_div by lia.
    assert (0 <= z / 256 ^ Z.of_nat k) by (apply Z.div_pos; lia).
    rewrite Z2N.inj_div by lia. reflexivity.
Qed.
Lemma le_bytes_encode w z : 0 <= z -> le_bytes w z = le_encode w (Z.to_N z).
Proof. intros H. unfold le_bytes. rewrite le_bytes_from by exact H. cbn. now rewrite Z.div_1_r. Qed.
Lemma le_bytes_length w z : length (le_bytes w z) = w.
Proof. unfold le_bytes. now rewrite map_length, seq_length. Qed.

Lemma pow256 w : (256 ^ N.of_nat w)%N = Z.to_N (256 ^ Z.of_nat w).
Proof. rewrite <- nat_N_Z, Z2N.inj_pow by lia. now rewrite N2Z.id. Qed.

Lemma put_le_ok w z : 0 <= z < 256 ^ Z.of_nat w -> put_le w z = Ret (le_bytes w z).
Proof.
  intros H. unfold put_le, write_le. replace (z <? 0) with false by lia.
  rewrite pow256. replace (Z.to_N z <? Z.to_N (256 ^ Z.of_nat w))%N with true by lia.
  now rewrite le_bytes_encode by lia.
Qed.
Lemma put_le_inv w z b : put_le w z = Ret b -> 0 <= z < 256 ^ Z.of_nat w.
Proof.
  unfold put_le, write_le. destruct (z <? 0) eqn:E; [discriminate|]. rewrite pow256.
  destruct (Z.to_N z <? _)%N eqn:E2; [|discriminate]. intros _.
  assert (0 < 256 ^ Z.of_nat w) by (apply Z.pow_pos_nonneg; lia). lia.
Qed.

Lemma compact_size_ok n : 0 <= n < 2 ^ 64 -> put_varint n = Ret (compact_size n).
Proof.
  intros H. unfold put_varint, stream_varint, compact_size. replace (n <? 0) with false by lia.
  change (2 ^ 64)%N with 18446744073709551616%N. change (2 ^ 64) with 18446744073709551616 in H.
  destruct (n <? 253) eqn:E1.
  - replace (Z.to_N n <? 253)%N with true by lia. unfold byte_at. cbn [Z.of_nat Z.pow]. 
    rewrite Z.div_1_r, Z.mod_small by lia. reflexivity.
  - replace (Z.to_N n <? 253)%N with false by lia. destruct (n <=? 65535) eqn:E2.
    + replace (Z.to_N n <=? 65535)%N with true by lia. now rewrite le_bytes_encode by lia.
    + replace (Z.to_N n <=? 65535)%N with false by lia. destruct (n <=? 4294967295) eqn:E3.
      * replace (Z.to_N n <=? 4294967295)%N with true by lia. now rewrite le_bytes_encode by lia.
      * replace (Z.to_N n <=? 4294967295)%N with false by lia.
        replace (Z.to_N n <? 18446744073709551616)%N with true by lia. now rewrite le_bytes_encode by lia.
Qed.
(* ---- the format interpreter on the generated formats = the direct codecs ---------------------------- *)
Lemma bind_ret_r {A} (m : outcome (list A)) : (do a <- m; Ret (a ++ [])) = m.
Proof. destruct m; cbn [bind]; try reflexivity. now rewrite app_nil_r. Qed.

Lemma stream_word_eq z : stream_word z = put_le 4 z.
Proof.
  unfold stream_word. rewrite (tf_word table_facts). cbn [stream_struct]. rewrite (tf_L table_facts).
  cbn [stream_field int_of_sval bind]. apply bind_ret_r.
Qed.
Lemma stream_count_eq n : stream_count n = put_varint (Z.of_nat n).
Proof.
  unfold stream_count. rewrite (tf_count table_facts). cbn [stream_struct]. rewrite (tf_I table_facts).
  cbn [stream_field int_of_sval bind]. apply bind_ret_r.
Qed.
Lemma parse_word_eq s : parse_word s = do '(v, r) <- read_le 4 s; Ret (Z.of_N v, r).
Proof.
  unfold parse_word. rewrite (tf_word table_facts). cbn [parse_struct]. rewrite (tf_L table_facts).
  cbn [parse_field]. destruct (read_le 4 s) as [[v r]| |]; reflexivity.
Qed.

Lemma stream_txin_eq blank i : stream_txin blank i =
  do a <- put_le 4 (ti_index i);
  do b <- stream_varstr (if blank then [] else ti_script i);
  do c <- put_le 4 (ti_sequence i);
  Ret (firstn 32 (ti_hash i) ++ a ++ b ++ c).
Proof.
  unfold stream_txin. rewrite (tf_txin_s table_facts). cbn [stream_struct].
  rewrite (tf_hash table_facts), (tf_L table_facts), (tf_S table_facts).
  cbn [stream_field int_of_sval bind].
  destruct (put_le 4 (ti_index i)); cbn [bind]; try reflexivity.
  destruct (stream_varstr _); cbn [bind]; try reflexivity.
  destruct (put_le 4 (ti_sequence i)); cbn [bind]; try reflexivity.
  now rewrite app_nil_r.
Qed.
Lemma parse_txin_eq s : parse_txin s =
  let '(h, s1) := read 32 s in
  do '(i, s2) <- read_le 4 s1;
  do '(sc, s3) <- parse_varstr s2;
  do '(q, s4) <- read_le 4 s3;
  Ret (mk_txin h (Z.of_N i) sc (Z.of_N q) [], s4).
Proof.
  unfold parse_txin. rewrite (tf_txin_p table_facts). cbn [parse_struct].
  rewrite (tf_hash table_facts), (tf_L table_facts), (tf_S table_facts).
  cbn [parse_field]. destruct (read 32 s) as [h s1]. cbn [bind].
  destruct (read_le 4 s1) as [[i s2]| |]; cbn [bind]; try reflexivity.
  destruct (parse_varstr s2) as [[sc s3]| |]; cbn [bind]; try reflexivity.
  destruct (read_le 4 s3) as [[q s4]| |]; cbn [bind]; reflexivity.
Qed.
Lemma stream_txout_eq o : stream_txout o =
  do a <- put_le 8 (to_value o); do b <- stream_varstr (to_script o); Ret (a ++ b).
Proof.
  unfold stream_txout. rewrite (tf_txout_s table_facts). cbn [stream_struct].
  rewrite (tf_Q table_facts), (tf_S table_facts). cbn [stream_field int_of_sval bind].
  destruct (put_le 8 _); cbn [bind]; try reflexivity.
  destruct (stream_varstr _); cbn [bind]; try reflexivity. now rewrite app_nil_r.
Qed.
Lemma parse_txout_eq s : parse_txout s =
  do '(v, s1) <- read_le 8 s; do '(sc, s2) <- parse_varstr s1; Ret (mk_txout (Z.of_N v) sc, s2).
Proof.
  unfold parse_txout. rewrite (tf_txout_p table_facts). cbn [parse_struct].
  rewrite (tf_Q table_facts), (tf_S table_facts). cbn [parse_field].
  destruct (read_le 8 s) as [[v s1]| |]; cbn [bind]; try reflexivity.
  destruct (parse_varstr s1) as [[sc s2]| |]; cbn [bind]; reflexivity.
Qed.

(* ---- frame lemmas of the scalar codecs --------------------------------------------------------------- *)
Lemma u32_pow z : u32 z <-> 0 <= z < 256 ^ Z.of_nat 4.
Proof. unfold u32. change (256 ^ Z.of_nat 4) with (2 ^ 32). tauto. Qed.
Lemma u64_pow z : u64 z <-> 0 <= z < 256 ^ Z.of_nat 8.
Proof. unfold u64. change (256 ^ Z.of_nat 8) with (2 ^ 64). tauto. Qed.

Lemma read_le_frame_z w z r : 0 <= z < 256 ^ Z.of_nat w ->
  read_le w (le_bytes w z ++ r) = Ret (Z.to_N z, r).
Proof.
  intros H. rewrite le_bytes_encode by lia. apply read_le_frame. rewrite pow256.
  apply Z2N.inj_lt; lia.
Qed.

Lemma word_frame z r : u32 z ->
  stream_word z = Ret (le_bytes 4 z) /\ parse_word (le_bytes 4 z ++ r) = Ret (z, r).
Proof.
  intros H. apply u32_pow in H. split.
  - rewrite stream_word_eq. now apply put_le_ok.
  - rewrite parse_word_eq, read_le_frame_z by exact H. cbn [bind]. f_equal. f_equal. unfold u32 in H. lia.
Qed.

Lemma stream_varint_spec n : 0 <= n < 2 ^ 64 -> stream_varint (Z.to_N n) = Ret (compact_size n).
Proof. intros H. pose proof (compact_size_ok n H) as E. unfold put_varint in E. now replace (n <? 0) with false in E by lia. Qed.

Lemma varint_frame_spec n r : 0 <= n < 2 ^ 64 ->
  parse_varint (compact_size n ++ r) = Ret (Z.to_N n, r) /\ (1 <= length (compact_size n) <= 9)%nat
  /\ varint_canonical (compact_size n ++ r) = true.
Proof.
  intros H. destruct (varint_frame (Z.to_N n) r) as [p [Hs [Hp [Hc Hl]]]].
  { change (2 ^ 64)%N with (Z.to_N (2 ^ 64)). lia. }
  rewrite stream_varint_spec in Hs by exact H. injection Hs as <-. auto.
Qed.

Lemma zlen_N {A} (l : list A) : Z.to_N (zlen l) = N.of_nat (length l).
Proof. unfold zlen. lia. Qed.

Lemma varstr_frame_spec v r : len63 v ->
  stream_varstr v = Ret (ser_bytes v) /\ parse_varstr (ser_bytes v ++ r) = Ret (v, r).
Proof.
  intros H. unfold len63 in H. assert (Hn : 0 <= zlen v < 2 ^ 64) by (unfold zlen in *; lia).
  unfold stream_varstr, parse_varstr, ser_bytes. rewrite <- zlen_N, stream_varint_spec by exact Hn.
  split; [reflexivity|]. rewrite <- app_assoc.
  destruct (varint_frame_spec (zlen v) (v ++ r) Hn) as [-> _].
  change (2 ^ 63) with 9223372036854775808 in H.
  replace (9223372036854775808 <=? Z.to_N (zlen v))%N with false by lia.
  rewrite zlen_N, readN_app. reflexivity.
Qed.

Lemma ser_bytes_length v : (1 <= length (ser_bytes v))%nat.
Proof.
  unfold ser_bytes, compact_size. rewrite app_length.
  repeat match goal with |- context [if ?c then _ else _] => destruct c end; cbn [length]; lia.
Qed.

Lemma txin_frame i r : txin_wf i ->
  stream_txin false i = Ret (ser_txin i) /\ parse_txin (ser_txin i ++ r) = Ret (clear_witness i, r).
Proof.
  intros (Hh & Hi & Hq & Hs & _). apply u32_pow in Hi, Hq. split.
  - rewrite stream_txin_eq, !put_le_ok by assumption. cbn [bind].
    destruct (varstr_frame_spec (ti_script i) [] Hs) as [-> _]. cbn [bind].
    unfold ser_txin. rewrite <- Hh, firstn_all. reflexivity.
  - rewrite parse_txin_eq. unfold ser_txin. rewrite <- !app_assoc.
    pose proof (read_app (ti_hash i)) as E. rewrite Hh in E. rewrite E.
    rewrite read_le_frame_z by assumption. cbn [bind].
    destruct (varstr_frame_spec (ti_script i) (le_bytes 4 (ti_sequence i) ++ r) Hs) as [_ ->]. cbn [bind].
    rewrite read_le_frame_z by assumption. cbn [bind]. unfold clear_witness, u32 in *. repeat f_equal; lia.
Qed.

Lemma txout_frame o r : txout_wf o ->
  stream_txout o = Ret (ser_txout o) /\ parse_txout (ser_txout o ++ r) = Ret (o, r).
Proof.
  intros (Hv & Hs). apply u64_pow in Hv. split.
  - rewrite stream_txout_eq, put_le_ok by assumption. cbn [bind].
    destruct (varstr_frame_spec (to_script o) [] Hs) as [-> _]. reflexivity.
  - rewrite parse_txout_eq. unfold ser_txout. rewrite <- !app_assoc.
    rewrite read_le_frame_z by assumption. cbn [bind].
    destruct (varstr_frame_spec (to_script o) r Hs) as [_ ->]. cbn [bind].
    unfold u64 in *. destruct o; cbn in *. repeat f_equal; lia.
Qed.
(* ---- count-prefixed lists ---------------------------------------------------------------------------- *)
Lemma parse_count_list_zero {A} (p : parser A) fuel s : parse_count_list p fuel 0 s = Ret ([], s).
Proof. destruct fuel; reflexivity. Qed.
Lemma parse_count_list_succ {A} (p : parser A) fuel n s :
  parse_count_list p (S fuel) (N.of_nat (S n)) s =
  do '(x, s1) <- p s; do '(xs, s2) <- parse_count_list p fuel (N.of_nat n) s1; Ret (x :: xs, s2).
Proof.
  cbn [parse_count_list]. replace (N.of_nat (S n) =? 0)%N with false by lia.
  replace (N.of_nat (S n) - 1)%N with (N.of_nat n) by lia. reflexivity.
Qed.

Lemma count_list_frame {A B} (f : A -> outcome bytes) (ser : A -> bytes) (p : parser B) (g : A -> B) (l : list A) :
  (forall x, In x l -> f x = Ret (ser x) /\ (1 <= length (ser x))%nat /\ forall r, p (ser x ++ r) = Ret (g x, r)) ->
  stream_all f l = Ret (concat (map ser l)) /\
  (length l <= length (concat (map ser l)))%nat /\
  forall fuel r, (length l <= fuel)%nat ->
    parse_count_list p fuel (N.of_nat (length l)) (concat (map ser l) ++ r) = Ret (map g l, r).
Proof.
  induction l as [|x l IH]; intros Hx.
  - cbn. repeat split; [lia|]. intros. apply parse_count_list_zero.
  - destruct (Hx x (or_introl eq_refl)) as (Hf & Hl & Hp).
    destruct IH as (IH1 & IH2 & IH3). { intros y Hy. apply Hx. now right. }
    cbn [stream_all map concat length]. rewrite Hf, IH1. cbn [bind]. repeat split.
    + rewrite app_length. lia.
    + intros fuel r Hfuel. destruct fuel as [|fuel]; [lia|].
      rewrite parse_count_list_succ, <- app_assoc, Hp. cbn [bind].
      rewrite IH3 by lia. reflexivity.
Qed.

Lemma stream_count_spec {A} (l : list A) : len64 l -> stream_count (length l) = Ret (compact_size (zlen l)).
Proof. intros H. rewrite stream_count_eq. apply compact_size_ok. unfold len64, zlen in *. lia. Qed.

Lemma map_id_ext {A} (f : A -> A) l : (forall x, In x l -> f x = x) -> map f l = l.
Proof. induction l; cbn; intros H; [reflexivity|]. rewrite H, IHl; auto. Qed.

(* witness stacks *)
Lemma witness_frame i : txin_wf i ->
  stream_witness i = Ret (ser_witness i) /\ (length (ti_witness i) <= length (ser_witness i))%nat /\
  (1 <= length (ser_witness i))%nat /\
  forall fuel r, (length (ti_witness i) <= fuel)%nat ->
    (do '(count, s1) <- parse_varint (ser_witness i ++ r);
     parse_count_list parse_varstr fuel count s1) = Ret (ti_witness i, r).
Proof.
  intros (_ & _ & _ & _ & Hw & Hws).
  destruct (count_list_frame stream_varstr ser_bytes parse_varstr (fun x => x) (ti_witness i)) as (H1 & H2 & H3).
  { intros x Hx. rewrite Forall_forall in Hws. specialize (Hws x Hx).
    destruct (varstr_frame_spec x [] Hws) as [E _]. split; [exact E|]. split; [apply ser_bytes_length|].
    intros r. now destruct (varstr_frame_spec x r Hws). }
  assert (Hn : 0 <= zlen (ti_witness i) < 2 ^ 64) by (unfold len64, zlen in *; lia).
  unfold stream_witness, ser_witness, ser_vec. rewrite stream_count_spec, H1 by exact Hw. cbn [bind].
  destruct (varint_frame_spec (zlen (ti_witness i)) [] Hn) as (_ & Hl & _).
  repeat split; try (rewrite app_length; lia).
  intros fuel r Hfuel. rewrite <- app_assoc.
  destruct (varint_frame_spec (zlen (ti_witness i)) (concat (map ser_bytes (ti_witness i)) ++ r) Hn) as (-> & _).
  cbn [bind]. rewrite zlen_N, H3 by exact Hfuel. now rewrite map_id.
Qed.

Lemma witnesses_frame ins : Forall txin_wf ins ->
  stream_all stream_witness ins = Ret (concat (map ser_witness ins)) /\
  forall fuel r, (length (concat (map ser_witness ins)) <= fuel)%nat ->
    parse_witnesses fuel (map clear_witness ins) (concat (map ser_witness ins) ++ r) = Ret (ins, r).
Proof.
  induction ins as [|i ins IH]; intros Hwf.
  - split; [reflexivity|]. reflexivity.
  - inversion Hwf as [|? ? Hi Hins]; subst. destruct (IH Hins) as (IH1 & IH2).
    destruct (witness_frame i Hi) as (W1 & W2 & _ & W4).
    cbn [stream_all map concat]. rewrite W1, IH1. cbn [bind]. split; [reflexivity|].
    intros fuel r Hfuel. rewrite app_length in Hfuel. cbn [parse_witnesses]. rewrite <- app_assoc.
    specialize (W4 fuel (concat (map ser_witness ins) ++ r) ltac:(lia)).
    destruct (parse_varint _) as [[count s1]| |]; cbn [bind] in *; try discriminate.
    rewrite W4. cbn [bind]. rewrite IH2 by lia. cbn [bind]. destruct i; reflexivity.
Qed.

(* ---- Tx.stream = the wire format ----------------------------------------------------------------------- *)
Lemma has_witness_data_iff t : has_witness_data t = true <-> has_witness t.
Proof.
  unfold has_witness_data, has_witness. rewrite existsb_exists. split; intros (i & Hi & Hw); exists i; split; auto.
  - destruct (ti_witness i); [discriminate|congruence].
  - destruct (ti_witness i); [congruence|reflexivity].
Qed.

Definition wire_bytes (include_witness_data : bool) (t : tx) : bytes :=
  if include_witness_data && has_witness_data t then ser_extended t else ser_legacy t.

Lemma ins_frame ins : Forall txin_wf ins ->
  stream_all (stream_txin false) ins = Ret (concat (map ser_txin ins)) /\
  (length ins <= length (concat (map ser_txin ins)))%nat /\
  forall fuel r, (length ins <= fuel)%nat ->
    parse_count_list parse_txin fuel (N.of_nat (length ins)) (concat (map ser_txin ins) ++ r) = Ret (map clear_witness ins, r).
Proof.
  intros H. apply count_list_frame. intros x Hx. rewrite Forall_forall in H. specialize (H x Hx).
  destruct (txin_frame x [] H) as [E _]. split; [exact E|]. split.
  - unfold ser_txin. destruct H as (Hh & _). rewrite app_length. lia.
  - intros r. now destruct (txin_frame x r H).
Qed.
Lemma outs_frame outs : Forall txout_wf outs ->
  stream_all stream_txout outs = Ret (concat (map ser_txout outs)) /\
  (length outs <= length (concat (map ser_txout outs)))%nat /\
  forall fuel r, (length outs <= fuel)%nat ->
    parse_count_list parse_txout fuel (N.of_nat (length outs)) (concat (map ser_txout outs) ++ r) = Ret (outs, r).
Proof.
  intros H. destruct (count_list_frame stream_txout ser_txout parse_txout (fun o => o) outs) as (A1 & A2 & A3).
  { intros x Hx. rewrite Forall_forall in H. specialize (H x Hx).
    destruct (txout_frame x [] H) as [E _]. split; [exact E|]. split.
    - unfold ser_txout. rewrite app_length, le_bytes_length. lia.
    - intros r. now destruct (txout_frame x r H). }
  repeat split; auto. intros. rewrite A3 by assumption. now rewrite map_id.
Qed.

Lemma stream_tx_spec incw t : tx_wf t -> stream_tx false incw t = Ret (wire_bytes incw t).
Proof.
  intros (Hv & Hl & Hi & Ho & Hni & Hno). unfold stream_tx, wire_bytes.
  destruct (word_frame (tx_version t) [] Hv) as [-> _]. destruct (word_frame (tx_lock_time t) [] Hl) as [-> _].
  rewrite !stream_count_spec by assumption.
  destruct (ins_frame _ Hi) as (-> & _). destruct (outs_frame _ Ho) as (-> & _).
  rewrite (tf_marker table_facts). cbn [bind].
  destruct (incw && has_witness_data t).
  - destruct (witnesses_frame _ Hi) as (-> & _). cbn [bind]. unfold ser_extended, ser_vec.
    now rewrite <- !app_assoc.
  - cbn [bind app]. unfold ser_legacy, ser_vec. now rewrite <- !app_assoc.
Qed.
(* ---- Tx.parse on wire-format bytes ------------------------------------------------------------------------ *)
Lemma body_first_byte fuel ver seg v2 b s :
  parse_tx_body fuel ver seg (Some (b2n b)) v2 s = parse_tx_body fuel ver seg None v2 (b :: s).
Proof. reflexivity. Qed.

Lemma vec_parse_count {A} (ser : A -> bytes) (l : list A) r : len64 l ->
  parse_varint (ser_vec ser l ++ r) = Ret (N.of_nat (length l), concat (map ser l) ++ r).
Proof.
  intros H. unfold ser_vec. rewrite <- app_assoc.
  assert (Hn : 0 <= zlen l < 2 ^ 64) by (unfold len64, zlen in *; lia).
  destruct (varint_frame_spec (zlen l) (concat (map ser l) ++ r) Hn) as (-> & _). now rewrite zlen_N.
Qed.

Lemma body_frame_segwit fuel ver t r : tx_wf t ->
  (length (tx_ins t) <= fuel)%nat -> (length (tx_outs t) <= fuel)%nat ->
  (length (concat (map ser_witness (tx_ins t))) <= fuel)%nat ->
  parse_tx_body fuel ver true None None
    (ser_vec ser_txin (tx_ins t) ++ ser_vec ser_txout (tx_outs t) ++ concat (map ser_witness (tx_ins t))
     ++ le_bytes 4 (tx_lock_time t) ++ r)
  = Ret (mk_tx ver (tx_ins t) (tx_outs t) (tx_lock_time t), r).
Proof.
  intros (Hv & Hl & Hi & Ho & Hni & Hno) F1 F2 F3. unfold parse_tx_body. cbn [parse_satoshi_int].
  rewrite vec_parse_count by assumption. cbn [bind].
  destruct (ins_frame _ Hi) as (_ & _ & ->); [|exact F1]. cbn [bind].
  rewrite vec_parse_count by assumption. cbn [bind].
  destruct (outs_frame _ Ho) as (_ & _ & ->); [|exact F2]. cbn [bind].
  destruct (witnesses_frame _ Hi) as (_ & ->); [|exact F3]. cbn [bind].
  destruct (word_frame (tx_lock_time t) r Hl) as [_ ->]. reflexivity.
Qed.

Lemma body_frame_legacy fuel ver t r : tx_wf t ->
  (length (tx_ins t) <= fuel)%nat -> (length (tx_outs t) <= fuel)%nat ->
  parse_tx_body fuel ver false None None
    (ser_vec ser_txin (tx_ins t) ++ ser_vec ser_txout (tx_outs t) ++ le_bytes 4 (tx_lock_time t) ++ r)
  = Ret (mk_tx ver (map clear_witness (tx_ins t)) (tx_outs t) (tx_lock_time t), r).
Proof.
  intros (Hv & Hl & Hi & Ho & Hni & Hno) F1 F2. unfold parse_tx_body. cbn [parse_satoshi_int].
  rewrite vec_parse_count by assumption. cbn [bind].
  destruct (ins_frame _ Hi) as (_ & _ & ->); [|exact F1]. cbn [bind].
  rewrite vec_parse_count by assumption. cbn [bind].
  destruct (outs_frame _ Ho) as (_ & _ & ->); [|exact F2]. cbn [bind].
  destruct (word_frame (tx_lock_time t) r Hl) as [_ ->]. reflexivity.
Qed.

Lemma parse_tx_extended t r : tx_wf t -> parse_tx true (ser_extended t ++ r) = Ret (t, r).
Proof.
  intros Hwf. pose proof Hwf as (Hv & Hl & Hi & Ho & Hni & Hno). unfold parse_tx.
  set (fuel := S (length (ser_extended t ++ r))).
  assert (F : (length (tx_ins t) <= fuel /\ length (tx_outs t) <= fuel
               /\ length (concat (map ser_witness (tx_ins t))) <= fuel)%nat).
  { subst fuel. unfold ser_extended, ser_vec. rewrite !app_length.
    destruct (ins_frame _ Hi) as (_ & L1 & _). destruct (outs_frame _ Ho) as (_ & L2 & _). lia. }
  clearbody fuel. unfold ser_extended. rewrite <- !app_assoc.
  destruct (word_frame (tx_version t) ([x00; x01] ++ ser_vec ser_txin (tx_ins t) ++ ser_vec ser_txout (tx_outs t)
     ++ concat (map ser_witness (tx_ins t)) ++ le_bytes 4 (tx_lock_time t) ++ r) Hv) as [_ ->].
  cbn [bind app]. change (b2n x00 =? 0)%N with true. change (b2n x01 =? 0)%N with false.
  change (N.odd (b2n x01)) with true. cbn [andb].
  rewrite body_frame_segwit by tauto. destruct t; reflexivity.
Qed.

Lemma compact_size_head n : 0 <= n < 2 ^ 64 ->
  exists b tl, compact_size n = b :: tl /\ (b2n b = 0%N <-> n = 0).
Proof.
  intros H. unfold compact_size. destruct (n <? 253) eqn:E.
  - eexists _, _. split; [reflexivity|]. unfold byte_at. cbn [Z.of_nat Z.pow].
    rewrite Z.div_1_r, Z.mod_small by lia. rewrite b2n_n2b by lia. lia.
  - destruct (n <=? 65535); [|destruct (n <=? 4294967295)]; eexists _, _; (split; [reflexivity|]);
      vm_compute (b2n _); lia.
Qed.

(* the legacy form: with allow_segwit the first byte of the input count must not be the marker 00,
   which is where `inputs <> []` enters *)
Lemma parse_tx_legacy a t r : tx_wf t -> a = false \/ tx_ins t <> [] ->
  parse_tx a (ser_legacy t ++ r) = Ret (strip_witnesses t, r).
Proof.
  intros Hwf Ha. pose proof Hwf as (Hv & Hl & Hi & Ho & Hni & Hno). unfold parse_tx.
  set (fuel := S (length (ser_legacy t ++ r))).
  assert (F : (length (tx_ins t) <= fuel /\ length (tx_outs t) <= fuel)%nat).
  { subst fuel. unfold ser_legacy, ser_vec. rewrite !app_length.
    destruct (ins_frame _ Hi) as (_ & L1 & _). destruct (outs_frame _ Ho) as (_ & L2 & _). lia. }
  clearbody fuel. unfold ser_legacy. rewrite <- !app_assoc.
  destruct (word_frame (tx_version t) (ser_vec ser_txin (tx_ins t) ++ ser_vec ser_txout (tx_outs t)
     ++ le_bytes 4 (tx_lock_time t) ++ r) Hv) as [_ ->].
  cbn [bind].
  assert (Hn : 0 <= zlen (tx_ins t) < 2 ^ 64) by (unfold len64, zlen in *; lia).
  destruct (compact_size_head _ Hn) as (b & tl & Hc & Hz).
  pose proof (body_frame_legacy fuel (tx_version t) t r Hwf (proj1 F) (proj2 F)) as B.
  unfold ser_vec at 1 in B. unfold ser_vec at 1. rewrite Hc in *. cbn [app] in *.
  assert (Hb : a && (b2n b =? 0)%N = false).
  { destruct Ha as [-> | Hne]; [reflexivity|]. apply andb_false_iff. right.
    destruct (tx_ins t); [congruence|]. unfold zlen in Hz. cbn [length] in Hz. lia. }
  rewrite Hb, body_first_byte, B. reflexivity.
Qed.

Lemma has_witness_false_strip t : has_witness_data t = false -> strip_witnesses t = t.
Proof.
  unfold has_witness_data, strip_witnesses. intros H. destruct t as [v ins outs l]. cbn in *. f_equal.
  apply map_id_ext. intros i Hi. destruct i as [h x s q w]. unfold clear_witness. cbn. f_equal.
  destruct w; [reflexivity|]. exfalso. rewrite <- Bool.not_true_iff_false in H. apply H.
  apply existsb_exists. eexists. split; [exact Hi|]. reflexivity.
Qed.

(* C07 parse-after-stream, frame form, for both settings of include_witness_data *)
Lemma parse_stream_frame t r : tx_wf t -> tx_ins t <> [] ->
  exists b, stream_tx false true t = Ret b /\ parse_tx true (b ++ r) = Ret (t, r).
Proof.
  intros Hwf Hne. exists (wire_bytes true t). split; [now apply stream_tx_spec|].
  unfold wire_bytes. cbn [andb]. destruct (has_witness_data t) eqn:E.
  - now apply parse_tx_extended.
  - rewrite parse_tx_legacy by auto. now rewrite has_witness_false_strip.
Qed.
Lemma parse_stream_stripped_frame a t r : tx_wf t -> a = false \/ tx_ins t <> [] ->
  exists b, stream_tx false false t = Ret b /\ parse_tx a (b ++ r) = Ret (strip_witnesses t, r).
Proof.
  intros Hwf Hne. exists (wire_bytes false t). split; [now apply stream_tx_spec|].
  unfold wire_bytes. cbn [andb]. now apply parse_tx_legacy.
Qed.

Lemma stream_is_wire_format t : tx_wf t -> exists b, stream_tx false true t = Ret b /\ wire_format t b.
Proof.
  intros Hwf. exists (wire_bytes true t). split; [now apply stream_tx_spec|].
  unfold wire_bytes, wire_format. cbn [andb]. destruct (has_witness_data t) eqn:E.
  - left. split; [now apply has_witness_data_iff|reflexivity].
  - right. split; [|reflexivity]. rewrite <- has_witness_data_iff. congruence.
Qed.
(* parsing wire-format bytes and re-serialising returns them unchanged *)
Lemma stream_parse_wire t b r : tx_wf t -> tx_ins t <> [] -> wire_format t b ->
  parse_tx true (b ++ r) = Ret (t, r) /\ stream_tx false true t = Ret b.
Proof.
  intros Hwf Hne Hb. destruct (stream_is_wire_format t Hwf) as (b' & Hs & Hb').
  assert (b' = b).
  { destruct Hb as [[H1 ->]|[H1 ->]], Hb' as [[H2 ->]|[H2 ->]]; try reflexivity; contradiction. }
  subst b'. split; [|exact Hs]. destruct (parse_stream_frame t r Hwf Hne) as (b2 & Hs2 & Hp).
  rewrite Hs in Hs2. injection Hs2 as <-. exact Hp.
Qed.

(* serialisation is injective on well-formed transactions with inputs: the witness id covers every field *)
Lemma stream_injective t t' : tx_wf t -> tx_wf t' -> tx_ins t <> [] -> tx_ins t' <> [] ->
  stream_tx false true t = stream_tx false true t' -> t = t'.
Proof.
  intros W W' N N' E. destruct (parse_stream_frame t [] W N) as (b & Hs & Hp).
  destruct (parse_stream_frame t' [] W' N') as (b' & Hs' & Hp').
  rewrite Hs, Hs' in E. injection E as <-. rewrite Hp in Hp'. now injection Hp'.
Qed.

(* ---- ids --------------------------------------------------------------------------------------------------- *)
Lemma stream_all_ext {A} (f g : A -> outcome bytes) l : (forall x, In x l -> f x = g x) -> stream_all f l = stream_all g l.
Proof. induction l; cbn [stream_all]; intros H; [reflexivity|]. rewrite H, IHl; auto; now left + (intros; apply H; now right). Qed.
Lemma stream_all_map {A B} (f : B -> outcome bytes) (g : A -> B) l : stream_all f (map g l) = stream_all (fun x => f (g x)) l.
Proof. induction l; cbn [stream_all map]; [reflexivity|]. now rewrite IHl. Qed.

Lemma stream_stripped_ignores_witness blank t : stream_tx blank false t = stream_tx blank false (strip_witnesses t).
Proof.
  unfold stream_tx, strip_witnesses. cbn [andb tx_version tx_ins tx_outs tx_lock_time].
  rewrite map_length, stream_all_map. reflexivity.
Qed.

Section Ids.
Variable H : bytes -> bytes.
Lemma hash_ignores_witness t t' ht : strip_witnesses t = strip_witnesses t' -> tx_hash H t ht = tx_hash H t' ht.
Proof.
  intros E. unfold tx_hash, tx_hash_preimage.
  now rewrite (stream_stripped_ignores_witness false t), (stream_stripped_ignores_witness false t'), E.
Qed.
Lemma hash_is_legacy t : tx_wf t -> tx_hash H t None = Ret (H (ser_legacy t)).
Proof. intros W. unfold tx_hash, tx_hash_preimage. now rewrite (stream_tx_spec false t W). Qed.
Lemma w_hash_is_wire t : tx_wf t -> exists b, wire_format t b /\ tx_w_hash H t = Ret (H b).
Proof.
  intros W. destruct (stream_is_wire_format t W) as (b & Hs & Hb). exists b. split; [exact Hb|].
  unfold tx_w_hash. now rewrite Hs.
Qed.
End Ids.

(* ---- fuel: Tx.parse never runs out of fuel -------------------------------------------------------------------- *)
Definition shrinks {A} (p : parser A) := forall s v r, p s = Ret (v, r) -> (length r <= length s)%nat.
Definition consumes {A} (p : parser A) := forall s v r, p s = Ret (v, r) -> (length r < length s)%nat.
Definition no_oof {A} (p : parser A) := forall s, p s <> OutOfFuel.

Lemma read_le_shrinks w : shrinks (read_le w).
Proof.
  intros s v r. unfold read_le, read. destruct (_ <? _)%nat; [discriminate|]. intros E. injection E as _ <-.
  rewrite skipn_length. lia.
Qed.
Lemma read_le_consumes w : (0 < w)%nat -> consumes (read_le w).
Proof.
  intros Hw s v r. unfold read_le, read. destruct (_ <? _)%nat eqn:E; [discriminate|]. intros E2. injection E2 as _ <-.
  rewrite firstn_length in E. rewrite skipn_length. lia.
Qed.
Lemma read_le_no_oof w : no_oof (read_le w).
Proof. intros s. unfold read_le, read. destruct (_ <? _)%nat; discriminate. Qed.
Lemma parse_varint_no_oof : no_oof parse_varint.
Proof.
  intros s. unfold parse_varint. destruct s; [discriminate|].
  repeat match goal with |- context [if ?c then _ else _] => destruct c end; try apply read_le_no_oof; discriminate.
Qed.
Lemma readN_shrinks n s : (length (snd (readN n s)) <= length s)%nat.
Proof. unfold readN, read. destruct (_ <=? _)%N; cbn [snd length]; [lia|]. rewrite skipn_length. lia. Qed.
Lemma parse_varstr_consumes : consumes parse_varstr.
Proof.
  intros s v r. unfold parse_varstr. destruct (parse_varint s) as [[n s1]| |] eqn:E; try discriminate.
  apply parse_varint_consumes in E. destruct (_ <=? n)%N; [discriminate|].
  intros E2. injection E2 as E2. pose proof (readN_shrinks n s1).
  rewrite E2 in H. cbn [snd] in H. lia.
Qed.
Lemma parse_varstr_no_oof : no_oof parse_varstr.
Proof.
  intros s. unfold parse_varstr. pose proof (parse_varint_no_oof s).
  destruct (parse_varint s) as [[n ?]| |]; try congruence. destruct (_ <=? n)%N; discriminate.
Qed.

Lemma parse_txin_consumes : consumes parse_txin.
Proof.
  intros s v r. rewrite parse_txin_eq. unfold read at 1.
  destruct (read_le 4 _) as [[i s2]| |] eqn:E1; cbn [bind]; try discriminate.
  destruct (parse_varstr s2) as [[sc s3]| |] eqn:E2; cbn [bind]; try discriminate.
  destruct (read_le 4 s3) as [[q s4]| |] eqn:E3; cbn [bind]; try discriminate.
  intros E. injection E as _ <-. apply read_le_shrinks in E1. apply parse_varstr_consumes in E2.
  apply read_le_shrinks in E3. rewrite skipn_length in E1. lia.
Qed.
Lemma parse_txin_no_oof : no_oof parse_txin.
Proof.
  intros s. rewrite parse_txin_eq. unfold read at 1.
  pose proof (read_le_no_oof 4 (skipn 32 s)). destruct (read_le 4 _) as [[i s2]| |]; cbn [bind]; try congruence.
  pose proof (parse_varstr_no_oof s2). destruct (parse_varstr s2) as [[sc s3]| |]; cbn [bind]; try congruence.
  pose proof (read_le_no_oof 4 s3). destruct (read_le 4 s3) as [[q s4]| |]; cbn [bind]; congruence.
Qed.
Lemma parse_txout_consumes : consumes parse_txout.
Proof.
  intros s v r. rewrite parse_txout_eq.
  destruct (read_le 8 s) as [[i s2]| |] eqn:E1; cbn [bind]; try discriminate.
  destruct (parse_varstr s2) as [[sc s3]| |] eqn:E2; cbn [bind]; try discriminate.
  intros E. injection E as _ <-. apply read_le_shrinks in E1. apply parse_varstr_consumes in E2. lia.
Qed.
Lemma parse_txout_no_oof : no_oof parse_txout.
Proof.
  intros s. rewrite parse_txout_eq.
  pose proof (read_le_no_oof 8 s). destruct (read_le 8 s) as [[i s2]| |]; cbn [bind]; try congruence.
  pose proof (parse_varstr_no_oof s2). destruct (parse_varstr s2) as [[sc s3]| |]; cbn [bind]; congruence.
Qed.

Lemma parse_count_list_fuel {A} (p : parser A) : consumes p -> no_oof p ->
  forall fuel count s, (length s < fuel)%nat ->
    parse_count_list p fuel count s <> OutOfFuel /\
    forall l r, parse_count_list p fuel count s = Ret (l, r) -> (length r <= length s)%nat.
Proof.
  intros Hc Hn. induction fuel as [|fuel IH]; intros count s Hf; [lia|].
  cbn [parse_count_list]. destruct (count =? 0)%N.
  - split; [discriminate|]. intros l r E. injection E as _ <-. lia.
  - pose proof (Hn s) as N1. destruct (p s) as [[x s1]| |] eqn:E1; cbn [bind]; try (split; congruence).
    apply Hc in E1. destruct (IH (count - 1)%N s1 ltac:(lia)) as (N2 & S2).
    destruct (parse_count_list p fuel (count - 1) s1) as [[xs s2]| |]; cbn [bind]; try (split; congruence).
    split; [discriminate|]. intros l r E. injection E as _ <-. specialize (S2 _ _ eq_refl). lia.
Qed.

Lemma parse_witnesses_fuel fuel ins : forall s, (length s < fuel)%nat ->
  parse_witnesses fuel ins s <> OutOfFuel /\
  forall l r, parse_witnesses fuel ins s = Ret (l, r) -> (length r <= length s)%nat.
Proof.
  induction ins as [|i ins IH]; intros s Hf; cbn [parse_witnesses].
  - split; [discriminate|]. intros l r E. injection E as _ <-. lia.
  - pose proof (parse_varint_no_oof s) as N1. destruct (parse_varint s) as [[c s1]| |] eqn:E1; cbn [bind]; try (split; congruence).
    apply parse_varint_consumes in E1.
    destruct (parse_count_list_fuel parse_varstr parse_varstr_consumes parse_varstr_no_oof fuel c s1 ltac:(lia)) as (N2 & S2).
    destruct (parse_count_list parse_varstr fuel c s1) as [[st s2]| |]; cbn [bind]; try (split; congruence).
    specialize (S2 _ _ eq_refl). destruct (IH s2 ltac:(lia)) as (N3 & S3).
    destruct (parse_witnesses fuel ins s2) as [[r' s3]| |]; cbn [bind]; try (split; congruence).
    split; [discriminate|]. intros l r E. injection E as _ <-. specialize (S3 _ _ eq_refl). lia.
Qed.

Lemma parse_word_no_oof : no_oof parse_word.
Proof. intros s. rewrite parse_word_eq. pose proof (read_le_no_oof 4 s). destruct (read_le 4 s) as [[? ?]| |]; cbn [bind]; congruence. Qed.
Lemma parse_word_shrinks : shrinks parse_word.
Proof.
  intros s v r. rewrite parse_word_eq. destruct (read_le 4 s) as [[x y]| |] eqn:E; cbn [bind]; try discriminate.
  intros E2. injection E2 as _ <-. now apply read_le_shrinks in E.
Qed.

Lemma parse_satoshi_int_no_oof v : no_oof (parse_satoshi_int v).
Proof.
  intros s. destruct v as [v|]; cbn [parse_satoshi_int]; [|apply parse_varint_no_oof].
  unfold parse_varint_tail. repeat match goal with |- context [if ?c then _ else _] => destruct c end;
    try apply read_le_no_oof; discriminate.
Qed.
Lemma parse_satoshi_int_shrinks v : shrinks (parse_satoshi_int v).
Proof.
  intros s x r. destruct v as [v|]; cbn [parse_satoshi_int].
  - unfold parse_varint_tail. repeat match goal with |- context [if ?c then _ else _] => destruct c end;
      try apply read_le_shrinks. intros E. injection E as _ <-. lia.
  - intros E. apply parse_varint_consumes in E. lia.
Qed.

Lemma parse_tx_body_fuel fuel ver seg v1 v2 s : (length s < fuel)%nat -> parse_tx_body fuel ver seg v1 v2 s <> OutOfFuel.
Proof.
  intros Hf. unfold parse_tx_body.
  pose proof (parse_satoshi_int_no_oof v1 s) as N1.
  destruct (parse_satoshi_int v1 s) as [[c s1]| |] eqn:E1; cbn [bind]; try congruence.
  apply parse_satoshi_int_shrinks in E1.
  destruct (parse_count_list_fuel parse_txin parse_txin_consumes parse_txin_no_oof fuel c s1 ltac:(lia)) as (N2 & S2).
  destruct (parse_count_list parse_txin fuel c s1) as [[ins s2]| |]; cbn [bind]; try congruence.
  specialize (S2 _ _ eq_refl).
  pose proof (parse_satoshi_int_no_oof v2 s2) as N3.
  destruct (parse_satoshi_int v2 s2) as [[c2 s3]| |] eqn:E3; cbn [bind]; try congruence.
  apply parse_satoshi_int_shrinks in E3.
  destruct (parse_count_list_fuel parse_txout parse_txout_consumes parse_txout_no_oof fuel c2 s3 ltac:(lia)) as (N4 & S4).
  destruct (parse_count_list parse_txout fuel c2 s3) as [[outs s4]| |]; cbn [bind]; try congruence.
  specialize (S4 _ _ eq_refl).
  assert (N5 : (if seg then parse_witnesses fuel ins s4 else Ret (ins, s4)) <> OutOfFuel).
  { destruct seg; [|discriminate]. apply parse_witnesses_fuel. lia. }
  destruct (if seg then _ else _) as [[ins' s5]| |]; cbn [bind]; try congruence.
  pose proof (parse_word_no_oof s5). destruct (parse_word s5) as [[? ?]| |]; cbn [bind]; congruence.
Qed.

Lemma parse_tx_fuel a s : parse_tx a s <> OutOfFuel.
Proof.
  unfold parse_tx. pose proof (parse_word_no_oof s) as N1.
  destruct (parse_word s) as [[ver s1]| |] eqn:E1; cbn [bind]; try congruence.
  apply parse_word_shrinks in E1. destruct s1 as [|b1 s2]; [discriminate|]. cbn [length] in E1.
  destruct (a && _).
  - destruct s2 as [|fl s3]; [discriminate|]. cbn [length] in E1. destruct (_ =? _)%N; [discriminate|].
    destruct (N.odd _); apply parse_tx_body_fuel; lia.
  - apply parse_tx_body_fuel. lia.
Qed.
(* ---- hex ------------------------------------------------------------------------------------------------------ *)
Lemma unhex_hexdigit n : (n < 16)%N -> unhex_digit (hexdigit n) = Some n.
Proof.
  intros H.
  assert (n = 0 \/ n = 1 \/ n = 2 \/ n = 3 \/ n = 4 \/ n = 5 \/ n = 6 \/ n = 7 \/ n = 8 \/ n = 9 \/ n = 10
          \/ n = 11 \/ n = 12 \/ n = 13 \/ n = 14 \/ n = 15)%N as C by lia.
  repeat (destruct C as [-> | C]; [vm_compute; reflexivity|]). subst. vm_compute. reflexivity.
Qed.
Lemma h2b_b2h b : h2b (b2h b) = Ret b.
Proof.
  induction b as [|x b IH]; [reflexivity|]. cbn [b2h h2b]. pose proof (b2n_lt x) as Hx.
  rewrite !unhex_hexdigit.
  - rewrite IH. f_equal. f_equal. rewrite <- (n2b_b2n x) at 3. f_equal. pose proof (N.div_mod (b2n x) 16). lia.
  - apply N.mod_lt. lia.
  - apply N.div_lt_upper_bound; lia.
Qed.
Lemma h2b_rev_b2h_rev b : h2b_rev (b2h_rev b) = Ret b.
Proof. unfold h2b_rev, b2h_rev. rewrite h2b_b2h. cbn [bind]. now rewrite rev_involutive. Qed.
Lemma b2h_length b : length (b2h b) = (2 * length b)%nat.
Proof. induction b; cbn [b2h length]; lia. Qed.

(* ---- unspents extension ------------------------------------------------------------------------------------------ *)
Lemma unspents_frame {A} (ins : list A) (us : list txout) r :
  length us = length ins -> Forall txout_wf us -> Forall (fun o => to_value o <> 0) us ->
  stream_all (fun u => stream_txout (match u with Some o => o | None => mk_txout 0 [] end)) (map Some us)
    = Ret (ser_unspents us) /\
  parse_unspents ins (ser_unspents us ++ r) = Ret (map Some us, r).
Proof.
  revert ins. induction us as [|o us IH]; intros ins Hl Hw Hz; destruct ins as [|i ins]; try discriminate.
  - split; reflexivity.
  - inversion Hw; subst. inversion Hz; subst. cbn [length] in Hl.
    destruct (IH ins ltac:(lia) ltac:(assumption) ltac:(assumption)) as (IH1 & IH2).
    unfold ser_unspents in *. cbn [map stream_all concat parse_unspents].
    destruct (txout_frame o [] ltac:(assumption)) as [-> _]. rewrite IH1. cbn [bind]. split; [reflexivity|].
    rewrite <- app_assoc. destruct (txout_frame o (concat (map ser_txout us) ++ r) ltac:(assumption)) as [_ ->].
    cbn [bind]. rewrite IH2. cbn [bind]. replace (to_value o =? 0) with false by lia. reflexivity.
Qed.

Lemma missing_unspents_all_some t (us : list txout) : length us = length (tx_ins t) ->
  missing_unspents t (map Some us) = false.
Proof.
  intros Hl. unfold missing_unspents. destruct (tx_is_coinbase t) eqn:C; [reflexivity|].
  rewrite map_length, Hl, Nat.eqb_refl. cbn [negb orb].
  apply Bool.not_true_iff_false. intros E. apply existsb_exists in E. destruct E as (idx & Hin & Hm).
  apply in_seq in Hin. unfold missing_unspent in Hm. rewrite C, map_length in Hm.
  replace (length us <=? idx)%nat with false in Hm by lia.
  rewrite nth_error_map in Hm. destruct (nth_error us idx) eqn:E; [discriminate|].
  apply nth_error_None in E. lia.
Qed.

Lemma unspents_roundtrip t (us : list txout) : tx_wf t -> tx_ins t <> [] -> length us = length (tx_ins t) ->
  Forall txout_wf us -> Forall (fun o => to_value o <> 0) us ->
  exists b w, wire_format t w /\ b = w ++ ser_unspents us /\
    tx_as_bin false true true t (map Some us) = Ret b /\ tx_from_bin b = Ret (t, map Some us).
Proof.
  intros W N Hl Hw Hz. destruct (stream_is_wire_format t W) as (w & Hs & Hf).
  exists (w ++ ser_unspents us), w. split; [exact Hf|]. split; [reflexivity|].
  destruct (unspents_frame (tx_ins t) us [] Hl Hw Hz) as (U1 & U2).
  unfold tx_as_bin, stream_unspents. rewrite Hs, missing_unspents_all_some by exact Hl. cbn [bind andb negb].
  rewrite U1. cbn [bind]. split; [reflexivity|].
  unfold tx_from_bin. destruct (parse_stream_frame t (ser_unspents us) W N) as (w' & Hs' & Hp).
  rewrite Hs in Hs'. injection Hs' as <-. rewrite Hp. cbn [bind].
  rewrite <- (app_nil_r (ser_unspents us)), U2. reflexivity.
Qed.

Lemma from_bin_plain t : tx_wf t -> tx_ins t <> [] ->
  exists b, tx_as_bin false false true t [] = Ret b /\ wire_format t b /\ tx_from_bin b = Ret (t, []).
Proof.
  intros W N. destruct (stream_is_wire_format t W) as (w & Hs & Hf). exists w.
  unfold tx_as_bin. rewrite Hs. cbn [bind andb]. split; [reflexivity|]. split; [exact Hf|].
  unfold tx_from_bin. destruct (parse_stream_frame t [] W N) as (w' & Hs' & Hp).
  rewrite Hs in Hs'. injection Hs' as <-. rewrite app_nil_r in Hp. rewrite Hp. cbn [bind].
  destruct (tx_ins t) as [|i ins]; [congruence|]. cbn [parse_unspents].
  rewrite parse_txout_eq. reflexivity.
Qed.

Lemma hex_roundtrip bl iu iw t us b : tx_as_bin bl iu iw t us = Ret b ->
  exists h, tx_as_hex bl iu iw t us = Ret h /\ h = b2h b /\ tx_from_hex h = tx_from_bin b.
Proof.
  intros E. exists (b2h b). unfold tx_as_hex, tx_from_hex. rewrite E, h2b_b2h. cbn [bind]. auto.
Qed.

(* ---- Spendable --------------------------------------------------------------------------------------------------- *)
Lemma compact_frame_z n r : u64 n -> put_varint n = Ret (compact_size n) /\
  (do '(v, r') <- parse_varint (compact_size n ++ r); Ret (VInt (Z.of_N v), r')) = Ret (VInt n, r).
Proof.
  intros H. unfold u64 in H. split; [now apply compact_size_ok|].
  destruct (varint_frame_spec n r H) as (-> & _). cbn [bind]. repeat f_equal. lia.
Qed.

Lemma spendable_frame sp r : spendable_wf sp ->
  stream_spendable true sp = Ret (ser_spendable sp) /\ parse_spendable (ser_spendable sp ++ r) = Ret (sp, r).
Proof.
  intros (Hv & Hs & Hh & Hi & Ha & Hd & Hb).
  pose proof (proj1 (u64_pow _) Hv) as Hv'. pose proof (proj1 (u32_pow _) Hi) as Hi'. split.
  - unfold stream_spendable. destruct (txout_frame (mk_txout (sp_value sp) (sp_script sp)) []) as [-> _]; [split; assumption|].
    cbn [bind]. rewrite (tf_sp_s table_facts). cbn [stream_struct].
    rewrite (tf_hash table_facts), (tf_L table_facts), (tf_I table_facts), (tf_b table_facts).
    cbn [stream_field int_of_sval truth_of_sval bind]. rewrite put_le_ok by exact Hi'. cbn [bind].
    destruct (compact_frame_z _ [] Ha) as [-> _]. destruct (compact_frame_z _ [] Hb) as [-> _]. cbn [bind].
    unfold ser_spendable, ser_txout. cbn [to_value to_script]. rewrite <- Hh at 1. rewrite firstn_all, app_nil_r, <- !app_assoc.
    repeat f_equal. destruct Hd as [-> | ->]; reflexivity.
  - unfold parse_spendable. rewrite (tf_sp_p table_facts). cbn [parse_struct].
    rewrite (tf_hash table_facts), (tf_L table_facts), (tf_I table_facts), (tf_b table_facts), (tf_Q table_facts), (tf_S table_facts).
    cbn [parse_field]. unfold ser_spendable. rewrite <- !app_assoc.
    rewrite read_le_frame_z by exact Hv'. cbn [bind].
    match goal with |- context [parse_varstr (ser_bytes ?v ++ ?rr)] => destruct (varstr_frame_spec v rr Hs) as [_ ->] end.
    cbn [bind]. pose proof (read_app (sp_tx_hash sp)) as E. rewrite Hh in E. rewrite E. cbn [bind].
    rewrite read_le_frame_z by exact Hi'. cbn [bind].
    match goal with |- context [parse_varint (compact_size ?v ++ ?rr)] => destruct (compact_frame_z v rr Ha) as [_ ->] end.
    cbn [bind app].
    match goal with |- context [parse_varint (compact_size ?v ++ ?rr)] => destruct (compact_frame_z v rr Hb) as [_ ->] end.
    cbn [bind]. destruct sp as [v sc h i a d b]. cbn in *. f_equal. f_equal.
    assert (Z.of_N (Z.to_N v) = v) as -> by (unfold u64 in *; lia).
    assert (Z.of_N (Z.to_N i) = i) as -> by (unfold u32 in *; lia).
    destruct Hd as [-> | ->]; reflexivity.
Qed.

Lemma spendable_dict_roundtrip sp : spendable_from_dict (spendable_as_dict sp) = Ret sp.
Proof.
  unfold spendable_from_dict, spendable_as_dict. cbn [sd_script_hex sd_tx_hash_hex sd_coin_value sd_tx_out_index
    sd_block_index_available sd_does_seem_spent sd_block_index_spent dflt].
  rewrite h2b_b2h. cbn [bind]. rewrite h2b_rev_b2h_rev. cbn [bind]. destruct sp; reflexivity.
Qed.
Lemma spendable_text_fields_roundtrip sp : sp_does_seem_spent sp = 0 \/ sp_does_seem_spent sp = 1 ->
  spendable_from_text_fields (spendable_as_text_fields sp) = Ret sp.
Proof.
  intros Hd. unfold spendable_from_text_fields, spendable_as_text_fields. cbn [app firstn].
  rewrite h2b_rev_b2h_rev. cbn [bind]. rewrite h2b_b2h. cbn [bind]. destruct sp as [v sc h i a d b]. cbn in *.
  destruct Hd as [-> | ->]; reflexivity.
Qed.

(* ---- Litecoin ------------------------------------------------------------------------------------------------------ *)
Definition ltc_same_dialect (s : bytes) : Prop :=
  match parse_word s with
  | Ret (_, b1 :: rest) =>
    b2n b1 <> 0%N \/
    match rest with
    | fl :: _ => b2n fl = 0%N \/ (N.odd (b2n fl) = true /\ N.testbit (b2n fl) 3 = false)
    | [] => False
    end
  | _ => True
  end.

Lemma ltc_agrees s : ltc_same_dialect s -> parse_tx_ltc s = parse_tx true s.
Proof.
  unfold ltc_same_dialect, parse_tx_ltc, parse_tx. destruct (parse_word s) as [[ver s1]| |]; cbn [bind]; try reflexivity.
  destruct s1 as [|b1 s2]; [reflexivity|]. cbn [andb]. destruct (b2n b1 =? 0)%N eqn:E1.
  - intros [C|C]; [lia|]. destruct s2 as [|fl s3]; [contradiction|].
    destruct (b2n fl =? 0)%N eqn:E2; [reflexivity|]. destruct C as [C|[C1 C2]]; [lia|].
    rewrite C1, C2. reflexivity.
  - intros _. reflexivity.
Qed.

Lemma ltc_parses_wire t r : tx_wf t -> tx_ins t <> [] ->
  exists b, stream_tx false true t = Ret b /\ parse_tx_ltc (b ++ r) = Ret (t, r).
Proof.
  intros W N. destruct (parse_stream_frame t r W N) as (b & Hs & Hp). exists b. split; [exact Hs|].
  rewrite ltc_agrees; [exact Hp|]. rewrite (stream_tx_spec true t W) in Hs. injection Hs as <-.
  pose proof W as (Hv & _ & _ & _ & Hni & _).
  unfold ltc_same_dialect, wire_bytes. cbn [andb]. destruct (has_witness_data t).
  - unfold ser_extended. rewrite <- !app_assoc.
    match goal with |- context [parse_word (le_bytes 4 ?v ++ ?rr)] => destruct (word_frame v rr Hv) as [_ ->] end.
    cbn [app]. right. right. split; reflexivity.
  - unfold ser_legacy. rewrite <- !app_assoc.
    match goal with |- context [parse_word (le_bytes 4 ?v ++ ?rr)] => destruct (word_frame v rr Hv) as [_ ->] end.
    assert (Hn : 0 <= zlen (tx_ins t) < 2 ^ 64) by (unfold len64, zlen in *; lia).
    destruct (compact_size_head _ Hn) as (b & tl & Hc & Hz). unfold ser_vec at 1. rewrite Hc. cbn [app].
    left. destruct (tx_ins t); [congruence|]. unfold zlen in Hz. cbn [length] in Hz. lia.
Qed.
(* ---- the strict decoder accepts only wire-format bytes ("frame lemmas read backwards") -------------------- *)
Lemma obind_some {A B} (m : option A) (f : A -> option B) b : obind m f = Some b -> exists a, m = Some a /\ f a = Some b.
Proof. destruct m; cbn; [eauto|discriminate]. Qed.

Lemma d_fixed_inv w s h r : d_fixed w s = Some (h, r) -> s = h ++ r /\ length h = w.
Proof.
  unfold d_fixed. destruct (w <=? length s)%nat eqn:E; [|discriminate]. intros H. injection H as <- <-.
  split; [symmetry; apply firstn_skipn|]. rewrite firstn_length. lia.
Qed.

Lemma d_uint_inv w s z r : d_uint w s = Some (z, r) -> s = le_bytes w z ++ r /\ 0 <= z < 256 ^ Z.of_nat w.
Proof.
  unfold d_uint. intros H. apply obind_some in H. destruct H as ([h r'] & Hf & H). injection H as <- <-.
  apply d_fixed_inv in Hf. destruct Hf as (-> & Hl). pose proof (le_decode_bound h) as Hb. rewrite Hl in Hb.
  split.
  - rewrite le_bytes_encode by lia. rewrite N2Z.id. rewrite <- Hl at 1. now rewrite le_encode_decode.
  - rewrite pow256 in Hb. assert (0 < 256 ^ Z.of_nat w) by (apply Z.pow_pos_nonneg; lia). lia.
Qed.

Lemma stream_varint_ret_bound n p : stream_varint n = Ret p -> (n < 2 ^ 64)%N.
Proof.
  unfold stream_varint. change (2 ^ 64)%N with 18446744073709551616%N.
  destruct (n <? 253)%N eqn:E1; [lia|]. destruct (n <=? 65535)%N eqn:E2; [lia|].
  destruct (n <=? 4294967295)%N eqn:E3; [lia|]. destruct (n <? 18446744073709551616)%N eqn:E4; [lia|discriminate].
Qed.

Lemma d_compact_inv s n r : d_compact s = Some (n, r) -> s = compact_size (Z.of_N n) ++ r /\ (n < 2 ^ 64)%N.
Proof.
  unfold d_compact. destruct (varint_canonical s) eqn:C; [|discriminate].
  destruct (parse_varint s) as [[n' r']| |] eqn:P; try discriminate. intros H. injection H as -> ->.
  destruct (varint_parse_inv s n r P C) as (p & Hs & ->). pose proof (stream_varint_ret_bound n p Hs) as Hb.
  split; [|exact Hb]. f_equal.
  assert (Hz : 0 <= Z.of_N n < 2 ^ 64) by (change (2 ^ 64)%N with (Z.to_N (2 ^ 64)) in Hb; lia).
  pose proof (stream_varint_spec (Z.of_N n) Hz) as E. rewrite N2Z.id in E. congruence.
Qed.

Lemma d_bytes_inv s v r : d_bytes s = Some (v, r) -> s = ser_bytes v ++ r /\ len63 v.
Proof.
  unfold d_bytes. intros H. apply obind_some in H. destruct H as ([n r'] & Hc & H).
  destruct ((n <=? N.of_nat (length r')) && (n <? 2 ^ 63))%N eqn:E; [|discriminate]. injection H as <- <-.
  apply d_compact_inv in Hc. destruct Hc as (-> & _).
  assert (Hl : length (firstn (N.to_nat n) r') = N.to_nat n) by (rewrite firstn_length; lia).
  unfold ser_bytes, len63, zlen. rewrite Hl. split.
  - rewrite <- app_assoc, firstn_skipn. f_equal. f_equal. lia.
  - change (2 ^ 63)%N with (Z.to_N (2 ^ 63)) in E. lia.
Qed.

Lemma d_seq_inv {A} (d : bytes -> option (A * bytes)) (ser : A -> bytes) (P : A -> Prop) :
  (forall s x r, d s = Some (x, r) -> s = ser x ++ r /\ P x) ->
  forall n s l r, d_seq d n s = Some (l, r) -> s = concat (map ser l) ++ r /\ length l = n /\ Forall P l.
Proof.
  intros Hd. induction n as [|n IH]; intros s l r; cbn [d_seq].
  - intros H. injection H as <- <-. repeat split. constructor.
  - intros H. apply obind_some in H. destruct H as ([x r1] & Hx & H). apply obind_some in H.
    destruct H as ([xs r2] & Hxs & H). injection H as <- <-. apply Hd in Hx. destruct Hx as (-> & Px).
    apply IH in Hxs. destruct Hxs as (-> & Hl & Pl). cbn [map concat length]. rewrite <- app_assoc.
    repeat split; [lia|]. now constructor.
Qed.

Lemma d_vec_inv {A} (d : bytes -> option (A * bytes)) (ser : A -> bytes) (P : A -> Prop) :
  (forall s x r, d s = Some (x, r) -> s = ser x ++ r /\ P x) ->
  forall s l r, d_vec d s = Some (l, r) -> s = ser_vec ser l ++ r /\ len64 l /\ Forall P l.
Proof.
  intros Hd s l r H. unfold d_vec in H. apply obind_some in H. destruct H as ([n r1] & Hc & H).
  destruct (n <=? N.of_nat (length r1))%N; [|discriminate].
  apply d_compact_inv in Hc. destruct Hc as (-> & Hb).
  destruct (d_seq_inv d ser P Hd _ _ _ _ H) as (-> & Hl & Pl). unfold ser_vec, len64, zlen. rewrite Hl.
  rewrite <- app_assoc. split; [|split; [|exact Pl]].
  - f_equal. f_equal. lia.
  - change (2 ^ 64)%N with (Z.to_N (2 ^ 64)) in Hb. lia.
Qed.

Lemma d_txin_inv s i r : d_txin s = Some (i, r) -> s = ser_txin i ++ r /\ (txin_wf i /\ ti_witness i = []).
Proof.
  unfold d_txin. intros H.
  apply obind_some in H. destruct H as ([h r1] & H1 & H). apply obind_some in H. destruct H as ([x r2] & H2 & H).
  apply obind_some in H. destruct H as ([sc r3] & H3 & H). apply obind_some in H. destruct H as ([q r4] & H4 & H).
  injection H as <- <-. apply d_fixed_inv in H1. destruct H1 as (-> & Hh). apply d_uint_inv in H2. destruct H2 as (-> & Hx).
  apply d_bytes_inv in H3. destruct H3 as (-> & Hsc). apply d_uint_inv in H4. destruct H4 as (-> & Hq).
  unfold ser_txin, txin_wf. cbn [ti_hash ti_index ti_script ti_sequence ti_witness]. rewrite <- !app_assoc.
  repeat split; auto; try (apply u32_pow; assumption).
Qed.
Lemma d_txout_inv s o r : d_txout s = Some (o, r) -> s = ser_txout o ++ r /\ txout_wf o.
Proof.
  unfold d_txout. intros H.
  apply obind_some in H. destruct H as ([v r1] & H1 & H). apply obind_some in H. destruct H as ([sc r2] & H2 & H).
  injection H as <- <-. apply d_uint_inv in H1. destruct H1 as (-> & Hv). apply d_bytes_inv in H2. destruct H2 as (-> & Hsc).
  unfold ser_txout, txout_wf. cbn [to_value to_script]. rewrite <- !app_assoc. repeat split; auto; apply u64_pow; assumption.
Qed.

Lemma d_witnesses_inv ins : Forall (fun i => txin_wf i /\ ti_witness i = []) ins ->
  forall s ins' r, d_witnesses ins s = Some (ins', r) ->
    s = concat (map ser_witness ins') ++ r /\ Forall txin_wf ins' /\ map ser_txin ins' = map ser_txin ins
    /\ length ins' = length ins.
Proof.
  induction ins as [|i ins IH]; intros Hwf s ins' r; cbn [d_witnesses].
  - intros H. injection H as <- <-. repeat split. constructor.
  - inversion Hwf as [|? ? (Hi & _) Hins]; subst. intros H.
    apply obind_some in H. destruct H as ([w r1] & Hw & H). apply obind_some in H. destruct H as ([is' r2] & His & H).
    injection H as <- <-.
    destruct (d_vec_inv d_bytes ser_bytes len63 d_bytes_inv _ _ _ Hw) as (-> & Hl & Pw).
    destruct (IH Hins _ _ _ His) as (-> & W & M & L). cbn [map concat length]. rewrite <- app_assoc.
    repeat split; [|now rewrite M|lia].
    constructor; [|exact W]. destruct Hi as (A1 & A2 & A3 & A4 & _).
    unfold txin_wf. cbn [ti_hash ti_index ti_script ti_sequence ti_witness]. unfold u32 in *. repeat split; try assumption; lia.
Qed.

Lemma some_witness_iff ins : some_witness ins = true <-> exists i, In i ins /\ ti_witness i <> [].
Proof.
  unfold some_witness. rewrite existsb_exists. split; intros (i & Hi & Hw); exists i; split; auto.
  - destruct (ti_witness i); [discriminate|congruence].
  - destruct (ti_witness i); [congruence|reflexivity].
Qed.

Lemma Forall_and_l {A} (P Q : A -> Prop) l : Forall (fun x => P x /\ Q x) l -> Forall P l.
Proof. intros H. apply Forall_impl with (P := fun x => P x /\ Q x); [intros a [Ha _]; exact Ha|exact H]. Qed.

Theorem decode_strict_sound b t r : decode_strict b = Some (t, r) ->
  tx_wf t /\ tx_ins t <> [] /\ exists w, wire_format t w /\ b = w ++ r.
Proof.
  unfold decode_strict. intros H. apply obind_some in H. destruct H as ([ver r0] & Hv & H).
  apply d_uint_inv in Hv. destruct Hv as (-> & Hver). destruct r0 as [|b0 r0]; [discriminate|].
  destruct (b2n b0 =? 0)%N eqn:E0.
  - destruct r0 as [|b1 r1]; [discriminate|]. destruct (b2n b1 =? 1)%N eqn:E1; [|discriminate].
    apply obind_some in H. destruct H as ([ins r2] & Hi & H). apply obind_some in H. destruct H as ([outs r3] & Ho & H).
    apply obind_some in H. destruct H as ([ins' r4] & Hw & H). apply obind_some in H. destruct H as ([lock r5] & Hl & H).
    destruct (some_witness ins') eqn:SW; [|discriminate]. injection H as <- <-.
    destruct (d_vec_inv d_txin ser_txin _ d_txin_inv _ _ _ Hi) as (-> & Li & Pi).
    destruct (d_vec_inv d_txout ser_txout _ d_txout_inv _ _ _ Ho) as (-> & Lo & Po).
    destruct (d_witnesses_inv ins Pi _ _ _ Hw) as (-> & Wi & Mi & Ln).
    apply d_uint_inv in Hl. destruct Hl as (-> & Hlock).
    apply some_witness_iff in SW.
    assert (b0 = x00) as -> by (apply b2n_inj; change (b2n x00) with 0%N; lia).
    assert (b1 = x01) as -> by (apply b2n_inj; change (b2n x01) with 1%N; lia).
    split; [|split].
    + unfold tx_wf. cbn [tx_version tx_ins tx_outs tx_lock_time]. repeat split; auto; try (apply u32_pow; assumption).
      unfold len64, zlen in *. now rewrite Ln.
    + cbn [tx_ins]. destruct SW as (i & Hin & _). destruct ins'; [destruct Hin|discriminate].
    + exists (ser_extended (mk_tx ver ins' outs lock)). split; [left; split; [exact SW|reflexivity]|].
      unfold ser_extended, ser_vec. cbn [tx_version tx_ins tx_outs tx_lock_time]. unfold zlen. rewrite Mi, Ln.
      rewrite <- !app_assoc. reflexivity.
  - apply obind_some in H. destruct H as ([ins r2] & Hi & H). apply obind_some in H. destruct H as ([outs r3] & Ho & H).
    apply obind_some in H. destruct H as ([lock r4] & Hl & H). injection H as <- <-.
    destruct (d_vec_inv d_txin ser_txin _ d_txin_inv _ _ _ Hi) as (E & Li & Pi).
    destruct (d_vec_inv d_txout ser_txout _ d_txout_inv _ _ _ Ho) as (-> & Lo & Po).
    apply d_uint_inv in Hl. destruct Hl as (-> & Hlock).
    assert (Hne : ins <> []).
    { intros ->. unfold ser_vec, zlen in E. cbn in E. injection E as E _. subst b0. vm_compute in E0. discriminate. }
    split; [|split; [exact Hne|]].
    + unfold tx_wf. cbn [tx_version tx_ins tx_outs tx_lock_time]. repeat split; auto; try (apply u32_pow; assumption).
      eapply Forall_and_l; exact Pi.
    + exists (ser_legacy (mk_tx ver ins outs lock)). split.
      * right. split; [|reflexivity]. intros (i & Hin & Hw). cbn [tx_ins] in Hin. rewrite Forall_forall in Pi.
        destruct (Pi i Hin) as (_ & Hn). contradiction.
      * rewrite E. unfold ser_legacy. cbn [tx_version tx_ins tx_outs tx_lock_time].
        repeat rewrite <- app_assoc. reflexivity.
Qed.

(* hence: bytes accepted by the strict decoder are parsed by pycoin's parser to the same transaction, and
   re-serialising returns them unchanged *)
Theorem stream_parse_canonical b t r : decode_strict b = Some (t, r) ->
  parse_tx true b = Ret (t, r) /\ exists w, stream_tx false true t = Ret w /\ b = w ++ r.
Proof.
  intros H. destruct (decode_strict_sound b t r H) as (W & N & w & Hw & ->).
  destruct (stream_parse_wire t w r W N Hw) as (P & S). split; [exact P|]. exists w. auto.
Qed.
(* ---- ... and it accepts every wire-format serialisation (so "canonical" is neither too wide nor too narrow) --- *)
Lemma d_fixed_frame h r : d_fixed (length h) (h ++ r) = Some (h, r).
Proof.
  unfold d_fixed. rewrite app_length. replace (length h <=? length h + length r)%nat with true by lia.
  now rewrite firstn_app_exact, skipn_app_exact.
Qed.
Lemma d_uint_frame w z r : 0 <= z < 256 ^ Z.of_nat w -> d_uint w (le_bytes w z ++ r) = Some (z, r).
Proof.
  intros H. unfold d_uint. pose proof (d_fixed_frame (le_bytes w z) r) as E. rewrite le_bytes_length in E. rewrite E.
  cbn [obind]. rewrite le_bytes_encode by lia. rewrite le_decode_encode.
  - f_equal. f_equal. lia.
  - rewrite pow256. apply Z2N.inj_lt; lia.
Qed.
Lemma d_compact_frame n r : 0 <= n < 2 ^ 64 -> d_compact (compact_size n ++ r) = Some (Z.to_N n, r).
Proof. intros H. unfold d_compact. destruct (varint_frame_spec n r H) as (-> & _ & ->). reflexivity. Qed.
Lemma d_bytes_frame v r : len63 v -> d_bytes (ser_bytes v ++ r) = Some (v, r).
Proof.
  intros H. unfold len63, zlen in H. unfold d_bytes, ser_bytes. rewrite <- app_assoc.
  rewrite d_compact_frame by (unfold zlen; lia). cbn [obind]. rewrite zlen_N, app_length.
  change (2 ^ 63)%N with (Z.to_N (2 ^ 63)).
  replace ((N.of_nat (length v) <=? N.of_nat (length v + length r))%N && (N.of_nat (length v) <? Z.to_N (2 ^ 63))%N) with true by lia.
  now rewrite Nat2N.id, firstn_app_exact, skipn_app_exact.
Qed.
Lemma d_seq_frame {A B} (d : bytes -> option (B * bytes)) (ser : A -> bytes) (g : A -> B) (l : list A) :
  (forall x, In x l -> forall r, d (ser x ++ r) = Some (g x, r)) ->
  forall r, d_seq d (length l) (concat (map ser l) ++ r) = Some (map g l, r).
Proof.
  induction l as [|x l IH]; intros Hd r; [reflexivity|]. cbn [length d_seq map concat].
  rewrite <- app_assoc, (Hd x (or_introl eq_refl)). cbn [obind]. rewrite IH; [reflexivity|].
  intros y Hy. apply Hd. now right.
Qed.
Lemma d_vec_frame {A B} (d : bytes -> option (B * bytes)) (ser : A -> bytes) (g : A -> B) (l : list A) r :
  len64 l -> (forall x, In x l -> (1 <= length (ser x))%nat /\ forall r, d (ser x ++ r) = Some (g x, r)) ->
  d_vec d (ser_vec ser l ++ r) = Some (map g l, r).
Proof.
  intros Hl Hd. unfold d_vec, ser_vec. rewrite <- app_assoc.
  rewrite d_compact_frame by (unfold len64, zlen in *; lia). cbn [obind]. rewrite zlen_N.
  assert (Hlen : (length l <= length (concat (map ser l)))%nat).
  { clear Hl. induction l as [|x l IH]; [cbn; lia|]. cbn [map concat length]. rewrite app_length.
    destruct (Hd x (or_introl eq_refl)) as (H1 & _). specialize (IH (fun y Hy => Hd y (or_intror Hy))). lia. }
  rewrite app_length. replace (N.of_nat (length l) <=? N.of_nat (length (concat (map ser l)) + length r))%N with true by lia.
  rewrite Nat2N.id. apply d_seq_frame. intros x Hx. now destruct (Hd x Hx).
Qed.
Lemma d_txin_frame i r : txin_wf i -> d_txin (ser_txin i ++ r) = Some (clear_witness i, r).
Proof.
  intros (Hh & Hi & Hq & Hs & _). unfold d_txin, ser_txin. rewrite <- !app_assoc.
  pose proof (d_fixed_frame (ti_hash i)) as E. rewrite Hh in E. rewrite E. cbn [obind].
  rewrite d_uint_frame by (apply u32_pow; exact Hi). cbn [obind]. rewrite d_bytes_frame by exact Hs. cbn [obind].
  rewrite d_uint_frame by (apply u32_pow; exact Hq). reflexivity.
Qed.
Lemma d_txout_frame o r : txout_wf o -> d_txout (ser_txout o ++ r) = Some (o, r).
Proof.
  intros (Hv & Hs). unfold d_txout, ser_txout. rewrite <- !app_assoc.
  rewrite d_uint_frame by (apply u64_pow; exact Hv). cbn [obind]. rewrite d_bytes_frame by exact Hs. cbn [obind].
  destruct o; reflexivity.
Qed.
Lemma ser_txin_length i : txin_wf i -> (1 <= length (ser_txin i))%nat.
Proof. intros (Hh & _). unfold ser_txin. rewrite app_length. lia. Qed.
Lemma ser_txout_length o : (1 <= length (ser_txout o))%nat.
Proof. unfold ser_txout. rewrite app_length, le_bytes_length. lia. Qed.

Lemma d_witnesses_frame ins r : Forall txin_wf ins ->
  d_witnesses (map clear_witness ins) (concat (map ser_witness ins) ++ r) = Some (ins, r).
Proof.
  induction ins as [|i ins IH]; intros Hwf; [reflexivity|]. inversion Hwf as [|? ? Hi Hins]; subst.
  cbn [map concat d_witnesses]. rewrite <- app_assoc. unfold ser_witness at 1.
  destruct Hi as (_ & _ & _ & _ & Hl & Hw).
  rewrite (d_vec_frame d_bytes ser_bytes (fun x => x)); [|exact Hl|].
  - cbn [obind]. rewrite IH by exact Hins. cbn [obind]. rewrite map_id. destruct i; reflexivity.
  - intros x Hx. rewrite Forall_forall in Hw. split; [apply ser_bytes_length|]. intros r'. apply d_bytes_frame. auto.
Qed.

Theorem decode_strict_complete t w r : tx_wf t -> tx_ins t <> [] -> wire_format t w ->
  decode_strict (w ++ r) = Some (t, r).
Proof.
  intros Hwf Hne Hw. pose proof Hwf as (Hv & Hl & Hi & Ho & Hni & Hno).
  assert (Fi : forall rr, d_vec d_txin (ser_vec ser_txin (tx_ins t) ++ rr) = Some (map clear_witness (tx_ins t), rr)).
  { intros rr. apply d_vec_frame; [exact Hni|]. intros x Hx. rewrite Forall_forall in Hi.
    split; [apply ser_txin_length; auto|]. intros r'. apply d_txin_frame. auto. }
  assert (Fo : forall rr, d_vec d_txout (ser_vec ser_txout (tx_outs t) ++ rr) = Some (tx_outs t, rr)).
  { intros rr. rewrite (d_vec_frame d_txout ser_txout (fun x => x)); [now rewrite map_id|exact Hno|].
    intros x Hx. rewrite Forall_forall in Ho. split; [apply ser_txout_length|]. intros r'. apply d_txout_frame. auto. }
  unfold decode_strict. destruct Hw as [(Hw & ->) | (Hw & ->)].
  - unfold ser_extended. rewrite <- !app_assoc. rewrite d_uint_frame by (apply u32_pow; exact Hv). cbn [obind app].
    change (b2n x00 =? 0)%N with true. change (b2n x01 =? 1)%N with true. cbv iota.
    rewrite Fi. cbn [obind]. rewrite Fo. cbn [obind]. rewrite d_witnesses_frame by exact Hi. cbn [obind].
    rewrite d_uint_frame by (apply u32_pow; exact Hl). cbn [obind].
    replace (some_witness (tx_ins t)) with true by (symmetry; apply some_witness_iff; exact Hw).
    destruct t; reflexivity.
  - unfold ser_legacy. rewrite <- !app_assoc. rewrite d_uint_frame by (apply u32_pow; exact Hv). cbn [obind].
    assert (Hn : 0 <= zlen (tx_ins t) < 2 ^ 64) by (unfold len64, zlen in *; lia).
    destruct (compact_size_head _ Hn) as (b & tl & Hc & Hz).
    set (rest := ser_vec ser_txout (tx_outs t) ++ le_bytes 4 (tx_lock_time t) ++ r).
    pose proof (Fi rest) as Fi'.
    assert (Ex : ser_vec ser_txin (tx_ins t) ++ rest = b :: (tl ++ concat (map ser_txin (tx_ins t))) ++ rest).
    { unfold ser_vec. rewrite Hc. reflexivity. }
    rewrite Ex in *.
    assert (Hb : (b2n b =? 0)%N = false).
    { destruct (tx_ins t); [congruence|]. unfold zlen in Hz. cbn [length] in Hz. lia. }
    rewrite Hb, Fi'. cbn [obind]. subst rest. rewrite Fo. cbn [obind]. rewrite d_uint_frame by (apply u32_pow; exact Hl). cbn [obind].
    f_equal. f_equal. destruct t as [v ins outs l]. cbn [tx_ins tx_version tx_outs tx_lock_time] in *. f_equal.
    apply map_id_ext. intros i Hin. destruct i as [h x s q wi]. unfold clear_witness. cbn. f_equal.
    destruct wi; [reflexivity|]. exfalso. apply Hw. eexists. split; [exact Hin|]. cbn. discriminate.
Qed.
