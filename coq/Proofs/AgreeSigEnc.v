(* Proofs/AgreeSigEnc.v — C03 agreement, encoding rules used by the signature opcodes:
   check_valid_signature (checksigops._check_valid_signature_1/2) = IsValidSignatureEncoding (never IndexError),
   check_defined_hashtype_signature = IsDefinedHashtypeSignature, check_low_der_signature = CheckLowS on the
   strict layout, the two public-key encoding tests, and the combined statement about
   parse_and_check_signature_blob against CheckSignatureEncoding. *)
From Coq Require Import Lia ZifyBool ZifyNat ZifyN.
From PV Require Import Base.Bytes Base.Outcome Gen.GenOpcodes Gen.GenFlags.
From PV Require Import Model.ScriptNum Model.Push Model.CondStack Model.Der.
From PV Require Import Spec.VMTypes Model.VMpy Spec.VMcore Proofs.VMpyP Proofs.VMpySigP Proofs.AgreeBase.
Local Open Scope N_scope.

Lemma sig_at_in sig i : (i < length sig)%nat -> sig_at sig i = VOk (at_ sig (N.of_nat i)).
Proof.
  intros H. unfold sig_at, at_. rewrite Nat2N.id. rewrite (nth_error_nth' sig x00 H). reflexivity.
Qed.

(* the BIP66 shape test: same verdict, and pycoin's indexing never leaves the blob *)
Lemma cvs_agree sig :
  check_valid_signature sig = if is_valid_signature_encoding sig then VOk tt else VFail.
Proof.
  unfold check_valid_signature, is_valid_signature_encoding, len.
  set (ls := length sig).
  destruct (N.ltb_spec (N.of_nat ls) 9) as [H9|H9].
  { replace ((ls <? 9)%nat || (73 <? ls)%nat) with true by lia. reflexivity. }
  destruct (N.ltb_spec 73 (N.of_nat ls)) as [H73|H73].
  { replace ((ls <? 9)%nat || (73 <? ls)%nat) with true by lia. reflexivity. }
  replace ((ls <? 9)%nat || (73 <? ls)%nat) with false by lia.
  rewrite (sig_at_in sig 0) by (fold ls; lia). cbn [vbind]. change (N.of_nat 0) with 0.
  destruct (negb (at_ sig 0 =? 48)); [reflexivity|].
  rewrite (sig_at_in sig 1) by (fold ls; lia). cbn [vbind]. change (N.of_nat 1) with 1.
  replace (N.of_nat (ls - 3)) with (N.of_nat ls - 3) by lia.
  destruct (negb (at_ sig 1 =? N.of_nat ls - 3)); [reflexivity|].
  rewrite (sig_at_in sig 3) by (fold ls; lia). cbn [vbind]. change (N.of_nat 3) with 3.
  set (lenR := at_ sig 3).
  destruct (N.leb_spec (N.of_nat ls) (5 + lenR)) as [HR|HR].
  { replace (ls <=? 5 + N.to_nat lenR)%nat with true by lia. reflexivity. }
  replace (ls <=? 5 + N.to_nat lenR)%nat with false by lia.
  rewrite (sig_at_in sig (5 + N.to_nat lenR)) by (fold ls; lia). cbn [vbind].
  replace (N.of_nat (5 + N.to_nat lenR)) with (5 + lenR) by lia.
  set (lenS := at_ sig (5 + lenR)).
  destruct (N.eqb_spec (lenR + lenS + 7) (N.of_nat ls)) as [Hsum|Hsum]; cbn [negb].
  2: { replace (N.to_nat lenR + N.to_nat lenS + 7 =? ls)%nat with false by lia. reflexivity. }
  replace (N.to_nat lenR + N.to_nat lenS + 7 =? ls)%nat with true by lia. cbn [negb].
  rewrite (sig_at_in sig 2) by (fold ls; lia). cbn [vbind]. change (N.of_nat 2) with 2.
  destruct (negb (at_ sig 2 =? 2)); [reflexivity|].
  destruct (N.eqb_spec lenR 0) as [HR0|HR0].
  { replace (N.to_nat lenR =? 0)%nat with true by lia. reflexivity. }
  replace (N.to_nat lenR =? 0)%nat with false by lia.
  rewrite (sig_at_in sig 4) by (fold ls; lia). cbn [vbind]. change (N.of_nat 4) with 4.
  destruct (negb (N.land (at_ sig 4) 128 =? 0)); [reflexivity|].
  replace (1 <? N.to_nat lenR)%nat with (1 <? lenR) by lia.
  assert (Hbr : (if (1 <? lenR) && (at_ sig 4 =? 0)
                 then vbind (sig_at sig 5) (fun b5 => VOk (N.land b5 128 =? 0)) else VOk false)
                = VOk ((1 <? lenR) && (at_ sig 4 =? 0) && (N.land (at_ sig 5) 128 =? 0))).
  { destruct ((1 <? lenR) && (at_ sig 4 =? 0)); [|reflexivity].
    rewrite (sig_at_in sig 5) by (fold ls; lia). reflexivity. }
  rewrite Hbr. clear Hbr. cbn [vbind].
  destruct ((1 <? lenR) && (at_ sig 4 =? 0) && (N.land (at_ sig 5) 128 =? 0)); [reflexivity|].
  rewrite (sig_at_in sig (N.to_nat lenR + 4)) by (fold ls; lia). cbn [vbind].
  replace (N.of_nat (N.to_nat lenR + 4)) with (lenR + 4) by lia.
  destruct (negb (at_ sig (lenR + 4) =? 2)); [reflexivity|].
  destruct (N.eqb_spec lenS 0) as [HS0|HS0].
  { replace (N.to_nat lenS =? 0)%nat with true by lia. reflexivity. }
  replace (N.to_nat lenS =? 0)%nat with false by lia.
  rewrite (sig_at_in sig (N.to_nat lenR + 6)) by (fold ls; lia). cbn [vbind].
  replace (N.of_nat (N.to_nat lenR + 6)) with (lenR + 6) by lia.
  destruct (negb (N.land (at_ sig (lenR + 6)) 128 =? 0)); [reflexivity|].
  replace (1 <? N.to_nat lenS)%nat with (1 <? lenS) by lia.
  assert (Hbs : (if (1 <? lenS) && (at_ sig (lenR + 6) =? 0)
                 then vbind (sig_at sig (N.to_nat lenR + 7)) (fun s1 => VOk (N.land s1 128 =? 0)) else VOk false)
                = VOk ((1 <? lenS) && (at_ sig (lenR + 6) =? 0) && (N.land (at_ sig (lenR + 7)) 128 =? 0))).
  { destruct (N.ltb_spec 1 lenS); cbn [andb]; [|reflexivity].
    destruct (at_ sig (lenR + 6) =? 0); [|reflexivity].
    rewrite (sig_at_in sig (N.to_nat lenR + 7)) by (fold ls; lia). cbn [vbind].
    replace (N.of_nat (N.to_nat lenR + 7)) with (lenR + 7) by lia. reflexivity. }
  rewrite Hbs. clear Hbs. cbn [vbind].
  destruct ((1 <? lenS) && (at_ sig (lenR + 6) =? 0) && (N.land (at_ sig (lenR + 7)) 128 =? 0)); reflexivity.
Qed.

Lemma hashtype_byte b :
  ((N.ldiff (b2n b) SIGHASH_ANYONECANPAY <? SIGHASH_ALL) || (SIGHASH_SINGLE <? N.ldiff (b2n b) SIGHASH_ANYONECANPAY))
  = negb ((1 <=? N.land (b2n b) 127) && (N.land (b2n b) 127 <=? 3)).
Proof. destruct b; vm_compute; reflexivity. Qed.

Lemma hashtype_agree sig :
  check_defined_hashtype_signature sig = if is_defined_hashtype_signature sig then VOk tt else VFail.
Proof.
  unfold check_defined_hashtype_signature, is_defined_hashtype_signature, last_opt.
  destruct (rev sig) as [|h t]; [reflexivity|]. rewrite hashtype_byte.
  destruct ((1 <=? N.land (b2n h) 127) && (N.land (b2n h) 127 <=? 3)); reflexivity.
Qed.

(* ---- CheckLowS reads the R and S fields of the strict layout -------------------------------------------------- *)
Lemma nth_skipn_add {A} (d : A) a : forall l b, nth (a + b) l d = nth b (skipn a l) d.
Proof.
  induction a as [|a IH]; intros l b; [reflexivity|].
  destruct l as [|x l]; cbn [plus nth skipn]; [destruct b; reflexivity|apply IH].
Qed.

Lemma layout_der (L rl : byte) (R : bytes) (sl : byte) (SS : bytes) (ht : byte) :
  length R = N.to_nat (b2n rl) -> length SS = N.to_nat (b2n sl) ->
  let sig := x30 :: L :: x02 :: rl :: R ++ x02 :: sl :: SS ++ [ht] in
  der_r sig = be_decode R /\ der_s sig = be_decode SS.
Proof.
  intros HR HS sig. unfold der_r, der_s, at_.
  assert (E4 : skipn 4 sig = R ++ x02 :: sl :: SS ++ [ht]) by reflexivity.
  assert (E3 : nth (N.to_nat 3) sig x00 = rl) by reflexivity.
  rewrite E3, E4. split.
  - rewrite <- HR. now rewrite firstn_app_exact.
  - replace (N.to_nat (5 + b2n rl)) with (4 + (length R + 1))%nat by lia.
    replace (N.to_nat (6 + b2n rl)) with (4 + (length R + 2))%nat by lia.
    rewrite nth_skipn_add, <- skipn_add, E4.
    rewrite nth_skipn_add, <- skipn_add, skipn_app_exact. cbn [nth skipn].
    rewrite <- HS. now rewrite firstn_app_exact.
Qed.

(* ---- exceptions of the lax DER reader: UnexpectedDER or ValueError only ---------------------------------------- *)
Definition okraise {A} (m : outcome A) : Prop :=
  match m with Raise e => e = E_DER \/ e = E_VALUE | _ => True end.
Lemma okraise_bind {A B} (m : outcome A) (f : A -> outcome B) :
  okraise m -> (forall a, okraise (f a)) -> okraise (bind m f).
Proof. destruct m; cbn; auto. Qed.
Ltac okr :=
  repeat match goal with
         | |- okraise (Ret _) => exact I
         | |- okraise (Raise E_DER) => left; reflexivity
         | |- okraise (Raise E_VALUE) => right; reflexivity
         | |- okraise (bind _ _) => apply okraise_bind; [|intros]
         | |- okraise (if ?c then _ else _) => destruct c
         | |- okraise (match ?x with _ => _ end) => destruct x
         | |- okraise (let (_, _) := ?x in _) => destruct x
         end.
Lemma okraise_read_length s : okraise (read_length s).
Proof. unfold read_length. okr. Qed.
Lemma okraise_remove_sequence s : okraise (remove_sequence s).
Proof. unfold remove_sequence. okr; auto using okraise_read_length. Qed.
Lemma okraise_remove_integer s b : okraise (remove_integer s b).
Proof. unfold remove_integer. okr; auto using okraise_read_length. Qed.
Lemma okraise_sigdecode s b : okraise (sigdecode_der s b).
Proof. unfold sigdecode_der. okr; auto using okraise_remove_sequence, okraise_remove_integer. Qed.

Lemma flag_set_lor f a b : flag_set f (N.lor a b) = flag_set f a || flag_set f b.
Proof.
  unfold flag_set. rewrite N.land_lor_distr_r.
  destruct (N.eqb_spec (N.land f a) 0) as [Ea|Ea], (N.eqb_spec (N.land f b) 0) as [Eb|Eb]; cbn [negb orb].
  - rewrite Ea, Eb. reflexivity.
  - destruct (N.eqb_spec (N.lor (N.land f a) (N.land f b)) 0) as [E|E]; [|reflexivity].
    apply N.lor_eq_0_iff in E. tauto.
  - destruct (N.eqb_spec (N.lor (N.land f a) (N.land f b)) 0) as [E|E]; [|reflexivity].
    apply N.lor_eq_0_iff in E. tauto.
  - destruct (N.eqb_spec (N.lor (N.land f a) (N.land f b)) 0) as [E|E]; [|reflexivity].
    apply N.lor_eq_0_iff in E. tauto.
Qed.

(* ---- public keys ------------------------------------------------------------------------------------------------ *)
Lemma pubkey_enc_agree k : check_public_key_encoding k = is_compressed_or_uncompressed_pubkey k.
Proof.
  unfold check_public_key_encoding, is_compressed_or_uncompressed_pubkey, len, at_.
  destruct k as [|fb t]; [reflexivity|]. change (N.to_nat 0) with 0%nat. cbn [nth].
  set (lb := length (fb :: t)).
  destruct (N.ltb_spec (N.of_nat lb) 33).
  { replace (33 <=? lb)%nat with false by lia. reflexivity. }
  replace (33 <=? lb)%nat with true by lia. cbn [andb].
  destruct (b2n fb =? 4); [lia|]. destruct ((b2n fb =? 2) || (b2n fb =? 3)); [lia|reflexivity].
Qed.

Lemma witness_pubkey_agree k : witness_pubkeytype_ok k = is_compressed_pubkey k.
Proof.
  unfold witness_pubkeytype_ok, is_compressed_pubkey, len, at_.
  destruct k as [|fb t]; [reflexivity|]. change (N.to_nat 0) with 0%nat. cbn [nth].
  set (lb := length (fb :: t)). replace (lb =? 33)%nat with (N.of_nat lb =? 33) by lia. reflexivity.
Qed.

Section SigEnc.
Variable o : oracles.
Variable flags : N.
Variable sv : sigversion.

Definition strict : bool := flag_set flags (N.lor VERIFY_DERSIG (N.lor VERIFY_LOW_S VERIFY_STRICTENC)).

Lemma strict_or : strict = flag_set flags VERIFY_DERSIG || flag_set flags VERIFY_LOW_S || flag_set flags VERIFY_STRICTENC.
Proof. unfold strict. rewrite !flag_set_lor. now rewrite orb_assoc. Qed.

(* what the oracle must satisfy outside the strict region: a blob pycoin's lax DER reader rejects does not verify *)
Definition lax_contract : Prop :=
  forall sig key code, (forall rs, sigdecode_der (removelast sig) true <> Ret rs) -> o_checksig o sig key code sv = false.

(* (H1) for the public-key rule *)
Hypothesis H1w : sv = SV_BASE -> flag_set flags VERIFY_WITNESS_PUBKEYTYPE = false.

Definition pk_ok (k : bytes) : bool :=
  (negb (flag_set flags VERIFY_STRICTENC) || is_compressed_or_uncompressed_pubkey k)
  && (negb (flag_set flags VERIFY_WITNESS_PUBKEYTYPE) || is_compressed_pubkey k).

Lemma checksig_pk sp sig k code :
  checksig o flags sv sp sig k code =
  if pk_ok k then match sp with
                  | None => VOk false
                  | Some _ => vbind (lift code) (fun c => VOk (o_checksig o sig k c sv))
                  end
  else VFail.
Proof.
  unfold checksig, pk_ok, VMpy.flag. rewrite pubkey_enc_agree, witness_pubkey_agree.
  destruct (flag_set flags VERIFY_STRICTENC); cbn [negb orb];
    [destruct (is_compressed_or_uncompressed_pubkey k); cbn [require vbind andb]; [|reflexivity]|cbn [vbind andb]];
    (destruct (flag_set flags VERIFY_WITNESS_PUBKEYTYPE); cbn [negb orb];
     [destruct (is_compressed_pubkey k); cbn [require vbind]; reflexivity|reflexivity]).
Qed.

Lemma core_pk k : exists e, check_pubkey_encoding flags sv k = if pk_ok k then COk tt else CErr e.
Proof.
  unfold check_pubkey_encoding, pk_ok.
  destruct (flag_set flags VERIFY_WITNESS_PUBKEYTYPE) eqn:Ew.
  - destruct sv eqn:Esv; [discriminate (H1w eq_refl)|].
    destruct (flag_set flags VERIFY_STRICTENC), (is_compressed_or_uncompressed_pubkey k), (is_compressed_pubkey k);
      cbn; try (exists SE_PUBKEYTYPE; reflexivity); exists SE_WITNESS_PUBKEYTYPE; reflexivity.
  - destruct (flag_set flags VERIFY_STRICTENC), (is_compressed_or_uncompressed_pubkey k);
      cbn; try (exists SE_PUBKEYTYPE; reflexivity); exists SE_WITNESS_PUBKEYTYPE; reflexivity.
Qed.

(* ---- signatures ------------------------------------------------------------------------------------------------- *)
Lemma low_s_agree n r s :
  (if (Z.of_N n <=? Z.of_N r)%Z || (Z.of_N n <=? Z.of_N s)%Z then true
   else negb (Z.of_N n - Z.of_N s <? Z.of_N s)%Z)
  = (if (n <=? r) || (n <=? s) then true else s <=? n / 2).
Proof.
  destruct (Z.leb_spec (Z.of_N n) (Z.of_N r)), (Z.leb_spec (Z.of_N n) (Z.of_N s)),
           (N.leb_spec n r), (N.leb_spec n s); cbn [orb]; try lia; try reflexivity.
Qed.

Lemma parse_agree sig : sig <> [] ->
  match parse_and_check_signature_blob o flags sig, check_signature_encoding (o_order o) flags sig with
  | VOk (Some _), COk _ => True
  | VOk None, COk _ => strict = false /\ forall rs, sigdecode_der (removelast sig) true <> Ret rs
  | VFail, CErr _ => True
  | _, _ => False
  end.
Proof.
  intros Hne. unfold parse_and_check_signature_blob, check_signature_encoding, VMpy.flag.
  destruct sig as [|b0 tl]; [contradiction|]. set (sig := b0 :: tl) in *.
  fold strict. pose proof strict_or as Hso.
  destruct strict eqn:Est.
  - (* strict region *)
    rewrite cvs_agree. rewrite <- Hso. cbn [andb].
    destruct (is_valid_signature_encoding sig) eqn:Ev; cbn [vbind negb]; [|exact I].
    assert (Hcv : check_valid_signature sig = VOk tt) by (rewrite cvs_agree, Ev; reflexivity).
    destruct (valid_signature_lax_parse sig Hcv) as (L & rl & R & sl & SS & ht & E & HR & HS & Hp).
    rewrite Hp.
    destruct (layout_der L rl R sl SS ht HR HS) as [Hr Hs]. cbv zeta in Hr, Hs. rewrite <- E in Hr, Hs.
    rewrite hashtype_agree. unfold check_low_s. rewrite Hr, Hs.
    pose proof (low_s_agree (o_order o) (be_decode R) (be_decode SS)) as Hl.
    destruct (flag_set flags VERIFY_STRICTENC), (is_defined_hashtype_signature sig), (flag_set flags VERIFY_LOW_S);
      cbn [vbind andb negb]; try exact I;
      destruct ((Z.of_N (o_order o) <=? Z.of_N (be_decode R))%Z || (Z.of_N (o_order o) <=? Z.of_N (be_decode SS))%Z);
      rewrite <- Hl; try exact I;
      destruct (Z.of_N (o_order o) - Z.of_N (be_decode SS) <? Z.of_N (be_decode SS))%Z; cbn [negb]; exact I.
  - (* no encoding flag: the lax reader decides *)
    symmetry in Hso. apply orb_false_iff in Hso. destruct Hso as [Hso Hs]. apply orb_false_iff in Hso. destruct Hso as [Hd Hl].
    rewrite Hd, Hl, Hs. cbn [orb andb vbind].
    pose proof (okraise_sigdecode (removelast sig) true) as Hok.
    pose proof (sigdecode_no_oof (removelast sig) true) as Hoof.
    destruct (sigdecode_der (removelast sig) true) as [[r s]|e|] eqn:Ed; [exact I| |contradiction].
    cbn in Hok. destruct Hok as [-> | ->]; (split; [reflexivity|intros rs; discriminate]).
Qed.

Lemma parse_empty : parse_and_check_signature_blob o flags [] = VOk None.
Proof. reflexivity. Qed.

End SigEnc.
