(* Proofs/ScriptNumP.v — lemmas about Model/ScriptNum.v (C12). *)
From PV Require Import Base.Bytes Base.Outcome Model.ScriptNum.
From Coq Require Import ZifyBool ZifyNat ZifyN.
Ltac Zify.zify_post_hook ::= Z.to_euclidean_division_equations.
Local Open Scope N_scope.

(* ---- bit facts on one byte, by enumeration of the 256 constructors ----------------------- *)
Lemma land255 v : N.land v 255 = v mod 256.
Proof. change 255 with (N.ones 8). rewrite N.land_ones. reflexivity. Qed.

Lemma shiftr8 v : N.shiftr v 8 = v / 256.
Proof. rewrite N.shiftr_div_pow2. reflexivity. Qed.

Lemma shiftl8 v : N.shiftl v 8 = v * 256.
Proof. rewrite N.shiftl_mul_pow2. reflexivity. Qed.

Definition byte_facts (b : byte) : bool :=
  let n := b2n b in
  (* masks partition the byte *)
  (N.land n 127 + N.land n 128 =? n) &&
  ((N.land n 128 =? 0) || (N.land n 128 =? 128)) &&
  (N.land n 127 <? 128) &&
  (* setting the sign bit on a value below 128 *)
  (if n <? 128 then (N.land (N.lor n 128) 127 =? n) && (N.land (N.lor n 128) 128 =? 128) && (N.lor n 128 =? n + 128)
   else true) &&
  (if n <? 128 then (N.land n 128 =? 0) && (N.land n 127 =? n) else (N.land n 128 =? 128)) &&
  (N.lor (N.land n 127) 128 =? N.land n 127 + 128).

Lemma byte_facts_all b : byte_facts b = true.
Proof. destruct b; vm_compute; reflexivity. Qed.

Lemma byte_split b : N.land (b2n b) 127 + N.land (b2n b) 128 = b2n b
  /\ (N.land (b2n b) 128 = 0 \/ N.land (b2n b) 128 = 128) /\ N.land (b2n b) 127 < 128.
Proof.
  pose proof (byte_facts_all b) as H. unfold byte_facts in H.
  repeat (apply andb_true_iff in H; destruct H as [H ?]).
  repeat split; lia.
Qed.

Lemma byte_lt128 b : b2n b < 128 ->
  N.land (N.lor (b2n b) 128) 127 = b2n b /\ N.land (N.lor (b2n b) 128) 128 = 128
  /\ N.lor (b2n b) 128 = b2n b + 128 /\ N.land (b2n b) 128 = 0 /\ N.land (b2n b) 127 = b2n b.
Proof.
  intros Hlt. pose proof (byte_facts_all b) as H. unfold byte_facts in H.
  repeat (apply andb_true_iff in H; destruct H as [H ?]).
  destruct (b2n b <? 128) eqn:E; [|lia].
  repeat match goal with H : (_ && _)%bool = true |- _ => apply andb_true_iff in H; destruct H end.
  repeat split; lia.
Qed.

Lemma byte_ge128 b : 128 <= b2n b -> N.land (b2n b) 128 = 128.
Proof.
  intros Hge. pose proof (byte_facts_all b) as H. unfold byte_facts in H.
  repeat (apply andb_true_iff in H; destruct H as [H ?]).
  destruct (b2n b <? 128) eqn:E; lia.
Qed.

Lemma byte_lor_masked b : N.lor (N.land (b2n b) 127) 128 = N.land (b2n b) 127 + 128.
Proof.
  pose proof (byte_facts_all b) as H. unfold byte_facts in H.
  repeat (apply andb_true_iff in H; destruct H as [H ?]). lia.
Qed.

(* ---- last_n / rev helpers ------------------------------------------------------------------ *)
Lemma last_n_snoc bs b : last_n (bs ++ [b]) = b2n b.
Proof. unfold last_n. rewrite rev_app_distr. reflexivity. Qed.

Lemma last_n_cons b r : r <> [] -> last_n (b :: r) = last_n r.
Proof.
  intros Hr. destruct (exists_last Hr) as [r' [l ->]].
  rewrite app_comm_cons, !last_n_snoc. reflexivity.
Qed.

Lemma set_last_or_snoc bs b m : set_last_or (bs ++ [b]) m = bs ++ [n2b (N.lor (b2n b) m)].
Proof.
  unfold set_last_or. rewrite rev_app_distr. cbn [rev app].
  rewrite rev_involutive. reflexivity.
Qed.

Lemma pow256_pos n : 0 < 256 ^ n.
Proof. apply N.neq_0_lt_0. apply N.pow_nonzero. lia. Qed.

Lemma le_decode_snoc bs b : le_decode (bs ++ [b]) = le_decode bs + 256 ^ N.of_nat (length bs) * b2n b.
Proof. rewrite le_decode_app. cbn [le_decode]. f_equal. f_equal. lia. Qed.

(* lower bound when the top byte is non-zero *)
Lemma le_decode_lower bs : bs <> [] -> last_n bs <> 0 ->
  256 ^ N.of_nat (length bs - 1) <= le_decode bs.
Proof.
  intros Hne Hl. destruct (exists_last Hne) as [r [l ->]].
  rewrite last_n_snoc in Hl. rewrite le_decode_snoc, app_length. cbn [length].
  replace (length r + 1 - 1)%nat with (length r) by lia.
  pose proof (pow256_pos (N.of_nat (length r))). nia.
Qed.

Lemma pow256_mono a b : (a <= b)%nat -> 256 ^ N.of_nat a <= 256 ^ N.of_nat b.
Proof. intros. apply N.pow_le_mono_r; lia. Qed.

(* canonical little-endian digit strings are unique *)
Lemma le_canonical_unique a b :
  a <> [] -> b <> [] -> last_n a <> 0 -> last_n b <> 0 -> le_decode a = le_decode b -> a = b.
Proof.
  intros Ha Hb La Lb E.
  assert (Hlen : length a = length b).
  { pose proof (le_decode_lower a Ha La). pose proof (le_decode_lower b Hb Lb).
    pose proof (le_decode_bound a). pose proof (le_decode_bound b).
    destruct (Nat.lt_trichotomy (length a) (length b)) as [Hlt|[Heq|Hgt]]; [exfalso | exact Heq | exfalso].
    - pose proof (pow256_mono (length a) (length b - 1) ltac:(lia)). lia.
    - pose proof (pow256_mono (length b) (length a - 1) ltac:(lia)). lia. }
  rewrite <- (le_encode_decode a), <- (le_encode_decode b), Hlen, E. reflexivity.
Qed.

(* ---- the encoder loop --------------------------------------------------------------------- *)
Lemma le_min_f_spec f : forall v, v < 2 ^ N.of_nat f ->
  exists bs, le_min_f (S f) v = Some bs /\ le_decode bs = v /\ bs <> [] /\ (v <> 0 -> last_n bs <> 0).
Proof.
  induction f as [|f IH]; intros v Hv.
  - cbn in Hv. assert (v = 0) by lia. subst v. exists [x00]. cbn. repeat split; congruence.
  - cbn [le_min_f]. destruct (v <? 256) eqn:E.
    + exists [n2b (N.land v 255)]. rewrite land255, N.mod_small by lia.
      repeat split; try congruence.
      * cbn [le_decode]. rewrite b2n_n2b by lia. lia.
      * intros Hnz. unfold last_n. cbn. rewrite b2n_n2b by lia. exact Hnz.
    + rewrite shiftr8.
      assert (Hq : v / 256 < 2 ^ N.of_nat f).
      { rewrite Nat2N.inj_succ, N.pow_succ_r' in Hv. lia. }
      destruct (IH (v / 256) Hq) as [r [Hr [Hd [Hne Hl]]]].
      change (le_min_f (S f) (v / 256)) with (le_min_f (S f) (v / 256)) in Hr.
      cbn [le_min_f] in Hr. cbn [le_min_f]. rewrite Hr.
      exists (n2b (N.land v 255) :: r). rewrite land255.
      repeat split; try congruence.
      * cbn [le_decode]. rewrite b2n_n2b by (apply N.mod_lt; lia). rewrite Hd. lia.
      * intros _. rewrite last_n_cons by exact Hne. apply Hl. lia.
Qed.

Lemma le_min_fuel_ok v : exists bs, le_min_f (S (N.to_nat (N.size v))) v = Some bs
  /\ le_decode bs = v /\ bs <> [] /\ (v <> 0 -> last_n bs <> 0).
Proof.
  apply le_min_f_spec. rewrite N2Nat.id. apply N.size_gt.
Qed.

(* ---- the decoder loop ---------------------------------------------------------------------- *)
Lemma be_accum_app v a c : be_accum v (a ++ c) = be_accum (be_accum v a) c.
Proof. revert v; induction a as [|x a IH]; intros v; cbn [be_accum app]; auto. Qed.

Lemma be_accum_rev body v :
  be_accum v (rev body) = le_decode body + 256 ^ N.of_nat (length body) * v.
Proof.
  induction body as [|b body IH]; cbn [rev be_accum le_decode length].
  - change (N.of_nat 0) with 0. rewrite N.pow_0_r. lia.
  - rewrite be_accum_app. cbn [be_accum]. rewrite IH, shiftl8.
    rewrite Nat2N.inj_succ, N.pow_succ_r'. ring.
Qed.

(* decode of body ++ [i], as a formula *)
Definition mag_of (body : bytes) (i : byte) : N :=
  le_decode body + 256 ^ N.of_nat (length body) * N.land (b2n i) 127.

Lemma decode_snoc body i m :
  int_from_script_bytes (body ++ [i]) m =
  (let v := N.land (b2n i) 127 in
   let bad := m && (v =? 0) && match rev body with [] => true | b1 :: _ => N.land (b2n b1) 128 =? 0 end in
   if bad then Raise E_SCRIPT
   else Ret (if 0 <? N.land (b2n i) 128 then (- Z.of_N (mag_of body i))%Z else Z.of_N (mag_of body i))).
Proof.
  unfold int_from_script_bytes, mag_of. rewrite rev_app_distr. cbn [rev app].
  rewrite be_accum_rev. reflexivity.
Qed.

(* ---- round trip: decode (encode v) = v ------------------------------------------------------ *)
Lemma int_roundtrip v m :
  exists bs, int_to_script_bytes v = Ret bs /\ int_from_script_bytes bs m = Ret v.
Proof.
  unfold int_to_script_bytes. destruct (v =? 0)%Z eqn:Ez.
  - exists []. split; [reflexivity|]. cbn. f_equal. lia.
  - set (mag := Z.to_N (Z.abs v)).
    destruct (le_min_fuel_ok mag) as [ba [Hba [Hd [Hne Hl]]]].
    rewrite Hba. assert (Hmag : mag <> 0) by (unfold mag; lia).
    specialize (Hl Hmag).
    destruct (exists_last Hne) as [body [l Hsplit]]. subst ba.
    rewrite last_n_snoc in *.
    destruct (128 <=? b2n l) eqn:E128.
    + (* a sign byte is appended *)
      eexists. split; [reflexivity|].
      rewrite decode_snoc. cbn zeta.
      rewrite rev_app_distr. cbn [rev app].
      pose proof (byte_ge128 l ltac:(lia)) as Hl128.
      destruct (v <? 0)%Z eqn:Eneg.
      * change (b2n x80) with 128. change (N.land 128 127) with 0. change (N.land 128 128) with 128.
        rewrite Hl128. replace (m && (0 =? 0) && (128 =? 0))%bool with false by (destruct m; reflexivity).
        cbn [N.ltb N.compare]. unfold mag_of. change (b2n x80) with 128. change (N.land 128 127) with 0.
        rewrite N.mul_0_r, N.add_0_r, Hd. f_equal. unfold mag. lia.
      * change (b2n x00) with 0. change (N.land 0 127) with 0. change (N.land 0 128) with 0.
        rewrite Hl128. replace (m && (0 =? 0) && (128 =? 0))%bool with false by (destruct m; reflexivity).
        cbn [N.ltb N.compare]. unfold mag_of. change (b2n x00) with 0. change (N.land 0 127) with 0.
        rewrite N.mul_0_r, N.add_0_r, Hd. f_equal. unfold mag. lia.
    + assert (Hlt : b2n l < 128) by lia.
      destruct (byte_lt128 l Hlt) as [H1 [H2 [H3 [H4 H5]]]].
      rewrite le_decode_snoc in Hd.
      destruct (v <? 0)%Z eqn:Eneg.
      * eexists. split; [reflexivity|].
        rewrite set_last_or_snoc, decode_snoc. cbn zeta.
        rewrite b2n_n2b by lia. rewrite H1, H2.
        replace (b2n l =? 0) with false by lia. rewrite andb_false_r. cbn [andb].
        cbn [N.ltb N.compare]. unfold mag_of. rewrite b2n_n2b by lia. rewrite H1, Hd.
        f_equal. unfold mag. lia.
      * eexists. split; [reflexivity|].
        rewrite decode_snoc. cbn zeta. rewrite H4, H5.
        replace (b2n l =? 0) with false by lia. rewrite andb_false_r. cbn [andb].
        cbn [N.ltb N.compare]. unfold mag_of. rewrite H5, Hd. f_equal. unfold mag. lia.
Qed.

(* ---- converse: what the strict decoder accepts is the encoder's image -------------------- *)
Lemma n2b_inj_small a b : a < 256 -> b2n b = a -> n2b a = b.
Proof. intros _ <-. apply n2b_b2n. Qed.

Lemma minimal_accept_is_image s v :
  int_from_script_bytes s true = Ret v -> int_to_script_bytes v = Ret s.
Proof.
  destruct (rev s) as [|i rest] eqn:Hrev.
  - assert (s = []) by (destruct s; [reflexivity | apply (f_equal (@length _)) in Hrev; rewrite rev_length in Hrev; cbn in Hrev; lia]).
    subst s. cbn. intros H. injection H as <-. reflexivity.
  - assert (Hs : s = rev rest ++ [i]).
    { rewrite <- (rev_involutive s), Hrev. reflexivity. }
    subst s. set (body := rev rest). rewrite decode_snoc. cbn zeta.
    destruct (byte_split i) as [Hsum [H128 Hlt127]].
    cbn [andb].
    destruct (N.land (b2n i) 127 =? 0) eqn:Ev.
    + (* masked top byte is zero: the byte below must carry bit 7 *)
      destruct (rev body) as [|b1 rest'] eqn:Hrb; [discriminate|].
      destruct (N.land (b2n b1) 128 =? 0) eqn:Eb1; [discriminate|].
      cbn [andb]. intros H. injection H as Hv.
      assert (Hbody : body = rev rest' ++ [b1]).
      { rewrite <- (rev_involutive body), Hrb. reflexivity. }
      assert (Hb1 : 128 <= b2n b1).
      { destruct (byte_split b1) as [Hs1 [Hc Hl1]]. destruct (N.ltb_spec (b2n b1) 128) as [Hlt|]; [|lia].
        destruct (byte_lt128 b1 Hlt) as [_ [_ [_ [Hz _]]]]. lia. }
      assert (Hmag : mag_of body i = le_decode body).
      { unfold mag_of. replace (N.land (b2n i) 127) with 0 by lia. lia. }
      assert (Hbne : body <> []) by (rewrite Hbody; destruct (rev rest'); discriminate).
      assert (Hlast : last_n body = b2n b1) by (rewrite Hbody; apply last_n_snoc).
      assert (Hpos : le_decode body <> 0).
      { pose proof (le_decode_lower body Hbne ltac:(lia)). pose proof (pow256_pos (N.of_nat (length body - 1))). lia. }
      unfold int_to_script_bytes.
      assert (Hvz : (v =? 0)%Z = false).
      { rewrite Hmag in Hv. destruct (0 <? N.land (b2n i) 128); lia. }
      rewrite Hvz.
      assert (Habs : Z.to_N (Z.abs v) = le_decode body).
      { rewrite Hmag in Hv. destruct (0 <? N.land (b2n i) 128); lia. }
      rewrite Habs.
      destruct (le_min_fuel_ok (le_decode body)) as [ba [Hba [Hd [Hne Hl]]]].
      rewrite Hba.
      assert (ba = body) by (apply le_canonical_unique; auto; lia). subst ba.
      rewrite Hlast. replace (128 <=? b2n b1) with true by lia.
      f_equal. f_equal.
      assert (Hneg : (v <? 0)%Z = (0 <? N.land (b2n i) 128)).
      { rewrite Hmag in Hv. destruct (0 <? N.land (b2n i) 128); lia. }
      rewrite Hneg.
      destruct H128 as [Hz|Ho]; rewrite ?Hz, ?Ho; cbn [N.ltb N.compare]; f_equal;
        apply b2n_inj; [change (b2n x00) with 0 | change (b2n x80) with 128]; lia.
    + (* masked top byte non-zero *)
      intros H. injection H as Hv.
      assert (Hvpos : N.land (b2n i) 127 <> 0) by lia.
      set (top := n2b (N.land (b2n i) 127)).
      assert (Htop : b2n top = N.land (b2n i) 127) by (unfold top; apply b2n_n2b; lia).
      assert (Hmag : mag_of body i = le_decode (body ++ [top])).
      { rewrite le_decode_snoc, Htop. reflexivity. }
      assert (Hpos : le_decode (body ++ [top]) <> 0).
      { pose proof (le_decode_lower (body ++ [top]) ltac:(destruct body; discriminate)
                    ltac:(rewrite last_n_snoc; lia)).
        pose proof (pow256_pos (N.of_nat (length (body ++ [top]) - 1))). lia. }
      unfold int_to_script_bytes.
      assert (Hvz : (v =? 0)%Z = false).
      { rewrite Hmag in Hv. destruct (0 <? N.land (b2n i) 128); lia. }
      rewrite Hvz.
      assert (Habs : Z.to_N (Z.abs v) = le_decode (body ++ [top])).
      { rewrite Hmag in Hv. destruct (0 <? N.land (b2n i) 128); lia. }
      rewrite Habs.
      destruct (le_min_fuel_ok (le_decode (body ++ [top]))) as [ba [Hba [Hd [Hne Hl]]]].
      rewrite Hba.
      assert (ba = body ++ [top]).
      { apply le_canonical_unique; auto.
        - destruct body; discriminate.
        - rewrite last_n_snoc. lia. }
      subst ba. rewrite last_n_snoc, Htop.
      replace (128 <=? N.land (b2n i) 127) with false by lia.
      assert (Hneg : (v <? 0)%Z = (0 <? N.land (b2n i) 128)).
      { rewrite Hmag in Hv. destruct (0 <? N.land (b2n i) 128); lia. }
      rewrite Hneg.
      destruct H128 as [Hz|Ho].
      * rewrite Hz. cbn [N.ltb N.compare]. f_equal. f_equal. f_equal.
        unfold top. apply n2b_inj_small; lia.
      * rewrite Ho. cbn [N.ltb N.compare]. f_equal.
        rewrite set_last_or_snoc. f_equal. f_equal.
        rewrite Htop, byte_lor_masked. apply n2b_inj_small; lia.
Qed.

Lemma int_minimal_iff s v :
  int_from_script_bytes s true = Ret v <-> int_to_script_bytes v = Ret s.
Proof.
  split; [apply minimal_accept_is_image|].
  intros H. destruct (int_roundtrip v true) as [bs [H1 H2]]. congruence.
Qed.

(* the encoder is total and injective *)
Lemma int_encode_injective v w s : int_to_script_bytes v = Ret s -> int_to_script_bytes w = Ret s -> v = w.
Proof.
  intros Hv Hw. apply int_minimal_iff in Hv. apply int_minimal_iff in Hw. congruence.
Qed.
