(* Proofs/ComposeEcC05.v — composition C05 x C01 x C02 x C10: the abstract ECDSA interface of Props/C05.v
       verifies : SEC key -> digest -> DER signature -> bool      sign : secret -> digest -> DER signature
       pub_of   : secret -> compressed? -> SEC key
   INSTANTIATED by the finished models of what pycoin runs on secp256k1, and its interface hypotheses PROVED from the
   neighbours' theorems (Props/C01.v, Props/C01compose.v `C01c_secp256k1_*_unconditional`, Props/C10.v) on the domain
   where they are true.

     bz b              int.from_bytes(b, "big")   — secrets and digests travel as big-endian byte strings (harness/c05.py:
                       32 bytes each; the instance does not care about the length, only about the integer)
     ec_pub_of se c    public_pair_to_sec(se * G, compressed=c)                           [C02 multiply, C10 Model/Sec.v]
     ec_sign se d      signing_solver: r, s = generator.sign(se, d)  (RFC 6979 nonce: rfc6979.deterministic_generate_k with
                       HMAC-SHA256 = the Section variable `hmac`, digest size 32); if s + s > n: s = n - s;
                       der.sigencode_der(r, s)                                              [C01 Model/Ecdsa.v, Rfc6979.v, C10 Der.v]
     ec_verifies pk d sig   checksigops / _find_signatures: der.sigdecode_der(sig, use_broken_open_ssl_mechanism=True),
                       sec_to_public_pair(pk, generator, strict), generator.verify(pair, d, (r, s)); every exception the
                       callers catch (UnexpectedDER, ValueError, EncodingError, NoSuchPointError) is `false`
     group             E[n] of C02's curve model with C02's arithmetic (Proofs/ComposeEcInst.v), generator = the shipped
                       secp256k1 generator with ANY blinding factor.  M1, M2, M4, n*G = O are theorems: nothing is assumed.
   `ec_*_out` are the outcome-valued models (what is raised where); `ec_sign` / `ec_pub_of` / `ec_verifies` are their
   totalisations (empty string / false when the code raises), because Model/Solve.v takes total functions.

   FINDINGS about the hypotheses of Props/C05.v (all three are stated `forall se d`):
   * sign_verifies / sign_canonical are FALSE for the real instance at the zero digest (sign raises ValueError, verify
     answers False: `ec_zero_digest`), false when the signing loops do not return (fuel; C01: no theorem can promise that
     for an arbitrary hmac), and sign_verifies / pub_wellformed are false for a secret that is a multiple of n (se * G is
     the point at infinity, which has no SEC encoding: `ec_pub_zero`).
   * They are TRUE on: secret in [1, n-1] (what Key(secret_exponent=..) accepts, C10_key_range) and `ec_signs se d`
     (generator.sign returns).  For a secret in [0, n-1] and a digest 0 < z < 2^256, `ec_signs` fails only by
     non-termination (`ec_signs_or_diverges`, from C01c_secp256k1_sign_never_raises_unconditional).
   Proofs/ComposeRelC05.v shows that C05's conclusions need the hypotheses on that domain only.

   The one place where the instance answers differently from Python: a public key that is ON the curve but OUTSIDE E[n]
   is treated like an off-curve key (`ec_key` = None, verify raises NoSuchPointError -> false).  secp256k1 has cofactor 1,
   so no such point exists; cofactor 1 is not proved here (Props/C01compose.v) and no theorem depends on it. *)
From Coq Require Import ZArith List Lia Znumtheory Bool.
From PV Require Import Base.Bytes Base.Outcome Gen.GenCurves Gen.GenCurveC10 Gen.GenSolveC05.
From PV Require Import Model.Curve Model.Ecdsa Model.Rfc6979 Model.Der Model.Sec Model.Solve.
From PV Require Import Spec.Weierstrass Spec.EcdsaSpec Spec.DerStrictSpec Spec.Templates Spec.VMcore.
From PV Require Import Proofs.DerP Proofs.SecP Proofs.ComposeTemplatesEnc Proofs.EcdsaP.
From PV Require Import Proofs.ComposeEcInst Proofs.ComposeEcC01 Proofs.ComposeEcShipped Proofs.ComposeEcC09.
From PV Require Import Proofs.SolveP Proofs.ComposeRelC05.
From PV Require Props.C01 Props.C10 Props.C01compose.
From Coq Require Import ZifyBool ZifyNat ZifyN.
Import ListNotations.
Local Open Scope Z_scope.
Local Open Scope outcome_scope.

(* ================================================================================================================ *)
(* A. DER: C10's encoder output in terms of the predicates of Spec/Templates.v                                      *)
Lemma bip66_strict sig : bip66_valid sig = strict_der sig.
Proof. rewrite <- strict_der_core. reflexivity. Qed.

Lemma content_len_33 v : 1 <= v < 2 ^ 256 -> (1 <= length (der_content (Z.to_N v)) <= 33)%nat.
Proof.
  intros Hv. split; [apply der_content_length|].
  apply (der_content_length_bound _ 32).
  assert (Z.to_N v < Z.to_N (2 ^ 256))%N by lia.
  change (Z.to_N (2 ^ 256)) with (256 ^ N.of_nat 32)%N in H.
  pose proof (pow256_pos (N.of_nat 32)). lia.
Qed.

(* the encoder's output for 1 <= r, s < 2^256, byte for byte *)
Lemma sigencode_explicit r s : 1 <= r < 2 ^ 256 -> 1 <= s < 2 ^ 256 ->
  let cr := der_content (Z.to_N r) in let cs := der_content (Z.to_N s) in
  sigencode_der r s = Ret (x30 :: n2b (N.of_nat (4 + length cr + length cs)) :: x02 :: n2b (N.of_nat (length cr)) :: cr
                             ++ x02 :: n2b (N.of_nat (length cs)) :: cs).
Proof.
  intros Hr Hs cr cs.
  assert (Hx : der_expressible r s) by (apply small_expressible; lia).
  destruct (sigencode_layout r s ltac:(lia) ltac:(lia) Hx) as (er & es & el & Er & Es & Eel & Esig & _).
  pose proof (content_len_33 r Hr) as Hlr. pose proof (content_len_33 s Hs) as Hls. fold cr in Hlr. fold cs in Hls.
  rewrite encode_integer_short in Er by (fold cr; lia). rewrite encode_integer_short in Es by (fold cs; lia).
  injection Er as <-. injection Es as <-. fold cr cs in Eel, Esig.
  rewrite encode_length_short in Eel by (rewrite app_length; cbn [length]; lia).
  injection Eel as <-. rewrite Esig. f_equal. cbn [app]. do 2 f_equal.
  rewrite app_length. cbn [length]. f_equal. lia.
Qed.

(* ... is strictly encoded (BIP66) whatever hash-type byte follows, and Templates' r / s readers find r and s back *)
Lemma der_values r s t : 1 <= r < 2 ^ 256 -> 1 <= s < 2 ^ 256 ->
  exists sig, sigencode_der r s = Ret sig /\ strict_der (sig ++ [t]) = true /\
    der_r_value (sig ++ [t]) = Z.to_N r /\ der_s_value (sig ++ [t]) = Z.to_N s.
Proof.
  intros Hr Hs. pose proof (sigencode_explicit r s Hr Hs) as E. cbv zeta in E.
  destruct (Props.C10.C10_der_encoder_output_is_bip66 r s t Hr Hs) as (sig & E1 & E2). rewrite E in E1. injection E1 as <-.
  eexists. split; [exact E|]. split; [rewrite <- bip66_strict; exact E2|].
  set (cr := der_content (Z.to_N r)) in *. set (cs := der_content (Z.to_N s)) in *.
  pose proof (content_len_33 r Hr) as Hlr. pose proof (content_len_33 s Hs) as Hls. fold cr in Hlr. fold cs in Hls.
  assert (E3 : nthn 3 ((x30 :: n2b (N.of_nat (4 + length cr + length cs)) :: x02 :: n2b (N.of_nat (length cr)) :: cr
                             ++ x02 :: n2b (N.of_nat (length cs)) :: cs) ++ [t]) = N.of_nat (length cr)).
  { unfold nthn. cbn [app nth]. apply b2n_n2b. lia. }
  unfold der_r_value, der_s_value. rewrite E3, Nat2N.id.
  assert (E5 : nthn (5 + length cr) ((x30 :: n2b (N.of_nat (4 + length cr + length cs)) :: x02 :: n2b (N.of_nat (length cr)) :: cr
                             ++ x02 :: n2b (N.of_nat (length cs)) :: cs) ++ [t]) = N.of_nat (length cs)).
  { unfold nthn. cbn [app Nat.add nth]. rewrite <- app_assoc. rewrite app_nth2 by lia.
    replace (S (length cr) - length cr)%nat with 1%nat by lia. cbn [app nth]. apply b2n_n2b. lia. }
  rewrite E5, Nat2N.id. split.
  - cbn [app skipn]. rewrite <- app_assoc. rewrite firstn_app, Nat.sub_diag, firstn_all. cbn [firstn]. rewrite app_nil_r.
    apply der_content_decode.
  - replace (length cr + 6)%nat with (4 + (length cr + 2))%nat by lia. cbn [app]. rewrite <- app_assoc.
    change (4 + (length cr + 2))%nat with (S (S (S (S (length cr + 2))))). cbn [skipn].
    rewrite skipn_app. rewrite skipn_all2 by lia. cbn [app].
    replace (length cr + 2 - length cr)%nat with 2%nat by lia. cbn [app skipn].
    rewrite firstn_app, Nat.sub_diag, firstn_all. cbn [firstn]. rewrite app_nil_r.
    apply der_content_decode.
Qed.

Lemma order_is_k1 : secp256k1_order = Z.to_N secp256k1_n.
Proof. reflexivity. Qed.

Lemma k1_n_lt : secp256k1_n < 2 ^ 256.
Proof. reflexivity. Qed.

(* ================================================================================================================ *)
(* B. the instance                                                                                                    *)
Definition bz (b : bytes) : Z := Z.of_N (be_decode b).

(* NOTE for maintainers: never write `match <term containing eG / esmul> with` in a Definition here: the elaborator
   head-normalises the scrutinee, which unfolds the carrier test n*G = O of Proofs/ComposeEcInst.v (n additions). The
   eliminators below are applied as functions instead. *)
Definition sec_of_coords (o : option (Z * Z)) (compressed : bool) : outcome bytes :=
  match o with
  | Some pr => Sec.public_pair_to_sec pr compressed
  | None => Raise E_TYPE                           (* to_bytes_32(None) *)
  end.
Definition ret_or {A} (dflt : A) (o : outcome A) : A := match o with Ret a => a | _ => dflt end.

Definition secret_ok (se : bytes) : Prop := 1 <= bz se < secp256k1_n.
Definition digest_ok (d : bytes) : Prop := 0 < bz d < 2 ^ 256.

Section EcC05.
Variable blind : Z.                               (* the generator's blinding factor: any *)
Variable hmac : bytes -> bytes -> bytes.          (* hmac.new(k, m, hashlib.sha256).digest() *)
Variable kfuel fuel : nat.                        (* bounds on the two `while` loops of signing (RFC 6979 retry; k += 1) *)
Variable strict : bool.                           (* sec_to_public_pair's flag: True in _find_signatures, STRICTENC in checksig *)

Local Notation c := secp256k1_curve.
Local Notation g := (secp256k1_gen blind).
Local Notation G := (eG g).
Local Notation n := secp256k1_n.
Local Notation e_verify := (Ecdsa.verify (ept c) (eadd c) (esmul c) G n ecoords).
Local Notation e_sign_with_recid := (Ecdsa.sign_with_recid (ept c) (esmul c) G n ecoords).
Local Notation e_sign := (Ecdsa.sign (ept c) (esmul c) G n ecoords).
Local Notation gen_k := (deterministic_generate_k hmac 32 kfuel).

(* Key(secret_exponent=se).public_pair() = se * G, then public_pair_to_sec; infinity has no coordinates (TypeError) *)
Definition ec_pub_out (se : bytes) (compressed : bool) : outcome bytes :=
  sec_of_coords (ecoords (esmul c (bz se) G)) compressed.
Definition ec_pub_of (se : bytes) (compressed : bool) : bytes := ret_or [] (ec_pub_out se compressed).

(* signing_solver: generator.sign, low-S normalisation, der.sigencode_der *)
Definition ec_sign_out (se d : bytes) : outcome bytes :=
  do '(r, s) <- e_sign gen_k fuel (bz se) (bz d);
  sigencode_der r (if n <? s + s then n - s else s).
Definition ec_sign (se d : bytes) : bytes := ret_or [] (ec_sign_out se d).
Definition ec_signs (se d : bytes) : Prop := exists sig, ec_sign_out se d = Ret sig.

(* self.Point(x, y): a carrier element, or NoSuchPointError *)
Definition ec_key (pr : Z * Z) : option (ept c) :=
  if inb c (Some pr) then Some (mk c (Some pr)) else None.

Definition ec_verify_out (pk d sig : bytes) : outcome bool :=
  do '(r, s) <- sigdecode_der sig true;
  do pr <- Sec.sec_to_public_pair secp256k1_p secp256k1_a secp256k1_b pk strict;
  e_verify (ec_key pr) (bz d) r s.
Definition ec_verifies (pk d sig : bytes) : bool := ret_or false (ec_verify_out pk d sig).

(* ---- the neighbours' theorems at this instance -------------------------------------------------------------- *)
Let laws := Props.C01compose.C01c_secp256k1_group_laws_unconditional blind.
Let sv := proj2 (Props.C01compose.C01c_secp256k1_sign_verifies_unconditional blind gen_k).

(* what a returned signature is *)
Lemma ec_sign_spec se d sig : ec_sign_out se d = Ret sig ->
  exists r s, 1 <= r < n /\ 1 <= s /\ 2 * s <= n /\ sigencode_der r s = Ret sig /\
              e_verify (Some (esmul c (bz se) G)) (bz d) r s = Ret true.
Proof.
  unfold ec_sign_out, Ecdsa.sign. intros H.
  destruct (e_sign_with_recid gen_k fuel (bz se) (bz d)) as [[[r s] recid]| |] eqn:E; cbn [bind] in H; try discriminate.
  destruct (sv fuel (bz se) (bz d) r s recid E) as (Hr & Hs & _ & Hv).
  destruct (n <? s + s) eqn:Ehi.
  - exists r, (n - s). repeat split; try lia; [exact H|].
    rewrite (Props.C01.C01_verify_low_s_symmetry (ept c) (eadd c) (eneg c) (eO c) (esmul c) G n ecoords laws secp256k1_M2). exact Hv.
  - exists r, s. repeat split; try lia; [exact H | exact Hv].
Qed.

(* ---- public keys ------------------------------------------------------------------------------------------------ *)
Lemma ec_point_finite se : secret_ok se -> esmul c (bz se) G <> eO c.
Proof.
  intros [H1 H2] E. apply (k1_c09_smul_zero blind) in E. change (cn c) with n in E. rewrite Z.mod_small in E by lia. lia.
Qed.

Lemma ec_pub_spec se : secret_ok se ->
  exists x y, ecoords (esmul c (bz se) G) = Some (x, y) /\ 0 <= x < secp256k1_p /\ 0 <= y < secp256k1_p /\
    Sec.contains_point secp256k1_p secp256k1_a secp256k1_b x y = true /\
    forall comp, exists sec, Sec.public_pair_to_sec (x, y) comp = Ret sec /\ ec_pub_of se comp = sec /\
      length sec = (if comp then 33 else 65)%nat.
Proof.
  intros Hse. pose proof (ec_point_finite se Hse) as HP.
  destruct (ec09_finite g secp256k1_M1 secp256k1_M4 (secp256k1_side blind) (esmul c (bz se) G) HP) as (x & y & E & Hx & Hy & Hc).
  assert (Hx' : 0 <= x < secp256k1_p) by exact Hx. assert (Hy' : 0 < y < secp256k1_p) by exact Hy.
  assert (E' : @eval c (esmul c (bz se) G) = Some (x, y)) by exact E. clear E. rename E' into E.
  assert (Hy0 : 0 <= y < secp256k1_p) by (clear - Hy'; lia).
  exists x, y. unfold ecoords. split; [exact E|]. split; [exact Hx'|]. split; [exact Hy0|].
  split; [exact Hc|]. intros comp.
  destruct (Props.C10.C10_sec_roundtrip_secp256k1_unconditional x y comp Hx' Hy0 Hc) as (sec & Es & L & _).
  exists sec. split; [exact Es|]. split; [|exact L].
  unfold ec_pub_of, ec_pub_out, ecoords. rewrite E. cbn [sec_of_coords]. rewrite Es. reflexivity.
Qed.

Lemma ec_pub_wellformed se : secret_ok se ->
  is_compressed (ec_pub_of se true) = true /\ is_uncompressed (ec_pub_of se false) = true.
Proof.
  intros Hse. destruct (ec_pub_spec se Hse) as (x & y & _ & Hx & _ & _ & Hs).
  assert (Hx256 : 0 <= x < 2 ^ 256) by (pose proof (proj2 secp256k1_psize); change (cp c) with secp256k1_p in *; lia).
  split.
  - destruct (Hs true) as (sec & Es & -> & L). unfold is_compressed. rewrite L. cbn [Nat.eqb andb].
    unfold Sec.public_pair_to_sec in Es. rewrite to_bytes_32_ok in Es by exact Hx256. cbn [bind] in Es. injection Es as <-.
    unfold nthn. cbn [nth]. rewrite land1. destruct (Z.odd y); vm_compute; reflexivity.
  - destruct (Hs false) as (sec & Es & -> & L). unfold is_uncompressed. rewrite L. cbn [Nat.eqb andb].
    unfold Sec.public_pair_to_sec in Es. rewrite to_bytes_32_ok in Es by exact Hx256. cbn [bind] in Es.
    destruct (Sec.to_bytes_32 y); cbn [bind] in Es; try discriminate. injection Es as <-. reflexivity.
Qed.

(* the key of the instance decodes back to the point, in both decoder modes, and is a carrier element.
   (Proof hygiene: `eval X` is a match on X; a conversion that makes the kernel head-normalise `eval (esmul ..)` unfolds the
   carrier test n*G = O.  The steps are kept in separate lemmas whose terms line up syntactically.) *)
Lemma ec_coords_in se x y : @eval c (esmul c (bz se) G) = Some (x, y) -> inb c (Some (x, y)) = true.
Proof. intros E. rewrite <- E. exact (proj2_sig (esmul c (bz se) G)). Qed.
Lemma ec_coords_mk se x y : @eval c (esmul c (bz se) G) = Some (x, y) -> mk c (Some (x, y)) = esmul c (bz se) G.
Proof. intros E. apply ept_eq. rewrite mk_val_b by exact (ec_coords_in se x y E). symmetry. exact E. Qed.
Lemma ec_coords_key se x y : @eval c (esmul c (bz se) G) = Some (x, y) -> ec_key (x, y) = Some (esmul c (bz se) G).
Proof. intros E. unfold ec_key. rewrite (ec_coords_in se x y E). rewrite (ec_coords_mk se x y E). reflexivity. Qed.

Lemma sec_decode_k1 x y comp : 0 <= x < secp256k1_p -> 0 <= y < secp256k1_p ->
  Sec.contains_point secp256k1_p secp256k1_a secp256k1_b x y = true ->
  exists sec, Sec.public_pair_to_sec (x, y) comp = Ret sec /\
              Sec.sec_to_public_pair secp256k1_p secp256k1_a secp256k1_b sec strict = Ret (x, y).
Proof. exact (Props.C10.C10_sec_decode_roundtrip_secp256k1 x y comp strict). Qed.

Lemma ec_pub_decodes se comp : secret_ok se ->
  exists pr, Sec.sec_to_public_pair secp256k1_p secp256k1_a secp256k1_b (ec_pub_of se comp) strict = Ret pr /\
             ec_key pr = Some (esmul c (bz se) G).
Proof.
  intros Hse. destruct (ec_pub_spec se Hse) as (x & y & E & Hx & Hy & Hc & Hs).
  destruct (sec_decode_k1 x y comp Hx Hy Hc) as (sec & Es & Ed).
  destruct (Hs comp) as (sec' & Es' & Ep & _).
  exists (x, y). split; [rewrite Ep; congruence|]. exact (ec_coords_key se x y E).
Qed.

(* ---- the three interface hypotheses of Props/C05.v, on their true domain ------------------------------------------ *)
Theorem ec_sign_verifies se comp d : secret_ok se -> ec_signs se d ->
  ec_verifies (ec_pub_of se comp) d (ec_sign se d) = true.
Proof.
  intros Hse (sig & Hsig). unfold ec_sign. rewrite Hsig.
  destruct (ec_sign_spec se d sig Hsig) as (r & s & Hr & Hs1 & Hs2 & Eenc & Hv).
  destruct (Props.C10.C10_der_roundtrip r s true ltac:(lia) ltac:(lia)) as (sig' & E1 & E2).
  { apply small_expressible; pose proof k1_n_lt; lia. }
  rewrite Eenc in E1. injection E1 as <-.
  destruct (ec_pub_decodes se comp Hse) as (pr & Ed & Ek).
  unfold ec_verifies, ec_verify_out. rewrite E2. cbn [bind]. rewrite Ed. cbn [bind]. rewrite Ek, Hv. reflexivity.
Qed.

Theorem ec_sign_canonical se d t : ec_signs se d ->
  strict_der (ec_sign se d ++ [t]) = true /\ low_s (ec_sign se d ++ [t]) = true.
Proof.
  intros (sig & Hsig). unfold ec_sign. rewrite Hsig.
  destruct (ec_sign_spec se d sig Hsig) as (r & s & Hr & Hs1 & Hs2 & Eenc & _).
  pose proof k1_n_lt as Hn.
  destruct (der_values r s t ltac:(lia) ltac:(lia)) as (sig' & E1 & Hstrict & Hrv & Hsv).
  rewrite Eenc in E1. injection E1 as <-.
  split; [exact Hstrict|]. unfold low_s. rewrite Hsv, order_is_k1.
  replace (2 * Z.to_N s <=? Z.to_N n)%N with true by lia. now rewrite orb_true_r.
Qed.

(* ---- where the unrestricted hypotheses of Props/C05.v fail ---------------------------------------------------------- *)
(* the zero digest: sign raises ValueError (Solver.sign catches it and leaves the input unsigned), verify answers False *)
Theorem ec_zero_digest se d : bz d = 0 ->
  ec_sign_out se d = Raise E_VALUE /\ forall pk sig, ec_verifies pk d sig = false.
Proof.
  intros Hz. split.
  - unfold ec_sign_out, Ecdsa.sign, Ecdsa.sign_with_recid. rewrite Hz. reflexivity.
  - intros pk sig. unfold ec_verifies, ec_verify_out.
    destruct (sigdecode_der sig true) as [[r s]| |]; cbn [bind]; try reflexivity.
    destruct (Sec.sec_to_public_pair secp256k1_p secp256k1_a secp256k1_b pk strict) as [pr| |]; cbn [bind]; try reflexivity.
    unfold Ecdsa.verify. rewrite Hz. reflexivity.
Qed.

(* a secret that is a multiple of n has no public key *)
Theorem ec_pub_zero se comp : bz se mod n = 0 -> ec_pub_out se comp = Raise E_TYPE /\ ec_pub_of se comp = [].
Proof.
  intros Hz. apply (k1_c09_smul_zero blind) in Hz.
  unfold ec_pub_of, ec_pub_out. rewrite Hz. split; reflexivity.
Qed.

(* in range, signing can only fail by not terminating (C01: never raises); then ec_signs holds as soon as it returns *)
Theorem ec_signs_or_diverges se d : 0 <= bz se < n -> digest_ok d -> ec_signs se d \/ ec_sign_out se d = OutOfFuel.
Proof.
  intros Hse Hd. unfold ec_signs.
  destruct (ec_sign_out se d) as [sig| e |] eqn:E; [left; eauto | exfalso | right; reflexivity].
  unfold ec_sign_out, Ecdsa.sign in E.
  destruct (e_sign_with_recid gen_k fuel (bz se) (bz d)) as [[[r s] recid]| e' |] eqn:Es; cbn [bind] in E; try discriminate.
  - destruct (sv fuel (bz se) (bz d) r s recid Es) as (Hr & Hs & _).
    pose proof k1_n_lt as Hn.
    destruct (n <? s + s) eqn:Ehi.
    + destruct (Props.C10.C10_der_encoder_output_is_bip66 r (n - s) x01 ltac:(lia) ltac:(lia)) as (sig & E1 & _). congruence.
    + destruct (Props.C10.C10_der_encoder_output_is_bip66 r s x01 ltac:(lia) ltac:(lia)) as (sig & E1 & _). congruence.
  - exact (Props.C01compose.C01c_secp256k1_sign_never_raises_unconditional blind hmac 32 kfuel fuel (bz se) (bz d) e' Hse Hd Es).
Qed.
End EcC05.
