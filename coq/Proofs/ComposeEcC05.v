(* Proofs/ComposeEcC05.v — composition C05 x C01 x C02 x C10: the abstract ECDSA interface of Props/C05.v
       verifies : SEC key -> digest -> DER signature -> bool      sign : secret -> digest -> DER signature
       pub_of   : secret -> compressed? -> SEC key
   INSTANTIATED by the finished models of what pycoin runs on secp256k1, and its interface hypotheses PROVED from the
   neighbours' theorems (Props/C01.v, Props/C01compose.v `C01c_secp256k1_*_unconditional`, Props/C10.v) on the domain
   where they are true.

     bz b              int.from_bytes(b, "big")   — secrets and digests travel as big-endian byte strings (harness/c05.py:
                       32 bytes each; the instance does not care about the length, only about the integer)
     ec_pub_of se c    public_pair_to_sec(se * G, compressed=c)                           [C02 multiply, C10 Model/Sec.v]
     ec_sign se d      signing_solver: r, s = generator.sign(se, d)  (RFC 6979 nonce: rfc6979.deterministic_generate_k with
                       HMAC-SHA256 = the Section variable `hmac`, digest size 32); if s + s > n: s = n - s;
                       der.sigencode_der(r, s)                                              [C01 Model/Ecdsa.v, Rfc6979.v, C10 Der.v]
     ec_verifies pk d sig   checksigops / _find_signatures: der.sigdecode_der(sig, use_broken_open_ssl_mechanism=True),
                       sec_to_public_pair(pk, generator, strict), generator.verify(pair, d, (r, s)); every exception the
                       callers catch (UnexpectedDER, ValueError, EncodingError, NoSuchPointError) is `false`
     group             E[n] of C02's curve model with C02's arithmetic (Proofs/ComposeEcInst.v), generator = the shipped
                       secp256k1 generator with ANY blinding factor.  M1, M2, M4, n*G = O are theorems: nothing is assumed.
   `ec_*_out` are the outcome-valued models (what is raised where); `ec_sign` / `ec_pub_of` / `ec_verifies` are their
   totalisations (empty string / false when the code raises), because Model/Solve.v takes total functions.

   FINDINGS about the hypotheses of Props/C05.v (all three are stated `forall se d`):
   * sign_verifies / sign_canonical are FALSE for the real instance at the zero digest (sign raises ValueError, verify
     answers False: `ec_zero_digest`), false when the signing loops do not return (fuel; C01: no theorem can promise that
     for an arbitrary hmac), and sign_verifies / pub_wellformed are false for a secret that is a multiple of n (se * G is
     the point at infinity, which has no SEC encoding: `ec_pub_zero`).
   * They are TRUE on: secret in [1, n-1] (what Key(secret_exponent=..) accepts, C10_key_range) and `ec_signs se d`
     (generator.sign returns).  For a secret in [0, n-1] and a digest 0 < z < 2^256, `ec_signs` fails only by
     non-termination (`ec_signs_or_diverges`, from C01c_secp256k1_sign_never_raises_unconditional).
   Proofs/ComposeRelC05.v shows that C05's conclusions need the hypotheses on that domain only.

   The one place where the instance answers differently from Python: a public key that is ON the curve but OUTSIDE E[n]
   is treated like an off-curve key (`ec_key` = None, verify raises NoSuchPointError -> false).  secp256k1 has cofactor 1,
   so no such point exists; cofactor 1 is not proved here (Props/C01compose.v) and no theorem depends on it. *)
From Coq Require Import ZArith List Lia Znumtheory Bool Zpow_facts.
From PV Require Import Base.Bytes Base.Outcome Gen.GenCurves Gen.GenCurveC10 Gen.GenSolveC05.
From PV Require Import Model.Curve Model.Ecdsa Model.Rfc6979 Model.Der Model.Sec Model.Solve.
From PV Require Import Spec.Weierstrass Spec.EcdsaSpec Spec.Rfc6979Spec Spec.DerStrictSpec Spec.Templates Spec.VMcore.
From PV Require Import Proofs.DerP Proofs.SecP Proofs.ComposeTemplatesEnc Proofs.EcdsaP Proofs.CurveSqrtP Proofs.FermatC10.
From PV Require Import Proofs.ComposeEcInst Proofs.ComposeEcC01 Proofs.ComposeEcShipped Proofs.ComposeEcC09.
From PV Require Import Proofs.SolveP Proofs.ComposeRelC05.
From PV Require Props.C01 Props.C10 Props.C01compose.
From Coq Require Import ZifyBool ZifyNat ZifyN.
Import ListNotations.
Local Open Scope Z_scope.
Local Open Scope outcome_scope.

(* ================================================================================================================ *)
(* A. DER: C10's encoder output in terms of the predicates of Spec/Templates.v                                      *)
Lemma bip66_strict sig : bip66_valid sig = strict_der sig.
Proof. rewrite <- strict_der_core. reflexivity. Qed.

Lemma content_len_33 v : 1 <= v < 2 ^ 256 -> (1 <= length (der_content (Z.to_N v)) <= 33)%nat.
Proof.
  intros Hv. split; [apply der_content_length|].
  apply (der_content_length_bound _ 32).
  assert (Z.to_N v < Z.to_N (2 ^ 256))%N by lia.
  change (Z.to_N (2 ^ 256)) with (256 ^ N.of_nat 32)%N in H.
  pose proof (pow256_pos (N.of_nat 32)). lia.
Qed.

(* the encoder's output for 1 <= r, s < 2^256, byte for byte *)
Lemma sigencode_explicit r s : 1 <= r < 2 ^ 256 -> 1 <= s < 2 ^ 256 ->
  let cr := der_content (Z.to_N r) in let cs := der_content (Z.to_N s) in
  sigencode_der r s = Ret (x30 :: n2b (N.of_nat (4 + length cr + length cs)) :: x02 :: n2b (N.of_nat (length cr)) :: cr
                             ++ x02 :: n2b (N.of_nat (length cs)) :: cs).
Proof.
  intros Hr Hs cr cs.
  assert (Hx : der_expressible r s) by (apply small_expressible; lia).
  destruct (sigencode_layout r s ltac:(lia) ltac:(lia) Hx) as (er & es & el & Er & Es & Eel & Esig & _).
  pose proof (content_len_33 r Hr) as Hlr. pose proof (content_len_33 s Hs) as Hls. fold cr in Hlr. fold cs in Hls.
  rewrite encode_integer_short in Er by (fold cr; lia). rewrite encode_integer_short in Es by (fold cs; lia).
  injection Er as <-. injection Es as <-. fold cr cs in Eel, Esig.
  rewrite encode_length_short in Eel by (rewrite app_length; cbn [length]; lia).
  injection Eel as <-. rewrite Esig. f_equal. cbn [app]. do 2 f_equal.
  rewrite app_length. cbn [length]. f_equal. lia.
Qed.

(* ... is strictly encoded (BIP66) whatever hash-type byte follows, and Templates' r / s readers find r and s back *)
Lemma der_values r s t : 1 <= r < 2 ^ 256 -> 1 <= s < 2 ^ 256 ->
  exists sig, sigencode_der r s = Ret sig /\ strict_der (sig ++ [t]) = true /\
    der_r_value (sig ++ [t]) = Z.to_N r /\ der_s_value (sig ++ [t]) = Z.to_N s.
Proof.
  intros Hr Hs. pose proof (sigencode_explicit r s Hr Hs) as E. cbv zeta in E.
  destruct (Props.C10.C10_der_encoder_output_is_bip66 r s t Hr Hs) as (sig & E1 & E2). rewrite E in E1. injection E1 as <-.
  eexists. split; [exact E|]. split; [rewrite <- bip66_strict; exact E2|].
  set (cr := der_content (Z.to_N r)) in *. set (cs := der_content (Z.to_N s)) in *.
  pose proof (content_len_33 r Hr) as Hlr. pose proof (content_len_33 s Hs) as Hls. fold cr in Hlr. fold cs in Hls.
  assert (E3 : nthn 3 ((x30 :: n2b (N.of_nat (4 + length cr + length cs)) :: x02 :: n2b (N.of_nat (length cr)) :: cr
                             ++ x02 :: n2b (N.of_nat (length cs)) :: cs) ++ [t]) = N.of_nat (length cr)).
  { unfold nthn. cbn [app nth]. apply b2n_n2b. lia. }
  unfold der_r_value, der_s_value. rewrite E3, Nat2N.id.
  assert (E5 : nthn (5 + length cr) ((x30 :: n2b (N.of_nat (4 + length cr + length cs)) :: x02 :: n2b (N.of_nat (length cr)) :: cr
                             ++ x02 :: n2b (N.of_nat (length cs)) :: cs) ++ [t]) = N.of_nat (length cs)).
  { unfold nthn. cbn [app Nat.add nth]. rewrite <- app_assoc. rewrite app_nth2 by lia.
    replace (S (length cr) - length cr)%nat with 1%nat by lia. cbn [app nth]. apply b2n_n2b. lia. }
  rewrite E5, Nat2N.id. split.
  - cbn [app skipn]. rewrite <- app_assoc. rewrite firstn_app, Nat.sub_diag, firstn_all. cbn [firstn]. rewrite app_nil_r.
    apply der_content_decode.
  - replace (length cr + 6)%nat with (4 + (length cr + 2))%nat by lia. cbn [app]. rewrite <- app_assoc.
    change (4 + (length cr + 2))%nat with (S (S (S (S (length cr + 2))))). cbn [skipn].
    rewrite skipn_app. rewrite skipn_all2 by lia. cbn [app].
    replace (length cr + 2 - length cr)%nat with 2%nat by lia. cbn [app skipn].
    rewrite firstn_app, Nat.sub_diag, firstn_all. cbn [firstn]. rewrite app_nil_r.
    apply der_content_decode.
Qed.

Lemma order_is_k1 : secp256k1_order = Z.to_N secp256k1_n.
Proof. reflexivity. Qed.

Lemma k1_n_lt : secp256k1_n < 2 ^ 256.
Proof. reflexivity. Qed.

(* ================================================================================================================ *)
(* A'. the placeholder signature of Solver.py has r = n - 1, and n - 1 is not the abscissa of a point of secp256k1    *)
Definition ph_r : Z := secp256k1_n - 1.
Definition ph_s : Z := (secp256k1_n - 1) / 2.
Definition ph_rhs : Z := (ph_r * ph_r * ph_r + secp256k1_a * ph_r + secp256k1_b) mod secp256k1_p.

(* generate_default_placeholder_signature (regenerated into Gen/GenSolveC05.v) is DER(n - 1, (n - 1)/2) ++ [SIGHASH_ALL] *)
Lemma placeholder_decodes : sigdecode_der (removelast gen_c05_placeholder) true = Ret (ph_r, ph_s).
Proof. vm_compute. reflexivity. Qed.

(* Euler's criterion, computed: the right-hand side of the curve equation at x = n - 1 is a non-residue *)
Lemma ph_rhs_nonresidue : pow_mod ph_rhs ((secp256k1_p - 1) / 2) secp256k1_p = secp256k1_p - 1 /\ ph_rhs <> 0 /\
  2 * ((secp256k1_p - 1) / 2) = secp256k1_p - 1 /\ 0 <= (secp256k1_p - 1) / 2 /\ 2 < secp256k1_p.
Proof.
  split; [vm_compute; reflexivity|]. split; [vm_compute; discriminate|]. split; [vm_compute; reflexivity|].
  split; [vm_compute; discriminate | vm_compute; reflexivity].
Qed.

Lemma euler_nonresidue p a e y : prime p -> 2 < p -> 0 <= e -> 2 * e = p - 1 -> (a ^ e) mod p = p - 1 -> a mod p <> 0 ->
  0 <= y < p -> (y * y) mod p = a mod p -> False.
Proof.
  intros Hp Hp2 He0 He2 Hpow Hnz Hy Hyy.
  rewrite Zpower_mod in Hpow by (clear - Hp2; lia). rewrite <- Hyy in Hpow. rewrite <- Zpower_mod in Hpow by (clear - Hp2; lia).
  replace (y * y) with (y ^ 2) in Hpow by ring.
  rewrite <- Z.pow_mul_r in Hpow by (clear - He0; lia). rewrite He2 in Hpow.
  destruct (Z.eq_dec y 0) as [->|Hy0].
  - apply Hnz. rewrite <- Hyy. reflexivity.
  - assert (Hy' : 0 < y < p) by (clear - Hy Hy0; lia).
    rewrite (fermat_little p y Hp Hy') in Hpow. clear - Hpow Hp2. lia.
Qed.

Lemma k1_no_abscissa_nm1 y : 0 <= y < secp256k1_p ->
  (y * y - (ph_r * ph_r * ph_r + secp256k1_a * ph_r + secp256k1_b)) mod secp256k1_p = 0 -> False.
Proof.
  intros Hy H.
  destruct ph_rhs_nonresidue as (Hpow & Hnz & He2 & He0 & Hp2).
  rewrite pow_mod_spec in Hpow by exact He0.
  apply (euler_nonresidue secp256k1_p ph_rhs ((secp256k1_p - 1) / 2) y secp256k1_M1 Hp2 He0 He2 Hpow); [|exact Hy|].
  - unfold ph_rhs. rewrite Z.mod_mod by (clear - Hp2; lia). exact Hnz.
  - unfold ph_rhs. rewrite Z.mod_mod by (clear - Hp2; lia).
    set (A := ph_r * ph_r * ph_r + secp256k1_a * ph_r + secp256k1_b) in *.
    replace (y * y) with ((y * y - A) + A) by ring. rewrite Zplus_mod, H, Z.add_0_l. apply Z.mod_mod. clear - Hp2; lia.
Qed.

(* x = n - 1 (mod n) and 0 <= x < p < 2n - 1 leave x = n - 1 *)
Lemma residue_nm1 n p x : 0 < n -> p < 2 * n - 1 -> 0 <= x < p -> x mod n = n - 1 -> x = n - 1.
Proof.
  intros Hn Hp Hx Hm. destruct (Z_lt_ge_dec x n) as [L|L].
  - rewrite Z.mod_small in Hm by lia. exact Hm.
  - exfalso. replace x with ((x - n) + 1 * n) in Hm by ring. rewrite Z_mod_plus_full, Z.mod_small in Hm by lia. lia.
Qed.

Lemma k1_p_lt_2n : secp256k1_p < 2 * secp256k1_n - 1 /\ 0 < secp256k1_n.
Proof. split; vm_compute; reflexivity. Qed.

(* a finite carrier element satisfies the curve equation and has reduced coordinates (part of the carrier predicate) *)
Lemma ept_coords_facts (cv : curve) (P : ept cv) x y : ecoords P = Some (x, y) ->
  (y * y - (x * x * x + ca cv * x + cb cv)) mod cp cv = 0 /\ 0 <= x < cp cv /\ 0 <= y < cp cv.
Proof.
  destruct P as [P H]. unfold ecoords, eval. cbn [proj1_sig]. intros E. subst P.
  unfold inb in H. apply andb_prop in H. destruct H as [H _]. apply andb_prop in H. destruct H as [H1 H2].
  split; [cbn [contains_point] in H1; apply Z.eqb_eq; exact H1|].
  apply reducedb_iff in H2. cbn in H2. lia.
Qed.

(* ================================================================================================================ *)
(* B. the instance                                                                                                    *)
Definition bz (b : bytes) : Z := Z.of_N (be_decode b).

(* NOTE for maintainers: never write `match <term containing eG / esmul> with` in a Definition here: the elaborator
   head-normalises the scrutinee, which unfolds the carrier test n*G = O of Proofs/ComposeEcInst.v (n additions). The
   eliminators below are applied as functions instead. *)
Definition sec_of_coords (o : option (Z * Z)) (compressed : bool) : outcome bytes :=
  match o with
  | Some pr => Sec.public_pair_to_sec pr compressed
  | None => Raise E_TYPE                           (* to_bytes_32(None) *)
  end.
Definition ret_or {A} (dflt : A) (o : outcome A) : A := match o with Ret a => a | _ => dflt end.

Definition secret_ok (se : bytes) : Prop := 1 <= bz se < secp256k1_n.
Definition digest_ok (d : bytes) : Prop := 0 < bz d < 2 ^ 256.

Section EcC05.
Variable blind : Z.                               (* the generator's blinding factor: any *)
Local Notation c := secp256k1_curve.
Local Notation g := (secp256k1_gen blind).
Local Notation G := (eG g).
Local Notation n := secp256k1_n.
Local Notation e_verify := (Ecdsa.verify (ept c) (eadd c) (esmul c) G n ecoords).
Local Notation e_sign_with_recid := (Ecdsa.sign_with_recid (ept c) (esmul c) G n ecoords).
Local Notation e_sign := (Ecdsa.sign (ept c) (esmul c) G n ecoords).

(* Key(secret_exponent=se).public_pair() = se * G, then public_pair_to_sec; infinity has no coordinates (TypeError) *)
Definition ec_pub_out (se : bytes) (compressed : bool) : outcome bytes :=
  sec_of_coords (ecoords (esmul c (bz se) G)) compressed.
Definition ec_pub_of (se : bytes) (compressed : bool) : bytes := ret_or [] (ec_pub_out se compressed).

(* ---- public keys ------------------------------------------------------------------------------------------------ *)
Lemma ec_point_finite se : secret_ok se -> esmul c (bz se) G <> eO c.
Proof.
  intros [H1 H2] E. apply (k1_c09_smul_zero blind) in E. change (cn c) with n in E. rewrite Z.mod_small in E by lia. lia.
Qed.

Lemma ec_pub_spec se : secret_ok se ->
  exists x y, @eval c (esmul c (bz se) G) = Some (x, y) /\ 0 <= x < secp256k1_p /\ 0 <= y < secp256k1_p /\
    Sec.contains_point secp256k1_p secp256k1_a secp256k1_b x y = true /\
    forall comp, exists sec, Sec.public_pair_to_sec (x, y) comp = Ret sec /\ ec_pub_of se comp = sec /\
      length sec = (if comp then 33 else 65)%nat.
Proof.
  intros Hse. pose proof (ec_point_finite se Hse) as HP.
  destruct (ec09_finite g secp256k1_M1 secp256k1_M4 (secp256k1_side blind) (esmul c (bz se) G) HP) as (x & y & E & Hx & Hy & Hc).
  assert (Hx' : 0 <= x < secp256k1_p) by exact Hx. assert (Hy' : 0 < y < secp256k1_p) by exact Hy.
  assert (E' : @eval c (esmul c (bz se) G) = Some (x, y)) by exact E. clear E. rename E' into E.
  assert (Hy0 : 0 <= y < secp256k1_p) by (clear - Hy'; lia).
  exists x, y. split; [exact E|]. split; [exact Hx'|]. split; [exact Hy0|].
  split; [exact Hc|]. intros comp.
  destruct (Props.C10.C10_sec_roundtrip_secp256k1_unconditional x y comp Hx' Hy0 Hc) as (sec & Es & L & _).
  exists sec. split; [exact Es|]. split; [|exact L].
  unfold ec_pub_of, ec_pub_out, ecoords. rewrite E. cbn [sec_of_coords]. rewrite Es. reflexivity.
Qed.

Lemma ec_pub_wellformed se : secret_ok se ->
  is_compressed (ec_pub_of se true) = true /\ is_uncompressed (ec_pub_of se false) = true.
Proof.
  intros Hse. destruct (ec_pub_spec se Hse) as (x & y & _ & Hx & _ & _ & Hs).
  assert (Hx256 : 0 <= x < 2 ^ 256) by (pose proof (proj2 secp256k1_psize); change (cp c) with secp256k1_p in *; lia).
  split.
  - destruct (Hs true) as (sec & Es & -> & L). unfold is_compressed. rewrite L. cbn [Nat.eqb andb].
    unfold Sec.public_pair_to_sec in Es. rewrite to_bytes_32_ok in Es by exact Hx256. cbn [bind] in Es. injection Es as <-.
    unfold nthn. cbn [nth]. rewrite land1. destruct (Z.odd y); vm_compute; reflexivity.
  - destruct (Hs false) as (sec & Es & -> & L). unfold is_uncompressed. rewrite L. cbn [Nat.eqb andb].
    unfold Sec.public_pair_to_sec in Es. rewrite to_bytes_32_ok in Es by exact Hx256. cbn [bind] in Es.
    destruct (Sec.to_bytes_32 y); cbn [bind] in Es; try discriminate. injection Es as <-. reflexivity.
Qed.

Variable strict : bool.                           (* sec_to_public_pair's flag: True in _find_signatures, STRICTENC in checksig *)

(* self.Point(x, y): a carrier element, or NoSuchPointError *)
Definition ec_key (pr : Z * Z) : option (ept c) :=
  if inb c (Some pr) then Some (mk c (Some pr)) else None.

Definition ec_verify_out (pk d sig : bytes) : outcome bool :=
  do '(r, s) <- sigdecode_der sig true;
  do pr <- Sec.sec_to_public_pair secp256k1_p secp256k1_a secp256k1_b pk strict;
  e_verify (ec_key pr) (bz d) r s.
Definition ec_verifies (pk d sig : bytes) : bool := ret_or false (ec_verify_out pk d sig).

(* no signature with r = n - 1 verifies, under any key, for any digest: the verification point would have abscissa n - 1 *)
Lemma verify_ph_r_false Qo z s : e_verify Qo z ph_r s <> Ret true.
Proof.
  unfold Ecdsa.verify. destruct (z =? 0); [discriminate|].
  destruct (Ecdsa.out_of_range n ph_r s); [discriminate|].
  destruct (Ecdsa.inverse n s) as [si| |]; cbn [bind]; try discriminate.
  destruct Qo as [Q|]; [|discriminate].
  destruct (ecoords (eadd c (esmul c (z * si) G) (esmul c (ph_r * si) Q))) as [[x y]|] eqn:E; [|discriminate].
  destruct (ept_coords_facts c _ x y E) as (Hon & Hx & Hy).
  intros H. injection H as H. apply Z.eqb_eq in H.
  destruct k1_p_lt_2n as [Hp2n Hn0].
  pose proof (residue_nm1 n secp256k1_p x Hn0 Hp2n Hx H) as Hxe. subst x.
  exact (k1_no_abscissa_nm1 y Hy Hon).
Qed.

(* hence the placeholder verifies under no key at all *)
Theorem ec_placeholder_never_verifies pk d : ec_verifies pk d (removelast gen_c05_placeholder) = false.
Proof.
  unfold ec_verifies, ec_verify_out. rewrite placeholder_decodes. cbn [bind].
  destruct (Sec.sec_to_public_pair secp256k1_p secp256k1_a secp256k1_b pk strict) as [pr| |]; cbn [bind ret_or]; try reflexivity.
  destruct (e_verify (ec_key pr) (bz d) ph_r ph_s) as [[|]| |] eqn:E; try reflexivity.
  exfalso. exact (verify_ph_r_false _ _ _ E).
Qed.

(* the key of the instance decodes back to the point, in both decoder modes, and is a carrier element.
   (Proof hygiene: `eval X` is a match on X; a conversion that makes the kernel head-normalise `eval (esmul ..)` unfolds the
   carrier test n*G = O.  The steps are kept in separate lemmas whose terms line up syntactically.) *)
Lemma ec_coords_in se x y : @eval c (esmul c (bz se) G) = Some (x, y) -> inb c (Some (x, y)) = true.
Proof. intros E. rewrite <- E. exact (proj2_sig (esmul c (bz se) G)). Qed.
Lemma ec_coords_mk se x y : @eval c (esmul c (bz se) G) = Some (x, y) -> mk c (Some (x, y)) = esmul c (bz se) G.
Proof. intros E. apply ept_eq. rewrite mk_val_b by exact (ec_coords_in se x y E). symmetry. exact E. Qed.
Lemma ec_coords_key se x y : @eval c (esmul c (bz se) G) = Some (x, y) -> ec_key (x, y) = Some (esmul c (bz se) G).
Proof. intros E. unfold ec_key. rewrite (ec_coords_in se x y E). rewrite (ec_coords_mk se x y E). reflexivity. Qed.

Lemma sec_decode_k1 x y comp : 0 <= x < secp256k1_p -> 0 <= y < secp256k1_p ->
  Sec.contains_point secp256k1_p secp256k1_a secp256k1_b x y = true ->
  exists sec, Sec.public_pair_to_sec (x, y) comp = Ret sec /\
              Sec.sec_to_public_pair secp256k1_p secp256k1_a secp256k1_b sec strict = Ret (x, y).
Proof. exact (Props.C10.C10_sec_decode_roundtrip_secp256k1 x y comp strict). Qed.

Lemma ec_pub_decodes se comp : secret_ok se ->
  exists pr, Sec.sec_to_public_pair secp256k1_p secp256k1_a secp256k1_b (ec_pub_of se comp) strict = Ret pr /\
             ec_key pr = Some (esmul c (bz se) G).
Proof.
  intros Hse. destruct (ec_pub_spec se Hse) as (x & y & E & Hx & Hy & Hc & Hs).
  destruct (sec_decode_k1 x y comp Hx Hy Hc) as (sec & Es & Ed).
  destruct (Hs comp) as (sec' & Es' & Ep & _).
  exists (x, y). split; [rewrite Ep; congruence|]. exact (ec_coords_key se x y E).
Qed.

Variable hmac : bytes -> bytes -> bytes.          (* hmac.new(k, m, hashlib.sha256).digest() *)
Variable kfuel fuel : nat.                        (* bounds on the two `while` loops of signing (RFC 6979 retry; k += 1) *)
Local Notation gen_k := (deterministic_generate_k hmac 32 kfuel).

(* signing_solver: generator.sign, low-S normalisation, der.sigencode_der *)
Definition ec_sign_out (se d : bytes) : outcome bytes :=
  do '(r, s) <- e_sign gen_k fuel (bz se) (bz d);
  sigencode_der r (if n <? s + s then n - s else s).
Definition ec_sign (se d : bytes) : bytes := ret_or [] (ec_sign_out se d).
Definition ec_signs (se d : bytes) : Prop := exists sig, ec_sign_out se d = Ret sig.

(* ---- the neighbours' theorems at this instance -------------------------------------------------------------- *)
Local Notation laws := (Props.C01compose.C01c_secp256k1_group_laws_unconditional blind).
Local Notation sv := (proj2 (Props.C01compose.C01c_secp256k1_sign_verifies_unconditional blind gen_k)).

(* what a returned signature is *)
Lemma ec_sign_spec se d sig : ec_sign_out se d = Ret sig ->
  exists r s, 1 <= r < n /\ 1 <= s /\ 2 * s <= n /\ sigencode_der r s = Ret sig /\
              e_verify (Some (esmul c (bz se) G)) (bz d) r s = Ret true.
Proof.
  unfold ec_sign_out, Ecdsa.sign. intros H.
  destruct (e_sign_with_recid gen_k fuel (bz se) (bz d)) as [[[r s] recid]| |] eqn:E; cbn [bind] in H; try discriminate.
  destruct (sv fuel (bz se) (bz d) r s recid E) as (Hr & Hs & _ & Hv).
  destruct (n <? s + s) eqn:Ehi.
  - exists r, (n - s). repeat split; try lia; [exact H|].
    rewrite (Props.C01.C01_verify_low_s_symmetry (ept c) (eadd c) (eneg c) (eO c) (esmul c) G n ecoords laws secp256k1_M2). exact Hv.
  - exists r, s. repeat split; try lia; [exact H | exact Hv].
Qed.

(* ---- the three interface hypotheses of Props/C05.v, on their true domain ------------------------------------------ *)
Theorem ec_sign_verifies se comp d : secret_ok se -> ec_signs se d ->
  ec_verifies (ec_pub_of se comp) d (ec_sign se d) = true.
Proof.
  intros Hse (sig & Hsig). unfold ec_sign. rewrite Hsig. cbn [ret_or].
  destruct (ec_sign_spec se d sig Hsig) as (r & s & Hr & Hs1 & Hs2 & Eenc & Hv).
  destruct (Props.C10.C10_der_roundtrip r s true ltac:(lia) ltac:(lia)) as (sig' & E1 & E2).
  { apply small_expressible; pose proof k1_n_lt; lia. }
  rewrite Eenc in E1. injection E1 as <-.
  destruct (ec_pub_decodes se comp Hse) as (pr & Ed & Ek).
  unfold ec_verifies, ec_verify_out. rewrite E2. cbn [bind]. rewrite Ed. cbn [bind]. rewrite Ek, Hv. reflexivity.
Qed.

Theorem ec_sign_canonical se d t : ec_signs se d ->
  strict_der (ec_sign se d ++ [t]) = true /\ low_s (ec_sign se d ++ [t]) = true.
Proof.
  intros (sig & Hsig). unfold ec_sign. rewrite Hsig. cbn [ret_or].
  destruct (ec_sign_spec se d sig Hsig) as (r & s & Hr & Hs1 & Hs2 & Eenc & _).
  pose proof k1_n_lt as Hn.
  destruct (der_values r s t ltac:(lia) ltac:(lia)) as (sig' & E1 & Hstrict & Hrv & Hsv).
  rewrite Eenc in E1. injection E1 as <-.
  split; [exact Hstrict|]. unfold low_s. rewrite Hsv, order_is_k1.
  replace (2 * Z.to_N s <=? Z.to_N n)%N with true by lia. now rewrite orb_true_r.
Qed.

(* ---- where the unrestricted hypotheses of Props/C05.v fail ---------------------------------------------------------- *)
(* the zero digest: sign raises ValueError (Solver.sign catches it and leaves the input unsigned), verify answers False *)
Theorem ec_zero_digest se d : bz d = 0 ->
  ec_sign_out se d = Raise E_VALUE /\ forall pk sig, ec_verifies pk d sig = false.
Proof.
  intros Hz. split.
  - unfold ec_sign_out, Ecdsa.sign, Ecdsa.sign_with_recid. rewrite Hz. reflexivity.
  - intros pk sig. unfold ec_verifies, ec_verify_out.
    destruct (sigdecode_der sig true) as [[r s]| |]; cbn [bind]; try reflexivity.
    destruct (Sec.sec_to_public_pair secp256k1_p secp256k1_a secp256k1_b pk strict) as [pr| |]; cbn [bind]; try reflexivity.
    unfold Ecdsa.verify. rewrite Hz. reflexivity.
Qed.

(* a secret that is a multiple of n has no public key *)
Theorem ec_pub_zero se comp : bz se mod n = 0 -> ec_pub_out se comp = Raise E_TYPE /\ ec_pub_of se comp = [].
Proof.
  intros Hz. apply (k1_c09_smul_zero blind) in Hz.
  unfold ec_pub_of, ec_pub_out. rewrite Hz. split; reflexivity.
Qed.

(* generator.sign returned: so does the signer (the low-S pair is in DER's range) *)
Lemma ec_signs_of_ret se d r s recid : e_sign_with_recid gen_k fuel (bz se) (bz d) = Ret (r, s, recid) -> ec_signs se d.
Proof.
  intros Es. unfold ec_signs, ec_sign_out, Ecdsa.sign. rewrite Es. cbn [bind].
  destruct (sv fuel (bz se) (bz d) r s recid Es) as (Hr & Hs & _).
  pose proof k1_n_lt as Hn.
  destruct (n <? s + s) eqn:Ehi.
  - destruct (Props.C10.C10_der_encoder_output_is_bip66 r (n - s) x01 ltac:(lia) ltac:(lia)) as (sig & E1 & _). eauto.
  - destruct (Props.C10.C10_der_encoder_output_is_bip66 r s x01 ltac:(lia) ltac:(lia)) as (sig & E1 & _). eauto.
Qed.

(* in range, signing can only fail by not terminating (C01: never raises); then ec_signs holds as soon as it returns *)
Theorem ec_signs_or_diverges se d : 0 <= bz se < n -> digest_ok d -> ec_signs se d \/ ec_sign_out se d = OutOfFuel.
Proof.
  intros Hse Hd.
  destruct (e_sign_with_recid gen_k fuel (bz se) (bz d)) as [[[r s] recid]| e' |] eqn:Es.
  - left. exact (ec_signs_of_ret se d r s recid Es).
  - exfalso. exact (Props.C01compose.C01c_secp256k1_sign_never_raises_unconditional blind hmac 32 kfuel fuel (bz se) (bz d) e' Hse Hd Es).
  - right. unfold ec_sign_out, Ecdsa.sign. rewrite Es. reflexivity.
Qed.

(* the definitions, spelled out for Props/C05ec.v *)
Lemma ec_instance_unfold :
  (forall se comp, ec_pub_out se comp = sec_of_coords (ecoords (esmul c (bz se) G)) comp) /\
  (forall se d, ec_sign_out se d =
     bind (e_sign gen_k fuel (bz se) (bz d))
          (fun rs => let '(r, s) := rs in sigencode_der r (if n <? s + s then n - s else s))) /\
  (forall pk d sig, ec_verify_out pk d sig =
     bind (sigdecode_der sig true) (fun rs => let '(r, s) := rs in
     bind (Sec.sec_to_public_pair secp256k1_p secp256k1_a secp256k1_b pk strict) (fun pr =>
     e_verify (ec_key pr) (bz d) r s))) /\
  (forall se comp, ec_pub_of se comp = ret_or [] (ec_pub_out se comp)) /\
  (forall se d, ec_sign se d = ret_or [] (ec_sign_out se d)) /\
  (forall pk d sig, ec_verifies pk d sig = ret_or false (ec_verify_out pk d sig)).
Proof. repeat split; intros; apply eq_refl. Qed.

(* ================================================================================================================ *)
(* C. C05's theorems at the instance: Proofs/ComposeRelC05.v needs the interface hypotheses on the listed keys and the   *)
(*    produced digests only, and there they are the theorems above                                                       *)
Variable hash160 : bytes -> bytes.
Variable sha256 : bytes -> bytes.
Variable sighash : bool -> N -> bytes -> option bytes.

(* every listed secret is what Key(secret_exponent=..) accepts *)
Definition keys_ok (ks : list keyspec) : Prop := forall k, In k ks -> secret_ok (fst k).
(* generator.sign returns for every listed key on every digest the coin can produce for this input (hash types < 256) *)
Definition signs_on (ks : list keyspec) (W : bool) (SC : bytes) : Prop :=
  forall k d, In k ks -> produced sighash W SC d -> ec_signs (fst k) d.

Lemma ec_sv_on ks W SC : keys_ok ks -> signs_on ks W SC -> sv_on ec_verifies ec_sign ec_pub_of sighash ks W SC.
Proof. intros Hk Hs k comp d Hin Hd. apply ec_sign_verifies; [now apply Hk | now apply Hs]. Qed.
Lemma ec_canon_on ks W SC : signs_on ks W SC -> canon_on ec_sign sighash ks W SC.
Proof. intros Hs k d t Hin Hd. apply ec_sign_canonical. now apply Hs. Qed.
Lemma ec_pubwf_on ks : keys_ok ks -> pubwf_on ec_pub_of ks.
Proof. intros Hk k Hin. apply ec_pub_wellformed. now apply Hk. Qed.

Theorem ec_ms_validates (Hsha : forall x, length (sha256 x) = 32%nat) fl forkid kd m ks db hto p2sh :
  keys_ok ks -> signs_on ks (kwit kd) (ms_script m (map (pub ec_pub_of) ks)) ->
  ms_shape ec_pub_of kd m ks -> p2sh_ok hash160 sha256 ec_pub_of kd m ks p2sh -> db_ok hash160 ec_pub_of db ks ->
  (forall k, In k ks -> avail hash160 ec_pub_of db k = true) ->
  ht_ok sighash (kwit kd) (ms_script m (map (pub ec_pub_of) ks)) (effective_hash_type forkid hto) ->
  (f_std fl = true -> f_strictenc fl = true -> std_hash_type (effective_hash_type forkid hto)) ->
  (forall k, In k ks -> pub_enc_ok fl (kwit kd) (pub ec_pub_of k) = true) ->
  exists st, sign_input hash160 sha256 ec_verifies ec_sign ec_pub_of sighash db p2sh forkid (pz_ms ec_pub_of kd m ks) hto [] [] = Ret st /\
             eval_input hash160 sha256 ec_verifies sighash fl (pz_ms ec_pub_of kd m ks) (fst st) (snd st) = true.
Proof.
  intros Hk Hs. apply (rel_ms_validates hash160 sha256 ec_verifies ec_sign ec_pub_of sighash Hsha).
  - now apply ec_sv_on.
  - now apply ec_canon_on.
Qed.

Theorem ec_single_validates (Hh : forall x, length (hash160 x) = 20%nat) fl forkid kd k db hto p2sh :
  secret_ok (fst k) -> signs_on [k] (single_wit kd) (single_sc hash160 ec_pub_of kd k) ->
  is_single_kind kd ->
  lookup_get db (hash160 (pub ec_pub_of k)) = Some k ->
  (kd = K_P2SH_P2WPKH ->
   p2sh_get hash160 sha256 p2sh (hash160 (wit0_script (hash160 (pub ec_pub_of k)))) = Some (wit0_script (hash160 (pub ec_pub_of k)))) ->
  ht_ok sighash (single_wit kd) (single_sc hash160 ec_pub_of kd k) (effective_hash_type forkid hto) ->
  (f_std fl = true -> f_strictenc fl = true -> std_hash_type (effective_hash_type forkid hto)) ->
  pub_enc_ok fl (single_wit kd) (pub ec_pub_of k) = true ->
  exists st, sign_input hash160 sha256 ec_verifies ec_sign ec_pub_of sighash db p2sh forkid (pz_single hash160 ec_pub_of kd k) hto [] [] = Ret st /\
             eval_input hash160 sha256 ec_verifies sighash fl (pz_single hash160 ec_pub_of kd k) (fst st) (snd st) = true.
Proof.
  intros Hk Hs.
  assert (Hks : keys_ok [k]) by (intros k' [<-|[]]; exact Hk).
  apply (rel_single_validates hash160 sha256 ec_verifies ec_sign ec_pub_of sighash Hh).
  - now apply ec_sv_on.
  - now apply ec_canon_on.
  - now apply ec_pubwf_on.
Qed.

Theorem ec_partial_signing_order_free (Hsha : forall x, length (sha256 x) = 32%nat) forkid p2sh kd m ks fl0 :
  keys_ok ks -> signs_on ks (kwit kd) (ms_script m (map (pub ec_pub_of) ks)) ->
  ms_shape ec_pub_of kd m ks ->
  excl_on ec_verifies ec_sign ec_pub_of sighash ks (kwit kd) (ms_script m (map (pub ec_pub_of) ks)) ->
  p2sh_ok hash160 sha256 ec_pub_of kd m ks p2sh ->
  (forall k, In k ks -> pub_enc_ok fl0 (kwit kd) (pub ec_pub_of k) = true) ->
  forall passes : list pass,
  Forall (pass_ok hash160 ec_pub_of sighash forkid kd m ks fl0) passes ->
  exists st, run hash160 sha256 ec_verifies ec_sign ec_pub_of sighash forkid p2sh kd m ks passes ([], []) = Ret st /\
             (eval_input hash160 sha256 ec_verifies sighash fl0 (pz_ms ec_pub_of kd m ks) (fst st) (snd st) = true <->
              (m <= ncovered hash160 ec_pub_of ks passes)%nat).
Proof.
  intros Hk Hs Hsh Hex.
  apply (rel_partial_signing_order_free hash160 sha256 ec_verifies ec_sign ec_pub_of sighash Hsha); try assumption.
  - now apply ec_sv_on.
  - now apply ec_canon_on.
  - intros k d _ _. apply ec_placeholder_never_verifies.
Qed.
End EcC05.

(* ================================================================================================================ *)
(* D. non-vacuity of the domain conditions: secret 1, digest 1, an hmac whose RFC 6979 nonce is 1 (so R = G): in range,    *)
(*    and generator.sign returns (C01c_secp256k1_sign_is_rfc6979_unconditional; the nonce and the two residues computed)  *)
Definition const_hmac (k m : bytes) : bytes := be_encode 32 1.

Lemma const_hmac_nonce : rfc6979_k const_hmac secp256k1_n 1 1 (int_to_octets 32 1) = Some 1.
Proof. vm_compute. reflexivity. Qed.

Lemma G_residues : secp256k1_Gx mod secp256k1_n <> 0 /\ (1 + (secp256k1_Gx mod secp256k1_n) * 1) mod secp256k1_n <> 0.
Proof. split; vm_compute; discriminate. Qed.

Lemma domain_inhabited blind fuel :
  secret_ok [x01] /\ digest_ok [x01] /\ ec_signs blind const_hmac 1 (S fuel) [x01] [x01].
Proof.
  split; [split; vm_compute; [discriminate|reflexivity]|]. split; [split; vm_compute; reflexivity|].
  destruct (Props.C01compose.C01c_secp256k1_sign_is_rfc6979_unconditional blind const_hmac 32) as [EG Hsig].
  destruct G_residues as [R1 R2].
  assert (E1 : ecoords (esmul secp256k1_curve 1 (eG (secp256k1_gen blind))) = Some (secp256k1_Gx, secp256k1_Gy)).
  { rewrite (gl_smul_1 _ _ _ _ _ _ _ (Props.C01compose.C01c_secp256k1_group_laws_unconditional blind)). exact EG. }
  destruct (Hsig 1%nat 1 1 1 secp256k1_Gx secp256k1_Gy ltac:(split; vm_compute; [discriminate|reflexivity])
              ltac:(split; vm_compute; reflexivity) const_hmac_nonce E1 R1 R2 fuel) as (s & recid & Es & _).
  exact (ec_signs_of_ret blind const_hmac 1 (S fuel) [x01] [x01] _ s recid Es).
Qed.
