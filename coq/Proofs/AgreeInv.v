(* Proofs/AgreeInv.v — C03 agreement: an invariant of Core's loop needed by the signature opcodes under SV_BASE:
   every item on the two stacks is shorter than 2^32 bytes (pycoin's _delete_signature raises OverflowError for a
   longer blob; Core's FindAndDelete does not care) and the main stack has fewer than 2^32 items.  It holds
   initially by hypothesis and is kept by every instruction provided the hash oracles return short strings. *)
From Coq Require Import Lia ZifyBool ZifyNat ZifyN.
From PV Require Import Base.Bytes Base.Outcome Gen.GenOpcodes Gen.GenFlags.
From PV Require Import Model.ScriptNum Spec.VMTypes Spec.VMcore Proofs.ScriptNumP Proofs.AgreeSig.
Local Open Scope N_scope.

(* ---- sizes of encoded numbers ------------------------------------------------------------------------------------ *)
Lemma le_min_f_len f : forall v bs, le_min_f f v = Some bs -> (length bs <= f)%nat.
Proof.
  induction f as [|f IH]; intros v bs; cbn [le_min_f]; [discriminate|].
  destruct (v <? 256); [intros H; injection H as <-; cbn; lia|].
  destruct (le_min_f f (N.shiftr v 8)) as [r|] eqn:E; [|discriminate].
  intros H; injection H as <-. apply IH in E. cbn [length]. lia.
Qed.

Lemma set_last_or_length bs m : length (set_last_or bs m) = length bs.
Proof.
  unfold set_last_or. destruct (rev bs) as [|l r] eqn:E.
  - apply (f_equal (@length byte)) in E. rewrite rev_length in E. cbn in *. lia.
  - rewrite rev_length. cbn [length]. apply (f_equal (@length byte)) in E. rewrite rev_length in E. cbn in E. lia.
Qed.

Lemma size_bound m k : m < 2 ^ k -> N.size m <= k.
Proof.
  intros H. pose proof (N.size_le m) as L. rewrite N.succ_double_spec in L.
  assert (2 ^ N.size m < 2 ^ (k + 1)) by (rewrite N.pow_add_r; change (2 ^ 1) with 2; lia).
  apply N.pow_lt_mono_r_iff in H0; lia.
Qed.

Lemma num_vec_ok z : (Z.abs z < 2 ^ 63)%Z -> item_ok (num_vec z).
Proof.
  intros H. unfold item_ok, num_vec, int_to_script_bytes.
  destruct (z =? 0)%Z; [cbn; lia|].
  set (mag := Z.to_N (Z.abs z)).
  assert (Hs : N.size mag <= 63) by (apply size_bound; unfold mag; lia).
  destruct (le_min_f (S (N.to_nat (N.size mag))) mag) as [ba|] eqn:E; [|cbn; lia].
  apply le_min_f_len in E.
  destruct (128 <=? last_n ba).
  - rewrite app_length. cbn [length]. change (2 ^ 32) with 4294967296. lia.
  - destruct (z <? 0)%Z; rewrite ?set_last_or_length; change (2 ^ 32) with 4294967296; lia.
Qed.

Lemma be_accum_bound l : forall v, be_accum v l < (v + 1) * 256 ^ N.of_nat (length l).
Proof.
  induction l as [|b r IH]; intros v; cbn [be_accum length].
  - cbn. lia.
  - specialize (IH (N.shiftl v 8 + b2n b)). rewrite shiftl8 in *. pose proof (b2n_lt b).
    rewrite Nat2N.inj_succ, N.pow_succ_r'. nia.
Qed.

Lemma script_num_bound mn k v n : k <= 5 -> script_num mn k v = COk n -> (Z.abs n < 2 ^ 40)%Z.
Proof.
  intros Hk. unfold script_num, len. destruct (N.ltb_spec k (N.of_nat (length v))); [discriminate|].
  unfold int_from_script_bytes. destruct (rev v) as [|i rest] eqn:E.
  { intros H'; injection H' as <-. cbn. lia. }
  cbv zeta. match goal with |- context [if ?c then _ else _] => destruct c end; [discriminate|].
  assert (Hl : (length rest <= 4)%nat).
  { apply (f_equal (@length byte)) in E. rewrite rev_length in E. cbn [length] in E. lia. }
  pose proof (be_accum_bound rest (N.land (b2n i) 127)) as B.
  pose proof (pow256_mono _ _ Hl) as M. change (256 ^ N.of_nat 4) with 4294967296 in M.
  assert (N.land (b2n i) 127 <= 127).
  { pose proof (byte_split i). lia. }
  destruct (0 <? N.land (b2n i) 128); intros H'; injection H' as <-; nia.
Qed.
