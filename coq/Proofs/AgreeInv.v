(* Proofs/AgreeInv.v — C03 agreement: an invariant of Core's loop needed by the signature opcodes under SV_BASE:
   every item on the two stacks is shorter than 2^32 bytes (pycoin's _delete_signature raises OverflowError for a
   longer blob; Core's FindAndDelete does not care) and the main stack has fewer than 2^32 items.  It holds
   initially by hypothesis and is kept by every instruction provided the hash oracles return short strings. *)
From Coq Require Import Lia ZifyBool ZifyNat ZifyN.
From PV Require Import Base.Bytes Base.Outcome Gen.GenOpcodes Gen.GenFlags.
From PV Require Import Model.ScriptNum Spec.VMTypes Spec.VMcore Proofs.ScriptNumP Proofs.AgreeSig.
Local Open Scope N_scope.

(* ---- sizes of encoded numbers ------------------------------------------------------------------------------------ *)
Lemma le_min_f_len f : forall v bs, le_min_f f v = Some bs -> (length bs <= f)%nat.
Proof.
  induction f as [|f IH]; intros v bs; cbn [le_min_f]; [discriminate|].
  destruct (v <? 256); [intros H; injection H as <-; cbn; lia|].
  destruct (le_min_f f (N.shiftr v 8)) as [r|] eqn:E; [|discriminate].
  intros H; injection H as <-. apply IH in E. cbn [length]. lia.
Qed.

Lemma set_last_or_length bs m : length (set_last_or bs m) = length bs.
Proof.
  unfold set_last_or. destruct (rev bs) as [|l r] eqn:E.
  - apply (f_equal (@length byte)) in E. rewrite rev_length in E. cbn in *. lia.
  - rewrite rev_length. cbn [length]. apply (f_equal (@length byte)) in E. rewrite rev_length in E. cbn in E. lia.
Qed.

Lemma size_bound m k : m < 2 ^ k -> N.size m <= k.
Proof.
  intros H. pose proof (N.size_le m) as L. rewrite N.succ_double_spec in L.
  assert (2 ^ N.size m < 2 ^ (k + 1)) by (rewrite N.pow_add_r; change (2 ^ 1) with 2; lia).
  apply N.pow_lt_mono_r_iff in H0; lia.
Qed.

Lemma num_vec_ok z : (Z.abs z < 2 ^ 63)%Z -> item_ok (num_vec z).
Proof.
  intros H. unfold item_ok, num_vec, int_to_script_bytes.
  destruct (z =? 0)%Z; [cbn; lia|].
  set (mag := Z.to_N (Z.abs z)).
  assert (Hs : N.size mag <= 63) by (apply size_bound; unfold mag; lia).
  destruct (le_min_f (S (N.to_nat (N.size mag))) mag) as [ba|] eqn:E; [|cbn; lia].
  apply le_min_f_len in E.
  destruct (128 <=? last_n ba).
  - rewrite app_length. cbn [length]. change (2 ^ 32) with 4294967296. lia.
  - destruct (z <? 0)%Z; rewrite ?set_last_or_length; change (2 ^ 32) with 4294967296; lia.
Qed.

Lemma be_accum_bound l : forall v, be_accum v l < (v + 1) * 256 ^ N.of_nat (length l).
Proof.
  induction l as [|b r IH]; intros v; cbn [be_accum length].
  - cbn. lia.
  - specialize (IH (N.shiftl v 8 + b2n b)). rewrite shiftl8 in *. pose proof (b2n_lt b).
    rewrite Nat2N.inj_succ, N.pow_succ_r'. nia.
Qed.

Lemma script_num_bound mn k v n : k <= 5 -> script_num mn k v = COk n -> (Z.abs n < 2 ^ 40)%Z.
Proof.
  intros Hk. unfold script_num, len. destruct (N.ltb_spec k (N.of_nat (length v))); [discriminate|].
  unfold int_from_script_bytes. destruct (rev v) as [|i rest] eqn:E.
  { intros H'; injection H' as <-. cbn. lia. }
  cbv zeta. match goal with |- context [if ?c then _ else _] => destruct c end; [discriminate|].
  assert (Hl : (length rest <= 4)%nat).
  { apply (f_equal (@length byte)) in E. rewrite rev_length in E. cbn [length] in E. lia. }
  pose proof (be_accum_bound rest (N.land (b2n i) 127)) as B.
  pose proof (pow256_mono _ _ Hl) as M. change (256 ^ N.of_nat 4) with 4294967296 in M.
  assert (N.land (b2n i) 127 <= 127).
  { pose proof (byte_split i). lia. }
  destruct (0 <? N.land (b2n i) 128); intros H'; injection H' as <-; nia.
Qed.

(* ---- the invariant ------------------------------------------------------------------------------------------------- *)
Definition hash_ok (o : oracles) : Prop :=
  forall x, item_ok (o_sha256 o x) /\ item_ok (o_sha1 o x) /\ item_ok (o_ripemd160 o x)
            /\ item_ok (o_hash160 o x) /\ item_ok (o_hash256 o x).

Lemma bool_vec_ok b : item_ok (bool_vec b).
Proof. destruct b; unfold item_ok; cbn; lia. Qed.

Lemma on_stack_inv c f c' : on_stack c f = COk c' -> exists st', f (e_stack c) = COk st' /\ c' = set_stack c st'.
Proof. unfold on_stack. destruct (f (e_stack c)) as [st'|e|]; cbn; try discriminate. intros H; injection H as <-. eauto. Qed.

Lemma un_num_inv mn f st st' : (forall n, (Z.abs n < 2 ^ 40)%Z -> (Z.abs (f n) < 2 ^ 63)%Z) ->
  Forall item_ok st -> un_num mn f st = COk st' -> Forall item_ok st'.
Proof.
  intros Hf H. destruct st as [|a r]; cbn [un_num]; [discriminate|].
  destruct (script_num mn 4 a) as [n|e|] eqn:E; cbn [cbind]; try discriminate.
  intros K; injection K as <-. inversion H; subst. constructor; [|assumption].
  apply num_vec_ok, Hf. eapply script_num_bound; [|exact E]. lia.
Qed.

Lemma bin_num_inv mn f st st' : (forall a b, (Z.abs a < 2 ^ 40)%Z -> (Z.abs b < 2 ^ 40)%Z -> (Z.abs (f a b) < 2 ^ 63)%Z) ->
  Forall item_ok st -> bin_num mn f st = COk st' -> Forall item_ok st'.
Proof.
  intros Hf H. destruct st as [|b [|a r]]; cbn [bin_num]; try discriminate.
  destruct (script_num mn 4 a) as [n1|e|] eqn:E1; cbn [cbind]; try discriminate.
  destruct (script_num mn 4 b) as [n2|e|] eqn:E2; cbn [cbind]; try discriminate.
  intros K; injection K as <-. inversion H as [|? ? _ H']; subst. inversion H'; subst. constructor; [|assumption].
  apply num_vec_ok, Hf; (eapply script_num_bound; [|eassumption]; lia).
Qed.

Lemma Forall_nth_ok k : forall (r : list bytes), Forall item_ok r -> (k < length r)%nat -> item_ok (nth k r []).
Proof. intros r H Hk. rewrite Forall_forall in H. apply H. apply nth_In. exact Hk. Qed.

Lemma Forall_remove_nth k : forall (r : list bytes), Forall item_ok r -> Forall item_ok (VMcore.remove_nth k r).
Proof.
  induction k as [|k IH]; intros r H; destruct r as [|x r]; cbn [VMcore.remove_nth]; auto; inversion H; subst; auto.
Qed.

Ltac inv_fa := repeat match goal with H : Forall _ (_ :: _) |- _ => inversion H; clear H; subst end.
Ltac fa := inv_fa; repeat (first [assumption | apply bool_vec_ok | solve [apply num_vec_ok; cbn; lia] | constructor]).
Ltac blind H :=
  repeat match type of H with
         | context [match ?x with _ => _ end] => destruct x eqn:?; try discriminate H
         | context [if ?x then _ else _] => destruct x eqn:?; try discriminate H
         end.
Ltac num_tac :=
  intros; unfold zb, znz;
  repeat match goal with |- context [if ?c then _ else _] => destruct c end; lia.

Lemma pick_roll_inv mn roll st st' : Forall item_ok st -> op_pick_roll mn roll st = COk st' -> Forall item_ok st'.
Proof.
  intros H. unfold op_pick_roll. destruct st as [|a [|b r0]]; try discriminate.
  set (r := b :: r0) in *. destruct (script_num mn 4 a) as [n|e|]; cbn [cbind]; try discriminate.
  destruct (Z.ltb_spec n 0); cbn [orb]; [discriminate|].
  destruct (Z.leb_spec (Z.of_nat (length r)) n); [discriminate|].
  intros K; injection K as <-. inversion H; subst. constructor.
  - apply (Forall_nth_ok (Z.to_nat n) r); [assumption|lia].
  - destruct roll; [apply (Forall_remove_nth (Z.to_nat n) r)|]; assumption.
Qed.

Section Inv.
Variable o : oracles.
Variable flags : N.
Variable sv : sigversion.
Variable ctx : txctx.
Hypothesis Hh : hash_ok o.

Lemma hash_op_inv h st st' : (forall x, item_ok (h x)) -> Forall item_ok st -> hash_op h st = COk st' -> Forall item_ok st'.
Proof. intros Hx H. destruct st as [|a r]; cbn; [discriminate|]. intros K; injection K as <-. inversion H; subst. constructor; auto. Qed.

Lemma checksig_inv verify c c' : op_checksig o flags sv verify c = COk c' ->
  Forall item_ok (e_stack c) -> Forall item_ok (e_alt c) -> Forall item_ok (e_stack c') /\ Forall item_ok (e_alt c').
Proof.
  unfold op_checksig. destruct c as [stk alt vfx opc bch]. cbn [e_stack e_alt e_bch].
  destruct stk as [|key [|sig r]]; try discriminate.
  destruct (check_signature_encoding _ _ _); cbn [cbind]; try discriminate.
  destruct (check_pubkey_encoding _ _ _); cbn [cbind]; try discriminate.
  destruct (negb _ && _ && _); [discriminate|].
  destruct verify; [destruct (run_checksig _ _ _ _ _); [|discriminate]|];
    intros K; injection K as <-; cbn; intros H1 H2; split; fa.
Qed.

Lemma cms_inv mn verify c c' : op_checkmultisig o flags sv mn verify c = COk c' ->
  Forall item_ok (e_stack c) -> Forall item_ok (e_alt c) -> Forall item_ok (e_stack c') /\ Forall item_ok (e_alt c').
Proof.
  unfold op_checkmultisig. destruct c as [stk alt vfx opc bch]. cbn [e_stack e_alt e_bch e_opc].
  destruct stk as [|kc s1]; [discriminate|].
  destruct (script_num mn 4 kc) as [nk|e|]; cbn [cbind]; try discriminate.
  destruct ((nk <? 0)%Z || _); [discriminate|]. cbv zeta.
  destruct (MAX_OPS_PER_SCRIPT <? _); [discriminate|].
  destruct (length s1 <? _)%nat; [discriminate|].
  destruct (skipn (Z.to_nat nk) s1) as [|sc s3] eqn:E1; [discriminate|].
  destruct (script_num mn 4 sc) as [ns|e|]; cbn [cbind]; try discriminate.
  destruct ((ns <? 0)%Z || _); [discriminate|].
  destruct (length s3 <? _)%nat; [discriminate|].
  destruct (cms_loop _ _ _ _ _ _) as [ok|e|]; cbn [cbind]; try discriminate.
  destruct (negb ok && _ && _); [discriminate|].
  destruct (skipn (Z.to_nat ns) s3) as [|dummy r] eqn:E2; [discriminate|].
  destruct (_ && negb (len dummy =? 0)); [discriminate|].
  intros K H1 H2.
  assert (Hr : Forall item_ok r).
  { inversion H1 as [|? ? _ Hs1]; subst. pose proof (Forall_skipn item_ok (Z.to_nat nk) _ Hs1) as K1. rewrite E1 in K1.
    inversion K1 as [|? ? _ Hs3]; subst. pose proof (Forall_skipn item_ok (Z.to_nat ns) _ Hs3) as K2. rewrite E2 in K2.
    inversion K2; assumption. }
  destruct verify; [destruct ok; [|discriminate]|]; injection K as <-; cbn; split; fa.
Qed.

Lemma cltv_inv mn c c' : op_cltv flags mn ctx c = COk c' -> c' = c.
Proof.
  unfold op_cltv, op_nop_upgradable. destruct (negb _).
  { destruct (flag_set _ _); [discriminate|]. intros K; injection K; auto. }
  destruct (e_stack c) as [|a r]; [discriminate|]. destruct (script_num mn 5 a) as [z|e|]; cbn [cbind]; try discriminate.
  destruct (z <? 0)%Z; [discriminate|]. destruct (check_lock_time _ _); [|discriminate]. intros K; injection K; auto.
Qed.

Lemma csv_inv mn c c' : op_csv flags mn ctx c = COk c' -> c' = c.
Proof.
  unfold op_csv, op_nop_upgradable. destruct (negb (flag_set flags VERIFY_CHECKSEQUENCEVERIFY)).
  { destruct (flag_set _ _); [discriminate|]. intros K; injection K; auto. }
  destruct (e_stack c) as [|a r]; [discriminate|]. destruct (script_num mn 5 a) as [z|e|]; cbn [cbind]; try discriminate.
  destruct (z <? 0)%Z; [discriminate|]. destruct (negb _); [intros K; injection K; auto|].
  destruct (check_sequence _ _); [|discriminate]. intros K; injection K; auto.
Qed.

Lemma exec_inv op rest fx c c' : exec_op o flags sv ctx op rest fx c = COk c' ->
  Forall item_ok (e_stack c) -> Forall item_ok (e_alt c) -> N.of_nat (length (e_stack c)) < 2 ^ 32 ->
  Forall item_ok (e_stack c') /\ Forall item_ok (e_alt c').
Proof.
  intros H H1 H2 H3.
  destruct op; cbn [exec_op] in H; try discriminate H.
  all: try (apply checksig_inv in H; assumption).
  all: try (apply cms_inv in H; assumption).
  all: try (apply cltv_inv in H; subst; auto).
  all: try (apply csv_inv in H; subst; auto).
  all: try (apply on_stack_inv in H; destruct H as (st' & Hf & ->); cbn [set_stack e_stack e_alt]; split; [|assumption]).
  all: try (eapply un_num_inv; [|exact H1|exact Hf]; num_tac).
  all: try (eapply bin_num_inv; [|exact H1|exact Hf]; num_tac).
  all: try (eapply pick_roll_inv; [exact H1|exact Hf]).
  all: try (eapply hash_op_inv; [|exact H1|exact Hf]; intros x; apply Hh).
  all: destruct c as [stk alt vfx opc bch]; cbn [e_stack e_alt e_vf set_stack set_alt set_vf set_bch] in *.
  (* arms that return a state *)
  all: try (unfold op_if, op_nop_upgradable in H; cbn [e_stack e_alt e_vf set_stack set_alt set_vf set_bch] in H;
            blind H; injection H as <-; cbn [e_stack e_alt]; split; fa; fail).
  (* on_stack arms *)
  all: cbv beta in Hf; unfold cbind in Hf.
  all: try (match type of Hf with context [bin_num ?m ?f ?s] =>
              destruct (bin_num m f s) as [st2|?|] eqn:Eb; try discriminate Hf;
              apply bin_num_inv in Eb; [|num_tac|assumption] end).
  all: try (blind Hf; injection Hf as <-; fa; fail).
  (* OP_SIZE *)
  destruct stk as [|a r]; [discriminate|]. injection Hf as <-. inversion H1; subst.
  constructor; [|constructor; assumption]. apply num_vec_ok. unfold item_ok in *. change (2 ^ 32) with 4294967296 in *. lia.
Qed.
(* the script code changes only through OP_CODESEPARATOR, to what is left of the script *)
Lemma checksig_bch verify c c' : op_checksig o flags sv verify c = COk c' -> e_bch c' = e_bch c.
Proof.
  unfold op_checksig. destruct c as [stk alt vfx opc bch]. cbn [e_stack e_alt e_bch].
  destruct stk as [|key [|sig r]]; try discriminate.
  destruct (check_signature_encoding _ _ _); cbn [cbind]; try discriminate.
  destruct (check_pubkey_encoding _ _ _); cbn [cbind]; try discriminate.
  destruct (negb _ && _ && _); [discriminate|].
  destruct verify; [destruct (run_checksig _ _ _ _ _); [|discriminate]|]; intros K; injection K as <-; reflexivity.
Qed.

Lemma cms_bch mn verify c c' : op_checkmultisig o flags sv mn verify c = COk c' -> e_bch c' = e_bch c.
Proof.
  unfold op_checkmultisig. destruct c as [stk alt vfx opc bch]. cbn [e_stack e_alt e_bch e_opc].
  destruct stk as [|kc s1]; [discriminate|].
  destruct (script_num mn 4 kc) as [nk|e|]; cbn [cbind]; try discriminate.
  destruct ((nk <? 0)%Z || _); [discriminate|]. cbv zeta.
  destruct (MAX_OPS_PER_SCRIPT <? _); [discriminate|].
  destruct (length s1 <? _)%nat; [discriminate|].
  destruct (skipn (Z.to_nat nk) s1) as [|sc s3]; [discriminate|].
  destruct (script_num mn 4 sc) as [ns|e|]; cbn [cbind]; try discriminate.
  destruct ((ns <? 0)%Z || _); [discriminate|].
  destruct (length s3 <? _)%nat; [discriminate|].
  destruct (cms_loop _ _ _ _ _ _) as [ok|e|]; cbn [cbind]; try discriminate.
  destruct (negb ok && _ && _); [discriminate|].
  destruct (skipn (Z.to_nat ns) s3) as [|dummy r]; [discriminate|].
  destruct (_ && negb (len dummy =? 0)); [discriminate|].
  destruct verify; [destruct ok; [|discriminate]|]; intros K; injection K as <-; reflexivity.
Qed.

Lemma exec_bch op rest fx c c' : exec_op o flags sv ctx op rest fx c = COk c' ->
  e_bch c' = e_bch c \/ e_bch c' = rest.
Proof.
  intros H.
  destruct op; cbn [exec_op] in H; try discriminate H.
  all: try (apply checksig_bch in H; left; assumption).
  all: try (apply cms_bch in H; left; assumption).
  all: try (apply cltv_inv in H; subst; left; reflexivity).
  all: try (apply csv_inv in H; subst; left; reflexivity).
  all: try (apply on_stack_inv in H; destruct H as (st' & Hf & ->); left; reflexivity).
  all: destruct c as [stk alt vfx opc bch]; cbn [e_stack e_alt e_vf e_bch set_stack set_alt set_vf set_bch] in *.
  all: unfold op_if, op_nop_upgradable in H; cbn [e_stack e_alt e_vf e_bch set_stack set_alt set_vf set_bch] in H;
       blind H; injection H as <-; cbn [e_bch]; auto.
Qed.

Lemma step_bch op data rest c c' : VMcore.step o flags sv ctx op data rest c = COk c' ->
  e_bch c' = e_bch c \/ e_bch c' = rest.
Proof.
  unfold VMcore.step. intros H.
  destruct (MAX_SCRIPT_ELEMENT_SIZE <? len data); [discriminate|].
  destruct ((96 <? b2n op) && _); [discriminate|].
  destruct (is_disabled op); [discriminate|].
  match type of H with cbind ?m _ = _ => destruct m as [s'|e|] eqn:E; cbn [cbind] in H; try discriminate H end.
  destruct (MAX_STACK_ITEMS <? _); [discriminate|]. injection H as <-.
  destruct c as [stk alt vfx opc bch]. cbn [e_stack e_alt e_vf e_opc e_bch set_opc] in *.
  destruct (forallb (fun b : bool => b) vfx && (b2n op <=? 78)).
  - destruct (flag_set flags VERIFY_MINIMALDATA && _); [discriminate|]. injection E as <-. left; reflexivity.
  - destruct (forallb (fun b : bool => b) vfx || _).
    + apply exec_bch in E. exact E.
    + injection E as <-. left; reflexivity.
Qed.

Definition items_ok (stk alt : list bytes) : Prop :=
  Forall item_ok stk /\ Forall item_ok alt /\ N.of_nat (length stk) < 2 ^ 32.

Lemma step_inv op data rest c c' : VMcore.step o flags sv ctx op data rest c = COk c' ->
  items_ok (e_stack c) (e_alt c) -> items_ok (e_stack c') (e_alt c').
Proof.
  unfold VMcore.step, items_ok. intros H (H1 & H2 & H3).
  destruct (MAX_SCRIPT_ELEMENT_SIZE <? len data) eqn:Ed; [discriminate|].
  destruct ((96 <? b2n op) && _); [discriminate|].
  destruct (is_disabled op); [discriminate|].
  match type of H with cbind ?m _ = _ => destruct m as [s'|e|] eqn:E; cbn [cbind] in H; try discriminate H end.
  destruct (MAX_STACK_ITEMS <? depth (e_stack s') + depth (e_alt s')) eqn:Es; [discriminate|].
  injection H as <-.
  assert (Hd : N.of_nat (length (e_stack s')) < 2 ^ 32).
  { unfold MAX_STACK_ITEMS, depth in Es. change (2 ^ 32) with 4294967296. lia. }
  assert (Hfa : Forall item_ok (e_stack s') /\ Forall item_ok (e_alt s')).
  { destruct c as [stk alt vfx opc bch]. cbn [e_stack e_alt e_vf e_opc set_opc] in *.
    destruct (forallb (fun b : bool => b) vfx && (b2n op <=? 78)).
    - destruct (flag_set flags VERIFY_MINIMALDATA && _); [discriminate|]. injection E as <-. cbn. split; [|assumption].
      constructor; [|assumption]. unfold item_ok, MAX_SCRIPT_ELEMENT_SIZE, len in *. change (2 ^ 32) with 4294967296. lia.
    - destruct (forallb (fun b : bool => b) vfx || _).
      + apply exec_inv in E; cbn [e_stack e_alt]; assumption.
      + injection E as <-. cbn. auto. }
  tauto.
Qed.

End Inv.
