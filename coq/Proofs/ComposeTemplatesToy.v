(* Proofs/ComposeTemplatesToy.v — composition C05 x C03: computations inside Coq.
   * Core's VerifyScript (Spec/VMcore.v) evaluated on the states the signer model reaches on the toy instance of
     Proofs/SolveToyC05.v: the composed theorems are not vacuous and agree with a direct kernel computation;
   * machine-checked witnesses for the three mismatches between Spec/Templates.v and Spec/VMcore.v that the domain
     hypotheses of Proofs/ComposeTemplates.v exclude: each is an input the template evaluator ACCEPTS and Core's
     VerifyScript REJECTS. *)
From PV Require Import Base.Bytes Base.Outcome Gen.GenFlags Spec.Templates Spec.VMTypes Spec.VMcore Model.Solve.
From PV Require Import Proofs.SolveP Proofs.SolveToyC05 Proofs.ComposeTemplatesEnc Proofs.ComposeTemplates.
Local Open Scope N_scope.

Definition id_hash (x : bytes) : bytes := x.
Definition toy_oracles : oracles := core_oracles t_hash160 t_sha256 t_verifies t_sighash id_hash id_hash id_hash.
Definition toy_ctx : txctx := {| tc_version := 1; tc_lock_time := 0; tc_sequence := 4294967295 |}.

Definition core_valid (o : oracles) (h160 s256 : bytes -> bytes) (fw : N) (pz : puzzle)
           (r : outcome (bytes * list bytes)) : bool :=
  match r with
  | Ret st => vres_is_ok (VerifyScript o (spend_of h160 s256 fw toy_ctx pz (fst st) (snd st)))
  | _ => false
  end.
Definition toy_core (fw : N) (r : outcome (bytes * list bytes)) : bool :=
  core_valid toy_oracles t_hash160 t_sha256 fw (pz_ms t_pub_of toy_kd 2 toy_ks) r.

(* 2-of-3 P2SH-P2WSH: invalid for Core after no pass / one pass, valid after both passes in either order, under the
   standard policy word and under DEFAULT_FLAGS *)
Lemma toy_core_runs :
  toy_core (std_policy_word false) (toy_run []) = false /\
  toy_core (std_policy_word false) (toy_run [toy_pass1]) = false /\
  toy_core DEFAULT_FLAGS (toy_run [toy_pass1]) = false /\
  toy_core (std_policy_word false) (toy_run [toy_pass1; toy_pass2]) = true /\
  toy_core (std_policy_word false) (toy_run [toy_pass2; toy_pass1]) = true /\
  toy_core DEFAULT_FLAGS (toy_run [toy_pass1; toy_pass2]) = true.
Proof. vm_compute. repeat split. Qed.

(* the same keys as a bare and as a P2SH 2-of-3 (signature version BASE: FindAndDelete runs) *)
Definition toy_run_kd (kd : kind) (passes : list pass) : outcome (bytes * list bytes) :=
  run t_hash160 t_sha256 t_verifies t_sign t_pub_of t_sighash false toy_p2sh kd 2 toy_ks passes ([], []).
Definition toy_core_kd (kd : kind) (fw : N) (passes : list pass) : bool :=
  core_valid toy_oracles t_hash160 t_sha256 fw (pz_ms t_pub_of kd 2 toy_ks) (toy_run_kd kd passes).

Lemma toy_core_legacy_runs :
  toy_core_kd K_MS (std_policy_word false) [toy_pass1] = false /\
  toy_core_kd K_MS (std_policy_word false) [toy_pass1; toy_pass2] = true /\
  toy_core_kd K_P2SH_MS (std_policy_word false) [toy_pass2] = false /\
  toy_core_kd K_P2SH_MS (std_policy_word false) [toy_pass2; toy_pass1] = true /\
  toy_core_kd K_P2WSH_MS (std_policy_word false) [toy_pass2; toy_pass1] = true.
Proof. vm_compute. repeat split. Qed.

(* ---- mismatch 1: FindAndDelete ------------------------------------------------------------------------------------ *)
(* P2PK whose "key" is the two bytes 05 06, scriptSig = push of the same two bytes, DEFAULT_FLAGS.  Digest := the
   script code itself; "verification" := the digest is the whole P2PK script.  Templates hashes the whole script:
   accepted.  Core removes the push of the signature from the script code first (leaving OP_CHECKSIG): rejected. *)
Definition mm_sighash (w : bool) (t : N) (sc : bytes) : option bytes := Some sc.
Definition mm1_verifies (k d s : bytes) : bool := bytes_eqb d [x02; x05; x06; xac].
Definition mm1_pz : puzzle := mkPuzzle K_P2PK 1 [[x05; x06]] [].
Definition mm1_ss : bytes := [x02; x05; x06].

Lemma mismatch_find_and_delete :
  eval_input t_hash160 t_sha256 mm1_verifies mm_sighash LAX mm1_pz mm1_ss [] = true /\
  VerifyScript (core_oracles t_hash160 t_sha256 mm1_verifies mm_sighash id_hash id_hash id_hash)
               (spend_of t_hash160 t_sha256 DEFAULT_FLAGS toy_ctx mm1_pz mm1_ss []) = VFail.
Proof. vm_compute. split; reflexivity. Qed.

(* ---- mismatch 2: element size ------------------------------------------------------------------------------------- *)
(* P2PK with a 521-byte "key": Templates never looks at the size of what the scriptPubKey pushes; Core: PUSH_SIZE *)
Definition mm_true (k d s : bytes) : bool := true.
Definition mm2_pz : puzzle := mkPuzzle K_P2PK 1 [repeat x07 521] [].
Definition mm2_ss : bytes := [x01; x07].

Lemma mismatch_element_size :
  eval_input t_hash160 t_sha256 mm_true mm_sighash LAX mm2_pz mm2_ss [] = true /\
  VerifyScript (core_oracles t_hash160 t_sha256 mm_true mm_sighash id_hash id_hash id_hash)
               (spend_of t_hash160 t_sha256 DEFAULT_FLAGS toy_ctx mm2_pz mm2_ss []) = VFail.
Proof. vm_compute. split; reflexivity. Qed.

(* ---- mismatch 3: all-zero witness program ------------------------------------------------------------------------- *)
(* P2WPKH whose key hash is twenty zero bytes: after `0 <program>` Core applies CastToBool to the program left on
   the stack and fails with EVAL_FALSE before looking at the witness; Templates goes straight to the witness *)
Definition zero_hash160 (x : bytes) : bytes := repeat x00 20.
Definition mm3_pz : puzzle := mkPuzzle K_P2WPKH 1 [] (repeat x00 20).
Definition mm3_wit : list bytes := [[x01]; x02 :: repeat x00 32].

Lemma mismatch_zero_program :
  eval_input zero_hash160 t_sha256 mm_true mm_sighash LAX mm3_pz [] mm3_wit = true /\
  VerifyScript (core_oracles zero_hash160 t_sha256 mm_true mm_sighash id_hash id_hash id_hash)
               (spend_of zero_hash160 t_sha256 DEFAULT_FLAGS toy_ctx mm3_pz [] mm3_wit) = VFail.
Proof. vm_compute. split; reflexivity. Qed.

(* ---- the converse needs `in_dom`: a scriptSig that is not push-only ------------------------------------------------ *)
(* P2PK, scriptSig = <sig> OP_NOP under DEFAULT_FLAGS (no SIGPUSHONLY, no CLEANSTACK): valid for Core, and outside the
   template evaluator's domain (it answers false), as the header of Spec/Templates.v says *)
Definition mm4_pz : puzzle := mkPuzzle K_P2PK 1 [[x07]] [].
Definition mm4_ss : bytes := [x01; x09; x61].

Lemma converse_needs_push_only :
  eval_input t_hash160 t_sha256 mm_true mm_sighash LAX mm4_pz mm4_ss [] = false /\
  VerifyScript (core_oracles t_hash160 t_sha256 mm_true mm_sighash id_hash id_hash id_hash)
               (spend_of t_hash160 t_sha256 DEFAULT_FLAGS toy_ctx mm4_pz mm4_ss []) = VOk tt.
Proof. vm_compute. split; reflexivity. Qed.
