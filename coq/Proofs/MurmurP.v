(* Proofs/MurmurP.v — the model of pycoin/bloomfilter.py (Model/Murmur.v) against Spec/MurmurSpec.v:
   murmur3 = MurmurHash3_x86_32 for every byte string (below 2^32 bytes) and EVERY integer seed (reduced mod 2^32
   by the arithmetic itself, never masked on entry); BloomFilter.add_item = BIP37 insert; bit-level
   characterisation of insert; an inserted element is matched (contains) and stays matched. *)
From PV Require Import Base.Bytes Base.Outcome Gen.GenRipemd Spec.RipemdSpec Spec.MurmurSpec Model.Ripemd Model.Murmur
  Proofs.WordsC19 Proofs.RipemdP.
From Coq Require Import ZifyBool ZifyNat.
Local Open Scope Z_scope.

Module MS := PV.Spec.MurmurSpec.
Module MM := PV.Model.Murmur.

(* ---- constants ---------------------------------------------------------------------------------------- *)
Record murmur_constants_stmt : Prop := {
  mc_c1 : gen_mm_c1 = MS.c1;
  mc_c2 : gen_mm_c2 = MS.c2;
  mc_n : gen_mm_n = 0xe6546b64;
  mc_f1 : gen_mm_f1 = 0x85ebca6b;
  mc_f2 : gen_mm_f2 = 0xc2b2ae35;
  mc_mult : gen_bloom_mult = 0xFBA4C795;
  mc_max : gen_bloom_max_size = 36000;
  mc_mask : gen_bloom_mask_array = map (fun k => 2 ^ Z.of_nat k) (seq 0 8);
  mc_lits : gen_murmur3_ints =
    [0; 0xCC9E2D51; 0x1B873593; 0xFFFFFFFC; 0; 4; 0xFF; 1; 0xFF; 8; 2; 0xFF; 16; 3; 24; 15; 0xFFFFFFFF; 17; 13;
     0xFFFFFFFF; 19; 5; 0xE6546B64; 0; 3; 3; 2; 0xFF; 16; 2; 3; 1; 0xFF; 8; 1; 2; 3; 0xFF; 15; 0xFFFFFFFF; 17;
     0xFFFFFFFF; 16; 0x85EBCA6B; 0xFFFFFFFF; 13; 0xC2B2AE35; 0xFFFFFFFF; 16; 0xFFFFFFFF];
  mc_shape : gen_c19_murmur_shape_ok = true
}.
Lemma murmur_constants : murmur_constants_stmt.
Proof. split; reflexivity. Qed.

(* ---- small facts ---------------------------------------------------------------------------------------- *)
Lemma b2z_small b : b2z b mod W = b2z b.
Proof. pose proof (b2z_range b). apply Z.mod_small. unfold W. lia. Qed.

Lemma land_FF b : Z.land (b2z b) 0xFF = b2z b.
Proof.
  change 0xFF with (Z.ones 8). rewrite Z.land_ones by lia. pose proof (b2z_range b).
  apply Z.mod_small. change (2 ^ 8) with 256. lia.
Qed.

Lemma lor_mul a b n : 0 <= n -> 0 <= a < 2 ^ n -> Z.lor a (b * 2 ^ n) = a + b * 2 ^ n.
Proof. intros. rewrite <- lor_low_shiftl by assumption. now rewrite Z.shiftl_mul_pow2. Qed.
Lemma lxor_mul a b n : 0 <= n -> 0 <= a < 2 ^ n -> Z.lxor a (b * 2 ^ n) = a + b * 2 ^ n.
Proof. intros. rewrite <- lxor_low_shiftl by assumption. now rewrite Z.shiftl_mul_pow2. Qed.

(* the little-endian load idiom of the loop *)
Lemma load_word b0 b1 b2 b3 :
  Z.lor (Z.lor (Z.lor (Z.land (b2z b0) 0xFF) (Z.shiftl (Z.land (b2z b1) 0xFF) 8))
               (Z.shiftl (Z.land (b2z b2) 0xFF) 16)) (Z.shiftl (b2z b3) 24) = MS.word4 b0 b1 b2 b3.
Proof.
  rewrite !land_FF. unfold MS.word4.
  pose proof (b2z_range b0). pose proof (b2z_range b1). pose proof (b2z_range b2). pose proof (b2z_range b3).
  rewrite (lor_low_shiftl (b2z b0) (b2z b1) 8) by (change (2 ^ 8) with 256; lia).
  rewrite (lor_low_shiftl _ (b2z b2) 16) by (change (2 ^ 8) with 256; change (2 ^ 16) with 65536; lia).
  rewrite (lor_low_shiftl _ (b2z b3) 24)
    by (change (2 ^ 8) with 256; change (2 ^ 16) with 65536; change (2 ^ 24) with 16777216; lia).
  change (2 ^ 8) with 256; change (2 ^ 16) with 65536; change (2 ^ 24) with 16777216. lia.
Qed.

Lemma mm_k_mod k : MM.mm_k k mod W = MS.mix_k (k mod W).
Proof.
  unfold MM.mm_k, MS.mix_k. rewrite mul_mod.
  change 17 with (32 - 15). rewrite rol_idiom_mod by lia. rewrite mul_mod.
  rewrite (mc_c1 murmur_constants), (mc_c2 murmur_constants). reflexivity.
Qed.

(* h1 ^= k1; h1 = (h1 << 13) | ((h1 & 0xFFFFFFFF) >> 19); h1 = h1 * 5 + 0xE6546B64 *)
Lemma mix_h_mod h k :
  (Z.lor (Z.shiftl (Z.lxor h (MM.mm_k k)) 13) (Z.shiftr (Z.land (Z.lxor h (MM.mm_k k)) 0xFFFFFFFF) 19) * 5 + gen_mm_n) mod W
  = MS.mix_h (h mod W) (k mod W).
Proof.
  unfold MS.mix_h. rewrite add_mod, mul_mod. change 19 with (32 - 13). rewrite rol_idiom_mod by lia.
  rewrite lxor_mod, mm_k_mod. rewrite (mc_n murmur_constants). reflexivity.
Qed.

Lemma nth_skipn {A} (d : A) : forall a j (l : list A), nth (a + j) l d = nth j (skipn a l) d.
Proof.
  induction a as [|a IH]; intros j l; [reflexivity|].
  destruct l as [|x l]; [cbn; now destruct j|]. cbn [Nat.add nth skipn]. apply IH.
Qed.

Lemma nth_skipn0 {A} (d : A) a (l : list A) : nth a l d = nth 0 (skipn a l) d.
Proof. rewrite <- nth_skipn. now rewrite Nat.add_0_r. Qed.

Lemma byte_at_ok data (i : nat) : (i < length data)%nat -> MM.byte_at data (Z.of_nat i) = Ret (b2z (nth i data x00)).
Proof.
  intros H. unfold MM.byte_at. rewrite (py_index_ok data (Z.of_nat i) x00) by lia.
  rewrite Nat2Z.id. reflexivity.
Qed.

(* ---- the block loop --------------------------------------------------------------------------------------- *)
Fixpoint blocks_n (n : nat) (d : bytes) (h : Z) : Z :=
  match n with
  | O => h
  | S n' => match d with
            | b0 :: b1 :: b2 :: b3 :: rest => blocks_n n' rest (MS.mix_h h (MS.word4 b0 b1 b2 b3))
            | _ => h
            end
  end.

Lemma mm_loop_congr data : forall n a h hs, (4 * (a + n) <= length data)%nat -> h mod W = hs ->
  exists h', MM.mm_loop (map (fun k => 4 * Z.of_nat k) (seq a n)) data h = Ret h' /\
             h' mod W = blocks_n n (skipn (4 * a) data) hs.
Proof.
  induction n as [|n IH]; intros a h hs Hlen Hh.
  - exists h. split; [reflexivity|exact Hh].
  - cbn [seq map MM.mm_loop].
    replace (4 * Z.of_nat a) with (Z.of_nat (4 * a)) by lia.
    replace (Z.of_nat (4 * a) + 1) with (Z.of_nat (4 * a + 1)) by lia.
    replace (Z.of_nat (4 * a) + 2) with (Z.of_nat (4 * a + 2)) by lia.
    replace (Z.of_nat (4 * a) + 3) with (Z.of_nat (4 * a + 3)) by lia.
    rewrite !byte_at_ok by lia. cbn [bind].
    rewrite (nth_skipn0 x00 (4 * a)), !(nth_skipn x00 (4 * a)).
    assert (Hs : (4 <= length (skipn (4 * a) data))%nat) by (rewrite skipn_length; lia).
    specialize (IH (S a)).
    replace (4 * S a)%nat with (4 * a + 4)%nat in IH by lia. rewrite <- skipn_add in IH.
    destruct (skipn (4 * a) data) as [|b0 [|b1 [|b2 [|b3 rest]]]]; try (cbn [length] in Hs; lia).
    cbn [nth blocks_n]. rewrite load_word.
    cbn [skipn] in IH. apply IH; [lia|].
    rewrite mix_h_mod, Hh. f_equal. unfold MS.word4.
    pose proof (b2z_range b0). pose proof (b2z_range b1). pose proof (b2z_range b2). pose proof (b2z_range b3).
    apply Z.mod_small. unfold W. lia.
Qed.

Lemma body_split : forall n d h, (4 * n <= length d)%nat -> MS.body d h = MS.body (skipn (4 * n) d) (blocks_n n d h).
Proof.
  induction n as [|n IH]; intros d h H; [reflexivity|].
  destruct d as [|b0 [|b1 [|b2 [|b3 rest]]]]; try (cbn [length] in H; lia).
  replace (4 * S n)%nat with (4 + 4 * n)%nat by lia. rewrite <- skipn_add.
  cbn [skipn blocks_n]. cbn [MS.body]. apply IH. cbn [length] in H. lia.
Qed.

(* ---- tail, finalisation, the whole function ------------------------------------------------------------ *)
Lemma rounded_end (n : nat) : Z.of_nat n < 2 ^ 32 -> Z.land (Z.of_nat n) 0xFFFFFFFC = Z.of_nat (4 * (n / 4)).
Proof.
  intros H. change 0xFFFFFFFC with (Z.land (Z.ones 32) (Z.lnot (Z.ones 2))).
  rewrite Z.land_assoc, Z.land_ones by lia. rewrite Z.mod_small by lia.
  rewrite <- Z.ldiff_land, Z.ldiff_ones_r by lia.
  rewrite Z.shiftl_mul_pow2, Z.shiftr_div_pow2 by lia. change (2 ^ 2) with (Z.of_nat 4).
  rewrite <- Nat2Z.inj_div, <- Nat2Z.inj_mul. f_equal. lia.
Qed.

Lemma val_mod4 (n : nat) : Z.land (Z.of_nat n) 3 = Z.of_nat (n mod 4).
Proof.
  change 3 with (Z.ones 2). rewrite Z.land_ones by lia. change (2 ^ 2) with (Z.of_nat 4).
  now rewrite <- Nat2Z.inj_mod.
Qed.

Lemma range4_seq (n : nat) : MM.range4 (Z.of_nat (4 * n)) = map (fun k => 4 * Z.of_nat k) (seq 0 n).
Proof.
  unfold MM.range4. do 2 f_equal.
  replace ((Z.of_nat (4 * n) + 3) / 4) with (Z.of_nat n); [apply Nat2Z.id|].
  apply Z.div_unique with (r := 3); lia.
Qed.

Lemma div_small_mod x d : 0 < d -> 0 <= x < W -> (x / d) mod W = x / d.
Proof.
  intros Hd Hx. apply Z.mod_small. split; [apply Z.div_pos; lia|].
  apply Z.le_lt_trans with x; [|lia]. apply Z.div_le_upper_bound; [lia|nia].
Qed.

Lemma shr_xor_mod h k : 0 <= k ->
  Z.lxor h (Z.shiftr (Z.land h 0xFFFFFFFF) k) mod W = Z.lxor (h mod W) ((h mod W) / 2 ^ k).
Proof.
  intros Hk. rewrite lxor_mod, land_M32, Z.shiftr_div_pow2 by exact Hk.
  rewrite div_small_mod; [reflexivity| apply Z.pow_pos_nonneg; lia | apply mod_W_range].
Qed.

Lemma fmix_mod h :
  let h1 := Z.lxor h (Z.shiftr (Z.land h 0xFFFFFFFF) 16) in
  let h2 := h1 * gen_mm_f1 in
  let h3 := Z.lxor h2 (Z.shiftr (Z.land h2 0xFFFFFFFF) 13) in
  let h4 := h3 * gen_mm_f2 in
  let h5 := Z.lxor h4 (Z.shiftr (Z.land h4 0xFFFFFFFF) 16) in
  Z.land h5 0xFFFFFFFF = MS.fmix32 (h mod W).
Proof.
  cbv zeta. rewrite land_M32. unfold MS.fmix32.
  rewrite shr_xor_mod, mul_mod, shr_xor_mod, mul_mod, shr_xor_mod by lia.
  rewrite (mc_f1 murmur_constants), (mc_f2 murmur_constants). reflexivity.
Qed.

(* C19, murmur3: every byte string below 2^32 bytes, every integer seed (negative and >= 2^32 included) *)
Theorem murmur3_is_reference (data : bytes) (seed : Z) : Z.of_nat (length data) < 2 ^ 32 ->
  MM.murmur3 data seed = Ret (MS.murmur3_32 data (seed mod W)).
Proof.
  intros Hlen. unfold MM.murmur3, MS.murmur3_32.
  set (len := length data) in *. set (n := (len / 4)%nat).
  pose proof (Nat.div_mod len 4 ltac:(lia)) as Hdm. fold n in Hdm.
  pose proof (Nat.mod_upper_bound len 4 ltac:(lia)) as Hmod.
  rewrite rounded_end by exact Hlen. fold n. rewrite range4_seq, val_mod4.
  destruct (mm_loop_congr data n 0 seed (seed mod W)) as (h1 & E1 & C1); [fold len; lia|reflexivity|].
  rewrite E1. cbn [bind]. change (skipn (4 * 0) data) with data in C1.
  rewrite (body_split n data) by (fold len; lia). rewrite <- C1. clear E1 C1.
  assert (Ht : length (skipn (4 * n) data) = (len mod 4)%nat) by (rewrite skipn_length; fold len; lia).
  assert (Hnth : forall j, (j < len mod 4)%nat ->
            MM.byte_at data (Z.of_nat (4 * n) + Z.of_nat j) = Ret (b2z (nth j (skipn (4 * n) data) x00))).
  { intros j Hj. rewrite <- Nat2Z.inj_add, byte_at_ok by (fold len; lia). now rewrite nth_skipn. }
  pose proof (Hnth 0%nat) as H0. pose proof (Hnth 1%nat) as H1. pose proof (Hnth 2%nat) as H2.
  change (Z.of_nat 0) with 0 in H0. rewrite Z.add_0_r in H0.
  change (Z.of_nat 1) with 1 in H1. change (Z.of_nat 2) with 2 in H2. clear Hnth.
  assert (Hll : Z.of_nat len mod W = Z.of_nat len) by (apply Z.mod_small; unfold W; lia).
  destruct (skipn (4 * n) data) as [|b0 [|b1 [|b2 [|b3 rest]]]]; cbn [length] in Ht; try lia;
    rewrite <- Ht; cbn [Z.of_nat Pos.of_succ_nat Pos.succ Z.eqb Pos.eqb orb]; cbn [nth] in H0, H1, H2.
  - (* no tail *)
    cbn [bind]. cbn [MS.body]. f_equal. etransitivity; [apply fmix_mod|]. rewrite lxor_mod, Hll. reflexivity.
  - (* one byte *)
    rewrite H0 by lia. cbn [bind]. cbn [MS.body]. f_equal.
    rewrite Z.lor_0_l, land_FF.
    etransitivity; [apply fmix_mod|]. rewrite lxor_mod, Hll, lxor_mod, mm_k_mod, b2z_small. reflexivity.
  - (* two bytes *)
    rewrite H1 by lia. cbn [bind]. rewrite H0 by lia. cbn [bind]. cbn [MS.body]. f_equal.
    rewrite Z.lor_0_l, !land_FF.
    pose proof (b2z_range b0) as R0. pose proof (b2z_range b1) as R1.
    assert (Ek : Z.lor (Z.shiftl (b2z b1) 8) (b2z b0) = Z.lxor (b2z b1 * 256) (b2z b0)).
    { rewrite Z.lor_comm, Z.lxor_comm. change 256 with (2 ^ 8).
      rewrite lor_low_shiftl, lxor_mul by (change (2 ^ 8) with 256; lia). reflexivity. }
    rewrite Ek.
    assert (Es : Z.lxor (b2z b1 * 256) (b2z b0) mod W = Z.lxor (b2z b1 * 256) (b2z b0)).
    { rewrite Z.lxor_comm. change 256 with (2 ^ 8). rewrite lxor_mul by (change (2 ^ 8) with 256; lia).
      apply Z.mod_small. change (2 ^ 8) with 256. unfold W. lia. }
    etransitivity; [apply fmix_mod|]. rewrite lxor_mod, Hll, lxor_mod, mm_k_mod, Es. reflexivity.
  - (* three bytes *)
    rewrite H2 by lia. cbn [bind]. rewrite H1 by lia. cbn [bind]. rewrite H0 by lia. cbn [bind]. cbn [MS.body]. f_equal.
    rewrite !land_FF.
    pose proof (b2z_range b0) as R0. pose proof (b2z_range b1) as R1. pose proof (b2z_range b2) as R2.
    assert (Ev : Z.lor (Z.lor (Z.shiftl (b2z b2) 16) (Z.shiftl (b2z b1) 8)) (b2z b0)
                 = b2z b0 + 256 * b2z b1 + 65536 * b2z b2).
    { rewrite (Z.lor_comm (Z.shiftl (b2z b2) 16)). rewrite (Z.shiftl_mul_pow2 (b2z b1)) by lia.
      rewrite (lor_low_shiftl (b2z b1 * 2 ^ 8) (b2z b2) 16) by (change (2 ^ 8) with 256; change (2 ^ 16) with 65536; lia).
      rewrite Z.lor_comm.
      replace (b2z b1 * 2 ^ 8 + b2z b2 * 2 ^ 16) with ((b2z b1 + b2z b2 * 256) * 2 ^ 8)
        by (change (2 ^ 8) with 256; change (2 ^ 16) with 65536; lia).
      rewrite lor_mul by (change (2 ^ 8) with 256; lia). change (2 ^ 8) with 256. lia. }
    assert (Ew : Z.lxor (Z.lxor (b2z b2 * 65536) (b2z b1 * 256)) (b2z b0)
                 = b2z b0 + 256 * b2z b1 + 65536 * b2z b2).
    { rewrite (Z.lxor_comm (b2z b2 * 65536)). change 65536 with (2 ^ 16).
      rewrite (lxor_mul (b2z b1 * 256) (b2z b2) 16) by (change (2 ^ 16) with 65536; lia).
      rewrite Z.lxor_comm.
      replace (b2z b1 * 256 + b2z b2 * 2 ^ 16) with ((b2z b1 + b2z b2 * 256) * 2 ^ 8)
        by (change (2 ^ 8) with 256; change (2 ^ 16) with 65536; lia).
      rewrite lxor_mul by (change (2 ^ 8) with 256; lia). change (2 ^ 8) with 256. lia. }
    rewrite Ev, Ew.
    assert (Es : (b2z b0 + 256 * b2z b1 + 65536 * b2z b2) mod W = b2z b0 + 256 * b2z b1 + 65536 * b2z b2)
      by (apply Z.mod_small; unfold W; lia).
    etransitivity; [apply fmix_mod|]. rewrite lxor_mod, Hll, lxor_mod, mm_k_mod, Es. reflexivity.
Qed.

(* ---- BloomFilter ------------------------------------------------------------------------------------------ *)
Definition bloom_wf (st : bloom) : Prop :=
  bf_bit_count st = 8 * Z.of_nat (length (bf_bytes st)) /\ (0 < length (bf_bytes st))%nat.

Lemma mask_lookup m : 0 <= m < 8 -> py_index gen_bloom_mask_array m = Ret (2 ^ m).
Proof.
  intros H. assert (C : m = 0 \/ m = 1 \/ m = 2 \/ m = 3 \/ m = 4 \/ m = 5 \/ m = 6 \/ m = 7) by lia.
  destruct C as [-> | [-> | [-> | [-> | [-> | [-> | [-> | ->]]]]]]]; reflexivity.
Qed.

(* or-ing one of the eight masks into a byte: stays a byte, sets that bit, changes no other *)
Definition byte_or_ok (b : byte) : bool :=
  forallb (fun m => let nv := Z.lor (b2z b) (2 ^ m) in
     (0 <=? nv) && (nv <? 256) &&
     forallb (fun j => Bool.eqb (Z.testbit (b2z (z2b nv)) j) (Z.testbit (b2z b) j || (j =? m))) [0; 1; 2; 3; 4; 5; 6; 7])
    [0; 1; 2; 3; 4; 5; 6; 7].
Lemma byte_or_all b : byte_or_ok b = true.
Proof. destruct b; vm_compute; reflexivity. Qed.

Lemma in_0_7 m : 0 <= m < 8 -> In m [0; 1; 2; 3; 4; 5; 6; 7].
Proof. intros H. cbn. lia. Qed.

Lemma byte_or_range b m : 0 <= m < 8 -> 0 <= Z.lor (b2z b) (2 ^ m) < 256.
Proof.
  intros Hm. pose proof (byte_or_all b) as H. unfold byte_or_ok in H.
  pose proof (proj1 (forallb_forall _ _) H m (in_0_7 m Hm)) as K. cbv zeta in K.
  apply andb_true_iff in K. destruct K as [K _]. lia.
Qed.

Lemma byte_or_bits b m j : 0 <= m < 8 -> 0 <= j < 8 ->
  Z.testbit (b2z (z2b (Z.lor (b2z b) (2 ^ m)))) j = Z.testbit (b2z b) j || (j =? m).
Proof.
  intros Hm Hj. pose proof (byte_or_all b) as H. unfold byte_or_ok in H.
  pose proof (proj1 (forallb_forall _ _) H m (in_0_7 m Hm)) as K. cbv zeta in K.
  apply andb_true_iff in K. destruct K as [_ K].
  pose proof (proj1 (forallb_forall _ _) K j (in_0_7 j Hj)) as L. now apply Bool.eqb_prop in L.
Qed.

Lemma set_nth_list_spec (f : byte -> byte) : forall k (l : bytes), (k < length l)%nat ->
  set_nth_list k (f (nth k l x00)) l = MS.set_nth k f l.
Proof.
  induction k as [|k IH]; intros [|x l] H; cbn [length] in H; try lia; cbn [set_nth_list MS.set_nth nth]; [reflexivity|].
  f_equal. apply IH. lia.
Qed.

Lemma set_nth_length f : forall k (l : bytes), length (MS.set_nth k f l) = length l.
Proof. induction k as [|k IH]; intros [|x l]; cbn [MS.set_nth length]; auto. Qed.

Lemma set_nth_nth f d : forall k (l : bytes) j, (k < length l)%nat ->
  nth j (MS.set_nth k f l) d = if (j =? k)%nat then f (nth k l d) else nth j l d.
Proof.
  induction k as [|k IH]; intros [|x l] j H; cbn [length] in H; try lia; cbn [MS.set_nth].
  - destruct j; reflexivity.
  - destruct j as [|j]; [reflexivity|]. cbn [nth Nat.eqb]. apply IH. lia.
Qed.

Lemma set_bit_length v n : length (MS.set_bit v n) = length v.
Proof. apply set_nth_length. Qed.

(* set_bit of the model = BIP37's  vData[n >> 3] |= 1 << (7 & n)  at n = v mod bit_count *)
Lemma set_bit_spec st v : bloom_wf st ->
  MM.set_bit st v = Ret (mkBloom (MS.set_bit (bf_bytes st) (v mod bf_bit_count st)) (bf_bit_count st) (bf_k st) (bf_tweak st)).
Proof.
  intros [Hbc Hpos]. unfold MM.set_bit, MM.index_for_bit.
  destruct (bf_bit_count st =? 0) eqn:E0; [lia|].
  set (idx := v mod bf_bit_count st).
  assert (Hidx : 0 <= idx < 8 * Z.of_nat (length (bf_bytes st))).
  { unfold idx. rewrite <- Hbc. apply Z.mod_pos_bound. lia. }
  assert (Hm : 0 <= idx mod 8 < 8) by (apply Z.mod_pos_bound; lia).
  assert (Hq : 0 <= idx / 8 < Z.of_nat (length (bf_bytes st))).
  { split; [apply Z.div_pos; lia|]. apply Z.div_lt_upper_bound; lia. }
  rewrite mask_lookup by exact Hm. cbn [bind].
  rewrite (py_index_ok (bf_bytes st) (idx / 8) x00) by exact Hq. cbn [bind].
  pose proof (byte_or_range (nth (Z.to_nat (idx / 8)) (bf_bytes st) x00) (idx mod 8) Hm) as Hr.
  destruct ((0 <=? _) && (_ <? 256)) eqn:E1; [|lia].
  unfold py_setitem. destruct (idx / 8 <? 0) eqn:E2; [lia|].
  destruct ((0 <=? idx / 8) && (idx / 8 <? Z.of_nat (length (bf_bytes st)))) eqn:E3; [|lia].
  cbn [bind]. unfold MS.set_bit.
  rewrite (set_nth_list_spec (fun b => z2b (Z.lor (b2z b) (2 ^ (idx mod 8))))) by lia. reflexivity.
Qed.

(* add_item of the model = BIP37 insert, for every non-empty filter, every hash count, every tweak *)
Lemma add_item_loop_spec item : Z.of_nat (length item) < 2 ^ 32 -> forall is st, bloom_wf st ->
  add_item_loop is item st =
  Ret (mkBloom (fold_left (fun v i => MS.set_bit v (MS.bloom_index (length v) (bf_tweak st) item i)) is (bf_bytes st))
               (bf_bit_count st) (bf_k st) (bf_tweak st)).
Proof.
  intros Hitem. induction is as [|i is IH]; intros st Hwf.
  - destruct st; reflexivity.
  - cbn [add_item_loop fold_left].
    rewrite murmur3_is_reference by exact Hitem. cbn [bind].
    pose proof Hwf as [Hbc Hpos].
    destruct (bf_bit_count st =? 0) eqn:E0; [lia|].
    rewrite set_bit_spec by exact Hwf. cbn [bind].
    rewrite Z.mod_mod by lia.
    rewrite IH.
    2:{ split; cbn [bf_bytes bf_bit_count]; rewrite set_bit_length; assumption. }
    cbn [bf_bytes bf_bit_count bf_k bf_tweak].
    unfold MS.bloom_index, MS.bloom_seed. rewrite (mc_mult murmur_constants).
    rewrite Hbc. rewrite (Z.mul_comm 8). reflexivity.
Qed.

Theorem add_item_is_bip37_insert st item : bloom_wf st -> Z.of_nat (length item) < 2 ^ 32 ->
  MM.add_item st item =
  Ret (mkBloom (MS.insert (bf_bytes st) (bf_k st) (bf_tweak st) item) (bf_bit_count st) (bf_k st) (bf_tweak st)).
Proof.
  intros Hwf Hitem. unfold MM.add_item. destruct Hwf as [Hbc Hpos].
  destruct (bf_bit_count st =? 0) eqn:E0; [lia|].
  rewrite add_item_loop_spec by (try split; assumption). reflexivity.
Qed.

(* the constructor gives a well-formed filter for 0 < size <= 36000 *)
Lemma bloom_init_wf size k tweak : 0 < size <= 36000 ->
  exists st, bloom_init size k tweak = Ret st /\ bloom_wf st /\ bf_bytes st = repeat x00 (Z.to_nat size)
             /\ bf_k st = k /\ bf_tweak st = tweak.
Proof.
  intros H. unfold bloom_init. rewrite (mc_max murmur_constants).
  destruct (size >? 36000) eqn:E1; [lia|]. destruct (size <? 0) eqn:E2; [lia|].
  eexists; split; [reflexivity|]. unfold bloom_wf. cbn [bf_bytes bf_bit_count bf_k bf_tweak].
  rewrite repeat_length. repeat split; lia.
Qed.

(* the empty filter: add_item returns at once; BIP37 insert on an empty vData changes nothing either *)
Lemma set_nth_nil k f : MS.set_nth k f [] = [].
Proof. destruct k; reflexivity. Qed.

Lemma insert_nil k tweak item : MS.insert [] k tweak item = [].
Proof.
  unfold MS.insert. generalize (MS.hash_nums k) as is. induction is as [|i is IH]; [reflexivity|].
  cbn [fold_left]. unfold MS.set_bit at 2. rewrite set_nth_nil. exact IH.
Qed.

(* ---- what insert does to the bits ---------------------------------------------------------------------------- *)
Lemma set_bit_bits v idx n : 0 <= idx < 8 * Z.of_nat (length v) -> 0 <= n < 8 * Z.of_nat (length v) ->
  MS.bit_is_set (MS.set_bit v idx) n = MS.bit_is_set v n || (n =? idx).
Proof.
  intros Hidx Hn. unfold MS.bit_is_set, MS.set_bit.
  assert (Hq : 0 <= idx / 8 < Z.of_nat (length v)).
  { split; [apply Z.div_pos; lia|]. apply Z.div_lt_upper_bound; lia. }
  assert (Hm : 0 <= idx mod 8 < 8) by (apply Z.mod_pos_bound; lia).
  assert (Hnm : 0 <= n mod 8 < 8) by (apply Z.mod_pos_bound; lia).
  assert (Hnq : 0 <= n / 8) by (apply Z.div_pos; lia).
  rewrite set_nth_nth by lia.
  pose proof (Z.div_mod n 8 ltac:(lia)) as Dn. pose proof (Z.div_mod idx 8 ltac:(lia)) as Di.
  destruct (Z.to_nat (n / 8) =? Z.to_nat (idx / 8))%nat eqn:Eq.
  - apply Nat.eqb_eq in Eq. assert (Eq' : n / 8 = idx / 8) by lia.
    rewrite byte_or_bits by assumption. rewrite Eq'.
    destruct (n mod 8 =? idx mod 8) eqn:Em; destruct (n =? idx) eqn:En; try reflexivity; lia.
  - apply Nat.eqb_neq in Eq. destruct (n =? idx) eqn:En; [|now rewrite orb_false_r].
    apply Z.eqb_eq in En. subst n. lia.
Qed.

Lemma insert_fold_bits (idxf : Z -> Z) (L : nat) n : (forall i, 0 <= idxf i < 8 * Z.of_nat L) ->
  0 <= n < 8 * Z.of_nat L -> forall is v, length v = L ->
  let v' := fold_left (fun v i => MS.set_bit v (idxf i)) is v in
  length v' = L /\ MS.bit_is_set v' n = MS.bit_is_set v n || existsb (fun i => n =? idxf i) is.
Proof.
  intros Hidx Hn. induction is as [|i is IH]; intros v Hv; cbv zeta.
  - split; [exact Hv|]. cbn. now rewrite orb_false_r.
  - cbn [fold_left existsb].
    destruct (IH (MS.set_bit v (idxf i))) as [H1 H2]; [now rewrite set_bit_length|].
    cbv zeta in H1, H2. split; [exact H1|]. rewrite H2.
    rewrite set_bit_bits by (rewrite Hv; auto). now rewrite orb_assoc.
Qed.

Lemma insert_as_fold v k tweak item :
  MS.insert v k tweak item = fold_left (fun v' i => MS.set_bit v' (MS.bloom_index (length v) tweak item i)) (MS.hash_nums k) v.
Proof.
  unfold MS.insert. generalize (MS.hash_nums k) as is.
  assert (G : forall is w, length w = length v ->
     fold_left (fun v0 i => MS.set_bit v0 (MS.bloom_index (length v0) tweak item i)) is w =
     fold_left (fun v' i => MS.set_bit v' (MS.bloom_index (length v) tweak item i)) is w).
  { induction is as [|i is IH]; intros w Hw; [reflexivity|]. cbn [fold_left]. rewrite Hw.
    apply IH. now rewrite set_bit_length. }
  intros is. now apply G.
Qed.

Lemma bloom_index_range L tweak item i : (0 < L)%nat -> 0 <= MS.bloom_index L tweak item i < 8 * Z.of_nat L.
Proof. intros H. unfold MS.bloom_index. rewrite (Z.mul_comm 8). apply Z.mod_pos_bound. lia. Qed.

(* exactly the prescribed bits: bit n of the filter after insert is set iff it was set before or n is one of the
   k BIP37 indices murmur3(item, i*0xFBA4C795 + tweak) mod (8*size), i < k *)
Theorem insert_sets_exactly v k tweak item n : (0 < length v)%nat -> 0 <= n < 8 * Z.of_nat (length v) ->
  length (MS.insert v k tweak item) = length v /\
  MS.bit_is_set (MS.insert v k tweak item) n =
  MS.bit_is_set v n || existsb (fun i => n =? MS.bloom_index (length v) tweak item i) (MS.hash_nums k).
Proof.
  intros Hpos Hn. rewrite insert_as_fold.
  apply (insert_fold_bits (MS.bloom_index (length v) tweak item) (length v) n); auto.
  intros i. now apply bloom_index_range.
Qed.

(* ... hence the peer's test succeeds on the inserted element, and keeps succeeding after any further inserts *)
Theorem inserted_is_contained v k tweak item : (0 < length v)%nat ->
  MS.contains (MS.insert v k tweak item) k tweak item = true.
Proof.
  intros Hpos. unfold MS.contains. apply forallb_forall. intros i Hi.
  destruct (insert_sets_exactly v k tweak item (MS.bloom_index (length v) tweak item i) Hpos) as [Hl Hb].
  { now apply bloom_index_range. }
  rewrite Hl, Hb. apply orb_true_iff. right. apply existsb_exists. exists i. split; [exact Hi|apply Z.eqb_refl].
Qed.

Theorem contains_monotone v k tweak item k' tweak' item' : (0 < length v)%nat ->
  MS.contains v k tweak item = true -> MS.contains (MS.insert v k' tweak' item') k tweak item = true.
Proof.
  intros Hpos H. unfold MS.contains in *. apply forallb_forall. intros i Hi.
  pose proof (proj1 (forallb_forall _ _) H i Hi) as Hb.
  destruct (insert_sets_exactly v k' tweak' item' (MS.bloom_index (length v) tweak item i) Hpos) as [Hl Hs].
  { now apply bloom_index_range. }
  rewrite Hl, Hs, Hb. reflexivity.
Qed.

(* ---- model level: what a peer sees -------------------------------------------------------------------------- *)
Lemma add_item_wf st item : bloom_wf st -> Z.of_nat (length item) < 2 ^ 32 ->
  exists st', MM.add_item st item = Ret st' /\ bloom_wf st' /\
              bf_bytes st' = MS.insert (bf_bytes st) (bf_k st) (bf_tweak st) item /\
              bf_k st' = bf_k st /\ bf_tweak st' = bf_tweak st /\ length (bf_bytes st') = length (bf_bytes st).
Proof.
  intros Hwf Hitem. eexists. split; [apply add_item_is_bip37_insert; assumption|].
  cbn [bf_bytes bf_bit_count bf_k bf_tweak].
  destruct Hwf as [Hbc Hpos].
  assert (Hl : length (MS.insert (bf_bytes st) (bf_k st) (bf_tweak st) item) = length (bf_bytes st)).
  { destruct (insert_sets_exactly (bf_bytes st) (bf_k st) (bf_tweak st) item 0 Hpos) as [Hl _]; [lia|exact Hl]. }
  unfold bloom_wf. cbn [bf_bytes bf_bit_count]. rewrite Hl. repeat split; auto.
Qed.

(* an added element is matched by the peer's BIP37 test, immediately and after any further additions *)
Lemma added_item_stays_matched : forall (more : list bytes) st item,
  bloom_wf st -> Z.of_nat (length item) < 2 ^ 32 -> Forall (fun it => Z.of_nat (length it) < 2 ^ 32) more ->
  exists st' st'', MM.add_item st item = Ret st' /\ add_items st' more = Ret st'' /\
    MS.contains (bf_bytes st') (bf_k st) (bf_tweak st) item = true /\
    MS.contains (bf_bytes st'') (bf_k st) (bf_tweak st) item = true.
Proof.
  intros more st item Hwf Hitem Hmore.
  destruct (add_item_wf st item Hwf Hitem) as (st' & E & Hwf' & Hb & Hk & Ht & Hl).
  assert (C : MS.contains (bf_bytes st') (bf_k st) (bf_tweak st) item = true).
  { rewrite Hb. apply inserted_is_contained. apply Hwf. }
  exists st'.
  assert (G : forall more s, bloom_wf s -> Forall (fun it => Z.of_nat (length it) < 2 ^ 32) more ->
            MS.contains (bf_bytes s) (bf_k st) (bf_tweak st) item = true ->
            exists s'', add_items s more = Ret s'' /\ MS.contains (bf_bytes s'') (bf_k st) (bf_tweak st) item = true).
  { clear. induction more as [|it more IH]; intros s Hs Hm Hc.
    - exists s. split; [reflexivity|exact Hc].
    - inversion Hm as [|? ? Hit Hrest]; subst.
      destruct (add_item_wf s it Hs Hit) as (s1 & E1 & Hs1 & Hb1 & _).
      cbn [add_items]. rewrite E1. cbn [bind]. apply IH; [exact Hs1|exact Hrest|].
      rewrite Hb1. apply contains_monotone; [apply Hs|exact Hc]. }
  destruct (G more st' Hwf' Hmore C) as (st'' & E2 & C2).
  exists st''. auto.
Qed.

(* the statement over ALL sizes 0..36000 (the empty filter included), every hash count, every tweak *)
Theorem bloom_statement_holds size k tweak item : 0 <= size <= 36000 -> Z.of_nat (length item) < 2 ^ 32 ->
  exists st st', bloom_init size k tweak = Ret st /\ MM.add_item st item = Ret st' /\
                 bf_bytes st' = MS.insert (repeat x00 (Z.to_nat size)) k tweak item.
Proof.
  intros Hs Hitem.
  destruct (Z.eq_dec size 0) as [->|Hnz].
  - eexists. eexists. split; [reflexivity|]. split; [reflexivity|].
    cbn [bf_bytes Z.to_nat repeat]. now rewrite insert_nil.
  - destruct (bloom_init_wf size k tweak ltac:(lia)) as (st & E & Hwf & Hb & Hk & Ht).
    destruct (add_item_wf st item Hwf Hitem) as (st' & E' & _ & Hb' & _).
    exists st, st'. rewrite Hb', Hb, Hk, Ht. auto.
Qed.
