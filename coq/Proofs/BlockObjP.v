(* Proofs/BlockObjP.v — whatever was done to a Block object before, hash()/id() report the double hash of the
   80 header bytes of its CURRENT fields. *)
From PV Require Import Base.Bytes Base.Outcome Base.Varint Model.Block Model.BlockObj Proofs.BlockP.
Local Open Scope outcome_scope.

Section ObjP.
Variable dsha256 : bytes -> bytes.

Lemma obj_hash_spec o :
  obj_hash dsha256 o =
  match stream_header (o_header o) with
  | Ret s => Ret (dsha256 s, mkObj (o_header o) (Some (dsha256 s)))
  | Raise e => Raise e
  | OutOfFuel => OutOfFuel
  end.
Proof. unfold obj_hash, hasattr_literal_hash, block_hash. destruct (stream_header (o_header o)); reflexivity. Qed.

(* the model with its memo attribute = the memo-free specification, for every history and every initial memo *)
Theorem obj_run_is_spec ops : forall o, obj_run dsha256 o ops = spec_run dsha256 (o_header o) ops.
Proof.
  induction ops as [|op r IH]; intros o; [reflexivity|].
  destruct op; cbn [obj_run obj_step spec_run]; try (rewrite IH; reflexivity).
  - rewrite obj_hash_spec. destruct (stream_header (o_header o)); cbn [bind]; rewrite IH; reflexivity.
  - rewrite obj_hash_spec. destruct (stream_header (o_header o)); cbn [bind]; rewrite IH; reflexivity.
Qed.

(* the header reached by a history *)
Fixpoint final_header (h : header) (ops : list block_op) : header :=
  match ops with [] => h | op :: r => final_header (apply_set h op) r end.

Definition op_wf (op : block_op) : Prop :=
  match op with
  | OpSetNonce n | OpSetVersion n | OpSetTimestamp n | OpSetDifficulty n => (n < 2 ^ 32)%N
  | OpSetPrev p | OpSetRoot p => length p = 32
  | _ => True
  end.

Lemma apply_set_wf h op : wf_header h -> op_wf op -> wf_header (apply_set h op).
Proof.
  intros (Hv & Hp & Hm & Ht & Hd & Hn) Ho. destruct op; cbn [apply_set op_wf] in *;
    repeat split; assumption.
Qed.

Lemma final_header_wf ops : forall h, wf_header h -> Forall op_wf ops -> wf_header (final_header h ops).
Proof.
  induction ops as [|op r IH]; intros h W F; [exact W|]. inversion F; subst.
  cbn [final_header]. apply IH; [now apply apply_set_wf | assumption].
Qed.

Lemma spec_run_app ops1 : forall ops2 h0,
  spec_run dsha256 h0 (ops1 ++ ops2) = spec_run dsha256 h0 ops1 ++ spec_run dsha256 (final_header h0 ops1) ops2.
Proof.
  intros ops2. induction ops1 as [|op r IH]; intros h0; [reflexivity|].
  destruct op; cbn [app spec_run final_header apply_set]; rewrite IH; reflexivity.
Qed.

(* after ANY history of well-formed assignments / set_nonce / earlier hash(), id(), str(), as_bin() calls on an object
   (whatever its memo attribute held at the start), hash() returns dsha256 of the 80 bytes of the current fields and
   id() its byte reversal; and those 80 bytes parse back to the current fields *)
Theorem id_after_any_history (o : block_obj) (ops : list block_op) :
  wf_header (o_header o) -> Forall op_wf ops ->
  let h := final_header (o_header o) ops in
  exists s, length s = 80 /\ stream_header h = Ret s /\ (forall rest, parse_header (s ++ rest) = Ret (h, rest)) /\
    obj_run dsha256 o (ops ++ [OpHash; OpId; OpStreamHeader]) =
    obj_run dsha256 o ops ++ [Ret (dsha256 s); Ret (rev (dsha256 s)); Ret s].
Proof.
  intros W F h. assert (Wh : wf_header h) by (apply final_header_wf; assumption).
  destruct (header_stream_parse h Wh) as (s & S1 & S2 & S3).
  exists s. repeat split; try assumption.
  rewrite !obj_run_is_spec. rewrite spec_run_app. f_equal.
  fold h. cbn [spec_run]. rewrite S1. reflexivity.
Qed.
End ObjP.
