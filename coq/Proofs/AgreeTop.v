(* Proofs/AgreeTop.v — C03 agreement: all ten opcode families together.  eval_script (pycoin, Model/VMpy.v) and
   EvalScript (Bitcoin Core, Spec/VMcore.v) return the same verdict and the same final stack for EVERY script,
   initial stack, context and oracle under the hypotheses listed at c03_hyps. *)
From Coq Require Import Lia ZifyBool ZifyNat ZifyN.
From PV Require Import Base.Bytes Base.Outcome Gen.GenOpcodes Gen.GenFlags.
From PV Require Import Model.ScriptNum Model.Push Model.CondStack Spec.CondStackCore Proofs.CondStackP.
From PV Require Import Spec.VMTypes Model.VMpy Spec.VMcore Proofs.VMpyP.
From PV Require Import Proofs.AgreeBase Proofs.AgreeEval Proofs.AgreeSigEnc Proofs.AgreeSig Proofs.AgreeInv Proofs.AgreeFad.
Local Open Scope N_scope.

Lemma ops_ok_all fuel : forall rest, ops_ok (fun _ => true) fuel rest = true.
Proof.
  induction fuel as [|f IH]; intros rest; destruct rest as [|b t]; try reflexivity.
  cbn [ops_ok]. destruct (get_op (b :: t)) as [[[op d] r]|]; [|reflexivity]. cbn [andb]. apply IH.
Qed.

(* the hypotheses of the full theorem *)
Record c03_hyps (o : oracles) (flags : N) (sv : sigversion) (script : bytes) (st : stack) : Prop := {
  (* (H1) pycoin's VM obeys these two flags by bit alone; Core only for witness v0; check_solution strips them *)
  h_minimalif : sv = SV_BASE -> flag_set flags VERIFY_MINIMALIF = false;
  h_wpubkey : sv = SV_BASE -> flag_set flags VERIFY_WITNESS_PUBKEYTYPE = false;
  (* (H2) strict region, or an oracle that rejects what pycoin's lax DER reader rejects *)
  h_strict : strict flags = true \/ lax_contract o sv;
  (* under SV_BASE (signature blobs are deleted from the script code) no blob of 2^32 bytes or more may reach
     _delete_signature: OverflowError there, nothing in Core *)
  h_hash : sv = SV_BASE -> hash_ok o;
  h_stack : sv = SV_BASE -> Forall item_ok st /\ N.of_nat (length st) < 2 ^ 32
}.

Theorem eval_agree_all o flags sv ctx script st : c03_hyps o flags sv script st ->
  res_agree stack_eqb (VMpy.eval_script o flags sv ctx script st) (VMcore.EvalScript o flags sv ctx script st) = true.
Proof.
  intros [H1 H1w H2 Hhash Hst].
  apply (eval_agree o flags sv ctx script (fun _ => true)
           (fun stk alt _ => sv = SV_BASE -> items_ok stk alt) (fun _ => True)).
  - intros op _ Hhi Hdis s vf rest R Hr Hopc HI.
    destruct (is_sig_op op) eqn:Hsig; [|apply exec_agree_basic; assumption].
    assert (HI' : Inv_sig sv (st_stack s) (st_alt s) (skipn (st_bch s) script)).
    { intros Eb. destruct (HI Eb) as (A & B & C). repeat split; auto. apply fad_ok_all. }
    destruct op; try discriminate Hsig.
    + apply (hres_of_nf script s vf _ _ R).
      apply (agree_checksig o flags sv ctx script H1w H2 false). exact HI'.
    + apply (hres_of_nf script s vf _ _ R).
      apply (agree_checksig o flags sv ctx script H1w H2 true). exact HI'.
    + apply (agree_cms o flags sv ctx script H1w H2 false); assumption.
    + apply (agree_cms o flags sv ctx script H1w H2 true); assumption.
  - trivial.
  - intros op data rest c c' HI _ Hs Eb. apply (step_inv o flags sv ctx (Hhash Eb) op data rest c c' Hs). apply HI, Eb.
  - apply ops_ok_all.
  - intros Eb. destruct (Hst Eb) as [Hf Hl]. unfold items_ok. rewrite rev_length. repeat split; auto.
    apply Forall_rev. exact Hf.
  - exact I.
Qed.

(* witness v0 scripts: only (H2) is left *)
Corollary eval_agree_witness_v0 o flags ctx script st :
  strict flags = true \/ lax_contract o SV_WITNESS_V0 ->
  res_agree stack_eqb (VMpy.eval_script o flags SV_WITNESS_V0 ctx script st)
                      (VMcore.EvalScript o flags SV_WITNESS_V0 ctx script st) = true.
Proof. intros H2. apply eval_agree_all. constructor; try discriminate. exact H2. Qed.

(* the script-code equality that replaces a FindAndDelete hypothesis *)
Corollary script_code_agrees (tail : bytes) (sigs : list bytes) :
  Forall item_ok sigs ->
  delete_signatures tail (rev sigs) = Ret (fold_left (fun c sg => find_and_delete (push_encode sg) c) sigs tail).
Proof. intros Hi. exact (fad_ok_all tail sigs Hi). Qed.

(* the hypotheses are satisfiable: DERSIG, SV_BASE, DUP HASH160 <1 byte> EQUALVERIFY CHECKSIG on a two-item stack *)
Definition ex_oracles : oracles :=
  {| o_sha256 := fun _ => []; o_sha1 := fun _ => []; o_ripemd160 := fun _ => []; o_hash160 := fun _ => [];
     o_hash256 := fun _ => []; o_checksig := fun _ _ _ _ => false; o_order := 7 |}.
Lemma hyps_satisfiable : c03_hyps ex_oracles VERIFY_DERSIG SV_BASE [x76; xa9; x01; x00; x88; xac] [[x01]; [x02]].
Proof.
  constructor; intros; try reflexivity.
  - left. reflexivity.
  - intros x. repeat split; reflexivity.
  - split; [repeat constructor|reflexivity].
Qed.
Lemma partial_covered_example : no_sig_ops [x51; x63; x52; x67; x53; x68; x76; x93; x87; xa8] = true.
Proof. vm_compute. reflexivity. Qed.
