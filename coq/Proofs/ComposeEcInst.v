(* Proofs/ComposeEcInst.v — composition C01/C17 x C02, part 2: the group instance.

   C01 (Spec/EcdsaSpec.v) and C17 state their theorems over an ABSTRACT group with TOTAL operations
   add/neg/smul : .. -> pt and Leibniz equality.  C02 (Model/Curve.v) models pycoin's arithmetic on raw pairs
   `Curve.pt = option (Z * Z)` with outcome-valued functions (exceptions are values).  This file builds the instance:

     carrier   ept c = { P : Curve.pt | inb c P = true },  inb c P = on the curve && coordinates in [0,p) && n*P = O
               i.e. the n-torsion subgroup E[n] of the curve group (on a curve whose group has order n — cofactor 1,
               every shipped ECDSA curve — this is every reduced on-curve point: see `inb_of_cofactor1`)
     coords    the underlying pair itself (None = infinity: C02's encoding IS C01's)
     add       Curve.add          neg   Curve.neg          smul e P   Curve.multiply c P e
     lift_x    Curve.points_for_x
   Each operation is the C02 model function, run, its result re-packed by `mk` (which would return O if the result
   were not in the carrier or the function raised).  The `*_run` lemmas show that under the premises this never
   happens: the C02 function returns `Ret` of exactly the carrier operation's pair, so the ECDSA model instantiated
   here computes with exactly the arithmetic C02 models.  `smul e G` is moreover what Generator.__mul__ (blinded
   fixed-base multiplication, gmul/raw_mul) returns (`eG_run`).

   Premises (Section Inst): M1 (p prime), M4 (associativity), p = 3 mod 4, 0 < n, n odd — nothing else for
   group_laws and lift_laws; n*G = O, G valid, n <= 2^bit_count in addition for the generator lemmas.
   M3 (Fermat) is derived from M1 with Proofs/FermatC10.v. *)
From Coq Require Import ZArith Lia Znumtheory Bool List Eqdep_dec Zpow_facts.
From PV Require Import Base.Outcome Model.Curve Spec.Weierstrass Spec.EcdsaSpec
  Proofs.CurveInvP Proofs.CurveAddP Proofs.CurveGroupP Proofs.CurveMulP Proofs.CurveSqrtP Proofs.CurveP
  Proofs.FermatC10 Proofs.ComposeEcGroup.
Import ListNotations.
Local Open Scope Z_scope.

(* ---- the carrier ------------------------------------------------------------------------------------------- *)
Definition reducedb (c : curve) (P : pt) : bool :=
  match P with
  | None => true
  | Some (x, y) => (0 <=? x) && (x <? cp c) && (0 <=? y) && (y <? cp c)
  end.

Definition killedb (c : curve) (P : pt) : bool :=
  match kP c (cn c) P with None => true | Some _ => false end.

Definition inb (c : curve) (P : pt) : bool := contains_point c P && reducedb c P && killedb c P.

Lemma kP_None c k : kP c k None = None.
Proof.
  assert (N : forall m, nsmul None (gadd c) m None = None).
  { induction m; cbn [nsmul]; [reflexivity|]. rewrite IHm. rewrite gadd_None_l. reflexivity. }
  unfold kP, smul. destruct (k <? 0); rewrite N; [|reflexivity].
  rewrite gneg_unfold. reflexivity.
Qed.

Lemma inb_None c : inb c None = true.
Proof. unfold inb, killedb. rewrite kP_None. reflexivity. Qed.

Definition ept (c : curve) : Type := { P : pt | inb c P = true }.
Definition eval {c : curve} (P : ept c) : pt := proj1_sig P.
Definition eO (c : curve) : ept c := exist _ None (inb_None c).

(* re-pack a raw pair; O if it is not in the carrier (never the case for the results below: `mk_val`) *)
Definition mk (c : curve) (R : pt) : ept c :=
  match bool_dec (inb c R) true with
  | left H => exist _ R H
  | right _ => eO c
  end.

Definition raw (r : outcome pt) : pt := match r with Ret R => R | _ => None end.

(* ---- the operations: C02's model functions, run ---------------------------------------------------------- *)
Definition eadd (c : curve) (P Q : ept c) : ept c := mk c (raw (add c (eval P) (eval Q))).
Definition eneg (c : curve) (P : ept c) : ept c := mk c (raw (neg c (eval P))).
Definition esmul (c : curve) (e : Z) (P : ept c) : ept c := mk c (raw (multiply c (eval P) e)).
Definition eG (g : gen) : ept (gc g) := mk (gc g) (gG g).
Definition ecoords {c : curve} (P : ept c) : option (Z * Z) := eval P.
(* points_for_x; None when it raises (ValueError / NoSuchPointError) — and when a returned point is outside E[n],
   which cannot happen on a curve of cofactor 1 (`elift_run_cofactor1`) *)
Definition elift (g : gen) (x : Z) : option (ept (gc g) * ept (gc g)) :=
  match points_for_x g x with
  | Ret (P0, P1) => if inb (gc g) P0 && inb (gc g) P1 then Some (mk (gc g) P0, mk (gc g) P1) else None
  | _ => None
  end.

(* equality of carrier elements is equality of pairs (proofs of a boolean equation are unique) *)
Lemma ept_eq c (P Q : ept c) : eval P = eval Q -> P = Q.
Proof.
  destruct P as [P HP], Q as [Q HQ]. cbn [eval proj1_sig]. intros E. subst Q.
  f_equal. apply UIP_dec. apply bool_dec.
Qed.

Lemma mk_val_b c R : inb c R = true -> eval (mk c R) = R.
Proof. intros H. unfold mk. destruct (bool_dec (inb c R) true); [reflexivity|contradiction]. Qed.

Lemma eval_O c : eval (eO c) = None.
Proof. reflexivity. Qed.

Lemma reducedb_iff c P : reducedb c P = true <-> reduced c P.
Proof.
  destruct P as [[x y]|]; cbn [reducedb reduced]; [|tauto].
  rewrite !andb_true_iff, !Z.leb_le, !Z.ltb_lt. tauto.
Qed.

Lemma killedb_iff c P : killedb c P = true <-> order_kills c P.
Proof.
  unfold killedb, order_kills. destruct (kP c (cn c) P); split; intros; congruence.
Qed.

(* M3 (Fermat) follows from M1 *)
Lemma M3_of_M1 c : M1 c -> M3 c.
Proof.
  intros Hp t Ht. pose proof (prime_ge_2 _ Hp).
  rewrite Zpower_mod by lia.
  apply fermat_little; [exact Hp|].
  pose proof (Z.mod_pos_bound t (cp c)). lia.
Qed.

Section Inst.
Variable g : gen.
Notation c := (gc g).
Hypothesis Hp : M1 c.
Hypothesis Hmod4 : cp c mod 4 = 3.
Hypothesis H4 : M4 c.
Hypothesis Hn : 0 < cn c.
Hypothesis Hodd : Z.odd (cn c) = true.

Lemma Hp2 : cp c <> 2.
Proof. intros E. rewrite E in Hmod4. discriminate. Qed.

Lemma Hp_pos : 2 < cp c.
Proof. pose proof (prime_ge_2 _ Hp). pose proof Hp2. lia. Qed.

Notation ok := (valid c).

Lemma inb_iff P : inb c P = true <-> valid c P /\ order_kills c P.
Proof.
  unfold inb, valid. rewrite !andb_true_iff, (contains_iff_c c Hp Hp2), reducedb_iff, killedb_iff. tauto.
Qed.

Lemma eval_valid (P : ept c) : valid c (eval P).
Proof. destruct P as [P H]. apply (proj1 (inb_iff P) H). Qed.

Lemma eval_killed (P : ept c) : order_kills c (eval P).
Proof. destruct P as [P H]. apply (proj1 (inb_iff P) H). Qed.

Lemma mk_val R : valid c R -> order_kills c R -> eval (mk c R) = R.
Proof. intros HV HK. apply mk_val_b. apply inb_iff. auto. Qed.

(* on a curve whose group has order n the carrier is the whole curve group *)
Lemma inb_of_cofactor1 : (forall P, valid c P -> order_kills c P) -> forall P, valid c P -> inb c P = true.
Proof. intros Hc P HV. apply inb_iff. auto. Qed.

Local Hint Resolve eval_valid : core.

(* the group facts of CurveMulP / ComposeEcGroup at this curve *)
Let A_ok_op := ok_op c Hp Hp2.
Let A_ok_inv := ok_inv c Hp Hp2.
Let A_comm := g_comm c Hp Hp2.
Let A_e_l := g_e_l c.
Let A_inv_r := g_inv_r c Hp Hp2.
Let A_ok_e := ok_e c.

Lemma kP_ok k P : ok P -> ok (kP c k P).
Proof. apply (sm_ok c Hp Hp2). Qed.

Lemma kP_op k P Q : ok P -> ok Q -> kP c k (gadd c P Q) = gadd c (kP c k P) (kP c k Q).
Proof. apply (smul_op pt ok None (gadd c) (gneg c) A_ok_e A_ok_op A_ok_inv H4 A_comm A_e_l A_inv_r). Qed.

Lemma kP_inv k P : ok P -> kP c k (gneg c P) = gneg c (kP c k P).
Proof. apply (smul_inv pt ok None (gadd c) (gneg c) A_ok_e A_ok_op A_ok_inv H4 A_comm A_e_l A_inv_r). Qed.

Lemma kP_mul a b P : ok P -> kP c (a * b) P = kP c a (kP c b P).
Proof. apply (smul_mul pt ok None (gadd c) (gneg c) A_ok_e A_ok_op A_ok_inv H4 A_comm A_e_l A_inv_r). Qed.

Lemma killed_gadd P Q : ok P -> ok Q -> order_kills c P -> order_kills c Q -> order_kills c (gadd c P Q).
Proof. apply (killed_op pt ok None (gadd c) (gneg c) A_ok_e A_ok_op A_ok_inv H4 A_comm A_e_l A_inv_r). Qed.

Lemma killed_gneg P : ok P -> order_kills c P -> order_kills c (gneg c P).
Proof. apply (killed_inv pt ok None (gadd c) (gneg c) A_ok_e A_ok_op A_ok_inv H4 A_comm A_e_l A_inv_r). Qed.

Lemma killed_kP k P : ok P -> order_kills c P -> order_kills c (kP c k P).
Proof. apply (killed_smul pt ok None (gadd c) (gneg c) A_ok_e A_ok_op A_ok_inv H4 A_comm A_e_l A_inv_r). Qed.

(* ---- run lemmas: the C02 function returns exactly the carrier operation ----------------------------------- *)
Lemma eadd_run (P Q : ept c) :
  add c (eval P) (eval Q) = Ret (eval (eadd c P Q)) /\ eval (eadd c P Q) = gadd c (eval P) (eval Q).
Proof.
  pose proof (eval_valid P) as [HP RP]. pose proof (eval_valid Q) as [HQ RQ].
  destruct (add_g c Hp Hp2 (eval P) (eval Q) HP HQ) as (R & E & HR & Er & Hred).
  rewrite !red_id_c in Er by (auto; apply Hred; auto).
  subst R. unfold eadd. rewrite E. cbn [raw].
  rewrite mk_val; auto.
  apply killed_gadd; auto using eval_killed.
Qed.

Lemma eneg_run (P : ept c) :
  neg c (eval P) = Ret (eval (eneg c P)) /\ eval (eneg c P) = gneg c (eval P).
Proof.
  pose proof (eval_valid P) as HV. pose proof HV as [HP RP].
  destruct (neg_gneg c Hp Hp2 (eval P) HP) as (R & E & HR & Er).
  pose proof (odd_order_neg_reduced c Hp Hp2 H4 (eval P) (cn c) HV Hodd (eval_killed P) R E) as RR.
  rewrite red_id_c in Er by exact RR. subst R.
  unfold eneg. rewrite E. cbn [raw].
  rewrite mk_val; auto.
  apply killed_gneg; auto using eval_killed.
Qed.

Lemma esmul_run (e : Z) (P : ept c) :
  multiply c (eval P) e = Ret (eval (esmul c e P)) /\ eval (esmul c e P) = kP c e (eval P).
Proof.
  pose proof (eval_valid P) as HV. pose proof HV as [HP RP].
  assert (Er : red c (eval P) = eval P) by now apply red_id_c.
  assert (E : multiply c (eval P) e = Ret (kP c e (eval P))).
  { rewrite <- Er at 2. apply (multiply_exact c Hp Hp2 H4); auto. rewrite Er. apply eval_killed. }
  unfold esmul. rewrite E. cbn [raw].
  rewrite mk_val; auto using kP_ok.
  apply killed_kP; auto using eval_killed.
Qed.

Lemma eadd_val P Q : eval (eadd c P Q) = gadd c (eval P) (eval Q).
Proof. apply eadd_run. Qed.
Lemma eneg_val P : eval (eneg c P) = gneg c (eval P).
Proof. apply eneg_run. Qed.
Lemma esmul_val e P : eval (esmul c e P) = kP c e (eval P).
Proof. apply esmul_run. Qed.

(* ---- C01's group_laws --------------------------------------------------------------------------------------- *)
Theorem ec_group_laws : group_laws (ept c) (eadd c) (eneg c) (eO c) (esmul c) (cn c) ecoords.
Proof.
  constructor.
  - intros P Q R. apply ept_eq. rewrite !eadd_val. symmetry. apply H4; auto.
  - intros P Q. apply ept_eq. rewrite !eadd_val. apply A_comm; auto.
  - intros P. apply ept_eq. rewrite eadd_val, eval_O. apply A_e_l; auto.
  - intros P. apply ept_eq. rewrite eadd_val, eneg_val, eval_O. apply A_inv_r; auto.
  - intros P. apply ept_eq. rewrite esmul_val. apply (sm_1 c); auto.
  - intros a b P. apply ept_eq. rewrite eadd_val, !esmul_val. apply (sm_add c Hp Hp2 H4); auto.
  - intros a b P. apply ept_eq. rewrite !esmul_val. apply kP_mul; auto.
  - intros P. apply ept_eq. rewrite esmul_val, eval_O. apply eval_killed.
  - reflexivity.
  - intros P H. apply ept_eq. exact H.
  - intros P x y H. unfold ecoords in H. pose proof (eval_valid P) as [_ HR]. rewrite H in HR. cbn in HR. lia.
  - intros P x y H. unfold ecoords in *. rewrite eneg_val, H, gneg_unfold.
    pose proof (eval_valid P) as [_ HR]. rewrite H in HR. cbn in HR.
    rewrite (Z.mod_small x) by lia. eauto.
Qed.

(* ---- points_for_x --------------------------------------------------------------------------------------------- *)
(* read off the definition: whatever is returned is a pair of on-curve points (x, y0), (x, p - y0), even ordinate first
   (no square-root correctness, hence no Fermat, needed for this direction) *)
Lemma pfx_shape x P0 P1 : points_for_x g x = Ret (P0, P1) ->
  exists y0 y1, P0 = Some (x, y0) /\ P1 = Some (x, y1) /\ Z.odd y0 = false /\ Z.odd y1 = true /\
    0 < y0 < cp c /\ 0 < y1 < cp c /\ y0 + y1 = cp c /\ on_curve c P0 /\ on_curve c P1.
Proof.
  pose proof Hp_pos as Hpp.
  unfold points_for_x, modular_sqrt.
  set (al := (pow_mod x 3 (cp c) + ca c * x + cb c) mod cp c).
  assert (He : 0 <= (cp c + 1) / 4) by (apply Z.div_pos; lia).
  rewrite pow_mod_spec by exact He.
  set (y0 := (al ^ ((cp c + 1) / 4)) mod cp c).
  assert (Hy0 : 0 <= y0 < cp c) by (apply Z.mod_pos_bound; lia).
  destruct (Z.eqb_spec y0 0) as [E0|E0]; [discriminate|].
  unfold mk_point.
  destruct (contains_point c (Some (x, y0))) eqn:C0; cbn [bind]; [|discriminate].
  destruct (contains_point c (Some (x, cp c - y0))) eqn:C1; cbn [bind]; [|discriminate].
  apply (contains_iff_c c Hp Hp2) in C0, C1.
  assert (Hpodd : cp c mod 2 = 1).
  { rewrite (Z.div_mod (cp c) 4) by lia. rewrite Hmod4.
    replace (4 * (cp c / 4) + 3) with (1 + (2 * (cp c / 4) + 1) * 2) by lia. rewrite Z_mod_plus_full. reflexivity. }
  assert (Hpar : forall y, Z.odd y = negb (y mod 2 =? 0)).
  { intros y. rewrite Zmod_odd. destruct (Z.odd y); reflexivity. }
  assert (Hsub : (cp c - y0) mod 2 = (1 - y0 mod 2) mod 2) by (rewrite Zminus_mod, Hpodd; reflexivity).
  pose proof (Z.mod_pos_bound y0 2 ltac:(lia)) as Hb.
  rewrite land_1.
  destruct (Z.eqb_spec (y0 mod 2) 0) as [Ev|Od]; intros E; inversion E; subst P0 P1.
  - exists y0, (cp c - y0). repeat split; auto; try lia.
    + rewrite Hpar, Ev. reflexivity.
    + rewrite Hpar, Hsub, Ev. reflexivity.
  - assert (E1 : y0 mod 2 = 1) by lia.
    exists (cp c - y0), y0. repeat split; auto; try lia.
    + rewrite Hpar, Hsub, E1. reflexivity.
    + rewrite Hpar, E1. reflexivity.
Qed.

(* a finite point of E[n] (n odd) has y <> 0, and no point of the curve with its abscissa has y = 0 *)
Lemma no_y0 (P : ept c) x y : eval P = Some (x, y) -> ~ on_curve c (Some (x, 0)).
Proof.
  intros E Hon.
  pose proof (eval_valid P) as HV. pose proof (eval_killed P) as HK. rewrite E in HV, HK.
  destruct HV as [HPon [Hx Hy]].
  (* y^2 = x^3 + a x + b = 0 (mod p), so y = 0 (mod p), so y = 0 *)
  assert (Y0 : y = 0).
  { cbn [on_curve] in HPon, Hon.
    assert (D : (cp c | y * y)).
    { apply Z.mod_divide; [lia|].
      replace (y * y) with ((y * y - (x * x * x + ca c * x + cb c)) - (0 * 0 - (x * x * x + ca c * x + cb c))) by ring.
      rewrite Zminus_mod, HPon, Hon. reflexivity. }
    destruct (prime_mult _ Hp _ _ D) as [D1|D1]; destruct D1 as [q Hq];
      assert (q = 0) by nia; lia. }
  subst y.
  assert (K : gadd c (Some (x, 0)) (Some (x, 0)) = None).
  { rewrite gadd_unfold. cbn [add]. rewrite Z.sub_diag, Zmod_0_l. cbn [Z.eqb]. rewrite Z.add_0_l, Zmod_0_l. reflexivity. }
  pose proof (sm_no_two_torsion c Hp Hp2 H4 (cn c) (Some (x, 0)) (conj HPon (conj Hx Hy)) Hodd HK K).
  discriminate.
Qed.

(* -P for a finite P is (x, p - y): the other point of the pair *)
Lemma elift_both_in x y0 y1 : y0 + y1 = cp c -> 0 < y0 < cp c ->
  inb c (Some (x, y0)) = true -> inb c (Some (x, y1)) = true.
Proof.
  intros Hs Hy H. apply inb_iff in H. destruct H as [HV HK].
  assert (E : Some (x, y1) = gneg c (Some (x, y0))).
  { rewrite gneg_unfold. destruct HV as [_ [Hx _]].
    rewrite (Z.mod_small x), (Z.mod_small (cp c - y0)) by lia. f_equal. f_equal. lia. }
  rewrite E. apply inb_iff. split; [now apply A_ok_inv | now apply killed_gneg].
Qed.

Theorem ec_lift_laws : lift_laws (ept c) ecoords (elift g) (fun x => 0 <= x < cp c).
Proof.
  constructor.
  - (* sound *)
    intros x P0 P1 E Hx. unfold elift in E.
    destruct (points_for_x g x) as [[R0 R1]| |] eqn:Epf; try discriminate.
    destruct (inb c R0) eqn:I0; [|discriminate]. destruct (inb c R1) eqn:I1; [|discriminate].
    cbn [andb] in E. inversion E. subst P0 P1. unfold ecoords. rewrite !mk_val_b by assumption.
    destruct (pfx_shape x R0 R1 Epf) as (y0 & y1 & -> & -> & Ev & Od & _). split; eauto.
  - (* range *)
    intros P x y H. unfold ecoords in H. pose proof (eval_valid P) as [_ HR]. rewrite H in HR. cbn in HR. lia.
  - (* complete *)
    intros P x y H. unfold ecoords in H.
    pose proof (no_y0 P x y H) as Hno2.
    pose proof (eval_valid P) as HV. rewrite H in HV. destruct HV as [HPon [Hx Hy]].
    assert (HPin : inb c (Some (x, y)) = true) by (rewrite <- H; apply (proj2_sig P)).
    assert (Ec : forall c0 : curve, c0 = {| cp := cp c0; ca := ca c0; cb := cb c0; cn := cn c0 |}) by (intros []; reflexivity).
    pose proof (points_for_x_spec (cp c) Hp Hmod4 (M3_of_M1 c Hp) (ca c) (cb c) (cn c) g (Ec c) x) as S.
    rewrite <- (Ec c) in S. specialize (S Hno2).
    unfold elift.
    destruct (points_for_x g x) as [[R0 R1]| |]; [| exfalso; exact (S y HPon) | contradiction].
    destruct S as (y0 & y1 & -> & -> & Ev & Od & Hy0 & Hy1 & Hs & Hall).
    destruct (proj1 (Hall y Hy) HPon) as [-> | ->].
    + assert (I1 : inb c (Some (x, y1)) = true) by (apply (elift_both_in x y0 y1); auto).
      rewrite HPin, I1. cbn [andb]. eexists _, _. split; [reflexivity|].
      rewrite <- Z.negb_even, Ev. cbn [negb]. apply ept_eq. rewrite mk_val_b by assumption. exact H.
    + assert (I0 : inb c (Some (x, y0)) = true) by (apply (elift_both_in x y1 y0); auto; lia).
      rewrite HPin, I0. cbn [andb]. eexists _, _. split; [reflexivity|].
      rewrite Od. apply ept_eq. rewrite mk_val_b by assumption. exact H.
Qed.

(* the link to pycoin's points_for_x for EVERY x needs the returned points to lie in E[n]: true when the curve group
   has order n (cofactor 1).  This is the only place where that premise is needed. *)

(* for a reduced abscissa *)
Lemma elift_run_cofactor1 : (forall P, valid c P -> order_kills c P) -> forall x, 0 <= x < cp c ->
  match points_for_x g x with
  | Ret (P0, P1) => exists Q0 Q1, elift g x = Some (Q0, Q1) /\ eval Q0 = P0 /\ eval Q1 = P1
  | _ => elift g x = None
  end.
Proof.
  intros Hc x Hx. unfold elift.
  destruct (points_for_x g x) as [[P0 P1]| |] eqn:Epf; auto.
  destruct (pfx_shape x P0 P1 Epf) as (y0 & y1 & -> & -> & _ & _ & Hy0 & Hy1 & _ & On0 & On1).
  assert (I0 : inb c (Some (x, y0)) = true) by (apply inb_of_cofactor1; auto; split; auto; cbn; lia).
  assert (I1 : inb c (Some (x, y1)) = true) by (apply inb_of_cofactor1; auto; split; auto; cbn; lia).
  rewrite I0, I1. cbn [andb]. eexists _, _. split; [reflexivity|]. rewrite !mk_val_b by assumption. auto.
Qed.

(* ---- the generator ---------------------------------------------------------------------------------------------- *)
Hypothesis HG : valid c (gG g).
Hypothesis HGk : order_kills c (gG g).

Lemma eG_val : eval (eG g) = gG g.
Proof. unfold eG. apply mk_val; auto. Qed.

Hypothesis Hbits : cn c <= 2 ^ Z.of_nat (g_bits g).

(* k * G of the ECDSA model is what Generator.__mul__ (blinded) and Generator.raw_mul (table walk) return *)
Lemma eG_run e : gmul g e = Ret (eval (esmul c e (eG g))) /\ raw_mul g e = Ret (eval (esmul c e (eG g))).
Proof.
  rewrite esmul_val, eG_val.
  apply (fixed_base_exact c Hp Hp2 H4 g eq_refl HG (conj Hn Hbits) HGk).
Qed.

End Inst.
