(* Proofs/AgreeFad.v — C03 agreement: script-code equality for EVERY script.
   Every byte string splits into the instructions GetOp decodes followed by an undecodable tail (possibly empty).
   pycoin's _delete_signature walk (one pass per blob, plain push of the blob as pattern, blobs taken bottom-first,
   stopping at the first undecodable instruction and keeping the rest: /repo 2ba5b6d + 50939fb) and Core's
   FindAndDelete (CScript() << sig, top-first) both compute "drop every decoded instruction equal to the push of
   one of the blobs, keep the tail": `fad_ok tail` holds for all tails. *)
From Coq Require Import Lia ZifyBool ZifyNat ZifyN.
From PV Require Import Base.Bytes Base.Outcome Gen.GenOpcodes Gen.GenFlags.
From PV Require Import Model.ScriptNum Model.Push Spec.VMTypes Model.VMpy Spec.VMcore Proofs.VMpyP.
From PV Require Import Proofs.AgreeBase Proofs.AgreeSig.
Local Open Scope N_scope.

(* a self-delimiting instruction: GetOp reads exactly it, whatever follows *)
Definition complete (i : bytes) : Prop :=
  i <> [] /\ exists op d, forall t, get_op (i ++ t) = Some (op, d, t).

Lemma take_n_app n d t : len d = n -> take_n n (d ++ t) = Some (d, t).
Proof.
  intros H. unfold take_n, len in *. rewrite app_length.
  replace (N.of_nat (length d + length t) <? n) with false by lia.
  replace (N.to_nat n) with (length d) by lia. now rewrite firstn_app_exact, skipn_app_exact.
Qed.

Lemma take_n_inv n s d r : take_n n s = Some (d, r) -> s = d ++ r /\ len d = n.
Proof.
  unfold take_n, len. destruct (N.ltb_spec (N.of_nat (length s)) n); [discriminate|].
  intros H'; injection H' as <- <-. split; [now rewrite firstn_skipn|]. rewrite firstn_length. lia.
Qed.

Lemma firstn_app_len {A} (a b : list A) n : length a = n -> firstn n (a ++ b) = a.
Proof. intros <-. apply firstn_app_exact. Qed.
Lemma skipn_app_len {A} (a b : list A) n : length a = n -> skipn n (a ++ b) = b.
Proof. intros <-. apply skipn_app_exact. Qed.

Lemma get_op_complete s op d rest : get_op s = Some (op, d, rest) -> exists i, s = i ++ rest /\ complete i.
Proof.
  destruct s as [|b r]; [discriminate|]. cbn [get_op].
  destruct (78 <? b2n b) eqn:E78.
  { intros H; injection H as <- <- <-. exists [b]. split; [reflexivity|]. split; [discriminate|].
    exists b, []. intros t. cbn [app get_op]. now rewrite E78. }
  destruct (b2n b <? 76) eqn:E76.
  { destruct (take_n (b2n b) r) as [[d' r']|] eqn:Et; [|discriminate].
    intros H; injection H as <- <- <-. apply take_n_inv in Et. destruct Et as [-> Hl].
    exists (b :: d'). split; [reflexivity|]. split; [discriminate|].
    exists b, d'. intros t. cbn [app get_op]. rewrite E78, E76. now rewrite take_n_app. }
  set (w := if b2n b =? 76 then 1%nat else if b2n b =? 77 then 2%nat else 4%nat).
  destruct (Nat.ltb_spec (length r) w) as [Hw|Hw]; [discriminate|].
  destruct (take_n (le_decode (firstn w r)) (skipn w r)) as [[d' r']|] eqn:Et; [|discriminate].
  intros H; injection H as <- <- <-. apply take_n_inv in Et. destruct Et as [Es Hl].
  exists (b :: firstn w r ++ d'). split.
  { cbn [app]. f_equal. rewrite <- app_assoc, <- Es. now rewrite firstn_skipn. }
  split; [discriminate|]. exists b, d'. intros t. cbn [app get_op]. rewrite E78, E76. fold w.
  assert (Hlw : length (firstn w r) = w) by (rewrite firstn_length; lia).
  rewrite <- app_assoc. rewrite app_length, Hlw.
  replace (w + length (d' ++ t) <? w)%nat with false by lia.
  rewrite (firstn_app_len _ _ w Hlw), (skipn_app_len _ _ w Hlw). now rewrite take_n_app.
Qed.

Lemma complete_inj i j t u : complete i -> complete j -> i ++ t = j ++ u -> i = j /\ t = u.
Proof.
  intros (_ & op & d & Hi) (_ & op' & d' & Hj) E.
  pose proof (Hi t) as A. rewrite E, Hj in A. injection A as _ _ ->. split; [|reflexivity].
  now apply app_inv_tail in E.
Qed.

(* decoded scripts: instructions, then a tail GetOp cannot read (or nothing) *)
Inductive dec : bytes -> list bytes -> bytes -> Prop :=
| dec_end u : get_op u = None -> dec u [] u
| dec_cons i rest l u : complete i -> dec rest l u -> dec (i ++ rest) (i :: l) u.

Lemma dec_concat s l u : dec s l u -> concat l ++ u = s.
Proof. induction 1; cbn [concat app]; [reflexivity|]. rewrite <- app_assoc. congruence. Qed.
Lemma dec_complete s l u : dec s l u -> Forall complete l.
Proof. induction 1; constructor; auto. Qed.
Lemma dec_tail s l u : dec s l u -> get_op u = None.
Proof. induction 1; auto. Qed.
Lemma dec_of_complete l u : Forall complete l -> get_op u = None -> dec (concat l ++ u) l u.
Proof.
  intros H Hu. induction H; cbn [concat app]; [constructor; exact Hu|]. rewrite <- app_assoc. constructor; auto.
Qed.

Lemma dec_step s l u op d rest : dec s l u -> get_op s = Some (op, d, rest) ->
  exists l', dec rest l' u.
Proof.
  intros H G. destruct H as [u Hu|i r l' u Hc Hd]; [congruence|].
  destruct Hc as (Hne & op' & d' & Hi). pose proof (Hi r) as A. rewrite G in A. injection A as _ _ <-.
  exists l'. exact Hd.
Qed.

Lemma dec_exists fuel : forall s, (length s <= fuel)%nat -> exists l u, dec s l u.
Proof.
  induction fuel as [|f IH]; intros s Hl.
  - destruct s; [|cbn in Hl; lia]. exists [], []. constructor. reflexivity.
  - destruct (get_op s) as [[[op d] rest]|] eqn:G.
    + pose proof (get_op_shrinks _ _ _ _ G) as Hs.
      destruct (IH rest ltac:(lia)) as (l & u & Hd).
      destruct (get_op_complete _ _ _ _ G) as (i & E & Hc). rewrite E. exists (i :: l), u. constructor; assumption.
    + exists [], s. constructor. exact G.
Qed.

(* ---- the two deletions as filters ------------------------------------------------------------------------------- *)
Definition keep (pat : bytes) (i : bytes) : bool := negb (bytes_eqb i pat).

Lemma is_prefix_app p t : is_prefix p (p ++ t) = true.
Proof. induction p as [|a p IH]; cbn [is_prefix app]; [reflexivity|]. now rewrite byte_eqb_refl, IH. Qed.
Lemma is_prefix_inv p : forall s, is_prefix p s = true -> exists t, s = p ++ t.
Proof.
  induction p as [|a p IH]; intros s H; [exists s; reflexivity|].
  destruct s as [|b s]; cbn [is_prefix] in H; [discriminate|].
  apply andb_true_iff in H. destruct H as [H1 H2]. apply byte_eqb_eq in H1. subst.
  destruct (IH s H2) as [t ->]. exists t. reflexivity.
Qed.

Lemma fad_loop_filter b : complete b -> forall s l u, dec s l u -> forall fuel, (length s < fuel)%nat ->
  fad_loop fuel b s = concat (filter (keep b) l) ++ u.
Proof.
  intros Hb s l u H. induction H as [u Hu|i rest l u Hc Hd IH]; intros fuel Hf.
  - destruct fuel; [lia|]. cbn [fad_loop filter concat app].
    destruct (is_prefix b u) eqn:EP.
    + destruct (is_prefix_inv _ _ EP) as [t Et]. destruct Hb as (_ & op & d & Hi).
      rewrite Et, Hi in Hu. discriminate.
    + now rewrite Hu.
  - destruct fuel as [|f]; [lia|]. cbn [fad_loop].
    assert (Hine : (0 < length i)%nat) by (destruct Hc as [Hne _]; destruct i; [contradiction|cbn; lia]).
    rewrite app_length in Hf.
    destruct (is_prefix b (i ++ rest)) eqn:EP.
    + destruct (is_prefix_inv _ _ EP) as [t Et].
      destruct (complete_inj _ _ _ _ Hc Hb Et) as [-> ->].
      rewrite skipn_app_exact. cbn [filter]. unfold keep at 1. rewrite bytes_eqb_refl. cbn [negb].
      apply IH. lia.
    + destruct Hc as (Hne & op & d & Hi). rewrite Hi.
      rewrite app_length. replace (length i + length rest - length rest)%nat with (length i) by lia.
      rewrite firstn_app_exact. cbn [filter]. unfold keep at 1.
      destruct (bytes_eqb i b) eqn:Eb.
      * apply bytes_eqb_eq in Eb. subst. rewrite is_prefix_app in EP. discriminate.
      * cbn [negb concat]. rewrite <- app_assoc. f_equal. apply IH. lia.
Qed.

Lemma find_and_delete_filter b s l u : complete b -> dec s l u -> find_and_delete b s = concat (filter (keep b) l) ++ u.
Proof.
  intros Hb Hd. unfold find_and_delete. destruct b as [|b0 bt]; [destruct Hb as [Hb _]; contradiction|].
  apply fad_loop_filter; [exact Hb|exact Hd|lia].
Qed.

Lemma delete_walk_filter script sub : forall l u pc, dec (skipn pc script) l u -> forall fuel,
  (length script - pc <= fuel)%nat ->
  delete_walk fuel script sub pc = Ret (concat (filter (keep sub) l) ++ u).
Proof.
  intros l u pc H. remember (skipn pc script) as s eqn:Es. revert pc Es.
  induction H as [u Hu|i rest l u Hc Hd IH]; intros pc Es fuel Hf.
  - cbn [filter concat app]. destruct u as [|ob r].
    + symmetry in Es. apply skipn_nil_iff in Es. destruct fuel; cbn [delete_walk];
        replace (length script <=? pc)%nat with true by lia; reflexivity.
    + assert (Hlen : (length (ob :: r) = length script - pc)%nat) by (rewrite Es; apply skipn_length).
      cbn [length] in Hlen. destruct fuel as [|f]; [lia|]. cbn [delete_walk].
      replace (length script <=? pc)%nat with false by lia.
      symmetry in Es.
      pose proof (decode_agree script false pc ob r Es) as D. cbv zeta in D. rewrite Hu in D.
      destruct D as (_ & pc' & E). rewrite E. now rewrite Es.
  - assert (Hlen : (length (i ++ rest) = length script - pc)%nat) by (rewrite Es; apply skipn_length).
    destruct Hc as (Hne & op & d & Hi). destruct i as [|ob i']; [contradiction|].
    rewrite app_length in Hlen. cbn [length] in Hlen.
    destruct fuel as [|f]; [lia|]. cbn [delete_walk].
    replace (length script <=? pc)%nat with false by lia.
    symmetry in Es. cbn [app] in Es.
    pose proof (decode_agree script false pc ob (i' ++ rest) Es) as D. cbv zeta in D.
    pose proof (Hi rest) as G. cbn [app] in G. rewrite G in D. destruct D as (_ & D).
    assert (Hpc : exists opc dat pc', btc_get_opcode script pc false = Ret (opc, dat, pc', true)
                                      /\ rest = skipn pc' script).
    { destruct (b2n ob <=? 78).
      - cbn [andb] in D. destruct D as (pc' & E & Hr). eauto.
      - destruct D as (_ & Hr1 & E & Hr2). exists (b2n ob), (const_of (b2n ob)), (S pc). split; [exact E|].
        rewrite Hr1. exact Hr2. }
    destruct Hpc as (opc & dat & pc' & E & Hr). rewrite E.
    pose proof (get_opcode_advances _ _ _ _ _ _ _ E) as Hadv.
    assert (Hsec : slice pc pc' script = ob :: i').
    { unfold slice. rewrite Es. change (ob :: i' ++ rest) with ((ob :: i') ++ rest).
      destruct (Nat.leb_spec pc' (length script)).
      - assert (length rest = length script - pc')%nat by (rewrite Hr; apply skipn_length).
        replace (pc' - pc)%nat with (length (ob :: i')) by (cbn [length]; lia). apply firstn_app_exact.
      - assert (Hn : rest = []) by (rewrite Hr; apply skipn_nil_iff; lia). rewrite Hn in *.
        rewrite firstn_all2; [apply app_nil_r|]. rewrite app_length. cbn [length] in *. lia. }
    cbv iota. rewrite Hsec. rewrite (IH pc' Hr f) by lia.
    cbn [filter]. change (keep sub (ob :: i')) with (negb (bytes_eqb (ob :: i') sub)).
    destruct (bytes_eqb (ob :: i') sub); cbn [negb concat]; [reflexivity|now rewrite <- app_assoc].
Qed.

(* ---- the pattern: CScript() << blob ------------------------------------------------------------------------------- *)
Lemma plain_push_eq sg : item_ok sg -> plain_push sg = Ret (push_encode sg).
Proof.
  unfold item_ok, plain_push, push_encode, len. change (2 ^ 32) with 4294967296. intros H.
  destruct (N.of_nat (length sg) <? 76); [reflexivity|].
  destruct (N.of_nat (length sg) <=? 255); [reflexivity|].
  destruct (N.of_nat (length sg) <=? 65535); [reflexivity|].
  replace (N.of_nat (length sg) <? 4294967296) with true by lia. reflexivity.
Qed.

Lemma push_complete sg : item_ok sg -> complete (push_encode sg).
Proof.
  unfold item_ok, push_encode. change (2 ^ 32) with 4294967296. intros H.
  set (n := len sg) in *. assert (Hn : n = len sg) by reflexivity. fold (len sg) in H. rewrite <- Hn in H.
  destruct (N.ltb_spec n 76) as [H76|H76].
  { split; [discriminate|]. exists (n2b n), sg. intros t. cbn [app get_op]. rewrite b2n_n2b by lia.
    replace (78 <? n) with false by lia. replace (n <? 76) with true by lia. now rewrite take_n_app. }
  destruct (N.leb_spec n 255) as [H255|H255].
  { split; [discriminate|]. exists x4c, sg. intros t. cbn [app get_op].
    change (78 <? b2n x4c) with false. change (b2n x4c <? 76) with false. change (b2n x4c =? 76) with true. cbv iota.
    cbn [length Nat.ltb Nat.leb firstn skipn le_decode]. rewrite b2n_n2b by lia.
    replace (n + 256 * 0) with n by lia. now rewrite take_n_app. }
  destruct (N.leb_spec n 65535) as [H65535|H65535].
  { split; [discriminate|]. exists x4d, sg. intros t. cbn [app get_op].
    change (78 <? b2n x4d) with false. change (b2n x4d <? 76) with false. change (b2n x4d =? 76) with false.
    change (b2n x4d =? 77) with true. cbv iota.
    rewrite <- app_assoc. rewrite app_length, le_encode_length.
    replace (2 + length (sg ++ t) <? 2)%nat with false by lia.
    rewrite (firstn_app_len _ _ 2%nat (le_encode_length 2 n)), (skipn_app_len _ _ 2%nat (le_encode_length 2 n)).
    rewrite le_decode_encode by (change (256 ^ N.of_nat 2) with 65536; lia). now rewrite take_n_app. }
  split; [discriminate|]. exists x4e, sg. intros t. cbn [app get_op].
  change (78 <? b2n x4e) with false. change (b2n x4e <? 76) with false. change (b2n x4e =? 76) with false.
  change (b2n x4e =? 77) with false. cbv iota.
  rewrite <- app_assoc. rewrite app_length, le_encode_length.
  replace (4 + length (sg ++ t) <? 4)%nat with false by lia.
  rewrite (firstn_app_len _ _ 4%nat (le_encode_length 4 n)), (skipn_app_len _ _ 4%nat (le_encode_length 4 n)).
  rewrite le_decode_encode by (change (256 ^ N.of_nat 4) with 4294967296; lia). now rewrite take_n_app.
Qed.

(* ---- several blobs, either order ----------------------------------------------------------------------------------- *)
Definition keep_all (pats : list bytes) (i : bytes) : bool := forallb (fun p => keep p i) pats.

Lemma filter_filter {A} (f g : A -> bool) l : filter f (filter g l) = filter (fun x => g x && f x) l.
Proof.
  induction l as [|x l IH]; [reflexivity|]. cbn [filter]. destruct (g x); cbn [andb filter]; [|exact IH].
  destruct (f x); now rewrite IH.
Qed.

Lemma filter_fold pats : forall l,
  fold_left (fun acc p => filter (keep p) acc) pats l = filter (keep_all pats) l.
Proof.
  induction pats as [|p r IH]; intros l; cbn [fold_left].
  - unfold keep_all. cbn [forallb]. induction l as [|x l IHl]; [reflexivity|]. cbn [filter]. f_equal. exact IHl.
  - rewrite IH, filter_filter. apply filter_ext. intros i. reflexivity.
Qed.

Lemma keep_all_rev pats i : keep_all (rev pats) i = keep_all pats i.
Proof.
  unfold keep_all. induction pats as [|p r IH]; [reflexivity|].
  cbn [rev forallb]. rewrite forallb_app, IH. cbn [forallb]. rewrite andb_true_r. apply andb_comm.
Qed.

Lemma filter_complete (f : bytes -> bool) l : Forall complete l -> Forall complete (filter f l).
Proof. induction 1; cbn [filter]; [constructor|]. destruct (f x); [constructor|]; assumption. Qed.

Lemma py_multi sigs : forall s l u, dec s l u -> Forall item_ok sigs ->
  delete_signatures s sigs = Ret (concat (fold_left (fun acc p => filter (keep p) acc) (map push_encode sigs) l) ++ u).
Proof.
  induction sigs as [|sg r IH]; intros s l u Hd Hi; cbn [delete_signatures map fold_left].
  - now rewrite (dec_concat _ _ _ Hd).
  - inversion Hi as [|? ? Hsg Hr]; subst. unfold delete_signature. rewrite (plain_push_eq sg Hsg).
    rewrite (delete_walk_filter s (push_encode sg) l u 0 Hd (length s)) by lia.
    apply IH; [|exact Hr]. apply dec_of_complete; [|exact (dec_tail _ _ _ Hd)].
    apply filter_complete. exact (dec_complete _ _ _ Hd).
Qed.

Lemma core_multi sigs : forall s l u, dec s l u -> Forall item_ok sigs ->
  fold_left (fun c sg => find_and_delete (push_encode sg) c) sigs s
  = concat (fold_left (fun acc p => filter (keep p) acc) (map push_encode sigs) l) ++ u.
Proof.
  induction sigs as [|sg r IH]; intros s l u Hd Hi; cbn [map fold_left].
  - now rewrite (dec_concat _ _ _ Hd).
  - inversion Hi as [|? ? Hsg Hr]; subst.
    rewrite (find_and_delete_filter _ s l u (push_complete sg Hsg) Hd).
    apply IH; [|exact Hr]. apply dec_of_complete; [|exact (dec_tail _ _ _ Hd)].
    apply filter_complete. exact (dec_complete _ _ _ Hd).
Qed.

Theorem fad_ok_dec tail l u : dec tail l u -> fad_ok tail.
Proof.
  intros Hd sigs Hi. unfold core_code.
  rewrite (py_multi (rev sigs) tail l u Hd) by (apply Forall_rev; exact Hi).
  rewrite (core_multi sigs tail l u Hd Hi). f_equal. f_equal. f_equal.
  rewrite !filter_fold. apply filter_ext. intros i. rewrite map_rev. apply keep_all_rev.
Qed.

(* every script code: no decodability condition *)
Theorem fad_ok_all tail : fad_ok tail.
Proof. destruct (dec_exists (length tail) tail (le_n _)) as (l & u & Hd). exact (fad_ok_dec tail l u Hd). Qed.
