(* Proofs/Bech32DetectStrP.v — C11, part 4: the <=4-error detection theorem lifted from symbol strings
   (Proofs/Bech32DetectP.v) to bech32_decode and to segwit `decode` on character strings. *)
From PV Require Import Base.Bytes Base.Outcome Gen.GenCodecsC11 Model.Base58 Model.Bech32
  Proofs.Base58P Proofs.Bech32P Proofs.Bech32StrP Proofs.Bech32DetectP.
From Coq Require Import ZifyBool ZifyNat ZifyN.
Local Open Scope Z_scope.

(* number of positions at which two strings differ (compared up to the shorter length) *)
Fixpoint str_hamming (a b : pystr) : nat :=
  match a, b with
  | x :: a', y :: b' => ((if (x =? y)%N then 0 else 1) + str_hamming a' b')%nat
  | _, _ => 0%nat
  end.

Lemma str_hamming_prefix p a b : str_hamming (p ++ a) (p ++ b) = str_hamming a b.
Proof. induction p as [|x p IH]; [reflexivity|]. cbn [app str_hamming]. now rewrite N.eqb_refl, IH. Qed.

Lemma str_hamming_map f a : forall b, (str_hamming (map f a) (map f b) <= str_hamming a b)%nat.
Proof.
  induction a as [|x a IH]; intros [|y b]; cbn [map str_hamming]; try lia.
  specialize (IH b). destruct (x =? y)%N eqn:E.
  - apply N.eqb_eq in E. subst. rewrite N.eqb_refl. lia.
  - destruct (f x =? f y)%N; lia.
Qed.

Lemma str_hamming_0 a : forall b, length a = length b -> str_hamming a b = 0%nat -> a = b.
Proof.
  induction a as [|x a IH]; intros [|y b] Hl H; cbn in *; try lia; [reflexivity|].
  destruct (x =? y)%N eqn:E; [|lia]. apply N.eqb_eq in E. subst. f_equal. apply IH; lia.
Qed.

(* symbols of a charset string *)
Lemma tail_syms t : forallb in_charset t = true -> syms5 (map charset_find t).
Proof.
  induction t as [|c r IH]; intros H; cbn [map]; [constructor|].
  cbn [forallb] in H. apply andb_true_iff in H. destruct H as [H1 H2].
  constructor; [|now apply IH]. pose proof (charset_char c H1). lia.
Qed.

Lemma tail_hamming t : forall t', forallb in_charset t = true -> forallb in_charset t' = true ->
  hamming (map charset_find t) (map charset_find t') = str_hamming t t'.
Proof.
  unfold hamming. induction t as [|c r IH]; intros [|c' r'] H H'; cbn [map zipxor str_hamming]; try reflexivity.
  cbn [forallb] in H, H'. apply andb_true_iff in H, H'. destruct H as [H1 H2], H' as [H1' H2'].
  rewrite weight_cons, (IH r' H2 H2'). f_equal.
  destruct (c =? c')%N eqn:E.
  - apply N.eqb_eq in E. subst. now rewrite Z.lxor_nilpotent.
  - destruct (Z.lxor (charset_find c) (charset_find c') =? 0) eqn:E2; [|reflexivity].
    exfalso. apply Z.eqb_eq, Z.lxor_eq in E2. apply (charset_find_inj c c' H1 H1') in E2. subst. lia.
Qed.

(* two accepted strings with the same human-readable part and the same length that differ (case aside) in
   one to four characters cannot carry the same checksum constant *)
Theorem bech32_decode_detects_4_errors : forall s s' mx h d spec d' spec',
  bech32_decode_max s mx = Some (h, d, spec) -> bech32_decode_max s' mx = Some (h, d', spec') ->
  length s' = length s -> Z.of_nat (length s) <= 91 ->
  (1 <= str_hamming (map lower_c s) (map lower_c s') <= 4)%nat -> spec' <> spec.
Proof.
  intros s s' mx h d spec d' spec' E E' Hl Hmx Hh.
  destruct (bech32_decode_inv s mx h d spec E) as (t & F).
  destruct (bech32_decode_inv s' mx h d' spec' E') as (t' & F').
  pose proof (df_split _ _ _ _ _ _ F) as Sp. pose proof (df_split _ _ _ _ _ _ F') as Sp'.
  rewrite Sp, Sp' in Hh. rewrite str_hamming_prefix in Hh. cbn [str_hamming] in Hh.
  rewrite N.eqb_refl in Hh. cbn [Nat.add] in Hh.
  assert (Hlt : length t' = length t).
  { apply (f_equal (@length _)) in Sp, Sp'. rewrite map_length, app_length in Sp, Sp'. cbn [length] in *. lia. }
  assert (Hlen : (length t <= 89)%nat).
  { apply (f_equal (@length _)) in Sp. rewrite map_length, app_length in Sp. cbn [length] in Sp.
    pose proof (df_hrp _ _ _ _ _ _ F). lia. }
  pose proof (df_charset _ _ _ _ _ _ F) as C. pose proof (df_charset _ _ _ _ _ _ F') as C'.
  intros ->.
  apply (verify_detects_4_errors h (map charset_find t) (map charset_find t') spec); try (now apply tail_syms).
  - now rewrite !map_length.
  - now rewrite map_length.
  - now rewrite tail_hamming.
  - exact (df_verify _ _ _ _ _ _ F).
  - exact (df_verify _ _ _ _ _ _ F').
Qed.

(* ---- segwit level ------------------------------------------------------------------------------------------ *)
Definition version_flip (v v' : Z) : Prop := (v = 0 /\ v' <> 0) \/ (v <> 0 /\ v' = 0).

Lemma expected_spec_neq v v' : expected_spec v' <> expected_spec v -> version_flip v v'.
Proof.
  unfold expected_spec, version_flip. destruct (v =? 0) eqn:A, (v' =? 0) eqn:B; intros H; try congruence; lia.
Qed.

Lemma decode_some_length hrp s v prog : decode hrp s = Some (v, prog) -> Z.of_nat (length s) <= 90.
Proof.
  intros D. apply segwit_decode_accepts_iff in D. destruct D as (data & spec & E & _).
  destruct (bech32_decode_inv s 90 _ _ _ E) as (t & F). exact (df_len _ _ _ _ _ _ F).
Qed.

(* any string of the same length that differs (case aside) in one to four characters — anywhere: human-readable
   part, separator, data, checksum — from an address valid for hrp is rejected, EXCEPT possibly when the witness
   version moved between 0 and non-zero (the Bech32 <-> Bech32m switch) *)
Theorem segwit_detects_4_errors_lower : forall hrp s s' v prog,
  decode hrp s = Some (v, prog) -> length s' = length s ->
  (1 <= str_hamming (map lower_c s) (map lower_c s') <= 4)%nat ->
  decode hrp s' = None \/ exists v' prog', decode hrp s' = Some (v', prog') /\ version_flip v v'.
Proof.
  intros hrp s s' v prog D Hl Hh.
  destruct (decode hrp s') as [[v' prog']|] eqn:D'; [right|now left].
  exists v', prog'. split; [reflexivity|].
  pose proof (decode_some_length hrp s v prog D) as Hlen.
  apply segwit_decode_accepts_iff in D, D'.
  destruct D as (data & spec & E & _ & _ & _ & _ & Hs).
  destruct D' as (data' & spec' & E' & _ & _ & _ & _ & Hs').
  apply expected_spec_neq. rewrite <- Hs, <- Hs'.
  eapply (bech32_decode_detects_4_errors s s' 90); eauto. lia.
Qed.

(* the same in terms of the raw strings: up to four differing characters, not merely a change of case *)
Theorem segwit_detects_4_errors : forall hrp s s' v prog,
  decode hrp s = Some (v, prog) -> length s' = length s ->
  (str_hamming s s' <= 4)%nat -> map lower_c s' <> map lower_c s ->
  decode hrp s' = None \/ exists v' prog', decode hrp s' = Some (v', prog') /\ version_flip v v'.
Proof.
  intros hrp s s' v prog D Hl Hh Hne.
  apply (segwit_detects_4_errors_lower hrp s s' v prog D Hl).
  pose proof (str_hamming_map lower_c s s'). split; [|lia].
  destruct (str_hamming (map lower_c s) (map lower_c s')) eqn:E; [|lia].
  exfalso. apply Hne. symmetry. apply str_hamming_0; [now rewrite !map_length|exact E].
Qed.

(* ---- the exception is real: a 4-character error that turns a valid v0 (Bech32) address into a valid v11
   (Bech32m) address.  Found by the anchored search of harness/c11.py (c11_flip_patterns), checked here by
   computation on the model and replayed on the implementation by the direct checks. ------------------------ *)
Definition flip_hrp : pystr := [98; 99]%N.   (* "bc" *)
(* bc1q82qwhphpzr8upm6xumv4ehyxt8d9dqpmjga6lu *)
Definition flip_good : pystr :=
  [98; 99; 49; 113; 56; 50; 113; 119; 104; 112; 104; 112; 122; 114; 56; 117; 112; 109; 54; 120; 117; 109; 118;
   52; 101; 104; 121; 120; 116; 56; 100; 57; 100; 113; 112; 109; 106; 103; 97; 54; 108; 117]%N.
(* bc1t82qwhphpzr8upm6xumv4eh2xt8d9dqpmegm6lu *)
Definition flip_bad : pystr :=
  [98; 99; 49; 116; 56; 50; 113; 119; 104; 112; 104; 112; 122; 114; 56; 117; 112; 109; 54; 120; 117; 109; 118;
   52; 101; 104; 50; 120; 116; 56; 100; 57; 100; 113; 112; 109; 101; 103; 109; 54; 108; 117]%N.

Lemma flip_witness :
  decode flip_hrp flip_good =
    Some (0, [58; 128; 235; 134; 225; 16; 207; 192; 239; 70; 230; 217; 92; 220; 134; 89; 218; 86; 128; 59])
  /\ decode flip_hrp flip_bad =
    Some (11, [58; 128; 235; 134; 225; 16; 207; 192; 239; 70; 230; 217; 92; 221; 70; 89; 218; 86; 128; 59])
  /\ length flip_bad = length flip_good /\ str_hamming flip_good flip_bad = 4%nat
  /\ map lower_c flip_bad <> map lower_c flip_good.
Proof. vm_compute. repeat split; discriminate. Qed.

(* the property text read literally at address level: every same-length string within four characters of a valid
   address (and not a mere case variant) is rejected *)
Definition segwit_detection_statement : Prop :=
  forall hrp s s' v prog, decode hrp s = Some (v, prog) -> length s' = length s ->
    (str_hamming s s' <= 4)%nat -> map lower_c s' <> map lower_c s -> decode hrp s' = None.

Theorem segwit_detection_refuted : ~ segwit_detection_statement.
Proof.
  intros H. destruct flip_witness as (D1 & D2 & Hl & Hh & Hne).
  specialize (H flip_hrp flip_good flip_bad _ _ D1 Hl ltac:(rewrite Hh; lia) Hne). congruence.
Qed.
