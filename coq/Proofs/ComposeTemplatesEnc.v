(* Proofs/ComposeTemplatesEnc.v — composition C05 x C03, part 1: the interface between the two developments.
   * the oracle record of Spec/VMTypes.v instantiated from C05's abstract ECDSA / digest / hash interface
     (`core_checksig`: what Core's TransactionSignatureChecker::CheckSig does with the abstract pieces:
     hash type = last byte of the blob, digest of the script code for that hash type and signature version,
     verification of the DER part under the key);
   * the relation between Templates' two-field flag record and Core's flag word (`flags_rel`), the concrete
     words for LAX and STD, and the standard policy word;
   * agreement of the encoding predicates: Templates.strict_der = Core's IsValidSignatureEncoding,
     low_s = CheckLowS (secp256k1 order), defined_hashtype = IsDefinedHashtypeSignature, the public-key
     predicates, hence sig_enc_ok / pub_enc_ok = CheckSignatureEncoding / CheckPubKeyEncoding succeed. *)
From Coq Require Import Lia ZifyBool ZifyNat ZifyN.
From PV Require Import Base.Bytes Base.Outcome Gen.GenFlags Proofs.PushP Spec.Templates.
From PV Require Import Model.ScriptNum Spec.VMTypes Spec.VMcore.
Local Open Scope N_scope.

(* ---- the oracle instantiation ------------------------------------------------------------------------ *)
Definition sv_wit (sv : sigversion) : bool := match sv with SV_WITNESS_V0 => true | SV_BASE => false end.

Section Inst.
Variable hash160 : bytes -> bytes.
Variable sha256 : bytes -> bytes.
Variable verifies : bytes -> bytes -> bytes -> bool.          (* public key (SEC), digest, DER signature *)
Variable sighash : bool -> N -> bytes -> option bytes.        (* witness v0?, hash type, script code *)

(* CheckSig(vchSigIn, vchPubKey, scriptCode, sigversion): nHashType = vchSig.back(); vchSig.pop_back();
   sighash = SignatureHash(scriptCode, ..., nHashType, amount, sigversion); pubkey.Verify(sighash, vchSig).
   Key / signature parsing failures and a hash type the coin refuses are `false`. *)
Definition core_checksig (sig key code : bytes) (sv : sigversion) : bool :=
  match sighash (sv_wit sv) (hash_type_of sig) code with
  | Some d => verifies key d (removelast sig)
  | None => false
  end.

(* an oracle record is an instance when its hash160 / sha256 / checksig / order fields are C05's; the three
   hash functions the templates never call (sha1, ripemd160, hash256) are left arbitrary *)
Record oracles_inst (o : oracles) : Prop := {
  oi_hash160 : forall x, o_hash160 o x = hash160 x;
  oi_sha256 : forall x, o_sha256 o x = sha256 x;
  oi_checksig : forall sig key code sv, o_checksig o sig key code sv = core_checksig sig key code sv;
  oi_order : o_order o = secp256k1_order
}.

Definition core_oracles (sha1 ripemd160 hash256 : bytes -> bytes) : oracles :=
  {| o_sha256 := sha256; o_sha1 := sha1; o_ripemd160 := ripemd160; o_hash160 := hash160; o_hash256 := hash256;
     o_checksig := core_checksig; o_order := secp256k1_order |}.

Lemma core_oracles_inst s1 r h2 : oracles_inst (core_oracles s1 r h2).
Proof. constructor; reflexivity. Qed.

Lemma run_checksig_inst o sig key code sv : oracles_inst o ->
  run_checksig o sig key code sv = sig_verifies verifies sighash (sv_wit sv) code sig key.
Proof.
  intros Ho. unfold run_checksig, sig_verifies. destruct sig as [|b r]; [reflexivity|].
  rewrite (oi_checksig o Ho). reflexivity.
Qed.
End Inst.

(* ---- flags --------------------------------------------------------------------------------------------- *)
(* the bits of the flag word that the templates' verdict depends on; SIGPUSHONLY, NULLFAIL, MINIMALIF, CLTV,
   CSV and the two DISCOURAGE bits are free *)
Record flags_rel (fl : flags) (fw : N) : Prop := {
  fr_p2sh : flag_set fw VERIFY_P2SH = true;
  fr_witness : flag_set fw VERIFY_WITNESS = true;
  fr_dersig : flag_set fw VERIFY_DERSIG = f_std fl;
  fr_low_s : flag_set fw VERIFY_LOW_S = f_std fl;
  fr_strictenc : flag_set fw VERIFY_STRICTENC = f_std fl && f_strictenc fl;
  fr_nulldummy : flag_set fw VERIFY_NULLDUMMY = f_std fl;
  fr_minimaldata : flag_set fw VERIFY_MINIMALDATA = f_std fl;
  fr_cleanstack : flag_set fw VERIFY_CLEANSTACK = f_std fl;
  fr_wpubkeytype : flag_set fw VERIFY_WITNESS_PUBKEYTYPE = f_std fl
}.

Definition lor_list (l : list N) : N := fold_right N.lor 0 l.

(* the smallest word related to fl *)
Definition flags_word (fl : flags) : N :=
  lor_list ([VERIFY_P2SH; VERIFY_WITNESS] ++
            (if f_std fl then [VERIFY_DERSIG; VERIFY_LOW_S; VERIFY_NULLDUMMY; VERIFY_MINIMALDATA; VERIFY_CLEANSTACK;
                               VERIFY_WITNESS_PUBKEYTYPE] else []) ++
            (if f_std fl && f_strictenc fl then [VERIFY_STRICTENC] else [])).

(* Bitcoin Core's STANDARD_SCRIPT_VERIFY_FLAGS of the reference vintage (policy.h): MANDATORY (P2SH) | DERSIG |
   STRICTENC | MINIMALDATA | NULLDUMMY | DISCOURAGE_UPGRADABLE_NOPS | CLEANSTACK | MINIMALIF | NULLFAIL | CLTV | CSV |
   LOW_S | WITNESS | DISCOURAGE_UPGRADABLE_WITNESS_PROGRAM | WITNESS_PUBKEYTYPE; on a fork-id coin without
   STRICTENC (the property text, Templates.STD) *)
Definition std_policy_word (forkid_coin : bool) : N :=
  lor_list ([VERIFY_P2SH; VERIFY_DERSIG; VERIFY_MINIMALDATA; VERIFY_NULLDUMMY; VERIFY_DISCOURAGE_UPGRADABLE_NOPS;
             VERIFY_CLEANSTACK; VERIFY_MINIMALIF; VERIFY_NULLFAIL; VERIFY_CHECKLOCKTIMEVERIFY;
             VERIFY_CHECKSEQUENCEVERIFY; VERIFY_LOW_S; VERIFY_WITNESS; VERIFY_DISCOURAGE_UPGRADABLE_WITNESS_PROGRAM;
             VERIFY_WITNESS_PUBKEYTYPE] ++ (if forkid_coin then [] else [VERIFY_STRICTENC])).

Lemma flags_rel_word fl : flags_rel fl (flags_word fl).
Proof. destruct fl as [[|] [|]]; constructor; vm_compute; reflexivity. Qed.
Lemma flags_rel_lax : flags_rel LAX DEFAULT_FLAGS.
Proof. constructor; vm_compute; reflexivity. Qed.
Lemma flags_rel_std_policy forkid : flags_rel (STD forkid) (std_policy_word forkid).
Proof. destruct forkid; constructor; vm_compute; reflexivity. Qed.
Lemma std_policy_permitted forkid : flags_permitted (std_policy_word forkid) = true.
Proof. destruct forkid; vm_compute; reflexivity. Qed.

(* ---- encoding predicates ------------------------------------------------------------------------------- *)
Lemma at_nthn sig i : at_ sig i = nthn (N.to_nat i) sig.
Proof. reflexivity. Qed.

Lemma land128_bit7 b : (N.land (b2n b) 128 =? 0) = negb (bit7 (b2n b)).
Proof. destruct b; vm_compute; reflexivity. Qed.
Lemma nthn_land128 i sig : (N.land (nthn i sig) 128 =? 0) = negb (bit7 (nthn i sig)).
Proof. unfold nthn. apply land128_bit7. Qed.
Lemma nthn_lt i sig : nthn i sig < 256.
Proof. unfold nthn. apply b2n_lt. Qed.

Lemma if_false_l (c x : bool) : (if c then false else x) = negb c && x.
Proof. destruct c; reflexivity. Qed.

Lemma strict_der_core sig : is_valid_signature_encoding sig = strict_der sig.
Proof.
  unfold is_valid_signature_encoding, strict_der. cbv zeta. rewrite !at_nthn. unfold VMcore.len.
  change (N.to_nat 0) with 0%nat. change (N.to_nat 1) with 1%nat. change (N.to_nat 2) with 2%nat.
  change (N.to_nat 3) with 3%nat. change (N.to_nat 4) with 4%nat. change (N.to_nat 5) with 5%nat.
  set (R := nthn 3 sig). pose proof (nthn_lt 3 sig) as HR. fold R in HR.
  replace (N.to_nat (5 + R)) with (5 + N.to_nat R)%nat by lia.
  replace (N.to_nat (R + 4)) with (N.to_nat R + 4)%nat by lia.
  replace (N.to_nat (R + 6)) with (N.to_nat R + 6)%nat by lia.
  replace (N.to_nat (R + 7)) with (N.to_nat R + 7)%nat by lia.
  rewrite !nthn_land128.
  set (S := nthn (5 + N.to_nat R) sig). pose proof (nthn_lt (5 + N.to_nat R) sig) as HS. fold S in HS.
  generalize (nthn 0 sig) (nthn 1 sig) (nthn 2 sig) (nthn 4 sig) (nthn 5 sig)
             (nthn (N.to_nat R + 4) sig) (nthn (N.to_nat R + 6) sig) (nthn (N.to_nat R + 7) sig).
  intros a0 a1 a2 a4 a5 r4 r6 r7. unfold bit7.
  generalize (length sig). intros L. clearbody R S.
  rewrite !if_false_l.
  destruct (N.of_nat L <? 9) eqn:E1; [cbn [negb andb]; lia|].
  destruct (73 <? N.of_nat L) eqn:E2; [cbn [negb andb]; lia|].
  cbn [negb andb].
  replace ((9 <=? L) && (L <=? 73))%nat with true by lia. cbn [andb].
  destruct (a0 =? 48); cbn [negb andb]; [|reflexivity].
  replace (a1 =? N.of_nat (L - 3)) with (a1 =? N.of_nat L - 3) by lia.
  destruct (a1 =? N.of_nat L - 3); cbn [negb andb]; [|reflexivity].
  replace (5 + N.to_nat R <? L)%nat with (negb (N.of_nat L <=? 5 + R)) by lia.
  destruct (N.of_nat L <=? 5 + R); cbn [negb andb]; [reflexivity|].
  replace (N.to_nat R + N.to_nat S + 7 =? L)%nat with (R + S + 7 =? N.of_nat L) by lia.
  destruct (R + S + 7 =? N.of_nat L); cbn [negb andb]; [|reflexivity].
  destruct (a2 =? 2); cbn [negb andb]; [|reflexivity].
  replace (N.to_nat R =? 0)%nat with (R =? 0) by lia.
  destruct (R =? 0); cbn [negb andb]; [reflexivity|].
  destruct (128 <=? a4); cbn [negb andb]; [reflexivity|].
  replace (1 <? N.to_nat R)%nat with (1 <? R) by lia.
  destruct ((1 <? R) && (a4 =? 0) && negb (128 <=? a5)); cbn [negb andb]; [reflexivity|].
  destruct (r4 =? 2); cbn [negb andb]; [|reflexivity].
  replace (N.to_nat S =? 0)%nat with (S =? 0) by lia.
  destruct (S =? 0); cbn [negb andb]; [reflexivity|].
  destruct (128 <=? r6); cbn [negb andb]; [reflexivity|].
  replace (1 <? N.to_nat S)%nat with (1 <? S) by lia.
  destruct ((1 <? S) && (r6 =? 0) && negb (128 <=? r7)); reflexivity.
Qed.

Lemma half_order : secp256k1_order / 2 = 57896044618658097711785492504343953926418782139537452191302581570759080747168.
Proof. vm_compute. reflexivity. Qed.

Lemma low_s_core sig : check_low_s secp256k1_order sig = low_s sig.
Proof.
  unfold check_low_s, low_s, der_r, der_s, der_r_value, der_s_value. cbv zeta. rewrite !at_nthn.
  change (N.to_nat 3) with 3%nat.
  replace (N.to_nat (5 + nthn 3 sig)) with (5 + N.to_nat (nthn 3 sig))%nat by lia.
  replace (N.to_nat (6 + nthn 3 sig)) with (N.to_nat (nthn 3 sig) + 6)%nat by lia.
  generalize (be_decode (firstn (N.to_nat (nthn 3 sig)) (skipn 4 sig))).
  generalize (be_decode (firstn (N.to_nat (nthn (5 + N.to_nat (nthn 3 sig)) sig))
                                (skipn (N.to_nat (nthn 3 sig) + 6) sig))).
  intros s r. rewrite half_order. unfold secp256k1_order.
  destruct (_ <=? r); cbn [orb]; [reflexivity|]. destruct (_ <=? s) eqn:E; cbn [orb]; [reflexivity|]. lia.
Qed.

Lemma hashtype_byte_core h :
  (let t := N.land (b2n h) 127 in (1 <=? t) && (t <=? 3)) =
  (let t := b2n h in let t' := if bit7 t then t - 128 else t in (1 <=? t') && (t' <=? 3)).
Proof. destruct h; vm_compute; reflexivity. Qed.

Lemma defined_hashtype_core sig : is_defined_hashtype_signature sig = defined_hashtype sig.
Proof.
  unfold is_defined_hashtype_signature, defined_hashtype, hash_type_of.
  destruct sig as [|b r] using rev_ind; [reflexivity|].
  rewrite rev_app_distr. cbn [rev app]. rewrite last_last. apply hashtype_byte_core.
Qed.

Lemma compressed_core k : is_compressed_pubkey k = is_compressed k.
Proof.
  unfold is_compressed_pubkey, is_compressed. rewrite at_nthn. change (N.to_nat 0) with 0%nat. unfold VMcore.len.
  f_equal. lia.
Qed.

Lemma comp_or_uncomp_core k : is_compressed_or_uncompressed_pubkey k = is_compressed k || is_uncompressed k.
Proof.
  unfold is_compressed_or_uncompressed_pubkey, is_compressed, is_uncompressed. rewrite at_nthn.
  change (N.to_nat 0) with 0%nat. unfold VMcore.len. generalize (nthn 0 k) (length k). intros h L.
  destruct (N.of_nat L <? 33) eqn:E; [lia|].
  destruct (h =? 4) eqn:E4; [lia|]. destruct ((h =? 2) || (h =? 3)) eqn:E23; lia.
Qed.

Section EncAgree.
Variable fl : flags.
Variable fw : N.
Hypothesis Hfl : flags_rel fl fw.

Lemma sig_enc_core sig : exists e,
  check_signature_encoding secp256k1_order fw sig = if sig_enc_ok fl sig then COk tt else CErr e.
Proof.
  unfold check_signature_encoding, sig_enc_ok. destruct sig as [|b r]; [exists SE_UNKNOWN_ERROR; reflexivity|].
  rewrite (fr_dersig _ _ Hfl), (fr_low_s _ _ Hfl), (fr_strictenc _ _ Hfl).
  rewrite strict_der_core, low_s_core, defined_hashtype_core.
  destruct (f_std fl); cbn [orb andb]; [|exists SE_UNKNOWN_ERROR; reflexivity].
  destruct (strict_der (b :: r)); cbn [negb andb]; [|exists SE_SIG_DER; reflexivity].
  destruct (low_s (b :: r)); cbn [negb andb]; [|exists SE_SIG_HIGH_S; reflexivity].
  destruct (f_strictenc fl); cbn [negb andb]; [|exists SE_UNKNOWN_ERROR; reflexivity].
  destruct (defined_hashtype (b :: r)); exists SE_SIG_HASHTYPE; reflexivity.
Qed.

Lemma pub_enc_core sv key : exists e,
  check_pubkey_encoding fw sv key = if pub_enc_ok fl (sv_wit sv) key then COk tt else CErr e.
Proof.
  unfold check_pubkey_encoding, pub_enc_ok.
  rewrite (fr_strictenc _ _ Hfl), (fr_wpubkeytype _ _ Hfl), comp_or_uncomp_core, compressed_core.
  destruct (f_std fl && f_strictenc fl); cbn [andb].
  - destruct (is_compressed key || is_uncompressed key); cbn [negb andb]; [|exists SE_PUBKEYTYPE; reflexivity].
    destruct sv; cbn [sv_wit]; rewrite ?andb_false_r; cbn [andb]; [exists SE_UNKNOWN_ERROR; reflexivity|].
    rewrite andb_true_r. destruct (f_std fl); cbn [andb]; [|exists SE_UNKNOWN_ERROR; reflexivity].
    destruct (is_compressed key); exists SE_WITNESS_PUBKEYTYPE; reflexivity.
  - destruct sv; cbn [sv_wit]; rewrite ?andb_false_r; cbn [andb]; [exists SE_UNKNOWN_ERROR; reflexivity|].
    rewrite andb_true_r. destruct (f_std fl); cbn [andb]; [|exists SE_UNKNOWN_ERROR; reflexivity].
    destruct (is_compressed key); exists SE_WITNESS_PUBKEYTYPE; reflexivity.
Qed.
End EncAgree.
