(* Proofs/PushP.v — lemmas about Model/Push.v instantiated with the GENERATED tables (C12). *)
From PV Require Import Base.Bytes Base.Outcome Gen.GenOpcodes Model.Push.
From Coq Require Import ZifyBool ZifyNat ZifyN.
Local Open Scope N_scope.

(* ---- generic table lemmas ------------------------------------------------------------------ *)
Lemma const_by_data_in t d o : const_by_data t d = Some o -> In (d, o) t.
Proof.
  induction t as [|[d' o'] r IH]; cbn [const_by_data]; [discriminate|].
  destruct (bytes_eqb d d') eqn:E.
  - intros H; injection H as <-. apply bytes_eqb_eq in E. subst. now left.
  - intros H. right. auto.
Qed.

Lemma sized_by_size_in t s o : sized_by_size t s = Some o -> In (s, o) t.
Proof.
  induction t as [|[s' o'] r IH]; cbn [sized_by_size]; [discriminate|].
  destruct (s =? s') eqn:E.
  - intros H; injection H as <-. apply N.eqb_eq in E. subst. now left.
  - intros H. right. auto.
Qed.

(* ---- facts about the generated tables, decided by computation ---------------------------- *)
Definition opt_bytes_eqb (a : option bytes) (b : option bytes) : bool :=
  match a, b with Some x, Some y => bytes_eqb x y | None, None => true | _, _ => false end.
Definition opt_N_eqb (a b : option N) : bool :=
  match a, b with Some x, Some y => x =? y | None, None => true | _, _ => false end.

Definition const_entry_ok (e : bytes * N) : bool :=
  let '(d, o) := e in (o <? 256) && opt_bytes_eqb (const_by_opcode const_table o) (Some d).
Definition sized_entry_ok (e : N * N) : bool :=
  let '(s, o) := e in
  (o <? 256) && (0 <? s) && opt_bytes_eqb (const_by_opcode const_table o) None
  && opt_N_eqb (sized_by_opcode sized_table o) (Some s).

Lemma opt_bytes_none x : opt_bytes_eqb x None = true -> x = None.
Proof. destruct x; cbn; [discriminate|reflexivity]. Qed.
Lemma opt_N_none x : opt_N_eqb x None = true -> x = None.
Proof. destruct x; cbn; [discriminate|reflexivity]. Qed.

Lemma const_table_ok : forallb const_entry_ok const_table = true.
Proof. vm_compute. reflexivity. Qed.
Lemma sized_table_ok : forallb sized_entry_ok sized_table = true.
Proof. vm_compute. reflexivity. Qed.

Lemma const_fact d o : const_by_data const_table d = Some o ->
  o < 256 /\ const_by_opcode const_table o = Some d.
Proof.
  intros H. apply const_by_data_in in H.
  pose proof (proj1 (forallb_forall _ _) const_table_ok _ H) as K. unfold const_entry_ok in K.
  apply andb_true_iff in K. destruct K as [K1 K2]. split; [lia|].
  destruct (const_by_opcode const_table o) as [x|]; cbn in K2; [|discriminate].
  apply bytes_eqb_eq in K2. now subst.
Qed.

Lemma sized_fact s o : sized_by_size sized_table s = Some o ->
  o < 256 /\ 0 < s /\ const_by_opcode const_table o = None /\ sized_by_opcode sized_table o = Some s.
Proof.
  intros H. apply sized_by_size_in in H.
  pose proof (proj1 (forallb_forall _ _) sized_table_ok _ H) as K. unfold sized_entry_ok in K.
  repeat (apply andb_true_iff in K; destruct K as [K ?]).
  repeat split; try lia.
  - destruct (const_by_opcode const_table o); [discriminate|reflexivity].
  - destruct (sized_by_opcode sized_table o) as [x|]; cbn in *; [|discriminate].
    f_equal. lia.
Qed.

Lemma empty_is_const : const_by_data const_table [] = Some 0.
Proof. vm_compute. reflexivity. Qed.

(* the variable-size table, entry by entry: what var_pick returns and what the decoder knows *)
Definition var_pick_btc (size : N) := var_pick variable_table size None.

Record var_entry_ok (prev_max m o : N) (w : nat) (ms : N) : Prop := {
  ve_width : m + 1 = 256 ^ N.of_nat w;
  ve_min : ms = prev_max;
  ve_lt : prev_max < m \/ (prev_max = 0 /\ 0 < m);
  ve_o : o < 256;
  ve_nc : const_by_opcode const_table o = None;
  ve_ns : sized_by_opcode sized_table o = None;
  ve_v : var_by_opcode variable_table o = Some (w, ms) }.

Lemma var_table_facts : exists m1 o1 w1 ms1 m2 o2 w2 ms2 m3 o3 w3 ms3,
  variable_table = [(m1, o1, w1, ms1); (m2, o2, w2, ms2); (m3, o3, w3, ms3)] /\
  var_entry_ok 0 m1 o1 w1 ms1 /\ var_entry_ok m1 m2 o2 w2 ms2 /\ var_entry_ok m2 m3 o3 w3 ms3 /\
  m3 + 1 = 4294967296.
Proof.
  unfold variable_table. do 12 eexists. split; [reflexivity|].
  repeat split; try (vm_compute; reflexivity); try (left; vm_compute; reflexivity);
    try (right; split; vm_compute; reflexivity).
Qed.

(* ---- slicing --------------------------------------------------------------------------------- *)
Lemma slice_head {A} (x : A) (a b : list A) n :
  n = length a -> slice 1 (1 + n) (x :: a ++ b) = a.
Proof.
  intros ->. unfold slice. replace (1 + length a - 1)%nat with (length a) by lia.
  cbn [skipn]. apply firstn_app_exact.
Qed.

Lemma slice_tail {A} (x : A) (a b : list A) n m :
  n = length a -> m = length b -> slice (1 + n) (1 + n + m) (x :: a ++ b) = b.
Proof.
  intros -> ->. unfold slice. replace (1 + length a + length b - (1 + length a))%nat with (length b) by lia.
  cbn [skipn Nat.add]. rewrite skipn_app_exact. apply firstn_all.
Qed.

(* ---- main statement --------------------------------------------------------------------------- *)
(* the opcode byte the encoder chooses *)
Definition push_result_ok (d s : bytes) (m : bool) : Prop :=
  exists o, hd_error s = Some (n2b o) /\ o < 256 /\
  btc_get_opcode s 0 m = Ret (o, Some d, length s, true).

Lemma push_roundtrip d : N.of_nat (length d) < 2 ^ 32 ->
  exists s, btc_compile_push_data d = Ret s /\ forall m, push_result_ok d s m.
Proof.
  intros Hlen. unfold btc_compile_push_data, compile_push_data.
  destruct (const_by_data const_table d) as [o|] eqn:Hc.
  - (* constant opcode *)
    destruct (const_fact d o Hc) as [Ho Hback].
    eexists. split; [reflexivity|]. intros m. exists o. repeat split; auto.
    unfold btc_get_opcode, get_opcode. cbn [nth_error]. rewrite b2n_n2b by exact Ho.
    rewrite Hback. reflexivity.
  - set (size := N.of_nat (length d)) in *.
    destruct (sized_by_size sized_table size) as [o|] eqn:Hs.
    + destruct (sized_fact size o Hs) as [Ho [Hpos [Hnc Hback]]].
      eexists. split; [reflexivity|]. intros m. exists o. repeat split; auto.
      unfold btc_get_opcode, get_opcode. cbn [nth_error]. rewrite b2n_n2b by exact Ho.
      rewrite Hnc, Hback.
      assert (Hsz : N.to_nat size = length d) by (unfold size; lia).
      rewrite Hsz. change (0 + 1)%nat with 1%nat.
      pose proof (slice_head (n2b o) d [] (length d) eq_refl) as Hsl. rewrite app_nil_r in Hsl.
      rewrite Hsl. rewrite Nat.ltb_irrefl.
      unfold is_const_value. rewrite Hc. rewrite andb_false_r. cbn [length]. reflexivity.
    + (* PUSHDATA1/2/4 *)
      destruct var_table_facts as (m1 & o1 & w1 & ms1 & m2 & o2 & w2 & ms2 & m3 & o3 & w3 & ms3 & VT & E1 & E2 & E3 & Hm3).
      rewrite VT.
      assert (Hd0 : size <> 0).
      { intros E. assert (d = []) by (destruct d; [reflexivity | unfold size in E; cbn in E; lia]).
        subst d. rewrite empty_is_const in Hc. discriminate. }
      assert (Hsz : N.to_nat size = length d) by (unfold size; lia).
      change (2 ^ 32) with 4294967296 in Hlen.
      cbn [var_pick].
      assert (Hone : forall prev m o w ms, var_entry_ok prev m o w ms -> prev < size -> size <= m ->
                forall mm, push_result_ok d (n2b o :: le_encode w size ++ d) mm).
      { intros prev m o w ms [Hw Hms Hlt Ho Hnc Hns Hv] Hp Hle mm. exists o. repeat split; auto.
        assert (Hsw : size < 256 ^ N.of_nat w) by lia.
        unfold btc_get_opcode, get_opcode. cbn [nth_error]. rewrite b2n_n2b by exact Ho.
        rewrite Hnc, Hns, Hv. change (0 + 1)%nat with 1%nat.
        rewrite (slice_head (n2b o) (le_encode w size) d w) by (now rewrite le_encode_length).
        rewrite le_encode_length, Nat.ltb_irrefl, le_decode_encode by exact Hsw.
        match goal with |- context [N.of_nat ?x <? size] =>
          replace (N.of_nat x <? size) with false by (cbn [length]; rewrite app_length, le_encode_length; lia) end.
        rewrite Hsz.
        rewrite (slice_tail (n2b o) (le_encode w size) d w (length d)) by (now rewrite ?le_encode_length).
        rewrite Nat.ltb_irrefl.
        unfold is_sized_value. rewrite Hs. replace (size <=? ms) with false by lia.
        rewrite andb_false_r. cbn [length]. rewrite app_length, le_encode_length. reflexivity. }
      destruct (size <=? m1) eqn:L1; [|destruct (size <=? m2) eqn:L2; [|destruct (size <=? m3) eqn:L3]].
      * destruct E1 as [Hw ?]. replace (size <? 256 ^ N.of_nat w1) with true by lia.
        eexists. split; [reflexivity|]. eapply (Hone 0 m1 o1 w1 ms1); [constructor; eauto | lia | lia].
      * destruct E2 as [Hw ?]. replace (size <? 256 ^ N.of_nat w2) with true by lia.
        eexists. split; [reflexivity|]. eapply (Hone m1 m2 o2 w2 ms2); [constructor; eauto | lia | lia].
      * destruct E3 as [Hw ?]. replace (size <? 256 ^ N.of_nat w3) with true by lia.
        eexists. split; [reflexivity|]. eapply (Hone m2 m3 o3 w3 ms3); [constructor; eauto | lia | lia].
      * exfalso. lia.
Qed.

(* ---- truncated pushes are reported as malformed ---------------------------------------------- *)
Lemma slice_length {A} a b (l : list A) : length (slice a b l) = Nat.min (b - a) (length l - a).
Proof. unfold slice. rewrite firstn_length, skipn_length. reflexivity. Qed.

Lemma firstn_cons_app {A} k (x : A) (a b : list A) : (1 + length a <= k)%nat ->
  firstn k (x :: a ++ b) = x :: a ++ firstn (k - 1 - length a) b.
Proof.
  intros H. destruct k as [|k]; [lia|]. cbn [firstn]. f_equal.
  rewrite firstn_app. replace (S k - 1 - length a)%nat with (k - length a)%nat by lia.
  f_equal. apply firstn_all2. lia.
Qed.

Definition malformed (r : outcome (N * option bytes * nat * bool)) : Prop :=
  exists o pc, r = Ret (o, None, pc, false).

Lemma sized_truncated o size d k m :
  o < 256 -> const_by_opcode const_table o = None -> sized_by_opcode sized_table o = Some size ->
  N.to_nat size = length d -> (0 < k < 1 + length d)%nat ->
  malformed (btc_get_opcode (firstn k (n2b o :: d)) 0 m).
Proof.
  intros Ho Hnc Hs Hsz Hk. unfold btc_get_opcode, get_opcode.
  destruct k as [|k]; [lia|]. cbn [firstn nth_error]. rewrite b2n_n2b by exact Ho.
  rewrite Hnc, Hs. change (0 + 1)%nat with 1%nat.
  rewrite slice_length. cbn [length]. rewrite firstn_length.
  replace (Nat.min (1 + N.to_nat size - 1) (S (Nat.min k (length d)) - 1) <? N.to_nat size)%nat with true by lia.
  eexists _, _. reflexivity.
Qed.

Lemma var_truncated o w ms size d k m :
  o < 256 -> const_by_opcode const_table o = None -> sized_by_opcode sized_table o = None ->
  var_by_opcode variable_table o = Some (w, ms) -> size < 256 ^ N.of_nat w ->
  N.to_nat size = length d -> (0 < k < 1 + w + length d)%nat ->
  malformed (btc_get_opcode (firstn k (n2b o :: le_encode w size ++ d)) 0 m).
Proof.
  intros Ho Hnc Hns Hv Hsize Hsz Hk. unfold btc_get_opcode, get_opcode.
  destruct (Nat.le_gt_cases (1 + w) k) as [Hge|Hlt].
  - rewrite firstn_cons_app by (rewrite le_encode_length; exact Hge).
    cbn [nth_error]. rewrite b2n_n2b by exact Ho. rewrite Hnc, Hns, Hv.
    change (0 + 1)%nat with 1%nat.
    rewrite (slice_head (n2b o) (le_encode w size) _ w) by (now rewrite le_encode_length).
    rewrite le_encode_length, Nat.ltb_irrefl, le_decode_encode by exact Hsize.
    match goal with |- context [N.of_nat ?x <? size] => destruct (N.of_nat x <? size) end;
      [eexists _, _; reflexivity|].
    rewrite slice_length. cbn [length]. rewrite app_length, le_encode_length, firstn_length.
    match goal with |- context [(?a <? ?b)%nat] => replace (a <? b)%nat with true by lia end.
    eexists _, _. reflexivity.
  - destruct k as [|k]; [lia|]. cbn [firstn nth_error]. rewrite b2n_n2b by exact Ho.
    rewrite Hnc, Hns, Hv. change (0 + 1)%nat with 1%nat.
    rewrite slice_length. cbn [length]. rewrite firstn_length, app_length, le_encode_length.
    match goal with |- context [(?a <? ?b)%nat] => replace (a <? b)%nat with true by lia end.
    eexists _, _. reflexivity.
Qed.

Lemma push_truncated d s k m : N.of_nat (length d) < 2 ^ 32 ->
  btc_compile_push_data d = Ret s -> (0 < k < length s)%nat ->
  malformed (btc_get_opcode (firstn k s) 0 m).
Proof.
  intros Hlen. unfold btc_compile_push_data, compile_push_data.
  destruct (const_by_data const_table d) as [o|] eqn:Hc.
  - intros H; injection H as <-. cbn [length]. lia.
  - set (size := N.of_nat (length d)) in *.
    assert (Hsz : N.to_nat size = length d) by (unfold size; lia).
    destruct (sized_by_size sized_table size) as [o|] eqn:Hs.
    + destruct (sized_fact size o Hs) as [Ho [Hpos [Hnc Hback]]].
      intros H; injection H as <-. cbn [length]. intros Hk.
      apply (sized_truncated o size); auto; lia.
    + destruct var_table_facts as (m1 & o1 & w1 & ms1 & m2 & o2 & w2 & ms2 & m3 & o3 & w3 & ms3 & VT & E1 & E2 & E3 & Hm3).
      rewrite VT. change (2 ^ 32) with 4294967296 in Hlen.
      cbn [var_pick].
      destruct (size <=? m1) eqn:L1; [|destruct (size <=? m2) eqn:L2; [|destruct (size <=? m3) eqn:L3]].
      * destruct E1 as [Hw Hms Hlt Ho Hnc Hns Hv]. replace (size <? 256 ^ N.of_nat w1) with true by lia.
        intros Hr; injection Hr as <-. cbn [length]. rewrite app_length, le_encode_length. intros Hk.
        apply (var_truncated o1 w1 ms1 size); auto; lia.
      * destruct E2 as [Hw Hms Hlt Ho Hnc Hns Hv]. replace (size <? 256 ^ N.of_nat w2) with true by lia.
        intros Hr; injection Hr as <-. cbn [length]. rewrite app_length, le_encode_length. intros Hk.
        apply (var_truncated o2 w2 ms2 size); auto; lia.
      * destruct E3 as [Hw Hms Hlt Ho Hnc Hns Hv]. replace (size <? 256 ^ N.of_nat w3) with true by lia.
        intros Hr; injection Hr as <-. cbn [length]. rewrite app_length, le_encode_length. intros Hk.
        apply (var_truncated o3 w3 ms3 size); auto; lia.
      * exfalso. lia.
Qed.

(* ---- the encoder's choice equals the consensus-minimal form (Core's CheckMinimalPush) ------- *)
Definition spec_push (d : bytes) : bytes :=
  let n := N.of_nat (length d) in
  match d with
  | [] => [x00]
  | [b] => if (1 <=? b2n b) && (b2n b <=? 16) then [n2b (80 + b2n b)]
           else if b2n b =? 129 then [x4f] else x01 :: d
  | _ => if n <=? 75 then n2b n :: d
         else if n <=? 255 then x4c :: le_encode 1 n ++ d
         else if n <=? 65535 then x4d :: le_encode 2 n ++ d
         else x4e :: le_encode 4 n ++ d
  end.

Lemma const_len_le1 : forallb (fun e : bytes * N => Nat.leb (length (fst e)) 1) const_table = true.
Proof. vm_compute. reflexivity. Qed.

Lemma const_none_long d : (2 <= length d)%nat -> const_by_data const_table d = None.
Proof.
  intros H. destruct (const_by_data const_table d) as [o|] eqn:E; [|reflexivity].
  apply const_by_data_in in E.
  pose proof (proj1 (forallb_forall _ _) const_len_le1 _ E) as K. cbn [fst] in K.
  apply Nat.leb_le in K. lia.
Qed.

Definition one_byte_ok (b : byte) : bool :=
  match btc_compile_push_data [b] with Ret s => bytes_eqb s (spec_push [b]) | _ => false end.
Lemma one_byte_all b : one_byte_ok b = true.
Proof. destruct b; vm_compute; reflexivity. Qed.

Definition sized_direct_ok : bool :=
  forallb (fun n => opt_N_eqb (sized_by_size sized_table n) (Some n)) (map N.of_nat (seq 1 75))
  && forallb (fun e : N * N => (fst e <=? 75) && (1 <=? fst e)) sized_table.
Lemma sized_direct : sized_direct_ok = true.
Proof. vm_compute. reflexivity. Qed.

Lemma sized_small n : 1 <= n <= 75 -> sized_by_size sized_table n = Some n.
Proof.
  intros H. pose proof sized_direct as K. unfold sized_direct_ok in K.
  apply andb_true_iff in K. destruct K as [K _].
  assert (In n (map N.of_nat (seq 1 75))).
  { apply in_map_iff. exists (N.to_nat n). split; [lia|]. apply in_seq. lia. }
  pose proof (proj1 (forallb_forall _ _) K _ H0) as Q.
  cbv beta in Q. unfold opt_N_eqb in Q.
  destruct (sized_by_size sized_table n); [|discriminate]. f_equal. lia.
Qed.

Lemma sized_large n : 75 < n -> sized_by_size sized_table n = None.
Proof.
  intros H. destruct (sized_by_size sized_table n) as [o|] eqn:E; [|reflexivity].
  apply sized_by_size_in in E. pose proof sized_direct as K. unfold sized_direct_ok in K.
  apply andb_true_iff in K. destruct K as [_ K].
  pose proof (proj1 (forallb_forall _ _) K _ E) as Q. cbn [fst] in Q. lia.
Qed.

Lemma var_pick_concrete n : var_pick variable_table n None =
  Some (if n <=? 255 then (255, 76, 1%nat) else if n <=? 65535 then (65535, 77, 2%nat) else (4294967295, 78, 4%nat)).
Proof.
  unfold variable_table. cbn [var_pick].
  destruct (n <=? 255); [reflexivity|]. destruct (n <=? 65535); [reflexivity|].
  destruct (n <=? 4294967295); reflexivity.
Qed.

Lemma push_is_spec d : N.of_nat (length d) < 2 ^ 32 -> btc_compile_push_data d = Ret (spec_push d).
Proof.
  intros Hlen. destruct d as [|b [|b2 r]].
  - vm_compute. reflexivity.
  - pose proof (one_byte_all b) as H. unfold one_byte_ok in H.
    destruct (btc_compile_push_data [b]) as [s| |]; try discriminate.
    apply bytes_eqb_eq in H. now subst.
  - set (d := b :: b2 :: r) in *.
    unfold btc_compile_push_data, compile_push_data.
    rewrite const_none_long by (cbn; lia).
    unfold spec_push. fold d. set (n := N.of_nat (length d)) in *.
    assert (2 <= n) by (unfold n, d; cbn [length]; lia).
    destruct (n <=? 75) eqn:E75.
    + rewrite sized_small by lia. reflexivity.
    + rewrite sized_large by lia.
      rewrite var_pick_concrete.
      change (2 ^ 32) with 4294967296 in Hlen.
      destruct (n <=? 255) eqn:E1; [|destruct (n <=? 65535) eqn:E2].
      * replace (n <? 256 ^ N.of_nat 1) with true by (change (256 ^ N.of_nat 1) with 256; lia). reflexivity.
      * replace (n <? 256 ^ N.of_nat 2) with true by (change (256 ^ N.of_nat 2) with 65536; lia). reflexivity.
      * replace (n <? 256 ^ N.of_nat 4) with true by (change (256 ^ N.of_nat 4) with 4294967296; lia). reflexivity.
Qed.
