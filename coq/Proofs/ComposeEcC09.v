(* Proofs/ComposeEcC09.v — composition C09 x C02 x C10: the abstract group and point encoding of the BIP32 model
   (Model/Bip32.v, Section variables pt padd pO smul pG order pt_eqb sec xy unsec) INSTANTIATED by

     pt      ept c  = the subgroup E[n] of C02's curve model (Proofs/ComposeEcInst.v)
     padd    eadd c = Curve.add, run        pO   eO c (infinity)        smul  esmul c = Curve.multiply, run
     pG      eG g   = the generator's point                              order cn c
     pt_eqb  equality of the coordinate pairs (Python: tuple ==)
     sec P   public_pair_to_sec((x, y), compressed=True) of C10's model (Model/Sec.v), run
     xy P    public_pair_to_sec((x, y), compressed=False) without its 04 head = to_bytes_32(x) + to_bytes_32(y)
     unsec b Key.from_sec of C10's model = sec_to_public_pair(b, generator) followed by the on-curve / range tests of
             Key.__init__ (what BIP32Node.deserialize runs on the 33-byte key field), then re-packed as a carrier element

   and every group / encoding hypothesis of the Sections of Proofs/Bip32P.v and Props/C09.v
     order_range smul_add smul_mod smul_zero pt_eqb_spec sec_len sec_head unsec_sec
   PROVED for it.  None of them is false for the real instance and none needed a correction: sec_len / sec_head / unsec_sec
   are already stated for P <> pO only, smul_add / smul_mod / smul_zero only for multiples of G.

   Section EcC09: any generator, under the premises of Proofs/ComposeEcC01.v (M1, M4, n*G = O, prime n, the decidable side
   condition) and two size facts (2^248 <= p < 2^256: the decoder's byte count is 32 and to_bytes_32 does not overflow;
   n <= 2^256).  Section K1: secp256k1, where all of them are theorems (Proofs/ComposeEcShipped.v): NO premise is left.

   The only thing the instance does that Python does not: `eunsec` tests membership in E[n] (n*P = O) after the tests Python
   makes, and answers InvalidPublicPairError if that fails.  On a curve whose group has order n (cofactor 1: secp256k1)
   the test never fails (`eunsec_run_cofactor1`); cofactor 1 is not proved here and NO theorem below depends on it. *)
From Coq Require Import ZArith Lia Znumtheory Bool List.
From Coq Require Import Strings.Byte.
From PV Require Import Base.Bytes Base.Outcome Model.Curve Model.Sec Spec.Weierstrass Spec.EcdsaSpec
  Gen.GenCurves Gen.GenCurveC10 Model.Bip32 Proofs.Bip32P
  Proofs.CurveAddP Proofs.CurveP Proofs.SecP Proofs.ComposeEcInst Proofs.ComposeEcC01 Proofs.ComposeEcShipped.
Import ListNotations.
Local Open Scope Z_scope.

(* ---- the instance ------------------------------------------------------------------------------------------------ *)
Definition raw_eqb (P Q : Curve.pt) : bool :=
  match P, Q with
  | None, None => true
  | Some (x, y), Some (x', y') => (x =? x') && (y =? y')
  | _, _ => false
  end.

Lemma raw_eqb_spec P Q : raw_eqb P Q = true <-> P = Q.
Proof.
  destruct P as [[x y]|], Q as [[x' y']|]; cbn [raw_eqb]; try (split; [discriminate|congruence]); [|tauto].
  rewrite andb_true_iff, !Z.eqb_eq. split; [intros [-> ->]; reflexivity | intros E; inversion E; auto].
Qed.

Definition ept_eqb {c : curve} (P Q : ept c) : bool := raw_eqb (eval P) (eval Q).

Definition esec {c : curve} (P : ept c) : bytes :=
  match eval P with
  | Some pr => match Sec.public_pair_to_sec pr true with Ret s => s | _ => [] end
  | None => []
  end.

Definition exy {c : curve} (P : ept c) : bytes :=
  match eval P with
  | Some pr => match Sec.public_pair_to_sec pr false with Ret s => tl s | _ => [] end
  | None => []
  end.

Definition eunsec (c : curve) (b : bytes) : outcome (ept c) :=
  match Sec.key_from_sec (cp c) (ca c) (cb c) b with
  | Ret ((x, y), _) => if inb c (Some (x, y)) then Ret (mk c (Some (x, y))) else Raise E_PUBPAIR
  | Raise e => Raise e
  | OutOfFuel => OutOfFuel
  end.

Lemma ept_eqb_spec c (P Q : ept c) : ept_eqb P Q = true <-> P = Q.
Proof.
  unfold ept_eqb. rewrite raw_eqb_spec. split; [apply ept_eq | intros ->; reflexivity].
Qed.

(* C10's and C02's transcriptions of Curve.contains_point are the same test *)
Lemma contains_point_agree c x y :
  Sec.contains_point (cp c) (ca c) (cb c) x y = Curve.contains_point c (Some (x, y)).
Proof. reflexivity. Qed.

Lemma z2b_head y : z2b (2 + Z.land y 1) <> x00.
Proof.
  rewrite land1. pose proof (Z.mod_pos_bound y 2 ltac:(lia)) as Hm.
  assert (Hc : y mod 2 = 0 \/ y mod 2 = 1) by lia.
  destruct Hc as [E|E]; rewrite E; vm_compute; discriminate.
Qed.

Section EcC09.
Variable g : gen.
Notation c := (gc g).
Hypothesis HM1 : M1 c.
Hypothesis HM4 : M4 c.
Hypothesis HnG : order_kills c (gG g).
Hypothesis HM2 : prime (cn c).
Hypothesis Hside : ec_sideb g = true.
Hypothesis Hpsize : 2 ^ 248 <= cp c < 2 ^ 256.
Hypothesis Hnsize : cn c <= 2 ^ 256.

Let Hmod4 := c_mod4 g Hside.
Let Hodd := c_odd g Hside.
Let Hnpos := c_npos g HM2.
Let GL := c_group_laws g HM1 HM4 HM2 Hside.

(* ---- the group hypotheses ---- *)
Lemma ec09_order_range : 1 < cn c <= 2 ^ 256.
Proof. clear - HM2 Hnsize. pose proof (prime_ge_2 _ HM2). lia. Qed.

Lemma ec09_smul_add a b : esmul c (a + b) (eG g) = eadd c (esmul c a (eG g)) (esmul c b (eG g)).
Proof. exact (gl_smul_add _ _ _ _ _ _ _ GL a b (eG g)). Qed.

Lemma ec09_smul_mod a : esmul c (a mod cn c) (eG g) = esmul c a (eG g).
Proof.
  apply (esmulG_eq_iff g HM1 HM4 HnG HM2 Hside). apply Z.mod_mod. lia.
Qed.

Lemma ec09_smul_zero a : esmul c a (eG g) = eO c <-> a mod cn c = 0.
Proof.
  rewrite <- (kG_zero_iff g HM1 HM4 HnG HM2 Hside).
  rewrite <- (c_G_val g HM1 HnG Hside), <- (esmul_val g HM1 Hmod4 HM4 Hnpos Hodd).
  split; [intros ->; reflexivity | intros E; apply ept_eq; exact E].
Qed.

(* ---- a finite carrier element: reduced coordinates, y <> 0, on the curve in C10's sense ---- *)
Lemma ec09_finite (P : ept c) : P <> eO c ->
  exists x y, eval P = Some (x, y) /\ 0 <= x < cp c /\ 0 < y < cp c /\
              Sec.contains_point (cp c) (ca c) (cb c) x y = true.
Proof.
  intros HP. destruct (eval P) as [[x y]|] eqn:E.
  - exists x, y. split; [reflexivity|].
    pose proof (eval_valid g HM1 Hmod4 P) as HV. rewrite E in HV. destruct HV as [Hon [Hx Hy]].
    assert (Hy0 : y <> 0).
    { intros ->. exact (no_y0 g HM1 Hmod4 HM4 Hodd P x 0 E Hon). }
    split; [exact Hx|]. split; [lia|].
    rewrite contains_point_agree. apply (contains_iff_c c HM1 (Hp2 g Hmod4)). exact Hon.
  - exfalso. apply HP. apply ept_eq. exact E.
Qed.

Lemma ec09_roundtrip (P : ept c) x y (cflag : bool) : eval P = Some (x, y) -> P <> eO c ->
  exists s, Sec.public_pair_to_sec (x, y) cflag = Ret s /\ length s = (if cflag then 33 else 65)%nat /\
            Sec.key_from_sec (cp c) (ca c) (cb c) s = Ret ((x, y), cflag).
Proof.
  intros E HP. destruct (ec09_finite P HP) as (x' & y' & E' & Hx & Hy & Hc).
  rewrite E in E'. inversion E'. subst x' y'.
  apply (sec_roundtrip_generic (cp c) (ca c) (cb c) Hpsize HM1 Hmod4); assumption.
Qed.

(* sec / xy ARE C10's public_pair_to_sec, which does not raise on carrier elements *)
Lemma ec09_sec_run (P : ept c) : P <> eO c ->
  exists x y, eval P = Some (x, y) /\
    Sec.public_pair_to_sec (x, y) true = Ret (esec P) /\
    Sec.public_pair_to_sec (x, y) false = Ret (x04 :: exy P) /\
    exy P = be_encode 32 (Z.to_N x) ++ be_encode 32 (Z.to_N y).
Proof.
  intros HP. destruct (ec09_finite P HP) as (x & y & E & Hx & Hy & Hc).
  exists x, y. split; [exact E|]. unfold esec, exy. rewrite E.
  destruct (ec09_roundtrip P x y true E HP) as (s & Es & _). rewrite Es.
  unfold Sec.public_pair_to_sec. rewrite !SecP.to_bytes_32_ok by lia. cbn [bind tl].
  repeat split; reflexivity.
Qed.

(* ---- the encoding hypotheses ---- *)
Lemma ec09_sec_len (P : ept c) : P <> eO c -> length (esec P) = 33%nat.
Proof.
  intros HP. destruct (ec09_finite P HP) as (x & y & E & _).
  destruct (ec09_roundtrip P x y true E HP) as (s & Es & L & _).
  unfold esec. rewrite E, Es. exact L.
Qed.

Lemma ec09_sec_head (P : ept c) : P <> eO c -> exists b r, esec P = b :: r /\ b <> x00.
Proof.
  intros HP. destruct (ec09_finite P HP) as (x & y & E & Hx & _).
  unfold esec. rewrite E. unfold Sec.public_pair_to_sec. rewrite SecP.to_bytes_32_ok by lia. cbn [bind].
  eexists _, _. split; [reflexivity|]. apply z2b_head.
Qed.

Lemma ec09_unsec_sec (P : ept c) : P <> eO c -> eunsec c (esec P) = Ret P.
Proof.
  intros HP. destruct (ec09_finite P HP) as (x & y & E & _).
  destruct (ec09_roundtrip P x y true E HP) as (s & Es & _ & Ek).
  unfold esec. rewrite E, Es. unfold eunsec. rewrite Ek.
  assert (I : inb c (Some (x, y)) = true) by (rewrite <- E; exact (proj2_sig P)).
  rewrite I. f_equal. apply ept_eq. rewrite mk_val_b by exact I. symmetry. exact E.
Qed.

(* ---- what eunsec is, in C10's terms ---- *)
(* it succeeds only where Key.from_sec succeeds, with that pair; it raises whatever Key.from_sec raises *)
Lemma eunsec_ret b (P : ept c) : eunsec c b = Ret P ->
  exists x y, Sec.key_from_sec (cp c) (ca c) (cb c) b = Ret ((x, y), Sec.is_sec_compressed b) /\ eval P = Some (x, y).
Proof.
  unfold eunsec, Sec.key_from_sec. intros H.
  destruct (Sec.sec_to_public_pair (cp c) (ca c) (cb c) b true) as [pr| |]; cbn [bind] in *; try discriminate.
  destruct (Sec.key_public (cp c) (ca c) (cb c) pr) as [[x y]| |]; cbn [bind] in *; try discriminate.
  destruct (inb c (Some (x, y))) eqn:I; [|discriminate].
  inversion H. subst P. exists x, y. split; [reflexivity|]. apply mk_val_b. exact I.
Qed.

Lemma eunsec_raise b e : Sec.key_from_sec (cp c) (ca c) (cb c) b = Raise e -> eunsec c b = Raise e.
Proof. unfold eunsec. intros ->. reflexivity. Qed.

(* on a curve whose group has order n, eunsec IS Key.from_sec (no extra refusal) *)
Lemma eunsec_run_cofactor1 : (forall P, valid c P -> order_kills c P) -> forall b,
  match Sec.key_from_sec (cp c) (ca c) (cb c) b with
  | Ret ((x, y), _) => exists P, eunsec c b = Ret P /\ eval P = Some (x, y)
  | Raise e => eunsec c b = Raise e
  | OutOfFuel => eunsec c b = OutOfFuel
  end.
Proof.
  intros Hc b. unfold eunsec.
  destruct (Sec.key_from_sec (cp c) (ca c) (cb c) b) as [[[x y] fl]| |] eqn:E; try reflexivity.
  assert (I : inb c (Some (x, y)) = true).
  { apply (inb_of_cofactor1 g HM1 Hmod4 Hc).
    unfold Sec.key_from_sec in E.
    destruct (Sec.sec_to_public_pair (cp c) (ca c) (cb c) b true) as [pr| |]; cbn [bind] in E; try discriminate.
    destruct (Sec.key_public (cp c) (ca c) (cb c) pr) as [q| |] eqn:K; cbn [bind] in E; try discriminate.
    inversion E. subst q.
    destruct pr as [x0 y0]. unfold Sec.key_public in K.
    destruct (Sec.contains_point (cp c) (ca c) (cb c) x0 y0) eqn:C0; cbn [negb] in K; [|discriminate].
    destruct (Sec.in_field (cp c) x0 && Sec.in_field (cp c) y0) eqn:F; cbn [negb] in K; [|discriminate].
    inversion K. subst x0 y0.
    apply andb_prop in F. destruct F as [Fx Fy]. unfold Sec.in_field in Fx, Fy.
    apply andb_prop in Fx. destruct Fx as [Fx1 Fx2]. apply andb_prop in Fy. destruct Fy as [Fy1 Fy2].
    apply Z.leb_le in Fx1, Fy1. apply Z.ltb_lt in Fx2, Fy2.
    split; [|cbn; lia].
    apply (contains_iff_c c HM1 (Hp2 g Hmod4)). rewrite <- contains_point_agree. exact C0. }
  rewrite I. eexists. split; [reflexivity|]. apply mk_val_b. exact I.
Qed.

End EcC09.

(* ---- secp256k1: nothing is assumed -------------------------------------------------------------------------------- *)
Lemma secp256k1_psize : 2 ^ 248 <= cp secp256k1_curve < 2 ^ 256.
Proof. vm_compute. split; [discriminate|reflexivity]. Qed.

Lemma secp256k1_nsize : cn secp256k1_curve <= 2 ^ 256.
Proof. vm_compute. discriminate. Qed.

(* the constants of C10's table (Gen/GenCurveC10.v) are those of C02's (Gen/GenCurves.v): the encoder / decoder used
   here is C10's at C10's own secp256k1 parameters *)
Lemma secp256k1_consts_are_C10 :
  (cp secp256k1_curve, ca secp256k1_curve, cb secp256k1_curve, cn secp256k1_curve) = (k1_p, k1_a, k1_b, k1_n) /\
  secp256k1_G = Some (k1_gx, k1_gy).
Proof. split; reflexivity. Qed.

Section K1.
Variable blind : Z.
Notation g := (secp256k1_gen blind).
Notation c := secp256k1_curve.
Notation G := (eG g).

Let nG : order_kills (gc g) (gG g) := secp256k1_nG_proved.
Let side := secp256k1_side blind.

Lemma k1_c09_order_range : 1 < cn c <= 2 ^ 256.
Proof. exact (ec09_order_range g secp256k1_M2 secp256k1_nsize). Qed.
Lemma k1_c09_smul_add : forall a b, esmul c (a + b) G = eadd c (esmul c a G) (esmul c b G).
Proof. exact (ec09_smul_add g secp256k1_M1 secp256k1_M4 secp256k1_M2 side). Qed.
Lemma k1_c09_smul_mod : forall a, esmul c (a mod cn c) G = esmul c a G.
Proof. exact (ec09_smul_mod g secp256k1_M1 secp256k1_M4 nG secp256k1_M2 side). Qed.
Lemma k1_c09_smul_zero : forall a, esmul c a G = eO c <-> a mod cn c = 0.
Proof. exact (ec09_smul_zero g secp256k1_M1 secp256k1_M4 nG secp256k1_M2 side). Qed.
Lemma k1_c09_eqb_spec : forall P Q : ept c, ept_eqb P Q = true <-> P = Q.
Proof. exact (ept_eqb_spec c). Qed.
Lemma k1_c09_sec_len : forall P : ept c, P <> eO c -> length (esec P) = 33%nat.
Proof. exact (ec09_sec_len g secp256k1_M1 secp256k1_M4 side secp256k1_psize). Qed.
Lemma k1_c09_sec_head : forall P : ept c, P <> eO c -> exists b r, esec P = b :: r /\ b <> x00.
Proof. exact (ec09_sec_head g secp256k1_M1 secp256k1_M4 side secp256k1_psize). Qed.
Lemma k1_c09_unsec_sec : forall P : ept c, P <> eO c -> eunsec c (esec P) = Ret P.
Proof. exact (ec09_unsec_sec g secp256k1_M1 secp256k1_M4 side secp256k1_psize). Qed.

(* the instance computes with C02's arithmetic and C10's encoder / decoder *)
Lemma k1_c09_ops_run :
  (forall P Q : ept c, Curve.add c (eval P) (eval Q) = Ret (eval (eadd c P Q))) /\
  (forall (e : Z) (P : ept c), Curve.multiply c (eval P) e = Ret (eval (esmul c e P))) /\
  (forall e : Z, gmul g e = Ret (eval (esmul c e G)) /\ raw_mul g e = Ret (eval (esmul c e G))) /\
  eval G = secp256k1_G /\ eval (eO c) = None.
Proof.
  destruct (c_ops_run g secp256k1_M1 secp256k1_M4 nG secp256k1_M2 side) as (A & _ & M & F & EG & EO).
  exact (conj A (conj M (conj F (conj EG EO)))).
Qed.

Lemma k1_c09_sec_run : forall P : ept c, P <> eO c ->
  exists x y, eval P = Some (x, y) /\
    Sec.public_pair_to_sec (x, y) true = Ret (esec P) /\
    Sec.public_pair_to_sec (x, y) false = Ret (x04 :: exy P) /\
    exy P = be_encode 32 (Z.to_N x) ++ be_encode 32 (Z.to_N y).
Proof. exact (ec09_sec_run g secp256k1_M1 secp256k1_M4 side secp256k1_psize). Qed.

Lemma k1_c09_unsec_run : forall b,
  (forall P : ept c, eunsec c b = Ret P ->
     exists x y, Sec.key_from_sec k1_p k1_a k1_b b = Ret ((x, y), Sec.is_sec_compressed b) /\ eval P = Some (x, y)) /\
  (forall e, Sec.key_from_sec k1_p k1_a k1_b b = Raise e -> eunsec c b = Raise e).
Proof. exact (fun b => conj (eunsec_ret g b) (eunsec_raise g b)). Qed.

Lemma k1_c09_unsec_cofactor1 : (forall P, valid c P -> order_kills c P) -> forall b,
  match Sec.key_from_sec k1_p k1_a k1_b b with
  | Ret ((x, y), _) => exists P, eunsec c b = Ret P /\ eval P = Some (x, y)
  | Raise e => eunsec c b = Raise e
  | OutOfFuel => eunsec c b = OutOfFuel
  end.
Proof. exact (eunsec_run_cofactor1 g secp256k1_M1 side). Qed.

End K1.

(* ---- non-vacuity on secp256k1: a well-formed private node (secret exponent 1, point 1*G) ---------------------------- *)

Definition k1_root (blind : Z) : node (ept secp256k1_curve) :=
  mkNode (ept secp256k1_curve) (repeatb x05 32) 0 [x00; x00; x00; x00] 0 (Some 1)
         (esmul secp256k1_curve 1 (eG (secp256k1_gen blind))).

Lemma k1_root_wf blind :
  wf_node (ept secp256k1_curve) (eO secp256k1_curve) (esmul secp256k1_curve) (eG (secp256k1_gen blind))
          (cn secp256k1_curve) (k1_root blind).
Proof.
  pose proof (k1_c09_order_range blind) as R.
  unfold wf_node, k1_root. cbn [nd_chain nd_fpr nd_point nd_secret].
  split; [reflexivity|]. split; [reflexivity|]. split.
  - intros E. apply (k1_c09_smul_zero blind) in E. rewrite Z.mod_small in E by lia. discriminate.
  - split; [lia|reflexivity].
Qed.

Lemma k1_root_ser_ok blind : ser_ok (ept secp256k1_curve) (k1_root blind).
Proof. unfold ser_ok, k1_root. cbn [nd_depth nd_index]. lia. Qed.

(* with an HMAC whose left half is 0 (Toy.hmac_good) the hypothesis of the commutation theorem holds at this node *)
Lemma k1_root_commute_hyp blind i :
  first_IL (ept secp256k1_curve) esec Toy.hmac_good (k1_root blind) i false < cn secp256k1_curve /\
  (first_IL (ept secp256k1_curve) esec Toy.hmac_good (k1_root blind) i false + 1) mod cn secp256k1_curve <> 0.
Proof.
  assert (E : first_IL (ept secp256k1_curve) esec Toy.hmac_good (k1_root blind) i false = 0).
  { unfold first_IL, first_I64, k1_root. cbn [nd_secret]. unfold Toy.hmac_good. reflexivity. }
  rewrite E. split; [reflexivity|]. vm_compute. discriminate.
Qed.

(* ... so the commutation lemma of Proofs/Bip32P.v applies at the secp256k1 instance: its hypotheses are satisfiable there *)
Lemma k1_root_commutes blind i : 0 <= i < 2 ^ 31 ->
  exists child,
    subkey_raw (ept secp256k1_curve) (eadd secp256k1_curve) (eO secp256k1_curve) (esmul secp256k1_curve)
      (eG (secp256k1_gen blind)) (cn secp256k1_curve) ept_eqb esec Toy.hmac_good Toy.hash160 1 (k1_root blind) i false true
      = Ret child /\
    subkey_raw (ept secp256k1_curve) (eadd secp256k1_curve) (eO secp256k1_curve) (esmul secp256k1_curve)
      (eG (secp256k1_gen blind)) (cn secp256k1_curve) ept_eqb esec Toy.hmac_good Toy.hash160 1
      (neuter_node (ept secp256k1_curve) (k1_root blind)) i false false
      = Ret (neuter_node (ept secp256k1_curve) child).
Proof.
  intros Hi.
  pose proof (pub_priv_commute (ept secp256k1_curve) (eadd secp256k1_curve) (eO secp256k1_curve) (esmul secp256k1_curve)
                (eG (secp256k1_gen blind)) (cn secp256k1_curve) ept_eqb esec Toy.hmac_good Toy.hash160 1%nat
                (k1_c09_order_range blind) (k1_c09_smul_add blind) (k1_c09_smul_mod blind) (k1_c09_smul_zero blind)
                k1_c09_eqb_spec Toy.hmac_good_len Toy.hash160_len (le_n 1)
                (k1_root blind) 1 i false (k1_root_wf blind) eq_refl Hi
                (proj1 (k1_root_commute_hyp blind i)) (proj2 (k1_root_commute_hyp blind i))) as (child & A & _ & C).
  exists child. split; [exact A|exact C].
Qed.
