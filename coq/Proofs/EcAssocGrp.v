(* Proofs/EcAssocGrp.v — chord-and-tangent addition on y^2 = x^3 + a x + b over an abstract field of
   characteristic <> 2 with 4a^3 + 27b^2 <> 0 is associative (on the points of the curve).
   Route: (P+Q)-Q = P by direct computation; hence cancellation; then the case analysis of
   (P+Q)+R = P+(Q+R) on which of the four additions are chords / tangents / opposite pairs,
   each generic configuration being one of the identities I1..I5 of EcAssocAlg.v. *)
From Coq Require Import Field Ring.
From PV Require Import Proofs.EcAssocAlg.
Import KNotations.
Local Open Scope k_scope.

Section Grp.
Context {F : fld} {Ec : ecurve F}.
Add Field Kfield2 : (@Kfth F).
Local Notation a := (ea Ec).
Local Notation b := (eb Ec).
Local Notation oc := (@oc F Ec).
Local Notation cx := (@cx F).
Local Notation cy := (@cy F).
Local Notation tx := (@tx F Ec).
Local Notation ty := (@ty F Ec).
Implicit Types x y : F.

Inductive ept : Type := EO | EP (x y : F).
Implicit Types P Q R S T : ept.

Definition eon P : Prop := match P with EO => True | EP x y => oc x y end.
Definition eneg P : ept := match P with EO => EO | EP x y => EP x (- y) end.
Definition eadd P Q : ept :=
  match P, Q with
  | EO, _ => Q
  | _, EO => P
  | EP x1 y1, EP x2 y2 =>
    if Keq_dec x1 x2 then (if Keq_dec y1 (- y2) then EO else EP (tx x1 y1) (ty x1 y1))
    else EP (cx x1 y1 x2 y2) (cy x1 y1 x2 y2)
  end.

Definition fin P : Prop := match P with EO => False | EP _ _ => True end.
Definition nd P : Prop := match P with EO => False | EP _ y => y <> 0 end.
Definition xne P Q : Prop := match P, Q with EP x1 _, EP x2 _ => x1 <> x2 | _, _ => False end.

(* ---- evaluation of eadd ---- *)
Lemma eadd_O_l P : eadd EO P = P.
Proof. reflexivity. Qed.

Lemma eadd_O_r P : eadd P EO = P.
Proof. destruct P; reflexivity. Qed.

Lemma eadd_chord x1 y1 x2 y2 : x1 <> x2 -> eadd (EP x1 y1) (EP x2 y2) = EP (cx x1 y1 x2 y2) (cy x1 y1 x2 y2).
Proof. intros D. cbn [eadd]. destruct (Keq_dec x1 x2); [contradiction | reflexivity]. Qed.

Lemma eadd_opp_pt x y : eadd (EP x y) (EP x (- y)) = EO.
Proof.
  cbn [eadd]. destruct (Keq_dec x x) as [_|N]; [|now elim N].
  destruct (Keq_dec y (- - y)) as [_|N]; [reflexivity | elim N; symmetry; apply Kopp_opp].
Qed.

Lemma eadd_opp_pt' x y : eadd (EP x (- y)) (EP x y) = EO.
Proof.
  cbn [eadd]. destruct (Keq_dec x x) as [_|N]; [|now elim N].
  destruct (Keq_dec (- y) (- y)) as [_|N]; [reflexivity | now elim N].
Qed.

Lemma eadd_tan x y : y <> 0 -> eadd (EP x y) (EP x y) = EP (tx x y) (ty x y).
Proof.
  intros D. cbn [eadd]. destruct (Keq_dec x x) as [_|N]; [|now elim N].
  destruct (Keq_dec y (- y)) as [E|_]; [elim D; now apply Kself_opp | reflexivity].
Qed.

Lemma same_x x y1 y2 : oc x y1 -> oc x y2 -> y2 = y1 \/ y2 = - y1.
Proof. intros H1 H2. apply Ksq_eq. unfold EcAssocAlg.oc in *. now rewrite H1, H2. Qed.

(* two finite points of the curve are opposite, or equal and not of order two, or have distinct abscissas *)
Lemma fin_cases x1 y1 x2 y2 : oc x1 y1 -> oc x2 y2 ->
  (x2 = x1 /\ y2 = - y1) \/ (x2 = x1 /\ y2 = y1 /\ y1 <> 0) \/ x1 <> x2.
Proof.
  intros H1 H2. destruct (Keq_dec x1 x2) as [E|N]; [|right; right; exact N].
  subst x2. destruct (Keq_dec y2 (- y1)) as [E|N]; [left; auto|].
  right; left. destruct (same_x _ _ _ H1 H2) as [E|E]; [|contradiction].
  subst y2. repeat split. intros Z. apply N. rewrite Z. ring.
Qed.

Lemma rel_cases P Q : fin P -> fin Q -> eon P -> eon Q -> Q = eneg P \/ (Q = P /\ nd P) \/ xne P Q.
Proof.
  destruct P as [|x1 y1], Q as [|x2 y2]; cbn [fin]; try tauto. intros _ _ H1 H2.
  destruct (fin_cases _ _ _ _ H1 H2) as [[-> ->]|[[-> [-> D]]|D]]; cbn; auto.
Qed.

(* ---- closure, negation ---- *)
Lemma eneg_on P : eon P -> eon (eneg P).
Proof. destruct P as [|x y]; cbn; auto. unfold EcAssocAlg.oc. intros H. rewrite <- H. ring. Qed.

Lemma eneg_neg P : eneg (eneg P) = P.
Proof. destruct P as [|x y]; cbn; auto. now rewrite Kopp_opp. Qed.

Lemma eneg_fin P : fin P -> fin (eneg P).
Proof. destruct P; auto. Qed.

Lemma eadd_on P Q : eon P -> eon Q -> eon (eadd P Q).
Proof.
  destruct P as [|x1 y1], Q as [|x2 y2]; intros H1 H2; try assumption.
  destruct (fin_cases _ _ _ _ H1 H2) as [[-> ->]|[[-> [-> D]]|D]].
  - rewrite eadd_opp_pt. exact I.
  - rewrite eadd_tan by exact D. cbn. now apply tan_oc.
  - rewrite eadd_chord by exact D. cbn. now apply chord_oc.
Qed.

Lemma eadd_comm P Q : eon P -> eon Q -> eadd P Q = eadd Q P.
Proof.
  destruct P as [|x1 y1], Q as [|x2 y2]; auto. intros H1 H2.
  destruct (fin_cases _ _ _ _ H1 H2) as [[-> ->]|[[-> [-> D]]|D]].
  - now rewrite eadd_opp_pt, eadd_opp_pt'.
  - reflexivity.
  - rewrite (eadd_chord x1 y1 x2 y2) by exact D. rewrite (eadd_chord x2 y2 x1 y1) by auto.
    now rewrite cx_sym, cy_sym.
Qed.

Lemma eadd_eneg P : eadd P (eneg P) = EO.
Proof. destruct P as [|x y]; [reflexivity|]. apply eadd_opp_pt. Qed.

Lemma eadd_eneg_l P : eadd (eneg P) P = EO.
Proof. destruct P as [|x y]; [reflexivity|]. apply eadd_opp_pt'. Qed.

Lemma eneg_eadd P Q : eon P -> eon Q -> eneg (eadd P Q) = eadd (eneg P) (eneg Q).
Proof.
  destruct P as [|x1 y1], Q as [|x2 y2]; auto. intros H1 H2. cbn [eneg].
  destruct (fin_cases _ _ _ _ H1 H2) as [[-> ->]|[[-> [-> D]]|D]].
  - now rewrite !eadd_opp_pt.
  - rewrite !eadd_tan by auto using Kopp_nz. cbn [eneg]. now rewrite tx_neg, ty_neg.
  - rewrite !eadd_chord by auto. cbn [eneg]. now rewrite cx_neg, cy_neg.
Qed.

Lemma eadd_fin P Q : fin P -> fin Q -> eon P -> eon Q -> Q <> eneg P -> fin (eadd P Q).
Proof.
  destruct P as [|x1 y1], Q as [|x2 y2]; cbn [fin]; try tauto. intros _ _ H1 H2 N.
  destruct (fin_cases _ _ _ _ H1 H2) as [[-> ->]|[[-> [-> D]]|D]].
  - now elim N.
  - now rewrite eadd_tan.
  - now rewrite eadd_chord.
Qed.

(* ---- (P + Q) - Q = P ---- *)
Lemma eadd_sub P Q : eon P -> eon Q -> eadd (eadd P Q) (eneg Q) = P.
Proof.
  destruct P as [|x1 y1], Q as [|x2 y2]; intros H1 H2.
  - reflexivity.
  - apply eadd_eneg.
  - reflexivity.
  - cbn [eneg]. destruct (fin_cases _ _ _ _ H1 H2) as [[-> ->]|[[-> [-> D]]|D]].
    + rewrite eadd_opp_pt. cbn. now rewrite Kopp_opp.
    + rewrite eadd_tan by exact D.
      destruct (Keq_dec (tx x1 y1) x1) as [E|N].
      * rewrite (tan_same_x _ _ E), E.
        rewrite eadd_tan by auto using Kopp_nz. rewrite tx_neg, ty_neg by exact D.
        rewrite (tan_same_x _ _ E), E. now rewrite Kopp_opp.
      * rewrite eadd_chord by exact N. destruct (sub_tan_gen _ _ H1 D N) as [-> ->]. reflexivity.
    + rewrite eadd_chord by exact D.
      destruct (Keq_dec (cx x1 y1 x2 y2) x2) as [E|N].
      * rewrite (chord_same_x _ _ _ _ D E), E.
        destruct (Keq_dec y2 0) as [Z|NZ].
        -- subst y2. elim (edisc Ec). exact (chord_sing _ _ _ H1 H2 D E).
        -- rewrite eadd_tan by auto using Kopp_nz.
           destruct (sub_chord_tan _ _ _ _ H1 H2 D E NZ) as [-> ->]. reflexivity.
      * rewrite eadd_chord by exact N. destruct (sub_chord_gen _ _ _ _ H1 H2 D N) as [-> ->]. reflexivity.
Qed.

Lemma eadd_cancel_r P Q R : eon P -> eon Q -> eon R -> eadd P R = eadd Q R -> P = Q.
Proof. intros HP HQ HR H. rewrite <- (eadd_sub P R HP HR), H. now apply eadd_sub. Qed.

Lemma eadd_uniq_zero P Q : eon P -> eon Q -> eadd P Q = P -> Q = EO.
Proof.
  intros HP HQ H. apply (eadd_cancel_r Q EO P HQ I HP). rewrite eadd_O_l, eadd_comm; auto.
Qed.

(* P + (Q - P) = Q *)
Lemma eadd_sub' P Q : eon P -> eon Q -> eadd P (eadd (eneg P) Q) = Q.
Proof.
  intros HP HQ. pose proof (eneg_on _ HP) as HN.
  rewrite (eadd_comm (eneg P) Q), (eadd_comm P) by auto using eadd_on.
  rewrite <- (eneg_neg P) at 2. now apply eadd_sub.
Qed.


(* ---- the five generic configurations, on points ---- *)
Lemma xne_sym P Q : xne P Q -> xne Q P.
Proof. destruct P, Q; cbn; auto. Qed.

Lemma PI1 P Q R : eon P -> eon Q -> eon R ->
  xne P Q -> xne Q R -> xne (eadd P Q) R -> xne P (eadd Q R) ->
  eadd (eadd P Q) R = eadd P (eadd Q R).
Proof.
  destruct P as [|x1 y1]; [cbn; tauto|]. destruct Q as [|x2 y2]; [cbn; tauto|].
  destruct R as [|x3 y3]; [cbn; tauto|].
  intros H1 H2 H3 D1 D2. cbn [xne] in D1, D2.
  rewrite (eadd_chord _ _ _ _ D1), (eadd_chord _ _ _ _ D2).
  intros D3 D4. cbn [xne] in D3, D4.
  rewrite (eadd_chord _ _ _ _ D3), (eadd_chord _ _ _ _ D4).
  destruct (I1 _ _ _ _ _ _ H1 H2 H3 D1 D2 D3 D4) as [-> ->]. reflexivity.
Qed.

Lemma PI2 Q R : eon Q -> eon R -> nd Q ->
  xne Q R -> xne (eadd Q Q) R -> xne Q (eadd Q R) ->
  eadd (eadd Q Q) R = eadd Q (eadd Q R).
Proof.
  destruct Q as [|x2 y2]; [cbn; tauto|]. destruct R as [|x3 y3]; [cbn; tauto|].
  intros H2 H3 N D2. cbn [xne nd] in N, D2.
  rewrite (eadd_tan _ _ N), (eadd_chord _ _ _ _ D2).
  intros D3 D4. cbn [xne] in D3, D4.
  rewrite (eadd_chord _ _ _ _ D3), (eadd_chord _ _ _ _ D4).
  destruct (I2 _ _ _ _ H2 H3 N D2 D3 D4) as [-> ->]. reflexivity.
Qed.

Lemma PI3 P Q : eon P -> eon Q -> xne P Q ->
  nd (eadd P Q) -> xne Q (eadd P Q) -> xne P (eadd Q (eadd P Q)) ->
  eadd (eadd P Q) (eadd P Q) = eadd P (eadd Q (eadd P Q)).
Proof.
  destruct P as [|x1 y1]; [cbn; tauto|]. destruct Q as [|x2 y2]; [cbn; tauto|].
  intros H1 H2 D1. cbn [xne] in D1. rewrite (eadd_chord _ _ _ _ D1).
  intros N D3. cbn [xne nd] in N, D3. rewrite (eadd_tan _ _ N), (eadd_chord _ _ _ _ D3).
  intros D4. cbn [xne] in D4. rewrite (eadd_chord _ _ _ _ D4).
  destruct (I3 _ _ _ _ H1 H2 D1 N D3 D4) as [-> ->]. reflexivity.
Qed.

Lemma PI4 P : eon P -> nd P -> nd (eadd P P) -> xne P (eadd P P) -> xne P (eadd P (eadd P P)) ->
  eadd (eadd P P) (eadd P P) = eadd P (eadd P (eadd P P)).
Proof.
  destruct P as [|x y]; [cbn; tauto|].
  intros H N. cbn [nd] in N. rewrite (eadd_tan _ _ N).
  intros N2 D3. cbn [xne nd] in N2, D3. rewrite (eadd_tan _ _ N2), (eadd_chord _ _ _ _ D3).
  intros D4. cbn [xne] in D4. rewrite (eadd_chord _ _ _ _ D4).
  destruct (I4 _ _ H N N2 D3 D4) as [-> ->]. reflexivity.
Qed.

Lemma PI5 P Q : eon P -> eon Q -> xne P Q -> nd P -> Q = eneg Q -> nd (eadd P Q) ->
  eadd (eadd P Q) (eadd P Q) = eadd P P.
Proof.
  destruct P as [|x1 y1]; [cbn; tauto|]. destruct Q as [|e y2]; [cbn; tauto|].
  intros H1 H2 D1 N E. cbn [xne nd eneg] in D1, N, E.
  assert (Z : y2 = 0) by (apply Kself_opp; congruence). subst y2. clear E.
  rewrite (eadd_chord _ _ _ _ D1). intros N2. cbn [nd] in N2.
  rewrite (eadd_tan _ _ N2), (eadd_tan _ _ N).
  destruct (I5 _ _ _ H1 H2 D1 N N2) as [-> ->]. reflexivity.
Qed.

(* ---- the degenerate configurations ---- *)
Lemma assoc_opp_l P Q R : eon P -> eon Q -> eon R -> eadd P Q = eneg R -> eadd P (eadd Q R) = EO.
Proof.
  intros HP HQ HR H.
  assert (X : R = eneg (eadd P Q)) by (rewrite H; symmetry; apply eneg_neg).
  rewrite X, (eneg_eadd P Q HP HQ), (eadd_comm (eneg P) (eneg Q)) by auto using eneg_on.
  rewrite (eadd_sub' Q (eneg P)) by auto using eneg_on. apply eadd_eneg.
Qed.

Lemma assoc_opp_r P Q R : eon P -> eon Q -> eon R -> eadd Q R = eneg P -> eadd (eadd P Q) R = EO.
Proof.
  intros HP HQ HR H.
  assert (X : P = eneg (eadd Q R)) by (rewrite H; symmetry; apply eneg_neg).
  rewrite X, (eneg_eadd Q R HQ HR), (eadd_comm (eneg Q) (eneg R)) by auto using eneg_on.
  pose proof (eadd_sub (eneg R) (eneg Q) (eneg_on _ HR) (eneg_on _ HQ)) as K. rewrite eneg_neg in K.
  rewrite K. apply eadd_eneg_l.
Qed.

Lemma rel_fin P Q : eon P -> eon Q -> (Q = P /\ nd P) \/ xne P Q -> fin (eadd P Q).
Proof.
  intros HP HQ [[-> N]|D].
  - destruct P as [|x y]; [elim N|]. cbn [nd] in N. now rewrite eadd_tan.
  - destruct P as [|x1 y1], Q as [|x2 y2]; cbn [xne] in D; try tauto. now rewrite eadd_chord.
Qed.

Theorem eadd_assoc_fin P Q R : fin P -> fin Q -> fin R -> eon P -> eon Q -> eon R ->
  eadd (eadd P Q) R = eadd P (eadd Q R).
Proof.
  intros FP FQ FR HP HQ HR.
  destruct (rel_cases P Q FP FQ HP HQ) as [E|RPQ].
  { subst Q. rewrite eadd_eneg, eadd_O_l. symmetry. now apply eadd_sub'. }
  destruct (rel_cases Q R FQ FR HQ HR) as [E|RQR].
  { subst R. rewrite eadd_eneg, eadd_O_r. now apply eadd_sub. }
  pose proof (eadd_on P Q HP HQ) as HS. pose proof (eadd_on Q R HQ HR) as HT.
  pose proof (rel_fin P Q HP HQ RPQ) as FS. pose proof (rel_fin Q R HQ HR RQR) as FT.
  destruct (rel_cases (eadd P Q) R FS FR HS HR) as [E|RSR].
  { rewrite E at 1. rewrite eadd_eneg. symmetry. apply assoc_opp_l; auto. rewrite E. symmetry. apply eneg_neg. }
  destruct (rel_cases P (eadd Q R) FP FT HP HT) as [E|RPT].
  { rewrite E, eadd_eneg. now apply assoc_opp_r. }
  destruct RPQ as [[EQ NP]|XPQ]; destruct RQR as [[ER NQ]|XQR].
  - (* P = Q = R *) subst R Q. apply eadd_comm; auto.
  - (* Q = P, R generic *) subst Q.
    destruct RPT as [[ET NT]|XPT].
    { pose proof (eadd_uniq_zero P R HP HR ET) as Z. rewrite Z in FR. elim FR. }
    destruct RSR as [[ES NS]|XSR].
    + subst R. now apply PI4.
    + now apply PI2.
  - (* R = Q, P generic *) subst R.
    destruct RSR as [[ES NS]|XSR].
    { rewrite (eadd_comm P Q HP HQ) in ES. symmetry in ES.
      pose proof (eadd_uniq_zero Q P HQ HP ES) as Z. rewrite Z in FP. elim FP. }
    destruct RPT as [[ET NT]|XPT].
    + subst P.
      rewrite (eadd_comm (eadd (eadd Q Q) Q) Q), (eadd_comm (eadd Q Q) Q) by auto.
      symmetry. apply PI4; auto.
      * now apply xne_sym.
      * apply xne_sym. rewrite (eadd_comm Q (eadd Q Q)) by auto. exact XSR.
    + rewrite (eadd_comm (eadd P Q) Q), (eadd_comm P Q), (eadd_comm P (eadd Q Q)) by auto.
      symmetry. apply PI2; auto using xne_sym.
      apply xne_sym. rewrite (eadd_comm Q P) by auto. exact XSR.
  - (* P, Q and Q, R generic *)
    destruct RSR as [[ES NS]|XSR]; destruct RPT as [[ET NT]|XPT].
    + (* R = P + Q and Q + R = P : Q has order two *)
      subst R.
      assert (K1 : eadd (eadd P Q) (eneg P) = Q).
      { rewrite (eadd_comm P Q) by auto. now apply eadd_sub. }
      assert (K2 : eadd P (eneg (eadd P Q)) = Q).
      { rewrite <- ET at 1. now apply eadd_sub. }
      assert (K3 : Q = eneg Q).
      { rewrite <- K2 at 2. rewrite eneg_eadd, eneg_neg by auto using eneg_on.
        rewrite eadd_comm by auto using eneg_on. now symmetry. }
      rewrite ET. now apply PI5.
    + subst R. now apply PI3.
    + subst P. 
      rewrite (eadd_comm Q R HQ HR) in *.
      rewrite (eadd_comm (eadd (eadd R Q) Q) R), (eadd_comm (eadd R Q) Q) by auto.
      symmetry. apply PI3; auto using xne_sym.
      apply xne_sym. rewrite (eadd_comm Q (eadd R Q)) by auto. exact XSR.
    + now apply PI1.
Qed.

Theorem eadd_assoc P Q R : eon P -> eon Q -> eon R -> eadd (eadd P Q) R = eadd P (eadd Q R).
Proof.
  intros HP HQ HR.
  destruct P as [|x1 y1]; [reflexivity|].
  destruct Q as [|x2 y2]; [reflexivity|].
  destruct R as [|x3 y3]; [now rewrite !eadd_O_r|].
  now apply eadd_assoc_fin.
Qed.

End Grp.
