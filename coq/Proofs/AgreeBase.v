(* Proofs/AgreeBase.v — C03 agreement proof, base layer.
   Shared facts used by the per-family files Proofs/Agree<Family>.v and by Proofs/AgreeEval.v:
   * codec bridges: pycoin's bool_from_script_bytes IS Core's CastToBool; push_int / pop_int use the same
     script-number codec as CScriptNum (so `lift (int_to_script_bytes v) = VOk (num_vec v)` and
     pop_int = script_num);
   * instruction decoding: ScriptStreamer.get_opcode (generated tables) against CScript::GetOp, including the
     truncated-push cases and the MINIMALDATA rule (get_opcode's test = CheckMinimalPush);
   * the abstraction `abs` from a pycoin VM state to Core's loop state and the handler-level result relation
     `hres` in which every per-family lemma is stated. *)
From Coq Require Import Lia ZifyBool ZifyNat ZifyN.
From PV Require Import Base.Bytes Base.Outcome Gen.GenOpcodes Gen.GenFlags.
From PV Require Import Model.ScriptNum Model.Push Model.CondStack Spec.CondStackCore Proofs.CondStackP.
From PV Require Import Spec.VMTypes Model.VMpy Spec.VMcore Proofs.ScriptNumP Proofs.PushP Proofs.VMpyP.
Local Open Scope N_scope.

(* ---- small list facts --------------------------------------------------------------------------------- *)
Lemma stack_eqb_refl a : stack_eqb a a = true.
Proof. induction a as [|x a IH]; cbn [stack_eqb]; [reflexivity|]. now rewrite bytes_eqb_refl, IH. Qed.

Lemma skipn_cons_nth {A} pc : forall (l : list A) x r,
  skipn pc l = x :: r -> nth_error l pc = Some x /\ skipn (S pc) l = r.
Proof.
  induction pc as [|pc IH]; intros l x r H; destruct l as [|a l]; cbn in H; try discriminate.
  - inversion H; subst. split; reflexivity.
  - cbn [nth_error]. change (skipn (S (S pc)) (a :: l)) with (skipn (S pc) l). apply IH. exact H.
Qed.

Lemma slice_from {A} a k (l rest : list A) : skipn a l = rest -> slice a (a + k) l = firstn k rest.
Proof. intros <-. unfold slice. f_equal. lia. Qed.

Lemma skipn_add {A} a b (l : list A) : skipn a (skipn b l) = skipn (b + a) l.
Proof.
  revert l; induction b as [|b IH]; intros l; [reflexivity|].
  destruct l as [|x l]; cbn [skipn plus]; [now rewrite skipn_nil|apply IH].
Qed.

Lemma skipn_nil_iff {A} n (l : list A) : skipn n l = [] <-> (length l <= n)%nat.
Proof.
  split.
  - intros H. pose proof (skipn_length n l) as K. rewrite H in K. cbn in K. lia.
  - intros H. apply skipn_all2. exact H.
Qed.

(* ---- codec bridges --------------------------------------------------------------------------------------- *)
Lemma int_to_total v : int_to_script_bytes v = Ret (num_vec v).
Proof.
  unfold num_vec. destruct (int_to_script_bytes v) as [b|e|] eqn:E; [reflexivity| |].
  - exfalso. unfold int_to_script_bytes in E.
    destruct (v =? 0)%Z; [discriminate|].
    destruct (le_min_f _ _) as [ba|]; [|discriminate].
    destruct (128 <=? last_n ba); [discriminate|]. destruct (v <? 0)%Z; discriminate.
  - now apply int_to_script_no_oof in E.
Qed.

Lemma lift_int_to v : lift (int_to_script_bytes v) = VOk (num_vec v).
Proof. rewrite int_to_total. reflexivity. Qed.

Lemma int_from_cases s m : (exists z, int_from_script_bytes s m = Ret z) \/ int_from_script_bytes s m = Raise E_SCRIPT.
Proof.
  unfold int_from_script_bytes. destruct (rev s) as [|i rest]; [left; eauto|]. cbv zeta.
  match goal with |- context [if ?c then _ else _] => destruct c end; [right; reflexivity|left; eauto].
Qed.

(* pop_int's size test and decoding = CScriptNum's constructor *)
Lemma pop_int_is_script_num (mx : nat) v m :
  (if (mx <? length v)%nat then VFail else lift (int_from_script_bytes v m)) = to_vres (script_num m (N.of_nat mx) v).
Proof.
  unfold script_num, len.
  destruct (Nat.ltb_spec mx (length v)); destruct (N.ltb_spec (N.of_nat mx) (N.of_nat (length v))); try lia; [reflexivity|].
  destruct (int_from_cases v m) as [[z ->] | ->]; reflexivity.
Qed.

Definition allz (l : bytes) : bool := forallb (fun b => b2n b =? 0) l.

Lemma be_accum_zero l : forall v, (be_accum v l =? 0) = (v =? 0) && allz l.
Proof.
  induction l as [|b r IH]; intros v; cbn [be_accum allz forallb].
  - now rewrite andb_true_r.
  - rewrite IH, shiftl8. fold (allz r). pose proof (b2n_lt b).
    destruct (N.eqb_spec (v * 256 + b2n b) 0), (N.eqb_spec v 0), (N.eqb_spec (b2n b) 0); cbn; try reflexivity; lia.
Qed.

Lemma allz_rev l : allz (rev l) = allz l.
Proof.
  unfold allz. induction l as [|b r IH]; [reflexivity|].
  cbn [rev forallb]. rewrite forallb_app, IH. cbn [forallb]. rewrite andb_true_r. apply andb_comm.
Qed.

Lemma land127_zero b : (N.land (b2n b) 127 =? 0) = (b2n b =? 0) || (b2n b =? 128).
Proof. destruct b; vm_compute; reflexivity. Qed.

Lemma cast_to_bool_snoc body i :
  cast_to_bool (body ++ [i]) = negb (allz body && (N.land (b2n i) 127 =? 0)).
Proof.
  induction body as [|b r IH]; cbn [app cast_to_bool allz forallb].
  - rewrite land127_zero. destruct (b2n i =? 0); [reflexivity|]. cbn [orb]. reflexivity.
  - fold (allz r). destruct (b2n b =? 0); [exact IH|].
    destruct (r ++ [i]) eqn:E; [destruct r; discriminate|reflexivity].
Qed.

(* BitcoinVM.bool_from_script_bytes = CastToBool *)
Lemma bool_from_is_cast v : bool_from_script_bytes v = cast_to_bool v.
Proof.
  destruct v as [|b0 t]; [reflexivity|].
  destruct (exists_last (l := b0 :: t)) as (body & i & E); [discriminate|]. rewrite E.
  rewrite cast_to_bool_snoc. unfold bool_from_script_bytes, int_from_script_bytes.
  rewrite rev_app_distr. cbn [rev app andb]. cbv zeta.
  set (mag := be_accum (N.land (b2n i) 127) (rev body)).
  assert (Hm : (mag =? 0) = allz body && (N.land (b2n i) 127 =? 0)).
  { unfold mag. rewrite be_accum_zero, allz_rev. apply andb_comm. }
  rewrite <- Hm. destruct (0 <? N.land (b2n i) 128); f_equal; destruct (N.eqb_spec mag 0); lia.
Qed.

(* ---- instruction decoding: get_opcode (generated tables) against GetOp -------------------------------------- *)
Definition const_of (n : N) : option bytes :=
  if n =? 0 then Some [] else if n =? 79 then Some [x81]
  else if (81 <=? n) && (n <=? 96) then Some [n2b (n - 80)] else None.

Lemma tab_facts ob : let n := b2n ob in
  const_by_opcode const_table n = const_of n /\
  sized_by_opcode sized_table n = (if (1 <=? n) && (n <=? 75) then Some n else None) /\
  var_by_opcode variable_table n =
    (if n =? 76 then Some (1%nat, 0) else if n =? 77 then Some (2%nat, 255)
     else if n =? 78 then Some (4%nat, 65535) else None).
Proof. destruct ob; vm_compute; repeat split; reflexivity. Qed.

Lemma is_sized_small n : 1 <= n <= 75 -> is_sized_value sized_table n = true.
Proof. intros H. unfold is_sized_value. now rewrite sized_small. Qed.
Lemma is_sized_large n : 75 < n -> is_sized_value sized_table n = false.
Proof. intros H. unfold is_sized_value. now rewrite sized_large. Qed.
Lemma is_sized_zero : is_sized_value sized_table 0 = false.
Proof. vm_compute. reflexivity. Qed.

Lemma one_byte_const b : is_const_value const_table [b] = negb (check_minimal_push [b] 1).
Proof. destruct b; vm_compute; reflexivity. Qed.

Lemma sized_min data : 1 <= len data <= 75 ->
  is_const_value const_table data = negb (check_minimal_push data (len data)).
Proof.
  intros H. destruct data as [|b [|b2 t]].
  - cbn in H. lia.
  - apply one_byte_const.
  - unfold is_const_value. rewrite const_none_long by (cbn [length]; lia).
    cbn [check_minimal_push]. set (d := b :: b2 :: t) in *. cbv zeta.
    replace (len d <=? 75) with true by lia. now rewrite N.eqb_refl.
Qed.

Lemma one_byte_var b : check_minimal_push [b] 76 = false /\ check_minimal_push [b] 77 = false /\ check_minimal_push [b] 78 = false.
Proof. destruct b; vm_compute; repeat split; reflexivity. Qed.

Lemma var_min data opn ms :
  (opn = 76 /\ ms = 0 /\ len data < 256) \/ (opn = 77 /\ ms = 255 /\ len data < 65536) \/ (opn = 78 /\ ms = 65535) ->
  is_sized_value sized_table (len data) || (len data <=? ms) = negb (check_minimal_push data opn).
Proof.
  intros H. destruct data as [|b [|b2 t]].
  - change (len []) with 0. rewrite is_sized_zero. cbn [check_minimal_push orb].
    destruct H as [(-> & -> & _)|[(-> & -> & _)|(-> & ->)]]; reflexivity.
  - change (len [b]) with 1. rewrite is_sized_small by lia. cbn [orb].
    destruct (one_byte_var b) as (A & B & C).
    destruct H as [(-> & -> & _)|[(-> & -> & _)|(-> & ->)]]; [rewrite A|rewrite B|rewrite C]; reflexivity.
  - cbn [check_minimal_push]. set (d := b :: b2 :: t) in *. cbv zeta.
    assert (Hl : 2 <= len d) by (unfold len, d; cbn [length]; lia).
    destruct (N.leb_spec (len d) 75).
    { rewrite is_sized_small by lia. cbn [orb].
      destruct H as [(-> & -> & _)|[(-> & -> & _)|(-> & ->)]]; destruct (N.eqb_spec 76 (len d)); destruct (N.eqb_spec 77 (len d));
        destruct (N.eqb_spec 78 (len d)); try lia; reflexivity. }
    rewrite is_sized_large by lia. cbn [orb].
    destruct (N.leb_spec (len d) 255).
    { destruct H as [(-> & -> & _)|[(-> & -> & _)|(-> & ->)]]; cbv iota; lia. }
    destruct (N.leb_spec (len d) 65535).
    { destruct H as [(-> & -> & ?)|[(-> & -> & _)|(-> & ->)]]; cbv iota; lia. }
    destruct H as [(-> & -> & ?)|[(-> & -> & ?)|(-> & ->)]]; cbv iota; lia.
Qed.

Section Decode.
Variable script : bytes.

(* what both decoders say about the instruction at pc, the rest of the script being ob :: r *)
Lemma decode_agree m pc ob r : skipn pc script = ob :: r ->
  let n := b2n ob in
  match get_op (ob :: r) with
  | None => n <= 78 /\ exists pc', btc_get_opcode script pc m = Ret (n, None, pc', false)
  | Some (op, data, rest') =>
      op = ob /\
      if n <=? 78 then
        if m && negb (check_minimal_push data n) then btc_get_opcode script pc m = Raise E_SCRIPT
        else exists pc', btc_get_opcode script pc m = Ret (n, Some data, pc', true) /\ rest' = skipn pc' script
      else
        data = [] /\ rest' = r /\
        btc_get_opcode script pc m = Ret (n, const_of n, S pc, true) /\ r = skipn (S pc) script
  end.
Proof.
  intros Hs n. destruct (skipn_cons_nth _ _ _ _ Hs) as [Hnth Hr].
  destruct (tab_facts ob) as (Hc & Hz & Hv). fold n in Hc, Hz, Hv.
  unfold btc_get_opcode, get_opcode. rewrite Hnth. cbv zeta. fold n. rewrite Hc.
  cbn [get_op]. fold n.
  rewrite Hz, Hv. replace (pc + 1)%nat with (S pc) by lia.
  assert (Hsl : forall k, slice (S pc) (S pc + k) script = firstn k r) by (intros k; apply slice_from; exact Hr).
  clearbody n.
  destruct (N.ltb_spec 78 n) as [Hhi|Hlo].
  { replace (n <=? 78) with false by lia.
    split; [reflexivity|]. split; [reflexivity|]. split; [reflexivity|]. split; [|symmetry; exact Hr].
    destruct (const_of n); [reflexivity|].
    replace ((1 <=? n) && (n <=? 75)) with false by lia.
    replace (n =? 76) with false by lia. replace (n =? 77) with false by lia. replace (n =? 78) with false by lia.
    reflexivity. }
  replace (n <=? 78) with true by lia.
  destruct (N.eqb_spec n 0) as [E0|N0].
  { subst n. unfold take_n. replace (len r <? 0) with false by lia.
    change (0 <? 76) with true. cbv iota zeta. change (N.to_nat 0) with 0%nat. cbn [firstn skipn].
    split; [reflexivity|]. change (check_minimal_push [] 0) with true. rewrite andb_false_r.
    exists (S pc). split; [reflexivity|]. symmetry; exact Hr. }
  assert (Hcn : const_of n = None).
  { unfold const_of. replace (n =? 0) with false by lia. replace (n =? 79) with false by lia.
    replace ((81 <=? n) && (n <=? 96)) with false by lia. reflexivity. }
  rewrite Hcn.
  destruct (N.ltb_spec n 76) as [Hs75|Hvar].
  { (* sized push *)
    replace ((1 <=? n) && (n <=? 75)) with true by lia.
    rewrite Hsl. unfold take_n, len.
    destruct (N.ltb_spec (N.of_nat (length r)) n) as [Ht|Hok].
    - split; [lia|]. rewrite firstn_length. replace (Nat.min (N.to_nat n) (length r) <? N.to_nat n)%nat with true by lia.
      eexists; reflexivity.
    - split; [reflexivity|]. rewrite firstn_length.
      replace (Nat.min (N.to_nat n) (length r) <? N.to_nat n)%nat with false by lia.
      set (data := firstn (N.to_nat n) r).
      assert (Hld : len data = n) by (unfold len, data; rewrite firstn_length; lia).
      rewrite sized_min by lia. rewrite Hld.
      destruct (m && negb (check_minimal_push data n)); [reflexivity|].
      eexists; split; [reflexivity|]. rewrite <- Hr. rewrite skipn_add. reflexivity. }
  (* PUSHDATA1/2/4 *)
  replace ((1 <=? n) && (n <=? 75)) with false by lia.
  assert (Hn : n = 76 \/ n = 77 \/ n = 78) by lia.
  assert (H256 : 256 ^ N.of_nat 1 = 256 /\ 256 ^ N.of_nat 2 = 65536) by (split; reflexivity).
  destruct H256 as [P1 P2].
  destruct Hn as [ -> | [ -> | -> ] ];
    cbn [N.eqb Pos.eqb]; rewrite Hsl; rewrite firstn_length;
    match goal with |- context [(length r <? ?w)%nat] =>
      destruct (Nat.ltb_spec (length r) w) as [Ht|Hok];
      [ split; [lia|]; replace (Nat.min w (length r) <? w)%nat with true by lia; eexists; reflexivity
      | replace (Nat.min w (length r) <? w)%nat with false by lia;
        assert (Hsk : skipn (S pc + w) script = skipn w r) by (rewrite <- Hr, skipn_add; reflexivity);
        pose proof (le_decode_bound (firstn w r)) as Hb; rewrite firstn_length in Hb;
        replace (Nat.min w (length r)) with w in Hb by lia;
        set (size := le_decode (firstn w r)) in *;
        unfold take_n, len; rewrite skipn_length;
        replace (length script - (S pc + w))%nat with (length r - w)%nat
          by (rewrite <- Hr, skipn_length; lia);
        destruct (N.ltb_spec (N.of_nat (length r - w)) size) as [Ht2|Hok2];
        [ split; [lia|]; eexists; reflexivity
        | split; [reflexivity|];
          rewrite (slice_from (S pc + w) (N.to_nat size) script (skipn w r) Hsk);
          rewrite firstn_length, skipn_length;
          replace (Nat.min (N.to_nat size) (length r - w) <? N.to_nat size)%nat with false by lia;
          set (data := firstn (N.to_nat size) (skipn w r));
          assert (Hld : len data = size) by (unfold len, data; rewrite firstn_length, skipn_length; lia);
          rewrite <- Hld;
          match goal with |- context [check_minimal_push data ?opn] =>
            rewrite (var_min data opn) by (rewrite Hld; lia) end;
          match goal with |- context [if ?c then _ else _] => destruct c end; [reflexivity|];
          eexists; split; [reflexivity|]; rewrite <- Hsk, skipn_add; f_equal; lia ] ]
    end.
Qed.
End Decode.

(* ---- the abstraction and the result relations ------------------------------------------------------------ *)
Section Sim.
Variable o : oracles.
Variable flags : N.
Variable sv : sigversion.
Variable ctx : txctx.
Variable script : bytes.

(* Core's loop state seen through a pycoin VM state; vfExec is the only component pycoin does not determine
   (it keeps two counters): it is related by Proofs/CondStackP.cond_rel *)
Definition abs (s : vmstate) (vf : list bool) : est :=
  {| e_stack := st_stack s; e_alt := st_alt s; e_vf := vf;
     e_opc := Z.to_N (st_opc s); e_bch := skipn (st_bch s) script |}.

(* state invariant at instruction boundaries; Core's pc is `skipn (st_pc s) script` *)
Definition sim (s : vmstate) (c : est) : Prop :=
  exists vf, c = abs s vf /\ cond_rel (st_cond s) vf /\ (0 <= st_opc s <= Z.of_N MAX_OP_COUNT)%Z.

(* handler f(vm) against the `switch` arm of EvalScript, both started from related states.
   All clean failures are identified.  The third case is OP_CHECKMULTISIG's own op-count test, which pycoin
   delays to the end of eval_instruction. *)
Definition hres (s : vmstate) (r1 : vres vmstate) (r2 : cres est) : Prop :=
  match r1, r2 with
  | VOk s', COk c' => exists vf', c' = abs s' vf' /\ cond_rel (st_cond s') vf' /\ (st_opc s <= st_opc s')%Z /\
                      ((st_opc s <= Z.of_N MAX_OP_COUNT)%Z -> (st_opc s' <= Z.of_N MAX_OP_COUNT)%Z)
  | VFail, CErr _ => True
  | VOk s', CErr _ => (Z.of_N MAX_OP_COUNT < st_opc s')%Z
  | _, _ => False
  end.

(* the form for every opcode that leaves the conditional stack alone *)
Definition hres_nf (s : vmstate) (vf : list bool) (r1 : vres vmstate) (r2 : cres est) : Prop :=
  match r1, r2 with
  | VOk s', COk c' => c' = abs s' vf /\ st_cond s' = st_cond s /\ st_opc s' = st_opc s
  | VFail, CErr _ => True
  | _, _ => False
  end.

Lemma hres_of_nf s vf r1 r2 : cond_rel (st_cond s) vf -> hres_nf s vf r1 r2 -> hres s r1 r2.
Proof.
  intros R. destruct r1 as [s'| |e|], r2 as [c'|e2|]; cbn; try tauto.
  intros (A & B & C). exists vf. rewrite B, C. repeat split; auto; lia.
Qed.

(* ---- pycoin's stack primitives in Core's vocabulary ---------------------------------------------------------- *)
Lemma vm_pop_int_eq mx s :
  vm_pop_int flags mx s =
  match st_stack s with
  | [] => VFail
  | v :: r => vbind (to_vres (script_num (flag_set flags VERIFY_MINIMALDATA) (N.of_nat mx) v))
                    (fun z => VOk (z, VMpy.set_stack s r))
  end.
Proof.
  unfold vm_pop_int, vm_pop. destruct (st_stack s) as [|v r]; [reflexivity|]. cbn [vbind].
  rewrite <- pop_int_is_script_num. unfold flag. destruct (mx <? length v)%nat; reflexivity.
Qed.

Lemma pcb_eq s : pop_check_bounds flags s = vm_pop_int flags 4 s.
Proof.
  unfold pop_check_bounds, vm_get, vm_pop_int, vm_pop. destruct (st_stack s) as [|v r]; [reflexivity|].
  cbn [Nat.sub nth_error vbind]. destruct (4 <? length v)%nat; reflexivity.
Qed.

Lemma vm_push_int_eq v s : vm_push_int v s = VOk (vm_append (num_vec v) s).
Proof. unfold vm_push_int. rewrite lift_int_to. reflexivity. Qed.

Lemma pop_verify_eq s :
  pop_verify s = match st_stack s with
                 | [] => VFail
                 | v :: r => if cast_to_bool v then VOk (VMpy.set_stack s r) else VFail
                 end.
Proof. unfold pop_verify, vm_pop. destruct (st_stack s); [reflexivity|]. cbn [vbind]. now rewrite bool_from_is_cast. Qed.

Lemma bool_vec_eq b : bool_to_script_bytes b = bool_vec b.
Proof. destruct b; reflexivity. Qed.

End Sim.

(* destruct the next script_num call; the CFuel case never happens *)
Ltac d_sn :=
  match goal with
  | |- context [script_num ?m ?k ?v] =>
    let E := fresh "Esn" in
    destruct (script_num m k v) as [?z|?e|] eqn:E; [| |exfalso; exact (nf_script_num m k v E)]
  end.
