(* Proofs/CommitP.v — lemmas for property C06 over Model/Commit.v. *)
From PV Require Import Base.Bytes Base.Outcome Base.Varint Gen.GenCommitC06 Model.Commit.
From Coq Require Import ZifyBool ZifyNat ZifyN.
Local Open Scope N_scope.

(* ---- 0. the generated constants have their consensus values ------------------------------------------ *)
Lemma gen06_consts_ok :
  gen06_sighash_all = 1 /\ gen06_sighash_none = 2 /\ gen06_sighash_single = 3 /\ gen06_sighash_anyonecanpay = 128
  /\ gen06_mask_legacy = 31 /\ gen06_mask_sequence = 31 /\ gen06_mask_outputs = 31
  /\ single_value = 2 ^ 248 /\ gen06_blank_amount = 2 ^ 64 - 1
  /\ gen06_zero32 = repeatb x00 32 /\ gen06_hash_trunc = 32%nat /\ gen06_width_L = 4%nat /\ gen06_width_Q = 8%nat
  /\ gen06_coinbase_hash = repeatb x00 32 /\ gen06_coinbase_index = 2 ^ 32 - 1.
Proof. repeat split; vm_compute; reflexivity. Qed.

(* ---- 1. prefix-injective encoders ---------------------------------------------------------------------- *)
(* enc is injective even when followed by arbitrary trailing bytes; `key` is what the encoding determines *)
Definition pinj {A B} (Q : A -> Prop) (enc : A -> outcome bytes) (key : A -> B) : Prop :=
  forall a a' p p' r r', Q a -> Q a' -> enc a = Ret p -> enc a' = Ret p' -> p ++ r = p' ++ r' ->
    key a = key a' /\ r = r'.

Definition any {A} (_ : A) : Prop := True.

Lemma app_inj_len {A} (a a' r r' : list A) :
  length a = length a' -> a ++ r = a' ++ r' -> a = a' /\ r = r'.
Proof.
  revert a'; induction a as [|x a IH]; intros [|y a'] HL H; cbn in *; try discriminate.
  - auto.
  - injection H as -> H. destruct (IH a' ltac:(lia) H) as [-> ->]. auto.
Qed.

Ltac inv_bind H :=
  let a := fresh "a" in let Ha := fresh "Ha" in
  apply bind_ret_inv in H; destruct H as [a [Ha H]].

Lemma write_le_ret w v p : write_le w v = Ret p -> p = le_encode w v /\ v < 256 ^ N.of_nat w.
Proof. unfold write_le. destruct (v <? 256 ^ N.of_nat w) eqn:E; [|discriminate]. intros H; injection H as <-. split; [reflexivity|lia]. Qed.

Lemma write_le_pinj w : pinj any (write_le w) (fun v => v).
Proof.
  intros v v' p p' r r' _ _ H H' E.
  apply write_le_ret in H, H'. destruct H as [-> Hv], H' as [-> Hv'].
  apply app_inj_len in E; [|now rewrite !le_encode_length]. destruct E as [E ->]. split; [|reflexivity].
  rewrite <- (le_decode_encode w v Hv), <- (le_decode_encode w v' Hv'). now rewrite E.
Qed.

Lemma write_le_length w v p : write_le w v = Ret p -> length p = w.
Proof. intros H. apply write_le_ret in H. destruct H as [-> _]. apply le_encode_length. Qed.

Lemma stream_varint_ret_lt v p : stream_varint v = Ret p -> v < 2 ^ 64.
Proof.
  unfold stream_varint. change (2 ^ 64) with 18446744073709551616.
  destruct (v <? 253) eqn:E1; [lia|]. destruct (v <=? 65535) eqn:E2; [lia|].
  destruct (v <=? 4294967295) eqn:E3; [lia|]. destruct (v <? 18446744073709551616) eqn:E4; [lia|discriminate].
Qed.

Lemma stream_varint_nonempty v p : stream_varint v = Ret p -> p <> [].
Proof.
  unfold stream_varint. repeat match goal with |- context [if ?c then _ else _] => destruct c end;
    intros H; try discriminate; injection H as <-; discriminate.
Qed.

Lemma varint_pinj : pinj any stream_varint (fun v => v).
Proof.
  intros v v' p p' r r' _ _ H H' E.
  destruct (varint_frame v r (stream_varint_ret_lt _ _ H)) as [q [Hq [Hp _]]].
  destruct (varint_frame v' r' (stream_varint_ret_lt _ _ H')) as [q' [Hq' [Hp' _]]].
  rewrite H in Hq; injection Hq as <-. rewrite H' in Hq'; injection Hq' as <-.
  rewrite E in Hp. rewrite Hp in Hp'. injection Hp' as -> ->. auto.
Qed.

Lemma stream_varstr_ret s p : stream_varstr s = Ret p ->
  exists q, stream_varint (N.of_nat (length s)) = Ret q /\ p = q ++ s.
Proof.
  unfold stream_varstr. destruct (stream_varint (N.of_nat (length s))) as [q| |]; try discriminate.
  intros H; injection H as <-. eauto.
Qed.

Lemma varstr_pinj : pinj any stream_varstr (fun s => s).
Proof.
  intros s s' p p' r r' _ _ H H' E.
  apply stream_varstr_ret in H, H'. destruct H as [q [Hq ->]], H' as [q' [Hq' ->]].
  rewrite <- !app_assoc in E.
  destruct (varint_pinj _ _ _ _ _ _ I I Hq Hq' E) as [HL E'].
  apply app_inj_len in E'; [exact E'|lia].
Qed.

Lemma stream_varstr_nonempty s p : stream_varstr s = Ret p -> p <> [].
Proof.
  intros H. apply stream_varstr_ret in H. destruct H as [q [Hq ->]].
  apply stream_varint_nonempty in Hq. destruct q; [congruence|discriminate].
Qed.

(* lists: with the same number of elements ... *)
Lemma concatM_pinj_len {A B} (Q : A -> Prop) (enc : A -> outcome bytes) (key : A -> B) :
  pinj Q enc key ->
  forall l l' p p' r r', length l = length l' -> Forall Q l -> Forall Q l' ->
    concatM enc l = Ret p -> concatM enc l' = Ret p' -> p ++ r = p' ++ r' ->
    map key l = map key l' /\ r = r'.
Proof.
  intros HP. induction l as [|x l IH]; intros [|x' l'] p p' r r' HL HQ HQ' H H' E; cbn in HL; try discriminate.
  - cbn in H, H'. injection H as <-. injection H' as <-. cbn in E. auto.
  - cbn [concatM] in H, H'. inv_bind H. inv_bind H. injection H as <-.
    inv_bind H'. inv_bind H'. injection H' as <-.
    rewrite <- !app_assoc in E.
    destruct (HP _ _ _ _ _ _ (Forall_inv HQ) (Forall_inv HQ') Ha Ha1 E) as [K E'].
    destruct (IH l' _ _ _ _ ltac:(lia) (Forall_inv_tail HQ) (Forall_inv_tail HQ') Ha0 Ha2 E') as [K' ->].
    cbn [map]. rewrite K, K'. auto.
Qed.

(* ... and without a count, as a whole string, when no element encodes to the empty string *)
Lemma concatM_inj_whole {A B} (Q : A -> Prop) (enc : A -> outcome bytes) (key : A -> B) :
  pinj Q enc key -> (forall a p, enc a = Ret p -> p <> []) ->
  forall l l' p, Forall Q l -> Forall Q l' -> concatM enc l = Ret p -> concatM enc l' = Ret p ->
    map key l = map key l'.
Proof.
  intros HP HN. induction l as [|x l IH]; intros [|x' l'] p HQ HQ' H H'.
  - reflexivity.
  - cbn [concatM] in H, H'. injection H as <-. inv_bind H'. inv_bind H'. injection H' as H'.
    apply HN in Ha. destruct a; [congruence|discriminate].
  - cbn [concatM] in H, H'. injection H' as <-. inv_bind H. inv_bind H. injection H as H.
    apply HN in Ha. destruct a; [congruence|discriminate].
  - cbn [concatM] in H, H'. inv_bind H. inv_bind H. injection H as <-.
    inv_bind H'. inv_bind H'. injection H' as E.
    assert (E' : a ++ a0 ++ [] = a1 ++ a2 ++ []) by (rewrite !app_nil_r; symmetry; exact E).
    destruct (HP _ _ _ _ _ _ (Forall_inv HQ) (Forall_inv HQ') Ha Ha1 E') as [K E''].
    rewrite !app_nil_r in E''. subst a2.
    cbn [map]. rewrite K. f_equal.
    exact (IH l' _ (Forall_inv_tail HQ) (Forall_inv_tail HQ') Ha0 Ha2).
Qed.

Lemma concatM_ext {A} (f g : A -> outcome bytes) l l' :
  length l = length l' ->
  (forall j x x', nth_error l j = Some x -> nth_error l' j = Some x' -> f x = g x') ->
  concatM f l = concatM g l'.
Proof.
  revert l'; induction l as [|x l IH]; intros [|x' l'] HL H; cbn in HL; try discriminate; [reflexivity|].
  cbn [concatM]. rewrite (H O x x' eq_refl eq_refl).
  rewrite (IH l' ltac:(lia)); [reflexivity|]. intros j; exact (H (S j)).
Qed.

(* ---- 2. the element encoders --------------------------------------------------------------------------- *)
Ltac inv_bind_as H x Hx := apply bind_ret_inv in H; destruct H as [x [Hx H]].

Definition wf_in (x : txin) : Prop := length (ti_hash x) = 32%nat.
Definition wf_tx (t : tx) : Prop := Forall wf_in (tx_ins t).
Definition in_key (x : txin) : bytes * N * bytes * N := (ti_hash x, ti_index x, ti_script x, ti_seq x).

Lemma stream_hash_wf x : wf_in x -> stream_hash (ti_hash x) = ti_hash x.
Proof. unfold wf_in, stream_hash. intros H. apply firstn_all2. change gen06_hash_trunc with 32%nat. lia. Qed.

Lemma stream_txin_pinj : pinj wf_in stream_txin in_key.
Proof.
  intros x x' p p' r r' Q Q' H H' E. unfold stream_txin in H, H'.
  inv_bind_as H a Ha. inv_bind_as H s Hs. inv_bind_as H q Hq. injection H as <-.
  inv_bind_as H' a' Ha'. inv_bind_as H' s' Hs'. inv_bind_as H' q' Hq'. injection H' as <-.
  rewrite !stream_hash_wf in E by assumption. rewrite <- !app_assoc in E.
  apply app_inj_len in E; [|unfold wf_in in *; lia]. destruct E as [Eh E].
  destruct (write_le_pinj _ _ _ _ _ _ _ I I Ha Ha' E) as [Ei E1].
  destruct (varstr_pinj _ _ _ _ _ _ I I Hs Hs' E1) as [Es E2].
  destruct (write_le_pinj _ _ _ _ _ _ _ I I Hq Hq' E2) as [Eq E3].
  unfold in_key. cbn beta in *. rewrite Eh, Ei, Es, Eq. auto.
Qed.

Lemma stream_txout_pinj : pinj any stream_txout (fun o => o).
Proof.
  intros o o' p p' r r' _ _ H H' E. unfold stream_txout in H, H'.
  inv_bind_as H a Ha. inv_bind_as H s Hs. injection H as <-.
  inv_bind_as H' a' Ha'. inv_bind_as H' s' Hs'. injection H' as <-.
  rewrite <- !app_assoc in E.
  destruct (write_le_pinj _ _ _ _ _ _ _ I I Ha Ha' E) as [Ea E1].
  destruct (varstr_pinj _ _ _ _ _ _ I I Hs Hs' E1) as [Es E2].
  destruct o, o'; cbn in *. subst. auto.
Qed.

Lemma stream_txout_nonempty o p : stream_txout o = Ret p -> p <> [].
Proof.
  unfold stream_txout. intros H. inv_bind_as H a Ha. inv_bind_as H s Hs. injection H as <-.
  apply write_le_length in Ha. destruct a; [discriminate Ha|discriminate].
Qed.

Definition outpoint_key (x : txin) : bytes * N := (ti_hash x, ti_index x).

Lemma prevout_entry_pinj : pinj wf_in prevout_entry outpoint_key.
Proof.
  intros x x' p p' r r' Q Q' H H' E. unfold prevout_entry in H, H'.
  inv_bind_as H a Ha. injection H as <-. inv_bind_as H' a' Ha'. injection H' as <-.
  rewrite <- !app_assoc in E.
  apply app_inj_len in E; [|unfold wf_in in *; lia]. destruct E as [Eh E].
  destruct (write_le_pinj _ _ _ _ _ _ _ I I Ha Ha' E) as [Ei E1].
  unfold outpoint_key. cbn beta in *. rewrite Eh, Ei. auto.
Qed.

Lemma prevout_entry_nonempty x p : prevout_entry x = Ret p -> p <> [].
Proof.
  unfold prevout_entry. intros H. inv_bind_as H a Ha. injection H as <-.
  apply write_le_length in Ha. destruct a; [discriminate Ha|]. destruct (ti_hash x); discriminate.
Qed.

Lemma sequence_entry_pinj : pinj any sequence_entry ti_seq.
Proof. intros x x' p p' r r' _ _ H H' E. exact (write_le_pinj _ _ _ _ _ _ _ I I H H' E). Qed.

Lemma sequence_entry_nonempty x p : sequence_entry x = Ret p -> p <> [].
Proof. unfold sequence_entry. intros H. apply write_le_length in H. destruct p; [discriminate H|discriminate]. Qed.

Lemma Forall_any {A} (l : list A) : Forall any l.
Proof. apply Forall_forall. intros; exact I. Qed.

(* a varint count followed by that many elements *)
Lemma counted_pinj {A B} (Q : A -> Prop) (enc : A -> outcome bytes) (key : A -> B) :
  pinj Q enc key ->
  forall l l' c c' p p' r r', Forall Q l -> Forall Q l' ->
    stream_varint (N.of_nat (length l)) = Ret c -> stream_varint (N.of_nat (length l')) = Ret c' ->
    concatM enc l = Ret p -> concatM enc l' = Ret p' -> c ++ p ++ r = c' ++ p' ++ r' ->
    map key l = map key l' /\ r = r'.
Proof.
  intros HP l l' c c' p p' r r' HQ HQ' Hc Hc' H H' E.
  destruct (varint_pinj _ _ _ _ _ _ I I Hc Hc' E) as [HL E1].
  exact (concatM_pinj_len Q enc key HP l l' p p' r r' ltac:(lia) HQ HQ' H H' E1).
Qed.

Definition tx_key (t : tx) := (tx_version t, map in_key (tx_ins t), tx_outs t, tx_lock t).

(* Tx.hash(hash_type): equal hash inputs come from equal (witness-less) transactions and equal hash types *)
Lemma hash_input_inj t t' ht ht' b :
  wf_tx t -> wf_tx t' -> hash_input t ht = Ret b -> hash_input t' ht' = Ret b ->
  tx_key t = tx_key t' /\ ht = ht'.
Proof.
  intros W W' H H'. unfold hash_input, stream_tx_nowit in H, H'.
  inv_bind_as H b0 Hb. inv_bind_as H h Hh. injection H as <-.
  inv_bind_as Hb v Hv. inv_bind_as Hb ci Hci. inv_bind_as Hb bi Hbi. inv_bind_as Hb co Hco.
  inv_bind_as Hb bo Hbo. inv_bind_as Hb l Hl. injection Hb as <-.
  inv_bind_as H' b0' Hb'. inv_bind_as H' h' Hh'. injection H' as E.
  inv_bind_as Hb' v' Hv'. inv_bind_as Hb' ci' Hci'. inv_bind_as Hb' bi' Hbi'. inv_bind_as Hb' co' Hco'.
  inv_bind_as Hb' bo' Hbo'. inv_bind_as Hb' l' Hl'. injection Hb' as <-.
  assert (E0 : (v ++ ci ++ bi ++ co ++ bo ++ l) ++ h ++ [] = (v' ++ ci' ++ bi' ++ co' ++ bo' ++ l') ++ h' ++ [])
    by (rewrite !app_nil_r; symmetry; exact E).
  clear E. rewrite <- !app_assoc in E0.
  destruct (write_le_pinj _ _ _ _ _ _ _ I I Hv Hv' E0) as [Ev E1].
  destruct (counted_pinj wf_in stream_txin in_key stream_txin_pinj _ _ _ _ _ _ _ _ W W' Hci Hci' Hbi Hbi' E1) as [Ei E2].
  destruct (counted_pinj any stream_txout (fun o => o) stream_txout_pinj _ _ _ _ _ _ _ _
              (Forall_any _) (Forall_any _) Hco Hco' Hbo Hbo' E2) as [Eo E3].
  destruct (write_le_pinj _ _ _ _ _ _ _ I I Hl Hl' E3) as [El E4].
  destruct (write_le_pinj _ _ _ _ _ _ _ I I Hh Hh' E4) as [Eh _].
  rewrite !map_id in Eo. unfold tx_key. cbn beta in *. rewrite Ev, Ei, Eo, El, Eh. auto.
Qed.

(* ---- 3. agreement on the committed fields, as a handful of facts ------------------------------------------ *)
Definition agree (sv : sigversion) (ht : N) (idx : nat) (c c' : sctx) : Prop :=
  forall fl, committed sv ht idx (has_output idx c) fl = true -> get idx fl c = get idx fl c'.

Definition keep_seq (ht : N) : bool := negb (ht_none ht) && negb (ht_single ht).
Definition live (sv : sigversion) (ht : N) (idx : nat) (c : sctx) : bool :=
  negb (match sv with SV_legacy => ht_single ht && negb (has_output idx c) | SV_bip143 => false end).

Definition same_at {A} (f : txin -> A) (c c' : sctx) (j : nat) : Prop :=
  option_map f (nth_error (tx_ins (sc_tx c)) j) = option_map f (nth_error (tx_ins (sc_tx c')) j).

Record facts (sv : sigversion) (ht : N) (idx : nat) (c c' : sctx) : Prop := mk_facts {
  fx_live : live sv ht idx c = true ->
    tx_version (sc_tx c) = tx_version (sc_tx c') /\ tx_lock (sc_tx c) = tx_lock (sc_tx c')
    /\ sc_code c = sc_code c'
    /\ (ht_acp ht = false -> length (tx_ins (sc_tx c)) = length (tx_ins (sc_tx c')))
    /\ (forall j, j = idx \/ ht_acp ht = false -> same_at ti_hash c c' j /\ same_at ti_index c c' j)
    /\ (forall j, j = idx \/ (ht_acp ht = false /\ keep_seq ht = true) -> same_at ti_seq c c' j);
  fx_amount : sv = SV_bip143 -> sc_amount c = sc_amount c';
  fx_outs : if ht_none ht then True
            else if ht_single ht then
              has_output idx c = has_output idx c'
              /\ nth_error (tx_outs (sc_tx c)) idx = nth_error (tx_outs (sc_tx c')) idx
            else tx_outs (sc_tx c) = tx_outs (sc_tx c') }.

Lemma in_field_same {A} (f : txin -> A) (wrap : A -> fval) c c' j :
  same_at f c c' j -> in_field f wrap c j = in_field f wrap c' j.
Proof.
  unfold same_at, in_field. destruct (nth_error _ j), (nth_error _ j); cbn; intros H; try discriminate; [|reflexivity].
  injection H as ->. reflexivity.
Qed.

Lemma same_of_in_field {A} (f : txin -> A) (wrap : A -> fval) c c' j :
  (forall a b, wrap a = wrap b -> a = b) -> (forall a, wrap a <> V_missing) ->
  in_field f wrap c j = in_field f wrap c' j -> same_at f c c' j.
Proof.
  intros Hi Hm. unfold same_at, in_field. destruct (nth_error _ j), (nth_error _ j); cbn; intros H.
  - f_equal. now apply Hi.
  - exfalso. exact (Hm _ H).
  - exfalso. symmetry in H. exact (Hm _ H).
  - reflexivity.
Qed.

Lemma nth_error_ext {A} (l l' : list A) : (forall j, nth_error l j = nth_error l' j) -> l = l'.
Proof.
  revert l'; induction l as [|x l IH]; intros [|x' l'] H.
  - reflexivity.
  - specialize (H O). discriminate.
  - specialize (H O). discriminate.
  - pose proof (H O) as H0. cbn in H0. injection H0 as ->. f_equal. apply IH. intros j. exact (H (S j)).
Qed.

Lemma txout_eta o : mk_txout (to_amount o) (to_script o) = o.
Proof. destruct o; reflexivity. Qed.

Lemma out_fields_nth c c' k :
  out_field to_amount V_n c k = out_field to_amount V_n c' k ->
  out_field to_script V_bytes c k = out_field to_script V_bytes c' k ->
  nth_error (tx_outs (sc_tx c)) k = nth_error (tx_outs (sc_tx c')) k.
Proof.
  unfold out_field. destruct (nth_error _ k) as [o|], (nth_error _ k) as [o'|]; intros H1 H2; try discriminate; [|reflexivity].
  injection H1 as H1. injection H2 as H2. rewrite <- (txout_eta o), <- (txout_eta o'), H1, H2. reflexivity.
Qed.

Lemma agree_facts sv ht idx c c' : agree sv ht idx c c' -> facts sv ht idx c c'.
Proof.
  intros H. unfold agree in H.
  assert (HL : live sv ht idx c = true -> forall fl, committed sv ht idx (has_output idx c) fl =
     match fl with
     | F_version | F_lock_time | F_script_code => true
     | F_in_count => negb (ht_acp ht)
     | F_prev_hash j | F_prev_index j => Nat.eqb j idx || negb (ht_acp ht)
     | F_sequence j => Nat.eqb j idx || (negb (ht_acp ht) && negb (ht_none ht) && negb (ht_single ht))
     | _ => committed sv ht idx (has_output idx c) fl
     end).
  { intros HLv fl. unfold committed. unfold live in HLv. destruct fl; try reflexivity; rewrite HLv; reflexivity. }
  split.
  - intros HLv. specialize (HL HLv).
    refine (conj _ (conj _ (conj _ (conj _ (conj _ _))))).
    + pose proof (H F_version) as X. rewrite HL in X. specialize (X eq_refl). cbn in X. congruence.
    + pose proof (H F_lock_time) as X. rewrite HL in X. specialize (X eq_refl). cbn in X. congruence.
    + pose proof (H F_script_code) as X. rewrite HL in X. specialize (X eq_refl). cbn in X. congruence.
    + intros Ha. pose proof (H F_in_count) as X. rewrite HL, Ha in X. specialize (X eq_refl). cbn in X. congruence.
    + intros j Hj.
      assert (Hc : Nat.eqb j idx || negb (ht_acp ht) = true).
      { destruct Hj as [Hj | Hj]; rewrite Hj; [rewrite Nat.eqb_refl; reflexivity|apply orb_true_r]. }
      split.
      * pose proof (H (F_prev_hash j)) as X. rewrite HL in X.
        specialize (X Hc). cbn in X. eapply same_of_in_field; [| |exact X]; congruence.
      * pose proof (H (F_prev_index j)) as X. rewrite HL in X.
        specialize (X Hc). cbn in X. eapply same_of_in_field; [| |exact X]; congruence.
    + intros j Hj. pose proof (H (F_sequence j)) as X. rewrite HL in X.
      assert (Hc : Nat.eqb j idx || (negb (ht_acp ht) && negb (ht_none ht) && negb (ht_single ht)) = true).
      { destruct Hj as [Hj | [Ha Hk]]; [rewrite Hj, Nat.eqb_refl; reflexivity|].
        unfold keep_seq in Hk. rewrite Ha. rewrite <- andb_assoc, Hk. apply orb_true_r. }
      specialize (X Hc). cbn in X. eapply same_of_in_field; [| |exact X]; congruence.
  - intros ->. pose proof (H F_spent_amount eq_refl) as X. cbn in X. congruence.
  - destruct (ht_none ht) eqn:Hn; [exact I|]. destruct (ht_single ht) eqn:Hs.
    + pose proof (H F_single_has_output) as X. unfold committed in X. rewrite Hs in X. specialize (X eq_refl).
      unfold get in X. assert (X' : has_output idx c = has_output idx c') by (unfold has_output; congruence).
      clear X. split; [exact X'|].
      pose proof (H (F_out_amount idx)) as X1. pose proof (H (F_out_script idx)) as X2.
      unfold committed in X1, X2. rewrite Hn, Hs, Nat.eqb_refl in X1, X2.
      destruct (has_output idx c) eqn:Ho.
      * apply out_fields_nth; [exact (X1 eq_refl)|exact (X2 eq_refl)].
      * symmetry in X'. unfold has_output in Ho, X'. apply Nat.ltb_ge in Ho, X'.
        apply nth_error_None in Ho, X'. now rewrite Ho, X'.
    + apply nth_error_ext. intros k.
      pose proof (H (F_out_amount k)) as X1. pose proof (H (F_out_script k)) as X2.
      unfold committed in X1, X2. rewrite Hn, Hs in X1, X2.
      apply out_fields_nth; [exact (X1 eq_refl)|exact (X2 eq_refl)].
Qed.

Lemma none_single_excl ht : ht_none ht = true -> ht_single ht = false.
Proof. unfold ht_none, ht_single. intros H. apply N.eqb_eq in H. rewrite H. reflexivity. Qed.

Lemma facts_agree sv ht idx c c' : facts sv ht idx c c' -> agree sv ht idx c c'.
Proof.
  intros [FL FA FO] fl Hc.
  assert (HLv : forall b, committed sv ht idx (has_output idx c) fl = live sv ht idx c && b ->
                live sv ht idx c = true /\ b = true).
  { intros b E. rewrite E in Hc. apply andb_prop in Hc. exact Hc. }
  destruct fl.
  - destruct (HLv true) as [L _]; [unfold committed, live; now rewrite andb_true_r|].
    destruct (FL L) as (E & _). cbn. now rewrite E.
  - destruct (HLv true) as [L _]; [unfold committed, live; now rewrite andb_true_r|].
    destruct (FL L) as (_ & E & _). cbn. now rewrite E.
  - destruct (HLv (negb (ht_acp ht))) as [L B]; [reflexivity|].
    destruct (FL L) as (_ & _ & _ & E & _). cbn. rewrite E; [reflexivity|]. now destruct (ht_acp ht).
  - unfold committed in Hc. apply andb_prop in Hc. destruct Hc as [Hn Hs].
    apply negb_true_iff in Hn, Hs. rewrite Hn, Hs in FO. cbn. now rewrite FO.
  - unfold committed in Hc. pose proof Hc as Hs.
    destruct (ht_none ht) eqn:Hn; [apply none_single_excl in Hn; congruence|].
    rewrite Hs in FO. destruct FO as [E _]. unfold get. unfold has_output in E. now rewrite E.
  - destruct (HLv (Nat.eqb j idx || negb (ht_acp ht))) as [L B]; [reflexivity|].
    destruct (FL L) as (_ & _ & _ & _ & E & _). cbn. apply in_field_same. apply E.
    apply orb_prop in B. destruct B as [B|B]; [left; now apply Nat.eqb_eq|right; now apply negb_true_iff].
  - destruct (HLv (Nat.eqb j idx || negb (ht_acp ht))) as [L B]; [reflexivity|].
    destruct (FL L) as (_ & _ & _ & _ & E & _). cbn. apply in_field_same. apply E.
    apply orb_prop in B. destruct B as [B|B]; [left; now apply Nat.eqb_eq|right; now apply negb_true_iff].
  - destruct (HLv (Nat.eqb j idx || (negb (ht_acp ht) && negb (ht_none ht) && negb (ht_single ht)))) as [L B]; [reflexivity|].
    destruct (FL L) as (_ & _ & _ & _ & _ & E). cbn. apply in_field_same. apply E.
    apply orb_prop in B. destruct B as [B|B]; [left; now apply Nat.eqb_eq|right].
    unfold keep_seq. rewrite <- andb_assoc in B. apply andb_prop in B. destruct B as [B1 B2].
    split; [now apply negb_true_iff|exact B2].
  - unfold committed in Hc. cbn. unfold out_field.
    destruct (ht_none ht); [discriminate|]. destruct (ht_single ht).
    + apply andb_prop in Hc. destruct Hc as [Hk _]. apply Nat.eqb_eq in Hk. subst k.
      destruct FO as [_ E]. now rewrite E.
    + now rewrite FO.
  - unfold committed in Hc. cbn. unfold out_field.
    destruct (ht_none ht); [discriminate|]. destruct (ht_single ht).
    + apply andb_prop in Hc. destruct Hc as [Hk _]. apply Nat.eqb_eq in Hk. subst k.
      destruct FO as [_ E]. now rewrite E.
    + now rewrite FO.
  - destruct (HLv true) as [L _]; [unfold committed, live; now rewrite andb_true_r|].
    destruct (FL L) as (_ & _ & E & _). cbn. now rewrite E.
  - unfold committed in Hc. destruct sv; [discriminate|]. cbn. now rewrite (FA eq_refl).
  - discriminate Hc.
  - discriminate Hc.
Qed.

Lemma agree_iff_facts sv ht idx c c' : agree sv ht idx c c' <-> facts sv ht idx c c'.
Proof. split; [apply agree_facts|apply facts_agree]. Qed.

(* ---- 4. legacy: the temporary transaction in closed form ---------------------------------------------------- *)
Lemma mapi_ext_fun {A B} (f g : nat -> A -> B) i l : (forall k x, f k x = g k x) -> mapi f i l = mapi g i l.
Proof. intros H. revert i; induction l as [|x l IH]; intros i; cbn; [reflexivity|]. now rewrite H, IH. Qed.

Lemma mapi_mapi {A B C} (f : nat -> A -> B) (g : nat -> B -> C) i l :
  mapi g i (mapi f i l) = mapi (fun k x => g k (f k x)) i l.
Proof. revert i; induction l as [|x l IH]; intros i; cbn; [reflexivity|]. now rewrite IH. Qed.

Lemma nth_error_mapi {A B} (f : nat -> A -> B) i l j :
  nth_error (mapi f i l) j = option_map (f (i + j)%nat) (nth_error l j).
Proof.
  revert i j; induction l as [|x l IH]; intros i [|j]; cbn; try reflexivity.
  - now rewrite Nat.add_0_r.
  - rewrite IH. now rewrite Nat.add_succ_r.
Qed.

Lemma mapi_length {A B} (f : nat -> A -> B) i l : length (mapi f i l) = length l.
Proof. revert i; induction l as [|x l IH]; intros i; cbn; [reflexivity|]. now rewrite IH. Qed.

Lemma Forall_mapi {A B} (P : A -> Prop) (Q : B -> Prop) (f : nat -> A -> B) i l :
  (forall k x, P x -> Q (f k x)) -> Forall P l -> Forall Q (mapi f i l).
Proof. intros H HF. revert i; induction HF; intros i; cbn; constructor; auto. Qed.

Definition tmp_in (sc : bytes) (idx : nat) (ks : bool) (j : nat) (x : txin) : txin :=
  mk_txin (ti_hash x) (ti_index x) (if Nat.eqb j idx then sc else []) []
          (if Nat.eqb j idx || ks then ti_seq x else 0).

Definition tmp_outs (ht : N) (idx : nat) (outs : list txout) : option (list txout) :=
  if ht_none ht then Some []
  else if ht_single ht then
    match nth_error outs idx with None => None | Some o => Some (repeat blank_txout idx ++ [o]) end
  else Some outs.

Definition tmp_pick (ht : N) (idx : nat) (ins : list txin) : outcome (list txin) :=
  if ht_acp ht then match nth_error ins idx with Some x => Ret [x] | None => Raise E_INDEX end
  else Ret ins.

Lemma legacy_tmp_tx_eq t sc idx ht :
  legacy_tmp_tx t sc idx ht =
  match tmp_outs ht idx (tx_outs t) with
  | None => Ret LM_one
  | Some outs =>
    match tmp_pick ht idx (mapi (tmp_in sc idx (keep_seq ht)) 0 (tx_ins t)) with
    | Ret ins => Ret (LM_tx (mk_tx (tx_version t) ins outs (tx_lock t)))
    | Raise e => Raise e
    | OutOfFuel => OutOfFuel
    end
  end.
Proof.
  unfold legacy_tmp_tx, tmp_outs, tmp_pick, keep_seq.
  change (is_acp ht) with (ht_acp ht).
  change (N.land ht gen06_mask_legacy =? gen06_sighash_none) with (ht_none ht).
  change (N.land ht gen06_mask_legacy =? gen06_sighash_single) with (ht_single ht).
  assert (Z : forall l, mapi (zero_other_sequence idx) 0 (mapi (tx_in_for_idx sc idx) 0 l) = mapi (tmp_in sc idx false) 0 l).
  { intros l. rewrite mapi_mapi. apply mapi_ext_fun. intros k x.
    unfold zero_other_sequence, tx_in_for_idx, tmp_in. destruct (Nat.eqb k idx); reflexivity. }
  assert (K : forall l, mapi (tx_in_for_idx sc idx) 0 l = mapi (tmp_in sc idx true) 0 l).
  { intros l. apply mapi_ext_fun. intros k x. unfold tx_in_for_idx, tmp_in.
    destruct (Nat.eqb k idx); reflexivity. }
  destruct (ht_none ht) eqn:Hn.
  - rewrite Z. cbn [negb andb]. destruct (ht_acp ht); [|reflexivity].
    destruct (nth_error _ idx); reflexivity.
  - destruct (ht_single ht) eqn:Hs.
    + destruct (nth_error (tx_outs t) idx); [|reflexivity]. rewrite Z. cbn [negb andb].
      destruct (ht_acp ht); [|reflexivity]. destruct (nth_error _ idx); reflexivity.
    + rewrite K. cbn [negb andb]. destruct (ht_acp ht); [|reflexivity]. destruct (nth_error _ idx); reflexivity.
Qed.

Lemma tmp_outs_live ht idx c l :
  tmp_outs ht idx (tx_outs (sc_tx c)) = Some l -> live SV_legacy ht idx c = true.
Proof.
  unfold tmp_outs, live, has_output. destruct (ht_none ht) eqn:Hn.
  - apply none_single_excl in Hn. now rewrite Hn.
  - destruct (ht_single ht); [|reflexivity].
    destruct (nth_error _ idx) eqn:E; [|discriminate]. intros _.
    assert (idx < length (tx_outs (sc_tx c)))%nat by (apply nth_error_Some; congruence).
    apply Nat.ltb_lt in H. now rewrite H.
Qed.

Lemma tmp_outs_facts ht idx c c' :
  facts SV_legacy ht idx c c' -> tmp_outs ht idx (tx_outs (sc_tx c)) = tmp_outs ht idx (tx_outs (sc_tx c')).
Proof.
  intros [_ _ FO]. unfold tmp_outs. destruct (ht_none ht); [reflexivity|]. destruct (ht_single ht).
  - destruct FO as [_ E]. now rewrite E.
  - now rewrite FO.
Qed.

(* the inputs of the temporary transaction agree wherever the facts say so *)
Lemma tmp_in_same ht idx c c' j :
  sc_code c = sc_code c' ->
  same_at ti_hash c c' j -> same_at ti_index c c' j ->
  (Nat.eqb j idx || keep_seq ht = true -> same_at ti_seq c c' j) ->
  nth_error (mapi (tmp_in (sc_code c) idx (keep_seq ht)) 0 (tx_ins (sc_tx c))) j
  = nth_error (mapi (tmp_in (sc_code c') idx (keep_seq ht)) 0 (tx_ins (sc_tx c'))) j.
Proof.
  intros Esc Eh Ei Es. rewrite !nth_error_mapi. cbn [plus]. unfold same_at in *.
  destruct (nth_error (tx_ins (sc_tx c)) j) as [x|], (nth_error (tx_ins (sc_tx c')) j) as [x'|];
    cbn in *; try discriminate; [|reflexivity].
  injection Eh as Eh. injection Ei as Ei. unfold tmp_in. rewrite Eh, Ei, Esc. f_equal. f_equal.
  destruct (Nat.eqb j idx || keep_seq ht); [|reflexivity]. specialize (Es eq_refl). now injection Es.
Qed.

Lemma legacy_invariant ht idx c c' :
  facts SV_legacy ht idx c c' ->
  legacy_tmp_tx (sc_tx c) (sc_code c) idx ht = legacy_tmp_tx (sc_tx c') (sc_code c') idx ht.
Proof.
  intros F. rewrite !legacy_tmp_tx_eq. rewrite <- (tmp_outs_facts _ _ _ _ F).
  destruct (tmp_outs ht idx (tx_outs (sc_tx c))) as [l|] eqn:TO; [|reflexivity].
  destruct F as [FL _ _]. destruct (FL (tmp_outs_live _ _ _ _ TO)) as (Ev & El & Esc & Elen & Eho & Eseq).
  rewrite Ev, El.
  assert (X : forall j, j = idx \/ ht_acp ht = false ->
    nth_error (mapi (tmp_in (sc_code c) idx (keep_seq ht)) 0 (tx_ins (sc_tx c))) j
    = nth_error (mapi (tmp_in (sc_code c') idx (keep_seq ht)) 0 (tx_ins (sc_tx c'))) j).
  { intros j Hj. destruct (Eho j Hj) as [Eh Ei]. apply tmp_in_same; auto.
    intros B. apply Eseq. apply orb_prop in B. destruct B as [B|B]; [left; now apply Nat.eqb_eq|].
    destruct Hj as [Hj|Hj]; [now left|right; auto]. }
  unfold tmp_pick. destruct (ht_acp ht) eqn:Ha.
  - rewrite (X idx (or_introl eq_refl)). reflexivity.
  - rewrite (nth_error_ext _ _ (fun j => X j (or_intror eq_refl))). reflexivity.
Qed.

Lemma same_from_keys idx ks c c' j :
  option_map in_key (nth_error (mapi (tmp_in (sc_code c) idx ks) 0 (tx_ins (sc_tx c))) j)
  = option_map in_key (nth_error (mapi (tmp_in (sc_code c') idx ks) 0 (tx_ins (sc_tx c'))) j) ->
  same_at ti_hash c c' j /\ same_at ti_index c c' j
  /\ (Nat.eqb j idx || ks = true -> same_at ti_seq c c' j)
  /\ (j = idx -> (idx < length (tx_ins (sc_tx c)))%nat -> sc_code c = sc_code c').
Proof.
  rewrite !nth_error_mapi. cbn [plus]. unfold same_at.
  destruct (nth_error (tx_ins (sc_tx c)) j) as [x|] eqn:E, (nth_error (tx_ins (sc_tx c')) j) as [x'|] eqn:E';
    cbn; intros H; try discriminate.
  - injection H as Eh Ei Es Eq. rewrite Eh, Ei. repeat split; auto.
    + intros B. rewrite B in Eq. now rewrite Eq.
    + intros -> _. rewrite Nat.eqb_refl in Es. exact Es.
  - repeat split; auto. intros -> L. apply nth_error_None in E. lia.
Qed.

Lemma tmp_pick_wf ht idx ins l : Forall wf_in ins -> tmp_pick ht idx ins = Ret l -> Forall wf_in l.
Proof.
  unfold tmp_pick. intros W. destruct (ht_acp ht).
  - destruct (nth_error ins idx) eqn:E; [|discriminate]. intros H; injection H as <-.
    constructor; [|constructor]. rewrite Forall_forall in W. apply W. eapply nth_error_In; eauto.
  - intros H; injection H as <-. exact W.
Qed.

Lemma tmp_ins_wf sc idx ks ins : Forall wf_in ins -> Forall wf_in (mapi (tmp_in sc idx ks) 0 ins).
Proof. apply Forall_mapi. intros k x H. exact H. Qed.

Lemma tmp_outs_inj ht idx c c' l :
  tmp_outs ht idx (tx_outs (sc_tx c)) = Some l -> tmp_outs ht idx (tx_outs (sc_tx c')) = Some l ->
  if ht_none ht then True
  else if ht_single ht then
    has_output idx c = has_output idx c' /\ nth_error (tx_outs (sc_tx c)) idx = nth_error (tx_outs (sc_tx c')) idx
  else tx_outs (sc_tx c) = tx_outs (sc_tx c').
Proof.
  unfold tmp_outs, has_output. destruct (ht_none ht); [auto|]. destruct (ht_single ht).
  - destruct (nth_error (tx_outs (sc_tx c)) idx) as [o|] eqn:E; [|discriminate].
    destruct (nth_error (tx_outs (sc_tx c')) idx) as [o'|] eqn:E'; [|discriminate].
    intros H H'. rewrite <- H in H'. injection H' as H'. apply app_inv_head in H'. injection H' as ->.
    split; [|reflexivity].
    assert (idx < length (tx_outs (sc_tx c)))%nat by (apply nth_error_Some; congruence).
    assert (idx < length (tx_outs (sc_tx c')))%nat by (apply nth_error_Some; congruence).
    apply Nat.ltb_lt in H0, H1. now rewrite H0, H1.
  - intros H H'. congruence.
Qed.

Lemma tmp_outs_none ht idx c :
  tmp_outs ht idx (tx_outs (sc_tx c)) = None ->
  ht_none ht = false /\ ht_single ht = true /\ has_output idx c = false
  /\ nth_error (tx_outs (sc_tx c)) idx = None.
Proof.
  unfold tmp_outs, has_output. destruct (ht_none ht); [discriminate|]. destruct (ht_single ht); [|discriminate].
  destruct (nth_error _ idx) eqn:E; [discriminate|]. intros _. repeat split; auto.
  apply nth_error_None in E. now apply Nat.ltb_ge.
Qed.

Lemma legacy_injective ht idx c c' o :
  wf_tx (sc_tx c) -> wf_tx (sc_tx c') ->
  (idx < length (tx_ins (sc_tx c)))%nat -> (idx < length (tx_ins (sc_tx c')))%nat ->
  legacy_fed_of (sc_tx c) (sc_code c) idx ht = Ret o ->
  legacy_fed_of (sc_tx c') (sc_code c') idx ht = Ret o ->
  facts SV_legacy ht idx c c'.
Proof.
  intros W W' L L' H H'. unfold legacy_fed_of in H, H'. rewrite legacy_tmp_tx_eq in H, H'.
  destruct (tmp_outs ht idx (tx_outs (sc_tx c))) as [l|] eqn:TO;
  destruct (tmp_outs ht idx (tx_outs (sc_tx c'))) as [l'|] eqn:TO'.
  - destruct (tmp_pick ht idx (mapi (tmp_in (sc_code c) idx (keep_seq ht)) 0 (tx_ins (sc_tx c)))) as [l0| |] eqn:P;
      cbn [bind] in H; try discriminate.
    destruct (tmp_pick ht idx (mapi (tmp_in (sc_code c') idx (keep_seq ht)) 0 (tx_ins (sc_tx c')))) as [l0'| |] eqn:P';
      cbn [bind] in H'; try discriminate.
    inv_bind_as H b Hb. injection H as <-. inv_bind_as H' b' Hb'. injection H' as <-.
    assert (W0 : wf_tx (mk_tx (tx_version (sc_tx c)) l0 l (tx_lock (sc_tx c)))).
    { unfold wf_tx; cbn. eapply tmp_pick_wf; [|exact P]. now apply tmp_ins_wf. }
    assert (W0' : wf_tx (mk_tx (tx_version (sc_tx c')) l0' l' (tx_lock (sc_tx c')))).
    { unfold wf_tx; cbn. eapply tmp_pick_wf; [|exact P']. now apply tmp_ins_wf. }
    destruct (hash_input_inj _ _ _ _ _ W0 W0' Hb Hb') as [K _].
    unfold tx_key in K; cbn [tx_version tx_ins tx_outs tx_lock] in K. injection K as Ev Ei Eo El. subst l'.
    assert (Y : forall j, j = idx \/ ht_acp ht = false ->
      option_map in_key (nth_error (mapi (tmp_in (sc_code c) idx (keep_seq ht)) 0 (tx_ins (sc_tx c))) j)
      = option_map in_key (nth_error (mapi (tmp_in (sc_code c') idx (keep_seq ht)) 0 (tx_ins (sc_tx c'))) j)).
    { intros j Hj. unfold tmp_pick in P, P'. destruct (ht_acp ht) eqn:Ha.
      - destruct Hj as [->|Hj]; [|discriminate].
        destruct (nth_error _ idx) as [x0|]; [|discriminate]. injection P as <-.
        destruct (nth_error _ idx) as [x0'|]; [|discriminate]. injection P' as <-.
        cbn [map] in Ei. cbn [option_map]. congruence.
      - injection P as <-. injection P' as <-. rewrite <- !nth_error_map. now rewrite Ei. }
    constructor.
    + intros _. refine (conj Ev (conj El (conj _ (conj _ (conj _ _))))).
      * destruct (same_from_keys _ _ _ _ _ (Y idx (or_introl eq_refl))) as (_ & _ & _ & S). now apply S.
      * intros Ha. unfold tmp_pick in P, P'. rewrite Ha in P, P'. injection P as <-. injection P' as <-.
        apply (f_equal (@length _)) in Ei. now rewrite !map_length, !mapi_length in Ei.
      * intros j Hj. destruct (same_from_keys _ _ _ _ _ (Y j Hj)) as (S1 & S2 & _). auto.
      * intros j Hj.
        assert (Hj' : j = idx \/ ht_acp ht = false) by (destruct Hj as [Hj|[Hj _]]; auto).
        destruct (same_from_keys _ _ _ _ _ (Y j Hj')) as (_ & _ & S & _). apply S.
        destruct Hj as [->|[_ Hk]]; [now rewrite Nat.eqb_refl|rewrite Hk; apply orb_true_r].
    + discriminate.
    + exact (tmp_outs_inj _ _ _ _ _ TO TO').
  - exfalso. destruct (tmp_pick ht idx _) as [l0| |]; cbn [bind] in H; try discriminate.
    inv_bind_as H b Hb. cbn [bind] in H'. congruence.
  - exfalso. destruct (tmp_pick ht idx _) as [l0| |]; cbn [bind] in H'; try discriminate.
    inv_bind_as H' b Hb. cbn [bind] in H. congruence.
  - destruct (tmp_outs_none _ _ _ TO) as (Hn & Hs & Ho & En).
    destruct (tmp_outs_none _ _ _ TO') as (_ & _ & Ho' & En').
    constructor.
    + unfold live. rewrite Hs, Ho. discriminate.
    + discriminate.
    + rewrite Hn, Hs. split; congruence.
Qed.

(* ---- 5. BIP143 --------------------------------------------------------------------------------------------- *)
Lemma same_at_of_map {A} (f : txin -> A) c c' :
  map f (tx_ins (sc_tx c)) = map f (tx_ins (sc_tx c')) -> forall j, same_at f c c' j.
Proof. intros H j. unfold same_at. rewrite <- !nth_error_map. now rewrite H. Qed.

Lemma same_at_some {A} (f : txin -> A) c c' j x x' :
  same_at f c c' j -> nth_error (tx_ins (sc_tx c)) j = Some x -> nth_error (tx_ins (sc_tx c')) j = Some x' -> f x = f x'.
Proof. unfold same_at. intros H E E'. rewrite E, E' in H. cbn in H. now injection H. Qed.

Lemma seq_none_iff ht :
  (is_acp ht || (N.land ht gen06_mask_sequence =? gen06_sighash_single)
   || (N.land ht gen06_mask_sequence =? gen06_sighash_none)) = negb (negb (ht_acp ht) && keep_seq ht).
Proof.
  change (is_acp ht) with (ht_acp ht).
  change (N.land ht gen06_mask_sequence =? gen06_sighash_single) with (ht_single ht).
  change (N.land ht gen06_mask_sequence =? gen06_sighash_none) with (ht_none ht).
  unfold keep_seq. destruct (ht_acp ht), (ht_single ht), (ht_none ht); reflexivity.
Qed.

Lemma segwit_invariant ht idx c c' :
  facts SV_bip143 ht idx c c' ->
  segwit_fed_of (sc_tx c) (sc_code c) (sc_amount c) idx ht
  = segwit_fed_of (sc_tx c') (sc_code c') (sc_amount c') idx ht.
Proof.
  intros [FL FA FO]. destruct (FL eq_refl) as (Ev & El & Esc & Elen & Eho & Eseq). specialize (FA eq_refl).
  assert (P : prevouts_blob (sc_tx c) ht = prevouts_blob (sc_tx c') ht).
  { unfold prevouts_blob. change (is_acp ht) with (ht_acp ht). destruct (ht_acp ht) eqn:Ha; [reflexivity|].
    rewrite (concatM_ext prevout_entry prevout_entry (tx_ins (sc_tx c)) (tx_ins (sc_tx c'))); auto.
    intros j x x' E E'. destruct (Eho j (or_intror eq_refl)) as [S1 S2]. unfold prevout_entry.
    now rewrite (same_at_some _ _ _ _ _ _ S1 E E'), (same_at_some _ _ _ _ _ _ S2 E E'). }
  assert (S : sequences_blob (sc_tx c) ht = sequences_blob (sc_tx c') ht).
  { unfold sequences_blob. rewrite seq_none_iff.
    destruct (ht_acp ht) eqn:Ha; [reflexivity|]. destruct (keep_seq ht) eqn:Hk; [|reflexivity]. cbn [negb andb].
    rewrite (concatM_ext sequence_entry sequence_entry (tx_ins (sc_tx c)) (tx_ins (sc_tx c'))); auto.
    intros j x x' E E'. unfold sequence_entry.
    now rewrite (same_at_some _ _ _ _ _ _ (Eseq j (or_intror (conj eq_refl eq_refl))) E E'). }
  assert (O : outputs_blob (sc_tx c) ht idx = outputs_blob (sc_tx c') ht idx).
  { unfold outputs_blob.
    change (N.land ht gen06_mask_outputs =? gen06_sighash_single) with (ht_single ht).
    change (N.land ht gen06_mask_outputs =? gen06_sighash_none) with (ht_none ht).
    destruct (ht_none ht) eqn:Hn.
    - rewrite (none_single_excl _ Hn). reflexivity.
    - destruct (ht_single ht).
      + destruct FO as [_ E]. now rewrite E.
      + now rewrite FO. }
  unfold segwit_fed_of. rewrite Ev, P, S, O, Esc, FA, El.
  destruct (Eho idx (or_introl eq_refl)) as [S1 S2]. pose proof (Eseq idx (or_introl eq_refl)) as S3.
  unfold same_at in S1, S2, S3.
  destruct (nth_error (tx_ins (sc_tx c)) idx) as [x|], (nth_error (tx_ins (sc_tx c')) idx) as [x'|];
    cbn in S1, S2, S3; try discriminate; [|reflexivity].
  injection S1 as ->. injection S2 as ->. injection S3 as ->. reflexivity.
Qed.

Lemma segwit_injective ht idx c c' f :
  wf_tx (sc_tx c) -> wf_tx (sc_tx c') ->
  segwit_fed_of (sc_tx c) (sc_code c) (sc_amount c) idx ht = Ret f ->
  segwit_fed_of (sc_tx c') (sc_code c') (sc_amount c') idx ht = Ret f ->
  facts SV_bip143 ht idx c c'.
Proof.
  intros W W' H H'. unfold segwit_fed_of in H, H'.
  inv_bind_as H v Hv. inv_bind_as H hp Hhp. inv_bind_as H hs Hhs.
  destruct (nth_error (tx_ins (sc_tx c)) idx) as [x|] eqn:Ex; [|discriminate].
  inv_bind_as H pi Hpi. inv_bind_as H sc Hsc. inv_bind_as H am Ham. inv_bind_as H sq Hsq.
  inv_bind_as H ho Hho. inv_bind_as H lk Hlt. inv_bind_as H hb Hhb. injection H as <-.
  inv_bind_as H' v' Hv'. inv_bind_as H' hp' Hhp'. inv_bind_as H' hs' Hhs'.
  destruct (nth_error (tx_ins (sc_tx c')) idx) as [x'|] eqn:Ex'; [|discriminate].
  inv_bind_as H' pi' Hpi'. inv_bind_as H' sc' Hsc'. inv_bind_as H' am' Ham'. inv_bind_as H' sq' Hsq'.
  inv_bind_as H' ho' Hho'. inv_bind_as H' lk' Hlt'. inv_bind_as H' hb' Hhb'.
  injection H' as Ehd Ehp Ehs Emid Eho Etl. subst v' hp' hs' ho'.
  (* head, mid, tail *)
  assert (Ev : tx_version (sc_tx c) = tx_version (sc_tx c')).
  { assert (E : v ++ [] = v ++ []) by reflexivity.
    now destruct (write_le_pinj _ _ _ _ _ _ _ I I Hv Hv' E). }
  assert (El : tx_lock (sc_tx c) = tx_lock (sc_tx c')).
  { rewrite <- (app_nil_r (lk' ++ hb')), <- (app_nil_r (lk ++ hb)) in Etl. rewrite <- !app_assoc in Etl.
    symmetry in Etl. now destruct (write_le_pinj _ _ _ _ _ _ _ I I Hlt Hlt' Etl). }
  assert (Wx : wf_in x) by (unfold wf_tx in W; rewrite Forall_forall in W; apply W; eapply nth_error_In; eauto).
  assert (Wx' : wf_in x') by (unfold wf_tx in W'; rewrite Forall_forall in W'; apply W'; eapply nth_error_In; eauto).
  assert (Em : ti_hash x = ti_hash x' /\ ti_index x = ti_index x' /\ sc_code c = sc_code c'
               /\ sc_amount c = sc_amount c' /\ ti_seq x = ti_seq x').
  { rewrite <- (app_nil_r (ti_hash x' ++ _)), <- (app_nil_r (ti_hash x ++ _)) in Emid. rewrite <- !app_assoc in Emid.
    symmetry in Emid. apply app_inj_len in Emid; [|unfold wf_in in *; lia]. destruct Emid as [Eh E2].
    destruct (write_le_pinj _ _ _ _ _ _ _ I I Hpi Hpi' E2) as [Ei E3].
    destruct (varstr_pinj _ _ _ _ _ _ I I Hsc Hsc' E3) as [Es E4].
    destruct (write_le_pinj _ _ _ _ _ _ _ I I Ham Ham' E4) as [Ea E5].
    destruct (write_le_pinj _ _ _ _ _ _ _ I I Hsq Hsq' E5) as [Eq _]. auto. }
  destruct Em as (Eh & Ei & Esc & Ea & Eq).
  assert (Own : forall {A} (g : txin -> A), g x = g x' -> same_at g c c' idx).
  { intros A g Hg. unfold same_at. rewrite Ex, Ex'. cbn. now rewrite Hg. }
  constructor.
  - intros _. refine (conj Ev (conj El (conj Esc (conj _ (conj _ _))))).
    + intros Ha. unfold prevouts_blob in Hhp, Hhp'. change (is_acp ht) with (ht_acp ht) in Hhp, Hhp'.
      rewrite Ha in Hhp, Hhp'. inv_bind_as Hhp b Hb. injection Hhp as <-. inv_bind_as Hhp' b' Hb'.
      injection Hhp' as <-.
      pose proof (concatM_inj_whole wf_in prevout_entry outpoint_key prevout_entry_pinj prevout_entry_nonempty
                    _ _ _ W W' Hb Hb') as M.
      apply (f_equal (@length _)) in M. now rewrite !map_length in M.
    + intros j [->|Ha]; [split; apply Own; auto|].
      unfold prevouts_blob in Hhp, Hhp'. change (is_acp ht) with (ht_acp ht) in Hhp, Hhp'.
      rewrite Ha in Hhp, Hhp'. inv_bind_as Hhp b Hb. injection Hhp as <-. inv_bind_as Hhp' b' Hb'.
      injection Hhp' as <-.
      pose proof (concatM_inj_whole wf_in prevout_entry outpoint_key prevout_entry_pinj prevout_entry_nonempty
                    _ _ _ W W' Hb Hb') as M.
      split.
      * apply (same_at_of_map ti_hash). apply (f_equal (map fst)) in M. now rewrite !map_map in M.
      * apply (same_at_of_map ti_index). apply (f_equal (map snd)) in M. now rewrite !map_map in M.
    + intros j [->|[Ha Hk]]; [apply Own; auto|].
      unfold sequences_blob in Hhs, Hhs'. rewrite seq_none_iff, Ha, Hk in Hhs, Hhs'. cbn [negb andb] in Hhs, Hhs'.
      inv_bind_as Hhs b Hb. injection Hhs as <-. inv_bind_as Hhs' b' Hb'. injection Hhs' as <-.
      apply (same_at_of_map ti_seq).
      exact (concatM_inj_whole any sequence_entry ti_seq sequence_entry_pinj sequence_entry_nonempty
               _ _ _ (Forall_any _) (Forall_any _) Hb Hb').
  - intros _. exact Ea.
  - unfold outputs_blob in Hho, Hho'.
    change (N.land ht gen06_mask_outputs =? gen06_sighash_single) with (ht_single ht) in Hho, Hho'.
    change (N.land ht gen06_mask_outputs =? gen06_sighash_none) with (ht_none ht) in Hho, Hho'.
    destruct (ht_none ht) eqn:Hn; [exact I|]. destruct (ht_single ht) eqn:Hs.
    + unfold has_output.
      destruct (nth_error (tx_outs (sc_tx c)) idx) as [o|] eqn:Eo;
      destruct (nth_error (tx_outs (sc_tx c')) idx) as [o'|] eqn:Eo'.
      * inv_bind_as Hho b Hb. injection Hho as <-. inv_bind_as Hho' b' Hb'. injection Hho' as <-.
        pose proof (concatM_inj_whole any stream_txout (fun o => o) stream_txout_pinj stream_txout_nonempty
                      _ _ _ (Forall_any _) (Forall_any _) Hb Hb') as M.
        cbn in M. injection M as ->.
        assert (idx < length (tx_outs (sc_tx c)))%nat by (apply nth_error_Some; congruence).
        assert (idx < length (tx_outs (sc_tx c')))%nat by (apply nth_error_Some; congruence).
        apply Nat.ltb_lt in H, H0. now rewrite H, H0.
      * exfalso. inv_bind_as Hho b Hb. congruence.
      * exfalso. inv_bind_as Hho' b Hb. congruence.
      * apply nth_error_None in Eo, Eo'. apply Nat.ltb_ge in Eo, Eo'. now rewrite Eo, Eo'.
    + inv_bind_as Hho b Hb. injection Hho as <-. inv_bind_as Hho' b' Hb'. injection Hho' as <-.
      pose proof (concatM_inj_whole any stream_txout (fun o => o) stream_txout_pinj stream_txout_nonempty
                    _ _ _ (Forall_any _) (Forall_any _) Hb Hb') as M.
      now rewrite !map_id in M.
Qed.

(* ---- 6. the two directions, for both signature versions ------------------------------------------------------ *)
Definition in_range (idx : nat) (c : sctx) : Prop := (idx < length (tx_ins (sc_tx c)))%nat.
Definition wf_ctx (c : sctx) : Prop := wf_tx (sc_tx c).

Theorem commitment_injective sv ht idx c c' f :
  wf_ctx c -> wf_ctx c' -> in_range idx c -> in_range idx c' ->
  fed_of sv ht idx c = Ret f -> fed_of sv ht idx c' = Ret f ->
  agree sv ht idx c c'.
Proof.
  intros W W' L L' H H'. apply facts_agree. destruct sv; unfold fed_of in H, H'.
  - inv_bind_as H o Ho. inv_bind_as H' o' Ho'.
    assert (o = o') by (destruct o, o'; congruence). subst o'.
    eapply legacy_injective; eauto.
  - inv_bind_as H s Hs. inv_bind_as H' s' Hs'. assert (s = s') by congruence. subst s'.
    eapply segwit_injective; eauto.
Qed.

Theorem uncommitted_invariant sv ht idx c c' :
  agree sv ht idx c c' -> fed_of sv ht idx c = fed_of sv ht idx c'.
Proof.
  intros H. apply agree_facts in H. destruct sv; unfold fed_of.
  - unfold legacy_fed_of. now rewrite (legacy_invariant _ _ _ _ H).
  - now rewrite (segwit_invariant _ _ _ _ H).
Qed.

(* the hash type itself is part of what is hashed *)
Lemma fed_binds_hash_type sv ht ht' idx c c' f :
  wf_ctx c -> wf_ctx c' -> f <> Fed_none ->
  fed_of sv ht idx c = Ret f -> fed_of sv ht' idx c' = Ret f -> ht = ht'.
Proof.
  intros W W' NF H H'. destruct sv; unfold fed_of in H, H'.
  - inv_bind_as H o Ho. inv_bind_as H' o' Ho'.
    destruct o as [b|]; [|congruence]. destruct o' as [b'|]; [|congruence].
    assert (b = b') by congruence. subst b'.
    unfold legacy_fed_of in Ho, Ho'. rewrite legacy_tmp_tx_eq in Ho, Ho'.
    destruct (tmp_outs ht idx _) as [l|]; [|discriminate].
    destruct (tmp_outs ht' idx _) as [l'|]; [|discriminate].
    destruct (tmp_pick ht idx _) as [l0| |] eqn:P; cbn [bind] in Ho; try discriminate.
    destruct (tmp_pick ht' idx _) as [l0'| |] eqn:P'; cbn [bind] in Ho'; try discriminate.
    inv_bind_as Ho x Hx. injection Ho as ->. inv_bind_as Ho' x' Hx'. injection Ho' as ->.
    eapply hash_input_inj; [| |exact Hx|exact Hx'].
    + unfold wf_tx; cbn. eapply tmp_pick_wf; [|exact P]. now apply tmp_ins_wf.
    + unfold wf_tx; cbn. eapply tmp_pick_wf; [|exact P']. now apply tmp_ins_wf.
  - inv_bind_as H s Hs. inv_bind_as H' s' Hs'. assert (s = s') by congruence. subst s'.
    unfold segwit_fed_of in Hs, Hs'.
    inv_bind_as Hs v Hv. inv_bind_as Hs hp Hhp. inv_bind_as Hs hs Hhs.
    destruct (nth_error (tx_ins (sc_tx c)) idx) as [x|] eqn:Ex; [|discriminate].
    inv_bind_as Hs pi Hpi. inv_bind_as Hs sc Hsc. inv_bind_as Hs am Ham. inv_bind_as Hs sq Hsq.
    inv_bind_as Hs ho Hho. inv_bind_as Hs lk Hlt. inv_bind_as Hs hb Hhb. injection Hs as <-.
    inv_bind_as Hs' v' Hv'. inv_bind_as Hs' hp' Hhp'. inv_bind_as Hs' hs' Hhs'.
    destruct (nth_error (tx_ins (sc_tx c')) idx) as [x'|] eqn:Ex'; [|discriminate].
    inv_bind_as Hs' pi' Hpi'. inv_bind_as Hs' sc' Hsc'. inv_bind_as Hs' am' Ham'. inv_bind_as Hs' sq' Hsq'.
    inv_bind_as Hs' ho' Hho'. inv_bind_as Hs' lk' Hlt'. inv_bind_as Hs' hb' Hhb'.
    injection Hs' as _ _ _ _ _ Etl.
    rewrite <- (app_nil_r (lk' ++ hb')), <- (app_nil_r (lk ++ hb)) in Etl. rewrite <- !app_assoc in Etl.
    symmetry in Etl. destruct (write_le_pinj _ _ _ _ _ _ _ I I Hlt Hlt' Etl) as [_ E].
    now destruct (write_le_pinj _ _ _ _ _ _ _ I I Hhb Hhb' E).
Qed.

(* ---- 7. from equal digests to equal hash inputs, or an explicit hash anomaly ------------------------------------ *)
Lemma bytes_dec (a b : bytes) : a = b \/ a <> b.
Proof.
  destruct (bytes_eqb a b) eqn:E; [left; now apply bytes_eqb_eq|right].
  intros H. apply bytes_eqb_eq in H. congruence.
Qed.

Definition mid_key : Type := bytes * N * bytes * N * N.
Definition mid_enc (k : mid_key) : outcome bytes :=
  let '(h, i, sc, am, sq) := k in
  bind (stream_L i) (fun pi => bind (stream_varstr sc) (fun s => bind (stream_Q am) (fun a =>
  bind (stream_L sq) (fun q => Ret (h ++ pi ++ s ++ a ++ q))))).
Definition mid_wf (k : mid_key) : Prop := let '(h, _, _, _, _) := k in length h = 32%nat.

Lemma mid_enc_pinj : pinj mid_wf mid_enc (fun k => k).
Proof.
  intros [[[[h i] sc] am] sq] [[[[h' i'] sc'] am'] sq'] p p' r r' Q Q' H H' E. unfold mid_enc in H, H'.
  inv_bind_as H a Ha. inv_bind_as H s Hs. inv_bind_as H m Hm. inv_bind_as H q Hq. injection H as <-.
  inv_bind_as H' a' Ha'. inv_bind_as H' s' Hs'. inv_bind_as H' m' Hm'. inv_bind_as H' q' Hq'. injection H' as <-.
  rewrite <- !app_assoc in E. cbn in Q, Q'.
  apply app_inj_len in E; [|lia]. destruct E as [Eh E].
  destruct (write_le_pinj _ _ _ _ _ _ _ I I Ha Ha' E) as [Ei E1].
  destruct (varstr_pinj _ _ _ _ _ _ I I Hs Hs' E1) as [Es E2].
  destruct (write_le_pinj _ _ _ _ _ _ _ I I Hm Hm' E2) as [Em E3].
  destruct (write_le_pinj _ _ _ _ _ _ _ I I Hq Hq' E3) as [Eq E4].
  cbn beta in *. subst. auto.
Qed.

Lemma segwit_fed_shape t sc am idx ht s :
  segwit_fed_of t sc am idx ht = Ret s ->
  exists x lk hb, nth_error (tx_ins t) idx = Some x
    /\ stream_L (tx_version t) = Ret (sf_head s)
    /\ mid_enc (ti_hash x, ti_index x, sc, am, ti_seq x) = Ret (sf_mid s)
    /\ stream_L (tx_lock t) = Ret lk /\ stream_L ht = Ret hb /\ sf_tail s = lk ++ hb.
Proof.
  intros H. unfold segwit_fed_of in H.
  inv_bind_as H v Hv. inv_bind_as H hp Hhp. inv_bind_as H hs Hhs.
  destruct (nth_error (tx_ins t) idx) as [x|] eqn:Ex; [|discriminate].
  inv_bind_as H pi Hpi. inv_bind_as H s0 Hsc. inv_bind_as H a Ham. inv_bind_as H sq Hsq.
  inv_bind_as H ho Hho. inv_bind_as H lk Hlt. inv_bind_as H hb Hhb. injection H as <-.
  exists x, lk, hb. cbn. repeat split; auto.
  unfold mid_enc. rewrite Hpi, Hsc, Ham, Hsq. reflexivity.
Qed.

Section Digest.
Variable dsha256 : bytes -> bytes.
Hypothesis dsha256_len : forall x, length (dsha256 x) = 32%nat.

Definition opt_list (o : option bytes) : list bytes := match o with Some b => [b] | None => [] end.

(* every byte string that is hashed while the digest of f is computed *)
Definition feeds (f : fed) : list bytes :=
  match f with
  | Fed_none => []
  | Fed_legacy b => [b]
  | Fed_segwit s => segwit_assemble dsha256 s :: opt_list (sf_prevouts s) ++ opt_list (sf_sequences s)
                    ++ opt_list (sf_outputs s)
  end.

(* what has to be exhibited for two different hash inputs to give one digest: two distinct hashed strings with
   the same hash, or a hashed string whose hash is one of the two constants pycoin writes in place of a hash *)
Definition hash_anomaly (f f' : fed) : Prop :=
  (exists x y, In x (feeds f) /\ In y (feeds f') /\ x <> y /\ dsha256 x = dsha256 y)
  \/ (exists x, In x (feeds f ++ feeds f')
                /\ (dsha256 x = gen06_zero32 \/ dsha256 x = be_encode 32 single_value)).

Lemma sub_hash_length o : length (sub_hash dsha256 o) = 32%nat.
Proof. destruct o; cbn; [apply dsha256_len|reflexivity]. Qed.

Lemma sub_hash_inj o o' :
  sub_hash dsha256 o = sub_hash dsha256 o' ->
  o = o'
  \/ (exists x y, In x (opt_list o) /\ In y (opt_list o') /\ x <> y /\ dsha256 x = dsha256 y)
  \/ (exists x, In x (opt_list o ++ opt_list o') /\ dsha256 x = gen06_zero32).
Proof.
  destruct o as [b|], o' as [b'|]; cbn; intros H.
  - destruct (bytes_dec b b') as [->|N]; [now left|]. right; left. exists b, b'. cbn. auto.
  - right; right. exists b. cbn. auto.
  - right; right. exists b'. cbn. auto.
  - now left.
Qed.

Lemma segwit_assemble_inj t sc am t' sc' am' idx ht ht' s s' :
  wf_tx t -> wf_tx t' ->
  segwit_fed_of t sc am idx ht = Ret s -> segwit_fed_of t' sc' am' idx ht' = Ret s' ->
  segwit_assemble dsha256 s = segwit_assemble dsha256 s' ->
  s = s' \/ hash_anomaly (Fed_segwit s) (Fed_segwit s').
Proof.
  intros W W' H H' E.
  destruct (segwit_fed_shape _ _ _ _ _ _ H) as (x & lk & hb & Ex & Hv & Hm & Hlk & Hhb & Et).
  destruct (segwit_fed_shape _ _ _ _ _ _ H') as (x' & lk' & hb' & Ex' & Hv' & Hm' & Hlk' & Hhb' & Et').
  assert (Wx : wf_in x) by (unfold wf_tx in W; rewrite Forall_forall in W; apply W; eapply nth_error_In; eauto).
  assert (Wx' : wf_in x') by (unfold wf_tx in W'; rewrite Forall_forall in W'; apply W'; eapply nth_error_In; eauto).
  unfold segwit_assemble in E.
  apply app_inj_len in E; [|apply write_le_length in Hv, Hv'; unfold stream_L in *; lia]. destruct E as [E1 E].
  apply app_inj_len in E; [|now rewrite !sub_hash_length]. destruct E as [E2 E].
  apply app_inj_len in E; [|now rewrite !sub_hash_length]. destruct E as [E3 E].
  destruct (mid_enc_pinj (ti_hash x, ti_index x, sc, am, ti_seq x) (ti_hash x', ti_index x', sc', am', ti_seq x')
              _ _ _ _ Wx Wx' Hm Hm' E) as [Ek E'].
  assert (E4 : sf_mid s = sf_mid s') by (rewrite Ek in Hm; congruence).
  apply app_inj_len in E'; [|now rewrite !sub_hash_length]. destruct E' as [E5 E6].
  destruct (sub_hash_inj _ _ E2) as [P|P]; [|right].
  - destruct (sub_hash_inj _ _ E3) as [S|S]; [|right].
    + destruct (sub_hash_inj _ _ E5) as [O|O]; [|right].
      * left. destruct s, s'; cbn in *. congruence.
      * destruct O as [(a & b & Ia & Ib & N & C)|(a & Ia & C)].
        -- left. exists a, b. cbn [feeds]. repeat split; auto; right; rewrite !in_app_iff; auto.
        -- right. exists a. split; [|now left]. cbn [feeds]. rewrite in_app_iff in Ia. rewrite in_app_iff.
           destruct Ia as [Ia|Ia]; [left|right]; right; rewrite !in_app_iff; auto.
    + destruct S as [(a & b & Ia & Ib & N & C)|(a & Ia & C)].
      * left. exists a, b. cbn [feeds]. repeat split; auto; right; rewrite !in_app_iff; auto.
      * right. exists a. split; [|now left]. cbn [feeds]. rewrite in_app_iff in Ia. rewrite in_app_iff.
        destruct Ia as [Ia|Ia]; [left|right]; right; rewrite !in_app_iff; auto.
  - destruct P as [(a & b & Ia & Ib & N & C)|(a & Ia & C)].
    + left. exists a, b. cbn [feeds]. repeat split; auto; right; rewrite !in_app_iff; auto.
    + right. exists a. split; [|now left]. cbn [feeds]. rewrite in_app_iff in Ia. rewrite in_app_iff.
      destruct Ia as [Ia|Ia]; [left|right]; right; rewrite !in_app_iff; auto.
Qed.

Theorem digest_binds sv ht idx c c' f f' :
  wf_ctx c -> wf_ctx c' ->
  fed_of sv ht idx c = Ret f -> fed_of sv ht idx c' = Ret f' ->
  digest_of dsha256 f = digest_of dsha256 f' ->
  f = f' \/ hash_anomaly f f'.
Proof.
  intros W W' H H' D. destruct sv; unfold fed_of in H, H'.
  - inv_bind_as H o Ho. inv_bind_as H' o' Ho'. injection H as <-. injection H' as <-.
    destruct o as [b|], o' as [b'|]; cbn [digest_of] in D.
    + destruct (bytes_dec b b') as [->|N]; [now left|]. right; left. exists b, b'. cbn [feeds In]. auto.
    + right; right. exists b. cbn [feeds In app]. auto.
    + right; right. exists b'. cbn [feeds In app]. auto.
    + now left.
  - inv_bind_as H s Hs. inv_bind_as H' s' Hs'. injection H as <-. injection H' as <-. cbn [digest_of] in D.
    destruct (bytes_dec (segwit_assemble dsha256 s) (segwit_assemble dsha256 s')) as [E|N].
    + destruct (segwit_assemble_inj _ _ _ _ _ _ _ _ _ _ _ W W' Hs Hs' E) as [->|A]; auto.
    + right; left. exists (segwit_assemble dsha256 s), (segwit_assemble dsha256 s'). cbn [feeds In]. auto.
Qed.

Theorem digest_commits sv ht idx c c' f f' :
  wf_ctx c -> wf_ctx c' -> in_range idx c -> in_range idx c' ->
  fed_of sv ht idx c = Ret f -> fed_of sv ht idx c' = Ret f' ->
  digest_of dsha256 f = digest_of dsha256 f' ->
  agree sv ht idx c c' \/ hash_anomaly f f'.
Proof.
  intros W W' L L' H H' D.
  destruct (digest_binds _ _ _ _ _ _ _ W W' H H' D) as [<-|A]; [left|now right].
  eapply commitment_injective; eauto.
Qed.
End Digest.

(* ---- 8. validation entry points ------------------------------------------------------------------------------- *)
Section Validation.
Variable check : tx -> list (option txout) -> tx_context -> N -> outcome unit.

Definition unspent_unknown (unspents : list (option txout)) (idx : nat) : Prop :=
  nth_error unspents idx = None \/ nth_error unspents idx = Some None.

Lemma missing_never_valid t unspents idx flags :
  unspent_unknown unspents idx -> is_solution_ok check t unspents idx flags = Ret false.
Proof.
  unfold is_solution_ok, base_is_solution_ok. destruct (missing_unspent t unspents idx); [reflexivity|].
  intros [H|H]; now rewrite H.
Qed.

Lemma count_bad_ge t unspents flags idxs i n :
  In i idxs -> is_solution_ok check t unspents i flags = Ret false ->
  count_bad check t unspents flags idxs = Ret n -> (1 <= n)%nat.
Proof.
  revert n; induction idxs as [|k r IH]; intros n HI HF H; [destruct HI|].
  cbn [count_bad] in H. inv_bind_as H ok Hok. inv_bind_as H m Hm. injection H as <-.
  destruct HI as [->|HI].
  - rewrite HF in Hok. injection Hok as <-. lia.
  - specialize (IH m HI HF Hm). destruct ok; lia.
Qed.

Lemma missing_counted_bad t unspents idx flags n :
  tx_is_coinbase t = false -> (idx < length (tx_ins t))%nat -> unspent_unknown unspents idx ->
  bad_solution_count check t unspents flags = Ret n -> (1 <= n)%nat.
Proof.
  intros NC L U H. unfold bad_solution_count in H. rewrite NC in H.
  eapply count_bad_ge; [|apply missing_never_valid; exact U|exact H].
  apply in_seq. lia.
Qed.

(* with Tx.missing_unspent as the notion of "unknown" (short list, None, or a coinbase input) *)
Lemma missing_unspent_never_valid t unspents idx flags :
  missing_unspent t unspents idx = true -> is_solution_ok check t unspents idx flags = Ret false.
Proof. unfold is_solution_ok. now intros ->. Qed.

(* repeated validation: the model has no state, the verdict after any history is the verdict of the last state *)
Definition validate_history (hist : list (tx * list (option txout))) (idx : nat) (flags : N) : list (outcome bool) :=
  map (fun s => is_solution_ok check (fst s) (snd s) idx flags) hist.

Lemma history_is_fresh hist idx flags k t unspents :
  nth_error hist k = Some (t, unspents) ->
  nth_error (validate_history hist idx flags) k = Some (is_solution_ok check t unspents idx flags).
Proof. intros H. unfold validate_history. rewrite nth_error_map, H. reflexivity. Qed.
End Validation.

(* a coinbase input with a recorded unspent: missing_unspent is True, hence never valid (the recorded script used
   to be replaced by b"" and the checker's verdict returned; fixed in /repo a32303b) *)
Definition coinbase_witness_tx : tx :=
  mk_tx 1 [mk_txin gen06_coinbase_hash gen06_coinbase_index [x51] [] 4294967295] [mk_txout 50 [x51]] 0.

Lemma coinbase_recorded_unspent_not_valid check u flags :
  missing_unspent coinbase_witness_tx [Some u] 0 = true
  /\ is_solution_ok check coinbase_witness_tx [Some u] 0 flags = Ret false.
Proof. split; reflexivity. Qed.

(* ---- 9. non-vacuity ----------------------------------------------------------------------------------------------- *)
Definition ex_hash (b : byte) : bytes := repeatb b 32.
Definition ex_tx : tx :=
  mk_tx 2 [mk_txin (ex_hash x11) 0 [x51] [[x01; x02]] 4294967294; mk_txin (ex_hash x22) 7 [] [] 5]
          [mk_txout 1000 [x76; xa9]; mk_txout 2000 [x00; x14]] 500000.
Definition ex_ctx : sctx := mk_sctx ex_tx [x76; xa9; x88; xac] 12345.
(* the same with the other input's scriptSig, witness and sequence and the second output changed *)
Definition ex_tx' : tx :=
  mk_tx 2 [mk_txin (ex_hash x11) 0 [x51] [[x01; x02]] 4294967294; mk_txin (ex_hash x22) 7 [x52] [[x09]] 6]
          [mk_txout 1000 [x76; xa9]; mk_txout 2001 [x00; x15]] 500000.
Definition ex_ctx' : sctx := mk_sctx ex_tx' [x76; xa9; x88; xac] 12345.

Lemma ex_wf : wf_ctx ex_ctx /\ wf_ctx ex_ctx' /\ in_range 0 ex_ctx /\ in_range 0 ex_ctx'.
Proof. repeat split; try (repeat constructor); cbn; lia. Qed.

Lemma ex_fed_all : is_ret (fed_of SV_legacy 1 0 ex_ctx) = true /\ is_ret (fed_of SV_bip143 1 0 ex_ctx) = true
  /\ fed_of SV_legacy 3 5 ex_ctx = Ret Fed_none.
Proof. vm_compute. auto. Qed.

Lemma ex_single_unchanged :
  fed_of SV_legacy 3 0 ex_ctx = fed_of SV_legacy 3 0 ex_ctx'
  /\ fed_of SV_bip143 131 0 ex_ctx = fed_of SV_bip143 131 0 ex_ctx'
  /\ fed_of SV_legacy 1 0 ex_ctx <> fed_of SV_legacy 1 0 ex_ctx'.
Proof. vm_compute. repeat split. discriminate. Qed.

(* ---- 10. reading the classification ------------------------------------------------------------------------------- *)
Lemma all_commits_everything sv ht idx has_out fl :
  ht_none ht = false -> ht_single ht = false -> ht_acp ht = false ->
  committed sv ht idx has_out fl =
  match fl with
  | F_script_sig _ | F_witness _ | F_single_has_output => false
  | F_spent_amount => match sv with SV_bip143 => true | SV_legacy => false end
  | _ => true
  end.
Proof.
  intros Hn Hs Ha. unfold committed. rewrite Hn, Hs, Ha.
  destruct sv, fl; cbn [negb andb orb]; rewrite ?orb_true_r; reflexivity.
Qed.

Lemma unlocking_never_committed sv ht idx has_out j :
  committed sv ht idx has_out (F_script_sig j) = false /\ committed sv ht idx has_out (F_witness j) = false.
Proof. split; reflexivity. Qed.

(* ---- 11. verdict level, with the signature check abstract ------------------------------------------------------------ *)
Section Tamper.
Variable dsha256 : bytes -> bytes.
Hypothesis dsha256_len : forall x, length (dsha256 x) = 32%nat.
Variables (pubkey signature : Type) (verify : pubkey -> bytes -> signature -> bool).

(* a signature valid before a change of a committed field is valid afterwards only if the hash function shows an
   anomaly or the SAME signature verifies under two DIFFERENT digests *)
Lemma tamper_fails sv ht idx c c' f f' (k : pubkey) (s : signature) fl :
  wf_ctx c -> wf_ctx c' -> in_range idx c -> in_range idx c' ->
  fed_of sv ht idx c = Ret f -> fed_of sv ht idx c' = Ret f' ->
  committed sv ht idx (has_output idx c) fl = true -> get idx fl c <> get idx fl c' ->
  verify k (digest_of dsha256 f) s = true -> verify k (digest_of dsha256 f') s = true ->
  hash_anomaly dsha256 f f'
  \/ (digest_of dsha256 f <> digest_of dsha256 f'
      /\ verify k (digest_of dsha256 f) s = true /\ verify k (digest_of dsha256 f') s = true).
Proof.
  intros W W' L L' H H' Hc Hne V V'.
  destruct (bytes_dec (digest_of dsha256 f) (digest_of dsha256 f')) as [E|N]; [|right; auto].
  destruct (digest_commits dsha256 dsha256_len _ _ _ _ _ _ _ W W' L L' H H' E) as [A|A]; [|now left].
  exfalso. apply Hne. exact (A fl Hc).
Qed.
End Tamper.
