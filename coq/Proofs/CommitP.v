(* Proofs/CommitP.v — lemmas for property C06 over Model/Commit.v. *)
From PV Require Import Base.Bytes Base.Outcome Base.Varint Gen.GenCommitC06 Model.Commit.
From Coq Require Import ZifyBool ZifyNat ZifyN.
Local Open Scope N_scope.

(* ---- 0. the generated constants have their consensus values ------------------------------------------ *)
Lemma gen06_consts_ok :
  gen06_sighash_all = 1 /\ gen06_sighash_none = 2 /\ gen06_sighash_single = 3 /\ gen06_sighash_anyonecanpay = 128
  /\ gen06_mask_legacy = 31 /\ gen06_mask_sequence = 31 /\ gen06_mask_outputs = 31
  /\ single_value = 2 ^ 248 /\ gen06_blank_amount = 2 ^ 64 - 1
  /\ gen06_zero32 = repeatb x00 32 /\ gen06_hash_trunc = 32%nat /\ gen06_width_L = 4%nat /\ gen06_width_Q = 8%nat
  /\ gen06_coinbase_hash = repeatb x00 32 /\ gen06_coinbase_index = 2 ^ 32 - 1.
Proof. repeat split; vm_compute; reflexivity. Qed.

(* ---- 1. prefix-injective encoders ---------------------------------------------------------------------- *)
(* enc is injective even when followed by arbitrary trailing bytes; `key` is what the encoding determines *)
Definition pinj {A B} (Q : A -> Prop) (enc : A -> outcome bytes) (key : A -> B) : Prop :=
  forall a a' p p' r r', Q a -> Q a' -> enc a = Ret p -> enc a' = Ret p' -> p ++ r = p' ++ r' ->
    key a = key a' /\ r = r'.

Definition any {A} (_ : A) : Prop := True.

Lemma app_inj_len {A} (a a' r r' : list A) :
  length a = length a' -> a ++ r = a' ++ r' -> a = a' /\ r = r'.
Proof.
  revert a'; induction a as [|x a IH]; intros [|y a'] HL H; cbn in *; try discriminate.
  - auto.
  - injection H as -> H. destruct (IH a' ltac:(lia) H) as [-> ->]. auto.
Qed.

Ltac inv_bind H :=
  let a := fresh "a" in let Ha := fresh "Ha" in
  apply bind_ret_inv in H; destruct H as [a [Ha H]].

Lemma write_le_ret w v p : write_le w v = Ret p -> p = le_encode w v /\ v < 256 ^ N.of_nat w.
Proof. unfold write_le. destruct (v <? 256 ^ N.of_nat w) eqn:E; [|discriminate]. intros H; injection H as <-. split; [reflexivity|lia]. Qed.

Lemma write_le_pinj w : pinj any (write_le w) (fun v => v).
Proof.
  intros v v' p p' r r' _ _ H H' E.
  apply write_le_ret in H, H'. destruct H as [-> Hv], H' as [-> Hv'].
  apply app_inj_len in E; [|now rewrite !le_encode_length]. destruct E as [E ->]. split; [|reflexivity].
  rewrite <- (le_decode_encode w v Hv), <- (le_decode_encode w v' Hv'). now rewrite E.
Qed.

Lemma write_le_length w v p : write_le w v = Ret p -> length p = w.
Proof. intros H. apply write_le_ret in H. destruct H as [-> _]. apply le_encode_length. Qed.

Lemma stream_varint_ret_lt v p : stream_varint v = Ret p -> v < 2 ^ 64.
Proof.
  unfold stream_varint. change (2 ^ 64) with 18446744073709551616.
  destruct (v <? 253) eqn:E1; [lia|]. destruct (v <=? 65535) eqn:E2; [lia|].
  destruct (v <=? 4294967295) eqn:E3; [lia|]. destruct (v <? 18446744073709551616) eqn:E4; [lia|discriminate].
Qed.

Lemma stream_varint_nonempty v p : stream_varint v = Ret p -> p <> [].
Proof.
  unfold stream_varint. repeat match goal with |- context [if ?c then _ else _] => destruct c end;
    intros H; try discriminate; injection H as <-; discriminate.
Qed.

Lemma varint_pinj : pinj any stream_varint (fun v => v).
Proof.
  intros v v' p p' r r' _ _ H H' E.
  destruct (varint_frame v r (stream_varint_ret_lt _ _ H)) as [q [Hq [Hp _]]].
  destruct (varint_frame v' r' (stream_varint_ret_lt _ _ H')) as [q' [Hq' [Hp' _]]].
  rewrite H in Hq; injection Hq as <-. rewrite H' in Hq'; injection Hq' as <-.
  rewrite E in Hp. rewrite Hp in Hp'. injection Hp' as -> ->. auto.
Qed.

Lemma stream_varstr_ret s p : stream_varstr s = Ret p ->
  exists q, stream_varint (N.of_nat (length s)) = Ret q /\ p = q ++ s.
Proof.
  unfold stream_varstr. destruct (stream_varint (N.of_nat (length s))) as [q| |]; try discriminate.
  intros H; injection H as <-. eauto.
Qed.

Lemma varstr_pinj : pinj any stream_varstr (fun s => s).
Proof.
  intros s s' p p' r r' _ _ H H' E.
  apply stream_varstr_ret in H, H'. destruct H as [q [Hq ->]], H' as [q' [Hq' ->]].
  rewrite <- !app_assoc in E.
  destruct (varint_pinj _ _ _ _ _ _ I I Hq Hq' E) as [HL E'].
  apply app_inj_len in E'; [exact E'|lia].
Qed.

Lemma stream_varstr_nonempty s p : stream_varstr s = Ret p -> p <> [].
Proof.
  intros H. apply stream_varstr_ret in H. destruct H as [q [Hq ->]].
  apply stream_varint_nonempty in Hq. destruct q; [congruence|discriminate].
Qed.

(* lists: with the same number of elements ... *)
Lemma concatM_pinj_len {A B} (Q : A -> Prop) (enc : A -> outcome bytes) (key : A -> B) :
  pinj Q enc key ->
  forall l l' p p' r r', length l = length l' -> Forall Q l -> Forall Q l' ->
    concatM enc l = Ret p -> concatM enc l' = Ret p' -> p ++ r = p' ++ r' ->
    map key l = map key l' /\ r = r'.
Proof.
  intros HP. induction l as [|x l IH]; intros [|x' l'] p p' r r' HL HQ HQ' H H' E; cbn in HL; try discriminate.
  - cbn in H, H'. injection H as <-. injection H' as <-. cbn in E. auto.
  - cbn [concatM] in H, H'. inv_bind H. inv_bind H. injection H as <-.
    inv_bind H'. inv_bind H'. injection H' as <-.
    rewrite <- !app_assoc in E.
    destruct (HP _ _ _ _ _ _ (Forall_inv HQ) (Forall_inv HQ') Ha Ha1 E) as [K E'].
    destruct (IH l' _ _ _ _ ltac:(lia) (Forall_inv_tail HQ) (Forall_inv_tail HQ') Ha0 Ha2 E') as [K' ->].
    cbn [map]. rewrite K, K'. auto.
Qed.

(* ... and without a count, as a whole string, when no element encodes to the empty string *)
Lemma concatM_inj_whole {A B} (Q : A -> Prop) (enc : A -> outcome bytes) (key : A -> B) :
  pinj Q enc key -> (forall a p, enc a = Ret p -> p <> []) ->
  forall l l' p, Forall Q l -> Forall Q l' -> concatM enc l = Ret p -> concatM enc l' = Ret p ->
    map key l = map key l'.
Proof.
  intros HP HN. induction l as [|x l IH]; intros [|x' l'] p HQ HQ' H H'.
  - reflexivity.
  - cbn [concatM] in H, H'. injection H as <-. inv_bind H'. inv_bind H'. injection H' as H'.
    apply HN in Ha. destruct a; [congruence|discriminate].
  - cbn [concatM] in H, H'. injection H' as <-. inv_bind H. inv_bind H. injection H as H.
    apply HN in Ha. destruct a; [congruence|discriminate].
  - cbn [concatM] in H, H'. inv_bind H. inv_bind H. injection H as <-.
    inv_bind H'. inv_bind H'. injection H' as E.
    assert (E' : a ++ a0 ++ [] = a1 ++ a2 ++ []) by (rewrite !app_nil_r; symmetry; exact E).
    destruct (HP _ _ _ _ _ _ (Forall_inv HQ) (Forall_inv HQ') Ha Ha1 E') as [K E''].
    rewrite !app_nil_r in E''. subst a2.
    cbn [map]. rewrite K. f_equal.
    exact (IH l' _ (Forall_inv_tail HQ) (Forall_inv_tail HQ') Ha0 Ha2).
Qed.

Lemma concatM_ext {A} (f g : A -> outcome bytes) l l' :
  length l = length l' ->
  (forall j x x', nth_error l j = Some x -> nth_error l' j = Some x' -> f x = g x') ->
  concatM f l = concatM g l'.
Proof.
  revert l'; induction l as [|x l IH]; intros [|x' l'] HL H; cbn in HL; try discriminate; [reflexivity|].
  cbn [concatM]. rewrite (H O x x' eq_refl eq_refl).
  rewrite (IH l' ltac:(lia)); [reflexivity|]. intros j; exact (H (S j)).
Qed.
