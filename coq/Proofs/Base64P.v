(* Proofs/Base64P.v — lemmas about Model/Base64.v: the decoder inverts the encoder on every byte string, the
   decoder's only exception class is ValueError, the encoder's image survives bytes.strip(). *)
From PV Require Import Base.Bytes Base.Outcome Model.Base64.
From Coq Require Import ZifyBool ZifyNat ZifyN.
Local Ltac Zify.zify_post_hook ::= Z.to_euclidean_division_equations.
Local Open Scope N_scope.

(* ---- the alphabet ------------------------------------------------------------------------------- *)
Definition chr_ok (v : N) : bool :=
  match b64_val (b64_chr v) with Some w => w =? v | None => false end
  && negb (byte_eqb (b64_chr v) x3d) && negb (is_ws (b64_chr v)) && (b2n (b64_chr v) <? 128).

Lemma chr_table : forallb chr_ok (map N.of_nat (seq 0 64)) = true.
Proof. vm_compute. reflexivity. Qed.

Lemma chr_facts v : v < 64 ->
  b64_val (b64_chr v) = Some v /\ byte_eqb (b64_chr v) x3d = false /\ is_ws (b64_chr v) = false
  /\ (b2n (b64_chr v) <? 128) = true.
Proof.
  intros H. pose proof chr_table as T. rewrite forallb_forall in T.
  assert (I : In v (map N.of_nat (seq 0 64))).
  { apply in_map_iff. exists (N.to_nat v). split; [lia|]. apply in_seq. lia. }
  specialize (T v I). unfold chr_ok in T.
  repeat rewrite andb_true_iff in T. destruct T as [[[T1 T2] T3] T4].
  destruct (b64_val (b64_chr v)) as [w|]; [|discriminate].
  apply N.eqb_eq in T1. subst w.
  rewrite negb_true_iff in T2, T3. auto.
Qed.

Lemma pad_facts : is_ws x3d = false /\ (b2n x3d <? 128) = true /\ byte_eqb x3d x3d = true.
Proof. vm_compute. auto. Qed.

(* ---- one step of the loop on an alphabet character ----------------------------------------------- *)
Lemma a2b_step v r quad left pads acc : v < 64 ->
  a2b_loop (b64_chr v :: r) quad left pads acc =
    if quad =? 0 then a2b_loop r 1 v 0 acc
    else if quad =? 1 then a2b_loop r 2 (v mod 16) 0 (n2b (left * 4 + v / 16) :: acc)
    else if quad =? 2 then a2b_loop r 3 (v mod 4) 0 (n2b (left * 16 + v / 4) :: acc)
    else a2b_loop r 0 0 0 (n2b (left * 64 + v) :: acc).
Proof.
  intros H. destruct (chr_facts v H) as (E1 & E2 & _).
  cbn [a2b_loop]. rewrite E2, E1. reflexivity.
Qed.

Lemma n2b_eq_byte e (a : byte) : e = b2n a -> n2b e = a.
Proof. intros ->. apply n2b_b2n. Qed.

Lemma quad_decode (a b c : byte) r acc :
  a2b_loop (b64_chr (b2n a / 4) :: b64_chr ((b2n a mod 4) * 16 + b2n b / 16)
            :: b64_chr ((b2n b mod 16) * 4 + b2n c / 64) :: b64_chr (b2n c mod 64) :: r) 0 0 0 acc
  = a2b_loop r 0 0 0 (c :: b :: a :: acc).
Proof.
  pose proof (b2n_lt a) as Ha. pose proof (b2n_lt b) as Hb. pose proof (b2n_lt c) as Hc.
  rewrite a2b_step by lia. cbn [N.eqb].
  rewrite a2b_step by lia. change (1 =? 0) with false. change (1 =? 1) with true. cbv iota.
  rewrite a2b_step by lia. change (2 =? 0) with false. change (2 =? 1) with false. change (2 =? 2) with true. cbv iota.
  rewrite a2b_step by lia. change (3 =? 0) with false. change (3 =? 1) with false. change (3 =? 2) with false. cbv iota.
  rewrite (n2b_eq_byte _ c) by lia.
  rewrite (n2b_eq_byte _ b) by lia.
  rewrite (n2b_eq_byte _ a) by lia.
  reflexivity.
Qed.

Lemma triple_ind (P : bytes -> Prop) :
  P [] -> (forall a, P [a]) -> (forall a b, P [a; b]) -> (forall a b c r, P r -> P (a :: b :: c :: r)) ->
  forall l, P l.
Proof.
  intros H0 H1 H2 H3. fix IH 1. intros [|a [|b [|c r]]].
  - exact H0.
  - apply H1.
  - apply H2.
  - apply H3. apply IH.
Qed.

Lemma a2b_loop_encode bs : forall acc, a2b_loop (b64_encode bs) 0 0 0 acc = Ret (rev acc ++ bs).
Proof.
  induction bs as [|a|a b|a b c r IH] using triple_ind; intros acc.
  - cbn. now rewrite app_nil_r.
  - pose proof (b2n_lt a) as Ha. cbn [b64_encode].
    rewrite a2b_step by lia. cbn [N.eqb].
    rewrite a2b_step by lia. change (1 =? 0) with false. change (1 =? 1) with true. cbv iota.
    cbn [a2b_loop]. destruct pad_facts as (_ & _ & ->).
    change (2 <=? 2) with true. cbv iota. change (4 <=? 2 + (0 + 1)) with false. cbv iota.
    change (4 <=? 2 + (0 + 1 + 1)) with true. cbv iota.
    rewrite (n2b_eq_byte _ a) by lia. cbn [rev app]. rewrite <- ?app_assoc. reflexivity.
  - pose proof (b2n_lt a) as Ha. pose proof (b2n_lt b) as Hb. cbn [b64_encode].
    rewrite a2b_step by lia. cbn [N.eqb].
    rewrite a2b_step by lia. change (1 =? 0) with false. change (1 =? 1) with true. cbv iota.
    rewrite a2b_step by lia. change (2 =? 0) with false. change (2 =? 1) with false. change (2 =? 2) with true. cbv iota.
    cbn [a2b_loop]. destruct pad_facts as (_ & _ & ->).
    change (2 <=? 3) with true. cbv iota. change (4 <=? 3 + (0 + 1)) with true. cbv iota.
    rewrite (n2b_eq_byte _ b) by lia. rewrite (n2b_eq_byte _ a) by lia.
    cbn [rev app]. rewrite <- ?app_assoc. reflexivity.
  - cbn [b64_encode]. rewrite quad_decode, IH. cbn [rev app]. rewrite <- ?app_assoc. reflexivity.
Qed.

(* ---- properties of the encoder's image ------------------------------------------------------------ *)
Lemma encode_chars bs : Forall (fun ch => is_ws ch = false /\ (b2n ch <? 128) = true) (b64_encode bs).
Proof.
  destruct pad_facts as (P1 & P2 & _).
  induction bs as [|a|a b|a b c r IH] using triple_ind; cbn [b64_encode].
  - constructor.
  - pose proof (b2n_lt a). repeat constructor; try apply chr_facts; auto; lia.
  - pose proof (b2n_lt a). pose proof (b2n_lt b). repeat constructor; try apply chr_facts; auto; lia.
  - pose proof (b2n_lt a). pose proof (b2n_lt b). pose proof (b2n_lt c).
    repeat (constructor; [split; apply chr_facts; lia|]). exact IH.
Qed.

Lemma encode_ascii bs : is_ascii (b64_encode bs) = true.
Proof.
  unfold is_ascii. apply forallb_forall. intros ch Hin.
  pose proof (encode_chars bs) as F. rewrite Forall_forall in F. now apply F.
Qed.

Lemma lstrip_nows l : Forall (fun ch => is_ws ch = false) l -> lstrip l = l.
Proof. intros F. destruct l as [|ch r]; [reflexivity|]. inversion F; subst. cbn [lstrip]. now rewrite H1. Qed.

Lemma strip_b2a bs : bstrip (b2a_base64 bs) = b64_encode bs.
Proof.
  assert (F : Forall (fun ch => is_ws ch = false) (b64_encode bs)).
  { eapply Forall_impl; [|apply encode_chars]. cbn. tauto. }
  unfold bstrip, b2a_base64.
  destruct (b64_encode bs) as [|ch r] eqn:Eb; [reflexivity|].
  assert (E : lstrip ((ch :: r) ++ [x0a]) = (ch :: r) ++ [x0a]).
  { inversion F; subst. cbn [app lstrip]. now rewrite H1. }
  rewrite E, rev_app_distr. cbn [rev app lstrip]. change (is_ws x0a) with true. cbv iota.
  change (rev r ++ [ch]) with (rev (ch :: r)).
  rewrite lstrip_nows by (apply Forall_rev; exact F). apply rev_involutive.
Qed.

(* the round trip used by the message signer: strip(b2a_base64(payload)) decodes to payload *)
Lemma a2b_b2a bs : a2b_base64 (bstrip (b2a_base64 bs)) = Ret bs.
Proof.
  rewrite strip_b2a. unfold a2b_base64. rewrite encode_ascii. now rewrite a2b_loop_encode.
Qed.

(* ---- the decoder's outcome class: a value or ValueError, nothing else ----------------------------- *)
Lemma a2b_loop_class s : forall quad left pads acc,
  (exists bs, a2b_loop s quad left pads acc = Ret bs) \/ a2b_loop s quad left pads acc = Raise E_VALUE.
Proof.
  induction s as [|ch r IH]; intros quad left pads acc; cbn [a2b_loop].
  - destruct (quad =? 0); eauto.
  - destruct (byte_eqb ch x3d).
    + destruct (2 <=? quad); [destruct (4 <=? quad + (pads + 1))|]; eauto.
    + destruct (b64_val ch) as [v|]; [|apply IH].
      destruct (quad =? 0); [apply IH|]. destruct (quad =? 1); [apply IH|].
      destruct (quad =? 2); apply IH.
Qed.

Lemma a2b_class text :
  (exists bs, a2b_base64 text = Ret bs) \/ a2b_base64 text = Raise E_VALUE.
Proof. unfold a2b_base64. destruct (is_ascii text); [apply a2b_loop_class | now right]. Qed.
