(* Proofs/CurveObjP.v — presentation independence at the object level (Model/CurveObj.v): the coordinates of every
   result are those of the value-level model on the coordinates of the operands; identities (id()), the curve OBJECT a
   right operand references, and which object stands for (None, None) never matter; any object with coordinates
   (None, None) is the identity.  No premise at all (this is about control flow, not arithmetic). *)
From Coq Require Import ZArith.
From PV Require Import Base.Outcome Model.Curve Model.CurveObj.
Local Open Scope Z_scope.

Lemma add_None_l c Q : add c None Q = Ret Q.
Proof. reflexivity. Qed.
Lemma add_None_r c P : add c P None = Ret P.
Proof. destruct P as [[? ?]|]; reflexivity. Qed.

Theorem obj_curve_add_coords c p0 p1 f :
  omap po_xy (obj_curve_add c p0 p1 f) = add (co_curve c) (po_xy p0) (po_xy p1).
Proof.
  unfold obj_curve_add, is_inf_value.
  destruct (po_xy p0) as [xy0|] eqn:E0; [|cbn [omap]; now rewrite add_None_l].
  destruct (po_xy p1) as [xy1|] eqn:E1; [|cbn [omap]; rewrite E0; now rewrite add_None_r].
  destruct (add (co_curve c) (Some xy0) (Some xy1)) as [[R|]| |]; reflexivity.
Qed.

Theorem obj_add_coords P Q f : omap po_xy (obj_add P Q f) = add (co_curve (po_owner P)) (po_xy P) (po_xy Q).
Proof. apply obj_curve_add_coords. Qed.

Theorem obj_neg_coords P f : omap po_xy (obj_neg P f) = neg (co_curve (po_owner P)) (po_xy P).
Proof.
  unfold obj_neg. destruct (po_xy P) as [[x y]|] eqn:E; [|cbn [omap neg]; now rewrite E].
  destruct (neg _ _) as [R| |]; reflexivity.
Qed.

Theorem obj_sub_coords P Q f :
  co_curve (po_owner Q) = co_curve (po_owner P) ->
  omap po_xy (obj_sub P Q f) = sub (co_curve (po_owner P)) (po_xy P) (po_xy Q).
Proof.
  intros Ec. pose proof (obj_neg_coords Q f) as H. rewrite Ec in H. unfold obj_sub, sub. rewrite <- H.
  destruct (obj_neg Q f) as [nQ| |]; cbn [bind omap]; try reflexivity.
  apply obj_curve_add_coords.
Qed.

Theorem obj_curve_multiply_coords c P e f :
  omap po_xy (obj_curve_multiply c P e f) = multiply (co_curve c) (po_xy P) e.
Proof. unfold obj_curve_multiply. destruct (multiply _ _ _) as [[R|]| |]; reflexivity. Qed.

(* presentation independence: same parameters, same coordinates => same coordinates out, whatever the objects *)
Theorem presentation_independent_add c c' p0 p1 q0 q1 f f' :
  co_curve c = co_curve c' -> po_xy p0 = po_xy q0 -> po_xy p1 = po_xy q1 ->
  omap po_xy (obj_curve_add c p0 p1 f) = omap po_xy (obj_curve_add c' q0 q1 f').
Proof. intros Ec E0 E1. rewrite !obj_curve_add_coords. now rewrite Ec, E0, E1. Qed.

Theorem presentation_independent_sub P Q P' Q' f f' :
  co_curve (po_owner Q) = co_curve (po_owner P) -> co_curve (po_owner Q') = co_curve (po_owner P') ->
  co_curve (po_owner P) = co_curve (po_owner P') -> po_xy P = po_xy P' -> po_xy Q = po_xy Q' ->
  omap po_xy (obj_sub P Q f) = omap po_xy (obj_sub P' Q' f').
Proof. intros E1 E2 E3 E4 E5. rewrite !obj_sub_coords by assumption. now rewrite E3, E4, E5. Qed.

Theorem presentation_independent_neg P P' f f' :
  co_curve (po_owner P) = co_curve (po_owner P') -> po_xy P = po_xy P' ->
  omap po_xy (obj_neg P f) = omap po_xy (obj_neg P' f').
Proof. intros E1 E2. rewrite !obj_neg_coords. now rewrite E1, E2. Qed.

Theorem presentation_independent_multiply c c' P P' e f f' :
  co_curve c = co_curve c' -> po_xy P = po_xy P' ->
  omap po_xy (obj_curve_multiply c P e f) = omap po_xy (obj_curve_multiply c' P' e f').
Proof. intros E1 E2. rewrite !obj_curve_multiply_coords. now rewrite E1, E2. Qed.

(* ANY object whose coordinates are (None, None) is the identity: the other operand comes back (the object itself) *)
Theorem any_infinity_is_identity c O P f : po_xy O = None ->
  obj_curve_add c P O f = Ret (if is_inf_value P then O else P) /\ obj_curve_add c O P f = Ret P /\
  obj_neg O f = Ret O /\
  omap po_xy (obj_sub P O f) = Ret (po_xy P) /\ omap po_xy (obj_curve_multiply c O 5 f) = Ret None.
Proof.
  intros HO. unfold obj_curve_add, obj_sub, obj_neg, obj_curve_multiply, is_inf_value. rewrite HO.
  repeat split; try reflexivity.
  - destruct (po_xy P); reflexivity.
  - cbn [bind]. unfold obj_curve_add, is_inf_value. rewrite HO. destruct (po_xy P) eqn:E; cbn [omap]; congruence.
Qed.
