(* Proofs/ParseTextP.v — lemmas about Model/ParseText.v (property C18). *)
From Coq Require Import List NArith ZArith String Bool Lia.
From Coq Require Import Strings.Byte.
From PV Require Import Base.Bytes Base.Outcome Gen.GenParsePrefixes Model.ParseText.
Import ListNotations.
Local Open Scope Z_scope.

(* ---------------------------------------------------------------------------------------------- *)
(* generic facts *)
Lemma returns_ret {v : option obj} : returns (Ret v).
Proof. exists v; reflexivity. Qed.
#[global] Hint Resolve returns_ret : c18.

Lemma orelse_returns a b : returns a -> returns (b tt) -> returns (orelse a b).
Proof. intros [v ->] Hb. destruct v; cbn; auto with c18. Qed.

Lemma via_b58_returns b58 f s : (forall d, returns (f d)) -> returns (via_b58 b58 f s).
Proof. intros H. unfold via_b58. destruct (b58c b58 s); auto with c18. Qed.

Lemma via_bech32_returns bech32 f s : (forall v, returns (f v)) -> returns (via_bech32 bech32 f s).
Proof. intros H. unfold via_bech32. destruct (bech32c bech32 s); auto with c18. Qed.

Lemma first_of_returns fs s : (forall f, In f fs -> returns (f s)) -> returns (first_of fs s).
Proof.
  induction fs as [|f r IH]; intros H; cbn [first_of]; auto with c18.
  apply orelse_returns. apply H; left; reflexivity. apply IH. intros g Hg. apply H. right; exact Hg.
Qed.

Lemma disabled_or_returns net r : returns (r tt) -> returns (disabled_or net r).
Proof. unfold disabled_or. destruct (n_disabled net); auto with c18. Qed.

(* value_total m : m returns, or raises a subclass of ValueError *)
Definition value_total {A} (m : outcome A) : Prop :=
  match m with
  | Ret _ => True
  | Raise e => is_value_error e = true
  | OutOfFuel => False
  end.

Lemma value_total_bind {A B} (m : outcome A) (f : A -> outcome B) :
  value_total m -> (forall a, m = Ret a -> value_total (f a)) -> value_total (bind m f).
Proof. destruct m; cbn; auto. Qed.

Lemma catch_value_returns m : value_total m -> returns (catch_value m).
Proof. destruct m; cbn; intros H; try contradiction. eauto with c18. rewrite H. eauto with c18. Qed.

Lemma catch_all_returns m : returns (catch_all m).
Proof. destruct m; cbn; eauto with c18. Qed.

(* ---------------------------------------------------------------------------------------------- *)
(* list / bytes helpers *)
Lemma starts_with_app pre d : starts_with pre d = true -> d = pre ++ skipn (length pre) d.
Proof.
  revert d; induction pre as [|x p IH]; intros d H; cbn in *. reflexivity.
  destruct d as [|y d]; [discriminate|]. apply andb_prop in H as [H1 H2].
  apply byte_eqb_eq in H1; subst y. cbn. f_equal. apply IH, H2.
Qed.

Lemma starts_with_app_intro pre r : starts_with pre (pre ++ r) = true.
Proof. induction pre; cbn; [reflexivity|]. rewrite byte_eqb_refl. exact IHpre. Qed.

Lemma starts_with_length pre d : starts_with pre d = true -> (length pre <= length d)%nat.
Proof. intros H. apply starts_with_app in H. apply (f_equal (@length byte)) in H. rewrite app_length in H. lia. Qed.

Lemma starts_with_both_comparable p1 p2 d :
  starts_with p1 d = true -> starts_with p2 d = true -> comparable p1 p2 = true.
Proof.
  unfold comparable. revert p2 d; induction p1 as [|x p1 IH]; intros p2 d H1 H2; cbn in *. reflexivity.
  destruct d as [|y d]; [discriminate|]. apply andb_prop in H1 as [Hx H1]. apply byte_eqb_eq in Hx; subst y.
  destruct p2 as [|z p2]; cbn in *. reflexivity.
  apply andb_prop in H2 as [Hz H2]. apply byte_eqb_eq in Hz; subst z.
  rewrite byte_eqb_refl. cbn. exact (IH p2 d H1 H2).
Qed.

Lemma from_bytes_range b : 0 <= from_bytes b < 256 ^ Z.of_nat (length b).
Proof.
  unfold from_bytes. pose proof (le_decode_bound (rev b)) as H. rewrite rev_length in H.
  unfold be_decode. split. lia.
  apply N2Z.inj_lt in H. rewrite N2Z.inj_pow in H. rewrite nat_N_Z in H. exact H.
Qed.

Lemma to_from_bytes_32 b : length b = 32%nat -> to_bytes_32 (from_bytes b) = Ret b.
Proof.
  intros L. pose proof (from_bytes_range b) as R. rewrite L in R. unfold to_bytes_32.
  replace (256 ^ Z.of_nat 32) with (2 ^ 256) in R by reflexivity.
  destruct (Z.leb_spec 0 (from_bytes b)); [|lia]. destruct (Z.ltb_spec (from_bytes b) (2 ^ 256)); [|lia].
  cbn [andb]. f_equal. unfold from_bytes. rewrite N2Z.id. rewrite <- L. apply be_encode_decode.
Qed.

Lemma slice_length {A} a b (l : list A) : (b <= length l)%nat -> (a <= b)%nat -> length (slice a b l) = (b - a)%nat.
Proof. intros. unfold slice. rewrite firstn_length, skipn_length. lia. Qed.

Lemma skipn_add {A} a b (l : list A) : skipn (a + b) l = skipn a (skipn b l).
Proof.
  revert l; induction b as [|b IH]; intros l. rewrite Nat.add_0_r. reflexivity.
  rewrite Nat.add_succ_r. destruct l as [|x l]. rewrite !skipn_nil. reflexivity. cbn [skipn]. apply IH.
Qed.

Lemma skipn_skipn_app4 {A} (pre : list A) d a :
  length pre = 4%nat -> (4 <= a)%nat -> skipn a (pre ++ skipn 4 d) = skipn a d.
Proof.
  intros L Ha. replace a with ((a - 4) + 4)%nat by lia. rewrite !skipn_add.
  f_equal. rewrite <- L. apply skipn_app_exact.
Qed.

(* ---------------------------------------------------------------------------------------------- *)
(* totality *)
Lemma land1 y : Z.land y 1 = y mod 2.
Proof. change 1 with (Z.ones 1). rewrite Z.land_ones by lia. reflexivity. Qed.
Lemma parity_sub p y : p mod 2 = 1 -> Z.land y 1 = 0 -> Z.land (p - y) 1 = 1.
Proof. rewrite !land1. intros Hp Hy. rewrite Zminus_mod, Hp, Hy. reflexivity. Qed.
Lemma parity_sub' p y : p mod 2 = 1 -> Z.land y 1 <> 0 -> Z.land (p - y) 1 = 0.
Proof.
  rewrite !land1. intros Hp Hy. rewrite Zminus_mod, Hp. pose proof (Z.mod_pos_bound y 2 ltac:(lia)).
  replace (y mod 2) with 1 by lia. reflexivity.
Qed.
Lemma land1_cases y : Z.land y 1 = 0 \/ Z.land y 1 = 1.
Proof. rewrite land1. pose proof (Z.mod_pos_bound y 2 ltac:(lia)). lia. Qed.
Lemma curve_p_odd : curve_p mod 2 = 1.
Proof. vm_compute. reflexivity. Qed.
Lemma curve_p_pos : 0 < curve_p.
Proof. vm_compute. reflexivity. Qed.
Lemma curve_p_bound : curve_p < 2 ^ 256.
Proof. vm_compute. reflexivity. Qed.
Lemma curve_n_bound : curve_n < 2 ^ 256.
Proof. vm_compute. reflexivity. Qed.
Lemma on_curve_neg x y : on_curve (x, curve_p - y) = on_curve (x, y).
Proof.
  unfold on_curve. f_equal.
  replace ((curve_p - y) * (curve_p - y) - (x * x * x + curve_a * x + curve_b))
    with ((y * y - (x * x * x + curve_a * x + curve_b)) + (curve_p - 2 * y) * curve_p) by ring.
  apply Z.mod_add. pose proof curve_p_pos. lia.
Qed.

Local Opaque curve_p curve_a curve_b curve_n Z.pow Z.modulo Z.mul Z.add Z.sub Z.land.
Section Total.
Variable b58 : text -> outcome (option bytes).
Variable bech32 : text -> outcome (option (text * Z * bytes * bool)).
Variable int10 int16 : text -> option Z.
Variable compile : text -> option bytes.
Variable hmac512 : bytes -> bytes.
Variable stretch : bytes -> Z.
Variable mulG : Z -> Z * Z.
Variable modsqrt : Z -> Z.

Lemma mk_point_vt x y : value_total (mk_point x y).
Proof. unfold mk_point. destruct (on_curve (x, y)); cbn; auto. Qed.

Lemma points_for_x_vt x : value_total (points_for_x modsqrt x).
Proof.
  unfold points_for_x. destruct (_ =? 0); cbn; auto.
  apply value_total_bind. apply mk_point_vt. intros p0 _.
  apply value_total_bind. apply mk_point_vt. intros p1 _.
  destruct (_ =? 0); cbn; auto.
Qed.

Lemma key_material_private_vt se : value_total (key_material_private mulG se).
Proof. unfold key_material_private. destruct (valid_exponent se); cbn; auto. destruct (on_curve _); cbn; auto. destruct (in_range _); cbn; auto. Qed.

Lemma key_material_public_vt pt : value_total (key_material_public pt).
Proof. unfold key_material_public. destruct (on_curve _); cbn; auto. destruct (in_range _); cbn; auto. Qed.

Lemma keys_private_vt se c : value_total (keys_private mulG se c).
Proof. unfold keys_private. apply value_total_bind. apply key_material_private_vt. intros; cbn; auto. Qed.

Lemma sec_to_public_pair_vt s : value_total (sec_to_public_pair modsqrt s).
Proof.
  unfold sec_to_public_pair.
  repeat match goal with
  | |- value_total (if ?c then _ else _) => destruct c
  | |- value_total (bind _ _) => apply value_total_bind; [apply points_for_x_vt | intros]
  | |- value_total (Ret _) => exact I
  | |- value_total (Raise _) => reflexivity
  end.
Qed.

Lemma hd_deserialize_vt kind d : value_total (hd_deserialize mulG modsqrt kind d).
Proof.
  unfold hd_deserialize.
  destruct (negb _); [reflexivity|].
  destruct (bytes_eqb _ _).
  - apply value_total_bind. apply key_material_private_vt. intros; exact I.
  - apply value_total_bind. apply sec_to_public_pair_vt. intros.
    apply value_total_bind. apply key_material_public_vt. intros; exact I.
Qed.

(* --- per entry point --- *)
Lemma b58_script_of_payload_total pre mk d : returns (b58_script_of_payload pre mk d).
Proof. unfold b58_script_of_payload. destruct pre; auto with c18. repeat (destruct (negb _); auto with c18). Qed.

Lemma p2pkh_total net s : returns (p2pkh b58 net s).
Proof. apply via_b58_returns. intros. apply b58_script_of_payload_total. Qed.
Lemma p2sh_total net s : returns (p2sh b58 net s).
Proof. apply via_b58_returns. intros. apply b58_script_of_payload_total. Qed.

Lemma segwit_of_decoded_total net ver len mk v : returns (segwit_of_decoded net ver len mk v).
Proof.
  unfold segwit_of_decoded. destruct v as [[[hrp version] data] is_m]. destruct (n_hrp net); auto with c18.
  repeat match goal with |- returns (if ?c then _ else _) => destruct c; auto with c18 end.
Qed.

Lemma p2pkh_segwit_total net s : returns (p2pkh_segwit bech32 net s).
Proof. apply via_bech32_returns. intros. apply segwit_of_decoded_total. Qed.
Lemma p2sh_segwit_total net s : returns (p2sh_segwit bech32 net s).
Proof. apply via_bech32_returns. intros. apply segwit_of_decoded_total. Qed.
Lemma p2tr_total net s : returns (p2tr bech32 net s).
Proof. apply via_bech32_returns. intros. apply segwit_of_decoded_total. Qed.

Lemma script_total net s : returns (script compile net s).
Proof. unfold script. destruct (compile s); auto with c18. Qed.

Lemma address_total net s : returns (address b58 bech32 net s).
Proof.
  apply disabled_or_returns. unfold address_body.
  repeat (apply orelse_returns); auto using p2pkh_total, p2sh_total, p2pkh_segwit_total, p2sh_segwit_total, p2tr_total.
Qed.

Lemma payable_total net s : returns (payable b58 bech32 compile net s).
Proof. apply orelse_returns. apply address_total. apply script_total. Qed.

Lemma wif_of_payload_total net d : returns (wif_of_payload mulG net d).
Proof.
  unfold wif_of_payload. destruct (n_wif net); auto with c18.
  destruct (negb _); auto with c18.
  destruct (Nat.ltb _ _).
  - destruct (_ || _); auto with c18. apply catch_value_returns, keys_private_vt.
  - destruct (negb _); auto with c18. apply catch_value_returns, keys_private_vt.
Qed.

Lemma wif_total net s : returns (wif b58 mulG net s).
Proof. apply via_b58_returns. intros. apply wif_of_payload_total. Qed.

Lemma secret_exponent_total net s : returns (secret_exponent int10 int16 mulG net s).
Proof.
  unfold secret_exponent. destruct (as_number _ _ _); auto with c18.
  destruct (_ =? 0); auto with c18. apply catch_value_returns, keys_private_vt.
Qed.

Lemma private_key_total net s : returns (private_key b58 int10 int16 mulG net s).
Proof.
  apply disabled_or_returns. apply first_of_returns. intros f [<-|[<-|[]]].
  apply wif_total. apply secret_exponent_total.
Qed.

Lemma sec_total net s : returns (sec modsqrt net s).
Proof. unfold sec. destruct (h2b _); auto with c18. apply catch_all_returns. Qed.

Lemma hd_of_payload_total pre kind d : returns (hd_of_payload mulG modsqrt pre kind d).
Proof.
  unfold hd_of_payload. destruct pre; auto with c18. destruct (negb _); auto with c18.
  apply catch_value_returns, hd_deserialize_vt.
Qed.

Lemma hd_prv_total net kind s : returns (hd_prv b58 mulG modsqrt net kind s).
Proof. apply via_b58_returns. intros. apply hd_of_payload_total. Qed.
Lemma hd_pub_total net kind s : returns (hd_pub b58 mulG modsqrt net kind s).
Proof. apply via_b58_returns. intros. apply hd_of_payload_total. Qed.
Lemma hd_any_total net kind s : returns (hd_any b58 mulG modsqrt net kind s).
Proof. apply orelse_returns. apply hd_prv_total. apply hd_pub_total. Qed.

Lemma electrum_prv_total net s : returns (electrum_prv mulG net s).
Proof.
  unfold electrum_prv. destruct (electrum_to_blob s); auto with c18. destruct (Nat.eqb _ _); auto with c18.
  apply catch_value_returns. apply value_total_bind. apply key_material_private_vt. intros; exact I.
Qed.

Lemma electrum_pub_total net s : returns (electrum_pub net s).
Proof.
  unfold electrum_pub. destruct (electrum_to_blob s); auto with c18. destruct (Nat.eqb _ _); auto with c18.
  apply catch_value_returns. apply value_total_bind. apply key_material_public_vt. intros; exact I.
Qed.

Lemma unsupported_total net s : returns (unsupported net s).
Proof. unfold unsupported. auto with c18. Qed.

(* --- public_pair: needs the generator itself to be on the curve (Key(1) is built first) --- *)
Lemma points_for_x_on_curve x pp :
  points_for_x modsqrt x = Ret pp -> on_curve (fst pp) = true /\ on_curve (snd pp) = true.
Proof.
  unfold points_for_x, mk_point. destruct (_ =? 0); [discriminate|].
  destruct (on_curve (x, modsqrt _)) eqn:E1; cbn [bind]; [|discriminate].
  destruct (on_curve (x, curve_p - modsqrt _)) eqn:E2; cbn [bind]; [|discriminate].
  destruct (_ =? 0); intros H; inversion H; subst; cbn; auto.
Qed.

Definition opt_on_curve (p : option (Z * Z)) : Prop :=
  match p with Some q => on_curve q = true | None => True end.

Lemma public_pair_step_spec c s pt :
  opt_on_curve pt ->
  public_pair_step int10 int16 modsqrt c s pt = Ret None \/
  exists q, public_pair_step int10 int16 modsqrt c s pt = Ret (Some q) /\ opt_on_curve q.
Proof.
  intros Hpt. unfold public_pair_step.
  destruct (split_at c s) as [[s0 s1]|]; [|right; eauto].
  destruct (as_number int10 int16 s0) as [v0|]; [|right; eauto].
  destruct (v0 =? 0); [right; eauto|].
  assert (Hstep1 :
    forall (st : outcome (option (option (Z * Z)))),
      (st = Ret None \/ exists q, st = Ret (Some q) /\ opt_on_curve q) ->
      match st with
      | Ret (Some point1) =>
        match as_number int10 int16 s1 with
        | None => Ret (Some point1)
        | Some v1 =>
          if v1 =? 0 then Ret (Some point1)
          else if on_curve (v0, v1) then bind (mk_point v0 v1) (fun pt => Ret (Some (Some pt)))
          else Ret (Some point1)
        end
      | other => other
      end = Ret None \/
      exists q,
      match st with
      | Ret (Some point1) =>
        match as_number int10 int16 s1 with
        | None => Ret (Some point1)
        | Some v1 =>
          if v1 =? 0 then Ret (Some point1)
          else if on_curve (v0, v1) then bind (mk_point v0 v1) (fun pt => Ret (Some (Some pt)))
          else Ret (Some point1)
        end
      | other => other
      end = Ret (Some q) /\ opt_on_curve q).
  { intros st [->|[q [-> Hq]]]. left; reflexivity.
    destruct (as_number int10 int16 s1) as [v1|]; [|right; eauto].
    destruct (v1 =? 0); [right; eauto|].
    destruct (on_curve (v0, v1)) eqn:E; [|right; eauto].
    unfold mk_point. rewrite E. cbn. right. eexists; split; [reflexivity|]. exact E. }
  apply Hstep1.
  destruct (_ || _).
  - pose proof (points_for_x_vt v0) as Hvt. destruct (points_for_x modsqrt v0) as [pp|e|] eqn:E; cbn in Hvt.
    + right. eexists; split; [reflexivity|]. apply points_for_x_on_curve in E as [E1 E2].
      cbn. unfold pick. destruct (text_eqb _ _); assumption.
    + rewrite Hvt. left; reflexivity.
    + contradiction.
  - right; eauto.
Qed.

Lemma public_pair_point_spec s :
  public_pair_point int10 int16 modsqrt s = Ret None \/
  exists pt, public_pair_point int10 int16 modsqrt s = Ret (Some pt) /\ on_curve pt = true.
Proof.
  unfold public_pair_point.
  destruct (public_pair_step_spec 44%N s None I) as [->|[q [-> Hq]]]; auto.
  destruct (public_pair_step_spec 47%N s q Hq) as [->|[q' [-> Hq']]]; auto.
  destruct q' as [pt|]; auto. right. eauto.
Qed.

Lemma keys_public_pair_vt pt : value_total (keys_public_pair pt).
Proof. unfold keys_public_pair. apply value_total_bind. apply key_material_public_vt. intros; exact I. Qed.

Lemma public_pair_total net s :
  on_curve (mulG 1) = true -> in_range (mulG 1) = true ->
  returns (public_pair int10 int16 mulG modsqrt net s).
Proof.
  intros HG HR. unfold public_pair, keys_private, key_material_private.
  replace (valid_exponent 1) with true by (vm_compute; reflexivity). rewrite HG, HR. cbn [bind].
  destruct (public_pair_point_spec s) as [E|[pt [E Hc]]]; rewrite E; cbn [bind]; auto with c18.
  apply catch_value_returns, keys_public_pair_vt.
Qed.

Lemma public_key_total net s :
  on_curve (mulG 1) = true -> in_range (mulG 1) = true ->
  returns (public_key int10 int16 mulG modsqrt net s).
Proof.
  intros HG HR. apply disabled_or_returns. apply first_of_returns. intros f [<-|[<-|[]]].
  apply public_pair_total; assumption. apply sec_total.
Qed.

(* whatever public_pair returns has coordinates in [0, p) and lies on the curve *)
Lemma public_pair_in_range net s o :
  public_pair int10 int16 mulG modsqrt net s = Ret (Some o) ->
  exists pt, o = OKey (Pub pt) true /\ on_curve pt = true /\ in_range pt = true.
Proof.
  unfold public_pair. destruct (keys_private mulG 1 true); cbn [bind]; try discriminate.
  destruct (public_pair_point int10 int16 modsqrt s) as [[pt|]| |]; cbn [bind]; try discriminate.
  unfold keys_public_pair, key_material_public.
  destruct (on_curve pt) eqn:C; cbn [bind catch_value is_value_error]; try discriminate.
  destruct (in_range pt) eqn:R; cbn [bind catch_value is_value_error]; try discriminate.
  intros [= <-]. eauto.
Qed.

End Total.

(* ---------------------------------------------------------------------------------------------- *)
(* the seed parsers and the dispatchers that contain them.  The only exclusion left: the derived key number is
   0 or >= n (Key.__init__ raises InvalidSecretExponentError outside any try; probability 2^-127, no input known) *)
Definition seed_exponent_bad (hmac512 : bytes -> bytes) (s : text) : bool :=
  match seed_secret s with
  | Ret (Some m) => negb (valid_exponent (from_bytes (take 32 (hmac512 m))))
  | _ => false
  end.
Definition electrum_seed_bad (stretch : bytes -> Z) (s : text) : bool :=
  match electrum_to_blob s with
  | Some blob => Nat.eqb (length blob) 16 && negb (valid_exponent (stretch blob))
  | None => false
  end.

Lemma seed_secret_returns s : exists m, seed_secret s = Ret m.
Proof.
  unfold seed_secret. destruct (parse_colon_prefix s) as [[a b]|]; eauto.
  destruct (negb _); eauto. destruct (text_eqb a tH). destruct (h2b b); eauto. destruct (utf8 b); eauto.
Qed.

Lemma split_at_spec c s a b : split_at c s = Some (a, b) -> s = a ++ c :: b.
Proof.
  revert a b; induction s as [|x r IH]; intros a b; cbn [split_at]. discriminate.
  destruct (N.eqb_spec x c) as [->|_]. intros [= <- <-]. reflexivity.
  destruct (split_at c r) as [[a' b']|]; [|discriminate]. intros [= <- <-]. cbn. f_equal. apply IH. reflexivity.
Qed.

Lemma text_eqb_eq a b : text_eqb a b = true -> a = b.
Proof.
  revert b; induction a as [|x a IH]; intros [|y b]; cbn; try discriminate; auto.
  intros H. apply andb_prop in H as [H1 H2]. apply N.eqb_eq in H1. f_equal; auto.
Qed.

(* a seed text starts with exactly "H:" or "P:" *)
Lemma seed_prefix_exact s m : seed_secret s = Ret (Some m) ->
  exists rest, s = tH ++ 58%N :: rest \/ s = tP ++ 58%N :: rest.
Proof.
  unfold seed_secret. destruct (parse_colon_prefix s) as [[a b]|] eqn:E; [|discriminate].
  apply split_at_spec in E. unfold in_HP.
  destruct (text_eqb a tH) eqn:EH. apply text_eqb_eq in EH; subst a. eauto.
  destruct (text_eqb a tP) eqn:EP; [|discriminate]. apply text_eqb_eq in EP; subst a. eauto.
Qed.

Section TotalSeeds.
Variable b58 : text -> outcome (option bytes).
Variable bech32 : text -> outcome (option (text * Z * bytes * bool)).
Variable int10 int16 : text -> option Z.
Variable compile : text -> option bytes.
Variable hmac512 : bytes -> bytes.
Variable stretch : bytes -> Z.
Variable mulG : Z -> Z * Z.
Variable modsqrt : Z -> Z.
Hypothesis Hhmac : forall m, length (hmac512 m) = 64%nat.
Hypothesis HmulG : forall k, valid_exponent k = true -> on_curve (mulG k) = true /\ in_range (mulG k) = true.

Lemma key_material_private_ok k : valid_exponent k = true -> key_material_private mulG k = Ret (Prv k (mulG k)).
Proof. intros H. unfold key_material_private. destruct (HmulG k H) as [C R]. rewrite H, C, R. reflexivity. Qed.

Lemma bip32_seed_total net s :
  seed_exponent_bad hmac512 s = false -> returns (bip32_seed hmac512 mulG net s).
Proof.
  intros H2. unfold bip32_seed. destruct (seed_secret_returns s) as [[m|] E]; unfold seed_exponent_bad in H2; rewrite E in *; cbn [bind].
  - apply negb_false_iff in H2. unfold from_master_secret.
    rewrite (key_material_private_ok _ H2). cbn [bind]. unfold drop. rewrite skipn_length, Hhmac. cbn. auto with c18.
  - auto with c18.
Qed.

Lemma hd_seed_total net s :
  seed_exponent_bad hmac512 s = false -> returns (hd_seed hmac512 mulG net s).
Proof. exact (bip32_seed_total net s). Qed.

Lemma electrum_seed_total net s :
  electrum_seed_bad stretch s = false -> returns (electrum_seed stretch mulG net s).
Proof.
  unfold electrum_seed_bad, electrum_seed. destruct (electrum_to_blob s) as [blob|]; auto with c18.
  destruct (Nat.eqb _ _); auto with c18. cbn [andb]. intros H. apply negb_false_iff in H.
  rewrite (key_material_private_ok _ H). cbn. auto with c18.
Qed.

Lemma hierarchical_key_total net s :
  seed_exponent_bad hmac512 s = false -> electrum_seed_bad stretch s = false ->
  returns (hierarchical_key b58 hmac512 stretch mulG modsqrt net s).
Proof.
  intros H2 H3. apply disabled_or_returns. apply first_of_returns.
  intros f [<-|[<-|[<-|[<-|[<-|[<-|[<-|[]]]]]]]].
  - apply bip32_seed_total; assumption.
  - apply hd_any_total.
  - apply hd_any_total.
  - apply hd_any_total.
  - apply electrum_seed_total; assumption.
  - apply electrum_prv_total.
  - apply electrum_pub_total.
Qed.

Lemma secret_total net s :
  seed_exponent_bad hmac512 s = false -> electrum_seed_bad stretch s = false ->
  returns (secret b58 int10 int16 hmac512 stretch mulG modsqrt net s).
Proof.
  intros H2 H3. apply first_of_returns. intros f [<-|[<-|[]]].
  apply private_key_total. apply hierarchical_key_total; assumption.
Qed.

Lemma parse_any_total net s :
  seed_exponent_bad hmac512 s = false -> electrum_seed_bad stretch s = false ->
  returns (parse_any b58 bech32 int10 int16 compile hmac512 stretch mulG modsqrt net s).
Proof.
  intros H2 H3. apply orelse_returns. apply payable_total. apply secret_total; assumption.
Qed.

End TotalSeeds.

(* ---------------------------------------------------------------------------------------------- *)
(* payloads of the wrong length / with out-of-range contents are refused *)
Lemma b58_script_wrong_length pre mk d :
  length d <> (length pre + 20)%nat -> b58_script_of_payload (Some pre) mk d = Ret None.
Proof.
  intros H. unfold b58_script_of_payload. destruct (negb (starts_with pre d)); [reflexivity|].
  apply Nat.eqb_neq in H. rewrite H. reflexivity.
Qed.

Lemma b58_script_no_prefix mk d : b58_script_of_payload None mk d = Ret None.
Proof. reflexivity. Qed.

Section Refuse.
Variable mulG : Z -> Z * Z.
Variable modsqrt : Z -> Z.

Lemma wif_wrong_length net pre d :
  n_wif net = Some pre -> length d <> (length pre + 32)%nat -> length d <> (length pre + 33)%nat ->
  wif_of_payload mulG net d = Ret None.
Proof.
  intros Hp H32 H33. unfold wif_of_payload. rewrite Hp.
  destruct (starts_with pre d) eqn:S; [|reflexivity]. cbn [negb].
  pose proof (starts_with_length _ _ S) as L.
  unfold drop. rewrite skipn_length.
  destruct (Nat.ltb_spec 32 (length d - length pre)).
  - replace (Nat.eqb (length d - length pre) 33) with false by (symmetry; apply Nat.eqb_neq; lia). reflexivity.
  - replace (Nat.eqb (length d - length pre) 32) with false by (symmetry; apply Nat.eqb_neq; lia). reflexivity.
Qed.

Lemma wif_bad_marker net pre d :
  n_wif net = Some pre -> length d = (length pre + 33)%nat -> skipn (length pre + 32) d <> [x01] ->
  wif_of_payload mulG net d = Ret None.
Proof.
  intros Hp L M. unfold wif_of_payload. rewrite Hp.
  destruct (starts_with pre d) eqn:S; [|reflexivity]. cbn [negb].
  unfold drop. rewrite skipn_length. replace (length d - length pre)%nat with 33%nat by lia.
  cbn [Nat.ltb Nat.leb Nat.eqb negb orb].
  rewrite <- skipn_add. rewrite (Nat.add_comm 32).
  destruct (bytes_eqb _ _) eqn:E; [|reflexivity]. apply bytes_eqb_eq in E. exfalso; apply M; exact E.
Qed.

Lemma keys_private_invalid se c : valid_exponent se = false -> catch_value (keys_private mulG se c) = Ret None.
Proof. intros H. unfold keys_private, key_material_private. rewrite H. reflexivity. Qed.

(* a WIF whose 32-byte number is 0 or >= n is refused *)
Lemma wif_bad_exponent net pre body :
  n_wif net = Some pre -> valid_exponent (from_bytes (firstn 32 body)) = false ->
  wif_of_payload mulG net (pre ++ body) = Ret None.
Proof.
  intros Hp V. unfold wif_of_payload. rewrite Hp, starts_with_app_intro. cbn [negb].
  unfold drop, take. rewrite skipn_app_exact.
  destruct (Nat.ltb 32 (length body)) eqn:E.
  - destruct (_ || _); [reflexivity|]. apply keys_private_invalid, V.
  - destruct (Nat.eqb (length body) 32) eqn:E2; [|reflexivity]. cbn [negb].
    apply Nat.eqb_eq in E2. rewrite <- E2, firstn_all in V. apply keys_private_invalid, V.
Qed.

Lemma hd_wrong_length pre kind d :
  length d <> 78%nat -> hd_of_payload mulG modsqrt pre kind d = Ret None.
Proof.
  intros H. unfold hd_of_payload. destruct pre; [|reflexivity]. destruct (negb _); [reflexivity|].
  unfold hd_deserialize. apply Nat.eqb_neq in H. rewrite H. reflexivity.
Qed.

(* an extended private key whose key number is 0 or >= n is refused *)
Lemma hd_bad_exponent pre kind d :
  length d = 78%nat -> slice 45 46 d = [x00] -> valid_exponent (from_bytes (skipn 46 d)) = false ->
  hd_of_payload mulG modsqrt pre kind d = Ret None.
Proof.
  intros L M V. unfold hd_of_payload. destruct pre; [|reflexivity]. destruct (negb _); [reflexivity|].
  unfold hd_deserialize. rewrite L. cbn [Nat.eqb negb]. rewrite M.
  cbn [bytes_eqb]. rewrite byte_eqb_refl. cbn [andb].
  unfold key_material_private, drop. rewrite V. reflexivity.
Qed.

(* an extended public key whose x coordinate is >= p is refused *)
Lemma hd_bad_x pre kind d :
  length d = 78%nat -> slice 45 46 d <> [x00] -> curve_p <= from_bytes (skipn 46 d) ->
  hd_of_payload mulG modsqrt pre kind d = Ret None.
Proof.
  intros L M V. unfold hd_of_payload. destruct pre; [|reflexivity]. destruct (negb _); [reflexivity|].
  unfold hd_deserialize. rewrite L. cbn [Nat.eqb negb].
  destruct (bytes_eqb (slice 45 46 d) _) eqn:E. apply bytes_eqb_eq in E. exfalso; apply M; exact E.
  unfold sec_to_public_pair, drop.
  assert (Hx : slice 1 33 (skipn 45 d) = skipn 46 d).
  { unfold slice. rewrite <- skipn_add. cbn [Nat.add Nat.sub]. apply firstn_all2. rewrite skipn_length. lia. }
  rewrite Hx. apply Z.leb_le in V. rewrite V. reflexivity.
Qed.

End Refuse.

Lemma segwit_wrong_length net ver len mk hrp version data is_m :
  length data <> len -> segwit_of_decoded net ver len mk (hrp, version, data, is_m) = Ret None.
Proof.
  intros H. unfold segwit_of_decoded. destruct (n_hrp net); [|reflexivity].
  destruct (negb (text_eqb _ _)); [reflexivity|]. apply Nat.eqb_neq in H. rewrite H. reflexivity.
Qed.

(* ---------------------------------------------------------------------------------------------- *)
(* re-serialisation at payload level *)
Lemma firstn_app_len {A} n (a b : list A) : length a = n -> firstn n (a ++ b) = a.
Proof. intros <-. apply firstn_app_exact. Qed.

Lemma p2pkh_reserialize net d o : p2pkh_of_payload net d = Ret (Some o) -> p2pkh_payload net o = Some d.
Proof.
  unfold p2pkh_of_payload, b58_script_of_payload, p2pkh_payload.
  destruct (n_address net) as [pre|]; [|discriminate].
  destruct (starts_with pre d) eqn:S; [|discriminate]. cbn [negb].
  destruct (Nat.eqb _ _) eqn:L; [|discriminate]. cbn [negb]. intros H; inversion H; subst o; clear H.
  apply Nat.eqb_eq in L. f_equal. unfold script_p2pkh, take, drop. cbn [skipn app].
  rewrite firstn_app_len by (rewrite skipn_length; lia). symmetry. apply starts_with_app, S.
Qed.

Lemma p2sh_reserialize net d o : p2sh_of_payload net d = Ret (Some o) -> p2sh_payload net o = Some d.
Proof.
  unfold p2sh_of_payload, b58_script_of_payload, p2sh_payload.
  destruct (n_p2sh net) as [pre|]; [|discriminate].
  destruct (starts_with pre d) eqn:S; [|discriminate]. cbn [negb].
  destruct (Nat.eqb _ _) eqn:L; [|discriminate]. cbn [negb]. intros H; inversion H; subst o; clear H.
  apply Nat.eqb_eq in L. f_equal. unfold script_p2sh, take, drop. cbn [skipn app].
  rewrite firstn_app_len by (rewrite skipn_length; lia). symmetry. apply starts_with_app, S.
Qed.

Lemma skipn_split {A} a b (l : list A) : (a <= b)%nat -> skipn a l = slice a b l ++ skipn b l.
Proof.
  intros H. unfold slice. replace (skipn b l) with (skipn (b - a) (skipn a l)).
  symmetry. apply firstn_skipn. rewrite <- skipn_add. f_equal. lia.
Qed.

Lemma be_decode_single (l : bytes) : length l = 1%nat -> [n2b (be_decode l)] = l.
Proof.
  destruct l as [|b [|c r]]; try discriminate. intros _. unfold be_decode. cbn [rev app le_decode].
  f_equal. rewrite N.mul_0_r, N.add_0_r. apply n2b_b2n.
Qed.

Lemma catch_value_inv m o : catch_value m = Ret (Some o) -> m = Ret o.
Proof. destruct m; cbn; try discriminate. intros H; inversion H; reflexivity. destruct (is_value_error e); discriminate. Qed.

Lemma key_material_public_inv pt k : key_material_public pt = Ret k -> k = Pub pt.
Proof. unfold key_material_public. destruct (on_curve _); [|discriminate]. destruct (in_range _); [|discriminate]. intros H; inversion H; reflexivity. Qed.
Lemma key_material_public_facts pt k : key_material_public pt = Ret k -> on_curve pt = true /\ in_range pt = true.
Proof. unfold key_material_public. destruct (on_curve _); [|discriminate]. destruct (in_range _); [|discriminate]. auto. Qed.

Section Reser.
Variable mulG : Z -> Z * Z.
Variable modsqrt : Z -> Z.

Lemma catch_value_keys_private_inv se c o :
  catch_value (keys_private mulG se c) = Ret (Some o) -> exists pt, o = OKey (Prv se pt) c.
Proof.
  unfold keys_private, key_material_private. destruct (valid_exponent se); [|cbn; discriminate].
  destruct (on_curve _); cbn; [|discriminate]. destruct (in_range _); cbn; [|discriminate]. intros H; inversion H. eauto.
Qed.

Lemma wif_reserialize net d o : wif_of_payload mulG net d = Ret (Some o) -> wif_payload net o = Some d.
Proof.
  unfold wif_of_payload, wif_payload. destruct (n_wif net) as [pre|]; [|discriminate].
  destruct (starts_with pre d) eqn:S; [|discriminate]. cbn [negb].
  pose proof (starts_with_app _ _ S) as Hd. set (body := drop (length pre) d) in *.
  destruct (Nat.ltb 32 (length body)) eqn:C.
  - destruct (Nat.eqb (length body) 33) eqn:L; [|discriminate]. cbn [negb orb].
    destruct (bytes_eqb (drop 32 body) [x01]) eqn:M; [|discriminate]. cbn [negb].
    intros H. apply catch_value_keys_private_inv in H as [pt ->].
    apply Nat.eqb_eq in L. apply bytes_eqb_eq in M.
    rewrite to_from_bytes_32 by (unfold take; rewrite firstn_length; lia).
    f_equal. etransitivity; [|symmetry; exact Hd]. f_equal. change (skipn (length pre) d) with body.
    rewrite <- M. unfold take, drop. apply firstn_skipn.
  - destruct (Nat.eqb (length body) 32) eqn:L; [|discriminate]. cbn [negb].
    intros H. apply catch_value_keys_private_inv in H as [pt ->].
    apply Nat.eqb_eq in L. rewrite to_from_bytes_32 by exact L.
    f_equal. rewrite app_nil_r. symmetry. exact Hd.
Qed.

(* hd: deserialize looks only at bytes 4..77 *)
Lemma hd_deserialize_ext kind d d' :
  length d = length d' -> skipn 4 d = skipn 4 d' -> hd_deserialize mulG modsqrt kind d = hd_deserialize mulG modsqrt kind d'.
Proof.
  intros L E. unfold hd_deserialize. rewrite L.
  assert (Hs : forall a b, (4 <= a)%nat -> slice a b d = slice a b d').
  { intros a b Ha. unfold slice. replace a with ((a - 4) + 4)%nat by lia. rewrite !skipn_add, E. reflexivity. }
  assert (Hk : forall a, (4 <= a)%nat -> drop a d = drop a d').
  { intros a Ha. unfold drop. replace a with ((a - 4) + 4)%nat by lia. rewrite !skipn_add, E. reflexivity. }
  rewrite !Hs by lia. rewrite !Hk by lia. reflexivity.
Qed.

(* points_for_x returns (even-y point, odd-y point), both with the requested x *)
Lemma points_for_x_shape x pp :
  points_for_x modsqrt x = Ret pp ->
  fst (fst pp) = x /\ fst (snd pp) = x /\ Z.land (snd (fst pp)) 1 = 0 /\ Z.land (snd (snd pp)) 1 = 1.
Proof.
  unfold points_for_x, mk_point. destruct (_ =? 0); [discriminate|].
  destruct (on_curve (x, modsqrt _)); cbn [bind]; [|discriminate].
  destruct (on_curve (x, curve_p - modsqrt _)); cbn [bind]; [|discriminate].
  destruct (Z.eqb_spec (Z.land (modsqrt (((x ^ 3) mod curve_p + curve_a * x + curve_b) mod curve_p)) 1) 0) as [E|E];
    intros H; inversion H; subst; cbn [fst snd]; repeat split; auto.
  - apply parity_sub; [apply curve_p_odd | exact E].
  - apply parity_sub'; [apply curve_p_odd | exact E].
  - destruct (land1_cases (modsqrt (((x ^ 3) mod curve_p + curve_a * x + curve_b) mod curve_p))); [contradiction|assumption].
Qed.




Lemma key_material_private_inv se k : key_material_private mulG se = Ret k -> exists pt, k = Prv se pt.
Proof.
  unfold key_material_private. destruct (valid_exponent se); [|discriminate]. destruct (on_curve _); [|discriminate].
  destruct (in_range _); [|discriminate]. intros H; inversion H; eauto.
Qed.

(* a 33-byte SEC that decodes re-encodes (compressed) to itself *)
Lemma sec33_roundtrip sec pt :
  length sec = 33%nat -> sec_to_public_pair modsqrt sec = Ret pt -> sec_compressed pt = Ret sec.
Proof.
  intros L. unfold sec_to_public_pair. destruct (curve_p <=? _); [discriminate|].
  rewrite L. cbn [Nat.eqb].
  assert (Hsec : sec = take 1 sec ++ slice 1 33 sec).
  { unfold take, slice. cbn [Nat.sub]. rewrite (firstn_all2 (n := 32)) by (rewrite skipn_length; lia).
    symmetry. apply firstn_skipn. }
  assert (L32 : length (slice 1 33 sec) = 32%nat) by (apply slice_length; lia).
  set (xs := slice 1 33 sec) in *. set (s0 := take 1 sec) in *.
  destruct (bytes_eqb s0 [x02]) eqn:E2; cbn [orb negb].
  - destruct (points_for_x modsqrt (from_bytes xs)) as [pp| |] eqn:P; cbn [bind]; try discriminate.
    intros H; inversion H; subst pt; clear H. apply points_for_x_shape in P as (X0 & X1 & Y0 & Y1).
    unfold sec_compressed, pick. rewrite X0, to_from_bytes_32 by exact L32. cbn [bind]. rewrite Y0.
    apply bytes_eqb_eq in E2. rewrite Hsec, E2. reflexivity.
  - destruct (bytes_eqb s0 [x03]) eqn:E3; [|discriminate].
    destruct (points_for_x modsqrt (from_bytes xs)) as [pp| |] eqn:P; cbn [bind]; try discriminate.
    intros H; inversion H; subst pt; clear H. apply points_for_x_shape in P as (X0 & X1 & Y0 & Y1).
    unfold sec_compressed, pick. rewrite X1, to_from_bytes_32 by exact L32. cbn [bind]. rewrite Y1.
    apply bytes_eqb_eq in E3. rewrite Hsec, E3. reflexivity.
Qed.

Lemma hd_deserialize_payload net kind d o pre' :
  hd_deserialize mulG modsqrt kind d = Ret o ->
  (if obj_is_private o then n_hd_prv net kind else n_hd_pub net kind) = Some pre' ->
  hd_payload net o = Some (pre' ++ skipn 4 d).
Proof.
  unfold hd_deserialize. destruct (Nat.eqb (length d) 78) eqn:L; [|discriminate]. cbn [negb].
  apply Nat.eqb_eq in L.
  assert (Hsplit : skipn 4 d = slice 4 5 d ++ slice 5 9 d ++ slice 9 13 d ++ slice 13 45 d ++ skipn 45 d).
  { rewrite (skipn_split 4 5) by lia. f_equal. rewrite (skipn_split 5 9) by lia. f_equal.
    rewrite (skipn_split 9 13) by lia. f_equal. rewrite (skipn_split 13 45) by lia. reflexivity. }
  assert (Hdepth : [n2b (be_decode (slice 4 5 d))] = slice 4 5 d) by (apply be_decode_single, slice_length; lia).
  assert (Hidx : be_encode 4 (be_decode (slice 9 13 d)) = slice 9 13 d).
  { assert (L4 : length (slice 9 13 d) = 4%nat) by (apply slice_length; lia). rewrite <- L4 at 1. apply be_encode_decode. }
  assert (Ltail : length (drop 46 d) = 32%nat) by (unfold drop; rewrite skipn_length; lia).
  assert (Lsec : length (drop 45 d) = 33%nat) by (unfold drop; rewrite skipn_length; lia).
  assert (Htail : skipn 45 d = slice 45 46 d ++ drop 46 d) by (apply skipn_split; lia).
  remember (drop 46 d) as tail eqn:Et. remember (drop 45 d) as sec eqn:Es.
  remember (slice 4 5 d) as s_depth. remember (slice 5 9 d) as s_fp. remember (slice 9 13 d) as s_idx.
  remember (slice 13 45 d) as s_chain. remember (slice 45 46 d) as s_mark.
  destruct (bytes_eqb s_mark [x00]) eqn:M.
  - destruct (key_material_private mulG (from_bytes tail)) as [k| |] eqn:K; cbn [bind]; try discriminate.
    apply key_material_private_inv in K as [pt ->]. intros [= <-].
    cbn [obj_is_private]. intros Hp. unfold hd_payload. rewrite Hp.
    rewrite (to_from_bytes_32 _ Ltail).
    f_equal. f_equal. rewrite Hsplit, Hdepth, Hidx, Htail. rewrite <- !app_assoc. do 4 f_equal.
    apply bytes_eqb_eq in M. rewrite M. reflexivity.
  - destruct (sec_to_public_pair modsqrt sec) as [pt| |] eqn:S; cbn [bind]; try discriminate.
    destruct (key_material_public pt) as [k| |] eqn:K; cbn [bind]; try discriminate.
    apply key_material_public_inv in K; subst k. intros [= <-].
    cbn [obj_is_private]. intros Hp. unfold hd_payload. rewrite Hp.
    rewrite (sec33_roundtrip _ _ Lsec S).
    f_equal. f_equal. rewrite Hsplit, Hdepth, Hidx. rewrite <- !app_assoc. rewrite Es. reflexivity.
Qed.

Lemma hd_reserialize net pre kind d o pre' :
  hd_of_payload mulG modsqrt (Some pre) kind d = Ret (Some o) ->
  length pre' = 4%nat ->
  (if obj_is_private o then n_hd_prv net kind else n_hd_pub net kind) = Some pre' ->
  hd_payload net o = Some (pre' ++ skipn 4 d) /\
  hd_of_payload mulG modsqrt (Some pre') kind (pre' ++ skipn 4 d) = Ret (Some o).
Proof.
  unfold hd_of_payload at 1. destruct (negb (starts_with pre d)); [discriminate|].
  intros H L4 Hp. apply catch_value_inv in H. split.
  - eapply hd_deserialize_payload; eassumption.
  - unfold hd_of_payload. rewrite starts_with_app_intro. cbn [negb].
    rewrite <- (hd_deserialize_ext kind d). rewrite H. reflexivity.
    + unfold hd_deserialize in H. destruct (Nat.eqb (length d) 78) eqn:L; [|discriminate].
      apply Nat.eqb_eq in L. rewrite app_length, skipn_length. lia.
    + rewrite <- L4. rewrite skipn_app_exact. reflexivity.
Qed.

End Reser.

(* ---------------------------------------------------------------------------------------------- *)
(* kinds are kept apart *)
Lemma all_kinds_complete k : In k all_kinds.
Proof. destruct k as [| | |[| |] [|]]; cbn; tauto. Qed.

Lemma kind_eqb_true a b : kind_eqb a b = true -> a = b.
Proof.
  destruct a as [| | |k1 p1], b as [| | |k2 p2]; cbn; try discriminate; try reflexivity.
  intros H. apply andb_prop in H as [H1 H2]. apply Bool.eqb_prop in H1. subst p2.
  destruct k1, k2; try discriminate; reflexivity.
Qed.

Lemma lengths_meet_intro n l1 l2 : In n l1 -> In n l2 -> lengths_meet l1 l2 = true.
Proof.
  intros H1 H2. unfold lengths_meet. apply existsb_exists. exists n. split; [exact H1|].
  apply existsb_exists. exists n. split; [exact H2|]. apply Nat.eqb_refl.
Qed.

Section KindsP.
Variable mulG : Z -> Z * Z.
Variable modsqrt : Z -> Z.

Lemma accepted_shape net k d :
  accepted (parse_kind mulG modsqrt net k d) ->
  exists pre, kind_prefix net k = Some pre /\ starts_with pre d = true /\ In (length d) (kind_lengths pre k).
Proof.
  intros [o H]. destruct k as [| | |kind prv]; cbn [parse_kind kind_prefix] in *.
  - unfold p2pkh_of_payload, b58_script_of_payload in H. destruct (n_address net) as [pre|]; [|discriminate].
    exists pre. destruct (starts_with pre d); [|discriminate]. cbn [negb] in H.
    destruct (Nat.eqb _ _) eqn:L; [|discriminate]. apply Nat.eqb_eq in L.
    repeat split. cbn. left. lia.
  - unfold p2sh_of_payload, b58_script_of_payload in H. destruct (n_p2sh net) as [pre|]; [|discriminate].
    exists pre. destruct (starts_with pre d); [|discriminate]. cbn [negb] in H.
    destruct (Nat.eqb _ _) eqn:L; [|discriminate]. apply Nat.eqb_eq in L.
    repeat split. cbn. left. lia.
  - unfold wif_of_payload in H. destruct (n_wif net) as [pre|]; [|discriminate].
    exists pre. destruct (starts_with pre d) eqn:S; [|discriminate]. cbn [negb] in H.
    pose proof (starts_with_length _ _ S) as Lp.
    unfold drop in H. rewrite !skipn_length in H. repeat split. cbn.
    destruct (Nat.ltb 32 _).
    + destruct (Nat.eqb (length d - length pre) 33) eqn:L; [|discriminate]. apply Nat.eqb_eq in L. right; left; lia.
    + destruct (Nat.eqb (length d - length pre) 32) eqn:L; [|discriminate]. apply Nat.eqb_eq in L. left; lia.
  - destruct prv; cbn [kind_prefix] in *; unfold hd_of_payload in H.
    + destruct (n_hd_prv net kind) as [pre|]; [|discriminate]. exists pre.
      destruct (starts_with pre d); [|discriminate]. cbn [negb] in H. apply catch_value_inv in H.
      unfold hd_deserialize in H. destruct (Nat.eqb (length d) 78) eqn:L; [|discriminate]. apply Nat.eqb_eq in L.
      repeat split. cbn. left. lia.
    + destruct (n_hd_pub net kind) as [pre|]; [|discriminate]. exists pre.
      destruct (starts_with pre d); [|discriminate]. cbn [negb] in H. apply catch_value_inv in H.
      unfold hd_deserialize in H. destruct (Nat.eqb (length d) 78) eqn:L; [|discriminate]. apply Nat.eqb_eq in L.
      repeat split. cbn. left. lia.
Qed.

Lemma kinds_disjoint net :
  kinds_separated net = true ->
  forall d k1 k2, k1 <> k2 ->
  accepted (parse_kind mulG modsqrt net k1 d) -> accepted (parse_kind mulG modsqrt net k2 d) -> False.
Proof.
  intros Hs d k1 k2 Hne A1 A2. unfold kinds_separated in Hs.
  rewrite forallb_forall in Hs. specialize (Hs k1 (all_kinds_complete k1)).
  rewrite forallb_forall in Hs. specialize (Hs k2 (all_kinds_complete k2)).
  apply orb_prop in Hs as [E|Hp]. apply kind_eqb_true in E. contradiction.
  apply accepted_shape in A1 as (p1 & P1 & S1 & L1). apply accepted_shape in A2 as (p2 & P2 & S2 & L2).
  unfold pair_separated in Hp. rewrite P1, P2 in Hp.
  rewrite (starts_with_both_comparable _ _ _ S1 S2), (lengths_meet_intro _ _ _ L1 L2) in Hp. discriminate.
Qed.

End KindsP.

Lemma table_kinds_separated : forallb kinds_separated table_cfgs = true.
Proof. vm_compute. reflexivity. Qed.

(* the three segwit forms exclude one another on the same decoded tuple *)
Lemma segwit_kinds_disjoint net v :
  (accepted (segwit_of_decoded net 0 20 script_wit0 v) -> accepted (segwit_of_decoded net 0 32 script_wit0 v) -> False) /\
  (accepted (segwit_of_decoded net 0 20 script_wit0 v) -> accepted (segwit_of_decoded net 1 32 script_p2tr v) -> False) /\
  (accepted (segwit_of_decoded net 0 32 script_wit0 v) -> accepted (segwit_of_decoded net 1 32 script_p2tr v) -> False).
Proof.
  destruct v as [[[hrp version] data] is_m]. unfold segwit_of_decoded, accepted.
  destruct (n_hrp net); [|repeat split; intros [o H]; discriminate].
  destruct (negb (text_eqb hrp t)); [repeat split; intros [o H]; discriminate|].
  repeat split; intros [o1 H1] [o2 H2];
    destruct (Nat.eqb (length data) 20) eqn:L20; destruct (Nat.eqb (length data) 32) eqn:L32;
    cbn [negb] in *; try discriminate;
    try (apply Nat.eqb_eq in L20; apply Nat.eqb_eq in L32; lia);
    destruct (Z.eqb_spec 0 version); destruct (Z.eqb_spec 1 version); cbn [negb] in *; try discriminate; lia.
Qed.

(* the decoded tuple is determined by the object: (hrp, version, program, spec) *)
Lemma segwit_canonical net ver len mk v o :
  segwit_of_decoded net ver len mk v = Ret (Some o) ->
  exists hrp data, n_hrp net = Some hrp /\ text_eqb (fst (fst (fst v))) hrp = true /\
    v = (fst (fst (fst v)), ver, data, negb (ver =? 0)) /\ length data = len /\ o = OContract (mk data).
Proof.
  destruct v as [[[hrp version] data] is_m]. unfold segwit_of_decoded.
  destruct (n_hrp net) as [h|]; [|discriminate].
  destruct (text_eqb hrp h) eqn:E; [|discriminate]. cbn [negb].
  destruct (Nat.eqb (length data) len) eqn:L; [|discriminate]. cbn [negb].
  destruct (Z.eqb_spec ver version); [|discriminate]. subst version. cbn [negb].
  destruct (ver =? 0), is_m; cbn; try discriminate; intros [= <-];
    exists h, data; apply Nat.eqb_eq in L; repeat split; auto.
Qed.

(* ---------------------------------------------------------------------------------------------- *)
(* text level: for EVERY decoder/encoder pair with decode (encode d) = Some d *)
Section TextLevel.
Variable b58 : text -> outcome (option bytes).
Variable b58enc : bytes -> text.
Hypothesis Hrt : forall d, b58c b58 (b58enc d) = Some d.
Variable mulG : Z -> Z * Z.
Variable modsqrt : Z -> Z.

Lemma via_b58_inv f s o : via_b58 b58 f s = Ret (Some o) -> exists d, b58c b58 s = Some d /\ f d = Ret (Some o).
Proof. unfold via_b58. destruct (b58c b58 s) as [d|]; [|discriminate]. eauto. Qed.

Lemma via_b58_enc f d : via_b58 b58 f (b58enc d) = f d.
Proof. unfold via_b58. rewrite Hrt. reflexivity. Qed.

Lemma p2pkh_text_reserialize net s o :
  p2pkh b58 net s = Ret (Some o) ->
  exists d, p2pkh_payload net o = Some d /\ p2pkh b58 net (b58enc d) = Ret (Some o).
Proof.
  intros H. apply via_b58_inv in H as (d & _ & H). exists d. split. apply p2pkh_reserialize, H.
  unfold p2pkh. rewrite via_b58_enc. exact H.
Qed.

Lemma p2sh_text_reserialize net s o :
  p2sh b58 net s = Ret (Some o) ->
  exists d, p2sh_payload net o = Some d /\ p2sh b58 net (b58enc d) = Ret (Some o).
Proof.
  intros H. apply via_b58_inv in H as (d & _ & H). exists d. split. apply p2sh_reserialize, H.
  unfold p2sh. rewrite via_b58_enc. exact H.
Qed.

Lemma wif_text_reserialize net s o :
  wif b58 mulG net s = Ret (Some o) ->
  exists d, wif_payload net o = Some d /\ wif b58 mulG net (b58enc d) = Ret (Some o).
Proof.
  intros H. apply via_b58_inv in H as (d & _ & H). exists d. split. apply (wif_reserialize mulG modsqrt), H.
  unfold wif. rewrite via_b58_enc. exact H.
Qed.

Lemma hd_of_payload_other_prefix p q kind d o :
  hd_of_payload mulG modsqrt (Some p) kind d = Ret (Some o) ->
  hd_of_payload mulG modsqrt (Some q) kind d = Ret (Some o) \/ hd_of_payload mulG modsqrt (Some q) kind d = Ret None.
Proof.
  unfold hd_of_payload. destruct (negb (starts_with p d)); [discriminate|]. intros H.
  destruct (negb (starts_with q d)); auto.
Qed.

Definition hd_prefixes_ok (net : netcfg) (kind : hdkind) : Prop :=
  exists p q, n_hd_prv net kind = Some p /\ n_hd_pub net kind = Some q /\ length p = 4%nat /\ length q = 4%nat.

Lemma hd_text_reserialize net kind s o :
  hd_prefixes_ok net kind ->
  hd_any b58 mulG modsqrt net kind s = Ret (Some o) ->
  exists d, hd_payload net o = Some d /\ hd_any b58 mulG modsqrt net kind (b58enc d) = Ret (Some o).
Proof.
  intros (p & q & Pp & Pq & Lp & Lq) H.
  assert (Hparsed : exists pre d0, hd_of_payload mulG modsqrt (Some pre) kind d0 = Ret (Some o)).
  { unfold hd_any, hd_prv, hd_pub in H. rewrite Pp, Pq in H.
    destruct (via_b58 b58 (hd_of_payload mulG modsqrt (Some p) kind) s) as [[o'|]| |] eqn:E1; cbn [orelse] in H; try discriminate.
    - inversion H; subst o'. apply via_b58_inv in E1 as (d0 & _ & E1). eauto.
    - apply via_b58_inv in H as (d0 & _ & H). eauto. }
  destruct Hparsed as (pre & d0 & H0).
  set (pre' := if obj_is_private o then p else q).
  assert (L' : length pre' = 4%nat) by (unfold pre'; destruct (obj_is_private o); assumption).
  assert (P' : (if obj_is_private o then n_hd_prv net kind else n_hd_pub net kind) = Some pre')
    by (unfold pre'; destruct (obj_is_private o); assumption).
  destruct (hd_reserialize mulG modsqrt net pre kind d0 o pre' H0 L' P') as [Hpay Hre].
  exists (pre' ++ skipn 4 d0). split; [exact Hpay|].
  unfold hd_any, hd_prv, hd_pub. rewrite !via_b58_enc, Pp, Pq.
  destruct (hd_of_payload_other_prefix _ p _ _ _ Hre) as [E|E]; rewrite E; cbn [orelse]; [reflexivity|].
  destruct (hd_of_payload_other_prefix _ q _ _ _ Hre) as [E'|E']; rewrite E'; [reflexivity|].
  (* pre' is p or q, so one of them parses *)
  exfalso. unfold pre' in *. destruct (obj_is_private o); rewrite Hre in *; discriminate.
Qed.

End TextLevel.

(* every network of the table that defines an extended-key kind defines both 4-byte prefixes *)
Definition hd_prefixes_okb (net : netcfg) (kind : hdkind) : bool :=
  match n_hd_prv net kind, n_hd_pub net kind with
  | Some p, Some q => Nat.eqb (length p) 4 && Nat.eqb (length q) 4
  | None, None => true
  | _, _ => false
  end.
Lemma table_hd_prefixes : forallb (fun net => forallb (hd_prefixes_okb net) [Bip32; Bip49; Bip84]) table_cfgs = true.
Proof. vm_compute. reflexivity. Qed.

Lemma hd_prefixes_okb_ok net kind p : hd_prefixes_okb net kind = true -> n_hd_prv net kind = Some p -> hd_prefixes_ok net kind.
Proof.
  unfold hd_prefixes_okb, hd_prefixes_ok. intros H Hp. rewrite Hp in H. destruct (n_hd_pub net kind) as [q|]; [|discriminate].
  apply andb_prop in H as [H1 H2]. apply Nat.eqb_eq in H1. apply Nat.eqb_eq in H2. exists p, q. auto.
Qed.

(* which kind of node comes back is decided by the key marker byte, not by the prefix *)
Lemma hd_privacy_is_marker mulG modsqrt pre kind d o :
  hd_of_payload mulG modsqrt pre kind d = Ret (Some o) -> obj_is_private o = bytes_eqb (slice 45 46 d) [x00].
Proof.
  unfold hd_of_payload. destruct pre; [|discriminate]. destruct (negb _); [discriminate|]. intros H.
  apply catch_value_inv in H. unfold hd_deserialize in H. destruct (negb _); [discriminate|].
  destruct (bytes_eqb (slice 45 46 d) [x00]).
  - destruct (key_material_private mulG _) as [k| |] eqn:K; cbn [bind] in H; try discriminate.
    apply key_material_private_inv in K as [pt ->]. injection H as <-. reflexivity.
  - destruct (sec_to_public_pair modsqrt _) as [pt| |]; cbn [bind] in H; try discriminate.
    destruct (key_material_public pt) as [k| |] eqn:K; cbn [bind] in H; try discriminate.
    apply key_material_public_inv in K; subst k. injection H as <-. reflexivity.
Qed.

(* ---------------------------------------------------------------------------------------------- *)
(* concrete witnesses for the defects (honest instances of the oracles: a real decimal parser, the real
   modular square root pow(a, (p+1)/4, p), the generator itself for exponent 1) *)
Local Transparent Z.pow Z.modulo Z.mul Z.add Z.sub Z.land.

Fixpoint powmod_pos (a : Z) (e : positive) (m : Z) : Z :=
  match e with
  | xH => a mod m
  | xO e' => let t := powmod_pos a e' m in (t * t) mod m
  | xI e' => let t := powmod_pos a e' m in (t * t * a) mod m
  end.
Definition modsqrt_real (a : Z) : Z :=
  match (curve_p + 1) / 4 with Zpos e => powmod_pos a e curve_p | _ => 0 end.
Definition mulG_w (k : Z) : Z * Z := (curve_gx, curve_gy).    (* only k = 1 is asked by the witnesses *)

Fixpoint dec10_acc (s : text) (acc : Z) : option Z :=
  match s with
  | [] => Some acc
  | c :: r => if (48 <=? c)%N && (c <=? 57)%N then dec10_acc r (10 * acc + Z.of_N (c - 48)) else None
  end.
Definition dec10 (s : text) : option Z := match s with [] => None | _ => dec10_acc s 0 end.
Definition no_int (s : text) : option Z := None.

Definition sym_of_row (r : string * bool * (option bytes * option bytes * option bytes) * (string * option string)
    * ((option bytes * option bytes) * (option bytes * option bytes) * (option bytes * option bytes))) : string :=
  fst (fst (fst (fst r))).
Definition cfg_by_symbol (sym : string) : option netcfg :=
  option_map cfg_of_row (find (fun r => String.eqb (sym_of_row r) sym) parse_networks).
Definition empty_cfg : netcfg :=
  {| n_disabled := false; n_address := None; n_p2sh := None; n_wif := None; n_sec_prefix := []; n_hrp := None;
     n_hd_prv := fun _ => None; n_hd_pub := fun _ => None |}.
Definition btc_cfg : netcfg := match cfg_by_symbol "btc" with Some c => c | None => empty_cfg end.

Definition y_for_x1 : Z := 29896722852569046015560700294576055776214335159245303116488692907525646231534.

(* 1. the text form of a public key ("BTCSEC:02...") parses back (it did not before the SEC prefix was stripped) *)
Definition w_sec_hex : text :=
  text_of_string "020000000000000000000000000000000000000000000000000000000000000001".
Definition w_sec_key : obj := OKey (Pub (1, y_for_x1)) true.
Definition w_sec_text : text :=
  text_of_string "BTCSEC:020000000000000000000000000000000000000000000000000000000000000001".

Lemma w_sec_parses : public_key dec10 no_int mulG_w modsqrt_real btc_cfg w_sec_hex = Ret (Some w_sec_key).
Proof. vm_compute. reflexivity. Qed.
Lemma w_sec_as_text : public_key_text btc_cfg w_sec_key = Ret w_sec_text.
Proof. vm_compute. reflexivity. Qed.
Lemma w_sec_reparsed : public_key dec10 no_int mulG_w modsqrt_real btc_cfg w_sec_text = Ret (Some w_sec_key).
Proof. vm_compute. reflexivity. Qed.

(* 2. public_pair: x = p + 1 names the point with x = 1; Key.__init__ refuses it and public_pair returns None *)
Definition w_pair_text : text :=
  text_of_string "115792089237316195423570985008687907853269984665640564039457584007908834671664/even".
Lemma w_pair_refused :
  public_pair dec10 no_int mulG_w modsqrt_real btc_cfg w_pair_text = Ret None /\
  public_key dec10 no_int mulG_w modsqrt_real btc_cfg w_pair_text = Ret None.
Proof. split; vm_compute; reflexivity. Qed.
(* electrum_pub catches the same refusal *)
Definition w_electrum_text : text :=
  text_of_string "E:fffffffffffffffffffffffffffffffffffffffffffffffffffffffefffffc304218f20ae6c646b363db68605822fb14264ca8d2587fdd6fbc750d587e76a7ee".
Lemma w_electrum_refused : electrum_pub btc_cfg w_electrum_text = Ret None.
Proof. vm_compute. reflexivity. Qed.

(* 3. an xpub-prefixed payload whose key field is 00 || k comes back from bip32_pub as a PRIVATE node *)
Definition w_hd_payload : bytes :=
  [x04; x88; xb2; x1e] ++ repeatb x00 (1 + 4 + 4 + 32) ++ [x00] ++ repeatb x00 31 ++ [x01].
Lemma w_hd_pub_gives_private :
  hd_pub (fun _ => Ret (Some w_hd_payload)) mulG_w modsqrt_real btc_cfg Bip32 [] =
  Ret (Some (OHd Bip32 0 [x00; x00; x00; x00] 0 (repeatb x00 32) (Prv 1 (curve_gx, curve_gy)))).
Proof. vm_compute. reflexivity. Qed.

(* 4. the seed prefix is exactly "H" or "P" now *)
Lemma w_seed_prefix_refused : seed_secret [58%N] = Ret None /\ seed_secret (text_of_string "HP:abc") = Ret None
  /\ seed_secret [80; 58; 55296]%N = Ret None.
Proof. repeat split; vm_compute; reflexivity. Qed.

Local Opaque Z.pow Z.modulo Z.mul Z.add Z.sub Z.land.

(* ---------------------------------------------------------------------------------------------- *)
(* public keys parsed by sec(): the text form minus the network's SEC prefix parses back *)
Lemma hexval_hexdigit v : (v < 16)%N -> hexval (hexdigit v) = Some v.
Proof.
  intros H. unfold hexval, hexdigit. destruct (N.ltb_spec v 10).
  - replace (48 <=? 48 + v)%N with true by (symmetry; apply N.leb_le; lia).
    replace (48 + v <=? 57)%N with true by (symmetry; apply N.leb_le; lia). cbn [andb]. f_equal. lia.
  - replace (87 + v <=? 57)%N with false by (symmetry; apply N.leb_gt; lia). rewrite andb_false_r.
    replace (97 <=? 87 + v)%N with true by (symmetry; apply N.leb_le; lia).
    replace (87 + v <=? 102)%N with true by (symmetry; apply N.leb_le; lia). cbn [andb]. f_equal. lia.
Qed.

Lemma h2b_b2h b : h2b (b2h b) = Some b.
Proof.
  induction b as [|x r IH]. reflexivity.
  cbn [b2h h2b]. pose proof (b2n_lt x) as Hx.
  rewrite !hexval_hexdigit, IH.
  - f_equal. f_equal. rewrite <- (n2b_b2n x) at 3. f_equal. symmetry. apply N.div_mod'.
  - apply N.mod_lt. discriminate.
  - apply N.div_lt_upper_bound. discriminate. exact Hx.
Qed.

Section SecReser.
Variable modsqrt : Z -> Z.

Lemma catch_all_inv m o : catch_all m = Ret (Some o) -> m = Ret o.
Proof. destruct m; cbn; try discriminate. intros [= <-]. reflexivity. Qed.

Lemma take1_cases (b : bytes) x : bytes_eqb (take 1 b) [x] = true -> exists r, b = x :: r.
Proof.
  intros H. apply bytes_eqb_eq in H. destruct b as [|y r]; [discriminate|]. cbn in H. injection H as ->. eauto.
Qed.

Lemma key_from_sec_bytes b o :
  key_from_sec modsqrt b = Ret o ->
  exists pt, o = OKey (Pub pt) (is_sec_compressed b) /\ sec_bytes pt (is_sec_compressed b) = Ret b.
Proof.
  unfold key_from_sec. destruct (sec_to_public_pair modsqrt b) as [pt| |] eqn:S; cbn [bind]; try discriminate.
  destruct (key_material_public pt) as [k| |] eqn:K; cbn [bind]; try discriminate.
  apply key_material_public_inv in K; subst k. intros [= <-]. exists pt. split; [reflexivity|].
  pose proof S as S'. unfold sec_to_public_pair in S.
  destruct (curve_p <=? _) eqn:X; [discriminate|].
  destruct (Nat.eqb (length b) 65) eqn:L65.
  - apply Nat.eqb_eq in L65. destruct (bytes_eqb (take 1 b) [x04]) eqn:E4; [|discriminate].
    destruct (curve_p <=? from_bytes (slice 33 65 b)); [discriminate|]. injection S as <-.
    destruct (take1_cases _ _ E4) as [r ->].
    unfold is_sec_compressed. cbn [take firstn bytes_eqb byte_eqb]. 
    replace (byte_eqb x04 x02) with false by reflexivity. replace (byte_eqb x04 x03) with false by reflexivity.
    cbn [andb orb]. unfold sec_bytes. cbn [fst snd].
    assert (L1 : length (slice 1 33 (x04 :: r)) = 32%nat) by (apply slice_length; lia).
    assert (L2 : length (slice 33 65 (x04 :: r)) = 32%nat) by (apply slice_length; lia).
    rewrite (to_from_bytes_32 _ L1). cbn [bind]. rewrite (to_from_bytes_32 _ L2). cbn [bind].
    f_equal. f_equal. change (slice 1 33 (x04 :: r)) with (slice 0 32 r). change (slice 33 65 (x04 :: r)) with (slice 32 64 r).
    cbn [length] in L65. rewrite <- (skipn_O r) at 3. rewrite (skipn_split 0%nat 32%nat) by lia. f_equal.
    rewrite (skipn_split 32%nat 64%nat) by lia. rewrite (skipn_all2 (n := 64%nat)) by lia. symmetry. apply app_nil_r.
  - destruct (Nat.eqb (length b) 33) eqn:L33; [|discriminate]. apply Nat.eqb_eq in L33.
    assert (C : is_sec_compressed b = true).
    { unfold is_sec_compressed. destruct (bytes_eqb (take 1 b) [x02] || bytes_eqb (take 1 b) [x03]); [reflexivity|discriminate]. }
    rewrite C. unfold sec_bytes. apply (sec33_roundtrip (fun _ => (0, 0)) modsqrt); assumption.
Qed.

Lemma text_starts_with_app pre t : text_starts_with pre (pre ++ t) = true.
Proof. induction pre; cbn; [reflexivity|]. rewrite N.eqb_refl. exact IHpre. Qed.

Lemma strip_sec_prefix_text net t : strip_sec_prefix net (n_sec_prefix net ++ t) = t.
Proof.
  unfold strip_sec_prefix. destruct (n_sec_prefix net) as [|c pre] eqn:E. reflexivity.
  rewrite text_starts_with_app. unfold drop. apply skipn_app_exact.
Qed.

(* Key.as_text() of a key returned by sec() parses back to the same key *)
Lemma sec_reserialize net s o :
  sec modsqrt net s = Ret (Some o) ->
  exists t, public_key_text net o = Ret t /\ sec modsqrt net t = Ret (Some o).
Proof.
  unfold sec at 1. destruct (h2b _) as [b|]; [|discriminate]. intros H. apply catch_all_inv in H.
  destruct (key_from_sec_bytes b o H) as (pt & -> & Hb).
  exists (n_sec_prefix net ++ b2h b). split.
  - unfold public_key_text. rewrite Hb. reflexivity.
  - unfold sec. rewrite strip_sec_prefix_text, h2b_b2h, H. reflexivity.
Qed.

End SecReser.

(* ---------------------------------------------------------------------------------------------- *)
(* the statements of Props/C18.v that need more than one lemma *)
Lemma address_wrong_length net pre d :
  (n_address net = Some pre -> length d <> (length pre + 20)%nat -> p2pkh_of_payload net d = Ret None) /\
  (n_p2sh net = Some pre -> length d <> (length pre + 20)%nat -> p2sh_of_payload net d = Ret None).
Proof.
  unfold p2pkh_of_payload, p2sh_of_payload.
  split; intros -> H; apply b58_script_wrong_length; exact H.
Qed.

Lemma wif_wrong_length_both mulG net pre d : n_wif net = Some pre ->
  (length d <> (length pre + 32)%nat -> length d <> (length pre + 33)%nat -> wif_of_payload mulG net d = Ret None) /\
  (length d = (length pre + 33)%nat -> skipn (length pre + 32) d <> [x01] -> wif_of_payload mulG net d = Ret None).
Proof.
  intros Hp. split.
  exact (wif_wrong_length mulG (fun _ => 0) net pre d Hp). exact (wif_bad_marker mulG (fun _ => 0) net pre d Hp).
Qed.

Lemma wif_bad_exponent' mulG net pre body : n_wif net = Some pre ->
  valid_exponent (from_bytes (firstn 32 body)) = false -> wif_of_payload mulG net (pre ++ body) = Ret None.
Proof. exact (wif_bad_exponent mulG net pre body). Qed.

Lemma hd_out_of_range mulG modsqrt pre kind d : length d = 78%nat ->
  (slice 45 46 d = [x00] -> valid_exponent (from_bytes (skipn 46 d)) = false -> hd_of_payload mulG modsqrt pre kind d = Ret None) /\
  (slice 45 46 d <> [x00] -> curve_p <= from_bytes (skipn 46 d) -> hd_of_payload mulG modsqrt pre kind d = Ret None).
Proof.
  intros L. split.
  exact (hd_bad_exponent mulG modsqrt pre kind d L). exact (hd_bad_x mulG modsqrt pre kind d L).
Qed.

Lemma address_reserialize net d o :
  (p2pkh_of_payload net d = Ret (Some o) -> p2pkh_payload net o = Some d) /\
  (p2sh_of_payload net d = Ret (Some o) -> p2sh_payload net o = Some d).
Proof. split. apply p2pkh_reserialize. apply p2sh_reserialize. Qed.

Lemma wif_reserialize' mulG net d o : wif_of_payload mulG net d = Ret (Some o) -> wif_payload net o = Some d.
Proof. exact (wif_reserialize mulG (fun _ => 0) net d o). Qed.

Lemma text_reserialize b58 b58enc : (forall d, b58c b58 (b58enc d) = Some d) ->
  forall mulG modsqrt net s o,
  (p2pkh b58 net s = Ret (Some o) -> exists d, p2pkh_payload net o = Some d /\ p2pkh b58 net (b58enc d) = Ret (Some o)) /\
  (p2sh b58 net s = Ret (Some o) -> exists d, p2sh_payload net o = Some d /\ p2sh b58 net (b58enc d) = Ret (Some o)) /\
  (wif b58 mulG net s = Ret (Some o) -> exists d, wif_payload net o = Some d /\ wif b58 mulG net (b58enc d) = Ret (Some o)) /\
  (forall kind, hd_prefixes_ok net kind -> hd_any b58 mulG modsqrt net kind s = Ret (Some o) ->
     exists d, hd_payload net o = Some d /\ hd_any b58 mulG modsqrt net kind (b58enc d) = Ret (Some o)).
Proof.
  intros Hrt mulG modsqrt net s o. repeat split.
  apply (p2pkh_text_reserialize b58 b58enc Hrt). apply (p2sh_text_reserialize b58 b58enc Hrt).
  apply (wif_text_reserialize b58 b58enc Hrt mulG modsqrt). intros kind. apply (hd_text_reserialize b58 b58enc Hrt).
Qed.

Lemma table_hd_prefixes_ok net kind p : In net table_cfgs -> n_hd_prv net kind = Some p -> hd_prefixes_ok net kind.
Proof.
  intros Hin Hp. pose proof table_hd_prefixes as T. rewrite forallb_forall in T. specialize (T net Hin).
  rewrite forallb_forall in T. apply (hd_prefixes_okb_ok net kind p); [|exact Hp]. apply T. destruct kind; cbn; auto.
Qed.

Lemma kinds_disjoint_table mulG modsqrt net : In net table_cfgs ->
  forall d k1 k2, k1 <> k2 ->
  accepted (parse_kind mulG modsqrt net k1 d) -> accepted (parse_kind mulG modsqrt net k2 d) -> False.
Proof.
  intros Hin. apply kinds_disjoint.
  pose proof table_kinds_separated as T. rewrite forallb_forall in T. exact (T net Hin).
Qed.

Lemma hd_pub_not_public :
  ~ (forall b58 mulG modsqrt net kind s o, hd_pub b58 mulG modsqrt net kind s = Ret (Some o) -> obj_is_private o = false).
Proof.
  intros H. pose proof (H (fun _ => Ret (Some w_hd_payload)) mulG_w modsqrt_real btc_cfg Bip32 [] _ w_hd_pub_gives_private) as R.
  discriminate.
Qed.

(* a SEC text whose x coordinate is >= p is refused *)
Lemma sec_bad_x modsqrt net s b :
  h2b (strip_sec_prefix net s) = Some b -> curve_p <= from_bytes (slice 1 33 b) -> sec modsqrt net s = Ret None.
Proof.
  intros Hb Hx. unfold sec. rewrite Hb. unfold key_from_sec, sec_to_public_pair.
  apply Z.leb_le in Hx. rewrite Hx. reflexivity.
Qed.

(* keys returned by sec() have coordinates in [0, p) (given that the square root oracle returns residues) *)
Lemma points_for_x_range modsqrt x pp :
  (forall a, 0 <= modsqrt a < curve_p) -> points_for_x modsqrt x = Ret pp ->
  0 <= snd (fst pp) < curve_p /\ 0 <= snd (snd pp) < curve_p.
Proof.
  intros Hs. unfold points_for_x, mk_point.
  set (y0 := modsqrt (((x ^ 3) mod curve_p + curve_a * x + curve_b) mod curve_p)).
  pose proof (Hs (((x ^ 3) mod curve_p + curve_a * x + curve_b) mod curve_p)) as R. fold y0 in R.
  destruct (Z.eqb_spec y0 0) as [E|E]; [discriminate|].
  destruct (on_curve (x, y0)); cbn [bind]; [|discriminate].
  destruct (on_curve (x, curve_p - y0)); cbn [bind]; [|discriminate].
  Local Transparent Z.sub.
  destruct (Z.land y0 1 =? 0); intros [= <-]; cbn [fst snd]; lia.
Qed.
Local Opaque Z.sub.

Lemma sec_in_range modsqrt net s pt c :
  (forall a, 0 <= modsqrt a < curve_p) ->
  sec modsqrt net s = Ret (Some (OKey (Pub pt) c)) -> 0 <= fst pt < curve_p /\ 0 <= snd pt < curve_p.
Proof.
  intros Hs. unfold sec. destruct (h2b _) as [b|]; [|discriminate]. intros H. apply catch_all_inv in H.
  unfold key_from_sec in H. destruct (sec_to_public_pair modsqrt b) as [q| |] eqn:S; cbn [bind] in H; try discriminate.
  destruct (key_material_public q) as [k| |] eqn:K; cbn [bind] in H; try discriminate.
  apply key_material_public_inv in K; subst k. injection H as -> _.
  unfold sec_to_public_pair in S.
  destruct (Z.leb_spec curve_p (from_bytes (slice 1 33 b))) as [|X]; [discriminate|].
  pose proof (from_bytes_range (slice 1 33 b)) as [X0 _].
  destruct (Nat.eqb (length b) 65).
  - destruct (bytes_eqb (take 1 b) [x04]); [|discriminate].
    destruct (Z.leb_spec curve_p (from_bytes (slice 33 65 b))) as [|Y]; [discriminate|].
    pose proof (from_bytes_range (slice 33 65 b)) as [Y0 _]. injection S as <-. cbn [fst snd]. auto.
  - destruct (Nat.eqb (length b) 33); [|discriminate].
    destruct (_ || _); [|discriminate].
    destruct (points_for_x modsqrt (from_bytes (slice 1 33 b))) as [pp| |] eqn:P; cbn [bind] in S; try discriminate.
    injection S as <-. pose proof (points_for_x_range _ _ _ Hs P) as [R0 R1].
    apply points_for_x_shape in P as (X0' & X1' & _ & _).
    unfold pick. destruct (negb _); [rewrite X1'|rewrite X0']; auto.
Qed.

(* ---------------------------------------------------------------------------------------------- *)
(* electrum wallets: as_text() = "E:" + hex parses back to the same wallet, entry point by entry point *)
Lemma electrum_blob_of_text b : electrum_to_blob (tE ++ [58%N] ++ b2h b) = Some b.
Proof.
  unfold electrum_to_blob, parse_colon_prefix.
  change (split_at 58 (tE ++ [58%N] ++ b2h b)) with (Some (tE, b2h b)).
  change (text_eqb tE tE) with true. cbn iota. apply h2b_b2h.
Qed.

Lemma in_range_bounds x y : in_range (x, y) = true -> 0 <= x < curve_p /\ 0 <= y < curve_p.
Proof.
  unfold in_range. intros H. apply andb_prop in H as [H Hy2]. apply andb_prop in H as [H Hy1].
  apply andb_prop in H as [Hx1 Hx2].
  apply Z.leb_le in Hx1, Hy1. apply Z.ltb_lt in Hx2, Hy2. auto.
Qed.

Lemma to_bytes_32_ok v : 0 <= v < 2 ^ 256 ->
  exists b, to_bytes_32 v = Ret b /\ from_bytes b = v /\ length b = 32%nat.
Proof.
  intros [H0 H1]. unfold to_bytes_32.
  apply Z.leb_le in H0 as H0'. apply Z.ltb_lt in H1 as H1'. rewrite H0', H1'. cbn [andb].
  eexists; split; [reflexivity|]. split; [|apply be_encode_length].
  unfold from_bytes. rewrite be_decode_encode. apply Z2N.id, H0.
  apply N2Z.inj_lt. rewrite Z2N.id by exact H0. rewrite N2Z.inj_pow.
  Local Transparent Z.pow. change (Z.of_N 256 ^ Z.of_N (N.of_nat 32)) with (2 ^ 256). Local Opaque Z.pow. exact H1.
Qed.

Section ElectrumReser.
Variable stretch : bytes -> Z.
Variable mulG : Z -> Z * Z.

Lemma electrum_seed_reserialize net s o :
  electrum_seed stretch mulG net s = Ret (Some o) ->
  exists t, electrum_text o = Ret t /\ electrum_seed stretch mulG net t = Ret (Some o).
Proof.
  unfold electrum_seed at 1. destruct (electrum_to_blob s) as [blob|]; [|discriminate].
  destruct (Nat.eqb (length blob) 16) eqn:L; [|discriminate].
  destruct (key_material_private mulG (stretch blob)) as [k| |] eqn:K; cbn [bind]; try discriminate.
  intros [= <-]. exists (tE ++ [58%N] ++ b2h blob). split; [reflexivity|].
  unfold electrum_seed. rewrite electrum_blob_of_text, L, K. reflexivity.
Qed.

Lemma electrum_prv_reserialize net s o :
  electrum_prv mulG net s = Ret (Some o) ->
  exists t, electrum_text o = Ret t /\ electrum_prv mulG net t = Ret (Some o).
Proof.
  unfold electrum_prv at 1. destruct (electrum_to_blob s) as [blob|]; [|discriminate].
  destruct (Nat.eqb (length blob) 32) eqn:L; [|discriminate]. intros H.
  apply catch_value_inv in H.
  destruct (key_material_private mulG (from_bytes blob)) as [k| |] eqn:K; cbn [bind] in H; try discriminate.
  pose proof K as K'. apply (key_material_private_inv mulG) in K as [pt ->]. injection H as <-.
  exists (tE ++ [58%N] ++ b2h blob). split.
  - cbn [electrum_text]. apply Nat.eqb_eq in L. rewrite (to_from_bytes_32 _ L). reflexivity.
  - unfold electrum_prv. rewrite electrum_blob_of_text, L, K'. reflexivity.
Qed.

Lemma electrum_pub_reserialize net s o :
  electrum_pub net s = Ret (Some o) ->
  exists t, electrum_text o = Ret t /\ electrum_pub net t = Ret (Some o).
Proof.
  unfold electrum_pub at 1. destruct (electrum_to_blob s) as [blob|]; [|discriminate].
  destruct (Nat.eqb (length blob) 64) eqn:L; [|discriminate]. intros H.
  assert (Lx : length (take 32 blob) = 32%nat) by (apply Nat.eqb_eq in L; unfold take; rewrite firstn_length; lia).
  assert (Ly : length (drop 32 blob) = 32%nat) by (apply Nat.eqb_eq in L; unfold drop; rewrite skipn_length; lia).
  assert (Hb : take 32 blob ++ drop 32 blob = blob) by apply firstn_skipn.
  remember (take 32 blob) as xs. remember (drop 32 blob) as ys.
  apply catch_value_inv in H.
  destruct (key_material_public (from_bytes xs, from_bytes ys)) as [k| |] eqn:K; cbn [bind] in H; try discriminate.
  pose proof K as K'. apply key_material_public_inv in K; subst k. injection H as <-.
  exists (tE ++ [58%N] ++ b2h blob). split.
  - cbn [electrum_text fst snd]. rewrite (to_from_bytes_32 _ Lx). cbn [bind]. rewrite (to_from_bytes_32 _ Ly). cbn [bind].
    rewrite Hb. reflexivity.
  - unfold electrum_pub. rewrite electrum_blob_of_text, L. rewrite <- Heqxs, <- Heqys, K'. reflexivity.
Qed.

End ElectrumReser.

(* ---------------------------------------------------------------------------------------------- *)
(* keys returned by public_pair: the SEC text parses back, PROVIDED the square-root oracle is exact
   (a statement about numbers: for p prime and p = 3 mod 4, pow(a, (p+1)/4, p) is a root of every residue a, and a
   point's y is that root or its negative) *)
Definition sqrt_exact (modsqrt : Z -> Z) : Prop :=
  forall x y, on_curve (x, y) = true -> in_range (x, y) = true ->
  let y0 := modsqrt (((x ^ 3) mod curve_p + curve_a * x + curve_b) mod curve_p) in
  0 < y0 < curve_p /\ (y = y0 \/ y = curve_p - y0).

Section PairReser.
Variable modsqrt : Z -> Z.
Hypothesis Hsqrt : sqrt_exact modsqrt.

Lemma sec_compressed_decodes pt :
  on_curve pt = true -> in_range pt = true ->
  exists b, sec_compressed pt = Ret b /\ key_from_sec modsqrt b = Ret (OKey (Pub pt) true).
Proof.
  destruct pt as [x y]. intros C R. destruct (in_range_bounds _ _ R) as [[X0 X1] [Y0 Y1]].
  destruct (to_bytes_32_ok x ltac:(pose proof curve_p_bound; lia)) as (xs & Tx & Fx & Lx).
  unfold sec_compressed. cbn [fst snd]. rewrite Tx. cbn [bind].
  set (c := n2b (Z.to_N (2 + Z.land y 1))). exists (c :: xs). split; [reflexivity|].
  assert (Hc : (Z.land y 1 = 0 /\ c = x02) \/ (Z.land y 1 = 1 /\ c = x03)).
  { unfold c. destruct (land1_cases y) as [E|E]; rewrite E; [left|right]; split; reflexivity. }
  destruct (Hsqrt x y C R) as [[P0 P1] Hy]. cbv zeta in *.
  set (y0 := modsqrt (((x ^ 3) mod curve_p + curve_a * x + curve_b) mod curve_p)) in *.
  assert (C0 : on_curve (x, y0) = true).
  { destruct Hy as [->| ->]. exact C. rewrite <- on_curve_neg. exact C. }
  assert (C1 : on_curve (x, curve_p - y0) = true) by (rewrite on_curve_neg; exact C0).
  assert (PX : points_for_x modsqrt x =
               Ret (if Z.land y0 1 =? 0 then ((x, y0), (x, curve_p - y0)) else ((x, curve_p - y0), (x, y0)))).
  { unfold points_for_x, mk_point. fold y0. destruct (Z.eqb_spec y0 0); [lia|].
    rewrite C0, C1. cbn [bind]. destruct (Z.land y0 1 =? 0); reflexivity. }
  unfold key_from_sec, sec_to_public_pair.
  assert (Sx : slice 1 33 (c :: xs) = xs).
  { unfold slice. cbn [skipn Nat.sub]. apply firstn_all2. lia. }
  rewrite Sx, Fx. destruct (Z.leb_spec curve_p x); [lia|].
  cbn [length]. rewrite Lx. cbn [Nat.eqb].
  assert (Hpick : pick (negb (bytes_eqb [c] [x02]))
            (if Z.land y0 1 =? 0 then ((x, y0), (x, curve_p - y0)) else ((x, curve_p - y0), (x, y0))) = (x, y)).
  { destruct Hc as [[E ->]|[E ->]]; cbn [bytes_eqb byte_eqb];
      [replace (byte_eqb x02 x02) with true by reflexivity | replace (byte_eqb x03 x02) with false by reflexivity];
      cbn [andb negb pick].
    - (* y even *) destruct Hy as [->| ->].
      + rewrite E. reflexivity.
      + destruct (Z.eqb_spec (Z.land y0 1) 0) as [E0|E0]; [|reflexivity].
        rewrite (parity_sub _ _ curve_p_odd E0) in E. discriminate.
    - (* y odd *) destruct Hy as [->| ->].
      + rewrite E. reflexivity.
      + destruct (Z.eqb_spec (Z.land y0 1) 0) as [E0|E0]; [reflexivity|].
        rewrite (parity_sub' _ _ curve_p_odd E0) in E. discriminate. }
  assert (Hsec0 : bytes_eqb (take 1 (c :: xs)) [x02] || bytes_eqb (take 1 (c :: xs)) [x03] = true).
  { cbn [take firstn]. destruct Hc as [[_ ->]|[_ ->]]; reflexivity. }
  rewrite Hsec0. rewrite PX. cbn [bind]. cbn [take firstn]. rewrite Hpick. cbn [bind].
  unfold key_material_public. rewrite C, R. cbn [bind]. unfold is_sec_compressed. cbn [take firstn]. 
  change (bytes_eqb [c] [x02] || bytes_eqb [c] [x03]) with (bytes_eqb (take 1 (c :: xs)) [x02] || bytes_eqb (take 1 (c :: xs)) [x03]).
  rewrite Hsec0. reflexivity.
Qed.

Lemma public_pair_reserialize int10 int16 mulG net s o :
  public_pair int10 int16 mulG modsqrt net s = Ret (Some o) ->
  exists t, public_key_text net o = Ret t /\ sec modsqrt net t = Ret (Some o).
Proof.
  intros H. apply public_pair_in_range in H as (pt & -> & C & R).
  destruct (sec_compressed_decodes pt C R) as (b & Hb & Hk).
  exists (n_sec_prefix net ++ b2h b). split.
  - unfold public_key_text, sec_bytes. rewrite Hb. reflexivity.
  - unfold sec. rewrite strip_sec_prefix_text, h2b_b2h, Hk. reflexivity.
Qed.

End PairReser.

Lemma electrum_reserialize stretch mulG net s o :
  (electrum_seed stretch mulG net s = Ret (Some o) ->
     exists t, electrum_text o = Ret t /\ electrum_seed stretch mulG net t = Ret (Some o)) /\
  (electrum_prv mulG net s = Ret (Some o) ->
     exists t, electrum_text o = Ret t /\ electrum_prv mulG net t = Ret (Some o)) /\
  (electrum_pub net s = Ret (Some o) ->
     exists t, electrum_text o = Ret t /\ electrum_pub net t = Ret (Some o)).
Proof.
  split; [|split]. apply electrum_seed_reserialize. eapply electrum_prv_reserialize; exact stretch. eapply electrum_pub_reserialize; [exact stretch | exact mulG].
Qed.

(* ---------------------------------------------------------------------------------------------- *)
(* parseable_str.cache: whatever class of exception a decoder raises, the parsers see None *)
Lemma ps_cache_swallows {A} (f : text -> outcome (option A)) s e : f s = Raise e -> ps_cache f s = None.
Proof. unfold ps_cache. intros ->. reflexivity. Qed.

Lemma decoder_raises_gives_none b58 bech32 net s e e' :
  b58 s = Raise e -> bech32 s = Raise e' ->
  address b58 bech32 net s = Ret None /\ p2pkh b58 net s = Ret None /\ p2sh b58 net s = Ret None /\
  p2pkh_segwit bech32 net s = Ret None /\ p2sh_segwit bech32 net s = Ret None /\ p2tr bech32 net s = Ret None.
Proof.
  intros H1 H2.
  assert (P1 : p2pkh b58 net s = Ret None) by (unfold p2pkh, via_b58, b58c; rewrite (ps_cache_swallows _ _ _ H1); reflexivity).
  assert (P2 : p2sh b58 net s = Ret None) by (unfold p2sh, via_b58, b58c; rewrite (ps_cache_swallows _ _ _ H1); reflexivity).
  assert (P3 : p2pkh_segwit bech32 net s = Ret None) by (unfold p2pkh_segwit, via_bech32, bech32c; rewrite (ps_cache_swallows _ _ _ H2); reflexivity).
  assert (P4 : p2sh_segwit bech32 net s = Ret None) by (unfold p2sh_segwit, via_bech32, bech32c; rewrite (ps_cache_swallows _ _ _ H2); reflexivity).
  assert (P5 : p2tr bech32 net s = Ret None) by (unfold p2tr, via_bech32, bech32c; rewrite (ps_cache_swallows _ _ _ H2); reflexivity).
  repeat split; auto.
  unfold address, disabled_or, address_body. destruct (n_disabled net); [reflexivity|].
  rewrite P1, P2, P3, P4, P5. reflexivity.
Qed.
