(* Proofs/ParseTextP.v — lemmas about Model/ParseText.v (property C18). *)
From Coq Require Import List NArith ZArith String Bool Lia.
From Coq Require Import Strings.Byte.
From PV Require Import Base.Bytes Base.Outcome Gen.GenParsePrefixes Model.ParseText.
Import ListNotations.
Local Open Scope Z_scope.

(* ---------------------------------------------------------------------------------------------- *)
(* generic facts *)
Lemma returns_ret {v : option obj} : returns (Ret v).
Proof. exists v; reflexivity. Qed.
#[global] Hint Resolve returns_ret : c18.

Lemma orelse_returns a b : returns a -> returns (b tt) -> returns (orelse a b).
Proof. intros [v ->] Hb. destruct v; cbn; auto with c18. Qed.

Lemma via_b58_returns b58 f s : (forall d, returns (f d)) -> returns (via_b58 b58 f s).
Proof. intros H. unfold via_b58. destruct (b58 s); auto with c18. Qed.

Lemma via_bech32_returns bech32 f s : (forall v, returns (f v)) -> returns (via_bech32 bech32 f s).
Proof. intros H. unfold via_bech32. destruct (bech32 s); auto with c18. Qed.

Lemma first_of_returns fs s : (forall f, In f fs -> returns (f s)) -> returns (first_of fs s).
Proof.
  induction fs as [|f r IH]; intros H; cbn [first_of]; auto with c18.
  apply orelse_returns. apply H; left; reflexivity. apply IH. intros g Hg. apply H. right; exact Hg.
Qed.

Lemma disabled_or_returns net r : returns (r tt) -> returns (disabled_or net r).
Proof. unfold disabled_or. destruct (n_disabled net); auto with c18. Qed.

(* value_total m : m returns, or raises a subclass of ValueError *)
Definition value_total {A} (m : outcome A) : Prop :=
  match m with
  | Ret _ => True
  | Raise e => is_value_error e = true
  | OutOfFuel => False
  end.

Lemma value_total_bind {A B} (m : outcome A) (f : A -> outcome B) :
  value_total m -> (forall a, m = Ret a -> value_total (f a)) -> value_total (bind m f).
Proof. destruct m; cbn; auto. Qed.

Lemma catch_value_returns m : value_total m -> returns (catch_value m).
Proof. destruct m; cbn; intros H; try contradiction. eauto with c18. rewrite H. eauto with c18. Qed.

Lemma catch_all_returns m : returns (catch_all m).
Proof. destruct m; cbn; eauto with c18. Qed.

(* ---------------------------------------------------------------------------------------------- *)
(* list / bytes helpers *)
Lemma starts_with_app pre d : starts_with pre d = true -> d = pre ++ skipn (length pre) d.
Proof.
  revert d; induction pre as [|x p IH]; intros d H; cbn in *. reflexivity.
  destruct d as [|y d]; [discriminate|]. apply andb_prop in H as [H1 H2].
  apply byte_eqb_eq in H1; subst y. cbn. f_equal. apply IH, H2.
Qed.

Lemma starts_with_app_intro pre r : starts_with pre (pre ++ r) = true.
Proof. induction pre; cbn; [reflexivity|]. rewrite byte_eqb_refl. exact IHpre. Qed.

Lemma starts_with_length pre d : starts_with pre d = true -> (length pre <= length d)%nat.
Proof. intros H. apply starts_with_app in H. apply (f_equal (@length byte)) in H. rewrite app_length in H. lia. Qed.

Lemma starts_with_both_comparable p1 p2 d :
  starts_with p1 d = true -> starts_with p2 d = true -> comparable p1 p2 = true.
Proof.
  unfold comparable. revert p2 d; induction p1 as [|x p1 IH]; intros p2 d H1 H2; cbn in *. reflexivity.
  destruct d as [|y d]; [discriminate|]. apply andb_prop in H1 as [Hx H1]. apply byte_eqb_eq in Hx; subst y.
  destruct p2 as [|z p2]; cbn in *. reflexivity.
  apply andb_prop in H2 as [Hz H2]. apply byte_eqb_eq in Hz; subst z.
  rewrite byte_eqb_refl. cbn. exact (IH p2 d H1 H2).
Qed.

Lemma from_bytes_range b : 0 <= from_bytes b < 256 ^ Z.of_nat (length b).
Proof.
  unfold from_bytes. pose proof (le_decode_bound (rev b)) as H. rewrite rev_length in H.
  unfold be_decode. split. lia.
  apply N2Z.inj_lt in H. rewrite N2Z.inj_pow in H. rewrite nat_N_Z in H. exact H.
Qed.

Lemma to_from_bytes_32 b : length b = 32%nat -> to_bytes_32 (from_bytes b) = Ret b.
Proof.
  intros L. pose proof (from_bytes_range b) as R. rewrite L in R. unfold to_bytes_32.
  replace (256 ^ Z.of_nat 32) with (2 ^ 256) in R by reflexivity.
  destruct (Z.leb_spec 0 (from_bytes b)); [|lia]. destruct (Z.ltb_spec (from_bytes b) (2 ^ 256)); [|lia].
  cbn [andb]. f_equal. unfold from_bytes. rewrite N2Z.id. rewrite <- L. apply be_encode_decode.
Qed.

Lemma slice_length {A} a b (l : list A) : (b <= length l)%nat -> (a <= b)%nat -> length (slice a b l) = (b - a)%nat.
Proof. intros. unfold slice. rewrite firstn_length, skipn_length. lia. Qed.

Lemma skipn_add {A} a b (l : list A) : skipn (a + b) l = skipn a (skipn b l).
Proof.
  revert l; induction b as [|b IH]; intros l. rewrite Nat.add_0_r. reflexivity.
  rewrite Nat.add_succ_r. destruct l as [|x l]. rewrite !skipn_nil. reflexivity. cbn [skipn]. apply IH.
Qed.

Lemma skipn_skipn_app4 {A} (pre : list A) d a :
  length pre = 4%nat -> (4 <= a)%nat -> skipn a (pre ++ skipn 4 d) = skipn a d.
Proof.
  intros L Ha. replace a with ((a - 4) + 4)%nat by lia. rewrite !skipn_add.
  f_equal. rewrite <- L. apply skipn_app_exact.
Qed.
