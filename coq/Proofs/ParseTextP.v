(* Proofs/ParseTextP.v — lemmas about Model/ParseText.v (property C18). *)
From Coq Require Import List NArith ZArith String Bool Lia.
From Coq Require Import Strings.Byte.
From PV Require Import Base.Bytes Base.Outcome Gen.GenParsePrefixes Model.ParseText.
Import ListNotations.
Local Open Scope Z_scope.

(* ---------------------------------------------------------------------------------------------- *)
(* generic facts *)
Lemma returns_ret {v : option obj} : returns (Ret v).
Proof. exists v; reflexivity. Qed.
#[global] Hint Resolve returns_ret : c18.

Lemma orelse_returns a b : returns a -> returns (b tt) -> returns (orelse a b).
Proof. intros [v ->] Hb. destruct v; cbn; auto with c18. Qed.

Lemma via_b58_returns b58 f s : (forall d, returns (f d)) -> returns (via_b58 b58 f s).
Proof. intros H. unfold via_b58. destruct (b58 s); auto with c18. Qed.

Lemma via_bech32_returns bech32 f s : (forall v, returns (f v)) -> returns (via_bech32 bech32 f s).
Proof. intros H. unfold via_bech32. destruct (bech32 s); auto with c18. Qed.

Lemma first_of_returns fs s : (forall f, In f fs -> returns (f s)) -> returns (first_of fs s).
Proof.
  induction fs as [|f r IH]; intros H; cbn [first_of]; auto with c18.
  apply orelse_returns. apply H; left; reflexivity. apply IH. intros g Hg. apply H. right; exact Hg.
Qed.

Lemma disabled_or_returns net r : returns (r tt) -> returns (disabled_or net r).
Proof. unfold disabled_or. destruct (n_disabled net); auto with c18. Qed.

(* value_total m : m returns, or raises a subclass of ValueError *)
Definition value_total {A} (m : outcome A) : Prop :=
  match m with
  | Ret _ => True
  | Raise e => is_value_error e = true
  | OutOfFuel => False
  end.

Lemma value_total_bind {A B} (m : outcome A) (f : A -> outcome B) :
  value_total m -> (forall a, m = Ret a -> value_total (f a)) -> value_total (bind m f).
Proof. destruct m; cbn; auto. Qed.

Lemma catch_value_returns m : value_total m -> returns (catch_value m).
Proof. destruct m; cbn; intros H; try contradiction. eauto with c18. rewrite H. eauto with c18. Qed.

Lemma catch_all_returns m : returns (catch_all m).
Proof. destruct m; cbn; eauto with c18. Qed.

(* ---------------------------------------------------------------------------------------------- *)
(* list / bytes helpers *)
Lemma starts_with_app pre d : starts_with pre d = true -> d = pre ++ skipn (length pre) d.
Proof.
  revert d; induction pre as [|x p IH]; intros d H; cbn in *. reflexivity.
  destruct d as [|y d]; [discriminate|]. apply andb_prop in H as [H1 H2].
  apply byte_eqb_eq in H1; subst y. cbn. f_equal. apply IH, H2.
Qed.

Lemma starts_with_app_intro pre r : starts_with pre (pre ++ r) = true.
Proof. induction pre; cbn; [reflexivity|]. rewrite byte_eqb_refl. exact IHpre. Qed.

Lemma starts_with_length pre d : starts_with pre d = true -> (length pre <= length d)%nat.
Proof. intros H. apply starts_with_app in H. apply (f_equal (@length byte)) in H. rewrite app_length in H. lia. Qed.

Lemma starts_with_both_comparable p1 p2 d :
  starts_with p1 d = true -> starts_with p2 d = true -> comparable p1 p2 = true.
Proof.
  unfold comparable. revert p2 d; induction p1 as [|x p1 IH]; intros p2 d H1 H2; cbn in *. reflexivity.
  destruct d as [|y d]; [discriminate|]. apply andb_prop in H1 as [Hx H1]. apply byte_eqb_eq in Hx; subst y.
  destruct p2 as [|z p2]; cbn in *. reflexivity.
  apply andb_prop in H2 as [Hz H2]. apply byte_eqb_eq in Hz; subst z.
  rewrite byte_eqb_refl. cbn. exact (IH p2 d H1 H2).
Qed.

Lemma from_bytes_range b : 0 <= from_bytes b < 256 ^ Z.of_nat (length b).
Proof.
  unfold from_bytes. pose proof (le_decode_bound (rev b)) as H. rewrite rev_length in H.
  unfold be_decode. split. lia.
  apply N2Z.inj_lt in H. rewrite N2Z.inj_pow in H. rewrite nat_N_Z in H. exact H.
Qed.

Lemma to_from_bytes_32 b : length b = 32%nat -> to_bytes_32 (from_bytes b) = Ret b.
Proof.
  intros L. pose proof (from_bytes_range b) as R. rewrite L in R. unfold to_bytes_32.
  replace (256 ^ Z.of_nat 32) with (2 ^ 256) in R by reflexivity.
  destruct (Z.leb_spec 0 (from_bytes b)); [|lia]. destruct (Z.ltb_spec (from_bytes b) (2 ^ 256)); [|lia].
  cbn [andb]. f_equal. unfold from_bytes. rewrite N2Z.id. rewrite <- L. apply be_encode_decode.
Qed.

Lemma slice_length {A} a b (l : list A) : (b <= length l)%nat -> (a <= b)%nat -> length (slice a b l) = (b - a)%nat.
Proof. intros. unfold slice. rewrite firstn_length, skipn_length. lia. Qed.

Lemma skipn_add {A} a b (l : list A) : skipn (a + b) l = skipn a (skipn b l).
Proof.
  revert l; induction b as [|b IH]; intros l. rewrite Nat.add_0_r. reflexivity.
  rewrite Nat.add_succ_r. destruct l as [|x l]. rewrite !skipn_nil. reflexivity. cbn [skipn]. apply IH.
Qed.

Lemma skipn_skipn_app4 {A} (pre : list A) d a :
  length pre = 4%nat -> (4 <= a)%nat -> skipn a (pre ++ skipn 4 d) = skipn a d.
Proof.
  intros L Ha. replace a with ((a - 4) + 4)%nat by lia. rewrite !skipn_add.
  f_equal. rewrite <- L. apply skipn_app_exact.
Qed.

(* ---------------------------------------------------------------------------------------------- *)
(* totality *)
Section Total.
Variable b58 : text -> option bytes.
Variable bech32 : text -> option (text * Z * bytes * bool).
Variable int10 int16 : text -> option Z.
Variable compile : text -> option bytes.
Variable hmac512 : bytes -> bytes.
Variable stretch : bytes -> Z.
Variable mulG : Z -> Z * Z.
Variable modsqrt : Z -> Z.

Lemma mk_point_vt x y : value_total (mk_point x y).
Proof. unfold mk_point. destruct (on_curve (x, y)); cbn; auto. Qed.

Lemma points_for_x_vt x : value_total (points_for_x modsqrt x).
Proof.
  unfold points_for_x. destruct (_ =? 0); cbn; auto.
  apply value_total_bind. apply mk_point_vt. intros p0 _.
  apply value_total_bind. apply mk_point_vt. intros p1 _.
  destruct (_ =? 0); cbn; auto.
Qed.

Lemma key_material_private_vt se : value_total (key_material_private mulG se).
Proof. unfold key_material_private. destruct (valid_exponent se); cbn; auto. destruct (on_curve _); cbn; auto. Qed.

Lemma key_material_public_vt pt : value_total (key_material_public pt).
Proof. unfold key_material_public. destruct (on_curve _); cbn; auto. Qed.

Lemma keys_private_vt se c : value_total (keys_private mulG se c).
Proof. unfold keys_private. apply value_total_bind. apply key_material_private_vt. intros; cbn; auto. Qed.

Lemma sec_to_public_pair_vt s : value_total (sec_to_public_pair modsqrt s).
Proof.
  unfold sec_to_public_pair.
  repeat match goal with
  | |- value_total (if ?c then _ else _) => destruct c
  | |- value_total (bind _ _) => apply value_total_bind; [apply points_for_x_vt | intros]
  | |- value_total (Ret _) => exact I
  | |- value_total (Raise _) => reflexivity
  end.
Qed.

Lemma hd_deserialize_vt kind d : value_total (hd_deserialize mulG modsqrt kind d).
Proof.
  unfold hd_deserialize.
  destruct (negb _); [reflexivity|].
  destruct (bytes_eqb _ _).
  - apply value_total_bind. apply key_material_private_vt. intros; exact I.
  - apply value_total_bind. apply sec_to_public_pair_vt. intros.
    apply value_total_bind. apply key_material_public_vt. intros; exact I.
Qed.

(* --- per entry point --- *)
Lemma b58_script_of_payload_total pre mk d : returns (b58_script_of_payload pre mk d).
Proof. unfold b58_script_of_payload. destruct pre; auto with c18. repeat (destruct (negb _); auto with c18). Qed.

Lemma p2pkh_total net s : returns (p2pkh b58 net s).
Proof. apply via_b58_returns. intros. apply b58_script_of_payload_total. Qed.
Lemma p2sh_total net s : returns (p2sh b58 net s).
Proof. apply via_b58_returns. intros. apply b58_script_of_payload_total. Qed.

Lemma segwit_of_decoded_total net ver len mk v : returns (segwit_of_decoded net ver len mk v).
Proof.
  unfold segwit_of_decoded. destruct v as [[[hrp version] data] is_m]. destruct (n_hrp net); auto with c18.
  repeat match goal with |- returns (if ?c then _ else _) => destruct c; auto with c18 end.
Qed.

Lemma p2pkh_segwit_total net s : returns (p2pkh_segwit bech32 net s).
Proof. apply via_bech32_returns. intros. apply segwit_of_decoded_total. Qed.
Lemma p2sh_segwit_total net s : returns (p2sh_segwit bech32 net s).
Proof. apply via_bech32_returns. intros. apply segwit_of_decoded_total. Qed.
Lemma p2tr_total net s : returns (p2tr bech32 net s).
Proof. apply via_bech32_returns. intros. apply segwit_of_decoded_total. Qed.

Lemma script_total net s : returns (script compile net s).
Proof. unfold script. destruct (compile s); auto with c18. Qed.

Lemma address_total net s : returns (address b58 bech32 net s).
Proof.
  apply disabled_or_returns. unfold address_body.
  repeat (apply orelse_returns); auto using p2pkh_total, p2sh_total, p2pkh_segwit_total, p2sh_segwit_total, p2tr_total.
Qed.

Lemma payable_total net s : returns (payable b58 bech32 compile net s).
Proof. apply orelse_returns. apply address_total. apply script_total. Qed.

Lemma wif_of_payload_total net d : returns (wif_of_payload mulG net d).
Proof.
  unfold wif_of_payload. destruct (n_wif net); auto with c18.
  destruct (negb _); auto with c18.
  destruct (Nat.ltb _ _).
  - destruct (_ || _); auto with c18. apply catch_value_returns, keys_private_vt.
  - destruct (negb _); auto with c18. apply catch_value_returns, keys_private_vt.
Qed.

Lemma wif_total net s : returns (wif b58 mulG net s).
Proof. apply via_b58_returns. intros. apply wif_of_payload_total. Qed.

Lemma secret_exponent_total net s : returns (secret_exponent int10 int16 mulG net s).
Proof.
  unfold secret_exponent. destruct (as_number _ _ _); auto with c18.
  destruct (_ =? 0); auto with c18. apply catch_value_returns, keys_private_vt.
Qed.

Lemma private_key_total net s : returns (private_key b58 int10 int16 mulG net s).
Proof.
  apply disabled_or_returns. apply first_of_returns. intros f [<-|[<-|[]]].
  apply wif_total. apply secret_exponent_total.
Qed.

Lemma sec_total net s : returns (sec modsqrt net s).
Proof. unfold sec. destruct (h2b s); auto with c18. apply catch_all_returns. Qed.

Lemma hd_of_payload_total pre kind d : returns (hd_of_payload mulG modsqrt pre kind d).
Proof.
  unfold hd_of_payload. destruct pre; auto with c18. destruct (negb _); auto with c18.
  apply catch_value_returns, hd_deserialize_vt.
Qed.

Lemma hd_prv_total net kind s : returns (hd_prv b58 mulG modsqrt net kind s).
Proof. apply via_b58_returns. intros. apply hd_of_payload_total. Qed.
Lemma hd_pub_total net kind s : returns (hd_pub b58 mulG modsqrt net kind s).
Proof. apply via_b58_returns. intros. apply hd_of_payload_total. Qed.
Lemma hd_any_total net kind s : returns (hd_any b58 mulG modsqrt net kind s).
Proof. apply orelse_returns. apply hd_prv_total. apply hd_pub_total. Qed.

Lemma electrum_prv_total net s : returns (electrum_prv mulG net s).
Proof.
  unfold electrum_prv. destruct (electrum_to_blob s); auto with c18. destruct (Nat.eqb _ _); auto with c18.
  apply catch_value_returns. apply value_total_bind. apply key_material_private_vt. intros; exact I.
Qed.

Lemma electrum_pub_total net s : returns (electrum_pub net s).
Proof.
  unfold electrum_pub. destruct (electrum_to_blob s); auto with c18. destruct (Nat.eqb _ _); auto with c18.
  apply catch_value_returns. apply value_total_bind. apply key_material_public_vt. intros; exact I.
Qed.

Lemma unsupported_total net s : returns (unsupported net s).
Proof. unfold unsupported. auto with c18. Qed.

(* --- public_pair: needs the generator itself to be on the curve (Key(1) is built first) --- *)
Lemma points_for_x_on_curve x pp :
  points_for_x modsqrt x = Ret pp -> on_curve (fst pp) = true /\ on_curve (snd pp) = true.
Proof.
  unfold points_for_x, mk_point. destruct (_ =? 0); [discriminate|].
  destruct (on_curve (x, modsqrt _)) eqn:E1; cbn [bind]; [|discriminate].
  destruct (on_curve (x, curve_p - modsqrt _)) eqn:E2; cbn [bind]; [|discriminate].
  destruct (_ =? 0); intros H; inversion H; subst; cbn; auto.
Qed.

Definition opt_on_curve (p : option (Z * Z)) : Prop :=
  match p with Some q => on_curve q = true | None => True end.

Lemma public_pair_step_spec c s pt :
  opt_on_curve pt ->
  public_pair_step int10 int16 modsqrt c s pt = Ret None \/
  exists q, public_pair_step int10 int16 modsqrt c s pt = Ret (Some q) /\ opt_on_curve q.
Proof.
  intros Hpt. unfold public_pair_step.
  destruct (split_at c s) as [[s0 s1]|]; [|right; eauto].
  destruct (as_number int10 int16 s0) as [v0|]; [|right; eauto].
  destruct (v0 =? 0); [right; eauto|].
  assert (Hstep1 :
    forall (st : outcome (option (option (Z * Z)))),
      (st = Ret None \/ exists q, st = Ret (Some q) /\ opt_on_curve q) ->
      match st with
      | Ret (Some point1) =>
        match as_number int10 int16 s1 with
        | None => Ret (Some point1)
        | Some v1 =>
          if v1 =? 0 then Ret (Some point1)
          else if on_curve (v0, v1) then bind (mk_point v0 v1) (fun pt => Ret (Some (Some pt)))
          else Ret (Some point1)
        end
      | other => other
      end = Ret None \/
      exists q,
      match st with
      | Ret (Some point1) =>
        match as_number int10 int16 s1 with
        | None => Ret (Some point1)
        | Some v1 =>
          if v1 =? 0 then Ret (Some point1)
          else if on_curve (v0, v1) then bind (mk_point v0 v1) (fun pt => Ret (Some (Some pt)))
          else Ret (Some point1)
        end
      | other => other
      end = Ret (Some q) /\ opt_on_curve q).
  { intros st [->|[q [-> Hq]]]. left; reflexivity.
    destruct (as_number int10 int16 s1) as [v1|]; [|right; eauto].
    destruct (v1 =? 0); [right; eauto|].
    destruct (on_curve (v0, v1)) eqn:E; [|right; eauto].
    unfold mk_point. rewrite E. cbn. right. eexists; split; [reflexivity|]. exact E. }
  apply Hstep1.
  destruct (_ || _).
  - pose proof (points_for_x_vt v0) as Hvt. destruct (points_for_x modsqrt v0) as [pp|e|] eqn:E; cbn in Hvt.
    + right. eexists; split; [reflexivity|]. apply points_for_x_on_curve in E as [E1 E2].
      cbn. unfold pick. destruct (text_eqb _ _); assumption.
    + rewrite Hvt. left; reflexivity.
    + contradiction.
  - right; eauto.
Qed.

Lemma public_pair_total net s :
  on_curve (mulG 1) = true -> returns (public_pair int10 int16 mulG modsqrt net s).
Proof.
  intros HG. unfold public_pair, keys_private, key_material_private.
  replace (valid_exponent 1) with true by (vm_compute; reflexivity). rewrite HG. cbn [bind].
  destruct (public_pair_step_spec 44%N s None I) as [->|[q [-> Hq]]]; auto with c18.
  destruct (public_pair_step_spec 47%N s q Hq) as [->|[q' [-> Hq']]]; auto with c18.
  destruct q' as [pt|]; auto with c18.
  cbn in Hq'. unfold keys_public_pair, key_material_public. rewrite Hq'. cbn. auto with c18.
Qed.

Lemma public_key_total net s :
  on_curve (mulG 1) = true -> returns (public_key int10 int16 mulG modsqrt net s).
Proof.
  intros HG. apply disabled_or_returns. apply first_of_returns. intros f [<-|[<-|[]]].
  apply public_pair_total, HG. apply sec_total.
Qed.

End Total.
