(* Proofs/ChainLockP.v — lock_to_index: the generator `iterate()` hands every unlocked known header to the new
   finder; executable spec functions (chains_from, heaviest_chains). *)
From Coq Require Import List NArith ZArith Bool Lia Arith.
From PV Require Import Base.Outcome Model.Chain Spec.ChainSpec Proofs.ChainP Proofs.ChainFinderP Proofs.ChainBestP
  Proofs.ChainPathP.
Import ListNotations.
Local Open Scope N_scope.

Section LockIter.
Variable p : dict hash.
Variable LK : list hash.          (* the hashes being locked *)

Record LI (pend : option hash) (excl : list hash) (acc : list (hash * hash)) : Prop := {
  li_acc : forall h q, In (h, q) acc -> dget h p = Some q /\ ~ In h LK /\ In h excl;
  li_excl : forall h, In h excl -> In h LK \/ (exists q, In (h, q) acc) \/ ~ kn p h;
  li_lk : forall h, In h LK -> In h excl;
  li_closed : forall h q, In h excl -> dget h p = Some q -> kn p q -> In q excl \/ pend = Some h
}.

Lemma closed_up excl acc : LI None excl acc -> forall x l, ppath p (kn p) x l -> In x excl ->
  forall y, In y l -> kn p y -> In y excl.
Proof.
  intros I x l Hp. induction Hp; intros Hx y Hy Ky.
  - destruct Hy as [<-|[]]. exact Hx.
  - destruct Hy as [<-|Hy]; [exact Hx|].
    destruct (li_closed _ _ _ I _ _ Hx H0) as [Hq|Hq]; [|exact (IHHp Hq y Hy Ky)|discriminate].
    inversion Hp; subst; [|assumption]. destruct Hy as [<-|[]]. exact Ky.
Qed.

Lemma lock_iter_tree_spec : forall l b, ppath p (kn p) b l -> forall pend excl acc,
  LI pend excl acc -> (forall h, pend = Some h -> dget h p = Some b) ->
  LI None (fst (lock_iter_tree p l excl acc)) (snd (lock_iter_tree p l excl acc)) /\
  (forall y, In y l -> kn p y -> In y (fst (lock_iter_tree p l excl acc))) /\
  (forall y, In y excl -> In y (fst (lock_iter_tree p l excl acc))) /\
  (forall x, In x acc -> In x (snd (lock_iter_tree p l excl acc))).
Proof.
  intros l b Hp. induction Hp as [t Ht|b b' l Kb Eb Hp IH]; intros pend excl acc I Hpend.
  - assert (Et : dget t p = None) by (unfold kn in Ht; destruct (dget t p); [exfalso; apply Ht; discriminate|reflexivity]).
    cbn [lock_iter_tree]. destruct (mem t excl) eqn:Em; cbn [fst snd].
    + split; [|split; [|auto]].
      * constructor; try apply I. intros h q Hh Eq Kq.
        destruct (li_closed _ _ _ I _ _ Hh Eq Kq) as [H|H]; [now left|].
        exfalso. apply Hpend in H. rewrite Eq in H. inversion H; subst. contradiction.
      * intros y [<-|[]] Ky. contradiction.
    + rewrite Et. cbn [lock_iter_tree fst snd]. split; [|split; [|split; [intros y Hy; now right|auto]]].
      * constructor.
        -- intros h q Hq. destruct (li_acc _ _ _ I _ _ Hq) as (A & B & C). split; [exact A|]. split; [exact B|now right].
        -- intros h [<-|Hh]; [right; right; exact Ht|apply (li_excl _ _ _ I _ Hh)].
        -- intros h Hh. right. apply (li_lk _ _ _ I _ Hh).
        -- intros h q [<-|Hh] Eq Kq; [congruence|].
           destruct (li_closed _ _ _ I _ _ Hh Eq Kq) as [H|H]; [left; now right|].
           apply Hpend in H. rewrite Eq in H. inversion H; subst. left. now left.
      * intros y [<-|[]] Ky. contradiction.
  - cbn [lock_iter_tree]. destruct (mem b excl) eqn:Em; cbn [fst snd].
    + apply mem_In in Em.
      assert (I0 : LI None excl acc).
      { constructor; try apply I. intros h q Hh Eq Kq.
        destruct (li_closed _ _ _ I _ _ Hh Eq Kq) as [H|H]; [now left|].
        apply Hpend in H. rewrite Eq in H. inversion H; subst. now left. }
      split; [exact I0|]. split; [|auto].
      intros y Hy Ky. eapply (closed_up _ _ I0 b (b :: l)); eauto. econstructor; eauto.
    + apply mem_false in Em. rewrite Eb.
      assert (I1 : LI (Some b) (b :: excl) (acc ++ [(b, b')])).
      { constructor.
        - intros h q Hq. apply in_app_iff in Hq. destruct Hq as [Hq|[Hq|[]]].
          + destruct (li_acc _ _ _ I _ _ Hq) as (A & B & C). split; [exact A|]. split; [exact B|now right].
          + inversion Hq; subst. split; [exact Eb|]. split; [|now left].
            intros H. apply Em. apply (li_lk _ _ _ I _ H).
        - intros h [<-|Hh].
          + right. left. exists b'. rewrite in_app_iff. right. now left.
          + destruct (li_excl _ _ _ I _ Hh) as [H|[(q & H)|H]]; auto.
            right. left. exists q. rewrite in_app_iff. now left.
        - intros h Hh. right. apply (li_lk _ _ _ I _ Hh).
        - intros h q [<-|Hh] Eq Kq; [now right|].
          destruct (li_closed _ _ _ I _ _ Hh Eq Kq) as [H|H]; [left; now right|].
          apply Hpend in H. rewrite Eq in H. inversion H; subst. left. now left. }
      destruct (IH (Some b) (b :: excl) (acc ++ [(b, b')]) I1) as (A & B & C & D).
      { intros h E. inversion E; subst. exact Eb. }
      split; [exact A|]. split; [|split].
      * intros y [<-|Hy] Ky; [apply C; now left|auto].
      * intros y Hy. apply C. now right.
      * intros x Hx. apply D. rewrite in_app_iff. now left.
Qed.

Lemma lock_iter_spec : forall trees excl acc,
  (forall b l, In (b, l) trees -> ppath p (kn p) b l) -> LI None excl acc ->
  exists excl', LI None excl' (lock_iter p trees excl acc) /\
    (forall b l y, In (b, l) trees -> In y l -> kn p y -> In y excl') /\ (forall y, In y excl -> In y excl').
Proof.
  induction trees as [|[b l] r IH]; intros excl acc Ht I.
  - exists excl. split; [exact I|]. split; [intros b l y []|auto].
  - cbn [lock_iter].
    destruct (lock_iter_tree_spec l b (Ht b l (or_introl eq_refl)) None excl acc I) as (A & B & C & D).
    { intros h E. discriminate. }
    destruct (lock_iter_tree p l excl acc) as [excl1 acc1]. cbn [fst snd] in *.
    destruct (IH excl1 acc1) as (excl' & A' & B' & C').
    { intros b0 l0 H. apply Ht. now right. }
    { exact A. }
    exists excl'. split; [exact A'|]. split; [|auto].
    intros b0 l0 y [E|H] Hy Ky; [inversion E; subst; apply C'; auto|eapply B'; eauto].
Qed.
End LockIter.

(* what the new finder is given *)
Lemma lock_nodes_spec cf LK :
  finder_ok cf -> (forall h q, In h LK -> dget h (pl cf) = Some q -> kn (pl cf) q -> In q LK) ->
  let nodes := lock_iter (pl cf) (tfb cf) (rev LK) [] in
  (forall h q, In (h, q) nodes -> dget h (pl cf) = Some q /\ ~ In h LK) /\
  (forall h, kn (pl cf) h -> ~ In h LK -> exists q, In (h, q) nodes).
Proof.
  intros (Ft & Fd & Fn & Fc & Fk) HLK nodes.
  destruct (lock_iter_spec (pl cf) LK (tfb cf) (rev LK) []) as (excl' & I & Hall & _).
  - intros b l H. apply Ft. now apply In_dget_nodup.
  - constructor.
    + intros h q [].
    + intros h Hh. left. now rewrite <- in_rev in Hh.
    + intros h Hh. now rewrite <- in_rev.
    + intros h q Hh Eq Kq. left. rewrite <- in_rev in *. eapply HLK; eauto.
  - fold nodes in I. split.
    + intros h q H. destruct (li_acc _ _ _ _ _ I _ _ H) as (A & B & _). auto.
    + intros h Kh Hn. destruct (Fc _ Kh) as (b & l & E & Hin).
      assert (Hex : In h excl') by (apply (Hall b l h); [now apply dget_In|exact Hin|exact Kh]).
      destruct (li_excl _ _ _ _ _ I _ Hex) as [H|[H|H]]; [contradiction|exact H|contradiction].
Qed.
