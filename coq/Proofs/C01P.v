(* Proofs/C01P.v — lemmas that combine the ECDSA and RFC 6979 developments, the facts about the
   regenerated production-curve constants, and the witnesses (computed on toy curves) of the two
   statements that the current code does not satisfy. *)
From Coq Require Import ZArith List Lia Bool Znumtheory.
From PV Require Import Base.Bytes Base.Outcome Gen.GenCurvesC01 Model.Ecdsa Model.Rfc6979 Model.EcdsaInst
  Spec.EcdsaSpec Spec.Rfc6979Spec Proofs.EcdsaP Proofs.Rfc6979P Proofs.EcdsaInstP.
Import ListNotations.
Local Open Scope Z_scope.

Section Combined.
  Variable pt : Type.
  Variable add : pt -> pt -> pt.
  Variable neg : pt -> pt.
  Variable O : pt.
  Variable smul : Z -> pt -> pt.
  Variable G : pt.
  Variable n : Z.
  Variable coords : pt -> option (Z * Z).
  Variable hmac : bytes -> bytes -> bytes.
  Variable hlen : nat.
  Hypothesis GL : group_laws pt add neg O smul n coords.
  Hypothesis Hn : prime n.

  (* sign_with_recid with its default nonce function signs with the RFC 6979 nonce whenever that nonce
     gives non-zero r and s *)
  Theorem sign_is_rfc6979 kfuel d z k x y :
    0 <= d < n -> 0 < z < 256 ^ Z.of_nat hlen ->
    rfc6979_k hmac n kfuel d (int_to_octets hlen z) = Some k ->
    coords (smul k G) = Some (x, y) -> x mod n <> 0 -> (z + (x mod n) * d) mod n <> 0 ->
    forall fuel, exists s c,
      sign_with_recid pt smul G n coords (deterministic_generate_k hmac hlen kfuel) (S fuel) d z = Ret (x mod n, s, c) /\
      1 <= s < n /\ (s * k) mod n = (z + (x mod n) * d) mod n.
  Proof.
    intros Hd Hz Hk Hc Hr Hs fuel.
    pose proof (prime_ge_2 n Hn) as H2.
    apply (first_nonce_signature pt add neg O smul G n coords GL Hn _ d z k x y); try assumption; [lia|].
    rewrite (model_is_spec hmac hlen n ltac:(lia) kfuel d z Hd ltac:(lia)), Hk. reflexivity.
  Qed.
End Combined.

(* the HMAC message of steps d and f determines the key and the reduced hash *)
Theorem nonce_message_injective q x1 h1 x2 h2 : 0 < q -> 0 <= x1 < q -> 0 <= x2 < q ->
  int2octets q x1 ++ bits2octets q h1 = int2octets q x2 ++ bits2octets q h2 ->
  x1 = x2 /\ bits2int q h1 mod q = bits2int q h2 mod q.
Proof.
  intros Hq H1 H2 H. unfold bits2octets, int2octets in H.
  pose proof (n_lt_pow_osz q Hq) as Hb. cbv zeta in Hb.
  pose proof (Z.mod_pos_bound (bits2int q h1) q Hq). pose proof (Z.mod_pos_bound (bits2int q h2) q Hq).
  apply nonce_input_injective in H; unfold rolen, qlen; try lia.
Qed.

(* two hash values give the same HMAC message under the same key iff their reduced forms agree; for the
   model: the value hashed into the nonce is reduced_hash *)
Theorem model_nonce_message_injective hlen n d1 z1 d2 z2 : 0 < n ->
  0 <= d1 < n -> 0 <= d2 < n -> 0 <= z1 < 256 ^ Z.of_nat hlen -> 0 <= z2 < 256 ^ Z.of_nat hlen ->
  int2octets n d1 ++ bits2octets n (int_to_octets hlen z1) = int2octets n d2 ++ bits2octets n (int_to_octets hlen z2) ->
  d1 = d2 /\ reduced_hash hlen n z1 = reduced_hash hlen n z2.
Proof.
  intros Hn H1 H2 Hz1 Hz2 H. apply nonce_message_injective in H; try assumption.
  destruct H as [Hd Hr]. split; [exact Hd|].
  destruct (reduced_hash_spec hlen n Hn z1 Hz1) as [E1 _]. destruct (reduced_hash_spec hlen n Hn z2 Hz2) as [E2 _].
  congruence.
Qed.

(* ---- the regenerated production constants ---- *)
Lemma production_orders_256_bits : qlen_of gen_secp256k1_n = 256 /\ qlen_of gen_secp256r1_n = 256.
Proof. split; vm_compute; reflexivity. Qed.

Lemma production_order_below_field : gen_secp256k1_n < gen_secp256k1_p /\ gen_secp256r1_n < gen_secp256r1_p.
Proof. split; vm_compute; reflexivity. Qed.

Lemma production_field_3_mod_4 : gen_secp256k1_p mod 4 = 3 /\ gen_secp256r1_p mod 4 = 3.
Proof. split; vm_compute; reflexivity. Qed.

Lemma production_hash_size : gen_rfc6979_hash_size = 32%nat.
Proof. reflexivity. Qed.

Lemma production_constants :
  qlen_of gen_secp256k1_n = 256 /\ qlen_of gen_secp256r1_n = 256 /\
  gen_secp256k1_n < gen_secp256k1_p /\ gen_secp256r1_n < gen_secp256r1_p /\
  gen_secp256k1_p mod 4 = 3 /\ gen_secp256r1_p mod 4 = 3 /\ gen_rfc6979_hash_size = 32%nat.
Proof.
  pose proof production_orders_256_bits. pose proof production_order_below_field. pose proof production_field_3_mod_4.
  pose proof production_hash_size. tauto.
Qed.

(* on a 256-bit order with a 32-byte hash nothing is shifted: the hash enters the nonce reduced modulo n *)
Lemma reduced_hash_256 n z : 0 < n -> qlen_of n = 256 -> 0 <= z < 2 ^ 256 ->
  reduced_hash 32 n z = z mod n.
Proof.
  intros Hn Hq Hz.
  destruct (reduced_hash_spec 32 n Hn z) as [E _]; [change (256 ^ Z.of_nat 32) with (2 ^ 256); exact Hz|].
  rewrite E. f_equal. unfold bits2int. rewrite int_to_octets_length, octets_int_roundtrip.
  - unfold qlen. rewrite Hq. reflexivity.
  - change (256 ^ Z.of_nat 32) with (2 ^ 256). exact Hz.
Qed.

(* ---- witnesses on the toy curve y^2 = x^3 + 3 over Z_7, G = (1,2), n = 13 ---- *)
Definition toy_verify (c : curve) := verify (pt c) (padd c) (psmul c) (pG c) (cn c) (pcoords c).
Definition toy_recover (c : curve) := recover (pt c) (padd c) (psmul c) (pG c) (cn c) (plift_x c).
Definition toy_sign_with_k (c : curve) (fuel : nat) (d z k : Z) :=
  sign_with_recid (pt c) (psmul c) (pG c) (cn c) (pcoords c) (fun _ _ _ => Ret k) fuel d z.

(* d = 2, z = 11, nonce 12 = n - 1 (which is what RFC 6979/HMAC-SHA256 yields for this pair): nonce 12 gives s = 0,
   the retry k = 13 = n multiplies G to infinity and `None % n` raises TypeError *)
Lemma toy13_sign_raises : forall fuel, toy_sign_with_k toy13 (S (S fuel)) 2 11 12 = Raise E_TYPE.
Proof. intros fuel. vm_compute. reflexivity. Qed.

Lemma toy13_sign_never_returns : forall fuel sig, toy_sign_with_k toy13 fuel 2 11 12 <> Ret sig.
Proof.
  intros [|[|fuel]] sig.
  - vm_compute. discriminate.
  - vm_compute. discriminate.
  - rewrite toy13_sign_raises. discriminate.
Qed.

(* r = 8 >= p = 7: the keys recovered for (z, r, s) = (1, 8, 1) do not verify *)
Lemma toy13_recover_unsound :
  exists l Q, toy_recover toy13 1 8 1 None = Ret l /\ In Q l /\ toy_verify toy13 (Some Q) 1 8 1 = Ret false.
Proof.
  destruct (toy_recover toy13 1 8 1 None) as [l| |] eqn:E; [|vm_compute in E; discriminate|vm_compute in E; discriminate].
  destruct l as [|Q l]; [vm_compute in E; discriminate|].
  exists (Q :: l), Q. split; [reflexivity|]. split; [left; reflexivity|].
  assert (HQ : Q = hd (pO toy13) (match toy_recover toy13 1 8 1 None with Ret l => l | _ => [] end)) by (rewrite E; reflexivity).
  rewrite HQ. vm_compute. reflexivity.
Qed.

Lemma secp256k1_reduced_hash z : 0 <= z < 2 ^ 256 ->
  reduced_hash gen_rfc6979_hash_size gen_secp256k1_n z = z mod gen_secp256k1_n.
Proof.
  intros Hz. rewrite production_hash_size. apply reduced_hash_256; [reflexivity|apply production_orders_256_bits|exact Hz].
Qed.

Lemma refuted_recover_sound :
  ~ (forall c : curve, curve_ok c = true ->
     forall (z r s : Z) (yp : option Z) (l : list (EcdsaInst.pt c)) (Q : EcdsaInst.pt c), z <> 0 ->
       toy_recover c z r s yp = Ret l -> In Q l -> toy_verify c (Some Q) z r s = Ret true).
Proof.
  intros H. destruct toy13_recover_unsound as [l [Q [H1 [H2 H3]]]].
  specialize (H toy13 toy13_ok 1 8 1 None l Q ltac:(discriminate) H1 H2). rewrite H3 in H. discriminate.
Qed.

Lemma refuted_sign_total :
  ~ (forall c : curve, curve_ok c = true ->
     forall d z k : Z, 1 <= d < cn c -> z <> 0 -> 1 <= k < cn c ->
       exists fuel sig, toy_sign_with_k c fuel d z k = Ret sig).
Proof.
  intros H. destruct (H toy13 toy13_ok 2 11 12) as [fuel [sig Hs]]; try (cbn; lia).
  exact (toy13_sign_never_returns fuel sig Hs).
Qed.

Lemma toy_curves_satisfy_hypotheses :
  forall c, In c [toy13; toy11; toy19; toy23] ->
    group_laws (EcdsaInst.pt c) (padd c) (pneg c) (pO c) (psmul c) (cn c) (pcoords c) /\
    lift_laws (EcdsaInst.pt c) (pcoords c) (plift_x c) (x_canonical c) /\ prime (cn c).
Proof.
  intros c Hc.
  assert (Hok : curve_ok c = true).
  { cbn in Hc. destruct Hc as [<-|[<-|[<-|[<-|[]]]]]; [apply toy13_ok|apply toy11_ok|apply toy19_ok|apply toy23_ok]. }
  split; [apply inst_group_laws; exact Hok|]. split; [apply inst_lift_laws; exact Hok|apply n_prime; exact Hok].
Qed.
