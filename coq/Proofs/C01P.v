(* Proofs/C01P.v — lemmas that combine the ECDSA and RFC 6979 developments, the facts about the
   regenerated production-curve constants, and the witnesses (computed on toy curves) of the two
   statements that the current code does not satisfy. *)
From Coq Require Import ZArith List Lia Bool Znumtheory.
From PV Require Import Base.Bytes Base.Outcome Gen.GenCurvesC01 Model.Ecdsa Model.Rfc6979 Model.EcdsaInst
  Spec.EcdsaSpec Spec.Rfc6979Spec Proofs.EcdsaP Proofs.Rfc6979P Proofs.EcdsaInstP.
Import ListNotations.
Local Open Scope Z_scope.

Section Combined.
  Variable pt : Type.
  Variable add : pt -> pt -> pt.
  Variable neg : pt -> pt.
  Variable O : pt.
  Variable smul : Z -> pt -> pt.
  Variable G : pt.
  Variable n : Z.
  Variable coords : pt -> option (Z * Z).
  Variable hmac : bytes -> bytes -> bytes.
  Variable hlen : nat.
  Hypothesis GL : group_laws pt add neg O smul n coords.
  Hypothesis Hn : prime n.

  (* sign_with_recid with its default nonce function signs with the RFC 6979 nonce whenever that nonce
     gives non-zero r and s *)
  Theorem sign_is_rfc6979 kfuel d z k x y :
    0 <= d < n -> 0 < z < 256 ^ Z.of_nat hlen ->
    rfc6979_k hmac n kfuel d (int_to_octets hlen z) = Some k ->
    coords (smul k G) = Some (x, y) -> x mod n <> 0 -> (z + (x mod n) * d) mod n <> 0 ->
    forall fuel, exists s c,
      sign_with_recid pt smul G n coords (deterministic_generate_k hmac hlen kfuel) (S fuel) d z = Ret (x mod n, s, c) /\
      1 <= s < n /\ (s * k) mod n = (z + (x mod n) * d) mod n.
  Proof.
    intros Hd Hz Hk Hc Hr Hs fuel.
    pose proof (prime_ge_2 n Hn) as H2.
    apply (first_nonce_signature pt add neg O smul G n coords GL Hn _ d z k x y); try assumption; [lia|].
    rewrite (model_is_spec hmac hlen n ltac:(lia) kfuel d z Hd ltac:(lia)), Hk. reflexivity.
  Qed.

  Hypothesis G_nonzero : G <> O.

  (* with the default nonce function signing never raises for a key in [0, n-1] and a non-zero hash below 2^(8 hlen) *)
  Theorem sign_never_raises_default kfuel fuel d z e : 0 <= d < n -> 0 < z < 256 ^ Z.of_nat hlen ->
    sign_with_recid pt smul G n coords (deterministic_generate_k hmac hlen kfuel) fuel d z <> Raise e.
  Proof.
    intros Hd Hz. pose proof (prime_ge_2 n Hn) as H2.
    apply (sign_never_raises pt add neg O smul G n coords GL Hn G_nonzero); [lia| |].
    - intros e'. apply gen_k_never_raises; lia.
    - intros k0. apply gen_k_range.
  Qed.

  (* ... and returns a signature as soon as the RFC 6979 loop has produced its nonce, some nonce of [1, n-1]
     gives non-zero r and s, and the retry loop has n - 1 iterations of fuel *)
  Theorem sign_total_default kfuel fuel d z k0 j : 0 <= d < n -> 0 < z < 256 ^ Z.of_nat hlen ->
    rfc6979_k hmac n kfuel d (int_to_octets hlen z) = Some k0 ->
    1 <= j < n -> nonce_good pt smul G n coords d z j -> n - 1 <= Z.of_nat fuel ->
    exists sig, sign_with_recid pt smul G n coords (deterministic_generate_k hmac hlen kfuel) fuel d z = Ret sig.
  Proof.
    intros Hd Hz Hk Hj Hg Hf. pose proof (prime_ge_2 n Hn) as H2.
    assert (Hgk : deterministic_generate_k hmac hlen kfuel n d z = Ret k0).
    { rewrite (model_is_spec hmac hlen n ltac:(lia) kfuel d z Hd ltac:(lia)), Hk. reflexivity. }
    apply (sign_total pt add neg O smul G n coords GL Hn G_nonzero _ fuel d z k0 j); try assumption; [lia|].
    apply (gen_k_range _ _ _ _ _ _ _ Hgk).
  Qed.
End Combined.

(* the HMAC message of steps d and f determines the key and the reduced hash *)
Theorem nonce_message_injective q x1 h1 x2 h2 : 0 < q -> 0 <= x1 < q -> 0 <= x2 < q ->
  int2octets q x1 ++ bits2octets q h1 = int2octets q x2 ++ bits2octets q h2 ->
  x1 = x2 /\ bits2int q h1 mod q = bits2int q h2 mod q.
Proof.
  intros Hq H1 H2 H. unfold bits2octets, int2octets in H.
  pose proof (n_lt_pow_osz q Hq) as Hb. cbv zeta in Hb.
  pose proof (Z.mod_pos_bound (bits2int q h1) q Hq). pose proof (Z.mod_pos_bound (bits2int q h2) q Hq).
  apply nonce_input_injective in H; unfold rolen, qlen; try lia.
Qed.

(* two hash values give the same HMAC message under the same key iff their reduced forms agree; for the
   model: the value hashed into the nonce is reduced_hash *)
Theorem model_nonce_message_injective hlen n d1 z1 d2 z2 : 0 < n ->
  0 <= d1 < n -> 0 <= d2 < n -> 0 <= z1 < 256 ^ Z.of_nat hlen -> 0 <= z2 < 256 ^ Z.of_nat hlen ->
  int2octets n d1 ++ bits2octets n (int_to_octets hlen z1) = int2octets n d2 ++ bits2octets n (int_to_octets hlen z2) ->
  d1 = d2 /\ reduced_hash hlen n z1 = reduced_hash hlen n z2.
Proof.
  intros Hn H1 H2 Hz1 Hz2 H. apply nonce_message_injective in H; try assumption.
  destruct H as [Hd Hr]. split; [exact Hd|].
  destruct (reduced_hash_spec hlen n Hn z1 Hz1) as [E1 _]. destruct (reduced_hash_spec hlen n Hn z2 Hz2) as [E2 _].
  congruence.
Qed.

(* ---- the regenerated production constants ---- *)
Lemma production_orders_256_bits : qlen_of gen_secp256k1_n = 256 /\ qlen_of gen_secp256r1_n = 256.
Proof. split; vm_compute; reflexivity. Qed.

Lemma production_order_below_field : gen_secp256k1_n < gen_secp256k1_p /\ gen_secp256r1_n < gen_secp256r1_p.
Proof. split; vm_compute; reflexivity. Qed.

Lemma production_field_3_mod_4 : gen_secp256k1_p mod 4 = 3 /\ gen_secp256r1_p mod 4 = 3.
Proof. split; vm_compute; reflexivity. Qed.

Lemma production_hash_size : gen_rfc6979_hash_size = 32%nat.
Proof. reflexivity. Qed.

Lemma production_constants :
  qlen_of gen_secp256k1_n = 256 /\ qlen_of gen_secp256r1_n = 256 /\
  gen_secp256k1_n < gen_secp256k1_p /\ gen_secp256r1_n < gen_secp256r1_p /\
  gen_secp256k1_p mod 4 = 3 /\ gen_secp256r1_p mod 4 = 3 /\ gen_rfc6979_hash_size = 32%nat.
Proof.
  pose proof production_orders_256_bits. pose proof production_order_below_field. pose proof production_field_3_mod_4.
  pose proof production_hash_size. tauto.
Qed.

(* on a 256-bit order with a 32-byte hash nothing is shifted: the hash enters the nonce reduced modulo n *)
Lemma reduced_hash_256 n z : 0 < n -> qlen_of n = 256 -> 0 <= z < 2 ^ 256 ->
  reduced_hash 32 n z = z mod n.
Proof.
  intros Hn Hq Hz.
  destruct (reduced_hash_spec 32 n Hn z) as [E _]; [change (256 ^ Z.of_nat 32) with (2 ^ 256); exact Hz|].
  rewrite E. f_equal. unfold bits2int. rewrite int_to_octets_length, octets_int_roundtrip.
  - unfold qlen. rewrite Hq. reflexivity.
  - change (256 ^ Z.of_nat 32) with (2 ^ 256). exact Hz.
Qed.

(* ---- witnesses on the toy curve y^2 = x^3 + 3 over Z_7, G = (1,2), n = 13 ---- *)
Definition toy_verify (c : curve) := verify (pt c) (padd c) (psmul c) (pG c) (cn c) (pcoords c).
Definition toy_recover (c : curve) := recover (pt c) (padd c) (psmul c) (pG c) (cn c) (cp c) (plift_x c).
Definition toy_sign_with_k (c : curve) (fuel : nat) (d z k : Z) :=
  sign_with_recid (pt c) (psmul c) (pG c) (cn c) (pcoords c) (fun _ _ _ => Ret k) fuel d z.

Lemma secp256k1_reduced_hash z : 0 <= z < 2 ^ 256 ->
  reduced_hash gen_rfc6979_hash_size gen_secp256k1_n z = z mod gen_secp256k1_n.
Proof.
  intros Hz. rewrite production_hash_size. apply reduced_hash_256; [reflexivity|apply production_orders_256_bits|exact Hz].
Qed.

Lemma toy_curves_satisfy_hypotheses :
  forall c, In c [toy13; toy11; toy19; toy23] ->
    group_laws (EcdsaInst.pt c) (padd c) (pneg c) (pO c) (psmul c) (cn c) (pcoords c) /\
    lift_laws (EcdsaInst.pt c) (pcoords c) (plift_x c) (fun x => 0 <= x < cp c) /\ prime (cn c) /\ pG c <> pO c.
Proof.
  intros c Hc.
  assert (Hok : curve_ok c = true).
  { cbn in Hc. destruct Hc as [<-|[<-|[<-|[<-|[]]]]]; [apply toy13_ok|apply toy11_ok|apply toy19_ok|apply toy23_ok]. }
  split; [apply inst_group_laws; exact Hok|]. split; [apply inst_lift_laws; exact Hok|].
  split; [apply n_prime; exact Hok|apply inst_G_nonzero; exact Hok].
Qed.

(* on the two smallest of them every key and every hash residue has a nonce with non-zero r and s *)
Lemma toy_good_nonces :
  forall c, In c [toy13; toy11] -> forall d z, 1 <= d < cn c -> 0 <= z < cn c ->
    exists j, 1 <= j < cn c /\ nonce_good (EcdsaInst.pt c) (psmul c) (pG c) (cn c) (pcoords c) d z j.
Proof.
  intros c Hc d z Hd Hz.
  assert (Hok : curve_ok c = true /\ good_nonce_ok c = true).
  { cbn in Hc. destruct Hc as [<-|[<-|[]]]; split;
      [apply toy13_ok|apply toy13_good_nonces|apply toy11_ok|apply toy11_good_nonces]. }
  destruct Hok as [Hcok Hok].
  destruct (good_nonce_ok_spec c Hcok Hok d z Hd Hz) as [j [Hj Hg]]. exists j. split; [exact Hj|].
  unfold good_nonce_b in Hg. unfold nonce_good, pcoords.
  destruct (praw c (psmul c j (pG c))) as [[x y]|]; [|discriminate].
  exists x, y. split; [reflexivity|]. apply andb_true_iff in Hg. destruct Hg as [H1 H2].
  split; [destruct (x mod cn c =? 0) eqn:E; [discriminate|lia]|].
  destruct ((z + x mod cn c * d) mod cn c =? 0) eqn:E; [discriminate|lia].
Qed.

