(* Proofs/BlockCallP.v — every way of calling Block.parse means the same thing: positional in the documented order,
   by keyword in any order, mixed, with defaults; and every call form that does not switch the check off rejects a
   block whose transactions do not hash to the header's root. *)
From PV Require Import Base.Bytes Base.Outcome Base.Varint Model.Merkle Spec.MerkleSpec Model.Block Model.BlockCall Proofs.BlockP.
Local Open Scope outcome_scope.

Notation kI := name_include_transactions.
Notation kO := name_include_offsets.
Notation kC := name_check_merkle_hash.
Notation dI := (VBool true).
Notation dO := VNone.
Notation dC := (VBool true).

(* positional calls in the documented order, with 0..3 arguments; a 4th is a TypeError *)
Lemma bind_positional a b c d :
  bind_args block_parse_sig [] [] = Ret [dI; dO; dC] /\
  bind_args block_parse_sig [a] [] = Ret [a; dO; dC] /\
  bind_args block_parse_sig [a; b] [] = Ret [a; b; dC] /\
  bind_args block_parse_sig [a; b; c] [] = Ret [a; b; c] /\
  bind_args block_parse_sig [a; b; c; d] [] = Raise E_TYPE.
Proof. repeat split. Qed.

(* keyword calls: any subset, any order *)
Lemma bind_keywords a b c :
  bind_args block_parse_sig [] [(kI, a); (kO, b); (kC, c)] = Ret [a; b; c] /\
  bind_args block_parse_sig [] [(kI, a); (kC, c); (kO, b)] = Ret [a; b; c] /\
  bind_args block_parse_sig [] [(kO, b); (kI, a); (kC, c)] = Ret [a; b; c] /\
  bind_args block_parse_sig [] [(kO, b); (kC, c); (kI, a)] = Ret [a; b; c] /\
  bind_args block_parse_sig [] [(kC, c); (kI, a); (kO, b)] = Ret [a; b; c] /\
  bind_args block_parse_sig [] [(kC, c); (kO, b); (kI, a)] = Ret [a; b; c] /\
  bind_args block_parse_sig [] [(kI, a)] = Ret [a; dO; dC] /\
  bind_args block_parse_sig [] [(kO, b)] = Ret [dI; b; dC] /\
  bind_args block_parse_sig [] [(kC, c)] = Ret [dI; dO; c] /\
  bind_args block_parse_sig [] [(kI, a); (kO, b)] = Ret [a; b; dC] /\
  bind_args block_parse_sig [] [(kO, b); (kC, c)] = Ret [dI; b; c] /\
  bind_args block_parse_sig [] [(kC, c); (kI, a)] = Ret [a; dO; c].
Proof. repeat split. Qed.

(* mixed calls, and the refusals *)
Lemma bind_mixed a b c :
  bind_args block_parse_sig [a] [(kO, b); (kC, c)] = Ret [a; b; c] /\
  bind_args block_parse_sig [a] [(kC, c)] = Ret [a; dO; c] /\
  bind_args block_parse_sig [a; b] [(kC, c)] = Ret [a; b; c] /\
  bind_args block_parse_sig [a] [(kI, a)] = Raise E_TYPE /\
  bind_args block_parse_sig [a; b] [(kO, b)] = Raise E_TYPE /\
  bind_args block_parse_sig [] [(kC, c); (kC, c)] = Raise E_TYPE /\
  bind_args block_parse_sig [] [([x78], a)] = Raise E_TYPE.
Proof. repeat split. Qed.

Section CallP.
Variable tx : Type.
Variable parse_tx : parser tx.
Variable stream_tx : tx -> bytes.
Variable tx_hash : tx -> bytes.
Variable dsha256 : bytes -> bytes.

(* presentation independence: the call means block_parse on the truth values of the bound parameters, nothing else *)
Lemma call_is_bound pos kw a b c s : bind_args block_parse_sig pos kw = Ret [a; b; c] ->
  block_parse_call tx parse_tx tx_hash dsha256 pos kw s =
  block_parse tx parse_tx tx_hash dsha256 (truthy a) (truthy c) s.
Proof. intros E. unfold block_parse_call. rewrite E. reflexivity. Qed.

Lemma bind_length pos kw vs : bind_args block_parse_sig pos kw = Ret vs -> exists a b c, vs = [a; b; c].
Proof.
  unfold bind_args. intros E.
  apply bind_ret_inv in E. destruct E as (s1 & E1 & E).
  apply bind_ret_inv in E. destruct E as (s2 & E2 & E).
  assert (L1 : length s1 = 3).
  { destruct pos as [|p1 [|p2 [|p3 [|p4 pos]]]]; cbn in E1; try discriminate; injection E1 as <-; reflexivity. }
  assert (Lk : forall k v (sl sl' : list slot), fill_kw sl k v = Ret sl' -> length sl' = length sl).
  { intros k v sl. induction sl as [|[[n d] cur] r IH]; intros sl' F; cbn in F; [discriminate|].
    destruct (bytes_eqb n k).
    - destruct cur; [discriminate|]. injection F as <-. reflexivity.
    - apply bind_ret_inv in F. destruct F as (r' & F1 & F). injection F as <-. cbn. f_equal. now apply IH. }
  assert (L2 : length s2 = 3).
  { clear E E1. revert s1 L1 E2. induction kw as [|[k v] kw IH]; intros s1 L1 E2; cbn in E2.
    - injection E2 as <-. exact L1.
    - apply bind_ret_inv in E2. destruct E2 as (s' & F & E2). apply (IH s'); [|exact E2].
      rewrite (Lk _ _ _ _ F). exact L1. }
  assert (Lf : forall sl vs0, finalize sl = Ret vs0 -> length vs0 = length sl).
  { induction sl as [|[[n d] cur] r IH]; intros vs0 F; cbn in F; [injection F as <-; reflexivity|].
    apply bind_ret_inv in F. destruct F as (v & _ & F). apply bind_ret_inv in F. destruct F as (vs1 & F1 & F).
    injection F as <-. cbn. f_equal. now apply IH. }
  apply Lf in E. rewrite L2 in E.
  destruct vs as [|a [|b [|c [|d vs]]]]; try discriminate. now exists a, b, c.
Qed.

(* every call form that asks for the transactions and does not switch the check off rejects a wrong root *)
Theorem bad_root_rejected_any_call pos kw a b c h ts :
  bind_args block_parse_sig pos kw = Ret [a; b; c] -> truthy a = true -> truthy c = true ->
  tx_parser_consumes tx parse_tx -> wf_header h -> ts <> [] -> (N.of_nat (length ts) < 2 ^ 64)%N ->
  Forall (tx_frame tx parse_tx stream_tx) ts ->
  h_merkle_root h <> merkle_root dsha256 (map tx_hash ts) ->
  exists s, block_stream tx stream_tx (mkBlock tx h ts) = Ret s /\
    forall rest, block_parse_call tx parse_tx tx_hash dsha256 pos kw (s ++ rest) = Raise E_BADMERKLE.
Proof.
  intros E Ta Tc Hc W Hne Hl Hf Hr.
  destruct (block_bad_root_rejected tx parse_tx stream_tx tx_hash dsha256 h ts Hc W Hne Hl Hf Hr) as (s & S1 & S2).
  exists s. split; [exact S1|]. intros rest. rewrite (call_is_bound pos kw a b c) by exact E.
  rewrite Ta, Tc. apply S2.
Qed.

(* ... and returns the block when the root is right, whatever include_offsets is and however the call is written *)
Theorem roundtrip_any_call pos kw a b c h ts :
  bind_args block_parse_sig pos kw = Ret [a; b; c] -> truthy a = true ->
  tx_parser_consumes tx parse_tx -> wf_header h -> ts <> [] -> (N.of_nat (length ts) < 2 ^ 64)%N ->
  Forall (tx_frame tx parse_tx stream_tx) ts ->
  h_merkle_root h = merkle_root dsha256 (map tx_hash ts) ->
  exists s, block_stream tx stream_tx (mkBlock tx h ts) = Ret s /\
    forall rest, block_parse_call tx parse_tx tx_hash dsha256 pos kw (s ++ rest) = Ret (mkBlock tx h ts, rest).
Proof.
  intros E Ta Hc W Hne Hl Hf Hr.
  destruct (block_parse_of_stream tx parse_tx stream_tx tx_hash dsha256 h ts (truthy c) Hc W Hne Hl Hf) as (s & S1 & S2).
  exists s. split; [exact S1|]. intros rest. rewrite (call_is_bound pos kw a b c) by exact E.
  rewrite Ta, S2, Hr, bytes_eqb_refl, orb_true_r. reflexivity.
Qed.
End CallP.
