(* Proofs/Bech32CanonP.v — C11, part 6: segwit encode is also the inverse of decode: whatever decode accepts is
   (case aside) exactly the string encode produces for the decoded (version, program) — the accepted spelling of
   an address is unique. *)
From PV Require Import Base.Bytes Base.Outcome Gen.GenCodecsC11 Model.Base58 Model.Bech32
  Proofs.Base58P Proofs.Bech32P Proofs.Bech32StrP Proofs.Bech32DetectP Proofs.Bech32DetectStrP
  Proofs.Bech32Detect3P.
From Coq Require Import ZifyBool ZifyNat ZifyN.
Local Open Scope Z_scope.

(* ---- the register run on at most six symbols from state 0 is just the base-32 number ------------------------ *)
Lemma lin_short e : syms5 e -> (length e <= 6)%nat -> lin e = valfrom 32 0 e.
Proof.
  induction e as [|v e IH] using rev_ind; intros Hs Hl; [reflexivity|].
  apply Forall_app in Hs. destruct Hs as [Hs Hv]. inversion Hv as [|? ? Hv' _]; subst.
  rewrite app_length in Hl. cbn [length] in Hl.
  rewrite lin_snoc, valfrom_app, IH by (assumption || lia). cbn [valfrom fold_left].
  pose proof (valfrom_bound 32 ltac:(lia) e Hs) as B.
  assert (B25 : 0 <= valfrom 32 0 e < 2 ^ 25).
  { split; [lia|]. eapply Z.lt_le_trans; [apply B|]. change (2 ^ 25) with (32 ^ 5).
    apply Z.pow_le_mono_r; lia. }
  fold (valfrom 32 0 e). rewrite lstep_lt25 by exact B25.
  rewrite Z.lxor_lor by (apply land_shiftl_small; [lia|change (2 ^ 5) with 32; lia]).
  rewrite lor_shiftl_add by (change (2 ^ 5) with 32; lia). reflexivity.
Qed.

Lemma valfrom_zero_all e : in_range 32 e -> valfrom 32 0 e = 0 -> Forall (fun v => v = 0) e.
Proof.
  intros Hr Hv. pose proof (strip_val0 32 ltac:(lia) e Hr Hv) as S0.
  rewrite (lz_strip e), S0, app_nil_r. apply Forall_forall. intros x Hx. now apply repeat_spec in Hx.
Qed.

Lemma zipxor_zero_eq c : forall c', length c = length c' -> Forall (fun v => v = 0) (zipxor c c') -> c = c'.
Proof.
  induction c as [|x r IH]; intros [|y r'] Hl H; try discriminate; [reflexivity|].
  cbn [zipxor] in H. inversion H as [|? ? H1 H2]; subst. apply Z.lxor_eq in H1. subst.
  f_equal. apply IH; [cbn in Hl; lia|exact H2].
Qed.

(* the six checksum symbols are determined by what precedes them and the constant *)
Lemma checksum_unique s0 c c' : syms5 c -> syms5 c' -> length c = 6%nat -> length c' = 6%nat ->
  pm_from s0 c = pm_from s0 c' -> c = c'.
Proof.
  intros H1 H2 L1 L2 E. pose proof (pm_from_lxor c c' s0 s0 ltac:(lia)) as L.
  rewrite E, !Z.lxor_nilpotent in L. fold (lin (zipxor c c')) in L.
  pose proof (zipxor_range c c' H1 H2) as Hr.
  rewrite lin_short in L by (try assumption; rewrite zipxor_length; lia).
  apply zipxor_zero_eq; [lia|]. apply valfrom_zero_all; [exact Hr|now symmetry].
Qed.

(* ---- strings ---------------------------------------------------------------------------------------------------- *)
Lemma charset_map_find t : forallb in_charset t = true -> charset_map (map charset_find t) = Ret t.
Proof.
  induction t as [|c r IH]; intros H; [reflexivity|]. cbn [forallb] in H. apply andb_true_iff in H.
  destruct H as [H1 H2]. cbn [map charset_map]. destruct (charset_char c H1) as [_ E]. now rewrite E, IH.
Qed.

Lemma lower_no_upper s : no_upper (map lower_c s).
Proof.
  apply Forall_map. apply Forall_forall. intros c _. unfold lower_c, is_upper.
  destruct ((65 <=? c) && (c <=? 90))%N eqn:E; [|exact E]. lia.
Qed.

Lemma lower_map_printable s : printable s -> printable (map lower_c s).
Proof. intros H. apply Forall_map. eapply Forall_impl; [|exact H]. intros c. apply lower_printable. Qed.

Lemma map_lower_idem s : map lower_c (map lower_c s) = map lower_c s.
Proof. rewrite map_map. apply map_ext. apply lower_idem. Qed.

Lemma charset_lower t : forallb in_charset t = true -> map lower_c t = t.
Proof.
  induction t as [|c r IH]; intros H; [reflexivity|]. cbn [forallb] in H. apply andb_true_iff in H.
  destruct H as [H1 H2]. cbn [map]. rewrite (cd_lower _ _ (charset_char_facts c H1)), IH by exact H2. reflexivity.
Qed.

(* what bech32_decode accepts it also accepts in lower case, with the same result *)
Lemma bech32_decode_lower s mx r : bech32_decode_max s mx = Some r -> bech32_decode_max (map lower_c s) mx = Some r.
Proof.
  destruct r as [[h d] spec]. intros E. destruct (bech32_decode_inv s mx h d spec E) as (t & F).
  pose proof (df_split _ _ _ _ _ _ F) as Sp.
  pose proof (lower_map_printable s (df_print _ _ _ _ _ _ F)) as Pl. rewrite Sp in Pl.
  apply Forall_app in Pl. destruct Pl as [Ph Pt]. inversion Pt as [|? ? _ Pt']; subst.
  pose proof (lower_no_upper s) as Nu. rewrite Sp in Nu. apply Forall_app in Nu. destruct Nu as [Nh _].
  assert (Lt : map lower_c t = t) by (apply charset_lower; exact (df_charset _ _ _ _ _ _ F)).
  rewrite Sp, (decode_lower_form h t mx); try assumption.
  - rewrite (df_verify _ _ _ _ _ _ F), <- (df_data _ _ _ _ _ _ F). reflexivity.
  - exact (df_hrp _ _ _ _ _ _ F).
  - exact (df_charset _ _ _ _ _ _ F).
  - exact (df_no1 _ _ _ _ _ _ F).
  - exact (df_tail6 _ _ _ _ _ _ F).
  - pose proof (df_len _ _ _ _ _ _ F) as Hl. apply (f_equal (@length _)) in Sp.
    rewrite map_length, app_length in Sp. cbn [length] in Sp. lia.
Qed.

Lemma decode_lower hrp s r : decode hrp s = Some r -> decode hrp (map lower_c s) = Some r.
Proof.
  unfold decode, bech32_decode. destruct (bech32_decode_max s 90) as [x|] eqn:E; [|discriminate].
  now rewrite (bech32_decode_lower s 90 x E).
Qed.

(* ---- decode then encode ---------------------------------------------------------------------------------------- *)
Theorem segwit_decode_encode : forall hrp s ver prog, decode hrp s = Some (ver, prog) ->
  bytes8 prog /\ encode hrp ver prog = Ret (Some (map lower_c s)).
Proof.
  intros hrp s ver prog D. pose proof (decode_lower hrp s _ D) as DL.
  apply segwit_decode_accepts_iff in D. destruct D as (data & spec & E & Ec & Hp & Hv & H0 & Hs).
  destruct (convertbits_roundtrip_5_8_5 data prog Ec) as [Hb Econv]. split; [exact Hb|].
  unfold encode. rewrite Econv. fold (expected_spec ver). rewrite <- Hs.
  destruct (bech32_decode_inv s 90 _ _ _ E) as (t & F).
  pose proof (df_split _ _ _ _ _ _ F) as Sp. pose proof (df_charset _ _ _ _ _ _ F) as C.
  pose proof (df_data _ _ _ _ _ _ F) as Dd. pose proof (df_tail6 _ _ _ _ _ _ F) as T6.
  set (DD := map charset_find t) in *.
  assert (LD : length DD = length t) by apply map_length.
  pose proof (tail_syms t C) as SD. fold DD in SD.
  set (chk := skipn (length t - 6) DD).
  assert (EDD : DD = (ver :: data) ++ chk) by (unfold chk; rewrite Dd; symmetry; apply firstn_skipn).
  assert (Lchk : length chk = 6%nat) by (unfold chk; rewrite skipn_length; lia).
  assert (Hsy : syms5 (ver :: data) /\ syms5 chk) by (apply Forall_app; rewrite <- EDD; exact SD).
  destruct Hsy as [Sy1 Sy2].
  pose proof (lower_map_printable s (df_print _ _ _ _ _ _ F)) as Pl. rewrite Sp in Pl.
  apply Forall_app in Pl. destruct Pl as [Ph _].
  (* the checksum in the string is the one the encoder creates *)
  assert (Ecs : bech32_create_checksum hrp (ver :: data) spec = chk).
  { apply (checksum_unique (pm_from polymod_init (bech32_hrp_expand hrp ++ ver :: data)));
      [apply create_checksum_range|exact Sy2|reflexivity|exact Lchk|].
    transitivity (spec_const spec).
    - rewrite <- pm_from_app, <- polymod_pm_from, <- app_assoc. exact (created_polymod hrp (ver :: data) spec Ph Sy1).
    - symmetry. rewrite <- pm_from_app, <- polymod_pm_from, <- app_assoc, <- EDD.
      destruct (verify_inv hrp DD spec (df_verify _ _ _ _ _ _ F)) as [[-> P]|[-> P]]; rewrite P; reflexivity. }
  unfold bech32_encode. rewrite Ecs, <- EDD. unfold DD. rewrite (charset_map_find t C).
  cbn [app]. rewrite <- Sp, DL. reflexivity.
Qed.
